import GoLevel.Model.Key
import GoLevel.Proofs.TableTop
import GoLevel.Proofs.BlockIterSlice
import GoLevel.Proofs.TableMeta
import GoLevel.Proofs.TableFooter
/-!
# Property C13: sorted tables round-trip, lookups, offsets, damage detection

Model: `GoLevel/Model/Block.lean`, `GoLevel/Model/Table.lean` (byte-exact against `table.NewWriter`/`NewReader`,
see `harness/wp/c13`).  Standing size assumptions (the format stores restart points and filter offsets in 32
bits and lengths as 64-bit varints): `SmallKV` (key and value lengths `< 2^64`) and a block / file shorter than
`2^32` bytes.  The checksum is a parameter; `Cksum32` says it is a 32-bit value, `DetectsSingle` that altering
one input position changes it.
-/
namespace GoLevel.C13
open GoLevel

/-! ## (a) block round trip -/

/-- a full forward pass over a written block yields exactly the appended pairs — any restart interval, any
pairs (sortedness is not needed) -/
theorem block_decode_build (ri : Nat) (kvs : List KV) (hs : SmallKV kvs)
    (hsz : (Block.build ri kvs).length < 2 ^ 32) :
    Block.decode (Block.build ri kvs) = some kvs :=
  decode_build ri kvs hs hsz

def exKVs : List KV :=
  [([1], [10]), ([1, 2], [11]), ([1, 2, 3], []), ([2], [13, 14, 15, 16, 17, 18, 19, 20, 21, 22, 23, 24, 25]),
   ([3], [1]), ([3, 0], [2]), ([3, 0, 0], [3])]

theorem exKVs_small : SmallKV exKVs := by
  intro kv h
  simp only [exKVs, List.mem_cons, List.mem_nil_iff, or_false] at h
  rcases h with rfl | rfl | rfl | rfl | rfl | rfl | rfl <;> decide

example : Block.decode (Block.build 2 exKVs) = some exKVs :=
  block_decode_build 2 exKVs exKVs_small (by decide +kernel)

example : Block.decode (Block.build 16 []) = some [] :=
  block_decode_build 16 [] (by intro kv h; simp at h) (by decide +kernel)

/-! ## (b) block seek -/

/-- `blockIter.Seek` (binary search over the restart points, then linear scan) on a written block of strictly
increasing keys lands on the first pair whose key is not below the target -/
theorem block_seek_spec {cmp : Bytes → Bytes → Ordering} (hc : LawfulCmp cmp) (ri : Nat) (kvs : List KV)
    (hs : SmallKV kvs) (hsorted : StrictSorted cmp kvs) (hsz : (Block.build ri kvs).length < 2 ^ 32) (key : Bytes) :
    Block.seek cmp (Block.build ri kvs) key = some (kvs.find? fun e => cmp e.1 key != .lt) :=
  seek_build hc ri kvs hs hsorted hsz key

theorem exKVs_sorted : StrictSorted bytesCompare exKVs := by
  unfold StrictSorted exKVs
  decide

example : Block.seek bytesCompare (Block.build 3 exKVs) [2, 5] = some (some ([3], [1])) := by
  rw [block_seek_spec bytesCompare_lawful 3 exKVs exKVs_small exKVs_sorted (by decide +kernel)]
  decide

example : Block.seek bytesCompare (Block.build 3 exKVs) [9] = some none := by
  rw [block_seek_spec bytesCompare_lawful 3 exKVs exKVs_small exKVs_sorted (by decide +kernel)]
  decide

/-! ## (c) table round trip -/

/-- `NewReader` opens what the writer produced and a full forward iteration yields exactly the appended pairs:
every block size, restart interval, filter setting; both checksum-verification settings -/
theorem table_entries_write (cfg : TableCfg) (hck : Cksum32 cfg.cksum) (kvs : List KV) (hs : SmallKV kvs)
    (hsz : (Table.write cfg kvs).length < 2 ^ 32) (verify : Bool) :
    ∃ t, Table.open cfg verify (Table.write cfg kvs) = some t ∧ t.entries = some kvs :=
  entries_of_write cfg hck kvs hs hsz verify

/-- a configuration for the examples: 32-byte blocks, restart interval 2, no filter, bytewise order with a
comparer that never shortens keys, a toy 32-bit checksum -/
def exCfg : TableCfg := ⟨32, 2, none, 4, bytesCompare, fun _ _ => none, fun _ => none, fun bs => bs.length % 7⟩

example : ∃ t, Table.open exCfg true (Table.write exCfg exKVs) = some t ∧ t.entries = some exKVs :=
  table_entries_write exCfg (by intro bs; simp only [exCfg]; omega) exKVs exKVs_small (by decide +kernel) true

/-! ## (d) lookups -/

/-- `Reader.Find` (unfiltered) on a written table returns the first pair whose key is not below the sought key,
`ErrNotFound` if there is none -/
theorem table_find_spec (cfg : TableCfg) (hok : CfgOK cfg) (kvs : List KV) (hs : SmallKV kvs)
    (hsorted : StrictSorted cfg.cmp kvs) (hk : TailKeysNonempty kvs)
    (hsz : (Table.write cfg kvs).length < 2 ^ 32) (verify : Bool) (key : Bytes) :
    ∃ t, Table.open cfg verify (Table.write cfg kvs) = some t ∧
      t.find key false = resultOf (kvs.find? fun e => cfg.cmp e.1 key != .lt) :=
  let ⟨t, ho, _, hf⟩ := table_find_spec' cfg hok kvs hs hsorted hk hsz verify key
  ⟨t, ho, hf⟩

/-- `Reader.Get`: the value stored under exactly that key, `ErrNotFound` if the key is not in the table -/
theorem table_get_spec (cfg : TableCfg) (hok : CfgOK cfg) (kvs : List KV) (hs : SmallKV kvs)
    (hsorted : StrictSorted cfg.cmp kvs) (hk : TailKeysNonempty kvs)
    (hsz : (Table.write cfg kvs).length < 2 ^ 32) (verify : Bool) (key : Bytes) :
    ∃ t, Table.open cfg verify (Table.write cfg kvs) = some t ∧
      (∀ v, (key, v) ∈ kvs → t.get key = .ok v) ∧ ((∀ kv ∈ kvs, kv.1 ≠ key) → t.get key = .notFound) := by
  obtain ⟨t, ho, hcmp, hf⟩ := table_find_spec' cfg hok kvs hs hsorted hk hsz verify key
  refine ⟨t, ho, ?_, ?_⟩
  · intro v hm
    have := find?_ge_of_mem hok.cmp kvs hsorted (key, v) hm
    simp only at this
    simp [TableR.get, hf, this, resultOf, hcmp, hok.cmp.refl]
  · intro hnone
    unfold TableR.get
    rw [hf]
    cases hfd : kvs.find? (fun e => cfg.cmp e.1 key != .lt) with
    | none => rfl
    | some kv =>
      have hm := List.mem_of_find?_eq_some hfd
      have hne : cfg.cmp kv.1 key ≠ .eq := fun e => hnone kv hm (hok.cmp.eq_of _ _ e)
      simp [resultOf, hcmp, hne]

theorem exCfg_ok : CfgOK exCfg :=
  ⟨bytesCompare_lawful, by intro a b d _ h; simp [exCfg] at h, by intro b d h; simp [exCfg] at h,
   by intro bs; simp only [exCfg]; omega⟩

theorem exKVs_keys : TailKeysNonempty exKVs := by
  intro kv h
  simp only [exKVs, List.tail_cons, List.mem_cons, List.mem_nil_iff, or_false] at h
  rcases h with rfl | rfl | rfl | rfl | rfl | rfl <;> decide

example : ∃ t, Table.open exCfg true (Table.write exCfg exKVs) = some t ∧
    t.find [2, 5] false = .ok ([3], [1]) := by
  obtain ⟨t, ho, hf⟩ := table_find_spec exCfg exCfg_ok exKVs exKVs_small exKVs_sorted exKVs_keys
    (by decide +kernel) true [2, 5]
  exact ⟨t, ho, by rw [hf]; decide⟩

example : ∃ t, Table.open exCfg false (Table.write exCfg exKVs) = some t ∧
    (∀ v, (([1, 2] : Bytes), v) ∈ exKVs → t.get [1, 2] = .ok v) :=
  let ⟨t, ho, h1, _⟩ := table_get_spec exCfg exCfg_ok exKVs exKVs_small exKVs_sorted exKVs_keys
    (by decide +kernel) false [1, 2]
  ⟨t, ho, h1⟩

/-! ## range-restricted iteration -/

/-- `NewIterator(&util.Range{Start, Limit})` (content of a full forward pass; `nil` bounds are `none`): exactly the
pairs with `Start ≤ key < Limit` — any bounds, including inverted ones (`Limit ≤ Start`: nothing) and bounds
outside the key range.  Mirrors `newBlockIter` / `indexIter.Get` after the D21 fix: the index sliced with the
limit inclusive, the slice applied to the first and the last data block. -/
theorem table_range_spec (cfg : TableCfg) (hok : CfgOK cfg) (kvs : List KV) (hs : SmallKV kvs)
    (hsorted : StrictSorted cfg.cmp kvs) (hk : TailKeysNonempty kvs)
    (hsz : (Table.write cfg kvs).length < 2 ^ 32) (verify : Bool) (start limit : Option Bytes) :
    ∃ t, Table.open cfg verify (Table.write cfg kvs) = some t ∧
      t.entriesInRange start limit = some (kvs.filter (inRange cfg.cmp start limit)) :=
  range_of_write cfg hok kvs hs hsorted hk hsz verify start limit

example : ∃ t, Table.open exCfg true (Table.write exCfg exKVs) = some t ∧
    t.entriesInRange (some [1, 2]) (some [3]) = some [([1, 2], [11]), ([1, 2, 3], []),
      ([2], [13, 14, 15, 16, 17, 18, 19, 20, 21, 22, 23, 24, 25])] := by
  obtain ⟨t, ho, hr⟩ := table_range_spec exCfg exCfg_ok exKVs exKVs_small exKVs_sorted exKVs_keys
    (by decide +kernel) true (some [1, 2]) (some [3])
  exact ⟨t, ho, by rw [hr]; decide⟩

/-- inverted bounds yield nothing -/
example : ∃ t, Table.open exCfg true (Table.write exCfg exKVs) = some t ∧
    t.entriesInRange (some [3]) (some [1, 2]) = some [] := by
  obtain ⟨t, ho, hr⟩ := table_range_spec exCfg exCfg_ok exKVs exKVs_small exKVs_sorted exKVs_keys
    (by decide +kernel) true (some [3]) (some [1, 2])
  exact ⟨t, ho, by rw [hr]; decide⟩

/-- corollary: the unrestricted range (`Start = Limit = nil`) yields all pairs (no order assumptions needed) -/
theorem table_range_partial (cfg : TableCfg) (hck : Cksum32 cfg.cksum) (kvs : List KV) (hs : SmallKV kvs)
    (hsz : (Table.write cfg kvs).length < 2 ^ 32) (verify : Bool) :
    ∃ t, Table.open cfg verify (Table.write cfg kvs) = some t ∧ t.entriesInRange none none = some kvs := by
  obtain ⟨t, ho, he⟩ := table_entries_write cfg hck kvs hs hsz verify
  exact ⟨t, ho, by rw [entriesInRange_none, he]⟩

/-! ## (e) approximate offsets -/

/-- `Reader.OffsetOf` never fails on a written table and never decreases as the key grows -/
theorem offsetOf_monotone (cfg : TableCfg) (hok : CfgOK cfg) (kvs : List KV)
    (hsorted : StrictSorted cfg.cmp kvs) (hk : TailKeysNonempty kvs)
    (hsz : (Table.write cfg kvs).length < 2 ^ 32) (verify : Bool) :
    ∃ t, Table.open cfg verify (Table.write cfg kvs) = some t ∧
      ∀ k1 k2, cfg.cmp k1 k2 ≠ .gt → ∃ o1 o2, t.offsetOf k1 = .ok o1 ∧ t.offsetOf k2 = .ok o2 ∧ o1 ≤ o2 := by
  obtain ⟨cs, hfile, hflat, hshape⟩ := write_shape cfg kvs
  rw [hfile] at hsz ⊢
  have hfb : (closeFilter cfg (appended cfg kvs)).isSome = cfg.filter.isSome := by simp [closeFilter]
  obtain ⟨t, ho, hcmp, _, _, _, hidx, hde, _⟩ := open_shape cfg hok.ck cs _ hfb hsz (name_small cfg cs _ hfb hsz) verify
  have hixs : StrictSorted cfg.cmp (ixE cfg 0 cs []) := by
    rcases hshape with ⟨_, h⟩ | ⟨_, h⟩
    · subst h; simp [ixE, StrictSorted]
    · exact ixE_sorted hok.cmp hok.sep hok.succ [] cs 0 (chunksOK_of hflat h hsorted hk)
  refine ⟨t, ho, fun k1 k2 hle => ⟨offsetSpec cfg cs k1, offsetSpec cfg cs k2, ?_, ?_, offsetSpec_mono hok.cmp cs k1 k2 hle⟩⟩
  · exact offsetOf_core cfg hok.cmp cs _ t hcmp hidx hde hsz hixs k1
  · exact offsetOf_core cfg hok.cmp cs _ t hcmp hidx hde hsz hixs k2

example : ∃ t, Table.open exCfg true (Table.write exCfg exKVs) = some t ∧
    ∃ o1 o2, t.offsetOf [1, 2] = .ok o1 ∧ t.offsetOf [3] = .ok o2 ∧ o1 ≤ o2 :=
  let ⟨t, ho, h⟩ := offsetOf_monotone exCfg exCfg_ok exKVs exKVs_sorted exKVs_keys (by decide +kernel) true
  ⟨t, ho, h [1, 2] [3] (by decide)⟩

/-! ## (f) filter blocks -/

/-- **filter partition.**  Feed the filter writer any sequence of data blocks — `add` for each key, then
`flush(end offset)` — with non-decreasing offsets (`bs` lists the blocks as (end offset, keys); block `i` starts
where block `i-1` ended, the first at 0).  Then `finish` emits a filter block holding one filter per key list in
some `segs` such that: the keys added while the block starting at offset `s` was being filled are in list number
`s >>> baseLg`; every list holds only keys of blocks mapped to it; and once the block is read back from a file,
`filterBlock.contains` for a data block at offset `o` consults exactly the filter generated from list
`o >>> baseLg`. -/
theorem filter_partition (pol : FilterPolicy) (lg : Nat) (bs : List (Nat × List Bytes)) (hm : MonoEnds 0 bs) :
    ∃ segs, (feedAll pol lg {} bs).finish pol lg = filterBlockBytes pol lg segs ∧
      (∀ b ∈ histOf 0 bs, ∀ k ∈ b.2, b.1 >>> lg < segs.length ∧ k ∈ segs.getD (b.1 >>> lg) []) ∧
      (∀ f k, k ∈ segs.getD f [] → ∃ b ∈ histOf 0 bs, b.1 >>> lg = f ∧ k ∈ b.2) ∧
      (∀ cksum, Cksum32 cksum → lg < 256 → (flat pol segs).length < 2 ^ 32 → ∀ A C : Bytes,
        ∃ fb, readFilterBlock cksum (A ++ (withTrailer cksum (filterBlockBytes pol lg segs) ++ C))
              ⟨A.length, (filterBlockBytes pol lg segs).length⟩ = some fb ∧
          ∀ o key, o >>> lg < segs.length → segBytes pol (segs.getD (o >>> lg) []) ≠ [] →
            fb.contains pol o key = pol.contains (segBytes pol (segs.getD (o >>> lg) [])) key) := by
  obtain ⟨segs, h1, h2, h3⟩ := filter_partition_writer pol lg bs hm
  refine ⟨segs, h1, h2, h3, ?_⟩
  intro cksum hck hlg hsz A C
  exact ⟨_, readFilterBlock_at hck A C pol lg segs hlg hsz, fun o key hi hne =>
    contains_written pol lg segs hsz o key hi hne⟩

/-- a toy policy for the examples: the filter is the list of first bytes of the keys (plus a terminator) -/
def exPol : FilterPolicy where
  name := [102, 98]
  generate := fun ks => ks.map (fun k => k.headD 0) ++ [0]
  contains := fun f k => f.contains (k.headD 0)

theorem exPol_lawful : LawfulFilter exPol := by
  intro ks k hk
  simp only [exPol, List.contains_eq_mem, List.mem_append, List.mem_map, decide_eq_true_eq]
  exact Or.inl ⟨k, hk, rfl⟩

theorem exPol_gen : GenNonempty exPol := by
  intro ks _
  simp [exPol]

example : ∃ segs, (feedAll exPol 4 {} [(20, [[1], [2]]), (40, [[3]]), (41, [])]).finish exPol 4
      = filterBlockBytes exPol 4 segs ∧
    ∀ b ∈ histOf 0 [(20, [[1], [2]]), (40, [[3]]), (41, [])], ∀ k ∈ b.2,
      b.1 >>> 4 < segs.length ∧ k ∈ segs.getD (b.1 >>> 4) [] :=
  let ⟨segs, h1, h2, _⟩ := filter_partition exPol 4 [(20, [[1], [2]]), (40, [[3]]), (41, [])] (by simp [MonoEnds])
  ⟨segs, h1, h2⟩

/-- with a lawful filter policy (no false negatives, non-empty output for a non-empty key set) a *filtered*
`Find` / `FindKey` of a stored key is never answered "absent": it returns the stored pair -/
theorem table_filtered_find_stored (cfg : TableCfg) (pol : FilterPolicy) (hf : cfg.filter = some pol)
    (hok : CfgOK cfg) (hlaw : LawfulFilter pol) (hgen : GenNonempty pol) (hlg : cfg.filterBaseLg < 256)
    (kvs : List KV) (hs : SmallKV kvs) (hsorted : StrictSorted cfg.cmp kvs) (hk : TailKeysNonempty kvs)
    (hsz : (Table.write cfg kvs).length < 2 ^ 32) (verify : Bool) (kv : KV) (hm : kv ∈ kvs) :
    ∃ t, Table.open cfg verify (Table.write cfg kvs) = some t ∧
      t.find kv.1 true = .ok kv ∧ t.findKey kv.1 true = .ok kv.1 := by
  obtain ⟨cs, hfile, hflat, hshape⟩ := write_shape_f cfg pol hf kvs
  rw [hfile] at hsz ⊢
  have hne : ∀ c ∈ cs, c ≠ [] := by
    rcases hshape with ⟨h, _⟩ | ⟨_, h⟩
    · subst h; simp at hm
    · exact h
  obtain ⟨t, ho, hfind⟩ := find_filtered_stored cfg pol hf hok.cmp hok.sep hok.succ hok.ck hlaw hgen hlg cs
    (chunksOK_of hflat hne hsorted hk) (hflat ▸ hs) hsz verify kv (hflat ▸ hm)
  exact ⟨t, ho, hfind, by simp [TableR.findKey, hfind]⟩

def exCfgF : TableCfg := { exCfg with filter := some exPol }

example : ∃ t, Table.open exCfgF true (Table.write exCfgF exKVs) = some t ∧
    t.find [3, 0] true = .ok ([3, 0], [2]) ∧ t.findKey [3, 0] true = .ok [3, 0] :=
  table_filtered_find_stored exCfgF exPol rfl
    ⟨bytesCompare_lawful, by intro a b d _ h; simp [exCfgF, exCfg] at h, by intro b d h; simp [exCfgF, exCfg] at h,
     by intro bs; simp only [exCfgF, exCfg]; omega⟩
    exPol_lawful exPol_gen (by decide) exKVs exKVs_small exKVs_sorted exKVs_keys (by decide +kernel) true
    ([3, 0], [2]) (by simp [exKVs])

/-! ## (h) `blockIter`: the byte-level iterator over one block refines the cursor

Model: `GoLevel/Model/BlockIter.lean` — `block.seek` / `restartIndex` / `restartOffset` / `entry` and `blockIter`
with `offset`, `prevOffset`, `prevNode`, `prevKeys`, `restartIndex`, `dir`, the slice fields and `err`, methods
`First/Last/Seek/Next/Prev` as coded, `newBlockIter` with a `util.Range` (differential: `tbl biter` lines of
`harness/wp/c13`, answered by the real `blockIter`).  `BIter.run` lists, per call, the Boolean returned and
`Key()/Value()`; `BIter.exec` is the iterator afterwards.  The proofs are over an abstract block layout
(`Proofs/BlockIterLayout.lean`: any strictly increasing restart array whose targets store their key in full), which
`Block.build` output has for every restart interval. -/

/-- **Whole block.**  Over a block written from strictly increasing pairs — any restart interval — a fresh
unsliced `blockIter` answers EVERY finite sequence of `First/Last/Seek/Next/Prev` exactly like the specification
cursor over the pairs: same Boolean, same `Key()/Value()` after each call (restart-point binary search, the
`Prev` cache rebuilt from the previous restart point, direction changes, running off either end and coming
back); and `err` stays `nil` (so no loop of the model runs out of fuel either). -/
theorem block_iter_refines_cursor {cmp : Bytes → Bytes → Ordering} (hc : LawfulCmp cmp) (ri : Nat) (kvs : List KV)
    (hs : SmallKV kvs) (hsorted : StrictSorted cmp kvs) (hsz : (Block.build ri kvs).length < 2 ^ 32)
    (cs : List (Call Bytes)) :
    ∃ b, Block.read (Block.build ri kvs) = some b ∧
      BIter.run cmp b (newBlockIter cmp b none false) cs =
        ((Cursor.run kvs (geK cmp) .soi cs).map fun o => (o.isSome, o)) ∧
      (BIter.exec cmp b (newBlockIter cmp b none false) cs).err = none :=
  ⟨_, read_build_layout ri kvs hsz, run_whole (layout_build ri kvs hs hsz) hc hsorted cs,
    exec_whole (layout_build ri kvs hs hsz) hc hsorted cs⟩

/-- a walk with `Prev` after `Seek`, `Next` after `Last`, movement past both ends -/
def exWalk : List (Call Bytes) :=
  [.first, .next, .next, .prev, .seek [2, 5], .prev, .prev, .last, .next, .prev, .prev, .seek [9], .prev,
   .first, .prev, .prev, .next, .seek [], .prev]

-- restart interval 2 (restart points at entries 0, 2, 4, 6): the answers, spelled out
example : ∃ b, Block.read (Block.build 2 exKVs) = some b ∧
    (BIter.run bytesCompare b (newBlockIter bytesCompare b none false) exWalk).map (fun r => r.2.map (·.1)) =
      [some [1], some [1, 2], some [1, 2, 3], some [1, 2], some [3], some [2], some [1, 2, 3], some [3, 0, 0], none,
       some [3, 0, 0], some [3, 0], none, some [3, 0, 0], some [1], none, none, some [1], some [1], none] := by
  obtain ⟨b, hb, hrun, _⟩ := block_iter_refines_cursor bytesCompare_lawful 2 exKVs exKVs_small exKVs_sorted
    (by decide +kernel) exWalk
  exact ⟨b, hb, by rw [hrun]; decide⟩

-- restart interval 1 (every entry a restart point), 3 and 16 (a single restart point)
example (cs : List (Call Bytes)) : ∃ b, Block.read (Block.build 1 exKVs) = some b ∧
    BIter.run bytesCompare b (newBlockIter bytesCompare b none false) cs =
      ((Cursor.run exKVs (geK bytesCompare) .soi cs).map fun o => (o.isSome, o)) ∧
    (BIter.exec bytesCompare b (newBlockIter bytesCompare b none false) cs).err = none :=
  block_iter_refines_cursor bytesCompare_lawful 1 exKVs exKVs_small exKVs_sorted (by decide +kernel) cs

example (cs : List (Call Bytes)) : ∃ b, Block.read (Block.build 3 exKVs) = some b ∧
    BIter.run bytesCompare b (newBlockIter bytesCompare b none false) cs =
      ((Cursor.run exKVs (geK bytesCompare) .soi cs).map fun o => (o.isSome, o)) ∧
    (BIter.exec bytesCompare b (newBlockIter bytesCompare b none false) cs).err = none :=
  block_iter_refines_cursor bytesCompare_lawful 3 exKVs exKVs_small exKVs_sorted (by decide +kernel) cs

example (cs : List (Call Bytes)) : ∃ b, Block.read (Block.build 16 exKVs) = some b ∧
    BIter.run bytesCompare b (newBlockIter bytesCompare b none false) cs =
      ((Cursor.run exKVs (geK bytesCompare) .soi cs).map fun o => (o.isSome, o)) ∧
    (BIter.exec bytesCompare b (newBlockIter bytesCompare b none false) cs).err = none :=
  block_iter_refines_cursor bytesCompare_lawful 16 exKVs exKVs_small exKVs_sorted (by decide +kernel) cs

/-- **Sliced block.**  `newBlockIter(b, _, &util.Range{Start, Limit}, inclLimit)` — the bounds found with `Seek`
(and `Next` when `inclLimit`), `riStart/riLimit`, `offsetStart/offsetRealStart/offsetLimit` set from them — answers
every call sequence like the cursor over the slice: `sliceBlock` (pairs from the first key `≥ Start` up to the
first key `≥ Limit`, exclusive) for a data block, `sliceIndex` (… inclusive) for the index block; any bounds
(absent, inverted, outside the key range), any restart interval; `err` stays `nil`.  Excluded: an EMPTY block
with a non-nil `Start` (see the example below: a later `Seek` reports corruption). -/
theorem block_iter_slice_refines_cursor {cmp : Bytes → Bytes → Ordering} (hc : LawfulCmp cmp) (ri : Nat)
    (kvs : List KV) (hs : SmallKV kvs) (hsorted : StrictSorted cmp kvs) (hsz : (Block.build ri kvs).length < 2 ^ 32)
    (sl : BRange) (inclLimit : Bool) (cs : List (Call Bytes)) :
    ∃ b, Block.read (Block.build ri kvs) = some b ∧
      BIter.run cmp b (newBlockIter cmp b (some sl) inclLimit) cs =
        ((Cursor.run (sliceOf cmp sl inclLimit kvs) (geK cmp) .soi cs).map fun o => (o.isSome, o)) ∧
      (BIter.exec cmp b (newBlockIter cmp b (some sl) inclLimit) cs).err = none :=
  ⟨_, read_build_layout ri kvs hsz, run_slice (layout_build ri kvs hs hsz) hc hsorted sl inclLimit cs⟩

/-- … for a data block (`inclLimit = false`) the slice is the sub-list of the pairs with `Start ≤ key < Limit` -/
theorem block_iter_range_refines_cursor {cmp : Bytes → Bytes → Ordering} (hc : LawfulCmp cmp) (ri : Nat)
    (kvs : List KV) (hs : SmallKV kvs) (hsorted : StrictSorted cmp kvs) (hsz : (Block.build ri kvs).length < 2 ^ 32)
    (sl : BRange) (cs : List (Call Bytes)) :
    ∃ b, Block.read (Block.build ri kvs) = some b ∧
      BIter.run cmp b (newBlockIter cmp b (some sl) false) cs =
        ((Cursor.run (kvs.filter (inRange cmp sl.start sl.limit)) (geK cmp) .soi cs).map fun o => (o.isSome, o)) ∧
      (BIter.exec cmp b (newBlockIter cmp b (some sl) false) cs).err = none := by
  obtain ⟨b, hb, hrun, herr⟩ := block_iter_slice_refines_cursor hc ri kvs hs hsorted hsz sl false cs
  refine ⟨b, hb, ?_, herr⟩
  rw [hrun]
  simp only [sliceOf, Bool.false_eq_true, if_false]
  rw [sliceBlock_sorted hc sl.start sl.limit kvs hsorted]

-- a slice that starts inside a restart range and ends at a restart point (restart interval 2, range [[1,2], [3])):
-- `Last` then `Prev` down past the start, `Seek` below the start, `Seek` at the limit
example : ∃ b, Block.read (Block.build 2 exKVs) = some b ∧
    (BIter.run bytesCompare b (newBlockIter bytesCompare b (some ⟨some [1, 2], some [3]⟩) false)
        [.last, .prev, .prev, .prev, .next, .seek [], .seek [3], .prev]).map (fun r => r.2.map (·.1)) =
      [some [2], some [1, 2, 3], some [1, 2], none, some [1, 2], some [1, 2], none, some [2]] := by
  obtain ⟨b, hb, hrun, _⟩ := block_iter_range_refines_cursor bytesCompare_lawful 2 exKVs exKVs_small exKVs_sorted
    (by decide +kernel) ⟨some [1, 2], some [3]⟩
    [.last, .prev, .prev, .prev, .next, .seek [], .seek [3], .prev]
  exact ⟨b, hb, by rw [hrun]; decide⟩

-- the index-block flavour (`inclLimit = true`, restart interval 1): the first key `≥ Limit` is kept
example : ∃ b, Block.read (Block.build 1 exKVs) = some b ∧
    (BIter.run bytesCompare b (newBlockIter bytesCompare b (some ⟨some [1, 2], some [2, 5]⟩) true)
        [.last, .next, .prev, .prev, .first]).map (fun r => r.2.map (·.1)) =
      [some [3], none, some [3], some [2], some [1, 2]] := by
  obtain ⟨b, hb, hrun, _⟩ := block_iter_slice_refines_cursor bytesCompare_lawful 1 exKVs exKVs_small exKVs_sorted
    (by decide +kernel) ⟨some [1, 2], some [2, 5]⟩ true [.last, .next, .prev, .prev, .first]
  exact ⟨b, hb, by rw [hrun]; decide⟩

-- the case the theorems used to exclude (defect D57, repaired): on an EMPTY block sliced with a non-nil `Start`, `Seek`
-- makes `block.seek` run with `rstart = rlimit = restartsLen`; the code as found read the restart COUNT (1) as an offset
-- and `Next` reported "entries offset not aligned" (1 ≠ offsetLimit = 0) on an undamaged table.  `block.seek` now returns
-- `restartsOffset` for an index behind the last restart point (`Gen.blockSeekGuardsIndex`), the hypothesis
-- `kvs ≠ [] ∨ sl.start = none` is gone from the two theorems above, and the walk finds nothing, without an error:
example : (Block.read (Block.build 16 [])).map (fun b =>
    (BIter.exec bytesCompare b (newBlockIter bytesCompare b (some ⟨some [1], none⟩) false) [.seek [2]]).err)
      = some none := by decide +kernel

/-- the guard is in the source (`tools/extract`: `if index >= b.restartsLen { return index, b.restartsOffset, nil }`
    before the read of the restart array in `block.seek`) -/
theorem code_block_seek_guards_index : Gen.blockSeekGuardsIndex = true := by decide

/-! ## (g) damage -/

/-- if the block at `bh` verifies, altering any single byte of payload ‖ type ‖ checksum makes `readRawBlock`
(verification on) report corruption — stated over the abstract checksum -/
theorem block_damage_detected {cksum : Bytes → Nat} (hd : DetectsSingle cksum) (file : Bytes) (bh : BH)
    (hin : bh.offset + bh.length + Gen.blockTrailerLen ≤ file.length)
    (hok : rd32 ((rawSlice file bh).drop (bh.length + 1)) = cksum ((rawSlice file bh).take (bh.length + 1)))
    (i : Nat) (b : UInt8) (hlo : bh.offset ≤ i) (hhi : i < bh.offset + bh.length + Gen.blockTrailerLen)
    (hne : b ≠ file[i]'(by omega)) :
    readRawBlock cksum (file.set i b) bh true = none :=
  readRawBlock_damage hd file bh hin hok i b hlo hhi hne

/-- non-vacuity: the little-endian value of the input is a checksum that detects every single altered position -/
example : readRawBlock rdLE ((withTrailer rdLE [1, 2, 3]).set 1 9) ⟨0, 3⟩ true = none :=
  block_damage_detected (cksum := rdLE) (fun bs i b h hne => rdLE_set_ne bs i b h hne)
    (withTrailer rdLE [1, 2, 3]) ⟨0, 3⟩ (by decide) (by decide) 1 9 (by decide) (by decide) (by decide)

-- a checksum without `DetectsSingle` (here: the length mod 7) lets the same damage through
example : readRawBlock (fun bs => bs.length % 7) ((withTrailer (fun bs => bs.length % 7) [1, 2, 3]).set 1 9) ⟨0, 3⟩ true
    = some [1, 9, 3] := by decide

/-! ## (i) the reader repairs of wp64: damaged metaindex block, footer handles, short blocks

Findings 1, 2 and 5 of the Recover hunt wp60, repaired in `table/reader.go` / `table/table.go`.  The reader model
carries the repaired places as switches (`ReaderFix`, `Model/Table.lean`); the theorems are about
`ReaderFix.repaired`, which is the code at hand by `code_reader_repaired` (regenerated facts). -/

/-- the reader of the working tree is the repaired one: the four facts `tools/extract` reads off `NewReader`,
`readRawBlock` and `decodeBlockHandle` -/
theorem code_reader_repaired : ReaderFix.code = ReaderFix.repaired := by decide

/-- **Finding 1 repaired (any content).**  Take a written table, cut it at the metaindex handle of its footer as
`pre ‖ M ‖ post` (`M` = payload ‖ type ‖ checksum of the metaindex block) and put ANY bytes `M'` of the same length
there that do not read as a block (checksum mismatch, unknown type, undecodable).  `NewReader` still constructs a
reader, without filter and with `dataEnd` from the footer, and `Find` (filtered or not), `Get`, range iteration and
full iteration return exactly what the undamaged table returns. -/
theorem damaged_metaindex_block_costs_only_the_filter (cfg : TableCfg) (hok : CfgOK cfg) (kvs : List KV)
    (hs : SmallKV kvs) (hsorted : StrictSorted cfg.cmp kvs) (hk : TailKeysNonempty kvs)
    (hsz : (Table.write cfg kvs).length < 2 ^ 32) (verify : Bool)
    (mbh ibh : BH) (hfh : Table.footerHandles (Table.write cfg kvs) = some (mbh, ibh))
    (pre M M' post : Bytes) (hsplit : Table.write cfg kvs = pre ++ M ++ post) (hpre : pre.length = mbh.offset)
    (hMl : M.length = mbh.length + Gen.blockTrailerLen) (hM' : M'.length = M.length)
    (hbad : readBlock cfg.cksum (pre ++ M' ++ post) mbh true = none) :
    ∃ t0 t, Table.open cfg verify (Table.write cfg kvs) = some t0 ∧
      Table.open cfg verify (pre ++ M' ++ post) = some t ∧ t.filter = none ∧ t.dataEnd = mbh.offset ∧
      (∀ key filtered, t.find key filtered = t0.find key false) ∧
      (∀ key, t.get key = t0.get key) ∧
      (∀ start limit, t.entriesInRange start limit = t0.entriesInRange start limit) ∧
      t.entries = t0.entries := by
  obtain ⟨cs, fb, hfile, _, hfh', hdam⟩ := damaged_meta_of_write cfg hok kvs hs hsorted hk hsz verify
  rw [hfh'] at hfh
  obtain ⟨rfl, rfl⟩ : metaBHOf cfg cs fb = mbh ∧ indexBHOf cfg cs fb = ibh := by
    have := Option.some.inj hfh
    exact ⟨congrArg Prod.fst this, congrArg Prod.snd this⟩
  have e := split_at_meta cfg cs fb pre M post (hfile ▸ hsplit) hpre (by rw [hMl]; rfl) M'
  rw [e] at hbad ⊢
  obtain ⟨t, ho, hcmp, hflt, hde, hf, hr⟩ := hdam M' (by rw [hM', hMl]; rfl) hbad
  obtain ⟨t0, ho0, h1, h2, h3, h4⟩ := same_answers cfg hok kvs hs hsorted hk hsz verify t hcmp hf hr
  exact ⟨t0, t, ho0, ho, hflt, hde, h1, h2, h3, h4⟩

/-- **Finding 1 repaired (one altered byte).**  With a checksum that detects single-position changes (CRC32C does,
C12/C13(g)), altering ANY one byte of the metaindex block of a written table — payload, type byte or stored
checksum — leaves a table that `NewReader` opens without filter and that answers `Find` (filtered or not), `Get`,
range iteration and full iteration exactly like the undamaged table. -/
theorem damaged_metaindex_costs_only_the_filter (cfg : TableCfg) (hok : CfgOK cfg) (hd : DetectsSingle cfg.cksum)
    (kvs : List KV) (hs : SmallKV kvs) (hsorted : StrictSorted cfg.cmp kvs) (hk : TailKeysNonempty kvs)
    (hsz : (Table.write cfg kvs).length < 2 ^ 32) (verify : Bool)
    (mbh ibh : BH) (hfh : Table.footerHandles (Table.write cfg kvs) = some (mbh, ibh))
    (i : Nat) (b : UInt8) (hlo : mbh.offset ≤ i) (hhi : i < mbh.offset + mbh.length + Gen.blockTrailerLen)
    (hne : (Table.write cfg kvs)[i]? ≠ some b) :
    ∃ t0 t, Table.open cfg verify (Table.write cfg kvs) = some t0 ∧
      Table.open cfg verify ((Table.write cfg kvs).set i b) = some t ∧ t.filter = none ∧ t.dataEnd = mbh.offset ∧
      (∀ key filtered, t.find key filtered = t0.find key false) ∧
      (∀ key, t.get key = t0.get key) ∧
      (∀ start limit, t.entriesInRange start limit = t0.entriesInRange start limit) ∧
      t.entries = t0.entries := by
  obtain ⟨cs, fb, hfile, hsz', hfh', hdam⟩ := damaged_meta_of_write cfg hok kvs hs hsorted hk hsz verify
  rw [hfh'] at hfh
  obtain ⟨rfl, rfl⟩ : metaBHOf cfg cs fb = mbh ∧ indexBHOf cfg cs fb = ibh := by
    have := Option.some.inj hfh
    exact ⟨congrArg Prod.fst this, congrArg Prod.snd this⟩
  rw [hfile] at hne
  obtain ⟨hset, hbad⟩ := meta_byte_unreadable cfg hok.ck hd cs fb hsz' i b hlo hhi hne
  rw [hset] at hbad
  have hlen : ((withTrailer cfg.cksum (metaB cfg cs fb)).set (i - (metaBHOf cfg cs fb).offset) b).length =
      (metaB cfg cs fb).length + 5 := by rw [List.length_set, withTrailer_length]
  obtain ⟨t, ho, hcmp, hflt, hde, hf, hr⟩ := hdam _ hlen hbad
  obtain ⟨t0, ho0, h1, h2, h3, h4⟩ := same_answers cfg hok kvs hs hsorted hk hsz verify t hcmp hf hr
  refine ⟨t0, t, ho0, ?_, hflt, hde, h1, h2, h3, h4⟩
  rw [hfile, hset]; exact ho

/-- **Finding 2 repaired.**  `NewReader` constructs a reader only with both footer handles inside the file: they
are the handles the footer names, and each block with its trailer ends within the file.  If a footer handle does not
lie in front of the footer the reader carries the FOOTER error (before anything is read).  And no buffer longer than
the file is ever requested from the pool for the two blocks the footer names — whatever the pool's buffers hold. -/
theorem footer_handles_in_file (cfg : TableCfg) (verify : Bool) (file : Bytes) :
    (∀ t, Table.open cfg verify file = some t →
      Table.footerHandles file = some (t.metaBH, t.indexBH) ∧
      t.metaBH.offset + t.metaBH.length + Gen.blockTrailerLen ≤ file.length ∧
      t.indexBH.offset + t.indexBH.length + Gen.blockTrailerLen ≤ file.length) ∧
    (∀ m i, Table.footerHandles file = some (m, i) →
      ¬ (m.offset + m.length ≤ file.length - Gen.footerLen ∧ i.offset + i.length ≤ file.length - Gen.footerLen) →
      Table.openE cfg verify file = .error .footer) ∧
    (∀ stale n, n ∈ (Table.openX .repaired stale cfg verify file).bufs → n ≤ file.length) := by
  have key : ∀ stale, (∀ m i, Table.footerHandlesX .repaired file = .ok (m, i) →
      ((m.inFile (file.length - Gen.footerLen) && i.inFile (file.length - Gen.footerLen)) = false →
        (Table.openX .repaired stale cfg verify file).res = .error .footer ∧
        (Table.openX .repaired stale cfg verify file).bufs = []) ∧
      ((m.inFile (file.length - Gen.footerLen) && i.inFile (file.length - Gen.footerLen)) = true →
        (∀ n ∈ (Table.openX .repaired stale cfg verify file).bufs,
          n = m.length + Gen.blockTrailerLen ∨ n = i.length + Gen.blockTrailerLen) ∧
        ∀ t, (Table.openX .repaired stale cfg verify file).res = .ok t → t.metaBH = m ∧ t.indexBH = i)) := by
    intro stale m i h
    unfold Table.openX
    rw [h]
    exact openBody_repaired stale cfg verify file m i
  refine ⟨?_, ?_, ?_⟩
  · intro t ho
    unfold Table.open Table.openE at ho
    cases hfx : Table.footerHandlesX .repaired file with
    | error e =>
      unfold Table.openX at ho
      simp [hfx] at ho
    | ok p =>
      obtain ⟨m, i⟩ := p
      have hl := footerHandlesX_length _ _ _ hfx
      obtain ⟨k1, k2⟩ := key [] m i hfx
      cases hin : (m.inFile (file.length - Gen.footerLen) && i.inFile (file.length - Gen.footerLen)) with
      | false => rw [(k1 hin).1] at ho; simp at ho
      | true =>
        cases hres : (Table.openX .repaired [] cfg verify file).res with
        | error e => rw [hres] at ho; simp at ho
        | ok t' =>
          rw [hres] at ho
          have : t' = t := Option.some.inj ho
          subst this
          obtain ⟨hm, hi⟩ := (k2 hin).2 t' hres
          simp only [Bool.and_eq_true] at hin
          refine ⟨by unfold Table.footerHandles; rw [hfx, hm, hi], ?_, ?_⟩
          · rw [hm]; exact inFile_bound m _ hl hin.1
          · rw [hi]; exact inFile_bound i _ hl hin.2
  · intro m i hfh hout
    unfold Table.footerHandles at hfh
    cases hfx : Table.footerHandlesX .repaired file with
    | error e => rw [hfx] at hfh; simp at hfh
    | ok p =>
      rw [hfx] at hfh
      have : p = (m, i) := Option.some.inj hfh
      subst this
      have hin : (m.inFile (file.length - Gen.footerLen) && i.inFile (file.length - Gen.footerLen)) = false := by
        cases h : (m.inFile (file.length - Gen.footerLen) && i.inFile (file.length - Gen.footerLen)) with
        | false => rfl
        | true =>
          exfalso; apply hout
          simp only [BH.inFile, Bool.and_eq_true, decide_eq_true_eq] at h
          omega
      exact ((key [] m i hfx).1 hin).1
  · intro stale n hn
    cases hfx : Table.footerHandlesX .repaired file with
    | error e =>
      unfold Table.openX at hn
      simp [hfx] at hn
    | ok p =>
      obtain ⟨m, i⟩ := p
      have hl := footerHandlesX_length _ _ _ hfx
      obtain ⟨k1, k2⟩ := key stale m i hfx
      cases hin : (m.inFile (file.length - Gen.footerLen) && i.inFile (file.length - Gen.footerLen)) with
      | false => rw [(k1 hin).2] at hn; simp at hn
      | true =>
        have hb := (k2 hin).1 n hn
        simp only [Bool.and_eq_true] at hin
        have b1 := inFile_bound m _ hl hin.1
        have b2 := inFile_bound i _ hl hin.2
        omega

/-- **Finding 5 repaired.**  A block handle that reaches beyond the end of the file is a corrupted block — with
and without checksum verification, for `readRawBlock`, `readBlock`, the data-block read of an open reader, and for
the reader under the switches with repair 5 in, WHATEVER the recycled pool buffer holds (`stale`). -/
theorem short_block_is_corruption (cksum : Bytes → Nat) (file : Bytes) (bh : BH) (verify : Bool)
    (h : file.length < bh.offset + bh.length + Gen.blockTrailerLen) :
    readRawBlock cksum file bh verify = none ∧ readBlock cksum file bh verify = none ∧
      (∀ fx stale, fx.shortReadIsCorruption = true → readBlockX fx stale cksum file bh verify = none) ∧
      (∀ t : TableR, t.file = file → t.cksum = cksum → t.dataBlock bh = none) := by
  refine ⟨readRawBlock_short cksum file bh verify h, readBlock_short cksum file bh verify h, ?_, ?_⟩
  · intro fx stale hfx
    unfold readBlockX
    rw [hfx, if_pos rfl]
    exact readBlock_short cksum file bh verify h
  · intro t hf hc
    unfold TableR.dataBlock
    rw [hf, hc]
    exact readBlock_short cksum file bh t.verify h

/-! ### non-vacuity, and the code as found (decided traces of the reader with a repair switched off) -/

/-- byte sum modulo 2^32: a toy checksum that is a 32-bit value AND detects every single altered position -/
def bsum : Bytes → Nat
  | [] => 0
  | x :: t => x.toNat + bsum t

theorem bsum_set : ∀ (l : Bytes) (i : Nat) (b : UInt8) (h : i < l.length),
    bsum (l.set i b) + l[i].toNat = bsum l + b.toNat := by
  intro l
  induction l with
  | nil => intro i b h; simp at h
  | cons x t ih =>
    intro i b h
    cases i with
    | zero => simp only [List.set_cons_zero, bsum, List.getElem_cons_zero]; omega
    | succ j =>
      simp only [List.set_cons_succ, bsum, List.getElem_cons_succ]
      have := ih j b (by simpa using h)
      omega

theorem bsum_detects : DetectsSingle (fun bs => bsum bs % 4294967296) := by
  intro bs i b h hne
  have h1 := bsum_set bs i b h
  have h2 : b.toNat ≠ bs[i].toNat := fun e => hne (UInt8.toNat_inj.mp e)
  have h3 := b.toNat_lt
  have h4 := bs[i].toNat_lt
  simp only
  omega

/-- the example table with the toy filter and the byte-sum checksum: 229 bytes, filter block at 84, metaindex block
`⟨123, 22⟩` (bytes 123 … 149 with the trailer), index block `⟨150, 26⟩` -/
def exCfgS : TableCfg := { exCfgF with cksum := fun bs => bsum bs % 4294967296 }

theorem exCfgS_ok : CfgOK exCfgS :=
  ⟨bytesCompare_lawful, by intro a b d _ h; simp [exCfgS, exCfgF, exCfg] at h, by intro b d h; simp [exCfgS, exCfgF, exCfg] at h,
   by intro bs; simp only [exCfgS]; omega⟩

example : Table.footerHandles (Table.write exCfgS exKVs) = some (⟨123, 22⟩, ⟨150, 26⟩) := by decide +kernel

-- byte 130 (inside the metaindex payload, the `e` of "filter.") altered: the table opens, without filter, and answers
-- like the undamaged one, which does have its filter
example : ∃ t0 t, Table.open exCfgS true (Table.write exCfgS exKVs) = some t0 ∧
    Table.open exCfgS true ((Table.write exCfgS exKVs).set 130 9) = some t ∧ t.filter = none ∧
    (∀ key filtered, t.find key filtered = t0.find key false) ∧
    (∀ start limit, t.entriesInRange start limit = t0.entriesInRange start limit) :=
  let ⟨t0, t, h0, h1, h2, _, h3, _, h4, _⟩ := damaged_metaindex_costs_only_the_filter exCfgS exCfgS_ok bsum_detects exKVs
    exKVs_small exKVs_sorted exKVs_keys (by decide +kernel) true ⟨123, 22⟩ ⟨150, 26⟩ (by decide +kernel) 130 9
    (by decide) (by decide) (by decide +kernel)
  ⟨t0, t, h0, h1, h2, h3, h4⟩

example : (Table.open exCfgS true (Table.write exCfgS exKVs)).map (fun t => t.filter.isSome) = some true := by
  decide +kernel

-- the same damage on the code AS FOUND (repair 1 off, the others in): the reader carries the metaindex block's
-- error for good — every read of the table fails, Recover drops the table
example : (Table.openX ⟨false, true, true, true⟩ [] exCfgS true ((Table.write exCfgS exKVs).set 130 9)).err
    = some .metaBlock := by decide +kernel

example : (Table.openX .repaired [] exCfgS true ((Table.write exCfgS exKVs).set 130 9)).err = none := by
  decide +kernel

-- any content: 27 bytes `0xff` in the place of the metaindex block (unknown block type, wrong checksum)
example : ∃ t0 t, Table.open exCfgS false (Table.write exCfgS exKVs) = some t0 ∧
    Table.open exCfgS false ((Table.write exCfgS exKVs).take 123 ++ List.replicate 27 255 ++
      (Table.write exCfgS exKVs).drop 150) = some t ∧ t.filter = none ∧ t.entries = t0.entries :=
  let ⟨t0, t, h0, h1, h2, _, _, _, _, h3⟩ := damaged_metaindex_block_costs_only_the_filter exCfgS exCfgS_ok exKVs
    exKVs_small exKVs_sorted exKVs_keys (by decide +kernel) false ⟨123, 22⟩ ⟨150, 26⟩ (by decide +kernel)
    ((Table.write exCfgS exKVs).take 123) (((Table.write exCfgS exKVs).drop 123).take 27) (List.replicate 27 255)
    ((Table.write exCfgS exKVs).drop 150) (by decide +kernel) (by decide +kernel) (by decide +kernel) (by decide +kernel)
    (by decide +kernel)
  ⟨t0, t, h0, h1, h2, h3⟩

/-- the example table of `exCfg` (176 bytes: metaindex `⟨84, 8⟩`, index `⟨97, 26⟩`) with another footer -/
def exRefoot (m i : BH) : Bytes := (Table.write exCfg exKVs).take 128 ++ TableWriter.footer m i

example : exRefoot ⟨84, 8⟩ ⟨97, 26⟩ = Table.write exCfg exKVs := by decide +kernel

-- a metaindex handle beyond the end of the file (offset 1000): the footer error, nothing requested from the pool
example : (Table.openX .repaired [] exCfg true (exRefoot ⟨1000, 8⟩ ⟨97, 26⟩)).err = some .footer ∧
    (Table.openX .repaired [] exCfg true (exRefoot ⟨1000, 8⟩ ⟨97, 26⟩)).bufs = [] := by decide +kernel

-- … an index handle whose length reaches into the footer
example : (Table.openX .repaired [] exCfg true (exRefoot ⟨84, 8⟩ ⟨97, 32⟩)).err = some .footer := by decide +kernel

example : Table.footerHandles (exRefoot ⟨1000, 8⟩ ⟨97, 26⟩) = some (⟨1000, 8⟩, ⟨97, 26⟩) ∧
    Table.openE exCfg true (exRefoot ⟨1000, 8⟩ ⟨97, 26⟩) = .error .footer :=
  ⟨by decide +kernel, (footer_handles_in_file exCfg true _).2.1 ⟨1000, 8⟩ ⟨97, 26⟩ (by decide +kernel) (by decide +kernel)⟩

-- the code AS FOUND on that file (finding 5): the short read goes unnoticed and the checksum is verified over what
-- the recycled buffer holds.  If that is the (byte-identical) metaindex block of the table read before, the table
-- with the damaged footer is ACCEPTED; with a zeroed buffer it is rejected with the metaindex block's error
example : (Table.openX .asFound (withTrailer exCfg.cksum (Block.build 2 [])) exCfg true (exRefoot ⟨1000, 8⟩ ⟨97, 26⟩)).err
    = none := by decide +kernel

example : (Table.openX .asFound [] exCfg true (exRefoot ⟨1000, 8⟩ ⟨97, 26⟩)).err = some .metaBlock := by decide +kernel

-- a footer-only file (48 bytes, intact magic) whose metaindex handle claims 2^62 bytes (finding 2).  As found (only
-- the short-read repair in, so that the trace ends): the reader asks the pool for 2^62 + 5 bytes — the Go runtime
-- panics in `makeslice`; repaired: the footer error, nothing requested
example : (TableWriter.footer ⟨0, 2 ^ 62⟩ ⟨0, 0⟩).length = 48 := by decide +kernel

example : (Table.openX ⟨false, false, true, true⟩ [] exCfg true (TableWriter.footer ⟨0, 2 ^ 62⟩ ⟨0, 0⟩)).bufs = [2 ^ 62 + 5] ∧
    (Table.openX ⟨false, false, true, true⟩ [] exCfg true (TableWriter.footer ⟨0, 2 ^ 62⟩ ⟨0, 0⟩)).err = some .metaBlock := by
  decide +kernel

example : (Table.openX .repaired [] exCfg true (TableWriter.footer ⟨0, 2 ^ 62⟩ ⟨0, 0⟩)).bufs = [] ∧
    (Table.openX .repaired [] exCfg true (TableWriter.footer ⟨0, 2 ^ 62⟩ ⟨0, 0⟩)).err = some .footer := by decide +kernel

-- with repairs 1 and 5 but not 2 the same file would be opened (no filter, empty index handle at 0 …): the request
-- for 2^62 + 5 bytes is still made
example : (Table.openX ⟨true, false, true, true⟩ [] exCfg true (TableWriter.footer ⟨0, 2 ^ 62⟩ ⟨0, 0⟩)).bufs.head? = some (2 ^ 62 + 5) := by
  decide +kernel

/-- a footer (intact magic) that starts with an 11-byte varint: `binary.Uvarint` reports an overflow -/
def exOverflowFooter : Bytes := List.replicate 11 255 ++ List.replicate 29 0 ++ Gen.tableMagic

example : exOverflowFooter.length = Gen.footerLen := by decide

-- `decodeBlockHandle` as found uses the negative count as a slice index (panic); repaired: a bad handle
example : BH.decodeGo false exOverflowFooter = .panics ∧ BH.decodeGo true exOverflowFooter = .bad := by decide +kernel

def errOf {α : Type} : Except OpenErr α → Option OpenErr
  | .ok _ => none
  | .error e => some e

example : errOf (Table.footerHandlesX .asFound exOverflowFooter) = some .panics ∧
    errOf (Table.footerHandlesX .repaired exOverflowFooter) = some .footer := by decide +kernel

-- the second varint overflowing: as found the caller gets a negative count with a half-decoded handle
example : BH.decodeGo false (1 :: List.replicate 11 255) = .neg ⟨1, 0⟩ ∧
    BH.decodeGo true (1 :: List.replicate 11 255) = .bad := by decide +kernel

-- finding 5 on a single block: the file ends inside the block.  Repaired: corruption, whatever the buffer holds;
-- as found: the block the buffer held before is returned
example : readBlockX .repaired (withTrailer exCfg.cksum (Block.build 2 exKVs)) exCfg.cksum [1, 2, 3] ⟨0, (Block.build 2 exKVs).length⟩ true
    = none :=
  (short_block_is_corruption exCfg.cksum [1, 2, 3] ⟨0, (Block.build 2 exKVs).length⟩ true (by decide +kernel)).2.2.1 _ _ rfl

example : (readBlockX .asFound (withTrailer exCfg.cksum (Block.build 2 exKVs)) exCfg.cksum [] ⟨0, (Block.build 2 exKVs).length⟩ true).isSome
    = true := by decide +kernel

/-! ## compressed blocks (reader side; executable model only, tied by the differential) -/

-- literal "ab", then an overlapping copy (offset 2, length 8): "ababababab"
example : Snappy.decode [10, 4, 97, 98, 17, 2] = some [97, 98, 97, 98, 97, 98, 97, 98, 97, 98] := by decide

-- a stated length that the elements do not fill is an error
example : Snappy.decode [11, 4, 97, 98, 17, 2] = none := by decide

-- `readRawBlock` decodes a block whose type byte says snappy (toy checksum as in `exCfg`)
example : readRawBlock (fun bs => bs.length % 7) ([10, 4, 97, 98, 17, 2] ++ [1] ++ le32 0) ⟨0, 6⟩ true
    = some [97, 98, 97, 98, 97, 98, 97, 98, 97, 98] := by decide

end GoLevel.C13

/-- the property theorems of C13 -/
def GoLevel.C13.theorems : List String :=
  ["GoLevel.C13.block_decode_build", "GoLevel.C13.block_seek_spec", "GoLevel.C13.table_entries_write",
   "GoLevel.C13.table_range_spec", "GoLevel.C13.table_find_spec", "GoLevel.C13.table_get_spec", "GoLevel.C13.offsetOf_monotone",
   "GoLevel.C13.filter_partition", "GoLevel.C13.table_filtered_find_stored", "GoLevel.C13.block_damage_detected",
   "GoLevel.C13.block_iter_refines_cursor", "GoLevel.C13.block_iter_slice_refines_cursor",
   "GoLevel.C13.block_iter_range_refines_cursor", "GoLevel.C13.code_block_seek_guards_index", "GoLevel.C13.code_reader_repaired",
   "GoLevel.C13.damaged_metaindex_block_costs_only_the_filter", "GoLevel.C13.damaged_metaindex_costs_only_the_filter",
   "GoLevel.C13.footer_handles_in_file", "GoLevel.C13.short_block_is_corruption"]

#print axioms GoLevel.C13.block_decode_build
#print axioms GoLevel.C13.block_seek_spec
#print axioms GoLevel.C13.table_entries_write
#print axioms GoLevel.C13.table_range_spec
#print axioms GoLevel.C13.table_find_spec
#print axioms GoLevel.C13.table_get_spec
#print axioms GoLevel.C13.offsetOf_monotone
#print axioms GoLevel.C13.filter_partition
#print axioms GoLevel.C13.table_filtered_find_stored
#print axioms GoLevel.C13.block_damage_detected
#print axioms GoLevel.C13.block_iter_refines_cursor
#print axioms GoLevel.C13.block_iter_slice_refines_cursor
#print axioms GoLevel.C13.block_iter_range_refines_cursor
#print axioms GoLevel.C13.code_reader_repaired
#print axioms GoLevel.C13.damaged_metaindex_block_costs_only_the_filter
#print axioms GoLevel.C13.damaged_metaindex_costs_only_the_filter
#print axioms GoLevel.C13.footer_handles_in_file
#print axioms GoLevel.C13.short_block_is_corruption
