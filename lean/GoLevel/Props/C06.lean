import GoLevel.Proofs.LSMCompactView
import GoLevel.Proofs.LSMOverlap
import GoLevel.Proofs.PickCut
/-!
# Property C06 — the live table set is always a well-formed LSM tree

"After every version edit (memdb flush, table compaction, trivial move) the live tables form a
well-formed LSM tree: every table is sorted with exact smallest/largest keys, the tables of each level
≥ 1 have pairwise disjoint user-key ranges and are ordered, and for every user key each level holds only
newer entries than all deeper levels."

Model: `GoLevel/Model/LSM.lean` — `Version.wfB` (`Table.wfB`, `levelDisjointB`, `levelsOrderedB`),
`Version.apply` (`version.spawn` / `versionStaging`), `legalCut`, `getOverlapsL0`, `getOverlapsSorted`,
`getRange`; the edits `flushEdit`, `replaceEdit` and the Go index arithmetic `getOverlapsSortedIdx` are in
`GoLevel/Proofs/LSMEdits.lean`, `GoLevel/Proofs/LSMOverlap.lean`.

The hypotheses are the ones the Go code establishes and a trace validator must check on each edit:
* flush: the new table is newer than everything live, and (if placed at `L > 0`) overlaps no table of
  levels `0…L` — `pickMemdbLevel`;
* compaction (`CompactionOK`): (L0) for `ℓ = 0` the inputs `S0` are closed under user-key overlap within
  level 0 — `expand` calls `getOverlaps(…, overlapped = true)`; (L1) `S1` is exactly the set of tables of
  level `ℓ+1` whose user-key range meets that of `S0` **under the user comparer**; (L2) the output is cut
  only between different user keys.  Each is shown necessary by a concrete counterexample below.
-/
namespace GoLevel.C06

def e (k : UInt8) (seq kind : Nat) (v : UInt8) : Entry := ⟨mkIKey [k] seq kind, [v]⟩

def tA : Table := ⟨5, 10, [e 1 7 0 0, e 2 6 1 0xb2], mkIKey [1] 7 0, mkIKey [2] 6 1⟩
def tB : Table := ⟨4, 10, [e 1 5 1 0xa1, e 3 4 1 0xc1], mkIKey [1] 5 1, mkIKey [3] 4 1⟩
def tC : Table := ⟨2, 10, [e 1 2 1 0xa0, e 2 3 1 0xb0], mkIKey [1] 2 1, mkIKey [2] 3 1⟩
def tD : Table := ⟨3, 10, [e 5 3 1 0xe0], mkIKey [5] 3 1, mkIKey [5] 3 1⟩
def tF : Table := ⟨1, 10, [e 2 1 1 0xbb], mkIKey [2] 1 1, mkIKey [2] 1 1⟩
/-- level 0 = {A, B} (overlapping), level 1 = {C, D}, level 2 = {F} -/
def exV : Version := ⟨[[tA, tB], [tC, tD], [tF]]⟩
def tN1 : Table := ⟨6, 10, [e 1 7 0 0, e 1 5 1 0xa1], mkIKey [1] 7 0, mkIKey [1] 5 1⟩
def tN2 : Table := ⟨7, 10, [e 2 6 1 0xb2, e 2 3 1 0xb0, e 3 4 1 0xc1], mkIKey [2] 6 1, mkIKey [3] 4 1⟩

example : exV.wfB bytewise = true := by decide

/-! ## what well-formedness says -/

/-- `Version.wfB` spelled out by level index -/
theorem wf_iff {c : UCmp} (hl : LawfulUCmp c) (v : Version) :
    v.wfB c = true ↔
      (∀ i, ∀ t ∈ v.lvl i, t.wfB c = true) ∧
      (∀ i, 1 ≤ i → (v.lvl i).Pairwise (fun a b => c.lt a.imax.ukey b.imin.ukey)) ∧
      (∀ i j, i < j → NewerThan (Level.entries (v.lvl i)) (Level.entries (v.lvl j))) := by
  rw [Version.wfB_iff_WFi hl]
  exact ⟨fun h => ⟨h.tables, h.disjoint, h.ordered⟩, fun h => ⟨h.1, h.2.1, h.2.2⟩⟩

/-- on a well-formed level ≥ 1 the concatenated entries are sorted under `icmp` -/
theorem level_sorted {c : UCmp} (hl : LawfulUCmp c) (l : Level) (hwf : ∀ t ∈ l, t.wfB c = true)
    (hd : levelDisjointB c l = true) : sortedB c (Level.entries l) = true :=
  (sortedB_iff hl _).2 (Level.entries_sorted hl l hwf hd)

example : sortedB bytewise (Level.entries [tC, tD]) = true := by decide

/-! ## a generic sufficient condition for any edit -/

/-- any edit satisfying `EditOK` relative to the version keeps it well formed -/
theorem edit_preserves_wf {c : UCmp} (hl : LawfulUCmp c) (v : Version) (ed : Edit) (hv : v.wfB c = true)
    (he : EditOK c v ed) : (v.apply c ed).wfB c = true := apply_wf hl v ed hv he

/-! ## 8. memdb flush -/

/-- **`flush_preserves_wf`**: a table made of a buffer whose entries are newer (per user key) than
everything in the version, placed at level 0 — or at level `L > 0` when no table of levels `0…L` overlaps
its user-key range (`pickMemdbLevel`) — keeps the version well formed. -/
theorem flush_preserves_wf {c : UCmp} (hl : LawfulUCmp c) (v : Version) (t : Table) (L : Nat)
    (hv : v.wfB c = true) (ht : t.wfB c = true) (hnew : newerThanB c t.entries v.entries = true)
    (hno : L = 0 ∨ ∀ i, i ≤ L → ∀ x ∈ v.lvl i, x.overlapsRange c t.imin.ukey t.imax.ukey = false) :
    (v.apply c (flushEdit L t)).wfB c = true :=
  flush_wf hl v t L hv ht ((newerThanB_iff hl _ _).1 hnew) hno

def tM : Table := ⟨9, 1, [e 3 8 1 0xc2, e 4 9 1 0xd0], mkIKey [3] 8 1, mkIKey [4] 9 1⟩
def tM2 : Table := ⟨9, 1, [e 4 9 1 0xd0], mkIKey [4] 9 1, mkIKey [4] 9 1⟩
example : tM.wfB bytewise = true ∧ newerThanB bytewise tM.entries exV.entries = true := by decide
example : exV.apply bytewise (flushEdit 0 tM) = ⟨[[tM, tA, tB], [tC, tD], [tF]]⟩ := by decide
example : (exV.apply bytewise (flushEdit 0 tM)).wfB bytewise = true := by decide
/-- `[4]..[4]` overlaps nothing in levels 0…2: it may go to level 2 -/
example : (∀ i, i ≤ 2 → ∀ x ∈ exV.lvl i, x.overlapsRange bytewise tM2.imin.ukey tM2.imax.ukey = false) := by
  intro i hi
  have : i ∈ [0, 1, 2] := by simp; omega
  revert i; decide
example : exV.apply bytewise (flushEdit 2 tM2) = ⟨[[tA, tB], [tC, tD], [tF, tM2]]⟩
    ∧ (exV.apply bytewise (flushEdit 2 tM2)).wfB bytewise = true := by decide

/-- the no-overlap condition is needed: a newer `[3]` pushed under the level-0 table `B` that holds an
older `[3]` breaks "shallower is newer", and `version.get` returns the stale value -/
example :
    let v' := exV.apply bytewise (flushEdit 1 tM)
    v'.wfB bytewise = false ∧ versionGet bytewise [] v' [3] 9 = .value [0xc1] ∧
    view bytewise v'.entries [3] 9 = some [0xc2] := by decide

/-! ## 9. table compaction -/

/-- **`compaction_preserves_wf`**: replacing `S0 ⊆ level ℓ` and `S1 ⊆ level ℓ+1` by a legal cut of the
builder output at level `ℓ+1` keeps the version well formed, provided `CompactionOK` — (L0), (L1), (L2) of
the header. -/
theorem compaction_preserves_wf {c : UCmp} (hl : LawfulUCmp c) (v : Version) (ℓ : Nat)
    (S0 S1 nts : List Table) (minSeq : Nat) (umin umax : Bytes) (hv : v.wfB c = true)
    (h : CompactionOK c v ℓ S0 S1 nts minSeq umin umax) :
    (v.apply c (replaceEdit ℓ S0 S1 nts)).wfB c = true :=
  compaction_wf hl v ℓ S0 S1 nts minSeq (baseLevelForKey c v ℓ) umin umax hv h.src_sub
    h.dst_sub h.distinct h.cut h.new_wf h.range h.dst_all h.src_closed

/-- the same for any drop predicate `base` (well-formedness does not depend on what the builder drops),
and with the generic form of the replacement: new tables whose entries come from `S0 ∪ S1` and are
pairwise disjoint -/
theorem replace_preserves_wf {c : UCmp} (hl : LawfulUCmp c) (v : Version) (ℓ : Nat)
    (S0 S1 nts : List Table) (umin umax : Bytes) (hv : v.wfB c = true)
    (hS0sub : ∀ t ∈ S0, t ∈ v.lvl ℓ) (hS1sub : ∀ t ∈ S1, t ∈ v.lvl (ℓ + 1))
    (hnt_wf : ∀ t ∈ nts, t.wfB c = true)
    (hnt_sub : ∀ t ∈ nts, ∀ x ∈ t.entries, ∃ s ∈ S0 ++ S1, x ∈ s.entries)
    (hnt_pw : nts.Pairwise (fun a b => tlt c a b ∨ tlt c b a))
    (hrange : ∀ t ∈ S0, c.le umin t.imin.ukey ∧ c.le t.imax.ukey umax)
    (hS1 : ∀ t ∈ v.lvl (ℓ + 1), t.overlapsRange c umin umax = true ↔ t ∈ S1)
    (hsrc : ∀ x ∈ v.lvl ℓ, x ∉ S0 → NewerThan x.entries (Level.entries S0)) :
    (v.apply c (replaceEdit ℓ S0 S1 nts)).wfB c = true :=
  replace_wf hl v ℓ S0 S1 nts umin umax hv hS0sub hS1sub hnt_wf hnt_sub hnt_pw hrange hS1 hsrc

/-- the range `expand` uses (`getRange` of `S0`) satisfies the `range` clause -/
theorem getRange_bounds {c : UCmp} (hl : LawfulUCmp c) (S : List Table) (mn mx : IKey)
    (h : getRange c S = some (mn, mx)) : ∀ t ∈ S, c.le mn.ukey t.imin.ukey ∧ c.le t.imax.ukey mx.ukey :=
  getRange_covers hl S mn mx h

example : getRange bytewise [tA, tB] = some (mkIKey [1] 7 0, mkIKey [3] 4 1) := by decide
example : CompactionOK bytewise exV 0 [tA, tB] [tC] [tN1, tN2] 5 [1] [3] := by decide
example : exV.apply bytewise (replaceEdit 0 [tA, tB] [tC] [tN1, tN2]) = ⟨[[], [tN1, tN2, tD], [tF]]⟩
    ∧ (exV.apply bytewise (replaceEdit 0 [tA, tB] [tC] [tN1, tN2])).wfB bytewise = true := by decide

/-! ### the three closure conditions are needed -/

def tNew : Table := ⟨3, 1, [e 1 7 1 0xa2], mkIKey [1] 7 1, mkIKey [1] 7 1⟩
def tOld : Table := ⟨2, 1, [e 1 5 1 0xa1], mkIKey [1] 5 1, mkIKey [1] 5 1⟩
def tNew' : Table := ⟨4, 1, [e 1 7 1 0xa2], mkIKey [1] 7 1, mkIKey [1] 7 1⟩
def exW : Version := ⟨[[tNew, tOld], []]⟩

/-- **(L0) is needed.**  Level 0 holds `[1]@7` (table 3) and `[1]@5` (table 2).  Compacting table 3 alone —
every clause of `CompactionOK` holds except `src_closed` — moves the newer entry below the older one:
the result is not well formed and `version.get` returns the stale value.  This is why `expand` runs
`getOverlaps(…, overlapped = true)` on level 0. -/
example :
    let v' := exW.apply bytewise (replaceEdit 0 [tNew] [] [tNew'])
    exW.wfB bytewise = true ∧
    (∀ t ∈ [tNew], t ∈ exW.lvl 0) ∧
    legalCut bytewise (build bytewise 9 (baseLevelForKey bytewise exW 0) {} (mergeAll bytewise [tNew]))
      ([tNew'].map (·.entries)) = true ∧
    tNew'.wfB bytewise = true ∧
    (∀ t ∈ exW.lvl 1, t.overlapsRange bytewise [1] [1] = true ↔ t ∈ ([] : List Table)) ∧
    ¬ (∀ x ∈ exW.lvl 0, x ∉ [tNew] → x.overlapsRange bytewise [1] [1] = false) ∧
    v' = ⟨[[tOld], [tNew']]⟩ ∧ v'.wfB bytewise = false ∧
    versionGet bytewise [] v' [1] 9 = .value [0xa1] ∧ view bytewise v'.entries [1] 9 = some [0xa2] := by
  decide

def tP : Table := ⟨5, 1, [e 2 8 1 0xb1, e 3 9 1 0xc1], mkIKey [2] 8 1, mkIKey [3] 9 1⟩
def tQ : Table := ⟨1, 1, [e 1 3 1 0xa0, e 2 4 1 0xb0], mkIKey [1] 3 1, mkIKey [2] 4 1⟩
def tR : Table := ⟨2, 1, [e 3 2 1 0xc0, e 4 1 1 0xd0], mkIKey [3] 2 1, mkIKey [4] 1 1⟩
def tPQ : Table := ⟨6, 1, [e 1 3 1 0xa0, e 2 8 1 0xb1, e 2 4 1 0xb0, e 3 9 1 0xc1], mkIKey [1] 3 1, mkIKey [3] 9 1⟩
def exX : Version := ⟨[[tP], [tQ, tR]]⟩

/-- **(L1) is needed.**  `P = [2]..[3]` at level 0 meets both `Q = [1]..[2]` and `R = [3]..[4]` at level 1.
If `R` is not picked up (`S1 = [Q]`) the output `[1]..[3]` overlaps `R`: level 1 is no longer disjoint. -/
example :
    let v' := exX.apply bytewise (replaceEdit 0 [tP] [tQ] [tPQ])
    exX.wfB bytewise = true ∧
    legalCut bytewise (build bytewise 0 (baseLevelForKey bytewise exX 0) {} (mergeAll bytewise [tP, tQ]))
      ([tPQ].map (·.entries)) = true ∧
    tR.overlapsRange bytewise [2] [3] = true ∧
    v' = ⟨[[], [tPQ, tR]]⟩ ∧ v'.wfB bytewise = false := by decide

def tCut1 : Table := ⟨7, 1, [e 1 7 1 0xa2], mkIKey [1] 7 1, mkIKey [1] 7 1⟩
def tCut2 : Table := ⟨8, 1, [e 1 5 1 0xa1], mkIKey [1] 5 1, mkIKey [1] 5 1⟩

/-- **(L2) is needed.**  Cutting the output between two entries of the same user key (`minSeq = 0`, both
versions of `[1]` are kept) yields two level-1 tables with the same user-key range. -/
example :
    let out := build bytewise 0 (baseLevelForKey bytewise exW 0) {} (mergeAll bytewise [tNew, tOld])
    let v' := exW.apply bytewise (replaceEdit 0 [tNew, tOld] [] [tCut1, tCut2])
    out = [e 1 7 1 0xa2, e 1 5 1 0xa1] ∧
    legalCut bytewise out ([tCut1, tCut2].map (·.entries)) = false ∧
    v' = ⟨[[], [tCut1, tCut2]]⟩ ∧ v'.wfB bytewise = false := by decide

/-! ## 10. trivial move -/

/-- **`trivial_move_preserves_wf`**: a single table of level `ℓ` that overlaps nothing at level `ℓ+1` —
and, for `ℓ = 0`, nothing else at level 0 — may be moved down unchanged. -/
theorem trivial_move_preserves_wf {c : UCmp} (hl : LawfulUCmp c) (v : Version) (ℓ : Nat) (t : Table)
    (hv : v.wfB c = true) (ht : t ∈ v.lvl ℓ)
    (hdst : ∀ x ∈ v.lvl (ℓ + 1), x.overlapsRange c t.imin.ukey t.imax.ukey = false)
    (hL0 : ℓ = 0 → ∀ x ∈ v.lvl 0, x ≠ t → x.overlapsRange c t.imin.ukey t.imax.ukey = false) :
    (v.apply c (replaceEdit ℓ [t] [] [t])).wfB c = true :=
  trivial_move_wf hl v ℓ t hv ht hdst hL0

example : (∀ x ∈ exV.lvl 2, x.overlapsRange bytewise tD.imin.ukey tD.imax.ukey = false) := by decide
example : exV.apply bytewise (replaceEdit 1 [tD] [] [tD]) = ⟨[[tA, tB], [tC], [tF, tD]]⟩
    ∧ (exV.apply bytewise (replaceEdit 1 [tD] [] [tD])).wfB bytewise = true := by decide
/-- the level-0 side condition is needed (same situation as (L0) above, without any rewriting) -/
example : (exW.apply bytewise (replaceEdit 0 [tNew] [] [tNew])) = ⟨[[tOld], [tNew]]⟩
    ∧ (exW.apply bytewise (replaceEdit 0 [tNew] [] [tNew])).wfB bytewise = false := by decide

/-! ## 11. overlap search -/

/-- **`getOverlapsSorted_spec`**: on a sorted, disjoint level the binary-search formulation of
`tFiles.getOverlaps(…, overlapped = false)` — `searchMinUkey` / `searchMaxUkey` and the two "expand by one"
tests — returns exactly the tables whose user-key range meets `[umin, umax]`, **when the two tests use the
user comparer**. -/
theorem getOverlapsSorted_spec {c : UCmp} (hl : LawfulUCmp c) (tables : Level)
    (hwf : ∀ t ∈ tables, t.wfB c = true) (hd : levelDisjointB c tables = true) (umin umax : Bytes) :
    getOverlapsSortedIdx c c.cmp tables umin umax = getOverlapsSorted c tables umin umax := by
  have hle : ∀ t ∈ tables, c.le t.imin.ukey t.imax.ukey := fun t ht => Table.wf_imin_le_imax hl (hwf t ht)
  exact getOverlapsSortedIdx_eq hl tables hle ((levelDisjoint_pairwise hl tables hle).1 hd) umin umax

example : getOverlapsSortedIdx bytewise bytesCompare [tQ, tR, tD] [2] [3] = [tQ, tR] := by decide
example : getOverlapsSortedIdx bytewise bytesCompare [tQ, tR, tD] [5] [9] = [tD] := by decide
example : getOverlapsSortedIdx bytewise bytesCompare [tQ, tR] [5] [9] = [] := by decide

/-! ### what defect D1 (`bytes.Compare` in the two expansion tests) does to the tree

Comparer: reversed byte order (`revCmp`, lawful).  Level 1 = {X1 = [60]..[50], X2 = [40]..[30],
X3 = [20]..[10]} (sorted and disjoint under `revCmp`), level 0 = {Y = [45]..[35]}.  `Y` meets only `X2`,
but the code as written picks `X1`.  Compacting `Y` with `X1` writes `[60]..[35]` next to `X2`: level 1 is
no longer disjoint, and `version.get` misses the live key `[40]`. -/

def r (k : UInt8) (seq : Nat) (v : UInt8) : Entry := ⟨mkIKey [k] seq 1, [v]⟩
def tX1 : Table := ⟨1, 1, [r 60 1 0x60, r 50 2 0x50], mkIKey [60] 1 1, mkIKey [50] 2 1⟩
def tX2 : Table := ⟨2, 1, [r 40 3 0x40, r 30 4 0x30], mkIKey [40] 3 1, mkIKey [30] 4 1⟩
def tX3 : Table := ⟨3, 1, [r 20 5 0x20, r 10 6 0x10], mkIKey [20] 5 1, mkIKey [10] 6 1⟩
def tY : Table := ⟨4, 1, [r 45 8 0x45, r 35 9 0x35], mkIKey [45] 8 1, mkIKey [35] 9 1⟩
def tYX : Table := ⟨5, 1, [r 60 1 0x60, r 50 2 0x50, r 45 8 0x45, r 35 9 0x35], mkIKey [60] 1 1, mkIKey [35] 9 1⟩
def exD1 : Version := ⟨[[tY], [tX1, tX2, tX3]]⟩

example :
    let S1go := getOverlapsSortedIdx revCmp bytesCompare (exD1.lvl 1) [45] [35]
    let v' := exD1.apply revCmp (replaceEdit 0 [tY] S1go [tYX])
    exD1.wfB revCmp = true ∧
    getOverlapsSorted revCmp (exD1.lvl 1) [45] [35] = [tX2] ∧ S1go = [tX1] ∧
    legalCut revCmp (build revCmp 0 (baseLevelForKey revCmp exD1 0) {} (mergeAll revCmp ([tY] ++ S1go)))
      ([tYX].map (·.entries)) = true ∧
    v' = ⟨[[], [tYX, tX2, tX3]]⟩ ∧ v'.wfB revCmp = false ∧
    versionGet revCmp [] exD1 [40] 9 = .value [0x40] ∧ versionGet revCmp [] v' [40] 9 = .miss ∧
    view revCmp v'.entries [40] 9 = some [0x40] := by decide

/-- with the user comparer in the expansion tests the same compaction is fine -/
example :
    let S1 := getOverlapsSortedIdx revCmp revCmp.cmp (exD1.lvl 1) [45] [35]
    let tYX2 : Table := ⟨5, 1, [r 45 8 0x45, r 40 3 0x40, r 35 9 0x35, r 30 4 0x30], mkIKey [45] 8 1, mkIKey [30] 4 1⟩
    S1 = [tX2] ∧ CompactionOK revCmp exD1 0 [tY] S1 [tYX2] 0 [45] [35] ∧
    (exD1.apply revCmp (replaceEdit 0 [tY] S1 [tYX2])).wfB revCmp = true ∧
    versionGet revCmp [] (exD1.apply revCmp (replaceEdit 0 [tY] S1 [tYX2])) [40] 9 = .value [0x40] := by decide

/-- **`getOverlapsL0_spec`**: with fuel `2·len + 1` the level-0 search returns exactly the tables meeting a
final range `[umin', umax'] ⊇ [umin, umax]`, and every returned table lies inside that range: the result
is closed under user-key overlap, contains every table meeting the requested range, and satisfies the
`range` and `src_closed` clauses of `CompactionOK`. -/
theorem getOverlapsL0_spec {c : UCmp} (hl : LawfulUCmp c) (tables : Level) (fuel : Nat) (umin umax : Bytes)
    (hfuel : 2 * tables.length + 1 ≤ fuel) :
    ∃ umin' umax', c.le umin' umin ∧ c.le umax umax' ∧
      getOverlapsL0 c tables fuel umin umax = tables.filter (·.overlapsRange c umin' umax') ∧
      (∀ t ∈ getOverlapsL0 c tables fuel umin umax, c.le umin' t.imin.ukey ∧ c.le t.imax.ukey umax') :=
  GoLevel.getOverlapsL0_spec hl tables fuel umin umax hfuel

example : getOverlapsL0 bytewise [tA, tB] 5 [2] [2] = [tA, tB] := by decide

/-! ## 12. the inputs the code chooses (`session_compaction.go`: `pickCompaction`, `getCompactionRange`, `newCompaction`, `expand`)

Model: `GoLevel/Model/Pick.lean`; proofs: `GoLevel/Proofs/PickOverlap.lean`, `PickExpand.lean`, `PickInputs.lean`.
The input clauses of `CompactionOK` — so far checked on every real compaction by the trace validator — are
derived from the selection logic. -/

/-- **`compaction_inputs_closed`** (P1).  On a well-formed version, `newCompaction` applied to any non-empty
sublist `t0` of level `src` does not panic, and the sets `expand` settles on — also after its "grow the source
level" step — satisfy the input conditions of `CompactionOK` for the range `[imin.ukey, imax.ukey]` it
records: the level-`src` inputs lie in the level, contain `t0` and are bounded by the range (which is their
`getRange`); the level-`src+1` inputs are **exactly** the tables of that level whose user-key range meets it (no
overlapping table is left behind); for `src = 0` no level-0 table outside the inputs meets it. -/
theorem compaction_inputs_closed {c : UCmp} (hl : LawfulUCmp c) (o : Pick.Limits) (v : Version)
    (hv : v.wfB c = true) (src : Nat) (t0 : List Table) (hsub : t0.Sublist (v.lvl src)) (hne : t0 ≠ []) :
    ∃ cm, Pick.newCompaction c o v src t0 = some cm ∧
      (∀ t ∈ cm.s0, t ∈ v.lvl src) ∧ (∀ t ∈ cm.s1, t ∈ v.lvl (src + 1)) ∧ (∀ t ∈ t0, t ∈ cm.s0) ∧
      getRange c cm.s0 = some (cm.imin, cm.imax) ∧
      (∀ t ∈ cm.s0, c.le cm.imin.ukey t.imin.ukey ∧ c.le t.imax.ukey cm.imax.ukey) ∧
      (∀ t ∈ v.lvl (src + 1), t.overlapsRange c cm.imin.ukey cm.imax.ukey = true ↔ t ∈ cm.s1) ∧
      (src = 0 → ∀ x ∈ v.lvl 0, x ∉ cm.s0 → x.overlapsRange c cm.imin.ukey cm.imax.ukey = false) := by
  have hw := (Version.wfB_iff_WFi hl v).1 hv
  obtain ⟨cm, hcm⟩ := Pick.newCompaction_isSome hl o v hw src t0 hsub hne
  obtain ⟨hin, hrng, _, hkeep, _⟩ := Pick.newCompaction_ok hl o v hw src t0 hsub hne cm hcm
  exact ⟨cm, hcm, hin.src_sub, hin.dst_sub, hkeep, hrng, hin.range, hin.dst_all, hin.src_closed⟩

/-- … for every way `pickCompaction` picks (score based: the first table after the compaction pointer, else
the first table; seek based: the table recorded in `v.cSeek`, which is a table of `v`) -/
theorem pick_compaction_inputs_closed {c : UCmp} (hl : LawfulUCmp c) (o : Pick.Limits) (v : Version)
    (hv : v.wfB c = true) (p : Pick.PickState) (hseek : ∀ lvl t, p.cSeek = some (lvl, t) → t ∈ v.lvl lvl)
    (src : Nat) (t0 : List Table) (hpick : Pick.pickInputs c v p = some (src, t0)) :
    ∃ cm, Pick.pickCompaction c o v p = some cm ∧ cm.sourceLevel = src ∧
      (∀ t ∈ cm.s0, t ∈ v.lvl src) ∧ (∀ t ∈ cm.s1, t ∈ v.lvl (src + 1)) ∧ (∀ t ∈ t0, t ∈ cm.s0) ∧
      (∀ t ∈ cm.s0, c.le cm.imin.ukey t.imin.ukey ∧ c.le t.imax.ukey cm.imax.ukey) ∧
      (∀ t ∈ v.lvl (src + 1), t.overlapsRange c cm.imin.ukey cm.imax.ukey = true ↔ t ∈ cm.s1) ∧
      (src = 0 → ∀ x ∈ v.lvl 0, x ∉ cm.s0 → x.overlapsRange c cm.imin.ukey cm.imax.ukey = false) := by
  obtain ⟨hsub, hne, _⟩ := Pick.pickInputs_ok c v p hseek src t0 hpick
  obtain ⟨cm, hcm, h1, h2, h3, _, h5, h6, h7⟩ := compaction_inputs_closed hl o v hv src t0 hsub hne
  refine ⟨cm, ?_, (Pick.newCompaction_cursorInv c o v src t0 cm hcm []).2.1, h1, h2, h3, h5, h6, h7⟩
  unfold Pick.pickCompaction
  rw [hpick]; exact hcm

/-- … and for `getCompactionRange` (`CompactRange`; bounds may be nil; the source-size limit may cut the
level-`src` set short when `src > 0`) -/
theorem range_compaction_inputs_closed {c : UCmp} (hl : LawfulUCmp c) (o : Pick.Limits) (v : Version)
    (hv : v.wfB c = true) (src : Nat) (umin umax : Option Bytes) (noLimit : Bool) (t0 : List Table)
    (hr : Pick.rangeInputs c o v src umin umax noLimit = some t0) :
    ∃ cm, Pick.getCompactionRange c o v src umin umax noLimit = some cm ∧ cm.sourceLevel = src ∧
      (∀ t ∈ cm.s0, t ∈ v.lvl src) ∧ (∀ t ∈ cm.s1, t ∈ v.lvl (src + 1)) ∧ (∀ t ∈ t0, t ∈ cm.s0) ∧
      (∀ t ∈ cm.s0, c.le cm.imin.ukey t.imin.ukey ∧ c.le t.imax.ukey cm.imax.ukey) ∧
      (∀ t ∈ v.lvl (src + 1), t.overlapsRange c cm.imin.ukey cm.imax.ukey = true ↔ t ∈ cm.s1) ∧
      (src = 0 → ∀ x ∈ v.lvl 0, x ∉ cm.s0 → x.overlapsRange c cm.imin.ukey cm.imax.ukey = false) := by
  obtain ⟨hsub, hne⟩ := Pick.rangeInputs_ok c o v src umin umax noLimit t0 hr
  obtain ⟨cm, hcm, h1, h2, h3, _, h5, h6, h7⟩ := compaction_inputs_closed hl o v hv src t0 hsub hne
  refine ⟨cm, ?_, (Pick.newCompaction_cursorInv c o v src t0 cm hcm []).2.1, h1, h2, h3, h5, h6, h7⟩
  unfold Pick.getCompactionRange
  rw [hr]; exact hcm

/-- hence: a compaction built by `newCompaction` whose *output* is a legal cut of the builder output keeps the
version well formed — no hypothesis about the inputs is left -/
theorem picked_compaction_preserves_wf {c : UCmp} (hl : LawfulUCmp c) (o : Pick.Limits) (v : Version)
    (hv : v.wfB c = true) (src : Nat) (t0 : List Table) (hsub : t0.Sublist (v.lvl src)) (hne : t0 ≠ [])
    (cm : Pick.Compaction) (hcm : Pick.newCompaction c o v src t0 = some cm) (nts : List Table) (minSeq : Nat)
    (hdistinct : ((cm.s0 ++ cm.s1).flatMap (·.entries)).Pairwise (fun a b => a.key ≠ b.key))
    (hcut : legalCut c (build c minSeq (baseLevelForKey c v src) {} (mergeAll c (cm.s0 ++ cm.s1)))
      (nts.map (·.entries)) = true)
    (hnew : ∀ t ∈ nts, t.wfB c = true) :
    CompactionOK c v src cm.s0 cm.s1 nts minSeq cm.imin.ukey cm.imax.ukey ∧
    (v.apply c (replaceEdit src cm.s0 cm.s1 nts)).wfB c = true := by
  have hok := Pick.compactionOK_of_built hl o v ((Version.wfB_iff_WFi hl v).1 hv) src t0 hsub hne cm hcm nts
    minSeq hdistinct hcut hnew
  exact ⟨hok, compaction_preserves_wf hl v src cm.s0 cm.s1 nts minSeq _ _ hv hok⟩

def lim (n : Nat) : Pick.Limits := ⟨fun _ => n, fun _ => n, fun _ => n⟩

/-- non-vacuity on the 3-level `exV`: a level-0 compaction started from `A` alone (`[1]..[2]`) is closed to
`{A, B}` (`B = [1]..[3]` overlaps `A`), picks up `C` (`[1]..[2]`) but not `D` (`[5]`) at level 1, and has `F` as
grandparent; the result is the compaction of the example `CompactionOK` above -/
example :
    (Pick.newCompaction bytewise (lim 100) exV 0 [tA]).map (·.chosen) =
      some ⟨[tA, tB], [tC], mkIKey [1] 7 0, mkIKey [3] 4 1, [tF]⟩ := by decide
example : [tA].Sublist (exV.lvl 0) := by decide
/-- score-based pick at level 1 with the compaction pointer at `C`'s largest key: `D` is chosen; without a
pointer, `C`; seek-based: the recorded table -/
example : Pick.pickInputs bytewise exV ⟨true, 1, [none, some tC.imax], none⟩ = some (1, [tD]) ∧
    Pick.pickInputs bytewise exV ⟨true, 1, [], none⟩ = some (1, [tC]) ∧
    Pick.pickInputs bytewise exV ⟨true, 1, [none, some tD.imax], none⟩ = some (1, [tC]) ∧
    Pick.pickInputs bytewise exV ⟨false, 0, [], some (1, tD)⟩ = some (1, [tD]) ∧
    Pick.pickInputs bytewise exV ⟨false, 0, [], none⟩ = none := by decide
/-- `CompactRange(nil, [2])` at level 1 -/
example : Pick.rangeInputs bytewise (lim 100) exV 1 none (some [2]) true = some [tC] := by decide

/-! ### the "grow the source level" step

level 1 = {G1 = `[1]..[2]`, G2 = `[3]..[4]`}, level 2 = {H = `[1]..[4]`}, level 3 = {K = `[2]..[2]`}.  Started from
`G1`, the level-2 set is `{H}`; the whole range `[1]..[4]` also covers `G2` at level 1 and adding it does not
change the level-2 set: with a generous limit the compaction grows to `{G1, G2}`, with a tight one it does not. -/

def tG1 : Table := ⟨11, 10, [e 1 15 1 0x11, e 2 16 1 0x12], mkIKey [1] 15 1, mkIKey [2] 16 1⟩
def tG2 : Table := ⟨12, 10, [e 3 17 1 0x13, e 4 18 1 0x14], mkIKey [3] 17 1, mkIKey [4] 18 1⟩
def tH : Table := ⟨13, 10, [e 1 11 1 0x21, e 4 12 1 0x24], mkIKey [1] 11 1, mkIKey [4] 12 1⟩
def tK : Table := ⟨14, 10, [e 2 1 1 0x32], mkIKey [2] 1 1, mkIKey [2] 1 1⟩
def exG : Version := ⟨[[], [tG1, tG2], [tH], [tK]]⟩

example : exG.wfB bytewise = true := by decide
example :
    (Pick.newCompaction bytewise (lim 100) exG 1 [tG1]).map (·.chosen) =
      some ⟨[tG1, tG2], [tH], mkIKey [1] 15 1, mkIKey [4] 18 1, [tK]⟩ ∧
    (Pick.newCompaction bytewise (lim 20) exG 1 [tG1]).map (·.chosen) =
      some ⟨[tG1], [tH], mkIKey [1] 15 1, mkIKey [2] 16 1, [tK]⟩ := by decide

/-! ### where the builder cuts (`tableCompactionBuilder.run`: `shouldStopBefore`, `needFlush`)

Model: `Pick.cutStep`, `Pick.cutRun`, `Pick.runTables` (`GoLevel/Model/Pick.lean`); proofs: `GoLevel/Proofs/PickCut.lean`. -/

/-- **`builder_cut_legal`** (L2 derived from the code).  For a compaction fresh from `newCompaction` on a
well-formed version, the tables `run` writes for the merged input — rotating only at the first occurrence of a
user key, when `shouldStopBefore` (grandparent overlap) or `needFlush` (any size predicate) ask for it, and
dropping entries with the *stateful* `baseLevelForKey` — are a legal cut of the model builder's output. -/
theorem builder_cut_legal {c : UCmp} (hl : LawfulUCmp c) (o : Pick.Limits) (v : Version) (hv : v.wfB c = true)
    (src : Nat) (t0 : List Table) (cm : Pick.Compaction) (hcm : Pick.newCompaction c o v src t0 = some cm)
    (minSeq : Nat) (needFlush : List Entry → Bool)
    (hdistinct : ((cm.s0 ++ cm.s1).flatMap (·.entries)).Pairwise (fun a b => a.key ≠ b.key)) :
    legalCut c (build c minSeq (baseLevelForKey c v src) {} (mergeAll c (cm.s0 ++ cm.s1)))
      (Pick.runTables c minSeq needFlush cm (mergeAll c (cm.s0 ++ cm.s1))) = true :=
  Pick.runTables_legal hl o v ((Version.wfB_iff_WFi hl v).1 hv) src t0 cm hcm minSeq needFlush _
    (Pick.ukeys_sorted_of_ESorted hl _ (mergeAll_sorted hl _ hdistinct))

/-- **`run_compaction_ok`**: all of `CompactionOK` from the code's logic.  What remains as hypotheses are facts
about other layers: the input tables hold no internal key twice (`UniqSeq` of the version), and the table
writer records each output table's exact bounds and order (`Table.wfB`, C13). -/
theorem run_compaction_ok {c : UCmp} (hl : LawfulUCmp c) (o : Pick.Limits) (v : Version) (hv : v.wfB c = true)
    (src : Nat) (t0 : List Table) (hsub : t0.Sublist (v.lvl src)) (hne : t0 ≠ []) (cm : Pick.Compaction)
    (hcm : Pick.newCompaction c o v src t0 = some cm) (minSeq : Nat) (needFlush : List Entry → Bool)
    (nts : List Table)
    (hnts : nts.map (·.entries) = Pick.runTables c minSeq needFlush cm (mergeAll c (cm.s0 ++ cm.s1)))
    (hnew : ∀ t ∈ nts, t.wfB c = true)
    (hdistinct : ((cm.s0 ++ cm.s1).flatMap (·.entries)).Pairwise (fun a b => a.key ≠ b.key)) :
    CompactionOK c v src cm.s0 cm.s1 nts minSeq cm.imin.ukey cm.imax.ukey ∧
    (v.apply c (replaceEdit src cm.s0 cm.s1 nts)).wfB c = true :=
  picked_compaction_preserves_wf hl o v hv src t0 hsub hne cm hcm nts minSeq hdistinct
    (by rw [hnts]; exact builder_cut_legal hl o v hv src t0 cm hcm minSeq needFlush hdistinct) hnew

/-- non-vacuity on `exV`, level-0 compaction from `A`, `minSeq = 5`, a table is "full" with two entries: the
output `[1]@7 [1]@5 [2]@6 [2]@3 [3]@4` is cut before `[2]` and before `[3]`, never between the two `[1]` or the two
`[2]`; with a grandparent-overlap limit of 0 and no size limit, `shouldStopBefore` alone cuts once the
grandparent `F = [2]..[2]` has been passed (before `[3]`) -/
example :
    (Pick.newCompaction bytewise (lim 100) exV 0 [tA]).map (fun cm =>
      Pick.runTables bytewise 5 (fun tw => decide (tw.length ≥ 2)) cm (mergeAll bytewise (cm.s0 ++ cm.s1))) =
      some [[e 1 7 0 0, e 1 5 1 0xa1], [e 2 6 1 0xb2, e 2 3 1 0xb0], [e 3 4 1 0xc1]] ∧
    (Pick.newCompaction bytewise (lim 0) exV 0 [tA]).map (fun cm =>
      Pick.runTables bytewise 5 (fun _ => false) cm (mergeAll bytewise (cm.s0 ++ cm.s1))) =
      some [[e 1 7 0 0, e 1 5 1 0xa1, e 2 6 1 0xb2, e 2 3 1 0xb0], [e 3 4 1 0xc1]] := by decide

/-- **`trivial_move_ok`** (P3).  If `trivial()` holds for a compaction built by `newCompaction` on a well-formed
version — one level-`src` input, no level-`src+1` input, grandparent overlap within the limit — then that
single table overlaps nothing at level `src+1` (and, for `src = 0`, nothing else at level 0), i.e. the
hypotheses of `trivial_move_preserves_wf` hold, and moving it down keeps the version well formed. -/
theorem trivial_move_ok {c : UCmp} (hl : LawfulUCmp c) (o : Pick.Limits) (v : Version) (hv : v.wfB c = true)
    (src : Nat) (t0 : List Table) (hsub : t0.Sublist (v.lvl src)) (hne : t0 ≠ []) (cm : Pick.Compaction)
    (hcm : Pick.newCompaction c o v src t0 = some cm) (htriv : cm.trivial = true) :
    ∃ t, cm.s0 = [t] ∧ cm.s1 = [] ∧ (∀ x ∈ t0, x = t) ∧ t ∈ v.lvl src ∧
      (∀ x ∈ v.lvl (src + 1), x.overlapsRange c t.imin.ukey t.imax.ukey = false) ∧
      (src = 0 → ∀ x ∈ v.lvl 0, x ≠ t → x.overlapsRange c t.imin.ukey t.imax.ukey = false) ∧
      (v.apply c (replaceEdit src [t] [] [t])).wfB c = true :=
  Pick.trivial_move_wf_of_built hl o v hv src t0 hsub hne cm hcm htriv

/-- non-vacuity on `exV`: the compaction picked from `D` at level 1 is trivial (`D = [5]` meets nothing at
level 2, no grandparents); the one picked from `C` is not (`F = [2]` at level 2 overlaps `C`); nor is the
level-0 one from `A` -/
example :
    (Pick.newCompaction bytewise (lim 100) exV 1 [tD]).map (fun cm => (cm.s0, cm.s1, cm.trivial)) =
      some ([tD], [], true) ∧
    (Pick.newCompaction bytewise (lim 100) exV 1 [tC]).map (fun cm => (cm.s0, cm.s1, cm.trivial)) =
      some ([tC], [tF], false) ∧
    (Pick.newCompaction bytewise (lim 100) exV 0 [tA]).map (·.trivial) = some false ∧
    (exV.apply bytewise (replaceEdit 1 [tD] [] [tD])).wfB bytewise = true := by decide
/-- too much grandparent overlap also makes a single-table compaction non-trivial (`K`, 10 bytes, against a
limit of 5) -/
example :
    (Pick.newCompaction bytewise (lim 100) ⟨[[], [tG1], [], [tK]]⟩ 1 [tG1]).map (fun cm => (cm.gp, cm.trivial)) =
      some ([tK], true) ∧
    (Pick.newCompaction bytewise (lim 5) ⟨[[], [tG1], [], [tK]]⟩ 1 [tG1]).map (fun cm => (cm.gp, cm.trivial)) =
      some ([tK], false) := by decide

end GoLevel.C06

def GoLevel.C06.theorems : List String :=
  ["GoLevel.C06.wf_iff", "GoLevel.C06.level_sorted", "GoLevel.C06.edit_preserves_wf",
   "GoLevel.C06.flush_preserves_wf", "GoLevel.C06.compaction_preserves_wf",
   "GoLevel.C06.replace_preserves_wf", "GoLevel.C06.getRange_bounds",
   "GoLevel.C06.trivial_move_preserves_wf", "GoLevel.C06.getOverlapsSorted_spec",
   "GoLevel.C06.getOverlapsL0_spec", "GoLevel.C06.compaction_inputs_closed",
   "GoLevel.C06.pick_compaction_inputs_closed", "GoLevel.C06.range_compaction_inputs_closed",
   "GoLevel.C06.picked_compaction_preserves_wf", "GoLevel.C06.builder_cut_legal",
   "GoLevel.C06.run_compaction_ok", "GoLevel.C06.trivial_move_ok"]
