import GoLevel.Proofs.IterErrStack
import GoLevel.Proofs.IterErrGenuine
/-!
# Properties C02 / C08 on the error paths of the iterator stack

C08: "with checksum verification on (the default) damaged data is reported as an error rather than served";
C02's cursor semantics is claimed for undamaged data.  Here: what `indexedIterator`, `mergedIterator` and
`dbIter` do when a child iterator fails (`GoLevel/Model/IterErr.lean`: `EIndexed`, `EMerged`, `EDBIter` over
children that fail at an arbitrary movement with a corruption or an I/O error).

* strict mode (the default, `opt.DefaultStrict ∋ StrictReader`): `strict_error_is_reported` (raw iterator) and
  `strict_error_is_reported_db` (DB iterator, for the code as it is: `code_prev_checks_err`) — for EVERY call
  sequence, every answer given while `Error()` is nil is the specification cursor's answer (over all entries of
  all children, as if nothing were damaged); the call during which a child fails returns `false` with that
  error, and so does every later call; `strict_hides_no_error`: while `Error()` is nil no child has failed.
* the code as found (defect D40: `dbIter.prev()` returned its candidate without consulting the raw iterator's
  error): `d40_backward_serves_stale_pair` is the decided run, `strict_error_is_reported_db_pre_repair` what
  held then (the error shows one call late).
* non-strict mode: `nonstrict_yields_only_genuine_pairs_partial` (never an error for corruption; every pair
  shown is the pair under one of the children) and the decided run `nonstrict_skips_healthy_entry`.
* `errors_coincide_when_no_child_fails`, `call_without_error_is_error_free_call`: the error-free models of
  C02 are the special case.
-/
namespace GoLevel.C02

open EMerged (Healthy)

/-! ## a. strict mode: the raw iterator -/

/-- the error-free counterparts of the children -/
abbrev plain (specs : List ENodeSpec) : List NodeSpec := specs.map (·.spec)

/-- **Strict mode, raw iterator.**  Children: memdb / table iterators that fail as a whole at any movement
(`ENodeSpec.arr xs plan`) and indexed iterators whose blocks fail at any movement of their data iterator
(`ENodeSpec.idx`), with a corruption or an I/O error; `U` the sorted union of ALL their entries.  For every call
sequence the strict merged iterator answers like the cursor over `U` while `Error()` is nil; the first
answer with an error is "invalid", and every later answer is "invalid, the same error" (`Reported`). -/
theorem strict_error_is_reported {c : UCmp} (hl : LawfulUCmp c) (specs : List ENodeSpec)
    (hok : ∀ sp ∈ plain specs, sp.OK c) (U : List Entry) (hU : MergeOK c ((plain specs).map (·.list)) U)
    (cs : List (Call IKey)) :
    Reported ((EMerged.ops (ENode.ops c) c).run (eRaw specs) cs) (Cursor.run U (geKey c) .soi cs) := by
  have hsim := MergedIter.sim hl (Node.ops c) (stackRs c (plain specs)) ((plain specs).map (·.list)) U hU
    (stack_children_sim hl (plain specs) hok)
  refine (EMerged.failSim (ENode.failSim c) c).run_reported hsim cs (eRaw specs) .soi (eRaw_healthy specs) ?_
  rw [eRaw_proj]
  exact stack_rel_new c (plain specs) U

/-- **Nothing is hidden.**  As long as every answer had `Error()` nil, no child has failed: the state is
healthy (no error at the merged iterator, every array child without error, every nested indexed iterator
without error and with a healthy data iterator). -/
theorem strict_hides_no_error (c : UCmp) (specs : List ENodeSpec) (cs : List (Call IKey))
    (h : ∀ r ∈ (EMerged.ops (ENode.ops c) c).run (eRaw specs) cs, r.2 = none) :
    Healthy ENode.Healthy (EMerged.after (ENode.ops c) c (eRaw specs) cs) :=
  (EMerged.failSim (ENode.failSim c) c).run_healthy cs (eRaw specs) (eRaw_healthy specs) h

/-- the four children `[a,d] [b] [] [c,e]` of C02's merged example; the second fails at its movement number 2
with a corruption, the fourth at its movement number 3 with an I/O error -/
def exArr : List ENodeSpec :=
  [.arr [MergedExample.a, MergedExample.d] none, .arr [MergedExample.b] (some (2, .corrupted)), .arr [] none,
   .arr [MergedExample.c, MergedExample.e] (some (3, .io))]

example (cs : List (Call IKey)) :
    Reported ((EMerged.ops (ENode.ops bytewise) bytewise).run (eRaw exArr) cs)
      (Cursor.run MergedExample.U (geKey bytewise) .soi cs) :=
  strict_error_is_reported bytewise_lawful exArr (fun sp h => by
    simp only [plain, exArr, List.map_cons, List.map_nil, List.mem_cons, List.not_mem_nil, or_false] at h
    rcases h with rfl | rfl | rfl | rfl <;> trivial) MergedExample.U MergedExample.mergeOK cs

/-- two calls without an error: every child is still healthy -/
example : Healthy ENode.Healthy (EMerged.after (ENode.ops bytewise) bytewise (eRaw exArr) [.first, .next]) :=
  strict_hides_no_error bytewise exArr [.first, .next] (by decide)

/-- the run: `First` (movement 0 of every child), `Next`, `Next` show `a b c`; the third `Next` moves child 3
(`c → e`, its movement 1)…; `Prev` after that re-seeks every other child: child 1's movements 1 and 2 — the
second one fails: the call returns `false`, `Error()` is the corruption, for ever -/
example : ((EMerged.ops (ENode.ops bytewise) bytewise).run (eRaw exArr) [.first, .next, .next, .prev, .next, .first]).map
      (fun r => (r.1.map (·.val), r.2))
    = [(some [10], none), (some [20], none), (some [30], none), (none, some .corrupted), (none, some .corrupted),
       (none, some .corrupted)] := by decide

/-! ## b. strict mode: the DB iterator -/

/-- the extracted fact: the last exit of `dbIter.prev` is `if i.iterErr(); i.err != nil { return false };
return true` (the repair of D40) -/
theorem code_prev_checks_err : Gen.iterPrevChecksErr = true := by decide

example : Gen.iterPrevChecksErr = true := code_prev_checks_err

/-- **Strict mode, DB iterator (the code as it is).**  `DBIter` with `setErr`/`iterErr` over the strict raw
iterator over failing children: for every call sequence the answers are those of the cursor over the visible
pairs of ALL entries while `Error()` is nil; the call during which a child fails returns `false`, `Key()` and
`Value()` are nil and `Error()` is the error, and so for every later call.  No wrong pair and no pair after a
gap is ever shown, forwards or backwards. -/
theorem strict_error_is_reported_db {c : UCmp} (hl : LawfulUCmp c) (specs : List ENodeSpec)
    (hok : ∀ sp ∈ plain specs, sp.OK c) (U : List Entry) (hU : MergeOK c ((plain specs).map (·.list)) U)
    (hk : ∀ e ∈ U, e.kind ≤ Gen.keyTypeVal) (seq fuel : Nat) (hfuel : U.length < fuel)
    (cs : List (Call Bytes)) :
    Reported (EDBIter.run Gen.iterPrevChecksErr (EMerged.ops (ENode.ops c) c) c (EDBIter.new (eRaw specs) seq fuel) cs)
      (Cursor.run (visible c U seq) (geUser c) .soi cs) := by
  rw [code_prev_checks_err]
  have hsim := MergedIter.sim hl (Node.ops c) (stackRs c (plain specs)) ((plain specs).map (·.list)) U hU
    (stack_children_sim hl (plain specs) hok)
  have hrel : DBRel c (MergedIter.Rel (Node.ops c) c (stackRs c (plain specs)) ((plain specs).map (·.list)) U)
      U seq ((EDBIter.new (eRaw specs) seq fuel).base.mapRaw (EMerged.proj ENode.proj)) .soi := by
    refine ⟨rfl, hfuel, rfl, ?_⟩
    show MergedIter.Rel _ _ _ _ _ (EMerged.proj ENode.proj (eRaw specs)) .soi
    rw [eRaw_proj]
    exact stack_rel_new c (plain specs) U
  have := EDBIter.run_reported_twin (EMerged.failSim (ENode.failSim c) c) hsim hl hU.sortedU hk cs
    (EDBIter.new (eRaw specs) seq fuel) .soi rfl (eRaw_healthy specs) hrel
  rw [run_rel hsim hl hU.sortedU hk cs hrel] at this
  exact this

/-- **The code as found (D40).**  Without the check at the end of `prev()` the call during which the raw
iterator failed could still serve the pair it was holding (`ReportedLate`); the error showed at the next
call. -/
theorem strict_error_is_reported_db_pre_repair {c : UCmp} (hl : LawfulUCmp c) (specs : List ENodeSpec)
    (hok : ∀ sp ∈ plain specs, sp.OK c) (U : List Entry) (hU : MergeOK c ((plain specs).map (·.list)) U)
    (hk : ∀ e ∈ U, e.kind ≤ Gen.keyTypeVal) (seq fuel : Nat) (hfuel : U.length < fuel)
    (cs : List (Call Bytes)) :
    ReportedLate (EDBIter.run false (EMerged.ops (ENode.ops c) c) c (EDBIter.new (eRaw specs) seq fuel) cs)
      (Cursor.run (visible c U seq) (geUser c) .soi cs) := by
  have hsim := MergedIter.sim hl (Node.ops c) (stackRs c (plain specs)) ((plain specs).map (·.list)) U hU
    (stack_children_sim hl (plain specs) hok)
  have hrel : DBRel c (MergedIter.Rel (Node.ops c) c (stackRs c (plain specs)) ((plain specs).map (·.list)) U)
      U seq ((EDBIter.new (eRaw specs) seq fuel).base.mapRaw (EMerged.proj ENode.proj)) .soi := by
    refine ⟨rfl, hfuel, rfl, ?_⟩
    show MergedIter.Rel _ _ _ _ _ (EMerged.proj ENode.proj (eRaw specs)) .soi
    rw [eRaw_proj]
    exact stack_rel_new c (plain specs) U
  have := EDBIter.run_reported_late_twin (EMerged.failSim (ENode.failSim c) c) hsim hl hU.sortedU hk cs
    (EDBIter.new (eRaw specs) seq fuel) .soi rfl (eRaw_healthy specs) hrel
  rw [run_rel hsim hl hU.sortedU hk cs hrel] at this
  exact this

/-- one table of three blocks: `[ [1]@1 ]`, `[ [5]@2, deletion of [9]@13 ]`, `[ [9]@12 ↦ AA ]`; the middle block
fails its checksum (`plan = (0, corrupted)`: its data iterator is `NewEmptyIterator(err)`) -/
def d40Blocks : List EIdxChild :=
  [⟨mkIKey [1] 1 1, [⟨mkIKey [1] 1 1, [10]⟩], none⟩,
   ⟨mkIKey [9] 13 0, [⟨mkIKey [5] 2 1, [50]⟩, ⟨mkIKey [9] 13 0, []⟩], some (0, .corrupted)⟩,
   ⟨mkIKey [9] 12 1, [⟨mkIKey [9] 12 1, [0xAA]⟩], none⟩]

def d40Entries : List Entry :=
  [⟨mkIKey [1] 1 1, [10]⟩, ⟨mkIKey [5] 2 1, [50]⟩, ⟨mkIKey [9] 13 0, []⟩, ⟨mkIKey [9] 12 1, [0xAA]⟩]

/-- undamaged, a reader at sequence 100 sees `[1] ↦ 10, [5] ↦ 50` (`[9]` is deleted) -/
example : visible bytewise d40Entries 100 = [([1], [10]), ([5], [50])] := by decide

/-- **Defect D40, the decided run.**  Default (strict) configuration, the code as found (`chk = false`):
`Last()` positions the table iterator on `[9]@12` in the healthy last block; `prev()` takes it as candidate and
asks the raw iterator for the entry before it — the damaged block: the raw iterator fails — and returns `true`:
the DELETED key `[9]` is served with its old value and `Error()` is nil; only the next call reports the
corruption.  With the repair (`chk = true`) `Last()` returns `false` with the error.  (Replayed on the real DB:
`harness/checks/c08.go`, "d40" scenario, and `TestD40BackwardStale`.) -/
theorem d40_backward_serves_stale_pair :
    EDBIter.run false (EMerged.ops (ENode.ops bytewise) bytewise) bytewise
        (EDBIter.new (eRaw [.idx d40Blocks]) 100 10) [.last, .prev]
      = [(some ([9], [0xAA]), none), (none, some .corrupted)]
    ∧ EDBIter.run true (EMerged.ops (ENode.ops bytewise) bytewise) bytewise
        (EDBIter.new (eRaw [.idx d40Blocks]) 100 10) [.last, .prev]
      = [(none, some .corrupted), (none, some .corrupted)]
    ∧ ¬ Reported (EDBIter.run false (EMerged.ops (ENode.ops bytewise) bytewise) bytewise
        (EDBIter.new (eRaw [.idx d40Blocks]) 100 10) [.last, .prev])
      (Cursor.run (visible bytewise d40Entries 100) (geUser bytewise) .soi [.last, .prev]) := by
  refine ⟨by decide, by decide, ?_⟩
  have h1 : EDBIter.run false (EMerged.ops (ENode.ops bytewise) bytewise) bytewise
        (EDBIter.new (eRaw [.idx d40Blocks]) 100 10) [.last, .prev]
      = [(some ([9], [0xAA]), none), (none, some .corrupted)] := by decide
  have h2 : Cursor.run (visible bytewise d40Entries 100) (geUser bytewise) .soi [.last, .prev]
      = [some ([5], [50]), some ([1], [10])] := by decide
  rw [h1, h2]
  simp [Reported]

/-- forward scans were never affected: the damaged block is reported by the `Next` that reaches it -/
example : EDBIter.run false (EMerged.ops (ENode.ops bytewise) bytewise) bytewise
      (EDBIter.new (eRaw [.idx d40Blocks]) 100 10) [.first, .next, .next]
    = [(some ([1], [10]), none), (none, some .corrupted), (none, some .corrupted)] := by decide

theorem mergeOK_single {c : UCmp} {L : List Entry} (hs : SortedEntries c L) : MergeOK c [L] L where
  sortedU := hs
  mem := fun e => by simp
  sortedL := fun L' h => by
    have : L' = L := by simpa using h
    rw [this]; exact hs
  distinct := by
    intro i j Li Lj a b hij hi hj _ _
    have hi' : i = 0 := by
      cases i with
      | zero => rfl
      | succ i => simp at hi
    have hj' : j = 0 := by
      cases j with
      | zero => rfl
      | succ j => simp at hj
    exact absurd (hi'.trans hj'.symm) hij

/-- non-vacuity: a memdb-like child holding `d40Entries` that fails at its movement number 4 -/
example (cs : List (Call Bytes)) :
    Reported (EDBIter.run Gen.iterPrevChecksErr (EMerged.ops (ENode.ops bytewise) bytewise) bytewise
        (EDBIter.new (eRaw [.arr d40Entries (some (4, .io))]) 100 10) cs)
      (Cursor.run (visible bytewise d40Entries 100) (geUser bytewise) .soi cs) :=
  strict_error_is_reported_db bytewise_lawful [.arr d40Entries (some (4, .io))]
    (fun sp h => by
      simp only [plain, List.map_cons, List.map_nil, List.mem_cons, List.not_mem_nil, or_false] at h
      rw [h]; trivial)
    d40Entries (mergeOK_single (by decide)) (by decide) 100 10 (by decide) cs

example (cs : List (Call Bytes)) :
    ReportedLate (EDBIter.run false (EMerged.ops (ENode.ops bytewise) bytewise) bytewise
        (EDBIter.new (eRaw [.arr d40Entries (some (4, .io))]) 100 10) cs)
      (Cursor.run (visible bytewise d40Entries 100) (geUser bytewise) .soi cs) :=
  strict_error_is_reported_db_pre_repair bytewise_lawful [.arr d40Entries (some (4, .io))]
    (fun sp h => by
      simp only [plain, List.map_cons, List.map_nil, List.mem_cons, List.not_mem_nil, or_false] at h
      rw [h]; trivial)
    d40Entries (mergeOK_single (by decide)) (by decide) 100 10 (by decide) cs

/-! ## c. non-strict mode -/

/-- **Non-strict mode (partial).**  Over ANY children (no contract: they may be unsorted, fail at any time,
come back) whose errors are all corruptions, the non-strict merged iterator never reports an error, and after
every call sequence the pair it shows is the pair under the cursor of one of its children, as that child
reports it — a genuine pair of some child.  (What is NOT guaranteed: that nothing is skipped, see
`nonstrict_skips_healthy_entry`.) -/
theorem nonstrict_yields_only_genuine_pairs_partial {σ : Type} (o : EIterOps σ) (c : UCmp)
    (hcorr : ∀ s e, o.err s = some e → e.isCorrupted = true) (iters : List σ) (cs : List (Call IKey)) :
    (EMerged.after o c (EMerged.new iters false) cs).err = none ∧
    ∀ e, (EMerged.ops o c).cur (EMerged.after o c (EMerged.new iters false) cs) = some e →
      ∃ s ∈ (EMerged.after o c (EMerged.new iters false) cs).base.iters, o.cur s = some e := by
  have := EMerged.nonstrict_run o c hcorr cs (EMerged.new iters false) rfl rfl (MergedIter.gen_new _ iters)
  exact ⟨this.1, this.2.2⟩

/-- the full statement asked for: additionally, within one direction the pairs come in comparer order
(consecutive `Next` answers increase, consecutive `Prev` answers decrease) for sorted children with distinct
keys.  Not proved (it needs the positional invariant of `Proofs/IterMerged.lean` redone for children that drop
out); checked on every non-strict walk of the differential (`wp/c02`: oracle `nonstrict-order`, no
violation). -/
def nonstrict_yields_only_genuine_pairs_full : Prop :=
  ∀ (c : UCmp), LawfulUCmp c → ∀ (Ls : List (List Entry)) (U : List Entry), MergeOK c Ls U →
  ∀ (plans : List (Option (Nat × Err))), (∀ p ∈ plans, ∀ k e, p = some (k, e) → e = .corrupted) →
  ∀ (cs : List (Call IKey)) (fwd : Bool),
    let cl : Call IKey := if fwd then .next else .prev
    let o := FailChild.ops (ArrIter.ops c)
    let m0 := EMerged.new ((Ls.zip plans).map fun lp => FailChild.new (⟨lp.1, .soi⟩ : ArrIter) lp.2) false
    let m1 := EMerged.after o c m0 cs
    let m2 := (EMerged.ops o c).toIterOps.step cl ((EMerged.ops o c).toIterOps.step cl m1)
    let m1' := (EMerged.ops o c).toIterOps.step cl m1
    ∀ e1 e2, (EMerged.ops o c).cur m1' = some e1 → (EMerged.ops o c).cur m2 = some e2 →
      e1 ∈ U ∧ e2 ∈ U ∧ icmp c e1.key e2.key = (if fwd then Ordering.lt else Ordering.gt)

/-- three children `[a, d]`, `[b]`, `[c, e]` of C02's example, non-strict; child 1 (`[b]`) fails at its movement
number 1 with a corruption -/
def oddLs : List (FailChild ArrIter) :=
  [FailChild.new ⟨[MergedExample.a, MergedExample.d], .soi⟩ none,
   FailChild.new ⟨[MergedExample.b], .soi⟩ (some (1, .corrupted)),
   FailChild.new ⟨[MergedExample.c, MergedExample.e], .soi⟩ none]

/-- **The non-strict oddity, decided.**  `Last` shows `e`, three `Prev`s show `d c b` (child 1 has made one
movement, `Last`).  `Next` after `Prev`: `mergedIterator.Next` re-seeks every child to the current key `b`;
child 1 — the one standing on `b` — fails at this movement and is dropped (`errf` is called, `Error()` stays
nil); the re-seek therefore lands on `c`, and the unconditional follow-up `Next()` steps over it: the call shows
`d`.  The healthy entry `c` of the healthy child 2 is skipped and `Error()` is nil (the strict iterator reports
the corruption at this call).  (Replayed on the real code: `wp/c02` `TestNonStrictSkipsHealthyEntry`.) -/
theorem nonstrict_skips_healthy_entry :
    ((EMerged.ops (FailChild.ops (ArrIter.ops bytewise)) bytewise).run (EMerged.new oddLs false)
        [.last, .prev, .prev, .prev, .next, .next]).map (fun r => (r.1.map (·.val), r.2))
      = [(some [], none), (some [40], none), (some [30], none), (some [20], none), (some [40], none),
         (some [], none)]
    ∧ ((EMerged.ops (FailChild.ops (ArrIter.ops bytewise)) bytewise).run (EMerged.new oddLs true)
        [.last, .prev, .prev, .prev, .next, .next]).map (fun r => (r.1.map (·.val), r.2))
      = [(some [], none), (some [40], none), (some [30], none), (some [20], none), (none, some .corrupted),
         (none, some .corrupted)]
    ∧ (EMerged.after (FailChild.ops (ArrIter.ops bytewise)) bytewise (EMerged.new oddLs false)
        [.last, .prev, .prev, .prev, .next]).errf = [.corrupted] := by
  refine ⟨by decide, by decide, by decide⟩

/-- any children, with every error they report classified as a corruption -/
def corrOnly {σ : Type} (o : EIterOps σ) : EIterOps σ :=
  { o with err := fun s => (o.err s).map fun _ => Err.corrupted }

/-- non-vacuity: the children of the oddity; after `Last, Prev, Prev, Prev, Next` the iterator shows `d`, which
is the pair under child 0 -/
example : (EMerged.after (corrOnly (FailChild.ops (ArrIter.ops bytewise))) bytewise (EMerged.new oddLs false)
      [.last, .prev, .prev, .prev, .next]).err = none ∧
    ∀ e, (EMerged.ops (corrOnly (FailChild.ops (ArrIter.ops bytewise))) bytewise).cur
        (EMerged.after (corrOnly (FailChild.ops (ArrIter.ops bytewise))) bytewise (EMerged.new oddLs false)
          [.last, .prev, .prev, .prev, .next]) = some e →
      ∃ s ∈ (EMerged.after (corrOnly (FailChild.ops (ArrIter.ops bytewise))) bytewise (EMerged.new oddLs false)
          [.last, .prev, .prev, .prev, .next]).base.iters,
        (corrOnly (FailChild.ops (ArrIter.ops bytewise))).cur s = some e :=
  nonstrict_yields_only_genuine_pairs_partial (corrOnly (FailChild.ops (ArrIter.ops bytewise))) bytewise
    (fun s e h => by
      simp only [corrOnly, Option.map_eq_some_iff] at h
      obtain ⟨_, _, rfl⟩ := h
      rfl) oddLs [.last, .prev, .prev, .prev, .next]

example : (EMerged.ops (corrOnly (FailChild.ops (ArrIter.ops bytewise))) bytewise).cur
    (EMerged.after (corrOnly (FailChild.ops (ArrIter.ops bytewise))) bytewise (EMerged.new oddLs false)
      [.last, .prev, .prev, .prev, .next]) = some MergedExample.d := by decide

/-! ## d. the error-free models are the special case -/

/-- **A call that leaves `Error()` nil is the error-free call** — for any children, strict or not: the state
after it is the state `MergedIter` (C02's model) reaches over the same children, a failed child being seen
through its masked `Key()`, i.e. as an exhausted one. -/
theorem call_without_error_is_error_free_call {σ : Type} (o : EIterOps σ) (c : UCmp) (cl : Call IKey)
    (m : EMerged σ) (hm : m.err = none) (h : ((EMerged.ops o c).toIterOps.step cl m).err = none) :
    ((EMerged.ops o c).toIterOps.step cl m).base = (MergedIter.ops o.toIterOps c).step cl m.base ∧
    (EMerged.ops o c).cur ((EMerged.ops o c).toIterOps.step cl m) =
      (MergedIter.ops o.toIterOps c).cur ((MergedIter.ops o.toIterOps c).step cl m.base) := by
  obtain ⟨h1, _⟩ := (EMerged.step_spec o c cl m hm).1 h
  refine ⟨h1, ?_⟩
  show EMerged.cur o _ = MergedIter.cur o.toIterOps _
  rw [EMerged.cur_base o _ h, h1]

example := call_without_error_is_error_free_call (FailChild.ops (ArrIter.ops bytewise)) bytewise .last
  (EMerged.new oddLs false) rfl (by decide)

/-- **Children that never fail**: the merged iterator with error handling, strict or not, answers every call
sequence exactly like `MergedIter` and never has an error — all theorems of C02 apply to it. -/
theorem errors_coincide_when_no_child_fails {σ : Type} (o : IterOps σ) (c : UCmp) (strict : Bool)
    (iters : List σ) (cs : List (Call IKey)) :
    (EMerged.ops o.noErr c).run (EMerged.new iters strict) cs
      = ((MergedIter.ops o c).run (MergedIter.new iters) cs).map (fun out => (out, none)) := by
  suffices h : ∀ (m : EMerged σ), m.err = none → MergedIter.Gen o m.base →
      (EMerged.ops o.noErr c).run m cs = ((MergedIter.ops o c).run m.base cs).map (fun out => (out, none)) from
    h _ rfl (MergedIter.gen_new o iters)
  induction cs with
  | nil => intro m _ _; rfl
  | cons cl cs ih =>
    intro m hm hg
    obtain ⟨h1, h2⟩ := EMerged.step_spec o.noErr c cl m hm
    have he : ((EMerged.ops o.noErr c).toIterOps.step cl m).err = none := by
      rcases Option.eq_none_or_eq_some ((EMerged.ops o.noErr c).toIterOps.step cl m).err with he | ⟨e, he⟩
      · exact he
      · exfalso
        rcases h2 e he with ⟨_, hr⟩ | ⟨⟨s, hs⟩, _⟩
        · exact hg.nrel hr
        · cases hs
    obtain ⟨b1, _⟩ := h1 he
    have hb : ((EMerged.ops o.noErr c).toIterOps.step cl m).base = (MergedIter.ops o c).step cl m.base := b1
    have hg' : MergedIter.Gen o ((EMerged.ops o.noErr c).toIterOps.step cl m).base := by
      rw [hb]; exact MergedIter.gen_step o c cl _ hg
    simp only [EIterOps.run, IterOps.run, List.map_cons]
    rw [ih _ he hg', hb]
    congr 1
    show (EMerged.cur o.noErr _, ((EMerged.ops o.noErr c).toIterOps.step cl m).err) = _
    rw [EMerged.cur_base _ _ he, he, hb]
    rfl

example : (EMerged.ops (ArrIter.ops bytewise).noErr bytewise).run
      (EMerged.new (MergedExample.Ls.map fun L => (⟨L, .soi⟩ : ArrIter)) true) [.first, .next, .prev]
    = [(some MergedExample.a, none), (some MergedExample.b, none), (some MergedExample.a, none)] := by
  rw [errors_coincide_when_no_child_fails]; decide

/-- the same for the strict indexed iterator: a call on a healthy state that leaves `Error()` nil is the call of
`IndexedIter` (C02's model) on the same blocks, and the state is healthy again -/
theorem indexed_call_without_error_is_error_free_call (c : UCmp) (cl : Call IKey) (x : EIndexed)
    (hx : EIndexed.Healthy x) (h : ((EIndexed.ops c).toIterOps.step cl x).err = none) :
    EIndexed.Healthy ((EIndexed.ops c).toIterOps.step cl x) ∧
    EIndexed.proj ((EIndexed.ops c).toIterOps.step cl x) = (IndexedIter.ops c).step cl (EIndexed.proj x) ∧
    (EIndexed.ops c).cur ((EIndexed.ops c).toIterOps.step cl x)
      = (IndexedIter.ops c).cur ((IndexedIter.ops c).step cl (EIndexed.proj x)) := by
  obtain ⟨h1, h2⟩ := (EIndexed.failSim c).hstep x cl hx h
  exact ⟨h1, h2, by rw [← h2]; exact (EIndexed.failSim c).hcur _ h1⟩

example := indexed_call_without_error_is_error_free_call bytewise .first (EIndexed.new d40Blocks true)
  ⟨rfl, rfl, fun _ h => by cases h⟩ (by decide)

/-- … and for the DB iterator: whatever the raw iterator does, a call that leaves `Error()` nil has done to
the iterator state exactly what `DBIter` (C02's model) does over the raw iterator seen through `Key()`/`Valid()` -/
theorem dbiter_call_without_error_is_error_free_call {σ : Type} (chk : Bool) (o : EIterOps σ) (c : UCmp)
    (cl : Call Bytes) (d : EDBIter σ) (hd : d.err = none) (hr : d.base.dir ≠ .released)
    (h : (EDBIter.step chk o c cl d).err = none) :
    (EDBIter.step chk o c cl d).base = DBIter.step o.toIterOps c cl d.base := by
  unfold EDBIter.step at h ⊢
  simp only [hd, Option.isSome_none, Bool.false_eq_true, if_false, hr] at h ⊢
  cases hend : EDBIter.atEnd cl d with
  | true =>
    simp only [if_true]
    cases cl with
    | next =>
      have : d.base.dir = .eoi := by simpa [EDBIter.atEnd] using hend
      simp [DBIter.step, DBIter.next, this]
    | prev =>
      have : d.base.dir = .soi := by simpa [EDBIter.atEnd] using hend
      simp [DBIter.step, DBIter.prev, this]
    | first => simp [EDBIter.atEnd] at hend
    | last => simp [EDBIter.atEnd] at hend
    | seek k => simp [EDBIter.atEnd] at hend
  | false =>
    simp only [hend, Bool.false_eq_true, if_false] at h ⊢
    unfold EDBIter.finish at h ⊢
    have hi : ∀ y : EDBIter σ, (EDBIter.iterErr o y).err = none → EDBIter.iterErr o y = y := by
      intro y hy
      unfold EDBIter.iterErr at hy ⊢
      cases he : o.err y.base.raw with
      | none => rfl
      | some e => simp [he, EDBIter.setErr] at hy
    by_cases hv : (DBIter.step o.toIterOps c cl d.base).dir.valid = true
    · by_cases hc : (chk && EDBIter.viaPrev cl && !o.ok (DBIter.step o.toIterOps c cl d.base).raw) = true
      · rw [if_pos hv, if_pos hc] at h ⊢
        rw [hi _ h]
      · rw [if_pos hv, if_neg hc]
    · rw [if_neg hv] at h ⊢
      rw [hi _ h]

example := dbiter_call_without_error_is_error_free_call true (EMerged.ops (ENode.ops bytewise) bytewise) bytewise
  .first (EDBIter.new (eRaw [.idx d40Blocks]) 100 10) rfl (by decide) (by decide)

def errTheorems : List String :=
  ["GoLevel.C02.strict_error_is_reported", "GoLevel.C02.strict_hides_no_error",
   "GoLevel.C02.code_prev_checks_err", "GoLevel.C02.strict_error_is_reported_db",
   "GoLevel.C02.strict_error_is_reported_db_pre_repair", "GoLevel.C02.d40_backward_serves_stale_pair",
   "GoLevel.C02.nonstrict_yields_only_genuine_pairs_partial", "GoLevel.C02.nonstrict_skips_healthy_entry",
   "GoLevel.C02.call_without_error_is_error_free_call", "GoLevel.C02.errors_coincide_when_no_child_fails",
   "GoLevel.C02.indexed_call_without_error_is_error_free_call",
   "GoLevel.C02.dbiter_call_without_error_is_error_free_call"]

end GoLevel.C02
