import GoLevel.Proofs.BlockNS
/-!
# Property C11 (no residue, cache part) — nothing of a discarded transaction is served from the block cache

`Transaction.Discard` removes the transaction's tables and gives their file numbers back so that they are used
again; the block cache is keyed by file number.  Over `Model/BlockNS.lean` (file numbers, the tables they name, the
cached blocks per number, `tOps.remove` as two separate steps interleaved with allocations and reads by other
goroutines):

* `reads_serve_named_table` — with the order the code has since the repair of D50 (evict the namespace, THEN give
  the number back; `code_evicts_before_reuse` is the regenerated fact) every read, in every schedule, is served
  with data of the table its number names at that moment;
* `as_found_serves_removed_table` — the order of the code as found (number back first): the decided schedule in
  which a compaction is handed the number between the two steps and a read of its output is served from the
  removed (discarded) table's blocks.  Exhibited on the real code by the check's deterministic scenario
  `Transaction.Discard:stale-block-cache:number-reused-before-eviction` (harness/checks/c11race.go).
-/
namespace GoLevel.C11NS

open GoLevel.BlockNS

/-- the order of the two steps in `tOps.remove`, read off the source by `tools/extract` -/
theorem code_evicts_before_reuse : Gen.removeEvictsBeforeReuse = true := by decide

/-- **Every read is served with data of the table its number names**, for every schedule of allocations, reads,
    removals and the two steps of the removal callback, from the empty state. -/
theorem reads_serve_named_table (as : List Act) (s : St) (log : List (Nat × Option Nat × Nat))
    (h : run Gen.removeEvictsBeforeReuse {} as = some (s, log)) :
    ∀ e ∈ log, e.2.1 = some e.2.2 := by
  rw [code_evicts_before_reuse] at h
  exact (inv_run inv_init h).2

/-- non-vacuity, the schedule of the defect under the repaired order: table 0 is created and read (its blocks are
    cached), removed (the transaction is discarded), the eviction runs, a compaction allocates — number 1, the
    number 0 has not been given back yet —, the number is given back, the new table is read: served from its own
    data. -/
example : (run true {} [.create, .read 0, .beginRemove 0, .removeStep, .create, .removeStep, .read 1]).map (·.2) =
    some [(0, some 0, 0), (1, some 1, 1)] := by decide

/-- … and when the compaction allocates after the removal is complete it gets number 0 again and reads its own data -/
example : (run true {} [.create, .read 0, .beginRemove 0, .removeStep, .removeStep, .create, .read 0]).map (·.2) =
    some [(0, some 0, 0), (0, some 1, 1)] := by decide

/-- **The code as found (D50).**  Number first, eviction second: the compaction's `create` between the two steps is
    handed number 0, and a read of the new table (identity 1) is served from the cached blocks of the removed table
    (identity 0). -/
theorem as_found_serves_removed_table :
    (run false {} [.create, .read 0, .beginRemove 0, .removeStep, .create, .read 0]).map (·.2) =
      some [(0, some 0, 0), (0, some 1, 0)] := by decide

def theorems : List String :=
  ["GoLevel.C11NS.code_evicts_before_reuse", "GoLevel.C11NS.reads_serve_named_table",
   "GoLevel.C11NS.as_found_serves_removed_table"]

end GoLevel.C11NS
