import GoLevel.Proofs.LSMCompactView
import GoLevel.Proofs.PickInputs
/-!
# Property C03 — snapshots and iterators keep returning the contents at creation

"A snapshot or iterator keeps returning the contents as of its creation, however many compactions,
trivial moves and flushes happen afterwards."

A reader created at sequence number `s` sees `view c es k s` for every key `k`, `es` being all entries
of all sources (C01).  The background work rewrites the sources; this file shows that it never changes
`view … k s` for any `s ≥ minSeq`, `minSeq` being the smallest sequence number a live reader holds
(`DB.minSeq`, which the compaction reads once before it starts).

Model: `GoLevel/Model/LSM.lean` — `mergeAll` (the merged input iterator), `bstep`/`build`
(`tableCompactionBuilder.run`, rules (A) and (B)), `baseLevelForKey`, `legalCut`, `Version.apply`.
Helper lemmas: `GoLevel/Proofs/LSMCompact.lean`, `LSMWf.lean`, `LSMEdits.lean`, `LSMCompactView.lean`.

What a trace validator must check at each committed compaction is `CompactionOK` (see C06 for why each
clause is needed), `minSeq ≤ s` for every live reader, `UniqSeq` (no two entries share user key and
sequence number) and distinct table numbers per level.
-/
namespace GoLevel.C03

/-! ## concrete instance

level 0 = {A, B}, level 1 = {C, D}, level 2 = {F}.  Key `[1]`: written at 2, overwritten at 5, deleted at 7;
`[2]`: written at 1 (level 2), 3, 6; `[3]` at 4; `[5]` at 3.  The compaction takes A, B (level 0) and C
(the only level-1 table meeting `[1]..[3]`) with `minSeq = 5` and writes N1, N2. -/

def e (k : UInt8) (seq kind : Nat) (v : UInt8) : Entry := ⟨mkIKey [k] seq kind, [v]⟩

def tA : Table := ⟨5, 10, [e 1 7 0 0, e 2 6 1 0xb2], mkIKey [1] 7 0, mkIKey [2] 6 1⟩
def tB : Table := ⟨4, 10, [e 1 5 1 0xa1, e 3 4 1 0xc1], mkIKey [1] 5 1, mkIKey [3] 4 1⟩
def tC : Table := ⟨2, 10, [e 1 2 1 0xa0, e 2 3 1 0xb0], mkIKey [1] 2 1, mkIKey [2] 3 1⟩
def tD : Table := ⟨3, 10, [e 5 3 1 0xe0], mkIKey [5] 3 1, mkIKey [5] 3 1⟩
def tF : Table := ⟨1, 10, [e 2 1 1 0xbb], mkIKey [2] 1 1, mkIKey [2] 1 1⟩
def exV : Version := ⟨[[tA, tB], [tC, tD], [tF]]⟩

def tN1 : Table := ⟨6, 10, [e 1 7 0 0, e 1 5 1 0xa1], mkIKey [1] 7 0, mkIKey [1] 5 1⟩
def tN2 : Table := ⟨7, 10, [e 2 6 1 0xb2, e 2 3 1 0xb0, e 3 4 1 0xc1], mkIKey [2] 6 1, mkIKey [3] 4 1⟩
def exV' : Version := exV.apply bytewise (replaceEdit 0 [tA, tB] [tC] [tN1, tN2])

example : exV' = ⟨[[], [tN1, tN2, tD], [tF]]⟩ := by decide
example : mergeAll bytewise [tA, tB, tC] =
    [e 1 7 0 0, e 1 5 1 0xa1, e 1 2 1 0xa0, e 2 6 1 0xb2, e 2 3 1 0xb0, e 3 4 1 0xc1] := by decide
/-- `minSeq = 5`: `[1]@2` is shadowed by `[1]@5` (rule A); the tombstone `[1]@7` is above `minSeq` and stays -/
example : build bytewise 5 (baseLevelForKey bytewise exV 0) {} (mergeAll bytewise [tA, tB, tC]) =
    [e 1 7 0 0, e 1 5 1 0xa1, e 2 6 1 0xb2, e 2 3 1 0xb0, e 3 4 1 0xc1] := by decide
/-- `minSeq = 9` (no reader below 9): rule (B) drops the tombstone of `[1]` (no level ≥ 2 table covers
`[1]`) and rule (A) everything under it; `[2]@6` hides `[2]@3` -/
example : build bytewise 9 (baseLevelForKey bytewise exV 0) {} (mergeAll bytewise [tA, tB, tC]) =
    [e 2 6 1 0xb2, e 3 4 1 0xc1] := by decide

/-! ## 5. the merged input -/

/-- the merged input of a compaction is sorted and a permutation of the input tables' entries -/
theorem mergeAll_sorted_perm {c : UCmp} (hl : LawfulUCmp c) (tables : List Table)
    (hd : (tables.flatMap (·.entries)).Pairwise (fun a b => a.key ≠ b.key)) :
    sortedB c (mergeAll c tables) = true ∧ ESorted c (mergeAll c tables) ∧
    (mergeAll c tables).Perm (tables.flatMap (·.entries)) :=
  ⟨(sortedB_iff hl _).2 (mergeAll_sorted hl tables hd), mergeAll_sorted hl tables hd, mergeAll_perm tables⟩

example : ([tA, tB, tC].flatMap (·.entries)).Pairwise (fun a b => a.key ≠ b.key) := by decide

/-! ## 6. the builder -/

/-- the builder output is a sublist of its input (it only drops, never reorders or invents) -/
theorem build_subset (c : UCmp) (minSeq : Nat) (base : Bytes → Bool) (st : BState) (es : List Entry) :
    (build c minSeq base st es).Sublist es := build_sublist c minSeq base es st

/-- … hence sorted when the input is -/
theorem build_sorted {c : UCmp} (hl : LawfulUCmp c) (minSeq : Nat) (base : Bytes → Bool) (st : BState)
    (es : List Entry) (hs : sortedB c es = true) : sortedB c (build c minSeq base st es) = true :=
  (sortedB_iff hl _).2 (GoLevel.build_sorted c minSeq base es st ((sortedB_iff hl _).1 hs))

/-- **The drop rules preserve every admissible reader's view.**  `es` is the sorted merged input, `rest`
the entries of the sources searched after the compacted ones (they are older per user key), and `base`
may answer `true` only for user keys that none of them holds.  For every reader at `s ≥ minSeq` the
builder output followed by `rest` shows what the input followed by `rest` shows. -/
theorem build_preserves_view {c : UCmp} (hl : LawfulUCmp c) (minSeq : Nat) (base : Bytes → Bool)
    (es rest : List Entry) (hs : sortedB c es = true) (hnewer : newerThanB c es rest = true)
    (hbase : ∀ x ∈ es, base x.ukey = true → ∀ r ∈ rest, r.ukey ≠ x.ukey)
    (k : Bytes) (s : Nat) (hms : minSeq ≤ s) :
    view c (build c minSeq base {} es ++ rest) k s = view c (es ++ rest) k s :=
  build_view hl minSeq base es rest ((sortedB_iff hl _).1 hs) ((newerThanB_iff hl _ _).1 hnewer) hbase k s hms

/-- the per-key form: same newest entry, or a dropped tombstone with everything under it -/
theorem build_newest_cases {c : UCmp} (hl : LawfulUCmp c) (minSeq : Nat) (base : Bytes → Bool)
    (es : List Entry) (hs : sortedB c es = true) (k : Bytes) (s : Nat) (hms : minSeq ≤ s) :
    newest c (build c minSeq base {} es) k s = newest c es k s ∨
    (∃ x, newest c es k s = some x ∧ DropDel minSeq base x ∧ newest c (build c minSeq base {} es) k s = none) :=
  build_newest hl minSeq base k s hms es none ((sortedB_iff hl _).1 hs) (by simp)

/-- non-vacuity: rule (B) really drops a tombstone (second disjunct) and the view is unchanged -/
example :
    let es := mergeAll bytewise [tA, tB, tC]
    let base := baseLevelForKey bytewise exV 0
    newest bytewise es [1] 9 = some (e 1 7 0 0) ∧ newest bytewise (build bytewise 9 base {} es) [1] 9 = none ∧
    view bytewise (build bytewise 9 base {} es ++ Level.entries [tF]) [1] 9
      = view bytewise (es ++ Level.entries [tF]) [1] 9 := by decide

/-- `minSeq ≤ s` is needed: a reader at 2 < minSeq = 5 loses `[1]@2` -/
example :
    let es := mergeAll bytewise [tA, tB, tC]
    let base := baseLevelForKey bytewise exV 0
    view bytewise es [1] 2 = some [0xa0] ∧ view bytewise (build bytewise 5 base {} es) [1] 2 = none := by
  decide

/-- the side condition on `base` is needed: claiming "base level" for `[2]` although level 2 holds `[2]@1`
resurrects the old value once the tombstone is dropped -/
example :
    let es := [e 2 6 0 0, e 2 3 1 0xb0]
    let rest := Level.entries [tF]
    view bytewise (es ++ rest) [2] 9 = none ∧
    view bytewise (build bytewise 9 (fun _ => true) {} es ++ rest) [2] 9 = some [0xbb] := by decide

/-! ## 7. a whole compaction -/

/-- **`compaction_preserves_lookup`.**  Replacing `S0 ⊆ level ℓ` and `S1` (= all tables of level `ℓ+1`
meeting `S0`'s user-key range) by a legal cut of `build … (mergeAll (S0 ++ S1))` at level `ℓ+1`:
the new version is well formed, holds only entries the old one held, and every reader at `s ≥ minSeq`
sees the same plain-map view and gets the same result from `version.get`. -/
theorem compaction_preserves_lookup {c : UCmp} (hl : LawfulUCmp c) (v : Version) (ℓ : Nat)
    (S0 S1 nts : List Table) (minSeq : Nat) (umin umax : Bytes)
    (hv : v.wfB c = true) (hu : UniqSeq v.entries)
    (hnum : ∀ i, ∀ x ∈ v.lvl i, ∀ y ∈ v.lvl i, x.num = y.num → x = y)
    (h : CompactionOK c v ℓ S0 S1 nts minSeq umin umax) :
    (v.apply c (replaceEdit ℓ S0 S1 nts)).wfB c = true ∧
    UniqSeq (v.apply c (replaceEdit ℓ S0 S1 nts)).entries ∧
    ∀ (k : Bytes) (s : Nat), minSeq ≤ s →
      view c (v.apply c (replaceEdit ℓ S0 S1 nts)).entries k s = view c v.entries k s ∧
      (versionGet c [] (v.apply c (replaceEdit ℓ S0 S1 nts)) k s).toOption
        = (versionGet c [] v k s).toOption :=
  compaction_lookup hl v ℓ S0 S1 nts minSeq umin umax hv hu hnum h

theorem exOK : CompactionOK bytewise exV 0 [tA, tB] [tC] [tN1, tN2] 5 [1] [3] := by decide
example : exV.wfB bytewise = true ∧ UniqSeq exV.entries ∧
    (∀ i ∈ [0, 1, 2], ∀ x ∈ exV.lvl i, ∀ y ∈ exV.lvl i, x.num = y.num → x = y) := by decide
example : exV'.wfB bytewise = true := by decide
example : view bytewise exV'.entries [1] 5 = some [0xa1] ∧ view bytewise exV.entries [1] 5 = some [0xa1]
    ∧ view bytewise exV'.entries [1] 9 = none ∧ view bytewise exV.entries [1] 9 = none
    ∧ view bytewise exV'.entries [2] 5 = some [0xb0] ∧ view bytewise exV.entries [2] 5 = some [0xb0]
    ∧ versionGet bytewise [] exV' [2] 9 = .value [0xb2] ∧ versionGet bytewise [] exV [2] 9 = .value [0xb2] := by
  decide
/-- below `minSeq` the view does change: the theorem's premise `minSeq ≤ s` is sharp -/
example : view bytewise exV.entries [1] 2 = some [0xa0] ∧ view bytewise exV'.entries [1] 2 = none := by decide

/-! ## however many compactions and trivial moves -/

/-- a trivial move leaves every view unchanged -/
theorem trivial_move_preserves_view {c : UCmp} (hl : LawfulUCmp c) (v : Version) (ℓ : Nat) (t : Table)
    (hu : UniqSeq v.entries) (hnum : ∀ i, ∀ x ∈ v.lvl i, ∀ y ∈ v.lvl i, x.num = y.num → x = y)
    (ht : t ∈ v.lvl ℓ) (k : Bytes) (s : Nat) :
    view c (v.apply c (replaceEdit ℓ [t] [] [t])).entries k s = view c v.entries k s :=
  trivial_move_view hl v ℓ t hu hnum ht k s

example : (exV.apply bytewise (replaceEdit 1 [tD] [] [tD])) = ⟨[[tA, tB], [tC], [tF, tD]]⟩ := by decide

/-- background work as seen by a reader at sequence `s`: any number of table compactions whose `minSeq`
is at most `s`, and trivial moves -/
inductive Maintenance (c : UCmp) (s : Nat) : Version → Version → Prop
  | refl (v : Version) : Maintenance c s v v
  | compact {v v1 : Version} (ℓ : Nat) (S0 S1 nts : List Table) (minSeq : Nat) (umin umax : Bytes) :
      Maintenance c s v v1 → v1.wfB c = true → UniqSeq v1.entries →
      (∀ i, ∀ x ∈ v1.lvl i, ∀ y ∈ v1.lvl i, x.num = y.num → x = y) →
      CompactionOK c v1 ℓ S0 S1 nts minSeq umin umax → minSeq ≤ s →
      Maintenance c s v (v1.apply c (replaceEdit ℓ S0 S1 nts))
  | move {v v1 : Version} (ℓ : Nat) (t : Table) :
      Maintenance c s v v1 → UniqSeq v1.entries →
      (∀ i, ∀ x ∈ v1.lvl i, ∀ y ∈ v1.lvl i, x.num = y.num → x = y) → t ∈ v1.lvl ℓ →
      Maintenance c s v (v1.apply c (replaceEdit ℓ [t] [] [t]))

/-- **However many compactions happen, the reader's view of the version stays what it was.** -/
theorem maintenance_preserves_view {c : UCmp} (hl : LawfulUCmp c) (s : Nat) (v v' : Version)
    (h : Maintenance c s v v') (k : Bytes) : view c v'.entries k s = view c v.entries k s := by
  induction h with
  | refl => rfl
  | compact ℓ S0 S1 nts minSeq umin umax _ hv hu hnum hok hms ih =>
    rw [← ih]
    exact ((compaction_lookup hl _ ℓ S0 S1 nts minSeq umin umax hv hu hnum hok).2.2 k s hms).1
  | move ℓ t _ hu hnum ht ih =>
    rw [← ih]
    exact trivial_move_view hl _ ℓ t hu hnum ht k s

example : Maintenance bytewise 5 exV (exV'.apply bytewise (replaceEdit 1 [tD] [] [tD])) :=
  .move 1 tD (.compact 0 [tA, tB] [tC] [tN1, tN2] 5 [1] [3] (.refl exV) (by decide) (by decide)
    (by intro i; by_cases h : i < 3
        · have : i ∈ [0, 1, 2] := by simp; omega
          revert i; decide
        · intro x hx
          have : exV.lvl i = [] := by
            simp only [Version.lvl]; rw [List.getElem?_eq_none (by simp [exV]; omega)]; rfl
          rw [this] at hx; cases hx) exOK (by decide))
    (by decide)
    (by intro i; by_cases h : i < 3
        · have : i ∈ [0, 1, 2] := by simp; omega
          revert i; decide
        · intro x hx
          have : exV'.lvl i = [] := by
            have hlen : exV'.levels.length = 3 := by decide
            simp only [Version.lvl]; rw [List.getElem?_eq_none (by omega)]; rfl
          rw [this] at hx; cases hx)
    (by decide)

/-! ## the side condition on `base`, derived from the code (`compaction.baseLevelForKey` and its cursor)

`build_preserves_view` assumes (H2): `base k = true` only if no source searched after the compacted ones holds
`k`.  The Go function is *stateful*: per level `≥ src+2` it keeps a cursor `tPtrs[level]` that only moves
forward, which is right only because `tableCompactionBuilder.run` asks for the keys of a merged iterator, i.e.
in non-decreasing order.  Model: `Pick.Compaction.baseLevelForKey`, `Pick.baseRun`, `Pick.buildC`
(`GoLevel/Model/Pick.lean`); invariant `Pick.CursorInv` and proofs in `GoLevel/Proofs/PickBase.lean`. -/

/-- **`base_level_for_key_sound`** (P2).  On a well-formed version, a compaction fresh from `newCompaction`
asked for a non-decreasing sequence of user keys answers `true` for a key **iff** no table of a level
`≥ src+2` has the key within `[imin.ukey, imax.ukey]` — so a `true` answer means no entry of such a level has
that user key (H2) — and all answers together are those of the cursor-free specification. -/
theorem base_level_for_key_sound {c : UCmp} (hl : LawfulUCmp c) (o : Pick.Limits) (v : Version)
    (hv : v.wfB c = true) (src : Nat) (t0 : List Table) (cm : Pick.Compaction)
    (hcm : Pick.newCompaction c o v src t0 = some cm) (ks : List Bytes) (hs : ks.Pairwise c.le) :
    (Pick.baseRun c cm ks).1 = ks.map (baseLevelForKey c v src) ∧
    ∀ k b, (k, b) ∈ ks.zip (Pick.baseRun c cm ks).1 →
      (b = true ↔ ∀ j, src + 2 ≤ j → ∀ t ∈ v.lvl j, t.overlapsKey c k = false) ∧
      (b = true → ∀ j, src + 2 ≤ j → ∀ x ∈ Level.entries (v.lvl j), x.ukey ≠ k) := by
  have hw := (Version.wfB_iff_WFi hl v).1 hv
  have hinit := fun k => Pick.newCompaction_cursorInv c o v src t0 cm hcm k
  obtain ⟨hv', hs', _⟩ := hinit []
  have heq : (Pick.baseRun c cm ks).1 = ks.map (baseLevelForKey c v src) := by
    have := Pick.baseRun_eq hl cm (by rw [hv']; exact hw) ks hs (fun k _ => (hinit k).2.2)
    rw [hv', hs'] at this
    exact this
  refine ⟨heq, ?_⟩
  intro k b hkb
  rw [heq] at hkb
  have hb : b = baseLevelForKey c v src k := by
    clear heq hs
    induction ks with
    | nil => cases hkb
    | cons a as ih =>
      simp only [List.map_cons, List.zip_cons_cons, List.mem_cons, Prod.mk.injEq] at hkb
      rcases hkb with ⟨rfl, rfl⟩ | h
      · rfl
      · exact ih h
  subst hb
  exact ⟨Pick.baseLevelForKey_iff c v src k, fun hb => baseLevelForKey_sound hl v hw src k hb⟩

/-- non-vacuity on the 3-level `exV` (level 2 = {`F` = `[2]..[2]`}), level-0 compaction: `[1]` and `[3]` are at
their base level, `[2]` is not -/
example :
    ((Pick.newCompaction bytewise ⟨fun _ => 100, fun _ => 100, fun _ => 100⟩ exV 0 [tA]).map
      (fun cm => (Pick.baseRun bytewise cm [[1], [2], [2], [3]]).1)) = some [true, false, false, true] := by decide

/-- **The order matters.**  `Pick.bV`: level 2 = {`[4]..[6]`, `[8]..[9]`}.  Asked for `[7]` and then `[5]`, the
stateful function answers `true` for `[5]` although the first table holds it (the cursor has moved past it):
the invariant `Pick.CursorInv` fails for `[5]`, and a deletion marker of `[5]` would be dropped. -/
example :
    (Pick.baseRun bytewise Pick.bCm [[7], [5]]).1 = [true, true] ∧ baseLevelForKey bytewise Pick.bV 0 [5] = false ∧
    ¬ Pick.CursorInv bytewise Pick.bV 0 (Pick.bCm.baseLevelForKey bytewise [7]).2.tPtrs [5] :=
  Pick.baseLevelForKey_out_of_order

/-- **`builder_cursor_preserves_view`**: `tableCompactionBuilder.run` with the *stateful* `baseLevelForKey`,
evaluated exactly when Go's `switch` evaluates it, on the sorted merged input of a compaction fresh from
`newCompaction`: it keeps exactly what the model builder keeps, and — `rest` being entries of levels `≥ src+2`,
older per user key than the input — every reader at `s ≥ minSeq` sees the same.  No hypothesis on `base` is left. -/
theorem builder_cursor_preserves_view {c : UCmp} (hl : LawfulUCmp c) (o : Pick.Limits) (v : Version)
    (hv : v.wfB c = true) (src : Nat) (t0 : List Table) (cm : Pick.Compaction)
    (hcm : Pick.newCompaction c o v src t0 = some cm) (minSeq : Nat) (es rest : List Entry)
    (hs : sortedB c es = true) (hrest : ∀ r ∈ rest, ∃ j, src + 2 ≤ j ∧ r ∈ Level.entries (v.lvl j))
    (hnewer : newerThanB c es rest = true) (k : Bytes) (s : Nat) (hms : minSeq ≤ s) :
    (Pick.buildC c minSeq cm {} es).1 = build c minSeq (baseLevelForKey c v src) {} es ∧
    view c ((Pick.buildC c minSeq cm {} es).1 ++ rest) k s = view c (es ++ rest) k s := by
  have hw := (Version.wfB_iff_WFi hl v).1 hv
  have hinit := fun k => Pick.newCompaction_cursorInv c o v src t0 cm hcm k
  obtain ⟨hv', hs', _⟩ := hinit []
  have hES := (sortedB_iff hl es).1 hs
  have heq : (Pick.buildC c minSeq cm {} es).1 = build c minSeq (baseLevelForKey c v src) {} es := by
    have := Pick.buildC_eq_build hl minSeq cm (by rw [hv']; exact hw) es
      (Pick.ukeys_sorted_of_ESorted hl es hES) (fun e _ => (hinit e.ukey).2.2) {}
    rw [hv', hs'] at this
    exact this
  refine ⟨heq, ?_⟩
  rw [heq]
  apply build_preserves_view hl minSeq _ es rest hs hnewer _ k s hms
  intro x _ hb r hr
  obtain ⟨j, hj, hrj⟩ := hrest r hr
  exact baseLevelForKey_sound hl v hw src x.ukey hb j hj r hrj

/-- non-vacuity: the level-0 compaction of `exV` (inputs `A`, `B`, `C`), `minSeq = 9`: the tombstone of `[1]` is
dropped (rule (B), `[1]` is at its base level), everything under it by rule (A); the cursor ends at `[0, 0, 0]`
because `[2]`, `[3]` are never asked for -/
example :
    (Pick.newCompaction bytewise ⟨fun _ => 100, fun _ => 100, fun _ => 100⟩ exV 0 [tA]).map
      (fun cm => ((Pick.buildC bytewise 9 cm {} (mergeAll bytewise (cm.s0 ++ cm.s1))).1,
        (Pick.buildC bytewise 9 cm {} (mergeAll bytewise (cm.s0 ++ cm.s1))).2.tPtrs)) =
      some ([e 2 6 1 0xb2, e 3 4 1 0xc1], [0, 0, 0]) := by decide

/-! ## flush -/

/-- a memdb flush moves the frozen buffer's entries into a table: together with whatever else is
searched (`pre`: the write buffer), the reader's view is unchanged -/
theorem flush_preserves_view {c : UCmp} (hl : LawfulUCmp c) (v : Version) (L : Nat) (t : Table)
    (pre : List Entry) (hu : UniqSeq (pre ++ (t.entries ++ v.entries))) (k : Bytes) (s : Nat) :
    view c (pre ++ (v.apply c (flushEdit L t)).entries) k s = view c (pre ++ (t.entries ++ v.entries)) k s := by
  have hmem : ∀ x, x ∈ pre ++ (v.apply c (flushEdit L t)).entries ↔ x ∈ pre ++ (t.entries ++ v.entries) := by
    intro x
    simp only [List.mem_append, flush_entries]
  exact view_congr hl (hu.uniqNum.of_subset (fun x hx => (hmem x).1 hx)) hmem k s

example :
    let t : Table := ⟨9, 1, [e 3 8 1 0xc2], mkIKey [3] 8 1, mkIKey [3] 8 1⟩
    view bytewise (exV.apply bytewise (flushEdit 0 t)).entries [3] 9 = some [0xc2] ∧
    view bytewise (exV.apply bytewise (flushEdit 0 t)).entries [3] 7 = some [0xc1] := by decide

/-- `base_level_for_key_sound` is about a cursor that starts at zero and only moves forward within ONE run of the
builder.  A compaction that is retried after a transient storage error resumes from `compaction.restore()`: the
extractor reads off that `save` copies the cursor and `restore` copies it back (an aliased snapshot would leave the
cursor where the failed attempt stopped, and tables already passed would be skipped: a deletion marker could then be
dropped above an older value). -/
theorem code_save_copies_cursor : Gen.pickSaveCopiesCursor = true := by decide

end GoLevel.C03

def GoLevel.C03.theorems : List String :=
  ["GoLevel.C03.mergeAll_sorted_perm", "GoLevel.C03.build_subset", "GoLevel.C03.build_sorted",
   "GoLevel.C03.build_preserves_view", "GoLevel.C03.build_newest_cases",
   "GoLevel.C03.compaction_preserves_lookup", "GoLevel.C03.trivial_move_preserves_view",
   "GoLevel.C03.maintenance_preserves_view", "GoLevel.C03.flush_preserves_view",
   "GoLevel.C03.base_level_for_key_sound", "GoLevel.C03.builder_cursor_preserves_view",
   "GoLevel.C03.code_save_copies_cursor"]
