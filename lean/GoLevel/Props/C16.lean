import GoLevel.Proofs.Bloom
/-!
# C16 — filters never hide a stored key (Bloom-filter part)

"A key that was added to a filter is always reported as possibly present, for every key set, every
bits-per-key setting and every filter-block layout."

This file: the built-in Bloom policy (`filter/bloom.go`) and the `iFilter` wrapper (`leveldb/filter.go`).
The filter-block layout (`filter_partition`) and `find_filter_irrelevant` belong to the table layer.

Side condition.  `Generate` computes `nBits := uint32(len(keyHashes) * n)` and then `(nBits + 7) / 8` in
`uint32`.  `bloomGenOk bpk len := (len * bpk) % 2^32 + 7 < 2^32` says that this last addition does not wrap.
It is *exactly* the condition under which Go's `Generate` does not panic (`bloomGenPanics_iff`): if it fails,
`nBytes = nBits = 0` and the first `kh % nBits` is an integer division by zero.  A wrap of the product
`len * bpk` itself is harmless (the filter is merely smaller than intended): the reader recomputes
`nBits` from the filter length, so the theorem covers those cases too.  `bitsPerKey = 0` is covered as well.
-/
namespace GoLevel.C16
open GoLevel

/-- No false negatives, full strength: every `bitsPerKey ≥ 0`, every key list for which Go's `Generate`
    does not panic.  Depends on `Gen.bloomDeltaContains = Gen.bloomDeltaGenerate` (`bloomDelta_eq`, by `rfl`
    on the generated definitions) and on the reader recomputing the generator's `nBits`. -/
theorem bloom_no_false_negative (bpk : Nat) (keys : List Bytes) (k : Bytes)
    (hok : (keys.length * bpk) % 2 ^ 32 + 7 < 2 ^ 32) (hmem : k ∈ keys) :
    bloomContains (bloomGenerate bpk keys) k = true :=
  bloom_core bpk keys k hok hmem

private def ks : List Bytes := [[1, 2, 3], [], [0xff, 0x00, 0xff, 0x00, 0x61], [0x61, 0x62]]

/-- non-vacuity: a member is found, and `bloomContains` is not constantly `true` on that filter -/
example : bloomContains (bloomGenerate 10 ks) [0xff, 0x00, 0xff, 0x00, 0x61] = true :=
  bloom_no_false_negative 10 ks _ (by decide) (by decide)
example : bloomContains (bloomGenerate 10 ks) [0x7a] = false := by decide +kernel

/-- The same in the shape "no `uint32` wrap at all": `1 ≤ bpk` and `len * bpk ≤ 2^32 - 8`.
    (`len * bpk < 2^32` alone is **not** enough: the seven values `2^32-7 … 2^32-1` make Go panic.) -/
theorem bloom_no_false_negative_nowrap (bpk : Nat) (keys : List Bytes) (k : Bytes)
    (_hb : 1 ≤ bpk) (hsz : keys.length * bpk + 7 < 2 ^ 32) (hmem : k ∈ keys) :
    bloomContains (bloomGenerate bpk keys) k = true :=
  bloom_no_false_negative bpk keys k (by rw [Nat.mod_eq_of_lt (by omega)]; exact hsz) hmem

example : bloomContains (bloomGenerate 1 ks) [] = true :=
  bloom_no_false_negative_nowrap 1 ks _ (by decide) (by decide) (by decide)

/-- What happens beyond the side condition: it fails exactly when Go's `Generate` panics
    (`nBytes = 0`, integer division by zero at the first probe) once a key has been added. -/
theorem bloom_side_condition_exact (bpk nKeys : Nat) :
    bloomGenPanics bpk nKeys = true ↔ ¬ ((nKeys * bpk) % 2 ^ 32 + 7 < 2 ^ 32) :=
  bloomGenPanics_iff bpk nKeys

/-- non-vacuity: 16 843 009 keys at 255 bits per key give `len * bpk = 2^32 - 1` -/
example : bloomGenPanics 255 16843009 = true := by decide
example : bloomGenPanics 10 2000 = false := by decide

/-- The Bloom policy satisfies the filter contract for key sets of at most `n` keys whenever
    `n * bpk ≤ 2^32 - 8`.  The bound cannot be dropped for every `bpk` (`bloom_unbounded_fails`), hence
    `LawfulFilterBounded` instead of `LawfulFilter`; for `bpk = 10` it allows 429 496 728 keys per filter,
    whereas the table writer puts the keys of one data block (a few hundred) into one filter. -/
theorem bloom_lawful (bpk n : Nat) (hb : n * bpk + 7 < 2 ^ 32) :
    LawfulFilterBounded (bloomPolicy bpk) n := by
  intro keys k hlen hmem
  have : keys.length * bpk ≤ n * bpk := Nat.mul_le_mul_right _ hlen
  exact bloom_no_false_negative bpk keys k (by rw [Nat.mod_eq_of_lt (by omega)]; omega) hmem

example : LawfulFilterBounded (bloomPolicy 10) 400000000 := bloom_lawful 10 400000000 (by decide)
example : (bloomPolicy 10).contains ((bloomPolicy 10).generate ks) [0x61, 0x62] = true :=
  bloom_lawful 10 4 (by decide) ks _ (by decide) (by decide)

/-- When `8 ∣ bpk` the product is a multiple of 8, the rounding never wraps, and the contract holds
    without any bound. -/
theorem bloom_lawful_of_dvd (bpk : Nat) (h8 : 8 ∣ bpk) : LawfulFilter (bloomPolicy bpk) := by
  intro keys k hmem
  obtain ⟨c, rfl⟩ := h8
  apply bloom_no_false_negative _ keys k _ hmem
  rw [Nat.mul_left_comm]
  omega

example : LawfulFilter (bloomPolicy 16) := bloom_lawful_of_dvd 16 (by decide)

/-- … and it does fail for some `bpk` in the model (in Go: a panic instead of a wrong answer). -/
theorem bloom_unbounded_fails : ¬ LawfulFilter (bloomPolicy 255) := by
  intro h
  have key : ∀ keys : List Bytes, keys.length = 16843009 → ([] : Bytes) ∈ keys → False := by
    intro keys hl hm
    have h1 : bloomContains (bloomGenerate 255 keys) [] = true := h keys [] hm
    have h2 := bloom_panic_model 255 keys [] (by rw [hl]; decide)
    rw [h2] at h1
    cases h1
  exact key (List.replicate 16843009 []) List.length_replicate
    (List.mem_replicate.mpr ⟨by decide, rfl⟩)

/-- `iFilter`: a lawful user policy stays lawful when wrapped for internal keys — an internal key that was
    added is found because its user key (all but the last 8 bytes) was added to the inner filter. -/
theorem internal_lawful (f : FilterPolicy) (h : LawfulFilter f) : LawfulFilter f.internal := by
  intro ikeys ik hmem
  exact h _ _ (List.mem_map_of_mem (f := fun k : Bytes => k.take (k.length - 8)) hmem)

theorem internal_lawful_bounded (f : FilterPolicy) (n : Nat) (h : LawfulFilterBounded f n) :
    LawfulFilterBounded f.internal n := by
  intro ikeys ik hlen hmem
  exact h _ _ (by rw [List.length_map]; exact hlen)
    (List.mem_map_of_mem (f := fun k : Bytes => k.take (k.length - 8)) hmem)

/-- non-vacuity: two internal keys (user key ++ 8 trailer bytes) through the wrapped Bloom policy;
    the wrapped filter is the filter of the user keys -/
private def iks : List Bytes := [[0x61, 1, 5, 0, 0, 0, 0, 0, 0], [0x62, 0x63, 0, 9, 0, 0, 0, 0, 0, 0]]
example : (bloomPolicy 16).internal.contains ((bloomPolicy 16).internal.generate iks)
    [0x62, 0x63, 0, 9, 0, 0, 0, 0, 0, 0] = true :=
  internal_lawful _ (bloom_lawful_of_dvd 16 (by decide)) iks _ (by decide)
example : (bloomPolicy 10).internal.contains ((bloomPolicy 10).internal.generate iks)
    [0x61, 1, 5, 0, 0, 0, 0, 0, 0] = true :=
  internal_lawful_bounded _ 2 (bloom_lawful 10 2 (by decide)) iks _ (by decide) (by decide)
example : (bloomPolicy 10).internal.generate iks = (bloomPolicy 10).generate [[0x61], [0x62, 0x63]] := rfl

/-- `NewGenerator` always picks `1 ≤ k ≤ 30`, also where `uint8(f*69/100)` wraps -/
theorem bloom_k_range (b : Nat) : 1 ≤ bloomK b ∧ bloomK b ≤ 30 := bloomK_range b

example : bloomK 10 = 6 ∧ bloomK 1 = 1 ∧ bloomK 64 = 30 ∧ bloomK 372 = 1 ∧ bloomK 400 = 20 := by decide

end GoLevel.C16

namespace GoLevel
def C16.theorems : List String :=
  ["GoLevel.C16.bloom_no_false_negative", "GoLevel.C16.bloom_no_false_negative_nowrap",
   "GoLevel.C16.bloom_side_condition_exact", "GoLevel.C16.bloom_lawful", "GoLevel.C16.bloom_lawful_of_dvd",
   "GoLevel.C16.bloom_unbounded_fails", "GoLevel.C16.internal_lawful", "GoLevel.C16.internal_lawful_bounded",
   "GoLevel.C16.bloom_k_range"]
end GoLevel
