import GoLevel.Proofs.Score
import GoLevel.Props.C06
/-!
# C06 / C09 — which level a version wants compacted (`version.computeCompaction`, `needCompaction`)

Model: `GoLevel/Model/Score.lean` (the loop of `computeCompaction` over exact fractions); proofs: `GoLevel/Proofs/Score.lean`.
`pickCompaction` read `v.cScore >= 1` and `v.cLevel` as given numbers in `Model/Pick.lean` (`PickState`); here they are
computed from the version the way the code computes them, so that

* a score-based pick never indexes an empty level (`tables[0]` in `pickCompaction` cannot panic): `score_pick_has_inputs`;
* the level chosen is the FIRST level of maximal score: `computed_level_is_first_max`;
* `needCompaction` by score is exactly "some level is over its limit": `score_ge1_iff_some_level_over`;
* a writer that `DB.flush` parks at `WriteL0PauseTrigger` waits for a compaction that exists, provided the pause
  trigger is not below the level-0 compaction trigger: `paused_writer_waits_for_real_work` — and the proviso is
  needed: `pause_below_trigger_waits_for_nothing` (the configuration of wp41's third observation, DESIGN.md 9.4).

Tie: `lsm score` lines of the trace validation — every installed version of the real DB is scored by the model from the
real `GetCompactionL0Trigger()` / `GetCompactionTotalSize(level)` and compared with the `cLevel` / `cScore >= 1` the
real `computeCompaction` left in it (hook field of `VerifVersion`).
-/
namespace GoLevel.C06Score
open GoLevel.Pick GoLevel.Score

/-- **`computed_level_is_first_max`**.  For every version and every sanitised option set, what `computeCompaction`
leaves is: nothing (`bestLevel = -1`) exactly for a version without levels; otherwise a real level `l` with its own
score `s`, no level scores higher, every level before `l` scores strictly lower. -/
theorem computed_level_is_first_max {o : ScoreOpts} (hp : o.Pos) (v : Version) :
    (computeCompaction o v = none ↔ v.levels = []) ∧
    ∀ l s, computeCompaction o v = some (l, s) →
      l < v.levels.length ∧ s = scoreAt o v l ∧
      (∀ j, j < v.levels.length → s.lt (scoreAt o v j) = false) ∧
      (∀ j, j < l → (scoreAt o v j).lt s = true) := by
  have hi := computeCompaction_inv hp v
  constructor
  · constructor
    · intro h
      rw [h] at hi
      exact List.eq_nil_of_length_eq_zero hi
    · intro h
      unfold computeCompaction
      rw [h]; rfl
  · intro l s h
    rw [h] at hi
    exact hi

/-- **`score_ge1_iff_some_level_over`**.  `v.cScore >= 1` holds exactly when some level is at or over its limit
(level 0: at least `CompactionL0Trigger` tables; level `i ≥ 1`: at least `GetCompactionTotalSize(i)` bytes). -/
theorem score_ge1_iff_some_level_over {o : ScoreOpts} (hp : o.Pos) (v : Version) :
    scoreGE1 o v = true ↔ ∃ j, j < v.levels.length ∧ (scoreAt o v j).ge1 = true := by
  obtain ⟨hnone, hsome⟩ := computed_level_is_first_max hp v
  unfold scoreGE1
  cases hc : computeCompaction o v with
  | none =>
    have := hnone.1 hc
    simp [this]
  | some p =>
    obtain ⟨l, s⟩ := p
    obtain ⟨hl, hs, hmax, _⟩ := hsome l s hc
    constructor
    · intro h
      exact ⟨l, hl, by rw [← hs]; exact h⟩
    · rintro ⟨j, hj, hge⟩
      exact Frac.ge1_of_le (scoreAt_den_pos hp v j) (hmax j hj) hge

/-- **`score_pick_has_inputs`**.  When `computeCompaction` left a score `≥ 1`, the level it names holds a table, so
the score-based branch of `pickCompaction` finds its inputs (`tables[0]` exists: no index panic) — for every
compaction-pointer state. -/
theorem score_pick_has_inputs {o : ScoreOpts} (hp : o.Pos) (c : UCmp) (v : Version)
    (compPtrs : List (Option IKey)) (cSeek : Option (Nat × Table)) (h : scoreGE1 o v = true) :
    lvlOf v (cLevel o v) ≠ [] ∧
    ∃ t0, pickInputs c v (pickState o v compPtrs cSeek) = some (cLevel o v, t0) := by
  obtain ⟨_, hsome⟩ := computed_level_is_first_max hp v
  unfold scoreGE1 at h
  cases hc : computeCompaction o v with
  | none => rw [hc] at h; cases h
  | some p =>
    obtain ⟨l, s⟩ := p
    rw [hc] at h
    obtain ⟨_, hs, _, _⟩ := hsome l s hc
    have hcl : cLevel o v = l := by unfold cLevel; rw [hc]
    have hne : lvlOf v l ≠ [] := scoreAt_ge1_nonempty hp v l (by rw [← hs]; exact h)
    rw [hcl]
    refine ⟨hne, ?_⟩
    have hge : scoreGE1 o v = true := by unfold scoreGE1; rw [hc]; exact h
    unfold pickInputs pickState
    simp only [hge, if_true, hcl]
    unfold scoreInputs
    by_cases he : (afterCompPtr c (lvlOf v l) l (getCompPtr ⟨true, l, compPtrs, cSeek⟩ l)).isEmpty = true
    · rw [if_pos he]
      cases hlv : lvlOf v l with
      | nil => exact absurd hlv hne
      | cons t rest => exact ⟨[t], rfl⟩
    · rw [if_neg he]
      exact ⟨_, rfl⟩

/-- **`paused_writer_waits_for_real_work`** (C09).  `DB.flush` parks a writer on `compTriggerWait(tcompCmdC)` when level 0
holds at least `WriteL0PauseTrigger` tables.  If the pause trigger is not below the level-0 compaction trigger, then
on every well-formed version in that state `pickCompaction` builds a compaction: the table-compaction goroutine the
writer waits for has work, whatever the compaction pointers and the seek state are. -/
theorem paused_writer_waits_for_real_work {c : UCmp} (hl : LawfulUCmp c) {o : ScoreOpts} (hp : o.Pos) (lim : Limits)
    (v : Version) (hv : v.wfB c = true) (pause : Nat) (hpt : o.l0Trigger ≤ pause)
    (hpaused : pause ≤ (lvlOf v 0).length)
    (compPtrs : List (Option IKey)) (cSeek : Option (Nat × Table))
    (hseek : ∀ lvl t, cSeek = some (lvl, t) → t ∈ v.lvl lvl) :
    scoreGE1 o v = true ∧ ∃ cm, pickCompaction c lim v (pickState o v compPtrs cSeek) = some cm := by
  have hlen : 0 < v.levels.length := by
    cases hlv : v.levels with
    | nil =>
      have : lvlOf v 0 = [] := by unfold lvlOf; rw [hlv]; rfl
      rw [this] at hpaused
      have := hp.1
      simp at hpaused; omega
    | cons _ _ => simp
  have hge : scoreGE1 o v = true := by
    rw [score_ge1_iff_some_level_over hp v]
    refine ⟨0, hlen, ?_⟩
    unfold scoreAt levelScore
    simp only [if_true, Frac.ge1, decide_eq_true_eq]
    omega
  refine ⟨hge, ?_⟩
  obtain ⟨_, t0, ht0⟩ := score_pick_has_inputs hp c v compPtrs cSeek hge
  have hw := (Version.wfB_iff_WFi hl v).1 hv
  exact pickCompaction_isSome hl lim v hw (pickState o v compPtrs cSeek) hseek _ t0 ht0

/-! ### the proviso is needed -/

private def tb (n : Nat) (a b : Nat) : Table :=
  ⟨n, 10, [⟨⟨[a.toUInt8], 257⟩, []⟩, ⟨⟨[b.toUInt8], 257⟩, []⟩], ⟨[a.toUInt8], 257⟩, ⟨[b.toUInt8], 257⟩⟩

/-- **`pause_below_trigger_waits_for_nothing`**.  With `WriteL0PauseTrigger = 2` below `CompactionL0Trigger = 4` a
version with two level-0 tables parks every writer that needs room, yet `computeCompaction` scores it below 1 and
`pickCompaction` (no seek state) returns nil: the writer waits for a compaction that is never needed (wp41's third
observation; the option getters do not order the two triggers). -/
theorem pause_below_trigger_waits_for_nothing :
    let o : ScoreOpts := ⟨4, fun _ => 1000⟩
    let v : Version := ⟨[[tb 2 5 6, tb 1 1 2]]⟩
    2 ≤ (lvlOf v 0).length ∧ scoreGE1 o v = false ∧
    pickCompaction bytewise ⟨fun _ => 0, fun _ => 0, fun _ => 0⟩ v (pickState o v [] none) = none := by
  decide

/-- non-vacuity: a three-level version; level 1 (30 of 20 bytes) beats level 0 (1 of 4 tables) and level 2 (10 of 100) -/
example :
    let o : ScoreOpts := ⟨4, fun l => if l = 1 then 20 else 100⟩
    let v : Version := ⟨[[tb 9 1 2], [tb 5 1 2, tb 6 3 4, tb 7 5 6], [tb 1 1 9]]⟩
    o.Pos ∧ computeCompaction o v = some (1, ⟨30, 20⟩) ∧ scoreGE1 o v = true ∧ cLevel o v = 1 ∧
    (pickInputs bytewise v (pickState o v [] none)).map (fun p => (p.1, p.2.map (·.num))) = some (1, [5]) := by
  refine ⟨⟨by decide, fun l => by show 0 < (if l = 1 then 20 else 100); split <;> omega⟩, by decide, by decide, by decide, by decide⟩

/-- non-vacuity of the tie-break: equal scores keep the FIRST level (`score > bestScore` is strict) -/
example :
    computeCompaction ⟨1, fun _ => 10⟩ ⟨[[tb 9 1 2], [tb 5 1 2], [tb 1 1 9]]⟩ = some (0, ⟨1, 1⟩) := by decide

end GoLevel.C06Score

def GoLevel.C06Score.theorems : List String :=
  ["GoLevel.C06Score.computed_level_is_first_max", "GoLevel.C06Score.score_ge1_iff_some_level_over",
   "GoLevel.C06Score.score_pick_has_inputs", "GoLevel.C06Score.paused_writer_waits_for_real_work",
   "GoLevel.C06Score.pause_below_trigger_waits_for_nothing"]
