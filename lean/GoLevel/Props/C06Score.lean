import GoLevel.Proofs.Score
import GoLevel.Proofs.Seek
import GoLevel.Props.C06
/-!
# C06 / C09 — which level a version wants compacted (`version.computeCompaction`, `needCompaction`)

Model: `GoLevel/Model/Score.lean` (the loop of `computeCompaction` over exact fractions); proofs: `GoLevel/Proofs/Score.lean`.
`pickCompaction` read `v.cScore >= 1` and `v.cLevel` as given numbers in `Model/Pick.lean` (`PickState`); here they are
computed from the version the way the code computes them, so that

* a score-based pick never indexes an empty level (`tables[0]` in `pickCompaction` cannot panic): `score_pick_has_inputs`;
* the level chosen is the FIRST level of maximal score: `computed_level_is_first_max`;
* `needCompaction` by score is exactly "some level is over its limit": `score_ge1_iff_some_level_over`;
* a writer that `DB.flush` parks at `WriteL0PauseTrigger` waits for a compaction that exists, provided the pause
  trigger is not below the level-0 compaction trigger: `paused_writer_waits_for_real_work` — and the proviso is
  needed: `pause_below_trigger_waits_for_nothing` (the configuration of wp41's third observation, DESIGN.md 9.4).

Tie: `lsm score` lines of the trace validation — every installed version of the real DB is scored by the model from the
real `GetCompactionL0Trigger()` / `GetCompactionTotalSize(level)` and compared with the `cLevel` / `cScore >= 1` the
real `computeCompaction` left in it (hook field of `VerifVersion`).
-/
namespace GoLevel.C06Score
open GoLevel.Pick GoLevel.Score

/-- **`computed_level_is_first_max`**.  For every version and every sanitised option set, what `computeCompaction`
leaves is: nothing (`bestLevel = -1`) exactly for a version without levels; otherwise a real level `l` with its own
score `s`, no level scores higher, every level before `l` scores strictly lower. -/
theorem computed_level_is_first_max {o : ScoreOpts} (hp : o.Pos) (v : Version) :
    (computeCompaction o v = none ↔ v.levels = []) ∧
    ∀ l s, computeCompaction o v = some (l, s) →
      l < v.levels.length ∧ s = scoreAt o v l ∧
      (∀ j, j < v.levels.length → s.lt (scoreAt o v j) = false) ∧
      (∀ j, j < l → (scoreAt o v j).lt s = true) := by
  have hi := computeCompaction_inv hp v
  constructor
  · constructor
    · intro h
      rw [h] at hi
      exact List.eq_nil_of_length_eq_zero hi
    · intro h
      unfold computeCompaction
      rw [h]; rfl
  · intro l s h
    rw [h] at hi
    exact hi

/-- **`score_ge1_iff_some_level_over`**.  `v.cScore >= 1` holds exactly when some level is at or over its limit
(level 0: at least `CompactionL0Trigger` tables; level `i ≥ 1`: at least `GetCompactionTotalSize(i)` bytes). -/
theorem score_ge1_iff_some_level_over {o : ScoreOpts} (hp : o.Pos) (v : Version) :
    scoreGE1 o v = true ↔ ∃ j, j < v.levels.length ∧ (scoreAt o v j).ge1 = true := by
  obtain ⟨hnone, hsome⟩ := computed_level_is_first_max hp v
  unfold scoreGE1
  cases hc : computeCompaction o v with
  | none =>
    have := hnone.1 hc
    simp [this]
  | some p =>
    obtain ⟨l, s⟩ := p
    obtain ⟨hl, hs, hmax, _⟩ := hsome l s hc
    constructor
    · intro h
      exact ⟨l, hl, by rw [← hs]; exact h⟩
    · rintro ⟨j, hj, hge⟩
      exact Frac.ge1_of_le (scoreAt_den_pos hp v j) (hmax j hj) hge

/-- **`score_pick_has_inputs`**.  When `computeCompaction` left a score `≥ 1`, the level it names holds a table, so
the score-based branch of `pickCompaction` finds its inputs (`tables[0]` exists: no index panic) — for every
compaction-pointer state. -/
theorem score_pick_has_inputs {o : ScoreOpts} (hp : o.Pos) (c : UCmp) (v : Version)
    (compPtrs : List (Option IKey)) (cSeek : Option (Nat × Table)) (h : scoreGE1 o v = true) :
    lvlOf v (cLevel o v) ≠ [] ∧
    ∃ t0, pickInputs c v (pickState o v compPtrs cSeek) = some (cLevel o v, t0) := by
  obtain ⟨_, hsome⟩ := computed_level_is_first_max hp v
  unfold scoreGE1 at h
  cases hc : computeCompaction o v with
  | none => rw [hc] at h; cases h
  | some p =>
    obtain ⟨l, s⟩ := p
    rw [hc] at h
    obtain ⟨_, hs, _, _⟩ := hsome l s hc
    have hcl : cLevel o v = l := by unfold cLevel; rw [hc]
    have hne : lvlOf v l ≠ [] := scoreAt_ge1_nonempty hp v l (by rw [← hs]; exact h)
    rw [hcl]
    refine ⟨hne, ?_⟩
    have hge : scoreGE1 o v = true := by unfold scoreGE1; rw [hc]; exact h
    unfold pickInputs pickState
    simp only [hge, if_true, hcl]
    unfold scoreInputs
    by_cases he : (afterCompPtr c (lvlOf v l) l (getCompPtr ⟨true, l, compPtrs, cSeek⟩ l)).isEmpty = true
    · rw [if_pos he]
      cases hlv : lvlOf v l with
      | nil => exact absurd hlv hne
      | cons t rest => exact ⟨[t], rfl⟩
    · rw [if_neg he]
      exact ⟨_, rfl⟩

/-- **`paused_writer_waits_for_real_work`** (C09).  `DB.flush` parks a writer on `compTriggerWait(tcompCmdC)` when level 0
holds at least `WriteL0PauseTrigger` tables.  If the pause trigger is not below the level-0 compaction trigger, then
on every well-formed version in that state `pickCompaction` builds a compaction: the table-compaction goroutine the
writer waits for has work, whatever the compaction pointers and the seek state are. -/
theorem paused_writer_waits_for_real_work {c : UCmp} (hl : LawfulUCmp c) {o : ScoreOpts} (hp : o.Pos) (lim : Limits)
    (v : Version) (hv : v.wfB c = true) (pause : Nat) (hpt : o.l0Trigger ≤ pause)
    (hpaused : pause ≤ (lvlOf v 0).length)
    (compPtrs : List (Option IKey)) (cSeek : Option (Nat × Table))
    (hseek : ∀ lvl t, cSeek = some (lvl, t) → t ∈ v.lvl lvl) :
    scoreGE1 o v = true ∧ ∃ cm, pickCompaction c lim v (pickState o v compPtrs cSeek) = some cm := by
  have hlen : 0 < v.levels.length := by
    cases hlv : v.levels with
    | nil =>
      have : lvlOf v 0 = [] := by unfold lvlOf; rw [hlv]; rfl
      rw [this] at hpaused
      have := hp.1
      simp at hpaused; omega
    | cons _ _ => simp
  have hge : scoreGE1 o v = true := by
    rw [score_ge1_iff_some_level_over hp v]
    refine ⟨0, hlen, ?_⟩
    unfold scoreAt levelScore
    simp only [if_true, Frac.ge1, decide_eq_true_eq]
    omega
  refine ⟨hge, ?_⟩
  obtain ⟨_, t0, ht0⟩ := score_pick_has_inputs hp c v compPtrs cSeek hge
  have hw := (Version.wfB_iff_WFi hl v).1 hv
  exact pickCompaction_isSome hl lim v hw (pickState o v compPtrs cSeek) hseek _ t0 ht0

/-! ### the proviso is needed -/

private def tb (n : Nat) (a b : Nat) : Table :=
  ⟨n, 10, [⟨⟨[a.toUInt8], 257⟩, []⟩, ⟨⟨[b.toUInt8], 257⟩, []⟩], ⟨[a.toUInt8], 257⟩, ⟨[b.toUInt8], 257⟩⟩

/-- **`pause_below_trigger_waits_for_nothing`**.  With `WriteL0PauseTrigger = 2` below `CompactionL0Trigger = 4` a
version with two level-0 tables parks every writer that needs room, yet `computeCompaction` scores it below 1 and
`pickCompaction` (no seek state) returns nil: the writer waits for a compaction that is never needed (wp41's third
observation; the option getters do not order the two triggers). -/
theorem pause_below_trigger_waits_for_nothing :
    let o : ScoreOpts := ⟨4, fun _ => 1000⟩
    let v : Version := ⟨[[tb 2 5 6, tb 1 1 2]]⟩
    2 ≤ (lvlOf v 0).length ∧ scoreGE1 o v = false ∧
    pickCompaction bytewise ⟨fun _ => 0, fun _ => 0, fun _ => 0⟩ v (pickState o v [] none) = none := by
  decide

/-- non-vacuity: a three-level version; level 1 (30 of 20 bytes) beats level 0 (1 of 4 tables) and level 2 (10 of 100) -/
example :
    let o : ScoreOpts := ⟨4, fun l => if l = 1 then 20 else 100⟩
    let v : Version := ⟨[[tb 9 1 2], [tb 5 1 2, tb 6 3 4, tb 7 5 6], [tb 1 1 9]]⟩
    o.Pos ∧ computeCompaction o v = some (1, ⟨30, 20⟩) ∧ scoreGE1 o v = true ∧ cLevel o v = 1 ∧
    (pickInputs bytewise v (pickState o v [] none)).map (fun p => (p.1, p.2.map (·.num))) = some (1, [5]) := by
  refine ⟨⟨by decide, fun l => by show 0 < (if l = 1 then 20 else 100); split <;> omega⟩, by decide, by decide, by decide, by decide⟩

/-- non-vacuity of the tie-break: equal scores keep the FIRST level (`score > bestScore` is strict) -/
example :
    computeCompaction ⟨1, fun _ => 10⟩ ⟨[[tb 9 1 2], [tb 5 1 2], [tb 1 1 9]]⟩ = some (0, ⟨1, 1⟩) := by decide

/-! ## the seek-compaction candidate (`version.get`: `tset`, `tseek`, `v.cSeek`) -/

/-- **`seek_charge_in_version`**.  The table a lookup charges a seek to — the first table of the version it consulted,
when it had to consult a second one — is a table of that version at the level recorded with it, for every version,
transaction table set, key and sequence number.  This is the premise `hseek` of `C06.pick_compaction_inputs_closed`
(`v.cSeek` is only ever set by a lookup on `v` itself). -/
theorem seek_charge_in_version (c : UCmp) (aux : Level) (v : Version) (k : Bytes) (s : Nat) (l : Nat) (t : Table)
    (h : Seek.seekCharge c aux v k s = some (l, t)) :
    t ∈ v.lvl l ∧ 2 ≤ (Seek.visits c aux v k s).length ∧ (Seek.visits c aux v k s).head? = some (l, t) := by
  unfold Seek.seekCharge at h
  cases hv : Seek.visits c aux v k s with
  | nil => rw [hv] at h; cases h
  | cons a rest =>
    rw [hv] at h
    cases rest with
    | nil => cases h
    | cons b rest' =>
      simp only [Option.some.injEq] at h
      subst h
      refine ⟨Seek.visits_mem c aux v k s l t (by rw [hv]; simp), by simp, rfl⟩

/-- **`seek_pick_inputs_closed`**.  A seek-based pick whose candidate was recorded by a lookup on the same version
builds a compaction with closed inputs: `C06.pick_compaction_inputs_closed` without its premise on `cSeek`. -/
theorem seek_pick_inputs_closed {c : UCmp} (hl : LawfulUCmp c) (lim : Limits) (v : Version) (hv : v.wfB c = true)
    (aux : Level) (k : Bytes) (s : Nat) (l : Nat) (t : Table)
    (hcharge : Seek.seekCharge c aux v k s = some (l, t)) (compPtrs : List (Option IKey)) (cl : Nat) :
    ∃ cm, pickCompaction c lim v ⟨false, cl, compPtrs, some (l, t)⟩ = some cm ∧ cm.sourceLevel = l ∧
      (∀ x ∈ cm.s0, x ∈ v.lvl l) ∧ (∀ x ∈ cm.s1, x ∈ v.lvl (l + 1)) ∧ t ∈ cm.s0 ∧
      (∀ x ∈ v.lvl (l + 1), x.overlapsRange c cm.imin.ukey cm.imax.ukey = true ↔ x ∈ cm.s1) := by
  have hmem := (seek_charge_in_version c aux v k s l t hcharge).1
  obtain ⟨cm, hcm, hsrc, h0, h1, ht0, _, hall, _⟩ :=
    C06.pick_compaction_inputs_closed hl lim v hv ⟨false, cl, compPtrs, some (l, t)⟩
      (by intro lvl t' he; cases he; exact hmem) l [t] rfl
  exact ⟨cm, hcm, hsrc, h0, h1, ht0 t (by simp), hall⟩

/-- **`lookup_without_visits_misses`**.  The walk and the answer agree at the empty end: when no auxiliary table holds the
key and `version.get` consults no table of the version (no level-0 range contains the key, no deeper level has a
candidate), the lookup reports the key absent from the version — the model of the walk (`Seek.visits`) and the
lookup of C01 (`versionGet`) are two views of the same code. -/
theorem lookup_without_visits_misses (c : UCmp) (aux : Level) (v : Version) (k : Bytes) (s : Nat)
    (haux : l0Get c aux k s = none) (h : Seek.visits c aux v k s = []) : versionGet c aux v k s = .miss :=
  Seek.versionGet_miss_of_no_visits c aux v k s haux h

/-- non-vacuity: key `[3]` lies in the ranges of both level-0 tables and is held by neither (entries `[1],[5]` /
`[2],[4]`): the first one consulted is charged; key `[1]` is found in the first table consulted after one more
level-0 visit; a key outside every range consults nothing -/
example :
    let v : Version := ⟨[[tb 7 1 5, tb 6 2 4], [tb 3 1 9]]⟩
    (Seek.visits bytewise [] v [3] 9).map (fun p => (p.1, p.2.num)) = [(0, 7), (0, 6), (1, 3)] ∧
    (Seek.seekCharge bytewise [] v [3] 9).map (fun p => (p.1, p.2.num)) = some (0, 7) ∧
    (Seek.visits bytewise [] v [1] 9).map (fun p => (p.1, p.2.num)) = [(0, 7)] ∧
    Seek.seekCharge bytewise [] v [1] 9 = none ∧
    Seek.visits bytewise [] v [10] 9 = [] := by decide

end GoLevel.C06Score

def GoLevel.C06Score.theorems : List String :=
  ["GoLevel.C06Score.computed_level_is_first_max", "GoLevel.C06Score.score_ge1_iff_some_level_over",
   "GoLevel.C06Score.score_pick_has_inputs", "GoLevel.C06Score.paused_writer_waits_for_real_work",
   "GoLevel.C06Score.pause_below_trigger_waits_for_nothing", "GoLevel.C06Score.seek_charge_in_version",
   "GoLevel.C06Score.seek_pick_inputs_closed", "GoLevel.C06Score.lookup_without_visits_misses"]
