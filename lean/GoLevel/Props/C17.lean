import GoLevel.Proofs.CacheStep
/-! # C17 — the cache that holds open tables and blocks

"Concurrent lookups of the same (namespace, key) obtain the same live value, whose constructor runs once per
residency; a value is finalised exactly once, and - except when the whole cache is force-closed - only after
every handle to it has been released; deletion callbacks run exactly once and never while a handle is
outstanding.  The total charge of entries retained by the replacement policy never exceeds the configured
capacity."

Model: `GoLevel.CacheM` (`Model/Cache.lean`), the interleaving system `sysStep` over the critical sections of
`cache.go` / `lru.go`, for any number of threads and handles.  `Reachable g s`: `s` is reachable; with `g = true`
the system is *guarded*: `Close` takes `r.mu` only while no thread sits between the decrement that brought a
counter to zero in `Node.unRefExternal` and the `RLock` that follows it.  `close_race_*` below show that the
finalisation properties are false without that hypothesis (a defect of the code: `unRefExternal` decides
"I am the last one" before it synchronises with `Close`).  `lru_capacity` and the first part of
`unique_live_value` hold for the unguarded system as well.

Abstraction recorded in the model: `Node.callFinalizer` (unsynchronised in the code) is one atomic step. -/
namespace GoLevel.C17
open GoLevel.CacheM

/-- **unique_live_value.**  In every reachable state: (1) there is at most one node per (ns,key) — so `Get`s that
overlap obtain handles to the same node; (2) (guarded or not yet closed, not force-closed) every outstanding
handle — of a caller, of the LRU list, or in flight in a thread — refers to an existing node that has its
value; (3) a step never replaces the value of a node: it can only disappear, and only through its finaliser;
keys never change; (4) the constructor (`setFunc`) runs only for a node without a value and installs the
value it returns — once per residency. -/
theorem unique_live_value {g : Bool} {s : Sys} (hr : Reachable g s) :
    (∀ n ∈ s.sh.nodes, ∀ m ∈ s.sh.nodes, n.key = m.key → n = m) ∧
    ((g = true ∨ s.sh.closed = false) → s.sh.forced = false → ∀ id, 0 < outstanding s id →
        ∃ n ∈ s.sh.nodes, n.id = id ∧ n.value.isSome = true) ∧
    (∀ a s', sysStep g s a = some s' →
      (∀ n ∈ s.sh.nodes, ∀ n' ∈ s'.sh.nodes, n'.id = n.id →
          n'.key = n.key ∧ ∀ v, n.value = some v →
            n'.value = some v ∨ (n'.value = none ∧ ∃ f, Ev.fin n.id v f ∈ emitted s a)) ∧
      (∀ id v, Ev.ctor id v ∈ emitted s a →
          (∃ n ∈ s.sh.nodes, n.id = id ∧ n.value = none) ∧ ∃ n' ∈ s'.sh.nodes, n'.id = id ∧ n'.value = some v)) := by
  have hinv := inv_reachable hr
  refine ⟨?_, ?_, ?_⟩
  · -- keys are distinct
    intro n hn m hm hk
    have hkeys := hinv.core.keys
    obtain ⟨A, B, hAB⟩ := List.append_of_mem hn
    by_cases hnm : n = m
    · exact hnm
    · exfalso
      rw [hAB] at hm hkeys
      simp only [List.map_append, List.map_cons] at hkeys
      have h1 := List.nodup_append.mp hkeys
      rcases List.mem_append.mp hm with hmA | hmB
      · exact h1.2.2 m.key (List.mem_map_of_mem hmA) n.key List.mem_cons_self hk.symm
      · rcases List.mem_cons.mp hmB with rfl | hmB
        · exact hnm rfl
        · exact (List.nodup_cons.mp h1.2.1).1 (hk ▸ List.mem_map_of_mem hmB)
  · intro hg hf id hpos
    have hle := outstanding_le_refs s id
    obtain ⟨n, hn, hid⟩ := hinv.core.ex id (by omega)
    refine ⟨n, hn, hid, hinv.core.vl hg hf n hn ?_⟩
    unfold outstanding at hpos
    by_cases h1 : id ∈ s.sh.handles
    · exact Or.inl (hid ▸ h1)
    · by_cases h2 : id ∈ s.sh.lru.recent
      · obtain ⟨m, hm, hmid, hml⟩ := (hinv.core.lr.2 id).mp h2
        have := same_of_id hinv.core.ids.1 hm hn (by rw [hmid, hid]); subst this
        exact Or.inr (Or.inl hml)
      · have c1 := List.count_eq_zero.mpr h1
        have c2 := List.count_eq_zero.mpr h2
        obtain ⟨j, hj, hv⟩ := List.countP_pos_iff.mp (by omega : 0 < (pending s).countP (holdsHandle id))
        refine Or.inr (Or.inr ⟨j, hj, ?_⟩)
        rw [hid]; cases j <;> simp_all [holdsHandle, holdsVal]
  · intro a s' hs
    rcases sysStep_cases hs with ⟨t, c, rfl, _, hem, rfl⟩ | ⟨t, i, rest, sh', push, evs, rfl, ht, he, hem, rfl⟩
    · refine ⟨fun n hn n' hn' hid => ?_, fun id v hev => ?_⟩
      · have := same_of_id hinv.core.ids.1 hn' hn hid; subst this
        exact ⟨rfl, fun v hv => Or.inl hv⟩
      · rw [hem] at hev; cases hev
    · obtain ⟨hP, _⟩ := invP_at hinv ht
      rw [hem]
      refine ⟨fun n hn n' hn' hid => ?_, fun id v hev => ?_⟩
      · have := node_step hP he hn hn' hid
        exact ⟨this.2.2, this.1⟩
      · have := ctor_step he hev
        exact ⟨this.1, this.2.2⟩

/-- Two handles whose nodes have the same (ns,key) are handles to the same node, hence to the same value. -/
theorem same_key_same_value {g : Bool} {s : Sys} (hr : Reachable g s) {n m : Node}
    (hn : n ∈ s.sh.nodes) (hm : m ∈ s.sh.nodes) (hk : n.key = m.key) : n.id = m.id ∧ n.value = m.value := by
  have := (unique_live_value hr).1 n hn m hm hk
  subst this; exact ⟨rfl, rfl⟩

/-- **finalise_once_after_release.**  (1) No value's `Release` appears twice in the history, and a finalised
value is not resident any more; (2) in the guarded system (or before `Close`), unless the cache was
force-closed, a finaliser only runs in a state in which no handle to its node is outstanding (callers, LRU
list and threads all counted). -/
theorem finalise_once_after_release {g : Bool} {s : Sys} (hr : Reachable g s) :
    (s.log.filterMap finVal).Nodup ∧
    (∀ v ∈ s.log.filterMap finVal, ∀ n ∈ s.sh.nodes, n.value ≠ some v) ∧
    (∀ a s', sysStep g s a = some s' → s.sh.forced = false → (g = true ∨ s.sh.closed = false) →
      ∀ id v f, Ev.fin id v f ∈ emitted s a → outstanding s id = 0) := by
  have hinv := inv_reachable hr
  have hlog := logOK_reachable hr
  have hv := List.nodup_append.mp hlog.vals.1
  refine ⟨hv.1, ?_, ?_⟩
  · intro v hvm n hn hval
    exact hv.2.2 v hvm v (List.mem_filterMap.mpr ⟨n, hn, hval⟩) rfl
  · intro a s' hs hf hg id v f hev
    rcases sysStep_cases hs with ⟨t, c, rfl, _, hem, rfl⟩ | ⟨t, i, rest, sh', push, evs, rfl, ht, he, hem, rfl⟩
    · rw [hem] at hev; cases hev
    · obtain ⟨hP, hperm⟩ := invP_at hinv ht
      rw [hem] at hev
      have h0 := fin_refs_zero hP he hf hg hev (id := id) (by simp [isFinOf])
      have hle := outstanding_le_refs s id
      have : refsP s.sh (pending s) id = refsP s.sh (i :: (pending s).erase i) id := by
        simp only [refsP]; rw [hperm.countP_eq]
      omega

/-- The full "exactly once": additionally every constructed value is eventually finalised, i.e. in a
quiescent state (no thread inside the cache, no caller handle) every value ever constructed is either in the
history of finalisers or resident in a node kept by the LRU list.  Not proved in Lean (it needs one more
invariant: a node whose counter is zero has a pending `mBucket.delete`); the Go check evaluates it on the
implementation at every quiescent point and after `Close`. -/
def finalise_exactly_once_full : Prop :=
  ∀ {s : Sys}, Reachable true s → pending s = [] → s.sh.handles = [] →
    ∀ v, v < s.sh.nextVal →
      v ∈ s.log.filterMap finVal ∨ ∃ n ∈ s.sh.nodes, n.value = some v ∧ n.lru = .inList

/-- What is proved of it: values are numbered without gaps and none is ever lost — every value constructed so
far has been finalised or is still resident. -/
theorem finalise_exactly_once_partial {g : Bool} {s : Sys} (hr : Reachable g s) :
    ∀ v ∈ s.log.filterMap finVal ++ s.sh.nodes.filterMap (·.value), v < s.sh.nextVal :=
  (logOK_reachable hr).vals.2

/-- **del_after_last_handle.**  (1) No delFunc runs twice; (2) (guarded or before `Close`, not force-closed) a
delFunc attached to a node only runs in a state with no outstanding handle to that node; (3) when `Delete`
finds no node, its next two actions are the delFunc itself and the return. -/
theorem del_after_last_handle {g : Bool} {s : Sys} (hr : Reachable g s) :
    (s.log.filterMap delId).Nodup ∧
    (∀ a s', sysStep g s a = some s' → s.sh.forced = false → (g = true ∨ s.sh.closed = false) →
      ∀ d id f, Ev.delf d (some id) f ∈ emitted s a → outstanding s id = 0) ∧
    (∀ (sh : Shared) k d, sh.closed = false → findKey sh.nodes k = none →
      exec sh (.bget k (.del (some d))) = some (sh, [.runDel d, .retBool false], []) ∧
      exec sh (.runDel d) = some (sh, [], [.delf d none false])) := by
  have hinv := inv_reachable hr
  have hlog := logOK_reachable hr
  refine ⟨(List.nodup_append.mp (List.nodup_append.mp hlog.dels.1).1).1, ?_, ?_⟩
  · intro a s' hs hf hg d id f hev
    rcases sysStep_cases hs with ⟨t, c, rfl, _, hem, rfl⟩ | ⟨t, i, rest, sh', push, evs, rfl, ht, he, hem, rfl⟩
    · rw [hem] at hev; cases hev
    · obtain ⟨hP, hperm⟩ := invP_at hinv ht
      rw [hem] at hev
      have h0 := fin_refs_zero hP he hf hg hev (id := id) (by simp [isFinOf])
      have hle := outstanding_le_refs s id
      have : refsP s.sh (pending s) id = refsP s.sh (i :: (pending s).erase i) id := by
        simp only [refsP]; rw [hperm.countP_eq]
      omega
  · intro sh k d hc hk
    constructor
    · simp [exec, execBget, hc, hk]
    · rfl

/-- **lru_capacity.**  Every instruction is one critical section, so "after every LRU critical section" is "in
every reachable state": `used` is the sum of the sizes of the listed nodes and never exceeds the capacity; the
list has no repetition and holds exactly the nodes marked as listed; a banned node stays banned (it is never
re-admitted).  Holds for the unguarded system as well. -/
theorem lru_capacity {g : Bool} {s : Sys} (hr : Reachable g s) :
    s.sh.lru.used = (s.sh.lru.recent.map (sizeOf s.sh.nodes)).sum ∧
    s.sh.lru.used ≤ s.sh.lru.capacity ∧
    s.sh.lru.recent.Nodup ∧
    (∀ id, id ∈ s.sh.lru.recent ↔ ∃ n ∈ s.sh.nodes, n.id = id ∧ n.lru = .inList) ∧
    (∀ a s', sysStep g s a = some s' → ∀ n ∈ s.sh.nodes, n.lru = .banned →
      ∀ n' ∈ s'.sh.nodes, n'.id = n.id → n'.lru = .banned) := by
  have hinv := inv_reachable hr
  refine ⟨hinv.core.us.1, hinv.core.us.2, hinv.core.lr.1, hinv.core.lr.2, ?_⟩
  intro a s' hs n hn hb n' hn' hid
  rcases sysStep_cases hs with ⟨t, c, rfl, _, hem, rfl⟩ | ⟨t, i, rest, sh', push, evs, rfl, ht, he, hem, rfl⟩
  · have := same_of_id hinv.core.ids.1 hn' hn hid; subst this; exact hb
  · obtain ⟨hP, _⟩ := invP_at hinv ht
    exact (node_step hP he hn hn' hid).2.1 hb

/-- The reference counter of every node is exactly the number of references that exist (callers' handles, the
LRU list's handle, references held by threads inside the cache) — the invariant everything above rests on. -/
theorem ref_is_count {g : Bool} {s : Sys} (hr : Reachable g s) (hf : s.sh.forced = false) :
    ∀ n ∈ s.sh.nodes, n.ref = refsP s.sh (pending s) n.id :=
  (inv_reachable hr).core.rc hf


/-! ## The guard is necessary: races of `Close` with the last `Release` (unguarded system) -/

/-- Thread 0 gets key (0,1) from a cache of capacity 0 and releases its handle: the counter drops to zero and the
thread stalls in `unRefExternal` before `n.r.mu.RLock()`.  Thread 1 `Get`s the same key (the node is still in
its bucket: the counter goes back to 1) and keeps the handle.  Thread 2 runs `Close(false)`.  Thread 0 resumes,
sees `closed` and calls `callFinalizer`. -/
def raceSched : List Act :=
  [ .call 0 (.get (0, 1) (.val 1)), .step 0, .step 0, .step 0, .step 0, .step 0, .step 0,
    .call 0 (.release 0), .step 0, .step 0,
    .call 1 (.get (0, 1) .none), .step 1, .step 1, .step 1, .step 1, .step 1, .step 1,
    .call 2 (.close false), .step 2,
    .step 0 ]

/-- A finaliser of a not force-closed cache runs in step `a` while a handle to its node is outstanding. -/
def finUnderHandle (g : Bool) (s : Sys) (a : Act) : Bool :=
  !s.sh.forced && (sysStep g s a).isSome &&
    (emitted s a).any fun e => match e with
      | .fin id _ _ => decide (0 < outstanding s id)
      | _ => false

theorem raceSched_eval :
    (runSched false (Sys.init 0 3) raceSched).map (fun s => finUnderHandle false s (.step 0)) = some true := by
  decide

/-- **close_race_finalises_under_handle** — without the guard, `finalise_once_after_release` (2) fails:
a reachable state of the unguarded system, not force-closed, in which a value is finalised while a caller
holds a handle to it.  (`Cache.Close(false)` racing with the last `Handle.Release` and a `Get`.) -/
theorem close_race_finalises_under_handle :
    ∃ s a, Reachable false s ∧ s.sh.forced = false ∧ (sysStep false s a).isSome = true ∧
      ∃ id v f, Ev.fin id v f ∈ emitted s a ∧ 0 < outstanding s id := by
  have h := raceSched_eval
  cases hs : runSched false (Sys.init 0 3) raceSched with
  | none => rw [hs] at h; cases h
  | some s =>
    rw [hs] at h
    simp only [Option.map_some, Option.some.injEq, finUnderHandle, Bool.and_eq_true, Bool.not_eq_true',
      List.any_eq_true] at h
    obtain ⟨⟨hf, hstep⟩, e, he, hout⟩ := h
    refine ⟨s, .step 0, reachable_of_runSched (Reachable.init 0 3) hs, hf, hstep, ?_⟩
    cases e <;> simp at hout
    exact ⟨_, _, _, he, hout⟩

/-- The guarded system does not allow that schedule (the `Close` step is not enabled). -/
example : runSched true (Sys.init 0 3) raceSched = none := by decide

/-- Thread 0 as before; thread 1 gets the key again and releases it, which removes the node from its bucket;
thread 2 closes; thread 0 then calls `callFinalizer` on the removed node (in the code: its delFuncs, which
`mBucket.delete` already ran and did not clear, would run a second time — the model flags `bug`). -/
def staleSched : List Act :=
  [ .call 0 (.get (0, 1) (.val 1)), .step 0, .step 0, .step 0, .step 0, .step 0, .step 0,
    .call 0 (.release 0), .step 0, .step 0,
    .call 1 (.get (0, 1) .none), .step 1, .step 1, .step 1, .step 1, .step 1, .step 1,
    .call 1 (.release 0), .step 1, .step 1, .step 1, .step 1, .step 1,
    .call 2 (.close false), .step 2,
    .step 0, .step 0 ]

/-- **close_race_stale_finaliser** — unguarded: `callFinalizer` reaches a node that was already deleted. -/
theorem close_race_stale_finaliser :
    ∃ s, Reachable false s ∧ s.sh.bug = true := by
  have h : (runSched false (Sys.init 0 3) staleSched).map (fun s => s.sh.bug) = some true := by decide
  cases hs : runSched false (Sys.init 0 3) staleSched with
  | none => rw [hs] at h; cases h
  | some s =>
    rw [hs] at h
    exact ⟨s, reachable_of_runSched (Reachable.init 0 3) hs, by simpa using h⟩

/-! ## `callFinalizer` is not atomic in the code

The model executes `Node.callFinalizer` as one step.  The code runs it without a lock from two places that can
overlap: `Cache.Close(true)` (for every node) and `Node.unRefExternal` (when the counter reached zero and the
cache is closed).  The micro-model below splits it into its two memory accesses; two overlapping executions
release the value twice.  The concurrent stress of the Go check reproduces exactly this on the implementation
(signature `cache.Close(force):concurrent-release:finalised-twice`). -/

/-- One thread inside `callFinalizer`: about to read `n.value`, or holding what it read. -/
inductive FinPc
  | read | release (v : Option Nat) | done
  deriving DecidableEq, Repr

/-- `if n.value != nil { n.value.Release(); n.value = nil }` as read / release-and-clear. -/
def finStep (value : Option Nat) (released : List Nat) : FinPc → Option Nat × List Nat × FinPc
  | .read => (value, released, .release value)
  | .release (some v) => (none, released ++ [v], .done)
  | .release none => (value, released, .done)
  | .done => (value, released, .done)

/-- **callFinalizer_race**: thread A reads, thread B reads, both release: value 0 is released twice. -/
theorem callFinalizer_race :
    let s0 := finStep (some 0) [] .read            -- A reads
    let s1 := finStep s0.1 s0.2.1 .read            -- B reads
    let s2 := finStep s1.1 s1.2.1 s0.2.2           -- A releases and clears
    let s3 := finStep s2.1 s2.2.1 s1.2.2           -- B releases
    s3.2.1 = [0, 0] := by decide

/-! ## Non-vacuity: concrete runs that exercise the statements -/

/-- What the examples look at. -/
structure View where
  handles : List Nat
  ctors : List Nat
  fins : List Nat
  dels : List Nat
  nodes : List (Nat × Int × Option Nat × LruSt)
  used : Nat
  recent : List Nat
  deriving DecidableEq

def view (s : Sys) : View :=
  { handles := s.sh.handles,
    ctors := s.log.filterMap (fun e => match e with | .ctor _ v => some v | _ => none),
    fins := s.log.filterMap finVal, dels := s.log.filterMap delId,
    nodes := s.sh.nodes.map (fun n => (n.id, n.ref, n.value, n.lru)),
    used := s.sh.lru.used, recent := s.sh.lru.recent }

/-- Two threads `Get` the same key concurrently (interleaved instruction by instruction): one constructor run,
both handles refer to node 0 with value 0. -/
example :
    (runSched true (Sys.init 4 2)
      [ .call 0 (.get (7, 1) (.val 2)), .call 1 (.get (7, 1) (.val 2)),
        .step 0, .step 1, .step 0, .step 1, .step 1, .step 0, .step 0, .step 1, .step 0, .step 1,
        .step 0, .step 1 ]).map view =
    some ⟨[0, 0], [0], [], [], [(0, 3, some 0, LruSt.inList)], 2, [0]⟩ := by decide

/-- Capacity 2: a third charge evicts the least recently used node; its value is finalised only when the
caller's handle goes as well; `Delete` with a delFunc on a held node defers the delFunc to the last release. -/
example :
    (runSched true (Sys.init 2 1)
      ([ .call 0 (.get (0, 1) (.val 1)) ] ++ List.replicate 6 (.step 0) ++
       [ .call 0 (.get (0, 2) (.val 1)) ] ++ List.replicate 6 (.step 0) ++
       [ .call 0 (.get (0, 3) (.val 1)) ] ++ List.replicate 7 (.step 0) ++     -- evicts node 0 (still held)
       [ .call 0 (.delete (0, 1) true) ] ++ List.replicate 7 (.step 0) ++      -- banned, delFunc 0 deferred
       [ .call 0 (.release 0) ] ++ List.replicate 5 (.step 0))).map view =      -- last handle: finalise, delFunc
    some ⟨[2, 1], [0, 1, 2], [0], [0], [(2, 2, some 2, LruSt.inList), (1, 2, some 1, LruSt.inList)], 2, [2, 1]⟩ := by
  decide

/-- The property theorems of C17 (for the audit). -/
def theorems : List String :=
  ["GoLevel.C17.unique_live_value", "GoLevel.C17.same_key_same_value",
   "GoLevel.C17.finalise_once_after_release", "GoLevel.C17.finalise_exactly_once_partial",
   "GoLevel.C17.del_after_last_handle", "GoLevel.C17.lru_capacity", "GoLevel.C17.ref_is_count",
   "GoLevel.C17.close_race_finalises_under_handle", "GoLevel.C17.close_race_stale_finaliser",
   "GoLevel.C17.callFinalizer_race"]

end GoLevel.C17
