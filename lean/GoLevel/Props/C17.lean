import GoLevel.Proofs.CacheStale
import GoLevel.Proofs.CacheLocksClose
import GoLevel.Proofs.CacheProgress
import GoLevel.Proofs.CacheTableCount
import GoLevel.Proofs.CacheTableDriver   -- the driver's `cache …` protocol runs exactly these two models
/-! # C17 — the cache that holds open tables and blocks

"Concurrent lookups of the same (namespace, key) obtain the same live value, whose constructor runs once per
residency; a value is finalised exactly once, and - except when the whole cache is force-closed - only after
every handle to it has been released; deletion callbacks run exactly once and never while a handle is
outstanding.  The total charge of entries retained by the replacement policy never exceeds the configured
capacity."

Model: `GoLevel.CacheM` (`Model/Cache.lean`), the interleaving system `sysStep` over the critical sections of
`cache.go` / `lru.go`, for any number of threads and handles.  `Reachable g s`: `s` is reachable; with `g = true`
the system is *guarded*: `Close` takes `r.mu` only while no thread sits between the decrement that brought a
counter to zero in `Node.unRefExternal` and the `RLock` that follows it.

The model carries the version of the code as configuration (`Cfg`, read off the source by `tools/extract`:
`Cfg.code`, used by `Sys.init` / `Shared.new`): `clearDel` — `mBucket.delete` takes the delFuncs out of the removed
node before calling them (repair of D30) — and `recheck` — the closed branch of `unRefExternal` calls the
finaliser only if the counter is still zero (repair of D32).  Before these repairs the finalisation properties
needed the guard: `close_race_finalises_under_handle` (`recheck = false`) and `close_race_delfunc_twice`
(`clearDel = false`) are kept as the records of the two defects, both reproduced on the implementation at the
time.  FOR THE CODE AS IT IS NO CLAUSE NEEDS THE GUARD: `no_finalise_under_handle(_code)`,
`delfunc_at_most_once(_code)`, `finalise_exactly_once`, and `lru_capacity` / `unique_live_value` hold for every
reachable state of the unguarded system.  What a `Close` race still produces there is a `callFinalizer` through a
pointer to a node that `mBucket.delete` removed (`close_race_stale_finaliser`, flagged `bug` by the model): it
finds neither a value nor delFuncs and does nothing.  (`Close(true)` finalises under outstanding handles by design:
the clauses about handles carry `forced = false`.)

`Node.callFinalizer` is one atomic step: the repaired code ("make Node.callFinalizer safe against a concurrent second
call") takes the value and the delFuncs out of the node under `n.mu`; `callFinalizer_race` below records what the
unrepaired code did, `callFinalizer_repaired` that two overlapping calls now release the value once.

**Quiescence** (`Quiescent s`): no thread has an instruction pending — every call that was started has returned.
`finalise_exactly_once` is a statement about all reachable quiescent states, for every interleaving that leads
there; it assumes nothing else about the scheduler (in particular no fairness: a state in which some call never
finishes is simply not quiescent).

The hash table (`mHead`/`mBucket`, lazily initialised buckets, grow/shrink) that `Model/Cache.lean` abstracts to a
list of nodes is modelled sequentially in `Model/CacheTable.lean`; `table_refines_map` shows that it is a finite
map keyed by (ns,key). -/
namespace GoLevel.C17
open GoLevel.CacheM

/-- **unique_live_value.**  In every reachable state: (1) there is at most one node per (ns,key) — so `Get`s that
overlap obtain handles to the same node; (2) (with the repaired `unRefExternal` — `recheck`, the code as it is — or
guarded or not yet closed; not force-closed) every outstanding
handle — of a caller, of the LRU list, or in flight in a thread — refers to an existing node that has its
value; (3) a step never replaces the value of a node: it can only disappear, and only through its finaliser;
keys never change; (4) the constructor (`setFunc`) runs only for a node without a value and installs the
value it returns — once per residency. -/
theorem unique_live_value {g : Bool} {s : Sys} (hr : Reachable g s) :
    (∀ n ∈ s.sh.nodes, ∀ m ∈ s.sh.nodes, n.key = m.key → n = m) ∧
    ((g = true ∨ s.sh.recheck = true ∨ s.sh.closed = false) → s.sh.forced = false → ∀ id, 0 < outstanding s id →
        ∃ n ∈ s.sh.nodes, n.id = id ∧ n.value.isSome = true) ∧
    (∀ a s', sysStep g s a = some s' →
      (∀ n ∈ s.sh.nodes, ∀ n' ∈ s'.sh.nodes, n'.id = n.id →
          n'.key = n.key ∧ ∀ v, n.value = some v →
            n'.value = some v ∨ (n'.value = none ∧ ∃ f, Ev.fin n.id v f ∈ emitted s a)) ∧
      (∀ id v, Ev.ctor id v ∈ emitted s a →
          (∃ n ∈ s.sh.nodes, n.id = id ∧ n.value = none) ∧ ∃ n' ∈ s'.sh.nodes, n'.id = id ∧ n'.value = some v)) := by
  have hinv := inv_reachable hr
  refine ⟨?_, ?_, ?_⟩
  · -- keys are distinct
    intro n hn m hm hk
    have hkeys := hinv.core.keys
    obtain ⟨A, B, hAB⟩ := List.append_of_mem hn
    by_cases hnm : n = m
    · exact hnm
    · exfalso
      rw [hAB] at hm hkeys
      simp only [List.map_append, List.map_cons] at hkeys
      have h1 := List.nodup_append.mp hkeys
      rcases List.mem_append.mp hm with hmA | hmB
      · exact h1.2.2 m.key (List.mem_map_of_mem hmA) n.key List.mem_cons_self hk.symm
      · rcases List.mem_cons.mp hmB with rfl | hmB
        · exact hnm rfl
        · exact (List.nodup_cons.mp h1.2.1).1 (hk ▸ List.mem_map_of_mem hmB)
  · intro hg hf id hpos
    have hle := outstanding_le_refs s id
    obtain ⟨n, hn, hid⟩ := hinv.core.ex id (by omega)
    refine ⟨n, hn, hid, hinv.core.vl (eff_of hg) hf n hn ?_⟩
    unfold outstanding at hpos
    by_cases h1 : id ∈ s.sh.handles
    · exact Or.inl (hid ▸ h1)
    · by_cases h2 : id ∈ s.sh.lru.recent
      · obtain ⟨m, hm, hmid, hml⟩ := (hinv.core.lr.2 id).mp h2
        have := same_of_id hinv.core.ids.1 hm hn (by rw [hmid, hid]); subst this
        exact Or.inr (Or.inl hml)
      · have c1 := List.count_eq_zero.mpr h1
        have c2 := List.count_eq_zero.mpr h2
        obtain ⟨j, hj, hv⟩ := List.countP_pos_iff.mp (by omega : 0 < (pending s).countP (holdsHandle id))
        refine Or.inr (Or.inr ⟨j, hj, ?_⟩)
        rw [hid]; cases j <;> simp_all [holdsHandle, holdsVal]
  · intro a s' hs
    rcases sysStep_cases hs with ⟨t, c, rfl, _, hem, rfl⟩ | ⟨t, i, rest, sh', push, evs, rfl, ht, he, hem, rfl⟩
    · refine ⟨fun n hn n' hn' hid => ?_, fun id v hev => ?_⟩
      · have := same_of_id hinv.core.ids.1 hn' hn hid; subst this
        exact ⟨rfl, fun v hv => Or.inl hv⟩
      · rw [hem] at hev; cases hev
    · obtain ⟨hP, _⟩ := invP_at hinv ht
      rw [hem]
      refine ⟨fun n hn n' hn' hid => ?_, fun id v hev => ?_⟩
      · have := node_step hP he hn hn' hid
        exact ⟨this.2.2, this.1⟩
      · have := ctor_step he hev
        exact ⟨this.1, this.2.2⟩

/-- Two handles whose nodes have the same (ns,key) are handles to the same node, hence to the same value. -/
theorem same_key_same_value {g : Bool} {s : Sys} (hr : Reachable g s) {n m : Node}
    (hn : n ∈ s.sh.nodes) (hm : m ∈ s.sh.nodes) (hk : n.key = m.key) : n.id = m.id ∧ n.value = m.value := by
  have := (unique_live_value hr).1 n hn m hm hk
  subst this; exact ⟨rfl, rfl⟩

/-- **finalise_once_after_release.**  (1) No value's `Release` appears twice in the history, and a finalised
value is not resident any more; (2) with the repaired `unRefExternal` (`recheck = true`, the code as it is:
`code_closed_unref_rechecks`) — or in the guarded system, or before `Close` — and unless the cache was
force-closed, a finaliser only runs in a state in which no handle to its node is outstanding (callers, LRU
list and threads all counted).  Before that repair this needed the guard: `close_race_finalises_under_handle`.
`no_finalise_under_handle` states it for the code's configuration without any side condition. -/
theorem finalise_once_after_release {g : Bool} {s : Sys} (hr : Reachable g s) :
    (s.log.filterMap finVal).Nodup ∧
    (∀ v ∈ s.log.filterMap finVal, ∀ n ∈ s.sh.nodes, n.value ≠ some v) ∧
    (∀ a s', sysStep g s a = some s' → s.sh.forced = false → (g = true ∨ s.sh.recheck = true ∨ s.sh.closed = false) →
      ∀ id v f, Ev.fin id v f ∈ emitted s a → outstanding s id = 0) := by
  have hinv := inv_reachable hr
  have hlog := logOK_reachable hr
  have hv := List.nodup_append.mp hlog.vals.1
  refine ⟨hv.1, ?_, ?_⟩
  · intro v hvm n hn hval
    exact hv.2.2 v hvm v (List.mem_filterMap.mpr ⟨n, hn, hval⟩) rfl
  · intro a s' hs hf hg id v f hev
    rcases sysStep_cases hs with ⟨t, c, rfl, _, hem, rfl⟩ | ⟨t, i, rest, sh', push, evs, rfl, ht, he, hem, rfl⟩
    · rw [hem] at hev; cases hev
    · obtain ⟨hP, hperm⟩ := invP_at hinv ht
      rw [hem] at hev
      have h0 := fin_refs_zero hP he hf (eff_of hg) hev (id := id) (by simp [isFinOf])
      have hle := outstanding_le_refs s id
      have : refsP s.sh (pending s) id = refsP s.sh (i :: (pending s).erase i) id := by
        simp only [refsP]; rw [hperm.countP_eq]
      omega

/-- **finalise_exactly_once.**  In every reachable *quiescent* state (no thread inside the cache: every call has
returned), guarded or not:

(1) no value's `Release` ran twice, and every value that was constructed (`Ev.ctor _ v` in the history) is either
finalised — exactly once, and then no node holds it any more — or not finalised and still the value of a node
that is *retained*: the cache was not force-closed and a caller still owns a handle to the node, or the cache is
open and the node is on the LRU list.  So a value whose handles have all been released and that has left the
cache (evicted, deleted, or the cache closed — after `Close` nothing is on the LRU list) has been finalised
exactly once; after `Close(true)` every value has.

(2) with the repaired `mBucket.delete` (`clearDel = true`, the code as it is: `code_delete_clears_delFuncs`) no
delFunc ran twice, guarded or not — `delfunc_at_most_once` states it for every reachable state; before that repair
this needed the guard (`close_race_delfunc_twice`); and, guarded or not, every delFunc handed to `Cache.Delete` so far (they are numbered in
call order, `d < nextDel`) has run, or is still attached to a retained node, or was handed to a `Delete` that
found the cache closed (`dropped`; the code then returns `false` and never calls it — contrary to the comment on
`Delete`, reported).  So the delFuncs of a node that was deleted have all run exactly once.

(3) after `Close` nothing is left on the LRU list. -/
theorem finalise_exactly_once {g : Bool} {s : Sys} (hr : Reachable g s) (hq : Quiescent s) :
    ((s.log.filterMap finVal).Nodup ∧
      ∀ id v, Ev.ctor id v ∈ s.log →
        (v ∈ s.log.filterMap finVal ∧ ∀ n ∈ s.sh.nodes, n.value ≠ some v) ∨
        (v ∉ s.log.filterMap finVal ∧ ∃ n ∈ s.sh.nodes, n.value = some v ∧ Retained s n)) ∧
    (((g = true ∨ s.sh.clearDel = true ∨ s.sh.stale = false) → (s.log.filterMap delId).Nodup) ∧
      ∀ d, d < s.sh.nextDel →
        d ∈ s.log.filterMap delId ∨ (∃ n ∈ s.sh.nodes, d ∈ n.delFuncs ∧ Retained s n) ∨ d ∈ s.sh.dropped) ∧
    (s.sh.closed = true → s.sh.lru.recent = []) := by
  have hlog := logOK_reachable hr
  have hQ := (invS_reachable hr).core
  have hv := List.nodup_append.mp hlog.vals.1
  have hst : (g = true ∨ s.sh.clearDel = true ∨ s.sh.stale = false) → s.sh.stale = false := by
    rintro (rfl | h | h)
    · exact guarded_not_stale hr
    · exact repaired_not_stale hr h
    · exact h
  refine ⟨⟨hv.1, fun id v hc => ?_⟩,
    ⟨fun hg => (List.nodup_append.mp (List.nodup_append.mp (hlog.dels (hst hg)).1).1).1, fun d hd => ?_⟩,
    recent_nil_of_closed_quiescent hr hq⟩
  · have hlt := ctor_lt_nextVal hr hc
    rcases List.mem_append.mp (hQ.va v hlt) with hf | hn
    · exact Or.inl ⟨hf, fun n hn hval => hv.2.2 v hf v (List.mem_filterMap.mpr ⟨n, hn, hval⟩) rfl⟩
    · obtain ⟨n, hn, hval⟩ := List.mem_filterMap.mp hn
      refine Or.inr ⟨fun hf => hv.2.2 v hf v (List.mem_filterMap.mpr ⟨n, hn, hval⟩) rfl, n, hn, hval, ?_⟩
      exact retained_of_quiescent hr hq hn (fun h => by rw [h.1] at hval; cases hval)
  · rcases hQ.da d hd with hD | hdrop
    · unfold Quiescent at hq
      simp only [D, hq, List.flatMap_nil, List.append_nil, List.mem_append, List.mem_flatMap] at hD
      rcases hD with hl | ⟨n, hn, hdn⟩
      · exact Or.inl hl
      · refine Or.inr (Or.inl ⟨n, hn, hdn, ?_⟩)
        exact retained_of_quiescent hr (by unfold Quiescent; exact hq) hn
          (fun h => by rw [h.2] at hdn; cases hdn)
    · exact Or.inr (Or.inr hdrop)

/-- **no_deadlock** — quiescence is not reached by getting stuck: in every reachable state that is not quiescent
some thread can take a step (`Close` waits for the readers inside and, guarded, for the threads in the zero branch
of `unRefExternal`; those can always move).  No fairness is assumed anywhere: `finalise_exactly_once` speaks about
whatever quiescent states a schedule reaches. -/
theorem no_deadlock {g : Bool} {s : Sys} (hr : Reachable g s) (hnq : ¬ Quiescent s) :
    ∃ t s', sysStep g s (.step t) = some s' :=
  progress hr hnq

/-! ## The locks: `mu` and `unrefMu` with Go's writer preference (`Model/CacheLocks.lean`)

`no_deadlock` above is about the base system, in which readers never wait.  The lock-level system `CacheL.LSys`
adds the two `sync.RWMutex`es as Go implements them (an announced writer blocks NEW readers; readers inside
proceed), and who takes what: see the header of `Model/CacheLocks.lean`. -/

open GoLevel.CacheL in
/-- **lock_system_refines** — the lock-level system only restricts the base system: every state it reaches is a
reachable state of the (unguarded) base system, so every safety theorem of this file holds for it. -/
theorem lock_system_refines {ls : LSys} (hr : LReachable ls) : Reachable false ls.base :=
  lreachable_base hr

open GoLevel.CacheL in
/-- **code_unref_own_lock** — the lock configuration of the model is the code's: `tools/extract` finds that
`Node.unRefExternal` read-locks `n.r.unrefMu` (and never `n.r.mu`) around its closed-check, and that `Cache.Close`
runs `if !r.closed {…}` between `r.mu.Lock(); r.unrefMu.Lock()` and `r.unrefMu.Unlock(); r.mu.Unlock()`. -/
theorem code_unref_own_lock : unrefUsesMuCode = false := by decide

open GoLevel.CacheL in
/-- **no_deadlock_locks** — WITH the locks, for the code as it is (`unRefExternal` uses `unrefMu`): in every
reachable state of the lock-level system in which some call has not returned (`¬ LQuiescent`), some thread can
take a step.  (The only waits are: a new reader for an announced writer; a writer for the readers inside.  A reader
of `mu` never needs `mu` again, and what it may need — `unrefMu`, for the releases the LRU performs from inside
`Promote` / `Ban` / `Evict` — is only ever write-locked by a `Close` that already holds `mu`, i.e. when there is no
reader of `mu`; a reader of `unrefMu` takes no lock at all.) -/
theorem no_deadlock_locks {ls : LSys} (hr : LReachable ls) (hc : ls.unrefUsesMu = false) (hnq : ¬ LQuiescent ls) :
    ∃ t ls', lstepThread ls t = some ls' :=
  lock_progress hr hc hnq

open GoLevel.CacheL in
/-- … in particular for every state run from `LSys.init`, the configuration read off the source. -/
theorem no_deadlock_locks_code {c n : Nat} {sched : List Act} {ls : LSys}
    (h : lrun (LSys.init c n) sched = some ls) (hnq : ¬ LQuiescent ls) : ∃ t ls', lstepThread ls t = some ls' := by
  have hr := lreachable_lrun (LReachable.init Cfg.code unrefUsesMuCode c n) h
  obtain ⟨cfg, uum, c', n', _, h2⟩ := uum_reachable hr
  refine lock_progress hr ?_ hnq
  -- the flag never changes
  have : ∀ {sched : List Act} {a b : LSys}, lrun a sched = some b → b.unrefUsesMu = a.unrefUsesMu := by
    intro sched
    induction sched with
    | nil => intro a b h; simp only [lrun, Option.some.injEq] at h; rw [h]
    | cons x xs ih =>
      intro a b h
      simp only [lrun] at h
      cases hs : lstep a x with
      | none => rw [hs] at h; cases h
      | some a1 => rw [hs] at h; rw [ih h, uum_step hs]
  rw [this h]; exact code_unref_own_lock

open GoLevel.CacheL in
/-- **close_returns** — `Close` gets through its locking, measure-style (for the code as it is).  Let thread `w` be
inside `Close`'s locking (`phase ≠ idle`: `r.mu.Lock()` announced … `r.mu.Unlock()` not yet done).  Then

(1) somebody HELPFUL is enabled: `w` itself, or — while `w` waits for the readers of `mu` (resp. `unrefMu`) — a
thread `t ≠ w` that holds that lock for reading, and its step strictly decreases `Phi mu` (resp. `Phi un`), the
total weight of the instructions the readers still have to execute;
(2) `w`'s own step takes it one phase further (`Phase.rank` decreases: six lock steps and the body);
(3) NO step of any other thread undoes this: it leaves `w`'s phase alone and does not increase `Phi mu` (nor
`Phi un` while `w` waits on `unrefMu`): new readers are blocked by the announced writer, and nothing lengthens a
reader's remaining work (`CacheLocksMeasure`: every instruction weighs more than what it pushes);
(4) when `Phi l` is zero the lock `l` has no readers, i.e. `w`'s acquisition is enabled.

So under weak fairness (a thread that stays enabled is eventually scheduled: a reader is never blocked, (1)) `Phi`
reaches zero after at most `Phi` reader steps, `w` acquires, and after at most 6 more steps of its own `w` has
released both locks: `Close`'s critical section always completes.  What follows it in `Close` — `lru.Evict` and,
forced, `callFinalizer` for each node — are non-blocking single steps except `unRefExternal`'s
`unrefMu.RLock()`, which waits only for another `Close` inside its own locking, to which this theorem applies. -/
theorem close_returns {ls : LSys} {w : Nat} {th : LThread} (hr : LReachable ls) (hc : ls.unrefUsesMu = false)
    (hth : ls.tl[w]? = some th) (hp : th.phase ≠ .idle) :
    ((∃ ls', lstepThread ls w = some ls') ∨
      (th.phase = .annMu ∧ ∃ t ls', t ≠ w ∧ lstepThread ls t = some ls' ∧ Phi .mu ls' < Phi .mu ls) ∨
      (th.phase = .annUn ∧ ∃ t ls', t ≠ w ∧ lstepThread ls t = some ls' ∧ Phi .un ls' < Phi .un ls)) ∧
    (∀ ls', lstepThread ls w = some ls' → ∃ th', ls'.tl[w]? = some th' ∧ th'.phase.rank < th.phase.rank) ∧
    (∀ a ls', lstep ls a = some ls' → a ≠ .step w →
      ls'.tl[w]? = some th ∧ Phi .mu ls' ≤ Phi .mu ls ∧ (unPhase th.phase = true → Phi .un ls' ≤ Phi .un ls)) ∧
    (Phi .mu ls = 0 → ls.mu.readers = 0) ∧ (Phi .un ls = 0 → ls.un.readers = 0) :=
  ⟨close_helpful hr hc hth hp, fun ls' hs => own_step_rank hth hp hs,
   fun a ls' hs ha => close_stable hr hc hth hp hs ha,
   fun h0 => phi_zero (l := .mu) hr hc h0, fun h0 => phi_zero (l := .un) hr hc h0⟩

namespace D36
open GoLevel.CacheL

/-- Thread 0: `Get` key (0,1) in a cache of capacity 1 and release the handle (the node stays on the LRU list);
then `Get` key (0,2): `r.mu.RLock()`, the table access, `setFunc`, `lru.Promote` — which evicts node 0 and
releases the LRU's handle: `unRefExternal` brings the counter to zero.  Thread 1: `Close`: `r.mu.Lock()`
announces itself and waits for thread 0 to leave.  Thread 0's `unRefExternal` now wants a read lock. -/
def sched : List Act :=
  [ .call 0 (.get (0, 1) (.val 1)) ] ++ List.replicate 6 (.step 0) ++
  [ .call 0 (.release 0), .step 0, .step 0 ] ++
  [ .call 0 (.get (0, 2) (.val 1)) ] ++ List.replicate 5 (.step 0) ++
  [ .call 1 (.close false), .step 1 ]

/-- Before the repair `unRefExternal` read-locked `r.mu`. -/
def before : LSys := LSys.initCfg Cfg.code true 1 2

theorem eval :
    (lrun before sched).map (fun ls => ls.unrefUsesMu && ls.tl.length == 2 && !(pending ls.base).isEmpty &&
      (lstepThread ls 0).isNone && (lstepThread ls 1).isNone) = some true := by decide

end D36

open GoLevel.CacheL in
/-- **d36_deadlock** — RECORD OF A REPAIRED DEFECT (D36).  With `unRefExternal` read-locking `r.mu`
(`unrefUsesMu = true`, the code before the repair) the lock-level system reaches a state that is not quiescent
and in which NO thread can take a step: thread 0 is inside `Get` (holds `r.mu` for reading) and its
`lru.Promote` released the last handle of the evicted node, so `unRefExternal` asks for `r.mu.RLock()` again;
thread 1's `Close` has announced `r.mu.Lock()`, which blocks that new read lock and itself waits for thread 0 to
leave.  (`DB.Get` racing `DB.Close` with a full table cache; reproduced on the implementation at cache level and at
DB level before the repair.) -/
theorem d36_deadlock :
    ∃ ls, LReachable ls ∧ ls.unrefUsesMu = true ∧ ¬ LQuiescent ls ∧ Stuck ls := by
  have h := D36.eval
  cases hs : lrun D36.before D36.sched with
  | none => rw [hs] at h; cases h
  | some ls =>
    rw [hs] at h
    simp only [Option.map_some, Option.some.injEq, Bool.and_eq_true, Bool.not_eq_true', beq_iff_eq,
      Option.isNone_iff_eq_none] at h
    obtain ⟨⟨⟨⟨h1, h2⟩, h3⟩, h4⟩, h5⟩ := h
    refine ⟨ls, lreachable_lrun (LReachable.init _ _ _ _) hs, h1, ?_, ?_⟩
    · intro hq
      rw [hq.1] at h3; simp at h3
    · intro t
      match t with
      | 0 => exact h4
      | 1 => exact h5
      | t + 2 =>
        unfold lstepThread
        have : ls.tl[t + 2]? = none := List.getElem?_eq_none (by omega)
        rw [this]

/-- The same interleaving with the lock the code uses now (`unrefMu`): thread 0's `unRefExternal` is not blocked —
it proceeds, leaves `Get`, and `Close` gets `r.mu`. -/
example :
    (GoLevel.CacheL.lrun (GoLevel.CacheL.LSys.init 1 2) D36.sched).map
      (fun ls => ((GoLevel.CacheL.lstepThread ls 0).isSome, (GoLevel.CacheL.lstepThread ls 1).isSome)) =
    some (true, false) := by decide

/-- … and run on (thread 0 finishes its `Get`, then `Close` completes): everything returns. -/
example :
    (GoLevel.CacheL.lrun (GoLevel.CacheL.LSys.init 1 2)
      (D36.sched ++ List.replicate 5 (.step 0) ++ List.replicate 8 (.step 1))).map
      (fun ls => ((pending ls.base).isEmpty, ls.tl.map (·.phase), ls.mu.writer, ls.un.writer, ls.base.sh.closed)) =
    some (true, [.idle, .idle], none, none, true) := by decide

/-- After a forced `Close`, once quiescent, every constructed value has been finalised (exactly once). -/
theorem forced_close_finalises_all {g : Bool} {s : Sys} (hr : Reachable g s) (hq : Quiescent s)
    (hf : s.sh.forced = true) : ∀ id v, Ev.ctor id v ∈ s.log → v ∈ s.log.filterMap finVal := by
  intro id v hc
  rcases (finalise_exactly_once hr hq).1.2 id v hc with h | ⟨_, n, _, _, hret⟩
  · exact h.1
  · rw [hret.1] at hf; cases hf

/-- The bound that was all that was known before: every finalised or resident value is below `nextVal`. -/
theorem finalise_exactly_once_partial {g : Bool} {s : Sys} (hr : Reachable g s) :
    ∀ v ∈ s.log.filterMap finVal ++ s.sh.nodes.filterMap (·.value), v < s.sh.nextVal :=
  (logOK_reachable hr).vals.2

/-- **del_after_last_handle.**  (1) With the repaired `mBucket.delete` (`clearDel = true`), or in the guarded
system, no delFunc runs twice — false for the unguarded system before that repair, `close_race_delfunc_twice`; (2) (guarded or before `Close`, not force-closed) a
delFunc attached to a node only runs in a state with no outstanding handle to that node; (3) when `Delete`
finds no node, its next two actions are the delFunc itself and the return. -/
theorem del_after_last_handle {g : Bool} {s : Sys} (hr : Reachable g s) :
    ((g = true ∨ s.sh.clearDel = true ∨ s.sh.stale = false) → (s.log.filterMap delId).Nodup) ∧
    (∀ a s', sysStep g s a = some s' → s.sh.forced = false → (g = true ∨ s.sh.recheck = true ∨ s.sh.closed = false) →
      ∀ d id f, Ev.delf d (some id) f ∈ emitted s a → outstanding s id = 0) ∧
    (∀ (sh : Shared) k d, sh.closed = false → findKey sh.nodes k = none →
      exec sh (.bget k (.del (some d))) = some (sh, [.runDel d, .retBool false], []) ∧
      exec sh (.runDel d) = some (sh, [], [.delf d none false])) := by
  have hinv := inv_reachable hr
  have hlog := logOK_reachable hr
  have hst : (g = true ∨ s.sh.clearDel = true ∨ s.sh.stale = false) → s.sh.stale = false := by
    rintro (rfl | h | h)
    · exact guarded_not_stale hr
    · exact repaired_not_stale hr h
    · exact h
  refine ⟨fun hg => (List.nodup_append.mp (List.nodup_append.mp (hlog.dels (hst hg)).1).1).1, ?_, ?_⟩
  · intro a s' hs hf hg d id f hev
    rcases sysStep_cases hs with ⟨t, c, rfl, _, hem, rfl⟩ | ⟨t, i, rest, sh', push, evs, rfl, ht, he, hem, rfl⟩
    · rw [hem] at hev; cases hev
    · obtain ⟨hP, hperm⟩ := invP_at hinv ht
      rw [hem] at hev
      have h0 := fin_refs_zero hP he hf (eff_of hg) hev (id := id) (by simp [isFinOf])
      have hle := outstanding_le_refs s id
      have : refsP s.sh (pending s) id = refsP s.sh (i :: (pending s).erase i) id := by
        simp only [refsP]; rw [hperm.countP_eq]
      omega
  · intro sh k d hc hk
    constructor
    · simp [exec, execBget, hc, hk]
    · rfl

/-- **lru_capacity.**  Every instruction is one critical section, so "after every LRU critical section" is "in
every reachable state": `used` is the sum of the sizes of the listed nodes and never exceeds the capacity; the
list has no repetition and holds exactly the nodes marked as listed; a banned node stays banned (it is never
re-admitted).  Holds for the unguarded system as well. -/
theorem lru_capacity {g : Bool} {s : Sys} (hr : Reachable g s) :
    s.sh.lru.used = (s.sh.lru.recent.map (sizeOf s.sh.nodes)).sum ∧
    s.sh.lru.used ≤ s.sh.lru.capacity ∧
    s.sh.lru.recent.Nodup ∧
    (∀ id, id ∈ s.sh.lru.recent ↔ ∃ n ∈ s.sh.nodes, n.id = id ∧ n.lru = .inList) ∧
    (∀ a s', sysStep g s a = some s' → ∀ n ∈ s.sh.nodes, n.lru = .banned →
      ∀ n' ∈ s'.sh.nodes, n'.id = n.id → n'.lru = .banned) := by
  have hinv := inv_reachable hr
  refine ⟨hinv.core.us.1, hinv.core.us.2, hinv.core.lr.1, hinv.core.lr.2, ?_⟩
  intro a s' hs n hn hb n' hn' hid
  rcases sysStep_cases hs with ⟨t, c, rfl, _, hem, rfl⟩ | ⟨t, i, rest, sh', push, evs, rfl, ht, he, hem, rfl⟩
  · have := same_of_id hinv.core.ids.1 hn' hn hid; subst this; exact hb
  · obtain ⟨hP, _⟩ := invP_at hinv ht
    exact (node_step hP he hn hn' hid).2.1 hb

/-- The reference counter of every node is exactly the number of references that exist (callers' handles, the
LRU list's handle, references held by threads inside the cache) — the invariant everything above rests on. -/
theorem ref_is_count {g : Bool} {s : Sys} (hr : Reachable g s) (hf : s.sh.forced = false) :
    ∀ n ∈ s.sh.nodes, n.ref = refsP s.sh (pending s) n.id :=
  (inv_reachable hr).core.rc hf


/-! ## The guard is necessary: races of `Close` with the last `Release` (unguarded system) -/

/-- Thread 0 gets key (0,1) from a cache of capacity 0 and releases its handle: the counter drops to zero and the
thread stalls in `unRefExternal` before `n.r.mu.RLock()`.  Thread 1 `Get`s the same key (the node is still in
its bucket: the counter goes back to 1) and keeps the handle.  Thread 2 runs `Close(false)`.  Thread 0 resumes,
sees `closed` and calls `callFinalizer`. -/
def raceSched : List Act :=
  [ .call 0 (.get (0, 1) (.val 1)), .step 0, .step 0, .step 0, .step 0, .step 0, .step 0,
    .call 0 (.release 0), .step 0, .step 0,
    .call 1 (.get (0, 1) .none), .step 1, .step 1, .step 1, .step 1, .step 1, .step 1,
    .call 2 (.close false), .step 2,
    .step 0 ]

/-- A finaliser of a not force-closed cache runs in step `a` while a handle to its node is outstanding. -/
def finUnderHandle (g : Bool) (s : Sys) (a : Act) : Bool :=
  !s.sh.forced && (sysStep g s a).isSome &&
    (emitted s a).any fun e => match e with
      | .fin id _ _ => decide (0 < outstanding s id)
      | _ => false

/-- The code before the repair of D32: `mBucket.delete` already takes the delFuncs out of the node, `unRefExternal`
does not re-check the counter yet. -/
def cfgBeforeD32 : Cfg := { clearDel := true, recheck := false }

/-- The code before the repair of D30 (and D32). -/
def cfgBeforeD30 : Cfg := { clearDel := false, recheck := false }

theorem raceSched_eval :
    (runSched false (Sys.initCfg cfgBeforeD32 0 3) raceSched).map
      (fun s => finUnderHandle false s (.step 0)) = some true := by
  decide

/-- **close_race_finalises_under_handle** — RECORD OF A REPAIRED DEFECT (D32).  With `unRefExternal` as it was
before the repair (`recheck = false`: on a closed cache it called `callFinalizer` without looking at the counter
again) and without the guard, `finalise_once_after_release` (2) fails: a reachable state, not force-closed, in
which a value is finalised while a caller holds a handle to it (`Cache.Close(false)` racing with the last
`Handle.Release` and a `Get`).  Reproduced on the implementation before the repair
(`checks/c17conc.go:c17FinaliseUnderHandle`, 77 of 904 000 trials; now part of the C17 run as a regression
detector). -/
theorem close_race_finalises_under_handle :
    ∃ s a, Reachable false s ∧ s.sh.recheck = false ∧ s.sh.forced = false ∧ (sysStep false s a).isSome = true ∧
      ∃ id v f, Ev.fin id v f ∈ emitted s a ∧ 0 < outstanding s id := by
  have h := raceSched_eval
  cases hs : runSched false (Sys.initCfg cfgBeforeD32 0 3) raceSched with
  | none => rw [hs] at h; cases h
  | some s =>
    rw [hs] at h
    simp only [Option.map_some, Option.some.injEq, finUnderHandle, Bool.and_eq_true, Bool.not_eq_true',
      List.any_eq_true] at h
    obtain ⟨⟨hf, hstep⟩, e, he, hout⟩ := h
    refine ⟨s, .step 0, reachable_of_runSched (Reachable.init _ 0 3) hs, ?_, hf, hstep, ?_⟩
    · rw [recheck_runSched hs]; rfl
    · cases e <;> simp at hout
      exact ⟨_, _, _, he, hout⟩

/-- The guarded system does not allow that schedule (the `Close` step is not enabled). -/
example : runSched true (Sys.initCfg cfgBeforeD32 0 3) raceSched = none := by decide

/-- The same interleaving with the repaired `unRefExternal` (the code as it is): thread 0 finds the counter at 1
and does not call the finaliser; run to the end, nothing was finalised and thread 1's handle still has its value. -/
example :
    (runSched false (Sys.init 0 3) (raceSched ++ [.step 0, .step 2])).map
      (fun s => (pending s, s.log.filterMap finVal, s.sh.handles, s.sh.nodes.map (fun n => n.value))) =
    some ([], [], [0], [some 0]) := by decide

/-- Thread 0 as before; thread 1 gets the key again and releases it, which removes the node from its bucket;
thread 2 closes; thread 0 then calls `callFinalizer` on the removed node (harmless since `mBucket.delete` takes the
delFuncs out of the node; before that repair they ran a second time: `close_race_delfunc_twice`).  The model flags
the stale pointer as `bug`. -/
def staleSched : List Act :=
  [ .call 0 (.get (0, 1) (.val 1)), .step 0, .step 0, .step 0, .step 0, .step 0, .step 0,
    .call 0 (.release 0), .step 0, .step 0,
    .call 1 (.get (0, 1) .none), .step 1, .step 1, .step 1, .step 1, .step 1, .step 1,
    .call 1 (.release 0), .step 1, .step 1, .step 1, .step 1, .step 1,
    .call 2 (.close false), .step 2,
    .step 0, .step 0 ]

/-- **close_race_stale_finaliser** — unguarded: `callFinalizer` reaches a node that was already deleted. -/
theorem close_race_stale_finaliser :
    ∃ s, Reachable false s ∧ s.sh.bug = true := by
  have h : (runSched false (Sys.init 0 3) staleSched).map (fun s => s.sh.bug) = some true := by decide
  cases hs : runSched false (Sys.init 0 3) staleSched with
  | none => rw [hs] at h; cases h
  | some s =>
    rw [hs] at h
    exact ⟨s, reachable_of_runSched (Reachable.init _ 0 3) hs, by simpa using h⟩

/-- As `staleSched`, with a delFunc: thread 0 `Get`s key (0,1), `Delete`s it with delFunc 0 (deferred: the handle
is outstanding) and releases the handle — the counter drops to zero and the thread stalls in `unRefExternal`
before `n.r.mu.RLock()`.  Thread 1 `Get`s the key (the node is still in its bucket) and releases it:
`mBucket.delete` removes the node and runs delFunc 0 (it does not clear `n.delFuncs`).  Thread 2 runs
`Close(false)`.  Thread 0 resumes, sees `closed`, calls `callFinalizer` on the removed node: delFunc 0 runs again.
Every call returns: the final state is quiescent. -/
def delTwiceSched : List Act :=
  [ .call 0 (.get (0, 1) (.val 1)) ] ++ List.replicate 6 (.step 0) ++
  [ .call 0 (.delete (0, 1) true) ] ++ List.replicate 7 (.step 0) ++
  [ .call 0 (.release 0), .step 0, .step 0 ] ++
  [ .call 1 (.get (0, 1) .none) ] ++ List.replicate 6 (.step 1) ++
  [ .call 1 (.release 0) ] ++ List.replicate 5 (.step 1) ++
  [ .call 2 (.close false), .step 2 ] ++
  [ .step 0, .step 0, .step 0 ]

/-- **close_race_delfunc_twice** — RECORD OF A REPAIRED DEFECT (D30).  With `mBucket.delete` as it was before the
repair (`clearDel = false`: it ran `n.delFuncs` and left them in the node) the unguarded system reaches a
quiescent state whose history contains delFunc 0 twice (and the value's `Release` once): `unRefExternal` decides
"I am the last one" before it synchronises with `Close`, and the later `callFinalizer` on the removed node finds the
delFuncs still there.  The interleaving was replayed on the implementation by a stress of exactly these three
threads (75 of 1.85 million trials; `checks/c17conc.go:c17StaleFinalizer`, now part of the C17 run as a regression
detector). -/
theorem close_race_delfunc_twice :
    ∃ s, Reachable false s ∧ s.sh.clearDel = false ∧ Quiescent s ∧ ¬ (s.log.filterMap delId).Nodup ∧
      s.log.filterMap delId = [0, 0] ∧ s.log.filterMap finVal = [0] := by
  have h : (runSched false (Sys.initCfg cfgBeforeD30 0 3) delTwiceSched).map
      (fun s => (pending s, s.log.filterMap delId, s.log.filterMap finVal)) = some ([], [0, 0], [0]) := by decide
  cases hs : runSched false (Sys.initCfg cfgBeforeD30 0 3) delTwiceSched with
  | none => rw [hs] at h; cases h
  | some s =>
    rw [hs] at h
    simp only [Option.map_some, Option.some.injEq, Prod.mk.injEq] at h
    refine ⟨s, reachable_of_runSched (Reachable.init cfgBeforeD30 0 3) hs, ?_, h.1, ?_, h.2.1, h.2.2⟩
    · rw [clearDel_runSched hs]; rfl
    · rw [h.2.1]; decide

/-- The same interleaving with the repaired `mBucket.delete`: the stale `callFinalizer` finds no delFuncs, delFunc 0
runs once. -/
example :
    (runSched false (Sys.init 0 3) delTwiceSched).map
      (fun s => (pending s, s.log.filterMap delId, s.log.filterMap finVal)) = some ([], [0], [0]) := by decide

/-- **code_delete_clears_delFuncs** — the configuration of the model is the code's: `tools/extract` finds, in
`mBucket.delete`, `delFuncs := n.delFuncs; n.delFuncs = nil` between `n.mu.Lock()` and `n.mu.Unlock()` before the
loop that calls them (and no `range n.delFuncs`).  `Shared.new` / `Sys.init` use this flag. -/
theorem code_delete_clears_delFuncs : Gen.cacheDeleteClearsDelFuncs = true := by decide

/-- **code_closed_unref_rechecks** — the second flag of the model's configuration is the code's: `tools/extract`
finds that in the `if n.r.closed` branch of `Node.unRefExternal` the only call of `n.callFinalizer()` is inside
`if atomic.LoadInt32(&n.ref) == 0 { … }`. -/
theorem code_closed_unref_rechecks : Gen.cacheClosedUnrefRechecks = true := by decide

/-- **no_finalise_under_handle** — with the repaired `unRefExternal` (`recheck = true`), in EVERY reachable state,
guarded or not, unless `Close(true)` ran: every outstanding handle (caller's, LRU list's, in flight) refers to an
existing node that has its value, and a step that releases a value or runs a delFunc of a node does so while no
handle to that node is outstanding. -/
theorem no_finalise_under_handle {g : Bool} {s : Sys} (hr : Reachable g s) (hc : s.sh.recheck = true)
    (hf : s.sh.forced = false) :
    (∀ id, 0 < outstanding s id → ∃ n ∈ s.sh.nodes, n.id = id ∧ n.value.isSome = true) ∧
    (∀ a s', sysStep g s a = some s' →
      (∀ id v f, Ev.fin id v f ∈ emitted s a → outstanding s id = 0) ∧
      (∀ d id f, Ev.delf d (some id) f ∈ emitted s a → outstanding s id = 0)) :=
  ⟨(unique_live_value hr).2.1 (Or.inr (Or.inl hc)) hf,
   fun a s' hs => ⟨(finalise_once_after_release hr).2.2 a s' hs hf (Or.inr (Or.inl hc)),
     (del_after_last_handle hr).2.1 a s' hs hf (Or.inr (Or.inl hc))⟩⟩

/-- … in particular in every state run from `Sys.init`, the configuration read off the source. -/
theorem no_finalise_under_handle_code {g : Bool} {c n : Nat} {sched : List Act} {s : Sys}
    (h : runSched g (Sys.init c n) sched = some s) (hf : s.sh.forced = false) :
    (∀ id, 0 < outstanding s id → ∃ n ∈ s.sh.nodes, n.id = id ∧ n.value.isSome = true) ∧
    (∀ a s', sysStep g s a = some s' →
      (∀ id v f, Ev.fin id v f ∈ emitted s a → outstanding s id = 0) ∧
      (∀ d id f, Ev.delf d (some id) f ∈ emitted s a → outstanding s id = 0)) :=
  no_finalise_under_handle (reachable_of_runSched (Reachable.init _ c n) h)
    (by rw [recheck_runSched h]; exact code_closed_unref_rechecks) hf

/-- **delfunc_at_most_once** — with the repaired `mBucket.delete` no delFunc runs twice in ANY reachable state,
guarded or not, quiescent or not; in particular in every state reached from `Sys.init` (the code as extracted). -/
theorem delfunc_at_most_once {g : Bool} {s : Sys} (hr : Reachable g s) (hc : s.sh.clearDel = true) :
    (s.log.filterMap delId).Nodup :=
  (del_after_last_handle hr).1 (Or.inr (Or.inl hc))

theorem delfunc_at_most_once_code {g : Bool} {c n : Nat} {sched : List Act} {s : Sys}
    (h : runSched g (Sys.init c n) sched = some s) : (s.log.filterMap delId).Nodup :=
  delfunc_at_most_once (reachable_of_runSched (Reachable.init _ c n) h)
    (by rw [clearDel_runSched h]; exact code_delete_clears_delFuncs)

/-- The guarded system does not allow that schedule either. -/
example : runSched true (Sys.initCfg cfgBeforeD30 0 3) delTwiceSched = none := by decide

/-! ## `callFinalizer`: before and after the repair

The model executes `Node.callFinalizer` as one step.  It is called from two places that can overlap:
`Cache.Close(true)` (for every node) and `Node.unRefExternal` (when the counter reached zero and the cache is
closed).  BEFORE the repair ("make Node.callFinalizer safe against a concurrent second call") it ran without a
lock; the micro-model `finStep` splits that version into its two memory accesses: two overlapping executions
release the value twice (`callFinalizer_race`; the concurrent stress of the Go check reproduced exactly this on
the implementation, signature `cache.Close(force):concurrent-release:finalised-twice`).  The repaired code takes
value and delFuncs out of the node under `n.mu` (`finStepFixed`): whatever the interleaving of two calls, the
value is released once (`callFinalizer_repaired`) — which is what justifies the atomic `fin` step. -/

/-- One thread inside `callFinalizer`: about to read `n.value`, or holding what it read. -/
inductive FinPc
  | read | release (v : Option Nat) | done
  deriving DecidableEq, Repr

/-- `if n.value != nil { n.value.Release(); n.value = nil }` as read / release-and-clear. -/
def finStep (value : Option Nat) (released : List Nat) : FinPc → Option Nat × List Nat × FinPc
  | .read => (value, released, .release value)
  | .release (some v) => (none, released ++ [v], .done)
  | .release none => (value, released, .done)
  | .done => (value, released, .done)

/-- **callFinalizer_race**: thread A reads, thread B reads, both release: value 0 is released twice. -/
theorem callFinalizer_race :
    let s0 := finStep (some 0) [] .read            -- A reads
    let s1 := finStep s0.1 s0.2.1 .read            -- B reads
    let s2 := finStep s1.1 s1.2.1 s0.2.2           -- A releases and clears
    let s3 := finStep s2.1 s2.2.1 s1.2.2           -- B releases
    s3.2.1 = [0, 0] := by decide

/-- The repaired `callFinalizer`: `n.mu.Lock(); value := n.value; n.value = nil; n.mu.Unlock()` is one step
(`take`), the `Release()` of what was taken the next. -/
inductive FinPcFixed
  | take | release (v : Option Nat) | done
  deriving DecidableEq, Repr

def finStepFixed (value : Option Nat) (released : List Nat) : FinPcFixed → Option Nat × List Nat × FinPcFixed
  | .take => (none, released, .release value)
  | .release (some v) => (value, released ++ [v], .done)
  | .release none => (value, released, .done)
  | .done => (value, released, .done)

/-- Two threads inside the repaired `callFinalizer`, scheduled by `sched` (`false` = thread A, `true` = B). -/
def finRun : Option Nat → List Nat → FinPcFixed → FinPcFixed → List Bool → List Nat
  | _, released, _, _, [] => released
  | value, released, a, b, false :: rest =>
    let r := finStepFixed value released a
    finRun r.1 r.2.1 r.2.2 b rest
  | value, released, a, b, true :: rest =>
    let r := finStepFixed value released b
    finRun r.1 r.2.1 a r.2.2 rest

/-- **callFinalizer_repaired**: every interleaving of two complete calls (each thread takes two steps) releases
value 0 exactly once. -/
theorem callFinalizer_repaired :
    ∀ sched ∈ [[false, false, true, true], [false, true, false, true], [false, true, true, false],
               [true, false, false, true], [true, false, true, false], [true, true, false, false]],
      finRun (some 0) [] .take .take sched = [0] := by decide

/-! ## Non-vacuity: concrete runs that exercise the statements -/

/-- What the examples look at. -/
structure View where
  handles : List Nat
  ctors : List Nat
  fins : List Nat
  dels : List Nat
  nodes : List (Nat × Int × Option Nat × LruSt)
  used : Nat
  recent : List Nat
  deriving DecidableEq

def view (s : Sys) : View :=
  { handles := s.sh.handles,
    ctors := s.log.filterMap (fun e => match e with | .ctor _ v => some v | _ => none),
    fins := s.log.filterMap finVal, dels := s.log.filterMap delId,
    nodes := s.sh.nodes.map (fun n => (n.id, n.ref, n.value, n.lru)),
    used := s.sh.lru.used, recent := s.sh.lru.recent }

/-- Two threads `Get` the same key concurrently (interleaved instruction by instruction): one constructor run,
both handles refer to node 0 with value 0. -/
example :
    (runSched true (Sys.init 4 2)
      [ .call 0 (.get (7, 1) (.val 2)), .call 1 (.get (7, 1) (.val 2)),
        .step 0, .step 1, .step 0, .step 1, .step 1, .step 0, .step 0, .step 1, .step 0, .step 1,
        .step 0, .step 1 ]).map view =
    some ⟨[0, 0], [0], [], [], [(0, 3, some 0, LruSt.inList)], 2, [0]⟩ := by decide

/-- Capacity 2: a third charge evicts the least recently used node; its value is finalised only when the
caller's handle goes as well; `Delete` with a delFunc on a held node defers the delFunc to the last release. -/
example :
    (runSched true (Sys.init 2 1)
      ([ .call 0 (.get (0, 1) (.val 1)) ] ++ List.replicate 6 (.step 0) ++
       [ .call 0 (.get (0, 2) (.val 1)) ] ++ List.replicate 6 (.step 0) ++
       [ .call 0 (.get (0, 3) (.val 1)) ] ++ List.replicate 7 (.step 0) ++     -- evicts node 0 (still held)
       [ .call 0 (.delete (0, 1) true) ] ++ List.replicate 7 (.step 0) ++      -- banned, delFunc 0 deferred
       [ .call 0 (.release 0) ] ++ List.replicate 5 (.step 0))).map view =      -- last handle: finalise, delFunc
    some ⟨[2, 1], [0, 1, 2], [0], [0], [(2, 2, some 2, LruSt.inList), (1, 2, some 1, LruSt.inList)], 2, [2, 1]⟩ := by
  decide

/-- `finalise_exactly_once` on a concrete interleaved-by-call run of two threads (capacity 1): node 0 is deleted
with delFunc 0 while thread 0 holds it (deferred to the release), `Delete` of an absent key runs delFunc 1 at
once, `Close(false)` evicts node 1, `Delete` on the closed cache drops delFunc 2, the last release finalises
value 1.  The final state is quiescent; values 0 and 1 are finalised once each, delFuncs 0 and 1 ran once, 2 was
dropped; nothing is retained. -/
def quiesceSched : List Act :=
  [ .call 0 (.get (0, 1) (.val 1)) ] ++ List.replicate 6 (.step 0) ++
  [ .call 1 (.get (0, 2) (.val 1)) ] ++ List.replicate 7 (.step 1) ++
  [ .call 0 (.delete (0, 1) true) ] ++ List.replicate 7 (.step 0) ++
  [ .call 1 (.delete (0, 9) true) ] ++ List.replicate 5 (.step 1) ++
  [ .call 0 (.release 0) ] ++ List.replicate 5 (.step 0) ++
  [ .call 1 (.close false) ] ++ List.replicate 3 (.step 1) ++
  [ .call 0 (.delete (0, 2) true) ] ++ List.replicate 1 (.step 0) ++
  [ .call 1 (.release 1) ] ++ List.replicate 5 (.step 1)

structure QView where
  pending : List Instr
  ctors : List Nat
  fins : List Nat
  dels : List Nat
  dropped : List Nat
  nextDel : Nat
  handles : List Nat
  recent : List Nat
  closed : Bool
  values : List (Nat × Option Nat)
  deriving DecidableEq

def qview (s : Sys) : QView :=
  { pending := pending s, ctors := (view s).ctors, fins := (view s).fins, dels := (view s).dels,
    dropped := s.sh.dropped, nextDel := s.sh.nextDel, handles := s.sh.handles, recent := s.sh.lru.recent,
    closed := s.sh.closed, values := s.sh.nodes.map fun n => (n.id, n.value) }

example :
    (runSched true (Sys.init 1 2) quiesceSched).map qview =
    some ⟨[], [0, 1], [0, 1], [1, 0], [2], 3, [], [], true, [(1, none)]⟩ := by decide

/-- … and one call earlier (before the last `Release`): value 1 is not finalised and its node is retained by the
caller's handle 1. -/
example :
    (runSched true (Sys.init 1 2) (quiesceSched.take 41)).map qview =
    some ⟨[], [0, 1], [0], [1, 0], [2], 3, [1], [], true, [(1, some 1)]⟩ := by decide

/-! ## The hash table (`Model/CacheTable.lean`) is a finite map -/

open GoLevel.CacheT in
/-- **table_refines_map.**  For every hash function and every sequence of table operations — the table accesses
of `Cache.Get` with / without setFunc, `Cache.Delete`, `Cache.Evict` (`TOp.get`), `Cache.delete(n)` with either
outcome of the `n.ref == 0` test (`TOp.delete`), and the steps of the background `initBuckets` goroutines
scheduled anywhere between them (`TOp.bgInit`, `TOp.bgDone`) — starting from `NewCache`:
(1) every operation returns what the same operation returns on a finite map keyed by (ns,key) (`specRun`): a
lookup finds exactly the node that was created for that key and not deleted since, creation happens only for an
absent key, deletion only of the present node and only when its counter is zero;
(2) the code never panics and the `for` loops never have to retry (`bug = false`);
(3) the nodes in the table are exactly the nodes of the map — each exactly once (`contents` is a permutation of
the map, which has no duplicates);
(4) `Nodes()` is the size of the map = the number of nodes physically in the buckets. -/
theorem table_refines_map (hashfn : Nat → Nat → Nat) (ops : List TOp) :
    (run hashfn Table.new ops).2 = (specRun hashfn Spec.new ops).2 ∧
    (run hashfn Table.new ops).1.bug = false ∧
    (∀ x, x ∈ (specRun hashfn Spec.new ops).1.m ↔ Mem (run hashfn Table.new ops).1 x) ∧
    (specRun hashfn Spec.new ops).1.m.Nodup ∧
    (contents (run hashfn Table.new ops).1.heads).Perm (specRun hashfn Spec.new ops).1.m ∧
    (run hashfn Table.new ops).1.Nodes = (specRun hashfn Spec.new ops).1.m.length ∧
    (run hashfn Table.new ops).1.Nodes = (contents (run hashfn Table.new ops).1.heads).length := by
  obtain ⟨h1, h2⟩ := run_refines ops (refines_new hashfn)
  have h3 := contents_perm h2
  exact ⟨h1, h2.wf.bug, h2.mem, h2.nodup, h3.1, h2.nodes, h3.2⟩

open GoLevel.CacheT in
/-- **table_buckets.**  In every state the table reaches: the number of buckets is a power of two; every bucket
of the current head — as stored if initialised, as `initBucket` would build it if not — is strictly sorted by
(ns,key) (the order `mNodes.search` relies on); a node sits in the bucket its hash selects and in no other, its
hash is the hash of its key, and no bucket holds a node twice; the current head has no frozen bucket. -/
theorem table_buckets (hashfn : Nat → Nat → Nat) (ops : List TOp) :
    ∃ h ps, (run hashfn Table.new ops).1.heads = h :: ps ∧
      (∃ k, h.buckets.length = 2 ^ k ∧ h.mask = 2 ^ k - 1) ∧
      (∀ i, i < h.buckets.length →
        Sorted (vnodes (h :: ps) i) ∧ (vnodes (h :: ps) i).Nodup ∧
        ((h.bucket i).state ≠ .uninit → vnodes (h :: ps) i = (h.bucket i).nodes) ∧
        (h.bucket i).state ≠ .frozen ∧
        ∀ x ∈ vnodes (h :: ps) i, x.hash = hashfn x.ns x.key ∧ x.hash &&& h.mask = i) := by
  have hr := (run_refines ops (refines_new hashfn)).2
  obtain ⟨h, ps, hh⟩ := twf_heads hr.wf
  have hw := hr.wf.chain
  rw [hh] at hw
  refine ⟨h, ps, hh, hw.headOK, fun i hi => ?_⟩
  have hb := vnodes_ok hw h ps rfl i hi
  refine ⟨hb.1, sorted_nodup hb.1, fun hst => vnodes_init hi hst, hr.wf.nf h ps hh i, fun x hx => ?_⟩
  have := hb.2 x hx
  exact ⟨this.1, by rw [land_mask hw.headOK]; exact this.2⟩

namespace TableExample
open GoLevel.CacheT

/-- A hash that sends every key of namespace 0 into bucket 3 of a 16-bucket table (and spreads them over buckets
3 and 19 of a 32-bucket table): the table grows through the overflow counter. -/
def hash (ns key : Nat) : Nat := ns * 1000003 + key * 16 + 3

/-- 160 insertions (the table grows from 16 to 32 buckets at the 160th: 32 + 128 nodes in one bucket), two steps
of the background goroutine, a lookup, the goroutine's final store (refused: not every bucket is initialised),
then 149 deletions (the table shrinks back to 16 buckets when the 145th leaves 15 nodes; the buckets touched
afterwards are merged from two frozen buckets each), and two lookups. -/
def ops : List TOp :=
  (List.range 160).map (fun k => TOp.get 0 k false) ++
  [.bgInit 0 3, .bgInit 0 19, .get 0 5 true, .bgDone 0] ++
  (List.range 149).map (fun k => TOp.delete 0 k true) ++ [.get 0 155 true, .get 0 3 true]

def summary (t : Table) : Nat × Int × Nat × Nat × Bool × Nat :=
  (t.Buckets, t.Nodes, t.statGrow, t.statShrink, t.bug, t.heads.length)

/-- Non-vacuity of `table_refines_map` / `table_buckets`: a run with a grow, a shrink and lazily merged buckets. -/
example :
    summary (run hash Table.new ops).1 = (16, 11, 1, 1, false, 3) ∧
    (run hash Table.new ops).2.drop 313 =
      [.get (.found { ns := 0, key := 155, hash := 2483, id := 155 }), .get .absent] := by decide +kernel

/-- A small run, checked against the map by plain evaluation: same answers, same size. -/
example :
    (run hash Table.new [.get 0 1 false, .get 0 1 false, .get 0 2 true, .delete 0 1 false, .delete 0 1 true,
      .get 0 1 true]).2 =
    (specRun hash Spec.new [.get 0 1 false, .get 0 1 false, .get 0 2 true, .delete 0 1 false, .delete 0 1 true,
      .get 0 1 true]).2 := by decide

end TableExample

/-- The property theorems of C17 (for the audit). -/
def theorems : List String :=
  ["GoLevel.C17.unique_live_value", "GoLevel.C17.same_key_same_value",
   "GoLevel.C17.finalise_once_after_release", "GoLevel.C17.finalise_exactly_once",
   "GoLevel.C17.forced_close_finalises_all", "GoLevel.C17.finalise_exactly_once_partial",
   "GoLevel.C17.del_after_last_handle", "GoLevel.C17.lru_capacity", "GoLevel.C17.ref_is_count",
   "GoLevel.C17.close_race_finalises_under_handle", "GoLevel.C17.close_race_stale_finaliser",
   "GoLevel.C17.close_race_delfunc_twice", "GoLevel.C17.code_delete_clears_delFuncs",
   "GoLevel.C17.delfunc_at_most_once", "GoLevel.C17.delfunc_at_most_once_code",
   "GoLevel.C17.code_closed_unref_rechecks", "GoLevel.C17.no_finalise_under_handle",
   "GoLevel.C17.no_finalise_under_handle_code", "GoLevel.C17.no_deadlock",
   "GoLevel.C17.lock_system_refines", "GoLevel.C17.code_unref_own_lock", "GoLevel.C17.no_deadlock_locks",
   "GoLevel.C17.no_deadlock_locks_code", "GoLevel.C17.close_returns", "GoLevel.C17.d36_deadlock",
   "GoLevel.C17.callFinalizer_race", "GoLevel.C17.callFinalizer_repaired",
   "GoLevel.C17.table_refines_map", "GoLevel.C17.table_buckets"]

end GoLevel.C17
