import GoLevel.Proofs.IterLSM
import GoLevel.Proofs.MergeHeapSim
import GoLevel.Props.C01
import GoLevel.Props.C02Err
/-!
# Property C02 — iterators present exactly the live pairs of their view, as a cursor over the sorted list

"An iterator created on a DB, snapshot or transaction, optionally restricted to a key range, presents exactly
the live key/value pairs of that view whose keys lie in [Start, Limit), each once, in strictly increasing
comparer order.  Any sequence of First, Last, Seek, Next and Prev calls - including direction reversals,
stepping off either end and coming back - positions it exactly as the same calls would position a cursor
over that sorted list; Seek(k) lands on the first key >= k, and Key/Value return the pair under the cursor.
Deleted and overwritten entries never surface, whatever the physical layout."

Models (`GoLevel/Model/Iter.lean`): `DBIter` (`db_iter.go`), `MergedIter` (`iterator/merged_iter.go`),
`IndexedIter` (`iterator/indexed_iter.go`), `ArrIter` (observable behaviour of `iterator/array_iter.go`,
memdb's and the table reader's iterators); `GoLevel/Model/MergeHeap.lean`: `GoHeap` (Go's `container/heap`) and
`HeapMerged` (`mergedIterator` with the real heap; section g shows it refines `MergedIter`).  Specification: `GoLevel/Spec/Cursor.lean` (`Cursor.run`), the
live pairs `visible c es seq` (per user key the newest entry with `seq ≤ seq`, if it is a value), related to
`view` by `visible_iff_view`.

The range-restricted full stack (`stack_range_refines_cursor`) covers the real layout: array-like sources and
sorted levels whose indexed iterator is built by `levelIter` (`tFiles.newIndexIterator`, proved equal to
per-table range filtering in `level_iter_is_range_filter`).  `db_iterator_presents_view` ties the stack to the
LSM model of C01: over `dbGet`'s sources the iterator is the cursor over the sorted list of `(k, v)` with
`view … k seq = some v`, i.e. of what `Get` returns.

The error paths (children that fail, strict / non-strict mode, `Error()`; defect D40) are in
`GoLevel/Props/C02Err.lean` (section h below lists its theorems).

Every theorem quantifies over **every finite sequence of the five calls** (`cs : List (Call _)`), every lawful
comparer, every sorted raw content, every snapshot sequence number.  `fuel` is the bound of the scanning
loops of `DBIter`; any value above the number of raw entries works (the driver uses `length + 1`).
-/
namespace GoLevel.C02

/-! ## example data for the non-vacuity checks

user key `[1]`: value@9, deletion@5, value@2;  `[2]`: deletion@8, value@3;  `[3]`: value@4;
`[4]`: value@7, deletion@6;  `[5]`: value@1.  At `seq = 7` a reader sees `[2]↦[23] [3]↦[34] [4]↦[47] [5]↦[51]`
(`[1]` is deleted at 5, its newer value@9 is not yet visible; the deletion of `[2]`@8 is not yet visible). -/

def exEs : List Entry :=
  [⟨mkIKey [1] 9 1, [19]⟩, ⟨mkIKey [1] 5 0, []⟩, ⟨mkIKey [1] 2 1, [12]⟩,
   ⟨mkIKey [2] 8 0, []⟩, ⟨mkIKey [2] 3 1, [23]⟩,
   ⟨mkIKey [3] 4 1, [34]⟩,
   ⟨mkIKey [4] 7 1, [47]⟩, ⟨mkIKey [4] 6 0, []⟩,
   ⟨mkIKey [5] 1 1, [51]⟩]

theorem exEs_sorted : SortedEntries bytewise exEs := by decide
theorem exEs_kinds : ∀ e ∈ exEs, e.kind ≤ Gen.keyTypeVal := by decide
theorem exEs_seqs : ∀ e ∈ exEs, e.seq ≤ Gen.keyMaxSeq := by decide

example : visible bytewise exEs 7 = [([2], [23]), ([3], [34]), ([4], [47]), ([5], [51])] := by decide

/-- the calls used in the examples: forwards, a reversal, off the front and back, a seek to a deleted key,
a reversal right after the seek, off the end and back -/
def exCalls : List (Call Bytes) :=
  [.next, .next, .prev, .prev, .prev, .next, .seek [1], .prev, .next, .seek [4, 0], .prev, .last, .next, .next,
   .prev, .first]

/-! ## a. the DB iterator over a sorted raw array -/

/-- **C02, core.**  For every lawful comparer, every strictly `ecmp`-sorted list of raw entries with kinds
deletion/value, every snapshot sequence number and EVERY finite sequence of `First/Last/Seek/Next/Prev`
calls, what `DBIter` (over an array iterator on the raw entries) shows after each call — valid or not, key,
value — is what the specification cursor over the visible pairs shows. -/
theorem dbiter_refines_cursor {c : UCmp} (hl : LawfulUCmp c) (es : List Entry) (hs : SortedEntries c es)
    (hk : ∀ e ∈ es, e.kind ≤ Gen.keyTypeVal) (seq fuel : Nat) (hfuel : es.length < fuel)
    (cs : List (Call Bytes)) :
    DBIter.run (ArrIter.ops c) c (DBIter.new (ArrIter.new c es none none) seq fuel) cs
      = Cursor.run (visible c es seq) (geUser c) .soi cs := by
  have hslice : sliceOf c es none none = es := by simp [sliceOf]
  have hrel : DBRel c (ArrIter.Rel es) es seq (DBIter.new (ArrIter.new c es none none) seq fuel) .soi := by
    refine ⟨rfl, hfuel, rfl, ?_⟩
    show ArrIter.Rel es ⟨sliceOf c es none none, .soi⟩ .soi
    rw [hslice]; exact ⟨rfl, rfl, trivial⟩
  exact run_rel (ArrIter.sim c es) hl hs hk cs hrel

example : DBIter.run (ArrIter.ops bytewise) bytewise (DBIter.new (ArrIter.new bytewise exEs none none) 7 10) exCalls
    = [some ([2], [23]), some ([3], [34]), some ([2], [23]), none, none, some ([2], [23]),
       some ([2], [23]), none, some ([2], [23]), some ([5], [51]), some ([4], [47]), some ([5], [51]), none, none,
       some ([5], [51]), some ([2], [23])] := by
  rw [dbiter_refines_cursor bytewise_lawful exEs exEs_sorted exEs_kinds 7 10 (by decide)]
  decide

/-- the model itself computes the same answers (the theorem is not about a degenerate model) -/
example : DBIter.run (ArrIter.ops bytewise) bytewise (DBIter.new (ArrIter.new bytewise exEs none none) 7 10)
    [.last, .prev, .prev, .prev, .prev, .next]
    = [some ([5], [51]), some ([4], [47]), some ([3], [34]), some ([2], [23]), none, some ([2], [23])] := by
  decide

/-- the presented pairs are strictly increasing in comparer order (so every user key appears at most once) -/
theorem visible_sorted {c : UCmp} (hl : LawfulUCmp c) (es : List Entry) (hs : SortedEntries c es) (seq : Nat) :
    (visible c es seq).Pairwise (fun a b => c.cmp a.1 b.1 = .lt) :=
  GoLevel.visible_sorted hl hs seq

example : (visible bytewise exEs 7).Pairwise (fun a b => bytesCompare a.1 b.1 = .lt) :=
  visible_sorted bytewise_lawful exEs exEs_sorted 7

/-- the presented pairs are exactly the view: `k ↦ v` is listed iff a reader at `seq` sees `v` for `k`
(`view` = newest entry of `k` with `seq ≤ seq`, if it is a value) -/
theorem visible_iff_view {c : UCmp} (hl : LawfulUCmp c) (es : List Entry) (hs : SortedEntries c es) (seq : Nat)
    (k v : Bytes) : (k, v) ∈ visible c es seq ↔ view c es k seq = some v :=
  mem_visible_iff_view hl hs seq k v

example : view bytewise exEs [2] 7 = some [23] ∧ view bytewise exEs [1] 7 = none
    ∧ view bytewise exEs [1] 4 = some [12] ∧ view bytewise exEs [2] 8 = none := by decide

/-! ## b. with a key range -/

/-- **C02 with `util.Range`.**  `DB.newIterator` restricts every raw child iterator to the internal range
`[makeInternalKey(Start, keyMaxSeq, keyTypeSeek), makeInternalKey(Limit, keyMaxSeq, keyTypeSeek))`; over
such a raw iterator `DBIter` is the cursor over the visible pairs with `Start ≤ key < Limit`. -/
theorem dbiter_range_refines_cursor {c : UCmp} (hl : LawfulUCmp c) (es : List Entry) (hs : SortedEntries c es)
    (hk : ∀ e ∈ es, e.kind ≤ Gen.keyTypeVal) (hq : ∀ e ∈ es, e.seq ≤ Gen.keyMaxSeq)
    (seq : Nat) (start limit : Option Bytes) (fuel : Nat) (hfuel : es.length < fuel) (cs : List (Call Bytes)) :
    DBIter.run (ArrIter.ops c) c
        (DBIter.new (ArrIter.new c es (start.map (probe · Gen.keyMaxSeq)) (limit.map (probe · Gen.keyMaxSeq)))
          seq fuel) cs
      = Cursor.run ((visible c es seq).filter (fun p => inRange c start limit p.1)) (geUser c) .soi cs := by
  rw [← visible_slice hl es seq start limit]
  have hsl := sliceOf_probe hl es start limit hk hq
  have hs' : SortedEntries c (es.filter (fun e => inRange c start limit e.ukey)) :=
    List.Pairwise.sublist List.filter_sublist hs
  have hk' : ∀ e ∈ es.filter (fun e => inRange c start limit e.ukey), e.kind ≤ Gen.keyTypeVal :=
    fun e he => hk e (List.mem_filter.1 he).1
  have hlen : (es.filter (fun e => inRange c start limit e.ukey)).length < fuel :=
    Nat.lt_of_le_of_lt (List.length_filter_le _ _) hfuel
  have hrel : DBRel c (ArrIter.Rel (es.filter (fun e => inRange c start limit e.ukey)))
      (es.filter (fun e => inRange c start limit e.ukey)) seq
      (DBIter.new (ArrIter.new c es (start.map (probe · Gen.keyMaxSeq)) (limit.map (probe · Gen.keyMaxSeq)))
        seq fuel) .soi := by
    refine ⟨rfl, hlen, rfl, ?_⟩
    show ArrIter.Rel _ ⟨sliceOf c es _ _, .soi⟩ .soi
    rw [hsl]; exact ⟨rfl, rfl, trivial⟩
  exact run_rel (ArrIter.sim c _) hl hs' hk' cs hrel

example : DBIter.run (ArrIter.ops bytewise) bytewise
      (DBIter.new (ArrIter.new bytewise exEs ((some [2, 0]).map (probe · Gen.keyMaxSeq))
        ((some [5]).map (probe · Gen.keyMaxSeq))) 7 10)
      [.first, .prev, .next, .next, .next, .prev, .seek [1], .seek [5], .last]
    = [some ([3], [34]), none, some ([3], [34]), some ([4], [47]), none, some ([4], [47]), some ([3], [34]), none,
       some ([4], [47])] := by
  rw [dbiter_range_refines_cursor bytewise_lawful exEs exEs_sorted exEs_kinds exEs_seqs 7 (some [2, 0]) (some [5])
    10 (by decide)]
  decide

/-! ## c. the merged iterator -/

/-- relation of child `i` when all children are array iterators -/
def arrRs (Ls : List (List Entry)) (i : Nat) (a : ArrIter) (p : Pos) : Prop :=
  match Ls[i]? with
  | some L => ArrIter.Rel L a p
  | none => False

/-- **Merged iterator.**  Children sorted with pairwise distinct keys, `U` their sorted union: for every call
sequence `MergedIter` (heap, `keys`, `dir`, the re-seek of all other children on a direction change) answers
like the cursor over `U`.  (`MergedIter.sim` is the general form: children of any type that simulate a
cursor, e.g. indexed iterators.) -/
theorem merged_refines_cursor {c : UCmp} (hl : LawfulUCmp c) (Ls : List (List Entry)) (U : List Entry)
    (hok : MergeOK c Ls U) (cs : List (Call IKey)) :
    (MergedIter.ops (ArrIter.ops c) c).run (MergedIter.new (Ls.map fun L => (⟨L, .soi⟩ : ArrIter))) cs
      = Cursor.run U (geKey c) .soi cs := by
  have hch : ∀ i L, Ls[i]? = some L → Sim (ArrIter.ops c) c L (arrRs Ls i) := by
    intro i L h
    have : arrRs Ls i = ArrIter.Rel L := by funext a p; simp [arrRs, h]
    rw [this]; exact ArrIter.sim c L
  have hsim := MergedIter.sim hl (ArrIter.ops c) (arrRs Ls) Ls U hok hch
  refine hsim.run cs _ _ (MergedIter.rel_new _ c _ Ls U _ (by simp) ?_)
  intro i s hs
  rw [List.getElem?_map] at hs
  cases hL : Ls[i]? with
  | none => rw [hL] at hs; simp at hs
  | some L =>
    rw [hL] at hs
    simp only [Option.map_some, Option.some.injEq] at hs
    subst hs
    simp only [arrRs, hL]
    exact ⟨rfl, rfl, trivial⟩

example (cs : List (Call IKey)) :
    (MergedIter.ops (ArrIter.ops bytewise) bytewise).run
      (MergedIter.new (MergedExample.Ls.map fun L => (⟨L, .soi⟩ : ArrIter))) cs
      = Cursor.run MergedExample.U (geKey bytewise) .soi cs :=
  merged_refines_cursor bytewise_lawful _ _ MergedExample.mergeOK cs

example : ((MergedIter.ops (ArrIter.ops bytewise) bytewise).run
      (MergedIter.new (MergedExample.Ls.map fun L => (⟨L, .soi⟩ : ArrIter)))
      [.first, .next, .next, .prev, .next, .next, .next, .next, .prev, .seek ⟨[2], 4⟩, .prev]).map
        (·.map (·.val))
    = [some [10], some [20], some [30], some [20], some [30], some [40], some [], none, some [], some [30],
       some [20]] := by decide

/-! ## d. the indexed iterator -/

/-- **Indexed iterator.**  Children (possibly empty) whose concatenation is sorted, with index keys
`last(child i) ≤ sep i ≤ first(child j)` for `i < j`: `IndexedIter` (`setData`, skipping empty data iterators
in both directions, `Seek` through the index) answers like the cursor over the concatenation. -/
theorem indexed_refines_cursor {c : UCmp} (hl : LawfulUCmp c) (chs : List IdxChild) (hok : IdxOK c chs)
    (cs : List (Call IKey)) :
    (IndexedIter.ops c).run (IndexedIter.new chs) cs = Cursor.run (chs.flatMap (·.es)) (geKey c) .soi cs :=
  (IndexedIter.sim hl chs hok).run cs _ _ (IndexedIter.rel_new c chs)

example (cs : List (Call IKey)) :
    (IndexedIter.ops bytewise).run (IndexedIter.new IndexedIter.demo) cs
      = Cursor.run (IndexedIter.demo.flatMap (·.es)) (geKey bytewise) .soi cs :=
  indexed_refines_cursor bytewise_lawful _ IndexedIter.demo_ok cs

/-! ## e. the whole stack, and the corollaries of the property statement -/

/-- **Whatever the physical layout.**  The raw iterator of a DB is a merged iterator over memdb / level-0
table iterators (`NodeSpec.arr`) and one indexed iterator per sorted level (`NodeSpec.idx`); if the children
hold pairwise distinct internal keys with sorted union `U`, then `DBIter` over that stack answers every call
sequence like the cursor over `visible c U seq` — the layout does not show. -/
theorem stack_refines_cursor {c : UCmp} (hl : LawfulUCmp c) (specs : List NodeSpec)
    (hok : ∀ sp ∈ specs, sp.OK c) (U : List Entry) (hU : MergeOK c (specs.map (·.list)) U)
    (hk : ∀ e ∈ U, e.kind ≤ Gen.keyTypeVal) (seq fuel : Nat) (hfuel : U.length < fuel)
    (cs : List (Call Bytes)) :
    DBIter.run (MergedIter.ops (Node.ops c) c) c
        (DBIter.new (MergedIter.new (specs.map (·.fresh))) seq fuel) cs
      = Cursor.run (visible c U seq) (geUser c) .soi cs := by
  have hsim := MergedIter.sim hl (Node.ops c) (stackRs c specs) (specs.map (·.list)) U hU
    (stack_children_sim hl specs hok)
  exact run_rel hsim hl hU.sortedU hk cs ⟨rfl, hfuel, rfl, stack_rel_new c specs U⟩

/-- **`tFiles.newIndexIterator` is per-table range filtering.**  For a well-formed sorted level (non-empty
tables whose concatenation is strictly sorted: tables ordered and disjoint, `imin`/`imax` the first/last key)
and ANY internal range — including an inverted one, where the limit is clamped to the start — the children
of the level's indexed iterator (`tf[searchMax(Start) : searchMin(Limit)]`, only the first and last table
sliced) hold exactly the level's entries inside `[start, limit)`, and they satisfy the index contract. -/
theorem level_iter_is_range_filter {c : UCmp} (hl : LawfulUCmp c) (tables : List (List Entry))
    (hok : LevelOK c tables) (start limit : Option IKey) :
    (levelIter c tables start limit).children.flatMap (·.es) = sliceOf c tables.flatten start limit
    ∧ IdxOK c (levelIter c tables start limit).children :=
  ⟨levelIter_flat hl hok start limit, levelIter_idxOK hl hok start limit⟩

/-- three tables of a sorted level -/
def exLevel : List (List Entry) :=
  [[⟨mkIKey [1] 2 1, [12]⟩], [⟨mkIKey [2] 3 1, [23]⟩, ⟨mkIKey [3] 4 1, [34]⟩], [⟨mkIKey [5] 1 1, [51]⟩]]

theorem exLevel_ok : LevelOK bytewise exLevel := ⟨by decide, by decide⟩

example : ((levelIter bytewise exLevel (some (probe [3] Gen.keyMaxSeq)) none).children.map (·.es.length)) = [1, 1]
    ∧ ((levelIter bytewise exLevel (some (probe [5] Gen.keyMaxSeq)) (some (probe [2] Gen.keyMaxSeq))).children = [])
    := by decide

/-- **The full stack with a key range, for the real layout.**  Sources before restriction: array-like ones
(aux memdb, write buffer, frozen buffer, level-0 / aux tables: `Source.arr`) and sorted levels
(`Source.level`, one indexed iterator each, built by `levelIter`).  `DB.newIterator` hands every child the
internal range `[probe(Start, keyMaxSeq), probe(Limit, keyMaxSeq))`; over that raw iterator `DBIter` is the
cursor over the visible pairs of the sorted union with `Start ≤ key < Limit`. -/
theorem stack_range_refines_cursor {c : UCmp} (hl : LawfulUCmp c) (srcs : List Source)
    (hok : ∀ s ∈ srcs, s.OK c) (U : List Entry) (hU : MergeOK c (srcs.map (·.list)) U)
    (hk : ∀ e ∈ U, e.kind ≤ Gen.keyTypeVal) (hq : ∀ e ∈ U, e.seq ≤ Gen.keyMaxSeq)
    (seq : Nat) (start limit : Option Bytes) (fuel : Nat) (hfuel : U.length < fuel) (cs : List (Call Bytes)) :
    DBIter.run (MergedIter.ops (Node.ops c) c) c
        (DBIter.new (MergedIter.new (srcs.map
          (·.node c (start.map (probe · Gen.keyMaxSeq)) (limit.map (probe · Gen.keyMaxSeq))))) seq fuel) cs
      = Cursor.run ((visible c U seq).filter (fun p => inRange c start limit p.1)) (geUser c) .soi cs := by
  let st := start.map (probe · Gen.keyMaxSeq)
  let lm := limit.map (probe · Gen.keyMaxSeq)
  let specs : List NodeSpec := srcs.map (·.spec c st lm)
  have hfresh : specs.map (·.fresh) = srcs.map (·.node c st lm) := by
    simp only [specs, List.map_map]
    apply List.map_congr_left
    intro s _; exact Source.spec_fresh c st lm s
  have hlist : specs.map (·.list) = (srcs.map (·.list)).map (·.filter (slicePred c st lm)) := by
    simp only [specs, List.map_map]
    apply List.map_congr_left
    intro s hs; exact Source.spec_list hl st lm s (hok s hs)
  have hU' : MergeOK c (specs.map (·.list)) (sliceOf c U st lm) := by
    rw [hlist]; exact MergeOK.filter hU _
  have hok' : ∀ sp ∈ specs, sp.OK c := by
    intro sp hsp
    obtain ⟨s, hs, rfl⟩ := List.mem_map.1 hsp
    exact Source.spec_ok hl st lm s (hok s hs)
  have hlen : (sliceOf c U st lm).length < fuel := Nat.lt_of_le_of_lt (List.length_filter_le _ _) hfuel
  have := stack_refines_cursor hl specs hok' (sliceOf c U st lm) hU'
    (fun e he => hk e (List.mem_filter.1 he).1) seq fuel hlen cs
  rw [hfresh] at this
  rw [this, sliceOf_probe hl U start limit hk hq, visible_slice hl]

/-- a three-level layout of `exEs`: a memdb, a level-0 table, and a sorted level of three tables one of which
contributes nothing -/
def exSpecs : List NodeSpec :=
  [.arr [⟨mkIKey [1] 9 1, [19]⟩, ⟨mkIKey [2] 8 0, []⟩, ⟨mkIKey [4] 7 1, [47]⟩],
   .arr [⟨mkIKey [1] 5 0, []⟩, ⟨mkIKey [4] 6 0, []⟩],
   .idx [⟨mkIKey [1] 2 1, [⟨mkIKey [1] 2 1, [12]⟩]⟩, ⟨mkIKey [2] 3 1, []⟩,
         ⟨mkIKey [3] 4 1, [⟨mkIKey [2] 3 1, [23]⟩, ⟨mkIKey [3] 4 1, [34]⟩]⟩,
         ⟨mkIKey [5] 1 1, [⟨mkIKey [5] 1 1, [51]⟩]⟩]]

example : DBIter.run (MergedIter.ops (Node.ops bytewise) bytewise) bytewise
      (DBIter.new (MergedIter.new (exSpecs.map (·.fresh))) 7 10) exCalls
    = Cursor.run (visible bytewise exEs 7) (geUser bytewise) .soi exCalls := by decide

/-- the layout of `exSpecs` as sources before range restriction -/
def exSrcs : List Source :=
  [.arr [⟨mkIKey [1] 9 1, [19]⟩, ⟨mkIKey [2] 8 0, []⟩, ⟨mkIKey [4] 7 1, [47]⟩],
   .arr [⟨mkIKey [1] 5 0, []⟩, ⟨mkIKey [4] 6 0, []⟩],
   .level exLevel]

example : DBIter.run (MergedIter.ops (Node.ops bytewise) bytewise) bytewise
      (DBIter.new (MergedIter.new (exSrcs.map
        (·.node bytewise ((some [2, 0]).map (probe · Gen.keyMaxSeq)) ((some [5]).map (probe · Gen.keyMaxSeq))))) 7 10)
      [.first, .prev, .next, .next, .next, .prev, .seek [1], .seek [5], .last]
    = [some ([3], [34]), none, some ([3], [34]), some ([4], [47]), none, some ([4], [47]), some ([3], [34]), none,
       some ([4], [47])] := by decide

/-! ## f. the tie to the LSM model (C01): the iterator presents the view that `Get` reads -/

/-- **The DB iterator presents the view.**  For the sources `dbGet` searches (aux memdb and tables of a
transaction, write buffer, frozen buffer, a version with `Version.wfB` — `C01.SourcesOK`), when no internal
key occurs twice: the iterator `DB.newIterator` builds (merged raw iterator over `dbSources`, every child
restricted to the range, `DBIter` on top) is, for every call sequence, the cursor over THE strictly sorted
list `V` of pairs `(k, v)` with `view c (all entries) k seq = some v` and `Start ≤ k < Limit` — equivalently
of the pairs for which `Get(k)` at `seq` returns `v` (`C01.lookup_refines_view`). -/
theorem db_iterator_presents_view {c : UCmp} (hl : LawfulUCmp c) (auxm : Option (List Entry)) (aux : Level)
    (mem : List Entry) (frozen : Option (List Entry)) (v : Version)
    (h : C01.SourcesOK c auxm aux mem frozen v)
    (hd : (dbEntries auxm aux mem frozen v).Pairwise (fun a b => a.key ≠ b.key))
    (hq : ∀ e ∈ dbEntries auxm aux mem frozen v, e.seq ≤ Gen.keyMaxSeq)
    (seq : Nat) (start limit : Option Bytes) :
    ∃ V : List (Bytes × Bytes),
      V.Pairwise (fun a b => c.cmp a.1 b.1 = .lt) ∧
      (∀ k val, (k, val) ∈ V ↔
        view c (dbEntries auxm aux mem frozen v) k seq = some val ∧ inRange c start limit k = true) ∧
      (∀ k val, (k, val) ∈ V ↔
        (dbGet c auxm aux mem frozen v k seq).toOption = some val ∧ inRange c start limit k = true) ∧
      ∀ fuel, (dbEntries auxm aux mem frozen v).length < fuel → ∀ cs : List (Call Bytes),
        DBIter.run (MergedIter.ops (Node.ops c) c) c
          (DBIter.new (MergedIter.new ((dbSources auxm aux mem frozen v).map
            (·.node c (start.map (probe · Gen.keyMaxSeq)) (limit.map (probe · Gen.keyMaxSeq))))) seq fuel) cs
          = Cursor.run V (geUser c) .soi cs := by
  let srcs := dbSources auxm aux mem frozen v
  let all := srcs.flatMap (·.list)
  let U := sortedUnion c all
  have hok : ∀ s ∈ srcs, s.OK c :=
    dbSources_ok hl auxm aux mem frozen v ((sortedB_iff hl _).1 h.auxm_sorted) ((sortedB_iff hl _).1 h.mem_sorted)
      ((sortedB_iff hl _).1 h.frozen_sorted) h.aux_wf h.wf
  have hperm := dbSources_perm auxm aux mem frozen v
  have hd' : all.Pairwise (fun a b => a.key ≠ b.key) :=
    (List.Perm.pairwise_iff (fun {a b} (h : a.key ≠ b.key) => h.symm) hperm).2 hd
  have hU : MergeOK c (srcs.map (·.list)) U := mergeOK_sortedUnion hl srcs hok hd'
  have hUperm : U.Perm (dbEntries auxm aux mem frozen v) := by
    have := foldl_insert_perm (c := c) all []
    rw [List.append_nil] at this
    exact this.trans hperm
  have hmemU : ∀ e, e ∈ U ↔ e ∈ dbEntries auxm aux mem frozen v := fun e => hUperm.mem_iff
  have hkinds : ∀ e ∈ dbEntries auxm aux mem frozen v, e.kind ≤ Gen.keyTypeVal := by
    intro e he
    simp only [dbEntries, List.mem_append, Version.entries, Level.entries, List.mem_flatMap] at he
    rcases he with he | he | he | ⟨t, ht, he⟩ | ⟨l, hlm, t, ht, he⟩
    · exact h.auxm_kinds e he
    · exact h.mem_kinds e he
    · exact h.frozen_kinds e he
    · exact Table.wf_kinds (h.aux_wf t ht) e he
    · exact Table.wf_kinds (Version.wfB_tables h.wf l hlm t ht) e he
  have hview : ∀ k, view c U k seq = view c (dbEntries auxm aux mem frozen v) k seq :=
    fun k => view_congr hl (ESorted.uniqNum hl hU.sortedU) hmemU k seq
  have hV1 : ∀ k val, (k, val) ∈ (visible c U seq).filter (fun p => inRange c start limit p.1) ↔
      view c (dbEntries auxm aux mem frozen v) k seq = some val ∧ inRange c start limit k = true := by
    intro k val
    rw [List.mem_filter, visible_iff_view hl U hU.sortedU seq k val, hview]
  refine ⟨(visible c U seq).filter (fun p => inRange c start limit p.1),
    List.Pairwise.sublist List.filter_sublist (visible_sorted hl U hU.sortedU seq), hV1, ?_, ?_⟩
  · intro k val
    rw [hV1, C01.lookup_refines_view hl auxm aux mem frozen v h k seq]
  · intro fuel hfuel cs
    exact stack_range_refines_cursor hl srcs hok U hU (fun e he => hkinds e ((hmemU e).1 he))
      (fun e he => hq e ((hmemU e).1 he)) seq start limit fuel (by rw [hUperm.length_eq]; exact hfuel) cs

/-- the iterator stack `DB.newIterator` builds over C01's example state (write buffer, two overlapping level-0
tables, one level-1 table) shows at sequence 9: `[1]` deleted, `[2]` ↦ b2, `[3]` ↦ c2 … -/
example : DBIter.run (MergedIter.ops (Node.ops bytewise) bytewise) bytewise
      (DBIter.new (MergedIter.new ((dbSources none [] C01.exMem none C01.exV).map (·.node bytewise none none))) 9 10)
      [.first, .next, .next, .prev, .seek [1], .last]
    = [some ([2], [0xb2]), some ([3], [0xc2]), none, some ([3], [0xc2]), some ([2], [0xb2]), some ([3], [0xc2])] := by
  decide

/-- … and at sequence 6, before the deletion of `[1]` and the newer versions: exactly what `Get` returns -/
example : DBIter.run (MergedIter.ops (Node.ops bytewise) bytewise) bytewise
      (DBIter.new (MergedIter.new ((dbSources none [] C01.exMem none C01.exV).map (·.node bytewise none none))) 6 10)
      [.first, .next, .next, .next]
    = [some ([1], [0xa1]), some ([2], [0xb2]), some ([3], [0xc1]), none]
    ∧ (dbGet bytewise none [] C01.exMem none C01.exV [1] 6).toOption = some [0xa1] := by decide

example := db_iterator_presents_view bytewise_lawful none [] C01.exMem none C01.exV C01.exSourcesOK
  (by decide) (by decide) 9 none (some [3])

/-- **each live pair exactly once, in strictly increasing order.**  `First` followed by `Next`s shows the
visible pairs one after the other and then reports exhaustion; the list is strictly increasing. -/
theorem forward_walk_enumerates {c : UCmp} (hl : LawfulUCmp c) (es : List Entry) (hs : SortedEntries c es)
    (hk : ∀ e ∈ es, e.kind ≤ Gen.keyTypeVal) (seq fuel : Nat) (hfuel : es.length < fuel) :
    DBIter.run (ArrIter.ops c) c (DBIter.new (ArrIter.new c es none none) seq fuel)
        (.first :: List.replicate (visible c es seq).length .next)
      = (visible c es seq).map some ++ [none]
    ∧ (visible c es seq).Pairwise (fun a b => c.cmp a.1 b.1 = .lt) := by
  rw [dbiter_refines_cursor hl es hs hk seq fuel hfuel, Cursor.run_first_next]
  exact ⟨rfl, visible_sorted hl es hs seq⟩

/-- the mirror image: `Last` followed by `Prev`s shows them in decreasing order -/
theorem backward_walk_enumerates {c : UCmp} (hl : LawfulUCmp c) (es : List Entry) (hs : SortedEntries c es)
    (hk : ∀ e ∈ es, e.kind ≤ Gen.keyTypeVal) (seq fuel : Nat) (hfuel : es.length < fuel) :
    DBIter.run (ArrIter.ops c) c (DBIter.new (ArrIter.new c es none none) seq fuel)
        (.last :: List.replicate (visible c es seq).length .prev)
      = (visible c es seq).reverse.map some ++ [none] := by
  rw [dbiter_refines_cursor hl es hs hk seq fuel hfuel, Cursor.run_last_prev]

example : DBIter.run (ArrIter.ops bytewise) bytewise (DBIter.new (ArrIter.new bytewise exEs none none) 7 10)
    [.first, .next, .next, .next, .next]
    = [some ([2], [23]), some ([3], [34]), some ([4], [47]), some ([5], [51]), none] :=
  (forward_walk_enumerates bytewise_lawful exEs exEs_sorted exEs_kinds 7 10 (by decide)).1

/-- **`Seek(k)` lands on the first key `≥ k`**, whatever calls came before -/
theorem seek_lands_on_first_ge {c : UCmp} (hl : LawfulUCmp c) (es : List Entry) (hs : SortedEntries c es)
    (hk : ∀ e ∈ es, e.kind ≤ Gen.keyTypeVal) (seq fuel : Nat) (hfuel : es.length < fuel)
    (cs : List (Call Bytes)) (k : Bytes) :
    DBIter.run (ArrIter.ops c) c (DBIter.new (ArrIter.new c es none none) seq fuel) (cs ++ [.seek k])
      = DBIter.run (ArrIter.ops c) c (DBIter.new (ArrIter.new c es none none) seq fuel) cs
        ++ [(visible c es seq).find? (fun p => c.cmp p.1 k != .lt)] := by
  rw [dbiter_refines_cursor hl es hs hk seq fuel hfuel, dbiter_refines_cursor hl es hs hk seq fuel hfuel,
    Cursor.run_seek]
  rfl

example : (visible bytewise exEs 7).find? (fun p => bytesCompare p.1 [1] != .lt) = some ([2], [23]) := by decide

/-- **deleted and overwritten entries never surface**: every pair ever shown, by any call sequence, is what
a reader at `seq` sees for that key -/
theorem only_live_pairs_surface {c : UCmp} (hl : LawfulUCmp c) (es : List Entry) (hs : SortedEntries c es)
    (hk : ∀ e ∈ es, e.kind ≤ Gen.keyTypeVal) (seq fuel : Nat) (hfuel : es.length < fuel)
    (cs : List (Call Bytes)) (k v : Bytes)
    (h : some (k, v) ∈ DBIter.run (ArrIter.ops c) c (DBIter.new (ArrIter.new c es none none) seq fuel) cs) :
    view c es k seq = some v := by
  rw [dbiter_refines_cursor hl es hs hk seq fuel hfuel] at h
  exact (visible_iff_view hl es hs seq k v).1 (Cursor.run_mem _ _ _ _ _ h)

/-- the same three corollaries for the full stack (any physical layout) -/
theorem stack_only_live_pairs_surface {c : UCmp} (hl : LawfulUCmp c) (specs : List NodeSpec)
    (hok : ∀ sp ∈ specs, sp.OK c) (U : List Entry) (hU : MergeOK c (specs.map (·.list)) U)
    (hk : ∀ e ∈ U, e.kind ≤ Gen.keyTypeVal) (seq fuel : Nat) (hfuel : U.length < fuel)
    (cs : List (Call Bytes)) (k v : Bytes)
    (h : some (k, v) ∈ DBIter.run (MergedIter.ops (Node.ops c) c) c
        (DBIter.new (MergedIter.new (specs.map (·.fresh))) seq fuel) cs) :
    view c U k seq = some v := by
  rw [stack_refines_cursor hl specs hok U hU hk seq fuel hfuel] at h
  exact (visible_iff_view hl U hU.sortedU seq k v).1 (Cursor.run_mem _ _ _ _ _ h)

theorem stack_forward_walk_enumerates {c : UCmp} (hl : LawfulUCmp c) (specs : List NodeSpec)
    (hok : ∀ sp ∈ specs, sp.OK c) (U : List Entry) (hU : MergeOK c (specs.map (·.list)) U)
    (hk : ∀ e ∈ U, e.kind ≤ Gen.keyTypeVal) (seq fuel : Nat) (hfuel : U.length < fuel) :
    DBIter.run (MergedIter.ops (Node.ops c) c) c (DBIter.new (MergedIter.new (specs.map (·.fresh))) seq fuel)
        (.first :: List.replicate (visible c U seq).length .next)
      = (visible c U seq).map some ++ [none] := by
  rw [stack_refines_cursor hl specs hok U hU hk seq fuel hfuel, Cursor.run_first_next]

/-! ## g. the real heap inside `mergedIterator` (`container/heap`, `Model/MergeHeap.lean`)

`GoHeap` transcribes `up`/`down`/`Init`/`Push`/`Pop` of Go's `container/heap` over the slice `indexes` of
child indices; `HeapMerged` is `mergedIterator` with these in place of the abstract "take a least element of
the bag" of `MergedIter`.  `GoHeap.IsHeap less h` is the invariant of `container/heap`:
`!h.Less(j, (j-1)/2)` for every `0 < j < h.Len()`. -/

/-- `a < b` on child indices themselves: the order of the numeric examples -/
def natLt (a b : Nat) : Bool := decide (a < b)

theorem natLt_swo : GoHeap.SWO natLt (fun _ => True) where
  irrefl := by intro a _; simp [natLt]
  trans := by intro a b d _ _ _ h1 h2; simp only [natLt, decide_eq_true_eq] at *; omega
  negtrans := by intro a b d _ _ _ h1 h2; simp only [natLt, decide_eq_false_iff_not] at *; omega

/-- `indexHeap.Less` (`Compare(keys[i], keys[j]) < 0`, `> 0` when `reverse`) is a strict weak order on the
children whose key is set — for ANY keys, equal ones included (they are incomparable, not ordered) -/
theorem index_less_strict_weak_order {c : UCmp} (hl : LawfulUCmp c) (rev : Bool) (keys : List (Option IKey)) :
    GoHeap.SWO (MergedIter.less c rev keys) (fun x => (MergedIter.keyAt keys x).isSome) :=
  HeapMerged.swo_less hl rev keys

/-- **`heap.Init`** establishes the heap invariant and permutes the slice (strict weak order `less`). -/
theorem heap_init_establishes_invariant {less : Nat → Nat → Bool} {S : Nat → Prop} (hs : GoHeap.SWO less S)
    (h : List Nat) (hS : ∀ x ∈ h, S x) :
    GoHeap.IsHeap less (GoHeap.init less h) ∧ (GoHeap.init less h).Perm h :=
  ⟨GoHeap.init_isHeap hs (GoHeap.allS_iff.2 hS), GoHeap.init_perm less h⟩

example : GoHeap.init natLt [5, 3, 8, 1, 9, 2] = [1, 3, 2, 5, 9, 8] := by decide
example := heap_init_establishes_invariant natLt_swo [5, 3, 8, 1, 9, 2] (fun _ _ => trivial)

/-- **`heap.Push`** preserves the heap invariant; the new slice is a permutation of the old one plus `x`. -/
theorem heap_push_preserves_invariant {less : Nat → Nat → Bool} {S : Nat → Prop} (hs : GoHeap.SWO less S)
    (h : List Nat) (x : Nat) (hS : ∀ y ∈ h ++ [x], S y) (hh : GoHeap.IsHeap less h) :
    GoHeap.IsHeap less (GoHeap.push less h x) ∧ (GoHeap.push less h x).Perm (h ++ [x]) :=
  ⟨GoHeap.push_isHeap hs (GoHeap.allS_iff.2 hS) hh, GoHeap.push_perm less h x⟩

example : GoHeap.push natLt [1, 3, 2, 5, 9, 8] 0 = [0, 3, 1, 5, 9, 8, 2] := by decide
example := heap_push_preserves_invariant natLt_swo _ 0 (fun _ _ => trivial)
  (heap_init_establishes_invariant natLt_swo [5, 3, 8, 1, 9, 2] (fun _ _ => trivial)).1

/-- **`heap.Pop`** on a non-empty heap returns a minimum w.r.t. `less` (nothing in the heap is `less` than
it); what it leaves is a heap again, and together with the returned element a permutation of the old heap. -/
theorem heap_pop_returns_minimum {less : Nat → Nat → Bool} {S : Nat → Prop} (hs : GoHeap.SWO less S)
    (h : List Nat) (hS : ∀ x ∈ h, S x) (hh : GoHeap.IsHeap less h) (hne : h ≠ []) :
    ∃ x rest, GoHeap.pop less h = some (x, rest) ∧ (∀ y ∈ h, less y x = false) ∧ (x :: rest).Perm h ∧
      GoHeap.IsHeap less rest := by
  obtain ⟨rest, h1, h2, h3, h4⟩ := GoHeap.pop_spec hs (GoHeap.allS_iff.2 hS) hh hne
  exact ⟨_, rest, h1, h4, h2, h3⟩

example : GoHeap.pop natLt [1, 3, 2, 5, 9, 8] = some (1, [2, 3, 8, 5, 9]) := by decide
example := heap_pop_returns_minimum natLt_swo (GoHeap.init natLt [5, 3, 8, 1, 9, 2]) (fun _ _ => trivial)
  (heap_init_establishes_invariant natLt_swo [5, 3, 8, 1, 9, 2] (fun _ _ => trivial)).1 (by decide)

/-- **The heap-based merged iterator answers like the abstract one.**  Children sorted with pairwise distinct
keys (`MergeOK`, the hypothesis of `merged_refines_cursor`; internal keys are unique in the DB): for every call
sequence `HeapMerged` — `heap.Init` after `First`/`Last`/`Seek` and after the re-seek of the other children on
a `Prev` after `Next`, `heap.Push` of the moved child, `heap.Pop` in `next()`/`prev()` — gives the same
answers as `MergedIter`.  (`HeapMerged.heap_run_eq_abstract` is the general form: any related states, children
of any type that simulate a cursor.) -/
theorem merged_heap_refines_abstract {c : UCmp} (hl : LawfulUCmp c) (Ls : List (List Entry)) (U : List Entry)
    (hok : MergeOK c Ls U) (cs : List (Call IKey)) :
    (HeapMerged.ops (ArrIter.ops c) c).run (MergedIter.new (Ls.map fun L => (⟨L, .soi⟩ : ArrIter))) cs
      = (MergedIter.ops (ArrIter.ops c) c).run (MergedIter.new (Ls.map fun L => (⟨L, .soi⟩ : ArrIter))) cs := by
  have hch : ∀ i L, Ls[i]? = some L → Sim (ArrIter.ops c) c L (arrRs Ls i) := by
    intro i L h
    have : arrRs Ls i = ArrIter.Rel L := by funext a p; simp [arrRs, h]
    rw [this]; exact ArrIter.sim c L
  refine HeapMerged.heap_run_eq_abstract hl (ArrIter.ops c) (arrRs Ls) Ls U hok hch cs _ _ .soi
    (MergedIter.rel_new _ c _ Ls U _ (by simp) ?_) (HeapMerged.hrel_new c _)
  intro i s hs
  rw [List.getElem?_map] at hs
  cases hL : Ls[i]? with
  | none => rw [hL] at hs; simp at hs
  | some L =>
    rw [hL] at hs
    simp only [Option.map_some, Option.some.injEq] at hs
    subst hs
    simp only [arrRs, hL]
    exact ⟨rfl, rfl, trivial⟩

/-- **The heap-based merged iterator refines the cursor** over the sorted union, for every call sequence. -/
theorem merged_heap_refines_cursor {c : UCmp} (hl : LawfulUCmp c) (Ls : List (List Entry)) (U : List Entry)
    (hok : MergeOK c Ls U) (cs : List (Call IKey)) :
    (HeapMerged.ops (ArrIter.ops c) c).run (MergedIter.new (Ls.map fun L => (⟨L, .soi⟩ : ArrIter))) cs
      = Cursor.run U (geKey c) .soi cs := by
  rw [merged_heap_refines_abstract hl Ls U hok cs]
  exact merged_refines_cursor hl Ls U hok cs

/-- four children `[a,d] [b] [] [c,e]` (one exhausted from the start, the others run dry during the walk) -/
example (cs : List (Call IKey)) :
    (HeapMerged.ops (ArrIter.ops bytewise) bytewise).run
      (MergedIter.new (MergedExample.Ls.map fun L => (⟨L, .soi⟩ : ArrIter))) cs
      = Cursor.run MergedExample.U (geKey bytewise) .soi cs :=
  merged_heap_refines_cursor bytewise_lawful _ _ MergedExample.mergeOK cs

/-- three children, both direction changes (`Prev` after `Next`: re-seek + `heap.Init` in reverse order;
`Next` after `Prev`: `Seek(key)` + `Next`), children exhausted at either end, stepping off and back -/
def heapExLs : List (List Entry) := [[MergedExample.a, MergedExample.d], [MergedExample.b, MergedExample.e],
  [MergedExample.c]]

example : (HeapMerged.ops (ArrIter.ops bytewise) bytewise).run
      (MergedIter.new (heapExLs.map fun L => (⟨L, .soi⟩ : ArrIter)))
      [.first, .next, .next, .prev, .prev, .prev, .next, .next, .next, .next, .next, .next, .prev, .prev,
       .seek ⟨[3], 0⟩, .prev, .next, .last, .next, .prev] =
    (open MergedExample in
      [some a, some b, some c, some b, some a, none, some a, some b, some c, some d, some e, none, some e, some d,
       some d, some c, some d, some e, none, some e]) := by decide

/-- the heap layouts differ from the abstract bag while the answers agree: after `Last, Prev` on the four
children the real slice `indexes` is `[3, 1]`, the abstract bag `[1, 3]` -/
example : (((HeapMerged.ops (ArrIter.ops bytewise) bytewise).step .prev
      ((HeapMerged.ops (ArrIter.ops bytewise) bytewise).step .last
        (MergedIter.new (MergedExample.Ls.map fun L => (⟨L, .soi⟩ : ArrIter))))).heap,
    ((MergedIter.ops (ArrIter.ops bytewise) bytewise).step .prev
      ((MergedIter.ops (ArrIter.ops bytewise) bytewise).step .last
        (MergedIter.new (MergedExample.Ls.map fun L => (⟨L, .soi⟩ : ArrIter))))).heap) = ([3, 1], [1, 3]) := by
  decide

/-- **Ties: the heap is not stable.**  Three children each holding the same key (values `0,1,2` name the
child): the real code shows child `0`, then `2`, then `1` going forwards — and, coming back from the end with
`Prev` (`Last` rebuilds a max-heap: again `[0,1,2]`), the same order `0, 2, 1`, not its mirror image.  The
abstract `MergedIter` (first least element in bag order) would show `0, 1, 2`: with duplicate keys — excluded
by the contract of `NewMergedIterator` — the refinement theorems above do not hold, and the differential
walks with duplicate keys (`it new hmerged`) can only be answered by the heap model. -/
def tieLs : List (List Entry) := [[⟨⟨[1], 5⟩, [0]⟩], [⟨⟨[1], 5⟩, [1]⟩], [⟨⟨[1], 5⟩, [2]⟩]]

theorem tie_order_example :
    ((HeapMerged.ops (ArrIter.ops bytewise) bytewise).run (MergedIter.new (tieLs.map fun L => (⟨L, .soi⟩ : ArrIter)))
        [.first, .next, .next, .next, .prev, .prev, .prev, .prev]).map (·.map (·.val))
      = [some [0], some [2], some [1], none, some [0], some [2], some [1], none]
    ∧ ((MergedIter.ops (ArrIter.ops bytewise) bytewise).run (MergedIter.new (tieLs.map fun L => (⟨L, .soi⟩ : ArrIter)))
        [.first, .next, .next, .next]).map (·.map (·.val))
      = [some [0], some [1], some [2], none] := by decide

/-- with a tie a direction change loses / repeats entries (real behaviour, reproduced by the heap model):
two children `[k]`, `[k]`: `First` shows child 0; `Prev` re-seeks child 1 to `k` and steps it back, so the
iterator falls off the front although child 1's `k` was never shown; `Next` then shows child 0's `k` again
and only then child 1's. -/
example : ((HeapMerged.ops (ArrIter.ops bytewise) bytewise).run
      (MergedIter.new ((tieLs.take 2).map fun L => (⟨L, .soi⟩ : ArrIter)))
      [.first, .prev, .next, .next, .next, .prev, .next]).map (·.map (·.val))
    = [some [0], none, some [0], some [1], none, some [0], some [1]] := by decide

/-- **The whole stack with the real heap.**  As `stack_refines_cursor`, with the raw iterator being the
heap-based merged iterator: `DBIter` over it answers every call sequence like the cursor over the visible
pairs of the sorted union. -/
theorem stack_heap_refines_cursor {c : UCmp} (hl : LawfulUCmp c) (specs : List NodeSpec)
    (hok : ∀ sp ∈ specs, sp.OK c) (U : List Entry) (hU : MergeOK c (specs.map (·.list)) U)
    (hk : ∀ e ∈ U, e.kind ≤ Gen.keyTypeVal) (seq fuel : Nat) (hfuel : U.length < fuel)
    (cs : List (Call Bytes)) :
    DBIter.run (HeapMerged.ops (Node.ops c) c) c
        (DBIter.new (MergedIter.new (specs.map (·.fresh))) seq fuel) cs
      = Cursor.run (visible c U seq) (geUser c) .soi cs := by
  have hsim := HeapMerged.sim hl (Node.ops c) (stackRs c specs) (specs.map (·.list)) U hU
    (stack_children_sim hl specs hok)
  exact run_rel hsim hl hU.sortedU hk cs
    ⟨rfl, hfuel, rfl, ⟨_, stack_rel_new c specs U, HeapMerged.hrel_new c _⟩⟩

example : DBIter.run (HeapMerged.ops (Node.ops bytewise) bytewise) bytewise
      (DBIter.new (MergedIter.new (exSpecs.map (·.fresh))) 7 10) exCalls
    = Cursor.run (visible bytewise exEs 7) (geUser bytewise) .soi exCalls := by decide

def theorems : List String :=
  ["GoLevel.C02.dbiter_refines_cursor", "GoLevel.C02.visible_sorted", "GoLevel.C02.visible_iff_view",
   "GoLevel.C02.dbiter_range_refines_cursor", "GoLevel.C02.merged_refines_cursor",
   "GoLevel.C02.indexed_refines_cursor", "GoLevel.C02.stack_refines_cursor",
   "GoLevel.C02.level_iter_is_range_filter", "GoLevel.C02.stack_range_refines_cursor",
   "GoLevel.C02.db_iterator_presents_view", "GoLevel.C02.forward_walk_enumerates",
   "GoLevel.C02.backward_walk_enumerates", "GoLevel.C02.seek_lands_on_first_ge",
   "GoLevel.C02.only_live_pairs_surface", "GoLevel.C02.stack_only_live_pairs_surface",
   "GoLevel.C02.stack_forward_walk_enumerates", "GoLevel.C02.index_less_strict_weak_order",
   "GoLevel.C02.heap_init_establishes_invariant", "GoLevel.C02.heap_push_preserves_invariant",
   "GoLevel.C02.heap_pop_returns_minimum", "GoLevel.C02.merged_heap_refines_abstract",
   "GoLevel.C02.merged_heap_refines_cursor", "GoLevel.C02.stack_heap_refines_cursor"]
  -- h. the error paths (`Props/C02Err.lean`)
  ++ errTheorems

end GoLevel.C02
