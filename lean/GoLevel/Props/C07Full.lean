import GoLevel.Proofs.SessionCheck
import GoLevel.Proofs.SessionApply
import GoLevel.Proofs.TableRemove
/-! # C07 — file deletion, full message histories and the producers

Closes the gaps left by `Props/C07.lean` (which assumes consecutive version ids, set-exact deltas, no abandon,
no close):

* **message level** (`ReachF`, environment `EnvStepF` in `Proofs/RefLoopFWf.lean`): version ids with holes
  (`abandon` at any point), deltas that are exact as a NET effect (a trivial move lists a table on both sides),
  the empty delta of `session.recover` (the loop's view `L` of the recovered version is empty although its task
  lists tables `T`), the shutdown messages of `session.close` (`ref` of the closing version, `rel` of the
  current version without a delta), reader releases during and after that, and FILE NUMBER REUSE: "a table
  that left the version never comes back" is only required relative to versions that still matter (`GL`);
  `NoReuse` is needed for "removed exactly once" only.
* **producer level** (`Model/Session.lean`, `Session.Reachable`): sequences of session operations — recover,
  create, commit ok, commit failed (+abandon), reader pin / unpin, close, timer — over the LSM model's versions
  (`Version.apply`); consecutive ids and exact duplicate-free deltas are LEMMAS (`producer_…` below), the
  hypotheses left are about what `Version.apply` does to table numbers and where numbers come from
  (`Session.EditFacts`, `Session.OpOK`).
* **physical removal** (`Model/TableRemove.lean`): `no_remove_of_reused_number`. -/
namespace GoLevel.C07
open GoLevel GoLevel.RefLoop GoLevel.Session

/-- The loop driven by the full environment: state, ghost history, every removal request. -/
inductive ReachF : State → EnvF → List Nat → Prop
  | init : ReachF State.init EnvF.init []
  | step {S S' : State} {G G' : EnvF} {R rm : List Nat} {m : Msg} :
      ReachF S G R → EnvStepF S.next G m G' → RefLoop.step S m = some (S', rm) → ReachF S' G' (R ++ rm)

theorem reachF_ok {S : State} {G : EnvF} {R : List Nat} (h : ReachF S G R) : LoopOK S G R := by
  induction h with
  | init => exact loopOK_init
  | @step S S' G G' R rm m _ hs hstep ih =>
    obtain ⟨S2, rm2, e, ok, _, _⟩ := loop_step ih hs
    rw [e] at hstep
    simp only [Option.some.injEq, Prod.mk.injEq] at hstep
    obtain ⟨rfl, rfl⟩ := hstep
    exact ok

/-- **no_premature_delete, every message.**  Whatever the environment sends next — a reference or release
task, a delta (exact as a net effect), the id of a failed commit (`abandon`), the closing version's reference
or the final release of `session.close` — the loop does not panic, and every table it hands to `tOps.remove`
belongs to no version that is unreleased (a live reader, the current version) nor, until `close`, to a released
version whose task the loop has not passed yet. -/
theorem no_premature_delete_msgs {S : State} {G G' : EnvF} {R : List Nat} {m : Msg}
    (h : ReachF S G R) (hs : EnvStepF S.next G m G') :
    ∃ S' rm, RefLoop.step S m = some (S', rm) ∧
      (∀ f ∈ rm, ∀ k, G'.inst k → k ∉ G'.rel → f ∉ G'.T k) ∧ SafeF G' S'.next rm := by
  obtain ⟨S', rm, e, _, _, sf⟩ := loop_step (reachF_ok h) hs
  exact ⟨S', rm, e, fun f hf k hk hr => sf f hf k hk (Or.inl hr), sf⟩

/-- No table number is requested twice — until `close`, and as long as no number names two tables. -/
theorem removed_at_most_once_msgs {S : State} {G : EnvF} {R : List Nat} (h : ReachF S G R)
    (hc : G.closing = false) (hnu : NoReuse G) : R.Nodup := by
  refine List.nodup_iff_count.mpr (fun f => ?_)
  have hH := (reachF_ok h).hist hc hnu f
  by_cases hcz : AccF S G f ∧ S.fileRef.count f = 0
  · rw [hH.1 hcz]; exact Nat.le_refl _
  · rw [hH.2 hcz]; exact Nat.zero_le _

theorem reachF_settled {S : State} {G : EnvF} {R : List Nat} (h : ReachF S G R) : Settled S := by
  cases h with
  | init => exact ⟨rfl, by simp [State.init]⟩
  | step _ _ e => exact step_settledF e

/-- **eventual_delete, every message history.**  Before `close`, when no delta is pending and every installed
version below the current one (`G.dn`) has been released — failed commits and their abandoned ids, trivial
moves, a recovery in between or not —: the loop has caught up (`next` reached the current version), the
counters cover the loop's view of the current version (`L`, which IS the version's table list except between
`session.recover` and the first commit) and nothing outside its tables; and, if no file number was used for two
tables, every table of an older version that is not in the current one has been requested for removal exactly
once. -/
theorem eventual_delete_msgs {S : State} {G : EnvF} {R : List Nat} (h : ReachF S G R)
    (hN : 0 < G.N) (hc : G.closing = false) (hcur : G.N ≤ G.up (G.dn + 1))
    (hrel : ∀ k, k < G.dn → G.inst k → k ∈ G.rel) :
    G.dn ≤ S.next ∧ (∀ f, f ∈ G.L G.dn → f ∈ S.fileRef) ∧ (∀ f, f ∈ S.fileRef → f ∈ G.T G.dn) ∧
    (NoReuse G → ∀ f k, k < G.dn → f ∈ G.T k → f ∉ G.T G.dn → R.count f = 1) := by
  have ok := reachF_ok h
  obtain ⟨h1, h2, h3⟩ := quiescentF ok.inv (reachF_settled h) hN hcur hrel
  refine ⟨h1, h2, h3, fun hnu f k hk hfk hcurf => ?_⟩
  refine ((ok.hist hc hnu) f).1 ⟨Or.inl ⟨k, by omega, hfk⟩, ?_⟩
  rw [List.count_eq_zero]; exact fun hm => hcurf (h3 f hm)

/-- Non-vacuity at the message level: the state after `newSession`'s reference task is reachable (and the
session-level examples at the end of the file are message histories with abandons, holes and the shutdown
messages, via `reachable_sim`). -/
example : ∃ S G, ReachF S G [] ∧ G.N = 1 ∧ S.ref.lookup 0 = some [] := by
  have hs : EnvStepF State.init.next EnvF.init (.ref EnvF.init.N []) (EnvF.init.push (.inst [] [] ⟨[], []⟩)) :=
    EnvStepF.ref EnvF.init [] [] ⟨[], []⟩ rfl List.nodup_nil List.nodup_nil (fun _ h => h) (fun _ => rfl)
      (fun h => by simp [EnvF.init, EnvF.N] at h) (fun f hf => by cases hf) (fun f hf => by cases hf)
  have e : RefLoop.step State.init (.ref 0 []) =
      some ({ State.init with ref := [(0, [])] }, []) := by decide
  exact ⟨_, _, ReachF.step ReachF.init hs e, rfl, rfl⟩

/-! ## the producers -/

/-- **The delta is duplicate-free** (the D13 repair, `Gen.setVersionAddedOnce`): whatever the record lists. -/
theorem producer_added_once (r : Edit) : (mkDelta r).added.Nodup := nodup_dedup _

/-- **The delta of a commit is exact** (as a net effect; given what `Version.apply` does to the numbers). -/
theorem producer_delta_exact {v : Version} {c : UCmp} {r : Edit} {U : List Nat} (h : EditFacts v c r U)
    (hU : ∀ f ∈ v.nums, f ∈ U) : NetExact v.nums (mkDelta r) (v.apply c r).nums := netExact_commit h hU

/-- **The first commit after a recovery** (`newManifest(r, nv)` fills the record with every table of the new
version): its delta lists each table of the new version once and is exact relative to the empty view. -/
theorem producer_first_delta_exact {v : Version} {c : UCmp} {r : Edit} {U : List Nat} (h : EditFacts v c r U)
    (hdel : r.deleted = []) : NetExact [] (mkDelta (fillRecord r (v.apply c r))) (v.apply c r).nums :=
  netExact_first h hdel

/-- **Version ids are consecutive with known holes.**  In every reachable state the loop's ghost history has
exactly one slot per id handed out (`ntVersionID`; one more for the closing version), each either an installed
version or the abandoned id of a failed commit, and the loop is in step with it (`Sim`). -/
theorem producer_ids {y : Sys} {U : List Nat} (h : Reachable y U) :
    ∃ G, Sim y G U ∧ G.N = y.sess.nt + (if y.sess.closed then 1 else 0) ∧
      ∀ k, k < G.N → (G.inst k ∨ (y.loop.next ≤ k → k ∈ y.loop.abandoned)) := by
  obtain ⟨G, hs⟩ := reachable_sim h
  refine ⟨G, hs, hs.nt, fun k hk => ?_⟩
  by_cases hi : G.inst k
  · exact Or.inl hi
  · exact Or.inr (fun hle => (hs.ok.inv.ab.2 k).mpr ⟨hle, hk, hi⟩)

/-- **What `Version.apply` does to the table numbers is a lemma too** (`EditFacts`, the hypothesis of
`OpOK` for a commit): in a reachable state the current version lists each table once and its numbers are in use,
so only the hypotheses about the record itself remain (`RecordHyp`: each deleted table at the level it names,
numbers listed once, a new table's number not in use unless the record moves the table). -/
theorem producer_edit_facts {y : Sys} {U : List Nat} (h : Reachable y U) (hc : y.sess.closed = false)
    {r : Edit} (hr : RecordHyp y.sess.lsm r U) (c : UCmp) : EditFacts y.sess.lsm c r U := by
  obtain ⟨G, hs⟩ := reachable_sim h
  obtain ⟨hdn, _⟩ := hs.cur hc
  have hGc : G.closing = false := by rw [hs.closing]; exact hc
  have hdi : G.inst y.sess.cur := by
    rw [← hdn]; rcases hs.ok.inv.wf.dn with h1 | h1
    · have := hs.N_pos; omega
    · exact h1
  have hnr : y.sess.cur ∉ G.rel := fun hm => by
    rcases (hs.ok.inv.wf.rel _ hm).2 with h1 | ⟨h1, _⟩
    · omega
    · rw [hGc] at h1; cases h1
  refine editFacts_of_record ⟨?_, hr.delAt, hr.dnd, hr.and_, hr.fresh, ?_⟩ c
  · rw [hs.lsm hc]; exact hs.ok.inv.wf.nodupT _
  · intro f hf
    rw [hs.lsm hc] at hf
    exact hs.used hc _ hdi (Or.inl hnr) f hf

/-! ## sequences of session operations -/

/-- **no_premature_delete_full.**  In any state reached by session operations (recover, create, commit ok,
commit failed + abandon, reader pin / unpin, close, timer; `OpOK` = what `Version.apply` does to table numbers
and where numbers come from), any enabled operation makes the loop neither panic nor request the removal of a
table of a version object that anybody still holds afterwards — a reader's pin, or the session's current
version — including every step of the shutdown (`close`, and reader releases delivered or dropped after it). -/
theorem no_premature_delete_full {y : Sys} {U : List Nat} {o : Op} (h : Reachable y U)
    (hok : OpOK y.sess U o) (hen : (y.sess.op o).isSome) :
    ∃ y' rm, y.step o = some (y', rm) ∧ Reachable y' (nextUsed U y.sess o rm) ∧
      ∀ f ∈ rm, ∀ v ∈ y'.sess.objs, f ∉ v.files := by
  obtain ⟨G, hs⟩ := reachable_sim h
  obtain ⟨y', rm, G', e, hs', sf⟩ := sim_sys_step hs hok hen
  exact ⟨y', rm, e, Reachable.step h hok e, safe_objs hs' sf⟩

/-- **eventual_delete_full.**  Before `close`, when no reader holds a version other than the current one: the
loop's counters name only tables of the current version, and — once a manifest exists, i.e. always except
between `recover` and the first commit — exactly those; and if no number was used for two tables, every table of
an older version that is not in the current one has been requested for removal exactly once. -/
theorem eventual_delete_full {y : Sys} {U : List Nat} (h : Reachable y U) (hc : y.sess.closed = false)
    (hq : ∀ o ∈ y.sess.objs, o.id = y.sess.cur) :
    (∀ f, f ∈ y.loop.fileRef → f ∈ y.sess.lsm.nums) ∧
    (y.sess.manifest = true → ∀ f, f ∈ y.sess.lsm.nums → f ∈ y.loop.fileRef) ∧
    ∃ G, Sim y G U ∧ (NoReuse G → ∀ f k, k < y.sess.cur → f ∈ G.T k → f ∉ y.sess.lsm.nums →
      y.requests.count f = 1) := by
  obtain ⟨G, hs⟩ := reachable_sim h
  obtain ⟨h1, h2, h3, h4⟩ := quiescent_sess hs (reachable_settled h) hc hq
  refine ⟨h3, h4, G, hs, fun hnu f k hk hfk hnot => ?_⟩
  obtain ⟨hdn, _⟩ := hs.cur hc
  have hGc : G.closing = false := by rw [hs.closing]; exact hc
  refine ((hs.ok.hist hGc hnu) f).1 ⟨Or.inl ⟨k, by omega, hfk⟩, ?_⟩
  rw [List.count_eq_zero]; exact fun hm => hnot (h3 f hm)

/-- The numbers in use cover every table of every held version (so `OpOK`'s "a new table gets a number that is
not in use" keeps new tables apart from the tables of held versions). -/
theorem used_covers_held {y : Sys} {U : List Nat} (h : Reachable y U) (hc : y.sess.closed = false) :
    ∀ v ∈ y.sess.objs, ∀ f ∈ v.files, f ∈ U := by
  obtain ⟨G, hs⟩ := reachable_sim h
  intro v hv f hf
  obtain ⟨h1, h2⟩ := hs.objs v hv
  rw [hs.files v hv] at hf
  exact hs.used hc v.id h1 (Or.inl h2) f hf

/-! ## shutdown (`session.close`) -/

/-- **What is processed and what is dropped.**  In every reachable state — in particular after `close`, when
release tasks may have been dropped (`<-closeC`) — the loop has processed every id below its frontier `next`;
the frontier is the oldest installed version whose release has not reached the loop (a reader still pinned it at
`close`, or its release was dropped; the closing version itself when there is none) and everything released
above it waits in `released` with its delta: those deltas are never applied, so the tables they delete stay on
storage until the sweep of the next `Open` (`startup_sweep`). -/
theorem shutdown_frontier {y : Sys} {U : List Nat} (h : Reachable y U) :
    ∃ G, Sim y G U ∧ (y.loop.next = G.N ∨ (G.inst y.loop.next ∧ y.loop.next ∉ G.rel)) ∧
      ∀ k ∈ G.rel, y.loop.next ≤ k → (y.loop.released.lookup k).isSome := by
  obtain ⟨G, hs⟩ := reachable_sim h
  obtain ⟨h1, h2⟩ := reachable_settled h
  have hI := hs.ok.inv
  refine ⟨G, hs, ?_, fun k hk hle => by rw [hI.rld k]; simp [hle, hk]⟩
  rcases Nat.lt_or_ge y.loop.next G.N with hlt | hge
  · right
    have hi : G.inst y.loop.next := by
      apply Classical.byContradiction; intro hi
      exact h2 ((hI.ab.2 _).mpr ⟨Nat.le_refl _, hlt, hi⟩)
    refine ⟨hi, fun hr => ?_⟩
    have := hI.rld y.loop.next
    rw [h1] at this; simp [hr] at this
  · left; have := hI.nx; omega

/-- `session.close` closes the table cache first, and a closed cache ignores `Delete` (extracted facts). -/
theorem code_close_order : Gen.closeTopsBeforeFinalSetVersion = true ∧ Gen.cacheDeleteClosedNoDelFunc = true := by
  decide

/-- **Nothing is removed from storage during shutdown**: once `tOps.close()` has run (before the closing version
is installed: `code_close_order`), no request of the reference loop and no handle release removes a file. -/
theorem shutdown_removes_nothing {s : TableRemove.St} {ops : List TableRemove.Op} (hc : s.closed = true)
    (h : TableRemove.Inv s) : (TableRemove.run true s ops).log = s.log ∧
      ∀ p ∈ s.files, p.1 ∈ (TableRemove.run true s ops).files.map (·.1) := by
  induction ops generalizing s with
  | nil => exact ⟨rfl, fun p hp => List.mem_map_of_mem hp⟩
  | cons o ops ih =>
    obtain ⟨h1, h2, h3⟩ := TableRemove.closed_removes_nothing h hc o
    obtain ⟨h4, h5⟩ := ih h2 (TableRemove.step_inv h o)
    refine ⟨by show (TableRemove.run true (TableRemove.step true s o) ops).log = _; rw [h4, h1], fun p hp => ?_⟩
    obtain ⟨q, hq, hqp⟩ := List.mem_map.mp (h3 p hp)
    have := h5 q hq
    rw [hqp] at this; exact this

/-! ## physical removal and file-number reuse -/

/-- `reuseFileNum` is called inside the func literal passed to `fileCache.Delete` in `tOps.remove`. -/
theorem code_reuse_in_callback : Gen.removeReusesInsideDelete = true := by decide

/-- **no_remove_of_reused_number.**  With the number given back only inside the delete callback, every physical
removal removes the very file the request was made for: a removal deferred behind open handles never deletes a
file created later under the same number.  The ordering fact used: `Remove` and `reuseFileNum` run together,
when the last handle is gone (`TableRemove.Inv.pend`: a pending removal still names its file, because its number
is below `next` and cannot be allocated again). -/
theorem no_remove_of_reused_number (n0 : Nat) (ops : List TableRemove.Op) :
    TableRemove.LogOK (TableRemove.run true (TableRemove.St.init n0) ops) :=
  (TableRemove.run_inv (TableRemove.inv_init n0) ops).log

theorem code_no_remove_of_reused_number (n0 : Nat) (ops : List TableRemove.Op) :
    TableRemove.LogOK (TableRemove.run Gen.removeReusesInsideDelete (TableRemove.St.init n0) ops) := by
  rw [code_reuse_in_callback]; exact no_remove_of_reused_number n0 ops

/-- **The seeded change** (`reuseFileNum` moved out of the callback): table 5 is created and opened by an
iterator, its removal is requested (deferred; the number is given back at once), the next table is created
under number 5 again, the iterator is released — and the callback removes the NEW file (stamp 1, requested 0). -/
theorem early_reuse_removes_new_file :
    (TableRemove.run false (TableRemove.St.init 5) [.create, .acquire 5, .remove 5, .create, .release 5]).log =
      [(5, 0, 1)] ∧
    (TableRemove.run true (TableRemove.St.init 5) [.create, .acquire 5, .remove 5, .create, .release 5]).log =
      [(5, 0, 0)] := by decide

/-! ## Non-vacuity: concrete session histories on which every hypothesis is checked (`checkedFromInit`) -/

private def tb (n : Nat) : Table := ⟨n, 1, [], ⟨[1], 257⟩, ⟨[1], 257⟩⟩
/-- a flush: table `n` is added to level 0 -/
private def addT (n : Nat) : Edit := ⟨[], [(0, tb n)]⟩
/-- a compaction: table `o` of level 0 is replaced by table `n` -/
private def replT (o n : Nat) : Edit := ⟨[(0, o)], [(0, tb n)]⟩
private def view (r : Option (Sys × List Nat)) :=
  r.map fun p => (p.1.requests, p.1.loop.fileRef, p.1.loop.next, p.1.sess.objs.map (fun o => (o.id, o.pins)))

/-- A history with an ABANDON: version 1 = {5}, the commit that spawned id 2 fails, version 3 = {6} replaces 5.
The loop skips id 2, requests table 5 and counts exactly {6}. -/
example : view (checkedFromInit [.create, .commit bytewise (addT 5), .commitFail bytewise (addT 9),
      .commit bytewise (replT 5 6)]) = some ([5], [6], 3, [(3, 0)]) := by decide

/-- … and it is a reachable state, so the theorems apply to it (`eventual_delete_full`: the counters are the
current version's tables). -/
example : ∃ y U, Reachable y U ∧ y.requests = [5] ∧ y.loop.abandoned = [] ∧ y.loop.next = 3 := by
  have h : (checkedFromInit [.create, .commit bytewise (addT 5), .commitFail bytewise (addT 9),
      .commit bytewise (replT 5 6)]).isSome = true := by decide
  obtain ⟨⟨y, U⟩, hy⟩ := Option.isSome_iff_exists.mp h
  refine ⟨y, U, checkedFromInit_reachable hy, ?_⟩
  have h2 : (checkedFromInit [.create, .commit bytewise (addT 5), .commitFail bytewise (addT 9),
      .commit bytewise (replT 5 6)]).map (fun p => (p.1.requests, p.1.loop.abandoned, p.1.loop.next)) =
      some ([5], [], 3) := by decide
  rw [hy] at h2
  simpa using h2

/-- A reader PINNED ACROSS 3 VERSIONS: it pins version 1 = {5}; versions 2 = {6}, 3 = {7}, 4 = {7, 8} follow
(their deltas delete 5 and 6).  Nothing is requested while the pin is held … -/
example : view (checkedFromInit [.create, .commit bytewise (addT 5), .pin, .commit bytewise (replT 5 6),
      .commit bytewise (replT 6 7), .commit bytewise (addT 8)]) =
    some ([], [5], 1, [(1, 1), (4, 0)]) := by decide

/-- … and tables 5 and 6 are requested, in order, when it is released. -/
example : view (checkedFromInit [.create, .commit bytewise (addT 5), .pin, .commit bytewise (replT 5 6),
      .commit bytewise (replT 6 7), .commit bytewise (addT 8), .unpin 1 true]) =
    some ([5, 6], [8, 7], 4, [(4, 0)]) := by decide

/-- CLOSE WITH A READER STILL PINNED: nothing is requested at `close` (tables 5 and 6, deleted by the deltas of
versions 1 and 2, stay: `shutdown_frontier` — the frontier is the pinned version 1) … -/
example : view (checkedFromInit [.create, .commit bytewise (addT 5), .pin, .commit bytewise (replT 5 6),
      .commit bytewise (replT 6 7), .close]) =
    some ([], [5], 1, [(1, 1), (4, 0)]) := by decide

/-- … if the reader's release is still delivered the loop requests them (the closed table cache ignores it:
`shutdown_removes_nothing`); if it is dropped (`<-closeC`) they are never requested. -/
example : view (checkedFromInit [.create, .commit bytewise (addT 5), .pin, .commit bytewise (replT 5 6),
      .commit bytewise (replT 6 7), .close, .unpin 1 true]) = some ([5, 6], [7], 4, [(4, 0)]) ∧
    view (checkedFromInit [.create, .commit bytewise (addT 5), .pin, .commit bytewise (replT 5 6),
      .commit bytewise (replT 6 7), .close, .unpin 1 false]) = some ([], [5], 1, [(4, 0)]) :=
  ⟨by decide, by decide⟩

/-- A trivial move (table 5 deleted from level 0 and added to level 1 by the same record: listed on both sides
of the delta) keeps the counter; the later compaction removes it. -/
example : view (checkedFromInit [.create, .commit bytewise (addT 5), .commit bytewise ⟨[(0, 5)], [(1, tb 5)]⟩,
      .commit bytewise ⟨[(1, 5)], []⟩]) = some ([5], [], 3, [(3, 0)]) := by decide

/-- **The loop requests the removal of LIVE tables at `close`.**  A session that only recovered (read-only open:
no commit follows `session.recover`, whose delta is empty, so the loop's view of version 1 is empty) and stayed
idle for `maxCachedTime` (its version task is converted to full references) releases version 1 at `close`:
the counter of table 3 — the only table of the database — drops to zero and `tOps.remove` is called for it.
Only `code_close_order` (the table cache is closed first and ignores the request) keeps the file. -/
theorem shutdown_requests_live_table :
    (checkedFromInit [.recover ⟨[[tb 3]]⟩, .expire 1, .close]).map (fun p => p.1.requests) = some [3] := by decide

/-- The producer model follows the code (extracted facts): `setVersion` lists each added table once (the `seen`
map), and only the commit that finds `s.manifest == nil` hands its own record to `newManifest` (a rotation
passes a fresh one). -/
theorem code_producer_facts : Gen.setVersionAddedOnce = true ∧ Gen.commitRotationFreshRecord = true := by decide

end GoLevel.C07
