import GoLevel.Proofs.DurableView
import GoLevel.Proofs.ManifestRead
import GoLevel.Proofs.Batch
/-!
# Property C04 — crash consistency

"If the process or machine dies at any instant - including during a flush, a compaction, a manifest switch
or a previous recovery - the DB opens again without error and contains every write and every committed
transaction that had been acknowledged with the sync option before the crash.  The recovered contents are
what some subset of the issued batches, applied in their original order, would produce: every batch is
entirely present or entirely absent and nothing that was never written appears.  The reopened DB is fully
usable and again satisfies all other properties."

Model: `Model/Disk.lean` (the storage contract at record granularity) and `Model/Durable.lean`
(`Dur.step`: the storage actions of the write path, `newMem`, memdb flush, table compaction, transactions,
`session.commit` with manifest rotation, crash, process exit and recovery itself, in the code's order;
`Dur.recoverR` = `Open`).

What is proved (`crash_consistent_core`, and `crash_consistent` = `crash_consistent_full`): for the whole
machine {write groups, buffer rotation, memdb flush, table compaction (concurrent with the writer and with
`newMem`), transactions (`OpenTransaction` … `Commit`/`Discard`, a committed transaction being a group
acknowledged with `Sync`), manifest rotation at any commit, crash / exit at any point, recovery with its own
flushes and commits — hence nested crashes}, with no injected storage fault, for a configuration `cfg.Good`
(the repaired code): every crash image of every reachable state opens, contains every group acknowledged with
`Sync` (and every synced group that was about to be acknowledged), consists of whole issued groups only, all of
them visible at the recovered sequence number, and the state after the crash is again a reachable state of the
machine (so the statement applies to the reopened DB and to crashes during recovery).  The invariant
(`Proofs/DurableInv.lean`) is decidable and is also run on random walks of the machine
(`Scratch/Explore.lean` in the work area: 4000 runs x 200 steps per configuration).

Negative results (explicit traces, `by decide`): removing the flushed journal before the edit is synced
loses an acknowledged write; a rotation that drops the journal/sequence numbers (D2 before its repair)
makes flushed data invisible; `SetMeta` before the manifest `Sync` makes the DB unopenable; a torn manifest
record whose scalar fields are kept (D22, the code as found) loses an acknowledged write; a crash between
the creation of the first manifest and the first `SetMeta` leaves a directory `Open` refuses (D12).
-/
namespace GoLevel.C04
open GoLevel GoLevel.Dur

/-! ## the bridge from bytes to records -/

/-- **A torn or zero-extended journal image reads back as a prefix of the records written** (tolerant reader,
    the default): cut at any byte offset it yields exactly the records that lie wholly before the cut, never
    an error; followed by any number of zero bytes it yields all records. -/
theorem image_reads_prefix (checksum : Bool) (rs : List Bytes) :
    (∀ n, ∃ j, (Journal.decode false checksum ((Journal.encode rs).take n)).records = rs.take j ∧
      (Journal.decode false checksum ((Journal.encode rs).take n)).final = .eof) ∧
    (∀ k, (Journal.decode false checksum (Journal.encode rs ++ List.replicate k 0)).records = rs ∧
      (Journal.decode false checksum (Journal.encode rs ++ List.replicate k 0)).final = .eof) := by
  refine ⟨fun n => ⟨_, (C12.decode_truncate_tolerant checksum rs n).1, (C12.decode_truncate_tolerant checksum rs n).2.1⟩,
    fun k => ⟨(C12.decode_zero_tail checksum rs k).1, (C12.decode_zero_tail checksum rs k).2.1⟩⟩

example : (Journal.decode false true ((Journal.encode [[1, 2, 3], [4, 5], [6]]).take 20)).records
    = [[1, 2, 3], [4, 5]] := by
  rw [(C12.decode_truncate_tolerant true _ 20).1]; decide

/-- The same for the reader `session.recover` uses on a manifest: its *complete* deliveries are a prefix of
    the records written. -/
theorem manifest_image_reads_prefix (rs : List Bytes) (n : Nat) :
    ∃ j, Manifest.completeOnes (Manifest.readRecords false ((Journal.encode rs).take n)).1 = rs.take j ∧
      (Manifest.readRecords false ((Journal.encode rs).take n)).2 = .eof := by
  obtain ⟨h1, h2⟩ := Manifest.readRecords_spec false ((Journal.encode rs).take n)
  refine ⟨Journal.fits 0 rs n, ?_, ?_⟩
  · rw [h1]; exact (C12.decode_truncate_tolerant true rs n).1
  · rw [h2]; exact (C12.decode_truncate_tolerant true rs n).2.1

/-- … and, with the repair of D22 (`failedRecordLeavesNoTrace`), an incomplete delivery (the leading chunks
    of a torn record) leaves the replay state of `session.recover` untouched. -/
theorem torn_manifest_record_no_trace (cfg : Cfg) (h : cfg.failedRecordLeavesNoTrace = true)
    (s : ReplayState) (payload : Bytes) :
    replayStep cfg false s payload false = .ok ⟨s.cur.resetLists, s.staging⟩ := by
  unfold replayStep
  have := Manifest.decodeInto_incomplete s.cur payload
  cases hd : Manifest.decodeInto s.cur payload false with
  | mk p e =>
    rw [hd] at this
    simp only at this
    subst this
    simp [h]

/-- whole batches come back whole: a journal payload written by `writeBatchesWithHeader` is decoded by
    `decodeBatchToMem` into exactly the entries of the group, or (sequence number below `db.seq`) into
    nothing at all -/
theorem group_all_or_nothing (seq expect : Nat) (rs : List Batch.Rec) (hs : seq < 2 ^ 64) (hn : rs.length < 2 ^ 32)
    (h : ∀ r ∈ rs, r.valid) :
    (expect ≤ seq → (Batch.decodeToMem (Batch.encode seq rs) expect).puts = Batch.entries seq rs) ∧
    (seq < expect → (Batch.decodeToMem (Batch.encode seq rs) expect).puts = []) := by
  refine ⟨fun he => ?_, fun he => ?_⟩
  · rw [Batch.decodeToMem_encode seq expect rs hs hn h he]
  · rw [Batch.decodeToMem_stale seq expect rs hs hn he]

/-! ## crash consistency of the core protocol -/

/-- the groups acknowledged with `Sync` -/
def ackedSync (s : St) : List Grp := Dur.ackedSync s.issued

/-- what the reopened DB must be, relative to the history `s.issued`: `sel` is the selection of groups it
    contains -/
structure Consistent (c : UCmp) (s : St) (r : RState) (sel : List Grp) : Prop where
  /-- a sub-list of the issued groups, in issue order … -/
  sub : sel.Sublist (issuedGrps s)
  /-- … that contains every group acknowledged with `Sync` … -/
  acked : ∀ g ∈ ackedSync s, g ∈ sel
  /-- … and is exactly what was recovered: whole groups, nothing else -/
  whole : ∀ g, g ∈ sel ↔ g ∈ r.grps
  /-- every recovered entry is visible at the recovered sequence number -/
  visible : ∀ e ∈ r.entries, e.seq ≤ r.seq
  /-- a reader of the reopened DB sees the newest entry among the selected groups -/
  reads : ∀ k, r.get c k = view c (sel.flatMap Grp.ents) k r.seq

theorem consistent_of_good {c : UCmp} (hl : LawfulUCmp c) {s : St} {r : RState}
    (hw : ∀ g ∈ issuedGrps s, g.wf) (hgood : GoodOpen (must s) (issuedGrps s) r) :
    ∃ sel, Consistent c s r sel := by
  have hwr : ∀ g ∈ r.grps, g.wf := fun g hg => hw g (hgood.only g hg)
  refine ⟨(issuedGrps s).filter (fun g => decide (g ∈ r.grps)), List.filter_sublist, ?_, ?_, ?_, ?_⟩
  · intro g hg
    have hm : g ∈ must s := by rw [must_eq]; exact List.mem_append_left _ hg
    simp only [List.mem_filter, decide_eq_true_eq]
    exact ⟨hgood.only g (hgood.has g hm), hgood.has g hm⟩
  · intro g
    simp only [List.mem_filter, decide_eq_true_eq]
    exact ⟨fun h => h.2, fun h => ⟨hgood.only g h, h⟩⟩
  · intro e he
    obtain ⟨g, hg, heg⟩ := List.mem_flatMap.1 he
    obtain ⟨_, h2, h3⟩ := ents_seq_range (hwr g hg) heg
    have := hgood.visible g hg
    rw [h3]; omega
  · intro k
    unfold RState.get RState.entries
    apply view_groups_congr hl hwr hgood.disj
    intro g
    simp only [List.mem_filter, decide_eq_true_eq]
    exact ⟨fun h => h.2, fun h => ⟨hgood.only g h, h⟩⟩

theorem run_append {cfg : Cfg} {sd sd' : St × Disk} {l l' : List Act} (h : run cfg sd l = some sd') :
    run cfg sd (l ++ l') = run cfg sd' l' := by
  induction l generalizing sd with
  | nil => simp only [run, Option.some.injEq] at h; subst h; rfl
  | cons a l ih =>
    obtain ⟨s0, d0⟩ := sd
    simp only [List.cons_append, run] at h ⊢
    cases hs : step cfg s0 d0 a with
    | none => rw [hs] at h; cases h
    | some sd1 => rw [hs] at h; simp only; exact ih h

/-- **C04 for the core sub-protocol.**  Every crash image `d'` of every state reachable without storage
    faults opens, and the reopened DB is consistent with the history; the crashed state is again reachable. -/
theorem crash_consistent_core {cfg : Cfg} (hg : cfg.Good) {s : St} {d : Disk} (hr : ReachableFF cfg (s, d))
    {d' : Disk} (hc : IsCrashImage d d') {c : UCmp} (hl : LawfulUCmp c) (hw : ∀ g ∈ issuedGrps s, g.wf) :
    ∃ r, recoverR cfg d' = .ok r ∧ (∃ sel, Consistent c s r sel) ∧ ReachableFF cfg (crashSt s, d') := by
  obtain ⟨ch, rfl⟩ := hc
  have hinv := inv_reachable hg hr
  obtain ⟨r, hrec, hgood⟩ := (hinv.disk.crash hg.noTrace ch).open_ok
  refine ⟨r, hrec, consistent_of_good hl hw hgood, ?_⟩
  obtain ⟨as, hff, hrun⟩ := hr
  refine ⟨as ++ [.crash ch], ?_, ?_⟩
  · intro a ha
    rcases List.mem_append.1 ha with h1 | h1
    · exact hff a h1
    · simp only [List.mem_singleton] at h1; subst h1; rfl
  · rw [run_append hrun]; rfl

/-- the same when the process merely exits (the OS keeps what was written) -/
theorem reopen_after_exit {cfg : Cfg} (hg : cfg.Good) {s : St} {d : Disk} (hr : ReachableFF cfg (s, d))
    {c : UCmp} (hl : LawfulUCmp c) (hw : ∀ g ∈ issuedGrps s, g.wf) :
    ∃ r, recoverR cfg d = .ok r ∧ ∃ sel, Consistent c s r sel := by
  have hinv := inv_reachable hg hr
  obtain ⟨r, hrec, hgood⟩ := hinv.disk.open_ok
  exact ⟨r, hrec, consistent_of_good hl hw hgood⟩

/-- The statement for the whole machine: as `crash_consistent_core`, for every state reachable by *any* run
    without an injected storage fault (`Act.noFault`), i.e. including table compactions (outputs synced; one
    edit that deletes the inputs and adds the output; deferred removal of the inputs) and transactions (table
    synced, one edit with `seqNum := tr.seq`, then publication and acknowledgement), a committed transaction
    being a group acknowledged with `Sync`. -/
def crash_consistent_full : Prop :=
  ∀ (cfg : Cfg), cfg.Good → ∀ (s : St) (d : Disk),
    (∃ as, (∀ a ∈ as, a.noFault = true) ∧ run cfg init as = some (s, d)) →
    ∀ d', IsCrashImage d d' → ∀ (c : UCmp), LawfulUCmp c → (∀ g ∈ issuedGrps s, g.wf) →
      ∃ r, recoverR cfg d' = .ok r ∧ ∃ sel, Consistent c s r sel

/-- … and it holds: the invariant covers every action of the machine. -/
theorem crash_consistent : crash_consistent_full := by
  intro cfg hg s d hr d' hi c hl hw
  obtain ⟨r, h1, h2, _⟩ := crash_consistent_core hg hr hi hl hw
  exact ⟨r, h1, h2⟩

/-! ## explicit runs: the theorem is not vacuous, and the ordering obligations are needed -/

/-- one write group: `Put("k", "v")` -/
def putKV : List Batch.Rec := [⟨1, [107], [118]⟩]

/-- a synced write, buffer rotation, and the flush of the frozen buffer up to and including the append of its
    edit to the manifest (not yet synced) -/
def flushUpToAppend : List Act :=
  [.wAppend putKV true .ok, .wSync .ok, .wApply, .wPublish, .wAck, .rotate .ok, .flushStart,
   .job false .ok, .job false .ok, .job false .ok, .job false .ok]

/-- the same with the commit rotating the manifest (`newManifest`), run to the end of the job -/
def flushWithRotation : List Act :=
  [.wAppend putKV true .ok, .wSync .ok, .wApply, .wPublish, .wAck, .rotate .ok, .flushStart,
   .job false .ok, .job false .ok, .job false .ok,
   .job true .ok,      -- append: create the new manifest
   .job false .ok,     -- rotWrite
   .job false .ok,     -- rotSync
   .job false .ok,     -- rotSetMeta
   .job false .ok,     -- rotRemove
   .job false .ok,     -- install
   .job false .ok, .job false .ok, .job false .ok, .job false .ok]   -- removals, done

/-- is some group acknowledged with `Sync` missing after a crash with choice `ch` (or does `Open` fail)? -/
def losesAcked (cfg : Cfg) (ch : CrashChoice) (as : List Act) : Option Bool :=
  (run cfg init as).map fun sd =>
    match recoverR cfg (crashWith ch sd.2) with
    | .ok r => (ackedSync sd.1).any fun g => !(r.grps.contains g)
    | .error _ => true

/-- what a reader of the DB reopened after the run (no crash) gets for key `"k"` -/
def readsK (cfg : Cfg) (as : List Act) : Option (Option Bytes) :=
  (run cfg init as).map fun sd =>
    match recoverR cfg sd.2 with
    | .ok r => r.get bytewise [107]
    | .error _ => none

/-- the error class `Open` fails with, if it fails -/
def openError (cfg : Cfg) (d : Disk) : Option ErrClass :=
  match recoverR cfg d with
  | .error e => some e
  | .ok _ => none

/-- the repaired protocol: the acknowledged write survives a crash right after the (unsynced) edit, whatever
    is lost … -/
example : losesAcked {} {} flushUpToAppend = some false := by decide
/-- … also when the edit survives as a torn record … -/
example : losesAcked {} { tornM := fun _ => true } flushUpToAppend = some false := by decide
/-- … and a reader of the reopened DB finds the value, also after a manifest rotation -/
example : readsK {} flushWithRotation = some (some [118]) := by decide

/-- a committed transaction followed by a flush and a compaction of the two tables -/
def trThenCompact : List Act :=
  [.trBegin, .trPut putKV, .trCommit,
   .job false .ok, .job false .ok, .job false .ok,                   -- the transaction's table
   .job false .ok, .job false .ok, .job false .ok,                   -- its edit, installed
   .job false .ok, .job false .ok, .job false .ok,                   -- (no removals), acknowledged
   .wAppend [⟨1, [108], [119]⟩] true .ok, .wSync .ok, .wApply, .wPublish, .wAck, .rotate .ok, .flushStart,
   .job false .ok, .job false .ok, .job false .ok, .job false .ok, .job false .ok, .job false .ok,
   .job false .ok, .job false .ok, .job false .ok, .job false .ok,   -- flush done
   .compactStart [3, 5],
   .job false .ok, .job false .ok, .job false .ok, .job false .ok, .job false .ok, .job false .ok,
   .job false .ok, .job false .ok]                                   -- the first input table is removed

/-- … the transaction and the write survive a crash in the middle of the removal of the compaction's inputs,
    and the transaction's value is read after reopening -/
example : losesAcked {} {} trThenCompact = some false := by decide
example : (run {} init trThenCompact).map (fun sd => (ackedSync sd.1).length) = some 2 := by decide
example : readsK {} trThenCompact = some (some [118]) := by decide
/-- … and a crash before the transaction's edit is synced loses it as a whole (it was not acknowledged) -/
example : (run {} init (trThenCompact.take 7)).map (fun sd =>
    match recoverR {} (crashWith {} sd.2) with
    | .ok r => r.grps.length
    | .error _ => 99) = some 0 := by decide

/-- **Negative 1.**  If the flushed journal is removed before the edit is synced, a crash that loses the edit
    loses the acknowledged write. -/
theorem early_journal_removal_loses_write :
    losesAcked { editSyncedBeforeJournalRemoval := false } {} (flushUpToAppend ++ [.job false .ok]) = some true := by
  decide

/-- **Negative 2 (D2 before its repair).**  A rotation that does not carry the commit's journal and sequence
    numbers leaves `seqNum` below the flushed entries: after a clean reopen the value is invisible. -/
theorem rotation_without_nums_hides_data :
    readsK { rotationCarriesNums := false } flushWithRotation = some none := by decide

/-- **Negative 3.**  `SetMeta` before the new manifest is synced: a crash leaves `CURRENT` pointing to an
    empty manifest and `Open` fails. -/
theorem setmeta_before_sync_fails_to_reopen :
    (run { manifestSyncedBeforeSetMeta := false } init
        (flushUpToAppend.take 10 ++ [.job true .ok, .job false .ok, .job false .ok])).map
      (fun sd => openError { manifestSyncedBeforeSetMeta := false } (crashWith {} sd.2)) =
      some (some .corrupted) := by decide

/-- **Negative 4 (D22, the code as found).**  The edit of the flush is torn by the crash; the streaming
    decoder of `session.recover` has kept its journal number: the frozen journal is skipped, the table is not
    in the version, the acknowledged write is gone. -/
theorem d22_torn_manifest_record_loses_write :
    losesAcked { failedRecordLeavesNoTrace := false } { tornM := fun _ => true } flushUpToAppend = some true := by
  decide

/-- **D12.**  A crash between the creation of the first manifest and the first `SetMeta`: files without
    `CURRENT`, which `Open` refuses although nothing was ever acknowledged. -/
theorem d12_creation_window :
    openError {} { current := none, manifests := [(1, ⟨[{ snapshot := true, jn := some 0, sq := some 0, nf := 2 }], []⟩)] }
      = some .corrupted := by decide

/-- The property theorems of this file (for the audit). -/
def theorems : List String :=
  ["GoLevel.C04.image_reads_prefix", "GoLevel.C04.manifest_image_reads_prefix",
   "GoLevel.C04.torn_manifest_record_no_trace", "GoLevel.C04.group_all_or_nothing",
   "GoLevel.C04.crash_consistent_core", "GoLevel.C04.crash_consistent", "GoLevel.C04.reopen_after_exit",
   "GoLevel.C04.early_journal_removal_loses_write", "GoLevel.C04.rotation_without_nums_hides_data",
   "GoLevel.C04.setmeta_before_sync_fails_to_reopen", "GoLevel.C04.d22_torn_manifest_record_loses_write",
   "GoLevel.C04.d12_creation_window"]

end GoLevel.C04
