import GoLevel.Proofs.DurableView
import GoLevel.Proofs.ManifestRead
import GoLevel.Proofs.Batch
import GoLevel.Proofs.DurableBytesExample
import GoLevel.Proofs.DurableCreate
import GoLevel.Gen.Consts
/-!
# Property C04 — crash consistency

"If the process or machine dies at any instant - including during a flush, a compaction, a manifest switch
or a previous recovery - the DB opens again without error and contains every write and every committed
transaction that had been acknowledged with the sync option before the crash.  The recovered contents are
what some subset of the issued batches, applied in their original order, would produce: every batch is
entirely present or entirely absent and nothing that was never written appears.  The reopened DB is fully
usable and again satisfies all other properties."

Model: `Model/Disk.lean` (the storage contract at record granularity) and `Model/Durable.lean`
(`Dur.step`: the storage actions of the write path, `newMem`, memdb flush, table compaction, transactions,
`session.commit` with manifest rotation, crash, process exit and recovery itself, in the code's order;
`Dur.recoverR` = `Open`).

What is proved (`crash_consistent_core`, and `crash_consistent` = `crash_consistent_full`): for the whole
machine {write groups, buffer rotation, memdb flush, table compaction (concurrent with the writer and with
`newMem`), transactions (`OpenTransaction` … `Commit`/`Discard`, a committed transaction being a group
acknowledged with `Sync`), manifest rotation at any commit, crash / exit at any point, recovery with its own
flushes and commits — hence nested crashes}, with no injected storage fault, for a configuration `cfg.Good`
(the repaired code): every crash image of every reachable state opens, contains every group acknowledged with
`Sync` (and every synced group that was about to be acknowledged), consists of whole issued groups only, all of
them visible at the recovered sequence number, and the state after the crash is again a reachable state of the
machine (so the statement applies to the reopened DB and to crashes during recovery).  The invariant
(`Proofs/DurableInv.lean`) is decidable and is also run on random walks of the machine
(`Scratch/Explore.lean` in the work area: 4000 runs x 200 steps per configuration).

The byte level, end to end (`Model/DurableBytes.lean`, last section of this file): the storage as byte strings with a
synced prefix per file (`ByteDisk`), `encodeDisk` (journals = `Journal.encode` of `Batch.encode`d groups, manifests =
`Journal.encode` of `sessionRecord.encode`d records, tables abstract), byte-level crash images (`crashWithB`: synced
prefix kept, unsynced tail cut at ANY byte, optional junk behind it) and `recoverBytes` (the real readers in the modes
`Open` uses, then `recoverR`; it is what the driver's `dur recover` runs on the real crash images of the harness).
`recoverBytes_encodeDisk` (round trip), `crash_image_decodes` (every byte-level crash image decodes to a record-level
crash image: the record that was cut is lost) and `crash_consistent_bytes` (C04 for byte-level crash images).
Side conditions, all explicit: the records are within the limits of the wire formats (`Disk.Encodable`,
`EncCtx.Valid`: 64-bit sequence numbers, 32-bit record counts, 63-bit file numbers, a deletion carries no value);
the junk behind the surviving bytes is `Dur.Silent` (the tolerant reader with checksums gets the same complete
records with and without it) — a theorem for no junk (`silent_nil`: every cut at every offset), for zeros after a cut
at a record boundary (`silent_zeros`), and for anything that ends in the block of the chunk that was cut provided the
chunk found there fails the reader's header/CRC test (`silent_rejected`, the hypothesis `¬ Accepts` of
`C12.decode_damage_partial`; false only against forged CRC32C).

Negative results (explicit traces, `by decide`): removing the flushed journal before the edit is synced
loses an acknowledged write; a rotation that drops the journal/sequence numbers (D2 before its repair)
makes flushed data invisible; `SetMeta` before the manifest `Sync` makes the DB unopenable; a torn manifest
record whose scalar fields are kept (D22, the code as found) loses an acknowledged write; a crash between
the creation of the first manifest and the first `SetMeta` leaves a directory `Open` refuses (D12, the code as
found: `Cfg.manifestsAloneAreNoDB = false`).

The creation of the DB is covered as well (`crash_consistent_created`, `crash_consistent_bytes_created`): the
runs of `Dur.bigStep` start on an empty storage, `Open` runs `session.create` (`Create`, record, `Sync`, `SetMeta`
of manifest 1) and goes on with `Dur.step` from `Dur.created`; a crash inside the creation leaves at most manifest
files without `CURRENT`, which the next `Open` takes for "no DB" (`Cfg.manifestsAloneAreNoDB`, commit 1dcbac1,
tied to the source by `code_creation_window_guard`) and creates the DB again.  `init_is_created`: the start state
`Dur.init` of the other theorems is what `openDB` reaches from `Dur.created`.
-/
namespace GoLevel.C04
open GoLevel GoLevel.Dur

/-! ## the bridge from bytes to records -/

/-- **A torn or zero-extended journal image reads back as a prefix of the records written** (tolerant reader,
    the default): cut at any byte offset it yields exactly the records that lie wholly before the cut, never
    an error; followed by any number of zero bytes it yields all records. -/
theorem image_reads_prefix (checksum : Bool) (rs : List Bytes) :
    (∀ n, ∃ j, (Journal.decode false checksum ((Journal.encode rs).take n)).records = rs.take j ∧
      (Journal.decode false checksum ((Journal.encode rs).take n)).final = .eof) ∧
    (∀ k, (Journal.decode false checksum (Journal.encode rs ++ List.replicate k 0)).records = rs ∧
      (Journal.decode false checksum (Journal.encode rs ++ List.replicate k 0)).final = .eof) := by
  refine ⟨fun n => ⟨_, (C12.decode_truncate_tolerant checksum rs n).1, (C12.decode_truncate_tolerant checksum rs n).2.1⟩,
    fun k => ⟨(C12.decode_zero_tail checksum rs k).1, (C12.decode_zero_tail checksum rs k).2.1⟩⟩

example : (Journal.decode false true ((Journal.encode [[1, 2, 3], [4, 5], [6]]).take 20)).records
    = [[1, 2, 3], [4, 5]] := by
  rw [(C12.decode_truncate_tolerant true _ 20).1]; decide

/-- The same for the reader `session.recover` uses on a manifest: its *complete* deliveries are a prefix of
    the records written. -/
theorem manifest_image_reads_prefix (rs : List Bytes) (n : Nat) :
    ∃ j, Manifest.completeOnes (Manifest.readRecords false ((Journal.encode rs).take n)).1 = rs.take j ∧
      (Manifest.readRecords false ((Journal.encode rs).take n)).2 = .eof := by
  obtain ⟨h1, h2⟩ := Manifest.readRecords_spec false ((Journal.encode rs).take n)
  refine ⟨Journal.fits 0 rs n, ?_, ?_⟩
  · rw [h1]; exact (C12.decode_truncate_tolerant true rs n).1
  · rw [h2]; exact (C12.decode_truncate_tolerant true rs n).2.1

/-- … and, with the repair of D22 (`failedRecordLeavesNoTrace`), an incomplete delivery (the leading chunks
    of a torn record) leaves the replay state of `session.recover` untouched. -/
theorem torn_manifest_record_no_trace (cfg : Cfg) (h : cfg.failedRecordLeavesNoTrace = true)
    (s : ReplayState) (payload : Bytes) :
    replayStep cfg false s payload false = .ok ⟨s.cur.resetLists, s.staging⟩ := by
  unfold replayStep
  have := Manifest.decodeInto_incomplete s.cur payload
  cases hd : Manifest.decodeInto s.cur payload false with
  | mk p e =>
    rw [hd] at this
    simp only at this
    subst this
    simp [h]

/-- whole batches come back whole: a journal payload written by `writeBatchesWithHeader` is decoded by
    `decodeBatchToMem` into exactly the entries of the group, or (sequence number below `db.seq`) into
    nothing at all -/
theorem group_all_or_nothing (seq expect : Nat) (rs : List Batch.Rec) (hs : seq < 2 ^ 64) (hn : rs.length < 2 ^ 32)
    (h : ∀ r ∈ rs, r.valid) :
    (expect ≤ seq → (Batch.decodeToMem (Batch.encode seq rs) expect).puts = Batch.entries seq rs) ∧
    (seq < expect → (Batch.decodeToMem (Batch.encode seq rs) expect).puts = []) := by
  refine ⟨fun he => ?_, fun he => ?_⟩
  · rw [Batch.decodeToMem_encode seq expect rs hs hn h he]
  · rw [Batch.decodeToMem_stale seq expect rs hs hn he]

/-! ## crash consistency of the core protocol -/

/-- the groups acknowledged with `Sync` -/
def ackedSync (s : St) : List Grp := Dur.ackedSync s.issued

/-- what the reopened DB must be, relative to the history `s.issued`: `sel` is the selection of groups it
    contains -/
structure Consistent (c : UCmp) (s : St) (r : RState) (sel : List Grp) : Prop where
  /-- a sub-list of the issued groups, in issue order … -/
  sub : sel.Sublist (issuedGrps s)
  /-- … that contains every group acknowledged with `Sync` … -/
  acked : ∀ g ∈ ackedSync s, g ∈ sel
  /-- … and is exactly what was recovered: whole groups, nothing else -/
  whole : ∀ g, g ∈ sel ↔ g ∈ r.grps
  /-- every recovered entry is visible at the recovered sequence number -/
  visible : ∀ e ∈ r.entries, e.seq ≤ r.seq
  /-- a reader of the reopened DB sees the newest entry among the selected groups -/
  reads : ∀ k, r.get c k = view c (sel.flatMap Grp.ents) k r.seq

theorem consistent_of_good {c : UCmp} (hl : LawfulUCmp c) {s : St} {r : RState}
    (hw : ∀ g ∈ issuedGrps s, g.wf) (hgood : GoodOpen (must s) (issuedGrps s) r) :
    ∃ sel, Consistent c s r sel := by
  have hwr : ∀ g ∈ r.grps, g.wf := fun g hg => hw g (hgood.only g hg)
  refine ⟨(issuedGrps s).filter (fun g => decide (g ∈ r.grps)), List.filter_sublist, ?_, ?_, ?_, ?_⟩
  · intro g hg
    have hm : g ∈ must s := by rw [must_eq]; exact List.mem_append_left _ hg
    simp only [List.mem_filter, decide_eq_true_eq]
    exact ⟨hgood.only g (hgood.has g hm), hgood.has g hm⟩
  · intro g
    simp only [List.mem_filter, decide_eq_true_eq]
    exact ⟨fun h => h.2, fun h => ⟨hgood.only g h, h⟩⟩
  · intro e he
    obtain ⟨g, hg, heg⟩ := List.mem_flatMap.1 he
    obtain ⟨_, h2, h3⟩ := ents_seq_range (hwr g hg) heg
    have := hgood.visible g hg
    rw [h3]; omega
  · intro k
    unfold RState.get RState.entries
    apply view_groups_congr hl hwr hgood.disj
    intro g
    simp only [List.mem_filter, decide_eq_true_eq]
    exact ⟨fun h => h.2, fun h => ⟨hgood.only g h, h⟩⟩

theorem run_append {cfg : Cfg} {sd sd' : St × Disk} {l l' : List Act} (h : run cfg sd l = some sd') :
    run cfg sd (l ++ l') = run cfg sd' l' := by
  induction l generalizing sd with
  | nil => simp only [run, Option.some.injEq] at h; subst h; rfl
  | cons a l ih =>
    obtain ⟨s0, d0⟩ := sd
    simp only [List.cons_append, run] at h ⊢
    cases hs : step cfg s0 d0 a with
    | none => rw [hs] at h; cases h
    | some sd1 => rw [hs] at h; simp only; exact ih h

/-- **C04 for the core sub-protocol.**  Every crash image `d'` of every state reachable without storage
    faults opens, and the reopened DB is consistent with the history; the crashed state is again reachable. -/
theorem crash_consistent_core {cfg : Cfg} (hg : cfg.Good) {s : St} {d : Disk} (hr : ReachableFF cfg (s, d))
    {d' : Disk} (hc : IsCrashImage d d') {c : UCmp} (hl : LawfulUCmp c) (hw : ∀ g ∈ issuedGrps s, g.wf) :
    ∃ r, recoverR cfg d' = .ok r ∧ (∃ sel, Consistent c s r sel) ∧ ReachableFF cfg (crashSt s, d') := by
  obtain ⟨ch, rfl⟩ := hc
  have hinv := inv_reachable hg hr
  obtain ⟨r, hrec, hgood⟩ := (hinv.disk.crash hg.noTrace ch).open_ok
  refine ⟨r, hrec, consistent_of_good hl hw hgood, ?_⟩
  obtain ⟨as, hff, hrun⟩ := hr
  refine ⟨as ++ [.crash ch], ?_, ?_⟩
  · intro a ha
    rcases List.mem_append.1 ha with h1 | h1
    · exact hff a h1
    · simp only [List.mem_singleton] at h1; subst h1; rfl
  · rw [run_append hrun]; rfl

/-- the same when the process merely exits (the OS keeps what was written) -/
theorem reopen_after_exit {cfg : Cfg} (hg : cfg.Good) {s : St} {d : Disk} (hr : ReachableFF cfg (s, d))
    {c : UCmp} (hl : LawfulUCmp c) (hw : ∀ g ∈ issuedGrps s, g.wf) :
    ∃ r, recoverR cfg d = .ok r ∧ ∃ sel, Consistent c s r sel := by
  have hinv := inv_reachable hg hr
  obtain ⟨r, hrec, hgood⟩ := hinv.disk.open_ok
  exact ⟨r, hrec, consistent_of_good hl hw hgood⟩

/-- The statement for the whole machine: as `crash_consistent_core`, for every state reachable by *any* run
    without an injected storage fault (`Act.noFault`), i.e. including table compactions (outputs synced; one
    edit that deletes the inputs and adds the output; deferred removal of the inputs) and transactions (table
    synced, one edit with `seqNum := tr.seq`, then publication and acknowledgement), a committed transaction
    being a group acknowledged with `Sync`. -/
def crash_consistent_full : Prop :=
  ∀ (cfg : Cfg), cfg.Good → ∀ (s : St) (d : Disk),
    (∃ as, (∀ a ∈ as, a.noFault = true) ∧ run cfg init as = some (s, d)) →
    ∀ d', IsCrashImage d d' → ∀ (c : UCmp), LawfulUCmp c → (∀ g ∈ issuedGrps s, g.wf) →
      ∃ r, recoverR cfg d' = .ok r ∧ ∃ sel, Consistent c s r sel

/-- … and it holds: the invariant covers every action of the machine. -/
theorem crash_consistent : crash_consistent_full := by
  intro cfg hg s d hr d' hi c hl hw
  obtain ⟨r, h1, h2, _⟩ := crash_consistent_core hg hr hi hl hw
  exact ⟨r, h1, h2⟩

/-! ## explicit runs: the theorem is not vacuous, and the ordering obligations are needed -/

/-- one write group: `Put("k", "v")` -/
def putKV : List Batch.Rec := [⟨1, [107], [118]⟩]

/-- a synced write, buffer rotation, and the flush of the frozen buffer up to and including the append of its
    edit to the manifest (not yet synced) -/
def flushUpToAppend : List Act :=
  [.wAppend putKV true .ok, .wSync .ok, .wApply, .wPublish, .wAck, .rotate .ok, .flushStart,
   .job false .ok, .job false .ok, .job false .ok, .job false .ok]

/-- the same with the commit rotating the manifest (`newManifest`), run to the end of the job -/
def flushWithRotation : List Act :=
  [.wAppend putKV true .ok, .wSync .ok, .wApply, .wPublish, .wAck, .rotate .ok, .flushStart,
   .job false .ok, .job false .ok, .job false .ok,
   .job true .ok,      -- append: create the new manifest
   .job false .ok,     -- rotWrite
   .job false .ok,     -- rotSync
   .job false .ok,     -- rotSetMeta
   .job false .ok,     -- rotRemove
   .job false .ok,     -- install
   .job false .ok, .job false .ok, .job false .ok, .job false .ok]   -- removals, done

/-- is some group acknowledged with `Sync` missing after a crash with choice `ch` (or does `Open` fail)? -/
def losesAcked (cfg : Cfg) (ch : CrashChoice) (as : List Act) : Option Bool :=
  (run cfg init as).map fun sd =>
    match recoverR cfg (crashWith ch sd.2) with
    | .ok r => (ackedSync sd.1).any fun g => !(r.grps.contains g)
    | .error _ => true

/-- what a reader of the DB reopened after the run (no crash) gets for key `"k"` -/
def readsK (cfg : Cfg) (as : List Act) : Option (Option Bytes) :=
  (run cfg init as).map fun sd =>
    match recoverR cfg sd.2 with
    | .ok r => r.get bytewise [107]
    | .error _ => none

/-- the error class `Open` fails with, if it fails -/
def openError (cfg : Cfg) (d : Disk) : Option ErrClass :=
  match recoverR cfg d with
  | .error e => some e
  | .ok _ => none

/-- the repaired protocol: the acknowledged write survives a crash right after the (unsynced) edit, whatever
    is lost … -/
example : losesAcked {} {} flushUpToAppend = some false := by decide
/-- … also when the edit survives as a torn record … -/
example : losesAcked {} { tornM := fun _ => true } flushUpToAppend = some false := by decide
/-- … and a reader of the reopened DB finds the value, also after a manifest rotation -/
example : readsK {} flushWithRotation = some (some [118]) := by decide

/-- a committed transaction followed by a flush and a compaction of the two tables -/
def trThenCompact : List Act :=
  [.trBegin, .trPut putKV, .trCommit,
   .job false .ok, .job false .ok, .job false .ok,                   -- the transaction's table
   .job false .ok, .job false .ok, .job false .ok,                   -- its edit, installed
   .job false .ok, .job false .ok, .job false .ok,                   -- (no removals), acknowledged
   .wAppend [⟨1, [108], [119]⟩] true .ok, .wSync .ok, .wApply, .wPublish, .wAck, .rotate .ok, .flushStart,
   .job false .ok, .job false .ok, .job false .ok, .job false .ok, .job false .ok, .job false .ok,
   .job false .ok, .job false .ok, .job false .ok, .job false .ok,   -- flush done
   .compactStart [3, 5],
   .job false .ok, .job false .ok, .job false .ok, .job false .ok, .job false .ok, .job false .ok,
   .job false .ok, .job false .ok]                                   -- the first input table is removed

/-- … the transaction and the write survive a crash in the middle of the removal of the compaction's inputs,
    and the transaction's value is read after reopening -/
example : losesAcked {} {} trThenCompact = some false := by decide
example : (run {} init trThenCompact).map (fun sd => (ackedSync sd.1).length) = some 2 := by decide
example : readsK {} trThenCompact = some (some [118]) := by decide
/-- … and a crash before the transaction's edit is synced loses it as a whole (it was not acknowledged) -/
example : (run {} init (trThenCompact.take 7)).map (fun sd =>
    match recoverR {} (crashWith {} sd.2) with
    | .ok r => r.grps.length
    | .error _ => 99) = some 0 := by decide

/-- **Negative 1.**  If the flushed journal is removed before the edit is synced, a crash that loses the edit
    loses the acknowledged write. -/
theorem early_journal_removal_loses_write :
    losesAcked { editSyncedBeforeJournalRemoval := false } {} (flushUpToAppend ++ [.job false .ok]) = some true := by
  decide

/-- **Negative 2 (D2 before its repair).**  A rotation that does not carry the commit's journal and sequence
    numbers leaves `seqNum` below the flushed entries: after a clean reopen the value is invisible. -/
theorem rotation_without_nums_hides_data :
    readsK { rotationCarriesNums := false } flushWithRotation = some none := by decide

/-- **Negative 3.**  `SetMeta` before the new manifest is synced: a crash leaves `CURRENT` pointing to an
    empty manifest and `Open` fails. -/
theorem setmeta_before_sync_fails_to_reopen :
    (run { manifestSyncedBeforeSetMeta := false } init
        (flushUpToAppend.take 10 ++ [.job true .ok, .job false .ok, .job false .ok])).map
      (fun sd => openError { manifestSyncedBeforeSetMeta := false } (crashWith {} sd.2)) =
      some (some .corrupted) := by decide

/-- **Negative 4 (D22, the code as found).**  The edit of the flush is torn by the crash; the streaming
    decoder of `session.recover` has kept its journal number: the frozen journal is skipped, the table is not
    in the version, the acknowledged write is gone. -/
theorem d22_torn_manifest_record_loses_write :
    losesAcked { failedRecordLeavesNoTrace := false } { tornM := fun _ => true } flushUpToAppend = some true := by
  decide

/-- **D12 (the code as found, `manifestsAloneAreNoDB = false`).**  A crash between the creation of the first
    manifest and the first `SetMeta`: files without `CURRENT`, which `Open` refuses although nothing was ever
    acknowledged — here as a run of the machine with the creation in front: `Create`, the record, `Sync`, crash;
    the next `Open` fails, and so does every later one (`bigStep` has no step). -/
theorem d12_creation_window :
    openError { manifestsAloneAreNoDB := false }
      { current := none, manifests := [(1, ⟨[{ snapshot := true, jn := some 0, sq := some 0, nf := 2 }], []⟩)] }
      = some .corrupted ∧
    (bigRun { manifestsAloneAreNoDB := false } init0 [.c .ok false, .c .ok false, .c .ok false, .ccrash {}]).map
      (fun b => (openError { manifestsAloneAreNoDB := false } b.disk,
                 (bigStep { manifestsAloneAreNoDB := false } b (.c .ok false)).isSome)) =
      some (some .corrupted, false) := by decide

/-- … repaired (commit 1dcbac1): the same storage is "no DB", `Open` creates it again -/
example : openError {} { current := none, manifests := [(1, ⟨[snap0], []⟩)] } = none := by decide
example : (bigRun {} init0 [.c .ok false, .c .ok false, .c .ok false, .ccrash {}, .c .ok false, .c .ok false,
    .c .ok false, .c .ok false]).map (fun b => decide (b.disk = created.2)) = some true := by decide

/-- the configuration the extractor reads off the source tree for the three flags repaired last -/
def codeCfg : Cfg :=
  { discardKeepsTablesWhenUncertain := Gen.discardGuardsUncertainManifest
    cleanupChecksCurrent := Gen.newManifestCleanupChecksCurrent
    cleanupKeepsWhenGetMetaFails := Gen.newManifestCleanupChecksCurrent
    manifestsAloneAreNoDB := Gen.recoverNoMetaNeedsData }

/-- the model follows the code in the tree: `session.recover` turns "not exist" into "corrupted" only when the
    storage holds a journal or a table (`tools/extract`: the error is raised inside
    `if jt, _ := s.stor.List(TypeJournal|TypeTable); !noMeta || len(jt) > 0`, `noMeta` from `GetMeta`'s error) -/
theorem code_creation_window_guard :
    codeCfg.manifestsAloneAreNoDB = true ∧ Gen.recoverNoMetaNeedsData = true ∧ codeCfg = {} := by decide

/-- the batch decoder of the model compares record lengths in ℕ, which is what `decodeBatch` does since the repair of
    D49 (`x > uint64(len(data)-o)`; before, `o+int(x)` wrapped for lengths of 2^63 and more and `Batch.Load`
    panicked or accepted a record of length -1), and a failed `Batch.decode` leaves an empty batch (D48; before, the
    records decoded so far stayed with the malformed buffer and a later `Write` put it into the journal).  Both facts
    are regenerated from the source; `Batch.Load` on mutated dumps incl. such lengths is compared with
    `Batch.decodeRecs` on every run (`dur bbody`). -/
theorem code_batch_decode_guards :
    Gen.batchLenCheckUnsigned = true ∧ Gen.batchDecodeClearsOnError = true ∧
    -- a record whose key length is 2^63 is rejected, whatever follows
    (∀ rest : Bytes, rest.length < 2 ^ 63 →
      Batch.decodeRec (1 :: ([0x80, 0x80, 0x80, 0x80, 0x80, 0x80, 0x80, 0x80, 0x80, 0x01] ++ rest)) = .error .badKeyLen) := by
  refine ⟨by decide, by decide, fun rest h => ?_⟩
  have hv : readUvarint ([0x80, 0x80, 0x80, 0x80, 0x80, 0x80, 0x80, 0x80, 0x80, 0x01] ++ rest) = some (2 ^ 63, 10) := by
    simp [readUvarint, readUvarintAux]
  simp only [Batch.decodeRec, hv]
  have hk : Gen.keyTypeVal = 1 := by decide
  have hl : rest.length < 9223372036854775808 := by simpa using h
  simp [hk, hl]

/-! ## the creation of the DB in front -/

/-- the start state of the theorems above is what `openDB` reaches after `session.create` -/
theorem init_is_created :
    run {} created ([.recStep] ++ List.replicate 8 (.job false .ok)) = some init := by decide

/-- **C04 from an empty storage.**  Every run of the machine with the creation of the DB in front
    (`Dur.bigStep`: `Open` on an empty storage runs `session.create`, crashes inside it included, then the DB's
    actions) without an injected storage fault ends in a state all of whose crash images open and are consistent
    with the history — while the DB is being created: they open as "no DB" (the next `Open` creates it), nothing
    has been issued. -/
theorem crash_consistent_created {cfg : Cfg} (hg : cfg.Good) (hc : cfg.manifestsAloneAreNoDB = true)
    {xs : List BAct} {b : Big}
    (hal : bigAllowed cfg (fun _ a => a.noFault) CPc.noFault init0 xs = true) (hr : bigRun cfg init0 xs = some b)
    {d' : Disk} (hi : IsCrashImage b.disk d') {c : UCmp} (hl : LawfulUCmp c) (hw : ∀ g ∈ issuedGrps b.st, g.wf) :
    ∃ r, recoverR cfg d' = .ok r ∧ ∃ sel, Consistent c b.st r sel := by
  obtain ⟨ch, rfl⟩ := hi
  have hinv : BigInv cfg b := by
    refine bigInv_run (fun s d a s' d' h hp hs => invL_step hg h hp hs) ?_ (bigInv_init0 cfg) xs hal hr
    intro pc o gm hq _ ho
    subst ho
    simp [CPc.noFault] at hq
  obtain ⟨r, hrec, hgood⟩ := hinv.open_ok hg.noTrace hc ch
  exact ⟨r, hrec, consistent_of_good hl hw hgood⟩

/-- a run through the creation with a crash after every one of its operations, then a write, a crash, the recovery -/
def createdWithCrashes : List BAct :=
  [.c .ok false, .ccrash {}, .c .ok false, .c .ok false, .ccrash { cutM := fun _ => 1 }, .c .ok false, .c .ok false,
   .c .ok false, .ccrash {}, .c .ok false, .c .ok false, .c .ok false, .c .ok false] ++
  (([Act.recStep] ++ List.replicate 8 (Act.job false .ok) ++
    [Act.wAppend putKV true .ok, Act.wSync .ok, Act.wApply, Act.wPublish, Act.wAck, Act.crash {}, Act.recOpen] :
    List Act).map BAct.a)

example : bigAllowed {} (fun _ a => a.noFault) CPc.noFault init0 createdWithCrashes = true := by decide
example : (bigRun {} init0 createdWithCrashes).map (fun b => (openError {} b.disk, b.st.phase)) =
    some (none, .recovering) := by decide
/-- every prefix: every crash image (nothing unsynced survives) opens -/
example : (List.range (createdWithCrashes.length + 1)).all (fun n =>
    ((bigRun {} init0 (createdWithCrashes.take n)).map fun b => openError {} (crashWith {} b.disk)) == some none) = true := by
  decide

/-! ## the byte level, end to end -/

/-- live tables, journals replayed, first sequence numbers of the recovered groups, `db.seq` -/
def summary : Except ErrClass RState → Option (List Nat × List Nat × List Nat × Nat)
  | .ok r => some (r.mv.live, r.replayed, r.grps.map (·.seq), r.seq)
  | .error _ => none

/-- **(a) Round trip.**  `Open` on the bytes the writers produced for a record-level disk is `Open` at record
    level (up to the ghost `sync` flag of the groups replayed from journals, which is not on the disk). -/
theorem recoverBytes_encodeDisk (cfg : Cfg) (hn : cfg.failedRecordLeavesNoTrace = true) (x : EncCtx) (hx : x.Valid)
    (d : Disk) (hd : d.Encodable) :
    recoverBytes cfg x.cmpName (encodeDisk x d) = (recoverR cfg d).map RState.onDisk := by
  unfold recoverBytes
  rw [manifestCheck_whole x hx d hd, decode_encodeDisk x hx d hd, recoverR_onDisk cfg hn]

example : recoverBytes {} exCtx.cmpName (encodeDisk exCtx exDisk) = (recoverR {} exDisk).map RState.onDisk :=
  recoverBytes_encodeDisk {} rfl exCtx exCtx_valid exDisk exDisk_encodable
/-- … which is: table 4 is live, journal 5 is replayed, all four groups are there -/
example : summary (recoverR {} exDisk) = some ([4], [5], [1, 2, 3, 5], 6) := by decide

/-- **(b) Simulation.**  Every byte-level crash image of the encoded disk — per file the synced bytes, any number of
    bytes of the unsynced tail, silent junk — decodes with the real readers to (the physical part of) a
    record-level crash image in the sense of `Model/Disk.lean`: the records wholly inside the surviving bytes
    survive, the record that was cut is lost, no manifest record is left torn. -/
theorem crash_image_decodes (x : EncCtx) (hx : x.Valid) (d : Disk) (hd : d.Encodable)
    (hm : d.manifests.Pairwise (fun p q => p.1 ≠ q.1)) (hj : d.journals.Pairwise (fun p q => p.1 ≠ q.1))
    {bd' : ByteDisk} (hi : IsByteCrashImage (encodeDisk x d) bd') :
    ∃ d', IsCrashImage d d' ∧ decodeDisk bd' = d'.onDisk ∧
      (bd'.current.bind (lookup bd'.manifests)).bind (fun f => manifestCheck x.cmpName f.all) = none := by
  obtain ⟨ch, ha, rfl⟩ := hi
  obtain ⟨ch', _, _, e⟩ := crash_image_decodes_aux x hx d hd hm hj ch ha
  exact ⟨crashWith ch' d, ⟨ch', rfl⟩, e, manifestCheck_image x hx d hd ch ha⟩

/-- one journal file with the number of surviving records explicit: `keptRecs` counts the unsynced records that
    lie wholly within the first `k` unsynced bytes -/
theorem journal_image_decodes (f : LogFile Grp) (hf : ∀ g ∈ f.all, g.Encodable) (k : Nat) (junk : Bytes)
    (hs : Silent ((encJournal f).kept k) junk) :
    decJournal (crashFile k junk (encJournal f)).all =
      (f.synced ++ f.unsynced.take (keptRecs (f.synced.map encGrpBytes) (f.unsynced.map encGrpBytes) k)).map
        Grp.onDisk := by
  rw [decJournal_image f hf k junk hs]; simp [crashLog, LogFile.all]

/-- … and one manifest file (without crash artefacts from earlier crashes) -/
theorem manifest_image_decodes (x : EncCtx) (hx : x.Valid) (f : LogFile MRec)
    (hf : ∀ r ∈ f.all, r.torn = false ∧ r.Encodable) (k : Nat) (junk : Bytes)
    (hs : Silent ((encManifest x f).kept k) junk) :
    decManifest (crashFile k junk (encManifest x f)).all =
      f.synced ++ f.unsynced.take (keptRecs (f.synced.map (encMRecBytes x)) (f.unsynced.map (encMRecBytes x)) k) := by
  rw [decManifest_image_notorn x hx f hf k junk hs]; simp [crashLog, LogFile.all]

/-! ### the side condition on junk -/

/-- no junk: every cut, at every byte offset, is covered -/
theorem silent_nil (base : Bytes) : Silent base [] := silent_nil_aux base

/-- zeros (a preallocated extent) behind a cut at a record boundary — in particular behind a tail that was kept
    or lost entirely -/
theorem silent_zeros (S U : List Bytes) (j z : Nat) :
    Silent ((encLog S U).kept (Journal.encodeFrom (Journal.endPos 0 S) (U.take j)).length) (List.replicate z 0) := by
  rw [kept_at_boundary]; exact silent_zeros_aux _ z

/-- junk that ends in the block of the chunk that was cut: `X` an intact prefix up to a chunk boundary
    (`Journal.Boundary`), `T0` what survives of the chunk starting there, `J` the junk; both `T0` and `T0 ++ J` are
    too short for a header or fail the reader's header/CRC test (`Dead`, i.e. `¬ Journal.Accepts` — the hypothesis
    of `C12.decode_damage_partial`; `C12.altered_payload_rejected` discharges it for single-byte changes). -/
theorem silent_rejected {rs done : List Bytes} {X : Bytes} {pos : Nat} {cur y : Option Bytes} {rest : List Bytes}
    (hB : Journal.Boundary rs done X pos cur y rest) (T0 J : Bytes) (h0 : Dead pos y T0) (h1 : Dead pos y (T0 ++ J)) :
    Silent (X ++ T0) J := silent_at_boundary_aux hB T0 J h0 h1

example : Silent (Journal.encode [[1, 2, 3]] ++ [9, 9, 9]) [] := silent_nil _
example : Silent ((encLog [[1, 2, 3]] [[4], [5, 6]]).kept 8) (List.replicate 50 0) := by
  have := silent_zeros [[1, 2, 3]] [[4], [5, 6]] 1 50
  have e : (Journal.encodeFrom (Journal.endPos 0 [[1, 2, 3]]) ([[4], [5, 6]].take 1)).length = 8 := by
    simp [Journal.encodeFrom, Journal.endPos, Journal.emitRecord, Journal.pad, Journal.emitChunks, Journal.chunk_length,
      Gen.journalBlockSize, Gen.journalHeaderSize]
  rwa [e] at this
set_option maxRecDepth 8000 in
/-- after the record `[1,2,3]`, three bytes of the next chunk header survive, followed by garbage `0xFF…`: the
    chunk type `0xFF` is invalid, the junk is silent -/
example : Silent (Journal.encode [[1, 2, 3]] ++ ((Journal.chunk 1 [4]).take 3)) (List.replicate 9 0xFF) := by
  have hB : Journal.Boundary [[1, 2, 3], [4]] [[1, 2, 3]] _ _ none none [[4]] :=
    Journal.Boundary.record [[1, 2, 3]] [4] [] rfl
  have hp : (Journal.pad (Journal.endPos 0 [[1, 2, 3]])).1 = [] := by decide
  have := silent_rejected hB ((Journal.chunk 1 [4]).take 3) (List.replicate 9 0xFF) (by decide) (by decide)
  rw [hp, List.append_nil] at this
  exact this

/-! ### C04 for byte-level crash images -/

/-- what the DB reopened from bytes must be, relative to the history: as `Consistent`, with group identity up to
    the `sync` flag (which is not on the disk) -/
structure ConsistentBytes (c : UCmp) (s : St) (rb : RState) (sel : List Grp) : Prop where
  sub : sel.Sublist (issuedGrps s)
  acked : ∀ g ∈ ackedSync s, g ∈ sel
  whole : ∀ g, g ∈ sel.map Grp.onDisk ↔ g ∈ rb.grps.map Grp.onDisk
  visible : ∀ e ∈ rb.entries, e.seq ≤ rb.seq
  reads : ∀ k, rb.get c k = view c (sel.flatMap Grp.ents) k rb.seq

theorem consistentBytes_of {c : UCmp} {s : St} {r : RState} {sel : List Grp} (h : Consistent c s r sel) :
    ConsistentBytes c s r.onDisk sel := by
  refine ⟨h.sub, h.acked, ?_, ?_, ?_⟩
  · intro g
    have e : r.onDisk.grps.map Grp.onDisk = r.grps.map Grp.onDisk := by
      simp [RState.grps, RState.onDisk, Grp.onDisk]
    rw [e]
    simp only [List.mem_map]
    exact ⟨fun ⟨a, ha, e⟩ => ⟨a, (h.whole a).1 ha, e⟩, fun ⟨a, ha, e⟩ => ⟨a, (h.whole a).2 ha, e⟩⟩
  · rw [RState.onDisk_entries]; exact h.visible
  · intro k; rw [RState.onDisk_get]; exact h.reads k

/-- **(c) C04, bytes.**  For every state of the machine reachable without storage faults, every BYTE-level crash
    image of its encoded disk (any cut per file, silent junk) opens — `recoverBytes`, i.e. the real readers followed
    by the record-level recovery, succeeds — and the reopened DB is consistent with the history: it is `r.onDisk`
    for an `r` that satisfies `Consistent` (every group acknowledged with `Sync` is there, whole issued groups
    only, everything visible, reads see the newest entry). -/
theorem crash_consistent_bytes {cfg : Cfg} (hg : cfg.Good) {s : St} {d : Disk} (hr : ReachableFF cfg (s, d))
    (x : EncCtx) (hx : x.Valid) (hd : d.Encodable) {bd' : ByteDisk} (hi : IsByteCrashImage (encodeDisk x d) bd')
    {c : UCmp} (hl : LawfulUCmp c) (hw : ∀ g ∈ issuedGrps s, g.wf) :
    ∃ r sel, recoverBytes cfg x.cmpName bd' = .ok r.onDisk ∧ Consistent c s r sel := by
  have hinv := inv_reachable hg hr
  obtain ⟨d', hc, e, hchk⟩ := crash_image_decodes x hx d hd hinv.disk.mnodup (sorted_nodup hinv.disk.jsorted) hi
  obtain ⟨r, hrec, ⟨sel, hsel⟩, _⟩ := crash_consistent_core hg hr hc hl hw
  refine ⟨r, sel, ?_, hsel⟩
  unfold recoverBytes
  rw [hchk, e, recoverR_onDisk cfg hg.noTrace, hrec]
  rfl

/-- … stated on the recovered byte-level state alone -/
theorem crash_consistent_bytes_reads {cfg : Cfg} (hg : cfg.Good) {s : St} {d : Disk} (hr : ReachableFF cfg (s, d))
    (x : EncCtx) (hx : x.Valid) (hd : d.Encodable) {bd' : ByteDisk} (hi : IsByteCrashImage (encodeDisk x d) bd')
    {c : UCmp} (hl : LawfulUCmp c) (hw : ∀ g ∈ issuedGrps s, g.wf) :
    ∃ rb sel, recoverBytes cfg x.cmpName bd' = .ok rb ∧ ConsistentBytes c s rb sel := by
  obtain ⟨r, sel, h1, h2⟩ := crash_consistent_bytes hg hr x hx hd hi hl hw
  exact ⟨r.onDisk, sel, h1, consistentBytes_of h2⟩

/-- **C04, bytes, from an empty storage**: `crash_consistent_bytes` for the machine with the creation of the DB in
    front — every byte-level crash image taken inside `session.create` opens as "no DB". -/
theorem crash_consistent_bytes_created {cfg : Cfg} (hg : cfg.Good) (hc : cfg.manifestsAloneAreNoDB = true)
    {xs : List BAct} {b : Big}
    (hal : bigAllowed cfg (fun _ a => a.noFault) CPc.noFault init0 xs = true) (hr : bigRun cfg init0 xs = some b)
    (x : EncCtx) (hx : x.Valid) (hd : b.disk.Encodable) {bd' : ByteDisk}
    (hi : IsByteCrashImage (encodeDisk x b.disk) bd')
    {c : UCmp} (hl : LawfulUCmp c) (hw : ∀ g ∈ issuedGrps b.st, g.wf) :
    ∃ r sel, recoverBytes cfg x.cmpName bd' = .ok r.onDisk ∧ Consistent c b.st r sel := by
  have hinv : BigInv cfg b := by
    refine bigInv_run (fun s d a s' d' h hp hs => invL_step hg h hp hs) ?_ (bigInv_init0 cfg) xs hal hr
    intro pc o gm hq _ ho
    subst ho
    simp [CPc.noFault] at hq
  have hnd : b.disk.manifests.Pairwise (fun p q => p.1 ≠ q.1) ∧ b.disk.journals.Pairwise (fun p q => p.1 ≠ q.1) := by
    cases b with
    | creating pc d =>
      obtain ⟨_, h2, _, h4⟩ := (hinv : CDisk pc d).toIdle
      refine ⟨?_, by show d.journals.Pairwise _; rw [h2]; exact List.Pairwise.nil⟩
      show d.manifests.Pairwise _
      rcases h4 with h4 | ⟨f, h4⟩ <;> rw [h4]
      · exact List.Pairwise.nil
      · exact List.pairwise_singleton _ _
    | db s d => exact ⟨(hinv : InvL cfg s d).1.disk.mnodup, sorted_nodup (hinv : InvL cfg s d).1.disk.jsorted⟩
  obtain ⟨d', ⟨ch, rfl⟩, e, hchk⟩ := crash_image_decodes x hx b.disk hd hnd.1 hnd.2 hi
  obtain ⟨r, hrec, hgood⟩ := hinv.open_ok hg.noTrace hc ch
  obtain ⟨sel, hsel⟩ := consistent_of_good hl hw hgood
  refine ⟨r, sel, ?_, hsel⟩
  unfold recoverBytes
  rw [hchk, e, recoverR_onDisk cfg hg.noTrace, hrec]
  rfl

/-! ### explicit byte-level crash images -/

/-- `exDisk` (manifest 1 with an unsynced edit, the frozen journal 3, the current journal 5 with one synced and two
    unsynced groups, table 4).  Crash: the manifest is cut after 10 of the 19 unsynced bytes — in the **payload** of
    the edit; journal 5 is cut after 30 of its 51 unsynced bytes — in the **header** of its last record. -/
def exCrash : ByteCrashChoice := { cutM := fun _ => 10, cutJ := fun _ => 30 }

theorem exCrash_admissible : exCrash.Admissible (encodeDisk exCtx exDisk) :=
  ⟨fun _ _ => silent_nil _, fun _ _ => silent_nil _⟩

/-- what the real readers make of that image: the edit is gone (no trace of it), journal 5 keeps its synced group
    and the first unsynced one -/
theorem exCrash_decodes : decodeDisk (crashWithB exCrash (encodeDisk exCtx exDisk)) =
    { current := some 1
      manifests := [(1, ⟨[mSnap, mFirst], []⟩)]
      journals := [(3, ⟨[gA.onDisk], []⟩), (5, ⟨[gB.onDisk, gC.onDisk], []⟩)]
      tables := [(4, ⟨[gA], true, false⟩)] } := by
  have hM := manifest_image_decodes exCtx exCtx_valid ⟨[mSnap, mFirst], [mFlush]⟩ (by decide) 10 [] (silent_nil _)
  have h3 := journal_image_decodes ⟨[gA], []⟩ (by decide) 30 [] (silent_nil _)
  have h5 := journal_image_decodes ⟨[gB], [gC, gD]⟩ (by decide) 30 [] (silent_nil _)
  simp only [kept_m1_10, kept_j3, kept_j5_30, List.take_zero, List.take_succ_cons, List.take_nil, List.append_nil,
    List.cons_append, List.nil_append, List.map_cons, List.map_nil] at hM h3 h5
  simp only [decodeDisk, crashWithB, encodeDisk, exDisk, exCrash, List.map_cons, List.map_nil, crashTable, if_true,
    hM, h3, h5]

/-- … and `Open` on it: the flush is undone (journal 3 is replayed again), the group whose record header was cut
    is gone as a whole, the three others — both synced ones among them — are there -/
example : summary (recoverBytes {} exCtx.cmpName (crashWithB exCrash (encodeDisk exCtx exDisk))) =
    some ([], [3, 5], [1, 2, 3], 5) := by
  unfold recoverBytes
  rw [manifestCheck_image exCtx exCtx_valid exDisk exDisk_encodable exCrash exCrash_admissible, exCrash_decodes]
  decide

/-- `bigDisk`: journal 2 holds a 40 KiB put (its record fills block 0 and continues in block 1) and a small one,
    nothing synced.  Cut **between the blocks** (32768 bytes survive: a whole first chunk, then end of file) or
    inside the header of the second chunk (32771): the reader drops the partial record ("missing chunk part"),
    the journal reads as empty. -/
example (k : Nat) (hk : k = 32768 ∨ k = 32771) :
    decJournal (crashFile k [] (encJournal ⟨[], [gBig, gD]⟩)).all = [] := by
  have h := journal_image_decodes ⟨[], [gBig, gD]⟩ (bigDisk_encodable.2 (2, ⟨[], [gBig, gD]⟩) (by simp [bigDisk])) k []
    (silent_nil _)
  have hk' := kept_big k (by omega)
  simp only [List.map_cons, List.map_nil] at h
  rw [h, hk']
  rfl

/-- … and the whole disk still opens as a record-level crash image -/
example : ∃ d', IsCrashImage bigDisk d' ∧
    decodeDisk (crashWithB { cutJ := fun _ => 32768 } (encodeDisk exCtx bigDisk)) = d'.onDisk := by
  obtain ⟨d', h1, h2, _⟩ := crash_image_decodes exCtx exCtx_valid bigDisk bigDisk_encodable (by decide) (by decide)
    ⟨{ cutJ := fun _ => 32768 }, ⟨fun _ _ => silent_nil _, fun _ _ => silent_nil _⟩, rfl⟩
  exact ⟨d', h1, h2⟩

/-- the run `flushUpToAppend` (a synced write, rotation, flush up to the unsynced edit) reaches a state whose disk
    is within the limits of the wire formats -/
theorem flushRun_ok : (run {} init flushUpToAppend).all
    (fun sd => decide (sd.2.Encodable ∧ ∀ g ∈ issuedGrps sd.1, g.wf)) = true ∧
    (run {} init flushUpToAppend).isSome = true := by decide

/-- `crash_consistent_bytes` on that state, the crash cutting every file after 5 of its unsynced bytes (the manifest
    in the header of the unsynced edit): the DB opens from the bytes and contains the acknowledged write -/
example (sd : St × Disk) (h : run {} init flushUpToAppend = some sd) :
    ∃ r sel, recoverBytes {} exCtx.cmpName
        (crashWithB { cutM := fun _ => 5, cutJ := fun _ => 5 } (encodeDisk exCtx sd.2)) = .ok r.onDisk ∧
      Consistent bytewise sd.1 r sel ∧ ⟨1, putKV, true⟩ ∈ sel := by
  have hall := flushRun_ok.1
  rw [h] at hall
  simp only [Option.all_some, decide_eq_true_eq] at hall
  obtain ⟨r, sel, h1, h2⟩ := crash_consistent_bytes ⟨rfl, rfl, rfl, rfl⟩ ⟨flushUpToAppend, by decide, h⟩ exCtx
    exCtx_valid hall.1 ⟨{ cutM := fun _ => 5, cutJ := fun _ => 5 }, ⟨fun _ _ => silent_nil _, fun _ _ => silent_nil _⟩, rfl⟩
    bytewise_lawful hall.2
  refine ⟨r, sel, h1, h2, h2.acked _ ?_⟩
  have : (run {} init flushUpToAppend).all (fun sd => decide ((⟨1, putKV, true⟩ : Grp) ∈ ackedSync sd.1)) = true := by
    decide
  rw [h] at this
  simpa using this

example (sd : St × Disk) (h : run {} init flushUpToAppend = some sd) (ch : ByteCrashChoice)
    (ha : ch.Admissible (encodeDisk exCtx sd.2)) :
    ∃ rb sel, recoverBytes {} exCtx.cmpName (crashWithB ch (encodeDisk exCtx sd.2)) = .ok rb ∧
      ConsistentBytes bytewise sd.1 rb sel := by
  have hall := flushRun_ok.1
  rw [h] at hall
  simp only [Option.all_some, decide_eq_true_eq] at hall
  exact crash_consistent_bytes_reads ⟨rfl, rfl, rfl, rfl⟩ ⟨flushUpToAppend, by decide, h⟩ exCtx exCtx_valid hall.1
    ⟨ch, ha, rfl⟩ bytewise_lawful hall.2

/-- The property theorems of this file (for the audit). -/
def theorems : List String :=
  ["GoLevel.C04.image_reads_prefix", "GoLevel.C04.manifest_image_reads_prefix",
   "GoLevel.C04.torn_manifest_record_no_trace", "GoLevel.C04.group_all_or_nothing",
   "GoLevel.C04.crash_consistent_core", "GoLevel.C04.crash_consistent", "GoLevel.C04.reopen_after_exit",
   "GoLevel.C04.early_journal_removal_loses_write", "GoLevel.C04.rotation_without_nums_hides_data",
   "GoLevel.C04.setmeta_before_sync_fails_to_reopen", "GoLevel.C04.d22_torn_manifest_record_loses_write",
   "GoLevel.C04.d12_creation_window", "GoLevel.C04.code_creation_window_guard", "GoLevel.C04.code_batch_decode_guards", "GoLevel.C04.init_is_created",
   "GoLevel.C04.crash_consistent_created", "GoLevel.C04.crash_consistent_bytes_created",
   "GoLevel.C04.recoverBytes_encodeDisk", "GoLevel.C04.crash_image_decodes", "GoLevel.C04.journal_image_decodes",
   "GoLevel.C04.manifest_image_decodes", "GoLevel.C04.silent_nil", "GoLevel.C04.silent_zeros",
   "GoLevel.C04.silent_rejected", "GoLevel.C04.crash_consistent_bytes", "GoLevel.C04.crash_consistent_bytes_reads"]

end GoLevel.C04
