import GoLevel.Proofs.LSMLookup
import GoLevel.Proofs.LSMSourcesB
/-!
# Property C01 — every Get returns what a plain map would

"Every Get returns what a plain map would: the value of the most recent write to the key (as of the
reader's sequence number), or not-found if the key was never written or its most recent write is a
deletion."

Model: `GoLevel/Model/LSM.lean` — `memGet` (`db.memGet`), `l0Get` / `levelGet` / `versionGet`
(`version.walkOverlapping` + `version.get`), `dbGet` (`DB.get`).  The plain map is `view`: the value of
`newest c es k s`, the entry of user key `k` with the largest sequence number `≤ s` among *all* entries
`es` of all sources.  Helper lemmas: `GoLevel/Proofs/LSMOrder.lean`, `GoLevel/Proofs/LSMLookup.lean`.

Hypotheses a trace validator has to check on the real code (they are exactly what the theorems need):
* buffers sorted under `icmp`, kinds ∈ {del, val};
* `Version.wfB`: every table sorted with exact `imin`/`imax`, levels ≥ 1 disjoint, shallower level newer
  per user key;
* source ordering: aux memdb ▸ mem ▸ frozen ▸ aux tables ▸ version, each newer per user key than
  everything searched later (`newerThanB`);
* within level 0 and within the aux tables no two entries share (user key, sequence number) — `UniqSeq`;
  this is what makes the `fseq >= zseq` rule well defined.
-/
namespace GoLevel.C01

/-! ## concrete instance used by the non-vacuity examples

user keys `[1]`, `[2]`, `[3]`; `[1]` is written at 1, overwritten at 5, deleted at 7; `[2]` is written at
2 and overwritten at 6; `[3]` written at 4 and, in the write buffer, at 8. -/

def e (k : UInt8) (seq kind : Nat) (v : UInt8) : Entry := ⟨mkIKey [k] seq kind, [v]⟩

def exT1 : Table := ⟨1, 10, [e 1 1 1 0xa0, e 2 2 1 0xb0], mkIKey [1] 1 1, mkIKey [2] 2 1⟩
def exT2 : Table := ⟨2, 10, [e 1 5 1 0xa1, e 3 4 1 0xc1], mkIKey [1] 5 1, mkIKey [3] 4 1⟩
def exT3 : Table := ⟨3, 10, [e 1 7 0 0, e 2 6 1 0xb2], mkIKey [1] 7 0, mkIKey [2] 6 1⟩
/-- level 0 = {T3, T2} (overlapping), level 1 = {T1} -/
def exV : Version := ⟨[[exT3, exT2], [exT1]]⟩
def exMem : List Entry := [e 3 8 1 0xc2]
def exAll : List Entry := dbEntries none [] exMem none exV

/-! ## 1. one buffer -/

/-- **`db.memGet`**: on a sorted buffer the result is `miss` exactly when the buffer holds no entry of user
key `k` with sequence number `≤ s`; otherwise it is the hit (value or deletion) of the newest such entry. -/
theorem memGet_spec {c : UCmp} (hl : LawfulUCmp c) (mem : List Entry) (hs : sortedB c mem = true)
    (hk : KindsOK mem) (k : Bytes) (s : Nat) :
    (memGet c mem k s = .miss ↔ ∀ x ∈ mem, ¬ (x.ukey = k ∧ x.seq ≤ s)) ∧
    (∀ x, newest c mem k s = some x → memGet c mem k s = x.hit ∧ IsNewestE c mem k s x) ∧
    memGet c mem k s = hitOf (newest c mem k s) := by
  have heq := memGet_eq hl mem ((sortedB_iff hl mem).1 hs) hk k s
  refine ⟨?_, ?_, heq⟩
  · rw [heq, hitOf_eq_miss_iff, newest_eq_none_iff]
    constructor
    · intro h x hx hm; exact h x hx ((matches_iff hl k s x).2 hm)
    · intro h x hx hm; exact h x hx ((matches_iff hl k s x).1 hm)
  · intro x hx
    exact ⟨by rw [heq, hx]; rfl, newest_isNewest c k s mem x hx⟩

example : memGet bytewise [e 1 7 0 0, e 1 5 1 0xa1, e 2 6 1 0xb2] [1] 6 = .value [0xa1] := by decide
example : memGet bytewise [e 1 7 0 0, e 1 5 1 0xa1, e 2 6 1 0xb2] [1] 9 = .deleted := by decide
example : memGet bytewise [e 1 7 0 0, e 1 5 1 0xa1, e 2 6 1 0xb2] [1] 4 = .miss := by decide
example : sortedB bytewise [e 1 7 0 0, e 1 5 1 0xa1, e 2 6 1 0xb2] = true
    ∧ KindsOK [e 1 7 0 0, e 1 5 1 0xa1, e 2 6 1 0xb2] := by decide

/-! ## 2. level 0 and auxiliary tables -/

/-- **level-0 rule** (`fseq >= zseq` over every table that `overlaps(ukey, ukey)`): the entry found is the
newest visible one over all tables.  The pre-filter is sound because `imin`/`imax` are exact. -/
theorem l0Get_spec {c : UCmp} (hl : LawfulUCmp c) (tables : Level) (hwf : ∀ t ∈ tables, t.wfB c = true)
    (hu : UniqSeq (Level.entries tables)) (k : Bytes) (s : Nat) :
    l0Get c tables k s = newest c (Level.entries tables) k s :=
  l0Get_eq hl tables hwf hu k s

example : (∀ t ∈ [exT3, exT2], t.wfB bytewise = true) ∧ UniqSeq (Level.entries [exT3, exT2]) := by decide
example : l0Get bytewise [exT3, exT2] [1] 9 = some (e 1 7 0 0) := by decide
example : l0Get bytewise [exT2, exT3] [1] 9 = some (e 1 7 0 0) := by decide
example : l0Get bytewise [exT3, exT2] [1] 6 = some (e 1 5 1 0xa1) := by decide
example : l0Get bytewise [exT3, exT2] [1] 4 = none := by decide

/-- without `UniqSeq` the rule is order dependent: two tables holding the same (key, seq) -/
example :
    let t1 : Table := ⟨1, 1, [e 1 5 1 0xa1], mkIKey [1] 5 1, mkIKey [1] 5 1⟩
    let t2 : Table := ⟨2, 1, [e 1 5 0 0], mkIKey [1] 5 0, mkIKey [1] 5 0⟩
    l0Get bytewise [t1, t2] [1] 9 ≠ l0Get bytewise [t2, t1] [1] 9 := by decide

/-! ## 3. levels ≥ 1 -/

/-- **level ≥ 1 rule** (`searchMax` by `imax`, the `imin` user-key test, one table seek) -/
theorem levelGet_spec {c : UCmp} (hl : LawfulUCmp c) (tables : Level) (hwf : ∀ t ∈ tables, t.wfB c = true)
    (hd : levelDisjointB c tables = true) (k : Bytes) (s : Nat) :
    levelGet c tables k s = newest c (Level.entries tables) k s :=
  levelGet_eq hl tables hwf hd k s

def exT4 : Table := ⟨4, 10, [e 3 3 1 0xc0, e 4 3 0 0], mkIKey [3] 3 1, mkIKey [4] 3 0⟩
example : (∀ t ∈ [exT1, exT4], t.wfB bytewise = true) ∧ levelDisjointB bytewise [exT1, exT4] = true := by
  decide
example : levelGet bytewise [exT1, exT4] [2] 9 = some (e 2 2 1 0xb0) := by decide
example : levelGet bytewise [exT1, exT4] [4] 9 = some (e 4 3 0 0) := by decide
example : levelGet bytewise [exT1, exT4] [2] 1 = none := by decide

/-- an overlapping "level ≥ 1" makes `searchMax` pick the wrong table: disjointness is needed -/
example : levelGet bytewise [exT2, exT3] [2] 9 = none ∧
    newest bytewise (Level.entries [exT2, exT3]) [2] 9 = some (e 2 6 1 0xb2) := by decide

/-! ## 4. the version and the DB -/

/-- **`version.get`** (auxiliary tables first, then level 0, then one table per deeper level) -/
theorem versionGet_spec {c : UCmp} (hl : LawfulUCmp c) (aux : Level) (v : Version)
    (hauxwf : ∀ t ∈ aux, t.wfB c = true) (hauxu : UniqSeq (Level.entries aux))
    (hwf : v.wfB c = true) (hu0 : UniqSeq (Level.entries (v.levels.headD [])))
    (hord : newerThanB c (Level.entries aux) v.entries = true) (k : Bytes) (s : Nat) :
    versionGet c aux v k s = hitOf (newest c (Level.entries aux ++ v.entries) k s) ∧
    (versionGet c aux v k s).toOption = view c (Level.entries aux ++ v.entries) k s := by
  have := versionGet_eq hl aux v hauxwf hauxu hwf hu0 ((newerThanB_iff hl _ _).1 hord) k s
  exact ⟨this, by rw [this, hitOf_toOption]⟩

example : exV.wfB bytewise = true ∧ UniqSeq (Level.entries (exV.levels.headD [])) := by decide
example : versionGet bytewise [] exV [1] 9 = .deleted := by decide
example : versionGet bytewise [] exV [1] 3 = .value [0xa0] := by decide
example : versionGet bytewise [] exV [2] 5 = .value [0xb0] := by decide

/-- the source-ordering and well-formedness hypotheses of `dbGet_spec`, Boolean where the model has a
checker -/
structure SourcesOK (c : UCmp) (auxm : Option (List Entry)) (aux : Level) (mem : List Entry)
    (frozen : Option (List Entry)) (v : Version) : Prop where
  auxm_sorted : sortedB c (auxm.getD []) = true
  auxm_kinds : KindsOK (auxm.getD [])
  mem_sorted : sortedB c mem = true
  mem_kinds : KindsOK mem
  frozen_sorted : sortedB c (frozen.getD []) = true
  frozen_kinds : KindsOK (frozen.getD [])
  aux_wf : ∀ t ∈ aux, t.wfB c = true
  aux_uniq : UniqSeq (Level.entries aux)
  wf : v.wfB c = true
  l0_uniq : UniqSeq (Level.entries (v.levels.headD []))
  /-- aux memdb newer than everything searched after it -/
  ord1 : newerThanB c (auxm.getD []) (mem ++ (frozen.getD [] ++ (Level.entries aux ++ v.entries))) = true
  /-- write buffer newer than frozen buffer, aux tables, version -/
  ord2 : newerThanB c mem (frozen.getD [] ++ (Level.entries aux ++ v.entries)) = true
  /-- frozen buffer newer than aux tables and version -/
  ord3 : newerThanB c (frozen.getD []) (Level.entries aux ++ v.entries) = true
  /-- aux tables newer than the version -/
  ord4 : newerThanB c (Level.entries aux) v.entries = true

/-- the Boolean checker run by the trace validator on every dumped state of the real DB (`lsm state`) implies
the hypotheses of `dbGet_spec` / `lookup_refines_view` for a DB without auxiliary sources -/
theorem sourcesOKB_sound {c : UCmp} {mem : List Entry} {frozen : Option (List Entry)} {v : Version}
    (h : sourcesOKB c mem frozen v = true) : SourcesOK c none [] mem frozen v := by
  simp only [sourcesOKB, Bool.and_eq_true, decide_eq_true_eq] at h
  obtain ⟨⟨⟨⟨⟨⟨⟨h1, h2⟩, h3⟩, h4⟩, h5⟩, h6⟩, h7⟩, h8⟩ := h
  exact
    { auxm_sorted := by simp [sortedB]
      auxm_kinds := by intro e he; simp at he
      mem_sorted := h1
      mem_kinds := h2
      frozen_sorted := h3
      frozen_kinds := h4
      aux_wf := by intro t ht; simp at ht
      aux_uniq := by intro a ha; simp [Level.entries] at ha
      wf := h5
      l0_uniq := h6
      ord1 := by simp [newerThanB]
      ord2 := by simpa [Level.entries] using h7
      ord3 := by simpa [Level.entries] using h8
      ord4 := by simp [newerThanB, Level.entries] }

example : sourcesOKB bytewise exMem none exV = true := by decide

/-- **`lookup_refines_view`** (`DB.get`): the lookup over aux memdb, write buffer, frozen buffer, aux
tables and the version returns what the plain map over all their entries returns. -/
theorem dbGet_spec {c : UCmp} (hl : LawfulUCmp c) (auxm : Option (List Entry)) (aux : Level)
    (mem : List Entry) (frozen : Option (List Entry)) (v : Version)
    (h : SourcesOK c auxm aux mem frozen v) (k : Bytes) (s : Nat) :
    dbGet c auxm aux mem frozen v k s = hitOf (newest c (dbEntries auxm aux mem frozen v) k s) ∧
    (dbGet c auxm aux mem frozen v k s).toOption = view c (dbEntries auxm aux mem frozen v) k s := by
  have := dbGet_eq hl auxm aux mem frozen v
    ⟨(sortedB_iff hl _).1 h.auxm_sorted, h.auxm_kinds⟩ ⟨(sortedB_iff hl _).1 h.mem_sorted, h.mem_kinds⟩
    ⟨(sortedB_iff hl _).1 h.frozen_sorted, h.frozen_kinds⟩ h.aux_wf h.aux_uniq h.wf h.l0_uniq
    ((newerThanB_iff hl _ _).1 h.ord1) ((newerThanB_iff hl _ _).1 h.ord2)
    ((newerThanB_iff hl _ _).1 h.ord3) ((newerThanB_iff hl _ _).1 h.ord4) k s
  exact ⟨this, by rw [this, hitOf_toOption]⟩

theorem lookup_refines_view {c : UCmp} (hl : LawfulUCmp c) (auxm : Option (List Entry)) (aux : Level)
    (mem : List Entry) (frozen : Option (List Entry)) (v : Version)
    (h : SourcesOK c auxm aux mem frozen v) (k : Bytes) (s : Nat) :
    (dbGet c auxm aux mem frozen v k s).toOption = view c (dbEntries auxm aux mem frozen v) k s :=
  (dbGet_spec hl auxm aux mem frozen v h k s).2

/-- `Has` is `Get` succeeding -/
theorem has_iff_get {c : UCmp} (hl : LawfulUCmp c) (auxm : Option (List Entry)) (aux : Level)
    (mem : List Entry) (frozen : Option (List Entry)) (v : Version)
    (h : SourcesOK c auxm aux mem frozen v) (k : Bytes) (s : Nat) :
    (dbGet c auxm aux mem frozen v k s).toOption.isSome = (view c (dbEntries auxm aux mem frozen v) k s).isSome := by
  rw [lookup_refines_view hl auxm aux mem frozen v h k s]

theorem exSourcesOK : SourcesOK bytewise none [] exMem none exV := by
  constructor <;> decide

example : dbGet bytewise none [] exMem none exV [1] 9 = .deleted := by decide
example : view bytewise exAll [1] 9 = none ∧ view bytewise exAll [1] 6 = some [0xa1]
    ∧ view bytewise exAll [1] 2 = some [0xa0] ∧ view bytewise exAll [1] 0 = none
    ∧ view bytewise exAll [2] 9 = some [0xb2] ∧ view bytewise exAll [3] 9 = some [0xc2]
    ∧ view bytewise exAll [3] 7 = some [0xc1] ∧ view bytewise exAll [4] 9 = none := by decide
example : (dbGet bytewise none [] exMem none exV [3] 9).toOption = some [0xc2] :=
  (lookup_refines_view bytewise_lawful none [] exMem none exV exSourcesOK [3] 9).trans (by decide)

/-- the source-ordering hypothesis is needed: a frozen buffer that is *newer* than the write buffer
(the two swapped) makes `DB.get` return the stale value -/
example :
    let mem := [e 1 3 1 0xa0]
    let frozen := some [e 1 5 1 0xa1]
    (dbGet bytewise none [] mem frozen ⟨[]⟩ [1] 9).toOption = some [0xa0] ∧
    view bytewise (dbEntries none [] mem frozen ⟨[]⟩) [1] 9 = some [0xa1] := by decide

end GoLevel.C01

def GoLevel.C01.theorems : List String :=
  ["GoLevel.C01.memGet_spec", "GoLevel.C01.l0Get_spec", "GoLevel.C01.levelGet_spec",
   "GoLevel.C01.versionGet_spec", "GoLevel.C01.dbGet_spec", "GoLevel.C01.lookup_refines_view",
   "GoLevel.C01.has_iff_get", "GoLevel.C01.sourcesOKB_sound"]
