import GoLevel.Proofs.Ownership
/-!
# Property C20: buffers crossing the API boundary are never shared

Model: `GoLevel/Model/Ownership.lean` — a heap of byte cells, the store maps a key to the cell holding its
value, the caller owns its argument buffers and whatever a call handed back, and may overwrite (`scribble`)
any cell it owns at any point of a program.  Which boundary paths copy is the configuration `Own.Cfg`;
`Own.codeCfg` is assembled from the regenerated facts `Gen.own*` (read off `Batch.appendRec`, `memdb.Put`,
`DB.get`, `table.Reader.find`, `dbIter.next/prev` by the extractor).

* `noninterference` — under a configuration where every path copies, for every program the outputs with
  arbitrary scribbling equal the outputs of the same program without it; `stored_unchanged` says the same of
  the final store.  `code_safe` ties this to the Go source, `code_noninterference` is the statement for the code.
* `args_not_retained`, `put_keeps_no_reference`, `results_private`, `iter_results_private` — the invariant
  behind it: no stored cell is caller-owned; the cell a read hands out is new.
* `alias_*_breaks` — each of the four copies is necessary: with just that one removed there is a short program
  on which scribbling changes a later result (`alias_table_get_breaks` is defect D9).
-/
namespace GoLevel.C20
open GoLevel

/-! ## noninterference -/

/-- for every program — any length, any interleaving of puts, flushes, gets, iterator reads and caller
scribbles over any buffer the caller owns (argument buffers, returned Get values, iterator values) — the values
returned are those of the same program with the scribbles removed -/
theorem noninterference : ∀ (c : Own.Cfg), c.safe = true → ∀ ops,
    Own.run c Own.State.init ops = Own.run c Own.State.init (Own.clean ops) :=
  fun c hc ops => Own.run_rel c hc ops _ _ Own.rel_init

/-- the regenerated tie: every boundary path of the Go code copies (removing a copy in the source flips a
`Gen.own*` fact and breaks this) -/
theorem code_safe : Own.codeCfg.safe = true := by decide

theorem code_noninterference (ops : List Own.Op) :
    Own.run Own.codeCfg Own.State.init ops = Own.run Own.codeCfg Own.State.init (Own.clean ops) :=
  noninterference Own.codeCfg code_safe ops

/-- the scribbles do not change what the DB stores either: at the end both runs bind every key to the same
cell and location, with the same contents -/
theorem stored_unchanged (c : Own.Cfg) (hc : c.safe = true) (ops : List Own.Op) (k : Bytes) :
    (Own.exec c Own.State.init ops).lookup k = (Own.exec c Own.State.init (Own.clean ops)).lookup k ∧
    ∀ cell loc, (Own.exec c Own.State.init ops).lookup k = some (cell, loc) →
      (Own.exec c Own.State.init ops).read cell = (Own.exec c Own.State.init (Own.clean ops)).read cell := by
  have h := Own.exec_rel c hc ops _ _ Own.rel_init
  exact ⟨(Own.rel_lookup h k).symm, fun cell loc hl => h.same cell (Own.lookup_mem hl)⟩

def exProg : List Own.Op :=
  [.put [1] [10, 11], .put [2] [20], .scribble 0 [99], .get [1], .flush, .get [2], .scribble 2 [77],
   .scribble 3 [88, 89], .get [1], .iterAt [2], .scribble 4 [66], .scribble 1 [], .get [2], .iterAt [1], .get [3]]

example : Own.run Own.codeCfg Own.State.init exProg = [[10, 11], [20], [10, 11], [20], [20], [10, 11], []] := by
  decide
example : Own.run Own.codeCfg Own.State.init (Own.clean exProg) =
    [[10, 11], [20], [10, 11], [20], [20], [10, 11], []] := by decide
example : (Own.clean exProg).length = 10 ∧ exProg.length = 15 := by decide
/-- the scribbles of `exProg` do hit live buffers: the heaps of the two runs differ -/
example : (Own.exec Own.codeCfg Own.State.init exProg).heap ≠
    (Own.exec Own.codeCfg Own.State.init (Own.clean exProg)).heap := by decide
example : (Own.exec Own.codeCfg Own.State.init exProg).lookup [1] = some (1, .table) ∧
    (Own.exec Own.codeCfg Own.State.init exProg).read 1 = [10, 11] := by decide

/-! ## the callee keeps no reference to an argument buffer -/

/-- in every reachable state of a safe configuration (scribbles included in "reachable") no cell holding a
stored value is owned by the caller: overwriting an argument buffer cannot change the store -/
theorem args_not_retained (c : Own.Cfg) (hc : c.safe = true) (ops : List Own.Op) :
    ∀ x ∈ (Own.exec c Own.State.init ops).storeCells, x ∉ (Own.exec c Own.State.init ops).owned :=
  (Own.inv_exec c hc ops _ Own.inv_init).disj

/-- `put k v` after any program: the argument buffer is the cell the caller newly owns; the key is bound to a
different cell, holding `v`, that the caller does not own -/
theorem put_keeps_no_reference (c : Own.Cfg) (hc : c.safe = true) (ops : List Own.Op) (k v : Bytes) :
    let s := Own.exec c Own.State.init ops
    let s' := (Own.step c s (.put k v)).1
    s'.owned = s.owned ++ [s.heap.length] ∧
    s'.lookup k = some (s.heap.length + 1, .mem) ∧
    s'.read (s.heap.length + 1) = v ∧
    s.heap.length + 1 ∉ s'.owned :=
  Own.put_copy_spec c (Own.safe_flags hc).1 (Own.inv_exec c hc ops _ Own.inv_init) k v

example : (Own.exec Own.codeCfg Own.State.init exProg).storeCells = [3, 1] ∧
    (Own.exec Own.codeCfg Own.State.init exProg).owned = [0, 2, 4, 5, 6, 7, 8, 9] := by decide

/-! ## what Get and an iterator hand out is private -/

/-- a `get` that finds the key, after any program of a safe configuration: the caller receives exactly one new
cell `r`; `r` is not a stored cell, was not owned before, differs from the stored cell, holds the stored bytes,
and store and stored bytes are as before -/
theorem results_private (c : Own.Cfg) (hc : c.safe = true) (ops : List Own.Op) (k : Bytes) (cell : Own.Cell)
    (loc : Own.Loc) (h : (Own.exec c Own.State.init ops).lookup k = some (cell, loc)) :
    let s := Own.exec c Own.State.init ops
    let s' := (Own.step c s (.get k)).1
    let r := s.heap.length
    s'.owned = s.owned ++ [r] ∧ s'.store = s.store ∧ r ∉ s'.storeCells ∧ r ∉ s.owned ∧ r ≠ cell ∧
      s'.read r = s.read cell ∧ s'.read cell = s.read cell ∧
      (Own.step c s (.get k)).2 = some (s.read cell) := by
  have hinv := Own.inv_exec c hc ops _ Own.inv_init
  have hf := Own.hand_copy_fresh hinv (Own.lookup_mem h)
  simp only [Own.step, h, Own.safe_getCopies hc, and_true]
  exact hf

/-- the same for the value an iterator exposes -/
theorem iter_results_private (c : Own.Cfg) (hc : c.safe = true) (ops : List Own.Op) (k : Bytes)
    (cell : Own.Cell) (loc : Own.Loc) (h : (Own.exec c Own.State.init ops).lookup k = some (cell, loc)) :
    let s := Own.exec c Own.State.init ops
    let s' := (Own.step c s (.iterAt k)).1
    let r := s.heap.length
    s'.owned = s.owned ++ [r] ∧ s'.store = s.store ∧ r ∉ s'.storeCells ∧ r ∉ s.owned ∧ r ≠ cell ∧
      s'.read r = s.read cell ∧ s'.read cell = s.read cell ∧
      (Own.step c s (.iterAt k)).2 = some (s.read cell) := by
  have hinv := Own.inv_exec c hc ops _ Own.inv_init
  have hf := Own.hand_copy_fresh hinv (Own.lookup_mem h)
  simp only [Own.step, h, (Own.safe_flags hc).2.2.2, and_true]
  exact hf

example : (Own.exec Own.codeCfg Own.State.init [.put [1] [10], .flush]).lookup [1] = some (1, .table) := by decide
example : (Own.step Own.codeCfg (Own.exec Own.codeCfg Own.State.init [.put [1] [10], .flush]) (.get [1])).1.owned
    = [0, 2] := by decide

/-! ## every one of the copies is needed -/

def noTableGetCopy : Own.Cfg := { putCopies := true, memGetCopies := true, tableGetCopies := false, iterCopies := true }
def noPutCopy : Own.Cfg := { putCopies := false, memGetCopies := true, tableGetCopies := true, iterCopies := true }
def noIterCopy : Own.Cfg := { putCopies := true, memGetCopies := true, tableGetCopies := true, iterCopies := false }
def noMemGetCopy : Own.Cfg := { putCopies := true, memGetCopies := false, tableGetCopies := true, iterCopies := true }

/-- defect D9 (`table.Reader.find` returned a slice of the cached block): the caller modifies the value a Get
returned (owned cell 1: cell 0 is its `put` argument) and the next Get of the same key returns the modification -/
theorem alias_table_get_breaks :
    Own.run noTableGetCopy Own.State.init [.put [1] [10], .flush, .get [1], .scribble 1 [66], .get [1]]
      = [[10], [66]] ∧
    Own.run noTableGetCopy Own.State.init
        (Own.clean [.put [1] [10], .flush, .get [1], .scribble 1 [66], .get [1]]) = [[10], [10]] ∧
    ¬ (∀ ops, Own.run noTableGetCopy Own.State.init ops = Own.run noTableGetCopy Own.State.init (Own.clean ops)) := by
  refine ⟨by decide, by decide, fun h => ?_⟩
  exact absurd (h [.put [1] [10], .flush, .get [1], .scribble 1 [66], .get [1]]) (by decide)

/-- if `Put` kept the caller's buffer, reusing that buffer (owned cell 0) after `Put` returned would change the
stored value -/
theorem alias_put_breaks :
    Own.run noPutCopy Own.State.init [.put [1] [10], .scribble 0 [66], .get [1]] = [[66]] ∧
    Own.run noPutCopy Own.State.init (Own.clean [.put [1] [10], .scribble 0 [66], .get [1]]) = [[10]] ∧
    ¬ (∀ ops, Own.run noPutCopy Own.State.init ops = Own.run noPutCopy Own.State.init (Own.clean ops)) := by
  refine ⟨by decide, by decide, fun h => ?_⟩
  exact absurd (h [.put [1] [10], .scribble 0 [66], .get [1]]) (by decide)

/-- if an iterator exposed the stored bytes themselves, writing into its Value() would change later reads -/
theorem alias_iter_breaks :
    Own.run noIterCopy Own.State.init [.put [1] [10], .iterAt [1], .scribble 1 [66], .get [1]] = [[10], [66]] ∧
    Own.run noIterCopy Own.State.init (Own.clean [.put [1] [10], .iterAt [1], .scribble 1 [66], .get [1]])
      = [[10], [10]] ∧
    ¬ (∀ ops, Own.run noIterCopy Own.State.init ops = Own.run noIterCopy Own.State.init (Own.clean ops)) := by
  refine ⟨by decide, by decide, fun h => ?_⟩
  exact absurd (h [.put [1] [10], .iterAt [1], .scribble 1 [66], .get [1]]) (by decide)

/-- if a Get served from the write buffer returned the memdb's bytes, modifying the result would change later reads -/
theorem alias_mem_get_breaks :
    Own.run noMemGetCopy Own.State.init [.put [1] [10], .get [1], .scribble 1 [66], .get [1]] = [[10], [66]] ∧
    Own.run noMemGetCopy Own.State.init (Own.clean [.put [1] [10], .get [1], .scribble 1 [66], .get [1]])
      = [[10], [10]] ∧
    ¬ (∀ ops, Own.run noMemGetCopy Own.State.init ops = Own.run noMemGetCopy Own.State.init (Own.clean ops)) := by
  refine ⟨by decide, by decide, fun h => ?_⟩
  exact absurd (h [.put [1] [10], .get [1], .scribble 1 [66], .get [1]]) (by decide)

/-- the configurations of the negative results differ from a safe one in exactly the named flag -/
example : noTableGetCopy.safe = false ∧ noPutCopy.safe = false ∧ noIterCopy.safe = false ∧
    noMemGetCopy.safe = false := by decide
/-- the D9 program is harmless for the code as it is now -/
example : Own.run Own.codeCfg Own.State.init [.put [1] [10], .flush, .get [1], .scribble 1 [66], .get [1]]
    = [[10], [10]] := by decide

end GoLevel.C20

namespace GoLevel
def C20.theorems : List String :=
  ["GoLevel.C20.noninterference", "GoLevel.C20.code_safe", "GoLevel.C20.code_noninterference",
   "GoLevel.C20.stored_unchanged", "GoLevel.C20.args_not_retained", "GoLevel.C20.put_keeps_no_reference",
   "GoLevel.C20.results_private", "GoLevel.C20.iter_results_private",
   "GoLevel.C20.alias_table_get_breaks", "GoLevel.C20.alias_put_breaks", "GoLevel.C20.alias_iter_breaks",
   "GoLevel.C20.alias_mem_get_breaks"]
end GoLevel

#print axioms GoLevel.C20.noninterference
#print axioms GoLevel.C20.code_safe
#print axioms GoLevel.C20.code_noninterference
#print axioms GoLevel.C20.stored_unchanged
#print axioms GoLevel.C20.args_not_retained
#print axioms GoLevel.C20.put_keeps_no_reference
#print axioms GoLevel.C20.results_private
#print axioms GoLevel.C20.iter_results_private
#print axioms GoLevel.C20.alias_table_get_breaks
#print axioms GoLevel.C20.alias_put_breaks
#print axioms GoLevel.C20.alias_iter_breaks
#print axioms GoLevel.C20.alias_mem_get_breaks
