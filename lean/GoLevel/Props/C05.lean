import GoLevel.Proofs.ConcShort
import GoLevel.Proofs.Key
import GoLevel.Proofs.ConcDriver
/-!
# Property C05 — linearizability of writes and reads on a shared DB (and C03 at this level)

"When many goroutines share one DB, every write batch takes effect atomically at a single instant between
its call and its return, in an order consistent with real time, and every Get, snapshot and iterator
observes the state at a single instant between its own call and return.  Hence no reader ever sees part
of a batch, or a client's later write without its earlier ones, or an older state after a newer one, and a
write that has returned is visible to every read that starts afterwards - whether or not writes were
merged, and while flushes, compactions and transactions run."

Model: `GoLevel/Model/Conc.lean` — an interleaving system whose atomic steps are the critical sections of
`db_write.go` (`writeLocked`), `db_state.go` (`newMem`, `getMems`, `dropFrozenMem`), `db.go` (`DB.get`),
`db_snapshot.go`, `db_compaction.go` (`memCompaction`, `tableCompaction`), `db_iter.go`,
`db_transaction.go`.  Any number of readers, snapshots and writers (the write lock serialises write
groups; a group may be inserted in several pieces before it is published), one flush, one table
compaction and one transaction in flight at any time, any interleaving.

The specification state is `σ.hist` (ghost): the list of all entries ever inserted by a writer or committed
by a transaction.  The linearization point of a write group / transaction commit is the step that
changes `σ.pub` (`db.addSeq` / `db.setSeq`; `seqSkip` and `trDiscard` also move `pub`, over numbers that no
entry carries); the linearization point of a `Get`/iterator/snapshot is the
step that reads `db.seq` (`rSeq`, `snapAcquire`).  "Reads `view c σ.hist k s`" = sees exactly the writes
published up to position `s`, all of them.

`Reachable Cfg.real c σ` = `σ` is reachable from the empty DB by steps of the real system.
Everything is for an arbitrary user comparer `c` (no lawfulness is needed at this level).
-/
namespace GoLevel.C05

open GoLevel.Conc

variable {c : UCmp}

/-! ## concrete runs used by the non-vacuity examples -/

def ent (k : UInt8) (s kt : Nat) (v : UInt8) : Entry := ⟨mkIKey [k] s kt, [v]⟩

/-- two batches published as one group, a snapshot, a reader (an iterator) that pins its triple around a
rotation, a flush committed but the frozen buffer not yet dropped, a table compaction in flight, a second
group (merged from two batches) inserted piecewise, a second reader that starts after it was published -/
def exTrace : List Action :=
  [.writeInsert [ent 1 1 1 10, ent 2 2 1 20], .publish, .snapAcquire,
   .rNew, .rSeq 0, .rotate, .rMems 0,
   .writeInsert [ent 1 3 0 0], .writeInsert [ent 3 4 1 30],
   .flushInstall, .compStart, .rNew, .publish,
   .rSeq 1, .rVer 0, .rLookup 0 [1], .rMems 1]

def exState : State := (run Cfg.real bytewise init exTrace).getD init

theorem exState_run : run Cfg.real bytewise init exTrace = some exState := by decide

theorem exState_reachable : Reachable Cfg.real bytewise exState :=
  steps_of_run exTrace init exState (by decide) exState_run

/-- it goes on: the flush finishes, the compaction commits, reader 1 finishes, the iterator (reader 0)
releases its registration and is used again, a snapshot read -/
def exTrace2 : List Action :=
  [.flushDrop, .compCommit [ent 1 1 1 10, ent 2 2 1 20], .rVer 1, .rLookup 1 [1], .rLookup 1 [3],
   .rRelease 0, .rotate, .flushInstall, .flushDrop, .rLookup 0 [3], .rLookup 0 [2],
   .rNew, .rSeqSnap 2 1, .rMems 2, .rVer 2, .rLookup 2 [1], .snapRelease 1]

def exState2 : State := (run Cfg.real bytewise exState exTrace2).getD init

theorem exState2_run : run Cfg.real bytewise exState exTrace2 = some exState2 := by decide

/-- the one semantic guard of `exTrace2` (a compaction that rewrites the tables without dropping anything) -/
theorem exState2_steps : Steps Cfg.real bytewise exState exState2 := by
  have h1 : run Cfg.real bytewise exState [.flushDrop] =
      some ((run Cfg.real bytewise exState [.flushDrop]).getD init) := by decide
  have s1 := steps_of_run (c := bytewise) [.flushDrop] exState _ (by decide) h1
  have h2 : step Cfg.real bytewise ((run Cfg.real bytewise exState [.flushDrop]).getD init)
      (.compCommit [ent 1 1 1 10, ent 2 2 1 20]) =
      some ((run Cfg.real bytewise exState [.flushDrop, .compCommit [ent 1 1 1 10, ent 2 2 1 20]]).getD init) := by
    decide
  have s2 : Step Cfg.real bytewise _ _ _ := ⟨h2, by
    intro m _ k s _
    have : ((run Cfg.real bytewise exState [.flushDrop]).getD init).tabs = [ent 1 1 1 10, ent 2 2 1 20] := by
      decide
    rw [this]⟩
  have h3 : run Cfg.real bytewise
      ((run Cfg.real bytewise exState [.flushDrop, .compCommit [ent 1 1 1 10, ent 2 2 1 20]]).getD init)
      (exTrace2.drop 2) = some exState2 := by decide
  have s3 := steps_of_run (c := bytewise) (exTrace2.drop 2) _ exState2 (by decide) h3
  exact Steps.trans (Steps.tail _ s1 s2) s3

theorem exState2_reachable : Reachable Cfg.real bytewise exState2 :=
  Steps.trans exState_reachable exState2_steps

/-- what the runs look like -/
example : exState.pub = 4 ∧ exState.frozen = some 0 ∧ exState.flushed = true ∧ exState.comp = some 2
    ∧ exState.floor = 2 ∧ exState.readers.length = 2
    ∧ exState.readers.map (·.seq?) = [some 2, some 4]
    ∧ exState.readers.map (·.results) = [[([1], some [10])], []]
    ∧ exState.groups.map (fun g => (g.lo, g.hi)) = [(2, 4), (0, 2)] := by decide

example : exState2.readers.map (·.results) =
    [[([1], some [10]), ([3], none), ([2], some [20])], [([1], none), ([3], some [30])], [([1], some [10])]] := by
  decide


/-! ## 1. publication only moves forward; what is published stays -/

/-- Along any execution `pub` (= `db.seq`) never decreases, the history only grows, nothing is ever added
to the history at or below a position that was already published, and so the state "as of `s`" is the
same for ever once `s ≤ pub`. -/
theorem pub_monotone {σ σ' : State} (h : Reachable Cfg.real c σ) (hs : Steps Cfg.real c σ σ') :
    σ.pub ≤ σ'.pub
    ∧ (∀ e ∈ σ.hist, e ∈ σ'.hist)
    ∧ (∀ e ∈ σ'.hist, e.seq ≤ σ.pub → e ∈ σ.hist)
    ∧ (∀ k s, s ≤ σ.pub → view c σ'.hist k s = view c σ.hist k s) := by
  have hb := (inv_reachable h).basic
  obtain ⟨ext, h1, h2⟩ := steps_hist hb hs
  refine ⟨steps_pub_le hb hs, ?_, ?_, fun k s hs' => steps_view_stable hb hs k s hs'⟩
  · intro e he; rw [h1]; exact List.mem_append_left _ he
  · intro e he hle
    rw [h1] at he
    rcases List.mem_append.1 he with he | he
    · exact he
    · have := h2 e he; omega

/-- Entries carry unique sequence numbers (not every number at or below `pub` need be carried by an
entry: failed journal writes and discarded transactions leave gaps); every *entry* a buffer or the tables
hold at or below `pub` is a published entry of the history; the unpublished part of the history is exactly
the group being inserted. -/
theorem published_in_hist {σ : State} (h : Reachable Cfg.real c σ) :
    (∀ a ∈ σ.hist, ∀ b ∈ σ.hist, a.seq = b.seq → a = b)
    ∧ (∀ e ∈ memBuf σ ++ frozenBuf σ ++ σ.tabs, e.seq ≤ σ.pub → e ∈ σ.hist)
    ∧ (∀ e ∈ σ.hist, σ.pub < e.seq ↔ e ∈ σ.pending) := by
  have hb := (inv_reachable h).basic
  refine ⟨hb.uniq.sub (fun e he => List.mem_append_left _ he), ?_, ?_⟩
  · intro e he hle
    rcases List.mem_append.1 he with he | he
    · rcases List.mem_append.1 he with he | he
      · exact hb.bufSub _ e he
      · exact hb.optBuf_hist _ e he
    · rcases hb.tabSub e he with h1 | h1
      · exact h1
      · have := hb.privSeq e (privIn_sub _ e h1); omega
  · intro e he
    exact ⟨hb.histPub e he, fun hp => (hb.pendSeq e hp).1⟩

example : exState.pub ≤ exState2.pub ∧ ∀ k s, s ≤ 4 → view bytewise exState2.hist k s = view bytewise exState.hist k s :=
  ⟨(pub_monotone exState_reachable exState2_steps).1, (pub_monotone exState_reachable exState2_steps).2.2.2⟩
example : exState.pub = 4 ∧ exState.hist.length = 4 ∧ exState.pending = [] := by decide

/-! ## 2. buffers and tables together always cover the history -/

/-- `floor` is the `minSeq` of the latest table compaction (they only rise).  It never exceeds `pub` nor any
registered snapshot or running reader, and at every position from `floor` to `pub` a lookup in
(write buffer, frozen buffer, current tables) answers exactly like the history — whatever flushes,
compactions and transactions have done. -/
theorem cover_invariant {σ : State} (h : Reachable Cfg.real c σ) :
    σ.floor ≤ σ.pub
    ∧ (∀ p ∈ σ.snaps, σ.floor ≤ p.2 ∧ p.2 ≤ σ.pub)
    ∧ (∀ m, σ.comp = some m → m ≤ σ.floor)
    ∧ (∀ k s, σ.floor ≤ s → s ≤ σ.pub →
        view c (memBuf σ ++ frozenBuf σ ++ σ.tabs) k s = view c σ.hist k s) := by
  have hi := inv_reachable h
  have hb := hi.basic
  refine ⟨hb.floorPub, fun p hp => ⟨hb.floorSnap p hp, hb.snapsLe p hp⟩, hb.compLe, ?_⟩
  intro k s h1 h2
  have h0 := hi.cover.cov k s h1
  have hpriv : ∀ e ∈ privOf σ.tr, s < e.seq := by
    intro e he; have := hb.privSeq e he; omega
  have hUH : view c (univ σ) k s = view c σ.hist k s :=
    view_eq_of_leF (leF_append_above hpriv)
  rw [← hUH, ← h0]
  apply view_eq_of_leF
  simp only [bufPart, bufPartL, leF_append]
  rw [leF_above (E := privOut σ.tr) (fun e he => hpriv e (privOut_sub _ e he))]
  simp

/-- the compaction floor only rises -/
theorem floor_monotone {σ σ' : State} (h : Reachable Cfg.real c σ) (hs : Steps Cfg.real c σ σ') :
    σ.floor ≤ σ'.floor := steps_floor_le (inv_reachable h) hs

example : exState.floor = 2 ∧ exState.pub = 4 ∧ exState.tabs.length = 2 ∧ (memBuf exState).length = 2
    ∧ (frozenBuf exState).length = 2 := by decide
example : view bytewise (memBuf exState ++ frozenBuf exState ++ exState.tabs) [1] 2 = some [10]
    ∧ view bytewise (memBuf exState ++ frozenBuf exState ++ exState.tabs) [1] 3 = none := by decide

/-- a compaction of the real system that does drop entries: with no snapshot left (`minSeq = 4`) the
overwritten value `1@1` goes by rule (A) and the tombstone `1@3` by rule (B); a reader started afterwards
is still answered like the full history -/
def dropTrace1 : List Action :=
  [.writeInsert [ent 1 1 1 10, ent 2 2 1 20], .publish, .writeInsert [ent 1 3 0 0, ent 3 4 1 30], .publish,
   .rotate, .flushInstall, .flushDrop, .compStart]
def dropTrace2 : List Action := [.rNew, .rSeq 0, .rMems 0, .rVer 0, .rLookup 0 [1], .rLookup 0 [2]]

theorem drop_guard (k : Bytes) (s : Nat) (hs : 4 ≤ s) :
    view bytewise [ent 2 2 1 20, ent 3 4 1 30] k s
      = view bytewise [ent 1 1 1 10, ent 2 2 1 20, ent 1 3 0 0, ent 3 4 1 30] k s := by
  have q1 : (ent 1 1 1 10).seq ≤ s := by
    have : (ent 1 1 1 10).seq = 1 := by decide
    omega
  have q2 : (ent 2 2 1 20).seq ≤ s := by
    have : (ent 2 2 1 20).seq = 2 := by decide
    omega
  have q3 : (ent 1 3 0 0).seq ≤ s := by
    have : (ent 1 3 0 0).seq = 3 := by decide
    omega
  have q4 : (ent 3 4 1 30).seq ≤ s := by
    have : (ent 3 4 1 30).seq = 4 := by decide
    omega
  have u1 : (ent 1 1 1 10).ukey = [1] := rfl
  have u2 : (ent 2 2 1 20).ukey = [2] := rfl
  have u3 : (ent 1 3 0 0).ukey = [1] := rfl
  have u4 : (ent 3 4 1 30).ukey = [3] := rfl
  simp only [view, newest, List.foldl, q1, q2, q3, q4, and_true, u1, u2, u3, u4]
  by_cases h1 : bytewise.cmp [1] k = .eq
  · have : k = [1] := (bytesCompare_eq _ _ h1).symm
    subst this; decide
  · by_cases h2 : bytewise.cmp [2] k = .eq
    · have : k = [2] := (bytesCompare_eq _ _ h2).symm
      subst this; decide
    · by_cases h3 : bytewise.cmp [3] k = .eq
      · have : k = [3] := (bytesCompare_eq _ _ h3).symm
        subst this; decide
      · simp only [h1, h2, h3, if_false]

def dropState : State :=
  (run Cfg.real bytewise
    ((step Cfg.real bytewise ((run Cfg.real bytewise init dropTrace1).getD init)
      (.compCommit [ent 2 2 1 20, ent 3 4 1 30])).getD init) dropTrace2).getD init

theorem dropState_reachable : Reachable Cfg.real bytewise dropState := by
  have s1 := steps_of_run (c := bytewise) (cfg := Cfg.real) dropTrace1 init
    ((run Cfg.real bytewise init dropTrace1).getD init) (by decide) (by decide)
  have s2 : Step Cfg.real bytewise ((run Cfg.real bytewise init dropTrace1).getD init)
      (.compCommit [ent 2 2 1 20, ent 3 4 1 30])
      ((step Cfg.real bytewise ((run Cfg.real bytewise init dropTrace1).getD init)
        (.compCommit [ent 2 2 1 20, ent 3 4 1 30])).getD init) := by
    refine ⟨by decide, ?_⟩
    intro m hm k s hs
    have hm4 : m = 4 := by
      have : ((run Cfg.real bytewise init dropTrace1).getD init).comp = some 4 := by decide
      rw [this] at hm; exact (Option.some.inj hm).symm
    have ht : ((run Cfg.real bytewise init dropTrace1).getD init).tabs
        = [ent 1 1 1 10, ent 2 2 1 20, ent 1 3 0 0, ent 3 4 1 30] := by decide
    rw [ht]
    exact drop_guard k s (by omega)
  have s3 := steps_of_run (c := bytewise) (cfg := Cfg.real) dropTrace2
    ((step Cfg.real bytewise ((run Cfg.real bytewise init dropTrace1).getD init)
      (.compCommit [ent 2 2 1 20, ent 3 4 1 30])).getD init) dropState (by decide) (by decide)
  exact Steps.trans (Steps.tail _ s1 s2) s3

example : dropState.floor = 4 ∧ dropState.pub = 4 ∧ dropState.tabs = [ent 2 2 1 20, ent 3 4 1 30]
    ∧ dropState.hist.length = 4 ∧ dropState.readers.map (·.results) = [[([1], none), ([2], some [20])]] := by
  decide
example : ∀ k, view bytewise (memBuf dropState ++ frozenBuf dropState ++ dropState.tabs) k 4
    = view bytewise dropState.hist k 4 :=
  fun k => (cover_invariant dropState_reachable).2.2.2 k 4 (by decide) (by decide)

/-! ## 3. every read returns the state of one instant between its call and its return -/

/-- The sequence number a `DB.Get`/`DB.NewIterator` works with is the value `db.seq` had at its `rSeq`
step (a step after the call `rNew` and before any lookup), and it is registered at that same instant. -/
theorem reader_seq_is_pub {σ σ' : State} {i : Nat} (h : Step Cfg.real c σ (.rSeq i) σ') :
    ∃ r', σ'.readers[i]? = some r' ∧ r'.seq? = some σ.pub ∧ r'.live = true
      ∧ (Owner.reader i, σ.pub) ∈ σ'.snaps := by
  obtain ⟨r0, g1, g2, rfl⟩ := doRSeq_some h.1
  have hlt : i < σ.readers.length := by
    apply Nat.lt_of_not_le; intro hle
    rw [List.getElem?_eq_none hle] at g1; cases g1
  refine ⟨{ r0 with seq? := some σ.pub, live := true, reg := true }, ?_, rfl, rfl,
    List.mem_append_right _ List.mem_cons_self⟩
  show (σ.readers.set i _)[i]? = _
  rw [List.getElem?_set]; simp [hlt]

/-- … and it never changes afterwards, nor do the pinned buffers and tables; results only accumulate. -/
theorem reader_triple_fixed {σ σ' : State} (h : Reachable Cfg.real c σ) (hs : Steps Cfg.real c σ σ')
    (i : Nat) (r : Reader) (hi : σ.readers[i]? = some r) :
    ∃ r', σ'.readers[i]? = some r' ∧ (∀ s, r.seq? = some s → r'.seq? = some s)
      ∧ (∀ mf, r.mems? = some mf → r'.mems? = some mf) ∧ (∀ v, r.ver? = some v → r'.ver? = some v)
      ∧ ∃ more, r'.results = r.results ++ more := by
  obtain ⟨r', h1, k⟩ := steps_reader_keep (inv_reachable h).basic hs i r hi
  exact ⟨r', h1, fun s hs' => (k.seqKeep s hs').1, k.memsKeep, k.verKeep, k.resKeep⟩

/-- **Linearizable reads.**  Whatever a reader (a `Get`, or an iterator doing many lookups at any later
time) has returned for key `k` is the value of `k` in the history as of its sequence number `s` — the
state at the single instant of its `rSeq` step — and `s ≤ pub`.  This holds for the history of the moment
and of every later moment. -/
theorem read_linearizable {σ : State} (h : Reachable Cfg.real c σ) (i : Nat) (r : Reader)
    (hi : σ.readers[i]? = some r) (k : Bytes) (v : Option Bytes) (hkv : (k, v) ∈ r.results) :
    ∃ s, r.seq? = some s ∧ s ≤ σ.pub ∧ v = view c σ.hist k s
      ∧ ∀ σ', Steps Cfg.real c σ σ' → v = view c σ'.hist k s := by
  have hi' := inv_reachable h
  obtain ⟨s, h1, h2⟩ := (hi'.readers i r hi).results (k, v) hkv
  have hle := (hi'.readers i r hi).seqLe s h1
  refine ⟨s, h1, hle, h2, ?_⟩
  intro σ' hs
  rw [steps_view_stable hi'.basic hs k s hle]; exact h2

/-- The same, one step earlier: any lookup a reader with a pinned triple may perform now or later
yields the history's value at its position. -/
theorem lookup_correct {σ : State} (h : Reachable Cfg.real c σ) (i : Nat) (r : Reader)
    (hi : σ.readers[i]? = some r) (s : Nat) (mf : Nat × Option Nat) (v : List Entry)
    (hs : r.seq? = some s) (hm : r.mems? = some mf) (hv : r.ver? = some v) (k : Bytes) :
    view c (readSrc σ mf v) k s = view c σ.hist k s := by
  have := (inv_reachable h).readers i r hi |>.rc s mf hs hm k
  rw [hv] at this
  exact this

example : ∀ r ∈ exState2.readers, ∀ kv ∈ r.results, ∃ s, r.seq? = some s ∧ kv.2 = view bytewise exState2.hist kv.1 s := by
  intro r hr kv hkv
  obtain ⟨i, hi⟩ := List.getElem?_of_mem hr
  obtain ⟨s, h1, _, h2, _⟩ := read_linearizable exState2_reachable i r hi kv.1 kv.2 hkv
  exact ⟨s, h1, h2⟩
/-- reader 0 (position 2) and reader 1 (position 4) disagree about key `[1]`, both rightly -/
example : (exState2.readers.map fun r => (r.seq?, r.results.head?)) =
    [(some 2, some ([1], some [10])), (some 4, some ([1], none)), (some 2, some ([1], some [10]))] := by decide

/-- **The order of consultation is immaterial.**  `DB.get` asks the write buffer, then the frozen buffer, then
the version, and stops at the first that knows the key (`scView`); the reader steps of the model take the
view of the union.  For every reader of the real system the two agree (the pinned buffers are an intact,
ordered top segment of what the reader may see), hence `DB.get`'s answer is the history's too. -/
theorem lookup_order_irrelevant {σ : State} (h : Reachable Cfg.real c σ) (i : Nat) (r : Reader)
    (hi : σ.readers[i]? = some r) (s : Nat) (mf : Nat × Option Nat) (v : List Entry)
    (hs : r.seq? = some s) (hm : r.mems? = some mf) (hv : r.ver? = some v) (k : Bytes) :
    scView c [getBuf σ mf.1, optBuf σ mf.2, v] k s = view c σ.hist k s := by
  rw [reader_sc (inv_reachable h) i r hi s mf v hs hm hv k]
  exact lookup_correct h i r hi s mf v hs hm hv k

/-- reader 0 of `exState2`: position 2, buffers (2, frozen 0), tables pinned after the first flush -/
example : (exState2.readers[0]?.map fun r => (r.seq?, r.mems?)) = some (some 2, some (2, some 0))
    ∧ ∀ v, (exState2.readers[0]?.bind (·.ver?)) = some v →
        scView bytewise [getBuf exState2 2, getBuf exState2 0, v] [1] 2 = some [10] := by
  refine ⟨by decide, ?_⟩
  intro v hv
  have : v = [ent 1 1 1 10, ent 2 2 1 20] := by
    have h2 : (exState2.readers[0]?.bind (·.ver?)) = some [ent 1 1 1 10, ent 2 2 1 20] := by decide
    rw [h2] at hv; exact (Option.some.inj hv).symm
  subst this; decide

/-! ### the two orderings that matter: negative results -/

/-- the result some reader of `σ` returned differs from the history's value at its position -/
def WrongRead (c : UCmp) (σ : State) : Prop :=
  ∃ r ∈ σ.readers, ∃ kv ∈ r.results, ∃ s, r.seq? = some s ∧ kv.2 ≠ view c σ.hist kv.1 s

/-- in the real system there is none -/
theorem no_wrong_read {σ : State} (h : Reachable Cfg.real c σ) : ¬ WrongRead c σ := by
  rintro ⟨r, hr, kv, hkv, s, hs, hne⟩
  obtain ⟨i, hi⟩ := List.getElem?_of_mem hr
  obtain ⟨s', h1, _, h2, _⟩ := read_linearizable h i r hi kv.1 kv.2 hkv
  rw [hs] at h1; cases h1
  exact hne h2

/-- **"Install before drop" is necessary**: if `dropFrozenMem` could run before the flush's version is
installed, a `Get` that starts after a write returned misses it. -/
def dropEarlyTrace : List Action :=
  [.writeInsert [ent 1 1 1 10], .publish, .rotate, .rNew, .rSeq 0, .flushDrop, .rMems 0, .rVer 0, .rLookup 0 [1]]

theorem dropEarly_breaks : ∃ σ, Reachable { dropEarly := true } bytewise σ ∧ WrongRead bytewise σ := by
  refine ⟨(run { dropEarly := true } bytewise init dropEarlyTrace).getD init,
    steps_of_run dropEarlyTrace init _ (by decide) (by decide), ?_⟩
  refine ⟨_, List.mem_cons_self, ([1], none), by decide, 1, by decide, by decide⟩

/-- **"Buffers before version" is necessary**: if a reader took the version first and the buffers
afterwards, a complete flush in between makes the data vanish from its sight. -/
def verFirstTrace : List Action :=
  [.writeInsert [ent 1 1 1 10], .publish, .rotate, .rNew, .rSeq 0, .rVer 0, .flushInstall, .flushDrop,
   .rMems 0, .rLookup 0 [1]]

theorem verFirst_breaks : ∃ σ, Reachable { verFirst := true } bytewise σ ∧ WrongRead bytewise σ := by
  refine ⟨(run { verFirst := true } bytewise init verFirstTrace).getD init,
    steps_of_run verFirstTrace init _ (by decide) (by decide), ?_⟩
  refine ⟨_, List.mem_cons_self, ([1], none), by decide, 1, by decide, by decide⟩

/-- the same two traces are refused by the real system (the offending step is not enabled) -/
example : run Cfg.real bytewise init dropEarlyTrace = none ∧ run Cfg.real bytewise init verFirstTrace = none := by
  decide


/-- **`OpenTransaction` must not overtake a pending flush** (the third ordering the proof needs — and one
the code does not enforce, see the module doc of `Conc.lean` / the report): with a frozen buffer still
unflushed, a transaction's newer tombstone reaches the tables first, a table compaction legitimately drops
it (rule (B): nothing older below), and the late flush then resurrects the deleted value. -/
def trOverFrozenTrace1 : List Action :=
  [.writeInsert [ent 1 1 1 10], .publish, .rotate, .trOpen, .trPut (ent 1 2 0 0), .trInstall, .trPublish,
   .compStart]
def trOverFrozenTrace2 : List Action :=
  [.flushInstall, .flushDrop, .rNew, .rSeq 0, .rMems 0, .rVer 0, .rLookup 0 [1]]

theorem trOverFrozen_breaks : ∃ σ, Reachable { trOverFrozen := true } bytewise σ ∧ WrongRead bytewise σ := by
  let cfg : Cfg := { trOverFrozen := true }
  let σ1 := (run cfg bytewise init trOverFrozenTrace1).getD init
  let σ2 := (step cfg bytewise σ1 (.compCommit [])).getD init
  let σ3 := (run cfg bytewise σ2 trOverFrozenTrace2).getD init
  have s1 : Steps cfg bytewise init σ1 := steps_of_run trOverFrozenTrace1 init _ (by decide) (by decide)
  have s2 : Step cfg bytewise σ1 (.compCommit []) σ2 := by
    refine ⟨by decide, ?_⟩
    intro m _ k s _
    have : σ1.tabs = [ent 1 2 0 0] := by decide
    rw [this]
    simp only [view, newest, List.foldl]
    by_cases h : bytewise.cmp (ent 1 2 0 0).ukey k = Ordering.eq ∧ (ent 1 2 0 0).seq ≤ s
    · rw [if_pos h]; decide
    · rw [if_neg h]
  have s3 : Steps cfg bytewise σ2 σ3 := steps_of_run trOverFrozenTrace2 σ2 _ (by decide) (by decide)
  refine ⟨σ3, Steps.trans (Steps.tail _ s1 s2) s3, ?_⟩
  refine ⟨_, List.mem_cons_self, ([1], some [10]), by decide, 2, by decide, by decide⟩

/-- In that variant the damage is visible even before any compaction: right after the commit has returned,
a `Get` consults the still pending frozen buffer first and returns the deleted value (this is what
goleveldb does under that schedule — reproduced on the Go side). -/
def trOverFrozenTrace0 : List Action :=
  [.writeInsert [ent 1 1 1 10], .publish, .rotate, .trOpen, .trPut (ent 1 2 0 0), .trInstall, .trPublish,
   .rNew, .rSeq 0, .rMems 0, .rVer 0]

theorem trOverFrozen_stale_read : ∃ σ, Reachable { trOverFrozen := true } bytewise σ ∧
    ∃ r ∈ σ.readers, ∃ s mf v, r.seq? = some s ∧ r.mems? = some mf ∧ r.ver? = some v ∧
      scView bytewise [getBuf σ mf.1, optBuf σ mf.2, v] [1] s = some [10] ∧ view bytewise σ.hist [1] s = none := by
  refine ⟨(run { trOverFrozen := true } bytewise init trOverFrozenTrace0).getD init,
    steps_of_run trOverFrozenTrace0 init _ (by decide) (by decide), ?_⟩
  refine ⟨_, List.mem_cons_self, 2, (1, some 0), [ent 1 2 0 0], by decide, by decide, by decide, by decide, by decide⟩

/-- the real system refuses to open the transaction there -/
example : run Cfg.real bytewise init trOverFrozenTrace1 = none := by decide

/-! ## 4. a write group (and a committed transaction) becomes visible as a whole, in one step -/

/-- Every change of `pub` is a single step (`publish` = `db.addSeq`, `trPublish` = `db.setSeq`, or one of
the two steps that only consume numbers: `seqSkip`, `trDiscard`) and is recorded as one group consisting of
exactly the entries of the history above the old `pub` (none for the latter two) — all of which are at or
below the new one.  No other step changes `pub`. -/
theorem publication_is_one_step {σ σ' : State} {a : Action} (h : Reachable Cfg.real c σ)
    (hs : Step Cfg.real c σ a σ') :
    (σ'.groups = σ.groups ∧ σ'.pub = σ.pub) ∨
    ∃ g, σ'.groups = g :: σ.groups ∧ g.lo = σ.pub ∧ g.hi = σ'.pub ∧
      (∀ e, e ∈ g.es ↔ e ∈ σ'.hist ∧ σ.pub < e.seq) ∧ (∀ e ∈ g.es, e.seq ≤ σ'.pub) :=
  (stepSum (inv_reachable h).basic hs).grp

/-- **Batch atomicity.**  For every group ever published and every reader position (and every
snapshot): all of the group's entries are at or below it, or all are above it.  Together with
`read_linearizable` (a result is the view at that position): a reader sees all of a batch / merged group /
committed transaction or none of it. -/
theorem batch_atomic {σ : State} (h : Reachable Cfg.real c σ) (g : Group) (hg : g ∈ σ.groups) :
    g.hi ≤ σ.pub
    ∧ (∀ e ∈ g.es, e ∈ σ.hist ∧ g.lo < e.seq ∧ e.seq ≤ g.hi)
    ∧ (∀ e ∈ σ.hist, g.lo < e.seq → e.seq ≤ g.hi → e ∈ g.es)
    ∧ (∀ r ∈ σ.readers, ∀ s, r.seq? = some s → (∀ e ∈ g.es, e.seq ≤ s) ∨ (∀ e ∈ g.es, s < e.seq))
    ∧ (∀ p ∈ σ.snaps, (∀ e ∈ g.es, e.seq ≤ p.2) ∨ (∀ e ∈ g.es, p.2 < e.seq)) := by
  obtain ⟨g1, _, g3, g4, g5, g6⟩ := ginv_reachable h g hg
  refine ⟨g1, fun e he => ⟨(g3 e he).2.2, (g3 e he).1, (g3 e he).2.1⟩, g4, ?_, ?_⟩
  · intro r hr s hs
    rcases g6 r hr s hs with h1 | h1
    · exact Or.inr (fun e he => by have := (g3 e he).1; omega)
    · exact Or.inl (fun e he => by have := (g3 e he).2.1; omega)
  · intro p hp
    rcases g5 p hp with h1 | h1
    · exact Or.inr (fun e he => by have := (g3 e he).1; omega)
    · exact Or.inl (fun e he => by have := (g3 e he).2.1; omega)

/-- in `exState` the second group was inserted in two pieces (two merged batches); reader 0 (position 2)
sees none of it, reader 1 (position 4) all of it -/
example : exState.groups.map (fun g => (g.lo, g.hi, g.es.length)) = [(2, 4, 2), (0, 2, 2)]
    ∧ exState.readers.map (·.seq?) = [some 2, some 4] := by decide
example (g : Group) (hg : g ∈ exState.groups) (r : Reader) (hr : r ∈ exState.readers) (s : Nat)
    (hs : r.seq? = some s) : (∀ e ∈ g.es, e.seq ≤ s) ∨ (∀ e ∈ g.es, s < e.seq) :=
  (batch_atomic exState_reachable g hg).2.2.2.1 r hr s hs

/-- sequence numbers may have gaps — `seqSkip` (a failed journal write consumes its numbers) and a discarded
transaction (`trDiscard` moves `pub` over the numbers it used) publish *empty* groups: no entry carries
those numbers, ever; everything above holds verbatim (a gap only makes more numbers invisible by absence) -/
def gapTrace : List Action :=
  [.writeInsert [ent 1 1 1 10], .publish, .seqSkip 2, .rotate, .flushInstall, .flushDrop,
   .trOpen, .trPut (ent 1 4 0 0), .trPut (ent 2 5 1 21), .snapAcquire, .trDiscard,
   .writeInsert [ent 2 6 1 20], .publish, .rNew, .rSeq 0, .rMems 0, .rVer 0, .rLookup 0 [1], .rLookup 0 [2],
   .rNew, .rSeqSnap 1 2, .rMems 1, .rVer 1, .rLookup 1 [1], .rLookup 1 [2]]

def gapState : State := (run Cfg.real bytewise init gapTrace).getD init

theorem gapState_reachable : Reachable Cfg.real bytewise gapState :=
  steps_of_run gapTrace init gapState (by decide) (by decide)

example : gapState.pub = 6 ∧ gapState.hist = [ent 1 1 1 10, ent 2 6 1 20]
    ∧ gapState.groups.map (fun g => (g.lo, g.hi, g.es.length)) = [(5, 6, 1), (3, 5, 0), (1, 3, 0), (0, 1, 1)]
    ∧ gapState.readers.map (·.seq?) = [some 6, some 3]
    ∧ gapState.readers.map (·.results) = [[([1], some [10]), ([2], some [20])], [([1], some [10]), ([2], none)]] := by
  decide
example : ∀ g ∈ gapState.groups, ∀ r ∈ gapState.readers, ∀ s, r.seq? = some s →
    (∀ e ∈ g.es, e.seq ≤ s) ∨ (∀ e ∈ g.es, s < e.seq) :=
  fun g hg r hr s hs => (batch_atomic gapState_reachable g hg).2.2.2.1 r hr s hs

/-! ## 5. real-time order -/

/-- **A write that has returned is visible to every read that starts afterwards**: if group `g` is
published in `σ` and reader `i` takes its sequence number from `db.seq` at some later step, its position
is at or above all of `g`'s entries (so it sees them, unless overwritten by still newer ones).
**No older state after a newer one**: if reader `j` already has position `sA` in `σ` and reader `i` takes
its own afterwards, `sA ≤ sB`. -/
theorem real_time_order {σ σ' : State} (h : Reachable Cfg.real c σ) (hs : Steps Cfg.real c σ σ')
    (i : Nat) (hnew : σ.readers[i]? = none ∨ ∃ r, σ.readers[i]? = some r ∧ r.seq? = none)
    (rB : Reader) (hi : σ'.readers[i]? = some rB) (sB : Nat) (hsB : rB.seq? = some sB)
    (hlive : rB.live = true) :
    σ.pub ≤ sB
    ∧ (∀ g ∈ σ.groups, ∀ e ∈ g.es, e.seq ≤ sB)
    ∧ (∀ (j : Nat) (rA : Reader) (sA : Nat), σ.readers[j]? = some rA → rA.seq? = some sA → sA ≤ sB)
    ∧ (∀ p ∈ σ.snaps, p.2 ≤ sB) := by
  have hinv := inv_reachable h
  have hp := steps_reader_new hinv.basic hs i hnew rB hi sB hsB hlive
  refine ⟨hp, ?_, ?_, ?_⟩
  · intro g hg e he
    obtain ⟨g1, _, g3, _⟩ := ginv_reachable h g hg
    have := (g3 e he).2.1; omega
  · intro j rA sA hj hsA
    have := (hinv.readers j rA hj).seqLe sA hsA; omega
  · intro p hp'
    have := hinv.basic.snapsLe p hp'; omega

/-- groups are published in sequence order: an older group lies entirely below a newer one, so whoever sees
a client's later write sees its earlier ones -/
theorem writes_ordered {σ : State} (h : Reachable Cfg.real c σ) :
    σ.groups.Pairwise (fun newer older => older.hi ≤ newer.lo) := by
  have : ∀ σ', Steps Cfg.real c init σ' →
      (Inv c σ' ∧ GInv σ') ∧ σ'.groups.Pairwise (fun newer older => older.hi ≤ newer.lo) := by
    intro σ' hs
    induction hs with
    | refl => exact ⟨⟨inv_init, ginv_init⟩, by simp [init]⟩
    | tail a _ hstep ih =>
      refine ⟨⟨inv_step ih.1.1 hstep, ginv_step ih.1.1.basic ih.1.1.readers ih.1.2 hstep⟩, ?_⟩
      rcases (stepSum ih.1.1.basic hstep).grp with ⟨hgr, _⟩ | ⟨g0, hgr, hlo, _, _, _⟩
      · rw [hgr]; exact ih.2
      · rw [hgr]
        refine List.Pairwise.cons ?_ ih.2
        intro g hg
        rw [hlo]
        exact (ih.1.2 g hg).1
  exact (this σ h).2

/-- reader 1 of `exState` took its position after the second group was published and after reader 0 -/
example : ∃ σ₀, Reachable Cfg.real bytewise σ₀ ∧ Steps Cfg.real bytewise σ₀ exState
    ∧ σ₀.groups.length = 2 ∧ (σ₀.readers.map (·.seq?)) = [some 2, none] := by
  refine ⟨(run Cfg.real bytewise init (exTrace.take 13)).getD init,
    steps_of_run (exTrace.take 13) init _ (by decide) (by decide),
    steps_of_run (exTrace.drop 13) _ _ (by decide) (by decide),
    by decide, by decide⟩

/-! ## 6. snapshots and iterators are stable (C03 at this level) -/

/-- **Snapshot stability.**  Let `p` be a registered snapshot (of a client, or of a running reader) in a
reachable state `σ`, and let the system run on arbitrarily (writes, rotations, flushes, compactions started
before or after, transactions, other snapshots acquired and released):
1. the state as of `p` never changes;
2. every reader positioned at `p`, whenever it performs its lookups, returns exactly that state;
3. as long as `p` itself is still registered, a fresh read of the current buffers and tables at `p`
   yields it — so a new `Snapshot.Get` can always be served. -/
theorem snapshot_stable {σ σ' : State} (h : Reachable Cfg.real c σ) (p : Owner × Nat) (hp : p ∈ σ.snaps)
    (hs : Steps Cfg.real c σ σ') :
    (∀ k, view c σ'.hist k p.2 = view c σ.hist k p.2)
    ∧ (∀ (i : Nat) (r : Reader), σ'.readers[i]? = some r → r.seq? = some p.2 →
        ∀ k v, (k, v) ∈ r.results → v = view c σ.hist k p.2)
    ∧ (p ∈ σ'.snaps → ∀ k, view c (memBuf σ' ++ frozenBuf σ' ++ σ'.tabs) k p.2 = view c σ.hist k p.2) := by
  have hb := (inv_reachable h).basic
  have hle := hb.snapsLe p hp
  have h' : Reachable Cfg.real c σ' := Steps.trans h hs
  have hst := fun k => steps_view_stable hb hs k p.2 hle
  refine ⟨hst, ?_, ?_⟩
  · intro i r hi hseq k v hkv
    obtain ⟨s, h1, _, h2, _⟩ := read_linearizable h' i r hi k v hkv
    rw [hseq] at h1; cases h1
    rw [h2, hst]
  · intro hp' k
    obtain ⟨_, h2, _, h4⟩ := cover_invariant h'
    rw [h4 k p.2 (h2 p hp').1 (h2 p hp').2, hst]

/-- **Iterator stability.**  A reader that has pinned its (sequence number, buffers, tables) triple —
an iterator — answers every lookup it performs at any later time with the state as of its position at
the time of pinning, even after its snapshot registration was released and compactions have rewritten
the tables: versions are immutable and buffers only gain newer entries. -/
theorem iterator_stable {σ σ' : State} (h : Reachable Cfg.real c σ) (hs : Steps Cfg.real c σ σ')
    (i : Nat) (r : Reader) (hi : σ.readers[i]? = some r) (s : Nat) (mf : Nat × Option Nat)
    (v : List Entry) (hseq : r.seq? = some s) (hm : r.mems? = some mf) (hv : r.ver? = some v) (k : Bytes) :
    view c (readSrc σ' mf v) k s = view c σ.hist k s := by
  have hinv := inv_reachable h
  have h' : Reachable Cfg.real c σ' := Steps.trans h hs
  obtain ⟨r', h1, kp⟩ := steps_reader_keep hinv.basic hs i r hi
  rw [lookup_correct h' i r' h1 s mf v (kp.seqKeep s hseq).1 (kp.memsKeep mf hm) (kp.verKeep v hv) k]
  exact steps_view_stable hinv.basic hs k s ((hinv.readers i r hi).seqLe s hseq)

/-- in `exState2` the client snapshot (id 1, position 2) was read by reader 2 after two more rotations and a
compaction; the iterator (reader 0) did lookups after releasing its registration -/
example : (exState.snaps.map (·.2)) = [2, 2, 4] ∧ exState2.snaps = [(Owner.reader 1, 4), (Owner.reader 2, 2)]
    ∧ exState2.readers.map (·.reg) = [false, true, true] := by decide
example : ∀ k, view bytewise exState2.hist k 2 = view bytewise exState.hist k 2 :=
  (snapshot_stable exState_reachable (Owner.user 1, 2) (by decide) exState2_steps).1

/-- The configuration of the interleaving model that the SOURCE exhibits: each flag of `Cfg` is the negation of an
order fact the extractor reads off the Go AST on every run (`Gen/Consts.lean`): `memCompaction` commits before it
drops the frozen buffer; `DB.get`/`has`/`newRawIterator` take the buffers before the version; `OpenTransaction`
waits for a pending frozen-buffer flush (repair of D3); `Transaction.discard` advances the sequence number past the
discarded range (repair of D16). -/
def codeCfg : Cfg :=
  { dropEarly := !Gen.ordFlushCommitBeforeDrop
    verFirst := !Gen.ordReadersBuffersBeforeVersion
    trOverFrozen := !Gen.ordOpenTxWaitsForFrozenFlush
    discardReusesSeq := !Gen.ordDiscardKeepsSeq }

/-- the code as it is lies in the configuration all theorems above are about (each of the other configurations has an
explicit violating trace: `dropEarly_breaks`, `verFirst_breaks`, `trOverFrozen_breaks`, `C11.discardReuse_breaks`);
and a group is inserted into the buffer before its sequence number is published (the order of the model's
`writeInsert` / `writePublish` steps); and a point read keeps its snapshot registered until it returns (the model's
readers are registered from their `rSeq` step to their release, which is what bounds `minSeq` of a compaction) -/
theorem code_is_real : codeCfg = Cfg.real ∧ Gen.ordApplyBeforePublish = true ∧ Gen.ordPointReadsHoldSnapshot = true := by decide

/-! ## 7. the snapshot list (`db.snapsList`, `db_snapshot.go`) -/

/-- **`minSeq` returns the oldest live snapshot.**  Take any history of `acquireSnapshot` / `releaseSnapshot` calls as
the DB can produce it (`Snaps.Legal`: every acquisition reads a `db.seq` at least as large as every one read before,
every release gives back an acquisition that is still held): no call panics (neither "sequence number is not
increasing" nor "negative element reference"), and afterwards `minSeq()` returns the minimum over all
acquired-and-not-released sequence numbers — or `db.seq` if there is none. -/
theorem minSeq_is_oldest_live (ops : List Snaps.Op) (h : Snaps.Legal 0 [] ops) (dbSeq : Nat) :
    ∃ l, Snaps.run [] ops = some l ∧
      (Snaps.liveRun [] ops = [] → Snaps.minSeq l dbSeq = dbSeq) ∧
      (Snaps.liveRun [] ops ≠ [] → Snaps.minSeq l dbSeq ∈ Snaps.liveRun [] ops ∧
        ∀ s ∈ Snaps.liveRun [] ops, Snaps.minSeq l dbSeq ≤ s) := by
  obtain ⟨l, h1, h2⟩ := Snaps.run_legal ops [] [] 0 Snaps.rep_nil (by simp) h
  exact ⟨l, h1, Snaps.rep_minSeq h2 dbSeq⟩

/-- three acquisitions at 5, 5, 7 (the two at 5 share one element), a release of one 5, one more at 9, the other 5
released: the list is `[7 ×1, 9 ×1]` and `minSeq` = 7 -/
def snapOps : List Snaps.Op := [.acquire 5, .acquire 5, .acquire 7, .release 5, .acquire 9, .release 5]
example : Snaps.Legal 0 [] snapOps := by simp [snapOps, Snaps.Legal]
example : Snaps.run [] snapOps = some [⟨7, 1⟩, ⟨9, 1⟩] ∧ Snaps.liveRun [] snapOps = [7, 9]
    ∧ Snaps.run [] (snapOps.take 3) = some [⟨5, 2⟩, ⟨7, 1⟩] := by decide
example : ∃ l, Snaps.run [] snapOps = some l ∧ Snaps.minSeq l 12 = 7 := ⟨[⟨7, 1⟩, ⟨9, 1⟩], by decide, by decide⟩
/-- what the two panics guard against: an acquisition below the back element, a release of a released element -/
example : Snaps.run [] [.acquire 5, .acquire 4] = none ∧ Snaps.run [] [.acquire 5, .release 5, .release 5] = none := by
  decide

/-- **The snapshot list never panics in the DB**, and it is the list of the model's live registrations: along every
execution of the interleaving model, drive the real list by the same steps (`Conc.snapsStep`: `GetSnapshot`, `DB.Get`,
`DB.NewIterator` acquire the current `db.seq`; their releases give it back) — every reachable state has its list
(`Joint`), and from a state with its list every step of the model is a non-panicking operation of the list.
The acquisitions are non-decreasing because `db.seq` only grows (`pub_monotone`; here: every registration is at or
below `pub`, `cover_invariant`). -/
theorem snapshot_list_never_panics :
    (∀ σ, Reachable Cfg.real c σ → ∃ l, Joint c σ l)
    ∧ (∀ σ l a σ', Joint c σ l → Step Cfg.real c σ a σ' → ∃ l', snapsStep σ l a = some l' ∧ Joint c σ' l') := by
  refine ⟨fun σ h => joint_of_reachable h, ?_⟩
  intro σ l a σ' hj hs
  obtain ⟨l', g1, _, _⟩ := joint_step (inv_reachable hj.reachable) hj.inv.1 hj.inv.2 hs
  exact ⟨l', g1, Joint.step a hj hs g1⟩

/-- **The model's `minSeq` is the real one.**  For a state with its list: the list represents the live registrations
(a reference per client snapshot and per running `DB.Get`/iterator), its `minSeq` is the oldest of them (`db.seq` if
none), `Conc.minSeq` — what the model's `compStart` reads — never exceeds it, and the two are equal whenever every
running `Snapshot.Get` still has its client snapshot registered (`SnapHeld`: what `snap.mu` guarantees). -/
theorem minSeq_matches_model {σ : State} {l : Snaps.SList} (h : Joint c σ l) :
    Snaps.Rep l (liveSeqs σ)
    ∧ (liveSeqs σ = [] → Snaps.minSeq l σ.pub = σ.pub)
    ∧ (liveSeqs σ ≠ [] → Snaps.minSeq l σ.pub ∈ liveSeqs σ ∧ ∀ s ∈ liveSeqs σ, Snaps.minSeq l σ.pub ≤ s)
    ∧ Conc.minSeq σ ≤ Snaps.minSeq l σ.pub
    ∧ (SnapHeld σ → Snaps.minSeq l σ.pub = Conc.minSeq σ) := by
  have hr := h.inv.2
  have hb := (inv_reachable h.reachable).basic
  exact ⟨hr, (Snaps.rep_minSeq hr σ.pub).1, (Snaps.rep_minSeq hr σ.pub).2, (minSeq_list hb hr).1, (minSeq_list hb hr).2⟩

/-- `exTrace` with its snapshot list: the client snapshot and reader 0 share the element 2, reader 1 holds 4 -/
theorem exJoint : Joint bytewise exState [⟨2, 2⟩, ⟨4, 1⟩] :=
  joint_of_runJ exTrace (by decide) Joint.init (by decide)
example : liveSeqs exState = [2, 2, 4] ∧ Conc.minSeq exState = 2 ∧ Snaps.minSeq [⟨2, 2⟩, ⟨4, 1⟩] exState.pub = 2 := by decide
theorem exState_snapHeld : SnapHeld exState := by
  intro i s hp hl
  have hs : exState.snaps = [(Owner.user 1, 2), (Owner.reader 0, 2), (Owner.reader 1, 4)] := by decide
  rw [hs] at hp ⊢
  simp only [List.mem_cons, Prod.mk.injEq, List.not_mem_nil, or_false, Owner.reader.injEq, reduceCtorEq, false_and,
    false_or] at hp
  rcases hp with ⟨rfl, rfl⟩ | ⟨rfl, rfl⟩
  · exact ⟨1, by simp⟩
  · have hr : (exState.readers[1]?).map (·.live) = some true := by decide
    cases h1 : exState.readers[1]? with
    | none => rw [h1] at hr; cases hr
    | some r =>
      rw [h1] at hr
      have := hl r h1
      simp only [Option.map_some, Option.some.injEq] at hr
      rw [this] at hr; cases hr
example : Snaps.minSeq [⟨2, 2⟩, ⟨4, 1⟩] exState.pub = Conc.minSeq exState :=
  (minSeq_matches_model exJoint).2.2.2.2 exState_snapHeld

/-! ## 8. the reader side of recorded runs -/

open GoLevel.Driver in
/-- what "the recorded answer agrees with `v`" means -/
theorem answerOk_spec {ans : String} {val v : Option Bytes} (h : Driver.answerOk ans val v = true) :
    (ans = "notfound" ∧ v = none) ∨ (ans = "found" ∧ ∃ b, v = some b ∧ ∀ b', val = some b' → b' = b) := by
  unfold Driver.answerOk at h
  split at h
  · rename_i h1
    exact Or.inl ⟨h1, by cases v <;> simp_all⟩
  · split at h
    · rename_i h2
      refine Or.inr ⟨h2, ?_⟩
      cases val with
      | none =>
        cases v with
        | none => simp at h
        | some b => exact ⟨b, rfl, fun _ hh => by cases hh⟩
      | some b0 =>
        simp only [beq_iff_eq] at h
        exact ⟨b0, h, fun b' hh => by cases hh; rfl⟩
    · cases h

open GoLevel.Driver in
/-- **Reader-side trace soundness.**  Feed the validator (`gldriver`'s `conc` protocol, `Driver.feed`) any sequence of
lines from a fresh state.  Whatever it accepted, its state is a reachable state of the interleaving model; and if it
answered `ok` to a line `rget <rid> <key> <found|notfound> <value>` — the recorded answer of a `Get` / `Snapshot.Get`
/ iterator of the real DB, whose snapshot acquisition, `getMems`, `version()` and release were replayed as the
reader steps `rSeq`/`rSeqSnap`, `rMems`, `rVer`, `rRelease` of model reader `rid` — then the recorded answer is
**the value of the key in the history as of the reader's sequence number** `s` (`view hist k s`, `s ≤ db.seq`): of the
history at the end of the run (the same as at any moment since the read, `read_linearizable`).  In words: every
sampled read of the real DB is checked to be linearizable at its `acquireSnapshot`. -/
theorem reader_trace_sound (pre post : List (List String)) (rid key ans vid : String)
    (hok : (feed {} (pre ++ [["rget", rid, key, ans, vid]] ++ post)).2[pre.length]? = some "ok")
    (hpost : ∀ l ∈ post, l.head? ≠ some "reset") :
    Reachable Cfg.real bytewise (feed {} (pre ++ [["rget", rid, key, ans, vid]] ++ post)).1.σ ∧
    ∃ (i : Nat) (k : Bytes) (r : Reader) (s : Nat) (val : Option Bytes),
      natOf rid = some i ∧ fromHex key = some k ∧ parseVal vid = some val ∧
      (feed {} (pre ++ [["rget", rid, key, ans, vid]] ++ post)).1.σ.readers[i]? = some r ∧ r.seq? = some s ∧
      s ≤ (feed {} (pre ++ [["rget", rid, key, ans, vid]] ++ post)).1.σ.pub ∧
      ((ans = "notfound" ∧
          view bytewise (feed {} (pre ++ [["rget", rid, key, ans, vid]] ++ post)).1.σ.hist k s = none) ∨
       (ans = "found" ∧ ∃ b,
          view bytewise (feed {} (pre ++ [["rget", rid, key, ans, vid]] ++ post)).1.σ.hist k s = some b ∧
          ∀ b', val = some b' → b' = b)) := by
  have hgood := feed_good (pre ++ [["rget", rid, key, ans, vid]] ++ post) good_init
  refine ⟨hgood.reachable, ?_⟩
  have hg1 : Good (feed {} pre).1 := feed_good pre good_init
  rw [List.append_assoc, feed_append] at hok ⊢
  simp only at hok ⊢
  rw [List.getElem?_append_right (by rw [feed_length]; exact Nat.le_refl _), feed_length, Nat.sub_self] at hok
  -- the `rget` line itself
  simp only [List.singleton_append, feed] at hok ⊢
  cases hh : handleConc (feed {} pre).1 ["rget", rid, key, ans, vid] with
  | none =>
    rw [hh] at hok
    simp only [List.getElem?_cons_zero, Option.some.injEq] at hok
    exact absurd hok (by decide)
  | some p =>
    obtain ⟨st2, out⟩ := p
    rw [hh] at hok
    simp only [List.getElem?_cons_zero, Option.some.injEq] at hok
    subst hok
    show ∃ i k r s val, _ ∧ _ ∧ _ ∧ (feed st2 post).1.σ.readers[i]? = some r ∧ _ ∧ s ≤ (feed st2 post).1.σ.pub ∧
      ((_ ∧ view bytewise (feed st2 post).1.σ.hist k s = none) ∨
       (_ ∧ ∃ b, view bytewise (feed st2 post).1.σ.hist k s = some b ∧ _))
    obtain ⟨i, k, r, s, val, v, e1, e2, e3, e4, e5, e6, e7, _, e9⟩ := rget_sound hg1 hh
    have hg2 : Good st2 := handleConc_good hg1 hh
    have hsteps := feed_steps post hg2 hpost
    obtain ⟨r', f1, f2⟩ := steps_reader_keep (inv_reachable hg2.reachable).basic hsteps i r e4
    have hv := e9 _ hsteps
    have hle := steps_pub_le (inv_reachable hg2.reachable).basic hsteps
    refine ⟨i, k, r', s, val, e1, e2, e3, f1, (f2.seqKeep s e5).1, Nat.le_trans e6 hle, ?_⟩
    rcases answerOk_spec e7 with ⟨a1, a2⟩ | ⟨a1, b, a2, a3⟩
    · exact Or.inl ⟨a1, by rw [← hv, a2]⟩
    · exact Or.inr ⟨a1, b, by rw [← hv, a2], a3⟩

/-- a recorded run: a group of two puts, a client snapshot, a `Get` (reader 0) that acquires at 2 and pins its buffers
before a deletion is published and the buffer is rotated, flushed (with a compaction whose `minSeq` 2 is the front of
the snapshot list) and dropped; its answer for key `61`; then a second `Get` at 3 that sees the deletion, a `Has`, a
`Snapshot.Get` at the client snapshot's position, the release of the snapshot and a compaction at `minSeq` 3 -/
def exLines : List (List String) :=
  [["reset", "0"], ["insert", "1", "2", "p61:0a", "p62:0b"], ["publish", "2"], ["snap", "1", "2"],
   ["racq", "0", "2"], ["rmems", "0", "0"], ["insert", "3", "1", "d61"], ["publish", "3"], ["rotate"],
   ["rver", "0"], ["rrel", "0"], ["flushinstall"], ["minseq", "2"], ["compact", "2"], ["drop"]]
def exPost : List (List String) :=
  [["racq", "1", "3"], ["rmems", "1", "0"], ["rver", "1"], ["rrel", "1"], ["rget", "1", "61", "notfound", "-"],
   ["rget", "1", "62", "found", "*"], ["rget", "1", "62", "found", "0c"], ["racqs", "2", "1", "2"], ["rmems", "2"],
   ["rver", "2"], ["rrel", "2"], ["rget", "2", "61", "found", "0a"], ["snaprel", "1"], ["compact", "3"]]

set_option maxRecDepth 100000 in
/-- everything is accepted except the wrong value `0c` for key `62` -/
example : (Driver.feed {} (exLines ++ [["rget", "0", "61", "found", "0a"]] ++ exPost)).2 =
    List.replicate 22 "ok" ++ ["illegal read-62-real-found-0c-model-found-0b"] ++ List.replicate 7 "ok" := by decide

set_option maxRecDepth 100000 in
/-- the first `rget` of that run: reader 0 read key `61` = `0a` at position 2, although the deletion at 3 was
published (and flushed) before it looked -/
example : ∃ r, (Driver.feed {} (exLines ++ [["rget", "0", "61", "found", "0a"]] ++ exPost)).1.σ.readers[0]? = some r
    ∧ r.seq? = some 2
    ∧ view bytewise (Driver.feed {} (exLines ++ [["rget", "0", "61", "found", "0a"]] ++ exPost)).1.σ.hist [0x61] 2
        = some [0x0a] := by
  obtain ⟨_, i, k, r, s, val, h1, h2, h3, h4, h5, _, h7⟩ :=
    reader_trace_sound exLines exPost "0" "61" "found" "0a" (by decide) (by decide)
  have e1 : i = 0 := by
    have : Driver.natOf "0" = some 0 := by decide
    rw [this] at h1; exact (Option.some.inj h1).symm
  have e2 : k = [0x61] := by
    have : fromHex "61" = some [0x61] := by decide
    rw [this] at h2; exact (Option.some.inj h2).symm
  subst e1; subst e2
  have e3 : s = 2 := by
    have : ((Driver.feed {} (exLines ++ [["rget", "0", "61", "found", "0a"]] ++ exPost)).1.σ.readers[0]?).bind (·.seq?)
        = some 2 := by decide
    rw [h4] at this
    simp only [Option.bind_some] at this
    rw [h5] at this; exact Option.some.inj this
  subst e3
  refine ⟨r, h4, h5, ?_⟩
  rcases h7 with ⟨hh, _⟩ | ⟨_, b, hb, hv⟩
  · exact absurd hh (by decide)
  · have : Driver.parseVal "0a" = some (some [0x0a]) := by decide
    rw [this] at h3
    have := hv [0x0a] (Option.some.inj h3).symm
    rw [hb, ← this]

def theorems : List String :=
  ["GoLevel.C05.code_is_real", "GoLevel.C05.pub_monotone", "GoLevel.C05.published_in_hist", "GoLevel.C05.cover_invariant",
   "GoLevel.C05.floor_monotone", "GoLevel.C05.reader_seq_is_pub", "GoLevel.C05.reader_triple_fixed",
   "GoLevel.C05.read_linearizable", "GoLevel.C05.lookup_correct", "GoLevel.C05.lookup_order_irrelevant",
   "GoLevel.C05.no_wrong_read", "GoLevel.C05.dropEarly_breaks", "GoLevel.C05.verFirst_breaks",
   "GoLevel.C05.trOverFrozen_breaks", "GoLevel.C05.trOverFrozen_stale_read",
   "GoLevel.C05.publication_is_one_step", "GoLevel.C05.batch_atomic", "GoLevel.C05.real_time_order",
   "GoLevel.C05.writes_ordered", "GoLevel.C05.snapshot_stable", "GoLevel.C05.iterator_stable",
   "GoLevel.C05.minSeq_is_oldest_live", "GoLevel.C05.snapshot_list_never_panics", "GoLevel.C05.minSeq_matches_model",
   "GoLevel.C05.reader_trace_sound"]

end GoLevel.C05
