import GoLevel.Proofs.DurableFault
import GoLevel.Proofs.DurableStepFault
import GoLevel.Props.C04
/-!
# Property C08 — storage failures

"Whatever sequence of storage failures occurs … the DB never returns a wrong value and never loses or hides
a write it reported as successful, neither while running nor after a later reopen.  A write that returned an
error is either wholly applied or wholly absent …, and with checksum verification on (the default) damaged
data is reported as an error rather than served."

Model: the same machine as C04 (`Dur.step`); every storage action carries an `Outcome`
(`ok | failNoEffect | failEffect`), the error paths are those of the code (`writeLocked` returns the error;
`compactionTransact` retries; `tWriter.drop`; `newManifest`'s clean-up; `Open` gives up).

What is proved (`fault_safe_partial`): for the *write path* (`wAppend`, `wSync`, `wApply`, `wPublish`,
`wAck` on the initial journal; no buffer rotation, no flush), with **every journal `Write`/`Flush`/`Sync`
allowed to fail at any position, with or without effect, any number of times**, and with
`consumeSeqOnJournalError = true` (a failed group consumes its sequence numbers):

* while running, the write buffer — what `Get` and iterators read — holds exactly the acknowledged groups
  plus the one just applied; a failed group is never in it;
* after a reopen without a crash `Open` succeeds and returns exactly the journal's groups: every
  acknowledged group (with or without `Sync`), only issued groups, each whole;
* after a crash, every crash image opens, with every group acknowledged with `Sync`, only issued groups, each
  whole.

`d4_loses_acked_write`: the explicit losing run for the code as found (`consumeSeqOnJournalError = false`,
D4): a journal `Sync` fails, the next write re-uses the sequence number, is acknowledged with `Sync`, and is
dropped by `decodeBatchToMem` at the next `Open`.

What is proved for the whole machine (`fault_safe_jobs`): crash consistency (the statement of
`C04.crash_consistent`) for every run in which **the storage operations of a memdb flush, a table compaction,
a transaction commit and a recovery may fail**, with or without effect, at any position and any number of times:
create / write / sync of an output table (the half-made table is dropped, the job retries; a recovery gives
up), the journal `newMem` creates in a recovery, the creation / write / sync of a new manifest and `SetMeta`
(the new manifest is dropped, the commit is retried), the append of a record to the manifest failing without
effect (`session.manifestFailed`: the retry writes a fresh manifest — the repair of D8), the removal of the old
manifest (logged only — the repair of D27), every removal of an obsolete file (logged only).  The two known
findings are excluded by hypotheses named after them, evaluated in the state in which the action is taken:
`Act.noD10` (the append to the manifest does not fail after the record reached the file, the manifest `Sync`
does not fail) and `Act.noD26` (`SetMeta` does not fail after it took effect — the machine has no such step:
with `failEffect` there `newManifest` removes the manifest `CURRENT` already names; `fileStorage.GetMeta`
survives this only through its `CURRENT.bak` fallback, which is outside the `storage.Storage` contract).
Journal faults of the write path are excluded there (`Act.writerFaultFree`).

`fault_safe_writer` adds them: the same statement for **every run whose storage faults avoid only D10 and D26**
(`Act.faultsOK = noD10 ∧ noD26`): every journal `Write`/`Flush`/`Sync` failure of the write path, with or without
effect, the `Create` of `newMem` failing with or without effect, and all the faults of `fault_safe_jobs`,
interleaved in any way with rotations, flushes, table compactions, transactions, crashes and recoveries
(`consumeSeqOnJournalError = true`, the repair of D4).  What the invariant says for this:

* not "current journal = write buffer ++ group in flight" but `JournalHolds`: the buffer's groups are in the
  journal; a group in the journal that is not in the buffer is not acknowledged and lies at or below `seq` (a
  failed group: its numbers are consumed, its record may or may not be in the file);
* a record in a journal the next `Open` replays may lie *below the manifest's sequence number* — a transaction
  was committed while the record of a failed write was still in the current journal (`OpenTransaction` rotates
  the journal only when the write buffer is not empty).  Such a record is never one that must survive
  (`ViewOK.jseq`: `v.sq ≤ g.seq ∨ g ∉ must`), it is disjoint from everything in the tables (`ViewOK.tj`), and the
  replay loop skips it: `replayJ` drops exactly the records below the expected sequence number
  (`replayJ_filter`; `decodeBatchToMem` checks the first sequence number of the batch before it applies
  anything, `recoverJournal` logs "journal error … (skipped)").  The same holds inside a recovery
  (`RecOK.todoSeq`, `MdbOK`: the recovery memdb is the *accepted* part of the journal replayed last).
  **`Options.StrictJournal` is outside the model** (`Dur.recoverR` is the default, non-strict `Open`): with it
  `recoverJournal` returns that "invalid sequence number" error and `Open` fails although nothing acknowledged is
  lost (finding 1 of the fault hunt, `wp27/FINDINGS`);
* a journal file may have a number *at or above the next file number* — `newMem`'s `Create` made the file and
  reported an error, `reuseFileNum` handed the number back.  File numbers are per type (`Disk.journals` /
  `tables` / `manifests`): a table or a manifest may take the same number later.  Such a journal is empty
  (`RunOK.nums`, `RunOK.jmax`), the next `newMem` truncates and adopts it (`DiskOK.journal_create'`), an `Open`
  replays it last and finds nothing, `markFileNum` in `recOpen` puts the next file number above it.

D10 and D26 are repaired in the tree (commits 5cf4e90, 8a67fea) and the machine follows the repaired code:
`Transaction.Discard` after a failed `Commit` (`Dur.trDiscardJob`) leaves the transaction's tables alone while
`session.manifestFailed` is set (`Cfg.discardKeepsTablesWhenUncertain`), and the cleanup of `newManifest` keeps the
new manifest when `SetMeta` reported an error after it took effect (`Cfg.cleanupChecksCurrent`; the commit still
fails, `manifestFailed` is set, the retry writes another manifest).  The code as found is behind the two flags, with
its losing runs as the records of the findings (`d10_discard_after_failed_commit_loses_table`,
`d26_setmeta_effect_then_cleanup_loses_current`); `code_discard_guard_and_cleanup_check` ties the flags to the
source.  The first repair of D26 left one combination of *two* storage faults that lost the entry point: `SetMeta`
fails after it took effect and the `GetMeta` of the cleanup fails too (`setmeta_and_getmeta_fail_lose_current`, on
`cleanupKeepsWhenGetMetaFails = false`); commit 98bd5c2 keeps the file in that case as well.

`fault_safe_writer` (and `fault_safe_writer_created`, from an empty storage) hold for every good configuration,
the code as found included, and therefore carry `noD10`/`noD26`.

**The repaired code under every storage fault: `fault_safe` (= `fault_safe_full`).**  Between a manifest append,
`Sync` or `SetMeta` that reported an error *with the record in the file* and the next successful `newManifest` the
storage is one edit ahead of the session: every crash image shows, or may show, an edit whose commit was reported as
failed.  The machine carries that edit as a ghost (`St.limbo`, set where the operation fails, cleared where `SetMeta`
succeeds, never read by the machine); the invariant (`Proofs/DurableInv.lean`: `MirrorL`, `LimboOK`) says that the
session mirrors the last view of the manifest *up to that edit*, that the edit is the one the running job is retrying
(`JPc.retry`) or that of a transaction discarded after its failed commit (`OrphanOK`: one synced table with one group,
reported as failed, its sequence numbers consumed — the next `Open` adopts it, nothing acknowledged depends on it), and
the manifest clause of `JobOK.fresh` lets the retried edit's tables be live in the views that already show it.  At the
pc `sync` (the record written, not yet synced) the job keeps what a retry needs again (`JobManifest … .sync`,
`FlushPending` over `JPc.uninstalled`).  With this `fault_safe` proves crash consistency for the repaired configuration,
from an empty storage, for **every run of the machine: every storage operation may fail in any way at any time** — the
shapes of D10 ("the append of the record / the manifest `Sync` fails with the record in the file") and of D26
("`SetMeta` fails after it took effect", with or without the `GetMeta` of the cleanup failing too) included, followed by
`Discard`, retries, further faults, crashes.  There is no side condition on the run; the side condition on the
configuration is the three repairs.  The standing condition inside the proof is `Dur.LimboSafe`: while the storage is
ahead, `Discard` must leave the tables alone (the repair of D10) — for the code as found the D10 run violates exactly it.
Random exploration of the machine with every fault class enabled (`Scratch/Explore.lean` in the work area, the
invariant itself evaluated after every step) agrees: 0 violations for the repaired configuration, violations for
`discardKeepsTablesWhenUncertain = false`, `cleanupChecksCurrent = false` and `cleanupKeepsWhenGetMetaFails = false`.
Damaged data under checksum verification: C12 (journal chunks) and C13 (table blocks).
-/
namespace GoLevel.C08
open GoLevel GoLevel.Dur

/-- the groups whose write returned `nil` -/
def acked (s : St) (g : Grp) : Prop := statusOf s g .acked

/-- **C08 for the write path under journal faults** (`consumeSeqOnJournalError = true`). -/
theorem fault_safe_partial {cfg : Cfg} (hc : cfg.consumeSeqOnJournalError = true) {s : St} {d : Disk}
    (hr : ReachableW cfg (s, d)) :
    -- while running: reads see the acknowledged groups and the one just applied, nothing else
    ((∀ g ∈ s.mem, g ∈ issuedGrps s ∧ (acked s g ∨ g ∈ appliedNow s.w)) ∧ (∀ g, acked s g → g ∈ s.mem)) ∧
    -- after a reopen (no crash): everything acknowledged, only issued groups, each whole
    (∃ r, recoverR cfg d = .ok r ∧ (∀ g, acked s g → g ∈ r.grps) ∧ (∀ g ∈ r.grps, g ∈ issuedGrps s) ∧
      r.entries = r.grps.flatMap Grp.ents) ∧
    -- after a crash: everything acknowledged with `Sync`
    (∀ ch, ∃ r, recoverR cfg (crashWith ch d) = .ok r ∧
      (∀ g, acked s g → g.sync = true → g ∈ r.grps) ∧ (∀ g ∈ r.grps, g ∈ issuedGrps s)) := by
  obtain ⟨jf, hw⟩ := winv_reachable hc hr
  have hw' : WInv s d jf := hw
  obtain ⟨⟨_, _, hcur, hman, htab, hjs⟩, hasc, _, hiss, ⟨hm1, hm2, _⟩, _, ⟨hsy, _⟩⟩ := hw'
  refine ⟨⟨fun g hg => ⟨hiss g (hm1 g hg).1, (hm1 g hg).2⟩, hm2⟩, ?_, fun ch => ?_⟩
  · obtain ⟨r, hrec, hgr⟩ := recoverR_wpath cfg hcur (by rw [hman]) htab hjs hasc
    refine ⟨r, hrec, fun g hg => ?_, fun g hg => ?_, rfl⟩
    · rw [hgr]; exact (hm1 g (hm2 g hg)).1
    · rw [hgr] at hg; exact hiss g hg
  · have hall := crashLog_all (ch.cutJ 2) jf
    have hjs' : (crashWith ch d).journals = [(2, crashLog (ch.cutJ 2) jf)] := by
      simp [crashWith, hjs]
    have hman' : lookup (crashWith ch d).manifests 1 = lookup init.2.manifests 1 := by
      have : (crashWith ch d).manifests =
          d.manifests.map fun p => (p.1, crashManifest (ch.cutM p.1) (ch.tornM p.1) p.2) := rfl
      rw [this, lookup_map_snd d.manifests (fun n f => crashManifest (ch.cutM n) (ch.tornM n) f) 1, hman]
      show (some _ : Option (LogFile MRec)).map _ = some _
      simp only [Option.map_some]
      cases ch.tornM 1 <;> simp [crashManifest, crashLog]
    have hasc' : AscFrom 0 (crashLog (ch.cutJ 2) jf).all := by
      rw [hall.2.2] at hasc; exact hasc.of_append_left
    obtain ⟨r, hrec, hgr⟩ := recoverR_wpath cfg (d := crashWith ch d) hcur hman' (by simp [crashWith, htab]) hjs' hasc'
    refine ⟨r, hrec, fun g hg hgs => ?_, fun g hg => ?_⟩
    · rw [hgr, hall.1]; exact List.mem_append_left _ (hsy g hg hgs)
    · rw [hgr] at hg
      apply hiss
      rw [hall.2.2]; exact List.mem_append_left _ hg

/-! ## non-vacuity, and D4 -/

def putA : List Batch.Rec := [⟨1, [97], [1]⟩]
def putB : List Batch.Rec := [⟨1, [98], [2]⟩]

/-- a journal `Sync` fails (the record is in the file), then a second write is acknowledged with `Sync` -/
def syncFailsThenWrite : List Act :=
  [.wAppend putA true .ok, .wSync .failNoEffect,
   .wAppend putB true .ok, .wSync .ok, .wApply, .wPublish, .wAck]

/-- the acknowledged-with-`Sync` groups missing after a reopen of the final state of a run -/
def lostAfterReopen (cfg : Cfg) (as : List Act) : Option (List Nat) :=
  (run cfg init as).map fun sd =>
    match recoverR cfg sd.2 with
    | .ok r => ((Dur.ackedSync sd.1.issued).filter fun g => !(r.grps.contains g)).map (·.seq)
    | .error _ => [0]

/-- what the reopened DB returns for keys `"a"` and `"b"` -/
def readsAB (cfg : Cfg) (as : List Act) : Option (Option Bytes × Option Bytes) :=
  (run cfg init as).map fun sd =>
    match recoverR cfg sd.2 with
    | .ok r => (r.get bytewise [97], r.get bytewise [98])
    | .error _ => (none, none)

/-- with the sequence numbers consumed, the acknowledged write `b` is there after the reopen; the failed write
    `a` happens to be there as well (its record reached the file) — wholly -/
example : lostAfterReopen {} syncFailsThenWrite = some [] := by decide
example : readsAB {} syncFailsThenWrite = some (some [1], some [2]) := by decide

/-- **D4 (the code as found).**  The failed group keeps sequence number 1, the next group gets 1 again, is
    acknowledged with `Sync` — and `Open` drops it ("invalid sequence number"): `b` is gone, `a`, whose write
    returned an error, is served. -/
theorem d4_loses_acked_write :
    lostAfterReopen { consumeSeqOnJournalError := false } syncFailsThenWrite = some [1] ∧
    readsAB { consumeSeqOnJournalError := false } syncFailsThenWrite = some (some [1], none) := by decide

/-- **C08 for the jobs under storage faults.**  Every run whose faults are those of `Act.jobFaultsOnly` (every
    failure inside a flush, a table compaction, a transaction commit or a recovery, the known findings D10 and
    D26 excepted) ends in a state all of whose crash images open and are consistent with the history. -/
theorem fault_safe_jobs {cfg : Cfg} (hg : cfg.Good) {as : List Act} {s : St} {d : Disk}
    (hal : Allowed cfg (fun sd a => a.jobFaultsOnly sd.1) init as) (hr : run cfg init as = some (s, d))
    {d' : Disk} (hi : IsCrashImage d d') {c : UCmp} (hl : LawfulUCmp c) (hw : ∀ g ∈ issuedGrps s, g.wf) :
    ∃ r, recoverR cfg d' = .ok r ∧ ∃ sel, C04.Consistent c s r sel := by
  obtain ⟨ch, rfl⟩ := hi
  have hinv : Inv cfg s d := inv_run_jobFaults hg (inv_init cfg) as hal hr
  obtain ⟨r, hrec, hgood⟩ := (hinv.disk.crash hg.noTrace ch).open_ok
  exact ⟨r, hrec, C04.consistent_of_good hl hw hgood⟩

/-- a flush in which the table `Write` fails once (with effect), the creation of the table fails once, the
    append to the manifest fails without effect (so that the retry writes a new manifest), the `Write` of the
    new manifest fails once and the removal of the old manifest fails -/
def faultyFlush : List Act :=
  [.wAppend C04.putKV true .ok, .wSync .ok, .wApply, .wPublish, .wAck, .rotate .ok, .flushStart,
   .job false .ok, .job false .failEffect,             -- tCreate, tWrite fails: back to tCreate
   .job false .failNoEffect,                            -- tCreate fails
   .job false .ok, .job false .ok, .job false .ok,      -- the table
   .job false .failNoEffect,                            -- append fails: `manifestFailed`
   .job false .ok,                                      -- append: a new manifest is created
   .job false .failEffect,                              -- rotWrite fails: the new manifest is dropped
   .job false .ok, .job false .ok, .job false .ok, .job false .ok,   -- create, rotWrite, rotSync, rotSetMeta
   .job false .failNoEffect,                            -- rotRemove fails: logged
   .job false .ok, .job false .failNoEffect, .job false .ok, .job false .ok, .job false .ok]

/-- … is a run `fault_safe_jobs` speaks about, the acknowledged write survives every step of it … -/
example : allowed {} (fun sd a => a.jobFaultsOnly sd.1) init faultyFlush = true := by decide
example : (List.range (faultyFlush.length + 1)).all (fun n =>
    C04.losesAcked {} {} (faultyFlush.take n) == some false) = true := by decide
/-- … the flush completes and the value is read from the table after a reopen -/
example : (run {} init faultyFlush).map (fun sd => (sd.1.job, sd.2.journals.map (·.1), sd.2.current,
    sd.2.manifests.map (·.1))) = some (none, [2, 3], some 6, [1, 6]) := by decide
example : C04.readsK {} faultyFlush = some (some [118]) := by decide

/-- **C08 for the whole machine, D10 and D26 excepted.**  Every run whose storage faults are those of
    `Act.faultsOK` — *any* failure, with or without effect, of any storage operation the machine performs, except
    the append/`Sync` of a manifest record failing after it took effect (`Act.noD10`) and `SetMeta` failing after
    it took effect (`Act.noD26`), both evaluated in the state in which the action is taken — ends in a state all
    of whose crash images open and are consistent with the history (the statement of `C04.crash_consistent`).
    This includes a journal `Write`/`Flush`/`Sync` of the write path failing with the record in the file followed
    by a transaction (the record is then *below* the manifest's sequence number and the next `Open` skips it),
    and `newMem`'s `Create` failing after the file was made (an empty journal with a re-usable number stays).
    `consumeSeqOnJournalError` is the repair of D4.  `Open` is the default one: with `Options.StrictJournal` the
    skipped record makes `Open` fail instead (outside the model, see the header). -/
theorem fault_safe_writer {cfg : Cfg} (hg : cfg.Good) (hcs : cfg.consumeSeqOnJournalError = true)
    {as : List Act} {s : St} {d : Disk}
    (hal : Allowed cfg Act.faultsOK init as) (hr : run cfg init as = some (s, d))
    {d' : Disk} (hi : IsCrashImage d d') {c : UCmp} (hl : LawfulUCmp c) (hw : ∀ g ∈ issuedGrps s, g.wf) :
    ∃ r, recoverR cfg d' = .ok r ∧ ∃ sel, C04.Consistent c s r sel := by
  obtain ⟨ch, rfl⟩ := hi
  have hinv : Inv cfg s d := inv_run_faults hg hcs (inv_init cfg) as hal hr
  obtain ⟨r, hrec, hgood⟩ := (hinv.disk.crash hg.noTrace ch).open_ok
  exact ⟨r, hrec, C04.consistent_of_good hl hw hgood⟩

/-- a write whose journal `Write` fails after the record reached the file, a write whose `Sync` fails, a good
    synced write, then the rotation of the buffer and its flush — with a failing table `Write` on the way -/
def faultyWrites : List Act :=
  [.wAppend [⟨1, [97], [1]⟩] true .failEffect,                       -- "a": Write fails, the record is in the file
   .wAppend [⟨1, [98], [2]⟩] true .ok, .wSync .failNoEffect,         -- "b": Sync fails
   .wAppend C04.putKV true .ok, .wSync .ok, .wApply, .wPublish, .wAck,   -- "k": acknowledged with Sync
   .rotate .failNoEffect, .rotate .ok, .flushStart,
   .job false .ok, .job false .failEffect,                            -- tCreate, tWrite fails
   .job false .ok, .job false .ok, .job false .ok,                    -- the table
   .job false .ok, .job false .ok, .job false .ok,                    -- append, sync, install
   .job false .ok, .job false .ok, .job false .ok, .job false .ok]    -- removals, done

/-- … is a run `fault_safe_writer` speaks about; the acknowledged write survives a crash after every
    prefix; after the flush the failed records are gone with the journal, the acknowledged value is read -/
example : allowed {} Act.faultsOK init faultyWrites = true := by decide
example : (List.range (faultyWrites.length + 1)).all (fun n =>
    C04.losesAcked {} {} (faultyWrites.take n) == some false) = true := by decide
example : C04.readsK {} faultyWrites = some (some [118]) := by decide
/-- before the flush a reopen (no crash) replays the failed records too: "a" and "b" are wholly applied -/
example : readsAB {} (faultyWrites.take 8) = some (some [1], some [2]) := by decide
/-- … after it they are wholly absent -/
example : readsAB {} faultyWrites = some (none, none) := by decide

/-- the two cases that need the weakened invariant: a write whose journal `Write` fails with the record
    in the file while the buffer is empty, then a transaction over that journal (its commit puts the manifest's
    sequence number above the record), an acknowledged write, a crash and the recovery; and before that a
    `newMem` whose `Create` fails after the file was made, twice, with a table taking the number in between -/
def staleRecordAndLeftover : List Act :=
  [.wAppend C04.putKV true .ok, .wSync .ok, .wApply, .wPublish, .wAck,
   .rotate .failEffect, .rotate .ok, .flushStart] ++ List.replicate 10 (.job false .ok) ++
  [.rotate .failEffect, .compactStart [4]] ++ List.replicate 10 (.job false .ok) ++
  [.wAppend [⟨1, [97], [1]⟩] true .failEffect,                        -- "a": failed, but in the journal
   .trBegin, .trPut [⟨1, [98], [2]⟩], .trCommit] ++ List.replicate 9 (.job false .ok) ++    -- "b" by transaction
  [.crash {}, .recOpen, .recStep, .recStep] ++ List.replicate 4 (.job false .ok)

example : allowed {} Act.faultsOK init staleRecordAndLeftover = true := by decide
example : (run {} init staleRecordAndLeftover).isSome = true := by decide
example : (List.range (staleRecordAndLeftover.length + 1)).all (fun n =>
    C04.losesAcked {} {} (staleRecordAndLeftover.take n) == some false) = true := by decide
/-- after the transaction a reopen skips "a" (below the manifest's sequence number) and has "b" and "k" -/
example : readsAB {} (staleRecordAndLeftover.take 45) = some (none, some [2]) := by decide
example : C04.readsK {} staleRecordAndLeftover = some (some [118]) := by decide

/-! ## the records of D10 and D26, and the double fault that is left -/

/-- a transaction whose commit fails at the manifest `Sync` — after the record became durable —, three attempts later
    (here: at once) the client discards it -/
def trCommitSyncFailsThenDiscard : List Act :=
  [.trBegin, .trPut C04.putKV, .trCommit, .job false .ok, .job false .ok, .job false .ok,   -- the table
   .job false .ok, .job false .failEffect,                                                   -- append, Sync fails
   .trDiscard]

/-- **D10 (the code as found, `discardKeepsTablesWhenUncertain = false`).**  `Transaction.discard` removes the
    transaction's table although the record that names it is in the manifest: the next `Open` fails with missing
    files — after a clean exit and after a crash. -/
theorem d10_discard_after_failed_commit_loses_table :
    ((run { discardKeepsTablesWhenUncertain := false } init trCommitSyncFailsThenDiscard).map fun sd =>
      (C04.openError { discardKeepsTablesWhenUncertain := false } sd.2,
       C04.openError { discardKeepsTablesWhenUncertain := false } (crashWith {} sd.2))) =
    some (some .missingFiles, some .missingFiles) := by decide

/-- … repaired (commit 5cf4e90): the manifest is uncertain, the table stays; `Open` succeeds and the transaction that
    was reported as failed is there as a whole -/
example : ((run {} init trCommitSyncFailsThenDiscard).map fun sd =>
    (C04.openError {} sd.2, C04.openError {} (crashWith {} sd.2), sd.2.tables.map (·.1))) =
    some (none, none, [3]) := by decide
example : C04.readsK {} trCommitSyncFailsThenDiscard = some (some [118]) := by decide

/-- a synced write, its flush with the commit rotating the manifest; `SetMeta` reports an error (`o`) -/
def flushRotatingSetMeta (getMetaFails : Bool) (o : Outcome) : List Act :=
  [.wAppend C04.putKV true .ok, .wSync .ok, .wApply, .wPublish, .wAck, .rotate .ok, .flushStart,
   .job false .ok, .job false .ok, .job false .ok,                      -- the table
   .job true .ok, .job false .ok, .job false .ok,                       -- newManifest: Create, the record, Sync
   .job getMetaFails o]                                                 -- SetMeta

/-- **D26 (the code as found, `cleanupChecksCurrent = false`).**  `SetMeta` fails after it took effect, the cleanup of
    `newManifest` removes the manifest `CURRENT` names: every later `Open` fails. -/
theorem d26_setmeta_effect_then_cleanup_loses_current :
    ((run { cleanupChecksCurrent := false } init (flushRotatingSetMeta false .failEffect)).map fun sd =>
      (C04.openError { cleanupChecksCurrent := false } sd.2, sd.2.current, sd.2.manifests.map (·.1))) =
    some (some .corrupted, some 5, [1]) := by decide

/-- … repaired (commit 8a67fea): `GetMeta` names the new manifest, it is kept; the commit fails all the same, is
    retried, and writes yet another manifest -/
example : ((run {} init (flushRotatingSetMeta false .failEffect)).map fun sd =>
    (C04.openError {} sd.2, sd.2.current, sd.2.manifests.map (·.1), sd.1.manifestFailed, sd.1.manifestFd)) =
    some (none, some 5, [1, 5], true, some 1) := by decide
example : C04.losesAcked {} {} (flushRotatingSetMeta false .failEffect) = some false := by decide
example : C04.losesAcked {} {} (flushRotatingSetMeta false .failEffect ++
    [.job false .ok, .job false .ok, .job false .ok, .job false .ok, .job false .ok]) = some false := by decide

/-- **D26, second part (commit 8a67fea alone, `cleanupKeepsWhenGetMetaFails = false`): two storage faults in a row.**
    `SetMeta` reports an error after it took effect *and* the `GetMeta` of the cleanup fails too: `gerr != nil`, the
    cleanup falls through to `Remove(fd)` and removes the manifest `CURRENT` names. -/
theorem setmeta_and_getmeta_fail_lose_current :
    ((run { cleanupKeepsWhenGetMetaFails := false } init (flushRotatingSetMeta true .failEffect)).map fun sd =>
      (C04.openError { cleanupKeepsWhenGetMetaFails := false } sd.2, sd.2.current, sd.2.manifests.map (·.1))) =
    some (some .corrupted, some 5, [1]) := by decide

/-- … repaired (commit 98bd5c2, `metaTried`): the manifest is kept when `GetMeta` fails (`gerr != nil || cur == fd`) —
    also when `SetMeta` had no effect: the file stays behind, not current, `manifestFailed` is set -/
example : ((run {} init (flushRotatingSetMeta true .failEffect)).map fun sd =>
    (C04.openError {} sd.2, sd.2.current, sd.2.manifests.map (·.1), sd.1.manifestFailed)) =
    some (none, some 5, [1, 5], true) := by decide
example : ((run {} init (flushRotatingSetMeta true .failNoEffect)).map fun sd =>
    (C04.openError {} sd.2, sd.2.current, sd.2.manifests.map (·.1), sd.1.manifestFailed)) =
    some (none, some 1, [1, 5], true) := by decide
example : C04.losesAcked {} {} (flushRotatingSetMeta true .failNoEffect ++
    [.job false .ok, .job false .ok, .job false .ok, .job false .ok, .job false .ok]) = some false := by decide

/-- the model follows the code in the tree for the two repairs (`tools/extract`): `Transaction.discard` returns
    before its removal loop when `tr.db.s.manifestUncertain()`; the error branch of `newManifest`'s cleanup, once
    `SetMeta(fd)` has been attempted (`metaTried`), asks `s.stor.GetMeta()` and keeps the file when
    `gerr != nil || cur == fd`, before `s.stor.Remove(fd)` -/
theorem code_discard_guard_and_cleanup_check :
    C04.codeCfg.discardKeepsTablesWhenUncertain = true ∧ Gen.discardGuardsUncertainManifest = true ∧
    C04.codeCfg.cleanupChecksCurrent = true ∧ C04.codeCfg.cleanupKeepsWhenGetMetaFails = true ∧
    Gen.newManifestCleanupChecksCurrent = true ∧ C04.codeCfg = {} := by
  decide

/-- `fault_safe_writer` from an empty storage: the machine with the creation of the DB in front
    (`Dur.bigStep`), every storage operation of the creation may fail as well (`SetMeta` after it took effect
    excepted, as `noD26`) and the machine may crash inside it. -/
theorem fault_safe_writer_created {cfg : Cfg} (hg : cfg.Good) (hcs : cfg.consumeSeqOnJournalError = true)
    (hc : cfg.manifestsAloneAreNoDB = true) {xs : List BAct} {b : Big}
    (hal : bigAllowed cfg Act.faultsOK CPc.noD26 init0 xs = true) (hr : bigRun cfg init0 xs = some b)
    {d' : Disk} (hi : IsCrashImage b.disk d') {c : UCmp} (hl : LawfulUCmp c) (hw : ∀ g ∈ issuedGrps b.st, g.wf) :
    ∃ r, recoverR cfg d' = .ok r ∧ ∃ sel, C04.Consistent c b.st r sel := by
  obtain ⟨ch, rfl⟩ := hi
  have hinv : BigInv cfg b := by
    refine bigInv_run (fun s d a s' d' h hp hs => inv_step_faults hg h (Or.inr hcs) hp hs) ?_ (bigInv_init0 cfg) xs hal hr
    intro pc o gm hq hp ho
    subst hp ho
    simp [CPc.noD26] at hq
  obtain ⟨r, hrec, hgood⟩ := hinv.open_ok hg.noTrace hc ch
  exact ⟨r, hrec, C04.consistent_of_good hl hw hgood⟩

/-- every storage operation of the creation fails once (with effect where it can), then the DB is created and used -/
def faultyCreation : List BAct :=
  [.c .failEffect false, .c .ok false, .c .failEffect false, .c .ok false, .c .ok false, .c .failNoEffect false,
   .c .ok false, .c .ok false, .c .ok false, .c .failNoEffect false, .c .ok false, .c .ok false, .c .ok false, .c .ok false] ++
  (([Act.recStep] ++ List.replicate 8 (Act.job false .ok) ++
    [Act.wAppend C04.putKV true .ok, Act.wSync .ok, Act.wApply, Act.wPublish, Act.wAck] : List Act).map BAct.a)

example : bigAllowed {} Act.faultsOK CPc.noD26 init0 faultyCreation = true := by decide
example : (bigRun {} init0 faultyCreation).map (fun b => (C04.openError {} (crashWith {} b.disk), b.st.phase)) =
    some (none, .running) := by decide

/-- **The statement with every fault class**: crash consistency for every run of the machine with the creation in
    front in which any storage operation may fail in any way, for the configuration with D4, D10, D12 and D26 repaired. -/
def fault_safe_full : Prop :=
  ∀ (cfg : Cfg), cfg.Good → cfg.consumeSeqOnJournalError = true → cfg.manifestsAloneAreNoDB = true →
    cfg.discardKeepsTablesWhenUncertain = true → cfg.cleanupChecksCurrent = true →
    cfg.cleanupKeepsWhenGetMetaFails = true →
    ∀ (xs : List BAct) (b : Big), bigRun cfg init0 xs = some b →
      ∀ d', IsCrashImage b.disk d' → ∀ (c : UCmp), LawfulUCmp c → (∀ g ∈ issuedGrps b.st, g.wf) →
        ∃ r, recoverR cfg d' = .ok r ∧ ∃ sel, C04.Consistent c b.st r sel

theorem bigAllowed_true (cfg : Cfg) (b : Big) (xs : List BAct) :
    bigAllowed cfg (fun _ _ => true) (fun _ _ _ => true) b xs = true := by
  induction xs generalizing b with
  | nil => rfl
  | cons x xs ih =>
    unfold bigAllowed
    rw [Bool.and_eq_true]
    refine ⟨by split <;> rfl, ?_⟩
    cases bigStep cfg b x with
    | none => rfl
    | some b' => exact ih b'

/-- **C08 for the repaired code, every storage fault.**  From an empty storage (`Dur.init0`: the creation of the DB in
    front, every one of its operations may fail, the machine may crash inside it), for the configuration with D4, D10,
    D12 and D26 repaired: **every run** — any storage operation failing in any way, the append of a commit's record, the
    manifest `Sync` and `SetMeta` failing *with the record in the file / after `CURRENT` was switched* included (the
    shapes of D10 and D26), with `Discard`s of the failed transactions, retries, and further faults in between — ends
    in a state all of whose crash images open and are consistent with the history. -/
theorem fault_safe : fault_safe_full := by
  intro cfg hg hcs hc h10 h26a h26b xs b hr d' hi c hl hw
  obtain ⟨ch, rfl⟩ := hi
  have hrep : cfg.Repaired := ⟨hg, hcs, h10, h26a, h26b⟩
  have hinv : BigInv cfg b := by
    refine bigInv_run (P := fun _ _ => true) (Q := fun _ _ _ => true)
      (fun s d a s' d' h _ hs => inv_step_repaired hrep h hs) ?_ (bigInv_init0 cfg) xs (bigAllowed_true cfg _ xs) hr
    intro pc o gm _ _ _
    rw [h26a, h26b]
    cases gm <;> rfl
  obtain ⟨r, hrec, hgood⟩ := hinv.open_ok hg.noTrace hc ch
  exact ⟨r, hrec, C04.consistent_of_good hl hw hgood⟩

/-- … and from the created DB (`Dur.init`) -/
theorem fault_safe_running {cfg : Cfg} (hg : cfg.Good) (hcs : cfg.consumeSeqOnJournalError = true)
    (h10 : cfg.discardKeepsTablesWhenUncertain = true)
    (h26a : cfg.cleanupChecksCurrent = true) (h26b : cfg.cleanupKeepsWhenGetMetaFails = true)
    {as : List Act} {s : St} {d : Disk} (hr : run cfg init as = some (s, d))
    {d' : Disk} (hi : IsCrashImage d d') {c : UCmp} (hl : LawfulUCmp c) (hw : ∀ g ∈ issuedGrps s, g.wf) :
    ∃ r, recoverR cfg d' = .ok r ∧ ∃ sel, C04.Consistent c s r sel := by
  obtain ⟨ch, rfl⟩ := hi
  have hinv : Inv cfg s d := inv_run_repaired ⟨hg, hcs, h10, h26a, h26b⟩ (inv_init cfg) as hr
  obtain ⟨r, hrec, hgood⟩ := (hinv.disk.crash hg.noTrace ch).open_ok
  exact ⟨r, hrec, C04.consistent_of_good hl hw hgood⟩

/-- a transaction whose commit fails at the append of its record — after the record reached the file —, the client
    discards it; then a synced write, the rotation of the buffer and its flush, whose commit goes through
    `newManifest` (`manifestFailed`) with `SetMeta` failing after it took effect, and the retry -/
def trAppendFailsDiscardThenSetMetaFails : List Act :=
  [.trBegin, .trPut [⟨1, [98], [2]⟩], .trCommit, .job false .ok, .job false .ok, .job false .ok,   -- the table
   .job false .failEffect,                                              -- append fails, the record is in the file
   .trDiscard,                                                          -- the table stays
   .wAppend C04.putKV true .ok, .wSync .ok, .wApply, .wPublish, .wAck, .rotate .ok, .flushStart,
   .job false .ok, .job false .ok, .job false .ok,                      -- the table of the flush
   .job false .ok, .job false .ok, .job false .ok,                      -- newManifest: Create, the record, Sync
   .job false .failEffect,                                              -- SetMeta fails after it took effect
   .job false .ok, .job false .ok, .job false .ok, .job false .ok,      -- the retry: another manifest
   .job false .ok, .job false .ok, .job false .ok, .job false .ok, .job false .ok, .job false .ok]

/-- … is a run `fault_safe_running` speaks about and none `fault_safe_writer` does; the acknowledged
    write survives a crash after every prefix; at the end the flush is complete and the value is read -/
example : allowed {} Act.faultsOK init trAppendFailsDiscardThenSetMetaFails = false := by decide
example : (List.range (trAppendFailsDiscardThenSetMetaFails.length + 1)).all (fun n =>
    C04.losesAcked {} {} (trAppendFailsDiscardThenSetMetaFails.take n) == some false) = true := by decide
example : (run {} init trAppendFailsDiscardThenSetMetaFails).map (fun sd => (sd.1.job, sd.1.limbo.isSome, sd.1.manifestFailed)) =
    some (none, false, false) := by decide
example : C04.readsK {} trAppendFailsDiscardThenSetMetaFails = some (some [118]) := by decide
/-- after the `Discard` the storage is ahead of the session (the ghost edit), every crash image opens, the discarded
    transaction's table is adopted by that `Open` -/
example : (run {} init (trAppendFailsDiscardThenSetMetaFails.take 8)).map (fun sd =>
    (sd.1.limbo.isSome, sd.1.job, C04.openError {} (crashWith {} sd.2), sd.2.tables.map (·.1))) =
    some (true, none, none, [3]) := by decide

/-- a synced write and its flush; the `Sync` of the manifest after the append of the commit's record fails (`o`: with the
    record durable or not); the commit is retried through `newManifest` and completes -/
def flushManifestSyncFails (o : Outcome) : List Act :=
  [.wAppend C04.putKV true .ok, .wSync .ok, .wApply, .wPublish, .wAck, .rotate .ok, .flushStart,
   .job false .ok, .job false .ok, .job false .ok,                      -- the table
   .job false .ok, .job false o] ++                                     -- append, Sync fails
  List.replicate 10 (.job false .ok)                                    -- the retry, the removals

/-- … no acknowledged write is lost after any prefix, whichever way the `Sync` fails; the storage is ahead of the
    session after the failure; the flush completes and the value is read -/
example : (List.range ((flushManifestSyncFails .failEffect).length + 1)).all (fun n =>
    C04.losesAcked {} {} ((flushManifestSyncFails .failEffect).take n) == some false) = true := by decide
example : (List.range ((flushManifestSyncFails .failNoEffect).length + 1)).all (fun n =>
    C04.losesAcked {} {} ((flushManifestSyncFails .failNoEffect).take n) == some false) = true := by decide
example : (run {} init ((flushManifestSyncFails .failNoEffect).take 12)).map (fun sd =>
    (sd.1.limbo.isSome, sd.1.manifestFailed, sd.1.job.map (·.pc))) = some (true, true, some .append) := by decide
example : (run {} init (flushManifestSyncFails .failNoEffect)).map (fun sd => (sd.1.job, sd.1.limbo.isSome)) =
    some (none, false) := by decide
example : C04.readsK {} (flushManifestSyncFails .failEffect) = some (some [118]) := by decide
example : C04.readsK {} (flushManifestSyncFails .failNoEffect) = some (some [118]) := by decide

/-- The property theorems of this file (for the audit). -/
def theorems : List String :=
  ["GoLevel.C08.fault_safe_partial", "GoLevel.C08.fault_safe_jobs", "GoLevel.C08.fault_safe_writer",
   "GoLevel.C08.fault_safe_writer_created", "GoLevel.C08.fault_safe",
   "GoLevel.C08.fault_safe_running", "GoLevel.C08.d4_loses_acked_write",
   "GoLevel.C08.d10_discard_after_failed_commit_loses_table",
   "GoLevel.C08.d26_setmeta_effect_then_cleanup_loses_current", "GoLevel.C08.setmeta_and_getmeta_fail_lose_current",
   "GoLevel.C08.code_discard_guard_and_cleanup_check"]

end GoLevel.C08
