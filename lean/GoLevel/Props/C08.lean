import GoLevel.Proofs.DurableFault
/-!
# Property C08 — storage failures

"Whatever sequence of storage failures occurs … the DB never returns a wrong value and never loses or hides
a write it reported as successful, neither while running nor after a later reopen.  A write that returned an
error is either wholly applied or wholly absent …, and with checksum verification on (the default) damaged
data is reported as an error rather than served."

Model: the same machine as C04 (`Dur.step`); every storage action carries an `Outcome`
(`ok | failNoEffect | failEffect`), the error paths are those of the code (`writeLocked` returns the error;
`compactionTransact` retries; `tWriter.drop`; `newManifest`'s clean-up; `Open` gives up).

What is proved (`fault_safe_partial`): for the *write path* (`wAppend`, `wSync`, `wApply`, `wPublish`,
`wAck` on the initial journal; no buffer rotation, no flush), with **every journal `Write`/`Flush`/`Sync`
allowed to fail at any position, with or without effect, any number of times**, and with
`consumeSeqOnJournalError = true` (a failed group consumes its sequence numbers):

* while running, the write buffer — what `Get` and iterators read — holds exactly the acknowledged groups
  plus the one just applied; a failed group is never in it;
* after a reopen without a crash `Open` succeeds and returns exactly the journal's groups: every
  acknowledged group (with or without `Sync`), only issued groups, each whole;
* after a crash, every crash image opens, with every group acknowledged with `Sync`, only issued groups, each
  whole.

`d4_loses_acked_write`: the explicit losing run for the code as found (`consumeSeqOnJournalError = false`,
D4): a journal `Sync` fails, the next write re-uses the sequence number, is acknowledged with `Sync`, and is
dropped by `decodeBatchToMem` at the next `Open`.

Not proved (`fault_safe_full`): the same for the whole machine (faults in the flush, the manifest commit and
rotation, table compaction, transaction commit, and recovery).  The machine models these error paths, and
random exploration of it (4 000 runs of 200 steps with 18 % injected faults, crash images checked after every
step, `Scratch/Explore.lean` in the work area) finds no violation for the
repaired configuration, but the invariant of `Proofs/Durable*.lean` is proved for fault-free steps only: with
faults the journal holds failed groups that are not in the write buffer, which `RunOK.jcur`/`FrozenFacts`
state as an equality.  Assumption made explicit in the model: a `SetMeta` that fails has had no effect
(`stepJob`, pc `rotSetMeta`) — with `failEffect` there, `newManifest` removes the manifest `CURRENT` already
names; `fileStorage.GetMeta` survives this only through its `CURRENT.bak` fallback, which is outside the
`storage.Storage` contract.  Damaged data under checksum verification: C12 (journal chunks) and C13 (table
blocks).
-/
namespace GoLevel.C08
open GoLevel GoLevel.Dur

/-- the groups whose write returned `nil` -/
def acked (s : St) (g : Grp) : Prop := statusOf s g .acked

/-- **C08 for the write path under journal faults** (`consumeSeqOnJournalError = true`). -/
theorem fault_safe_partial {cfg : Cfg} (hc : cfg.consumeSeqOnJournalError = true) {s : St} {d : Disk}
    (hr : ReachableW cfg (s, d)) :
    -- while running: reads see the acknowledged groups and the one just applied, nothing else
    ((∀ g ∈ s.mem, g ∈ issuedGrps s ∧ (acked s g ∨ g ∈ appliedNow s.w)) ∧ (∀ g, acked s g → g ∈ s.mem)) ∧
    -- after a reopen (no crash): everything acknowledged, only issued groups, each whole
    (∃ r, recoverR cfg d = .ok r ∧ (∀ g, acked s g → g ∈ r.grps) ∧ (∀ g ∈ r.grps, g ∈ issuedGrps s) ∧
      r.entries = r.grps.flatMap Grp.ents) ∧
    -- after a crash: everything acknowledged with `Sync`
    (∀ ch, ∃ r, recoverR cfg (crashWith ch d) = .ok r ∧
      (∀ g, acked s g → g.sync = true → g ∈ r.grps) ∧ (∀ g ∈ r.grps, g ∈ issuedGrps s)) := by
  obtain ⟨jf, hw⟩ := winv_reachable hc hr
  have hw' : WInv s d jf := hw
  obtain ⟨⟨_, _, hcur, hman, htab, hjs⟩, hasc, _, hiss, ⟨hm1, hm2, _⟩, _, ⟨hsy, _⟩⟩ := hw'
  refine ⟨⟨fun g hg => ⟨hiss g (hm1 g hg).1, (hm1 g hg).2⟩, hm2⟩, ?_, fun ch => ?_⟩
  · obtain ⟨r, hrec, hgr⟩ := recoverR_wpath cfg hcur (by rw [hman]) htab hjs hasc
    refine ⟨r, hrec, fun g hg => ?_, fun g hg => ?_, rfl⟩
    · rw [hgr]; exact (hm1 g (hm2 g hg)).1
    · rw [hgr] at hg; exact hiss g hg
  · have hall := crashLog_all (ch.cutJ 2) jf
    have hjs' : (crashWith ch d).journals = [(2, crashLog (ch.cutJ 2) jf)] := by
      simp [crashWith, hjs]
    have hman' : lookup (crashWith ch d).manifests 1 = lookup init.2.manifests 1 := by
      have : (crashWith ch d).manifests =
          d.manifests.map fun p => (p.1, crashManifest (ch.cutM p.1) (ch.tornM p.1) p.2) := rfl
      rw [this, lookup_map_snd d.manifests (fun n f => crashManifest (ch.cutM n) (ch.tornM n) f) 1, hman]
      show (some _ : Option (LogFile MRec)).map _ = some _
      simp only [Option.map_some]
      cases ch.tornM 1 <;> simp [crashManifest, crashLog]
    have hasc' : AscFrom 0 (crashLog (ch.cutJ 2) jf).all := by
      rw [hall.2.2] at hasc; exact hasc.of_append_left
    obtain ⟨r, hrec, hgr⟩ := recoverR_wpath cfg (d := crashWith ch d) hcur hman' (by simp [crashWith, htab]) hjs' hasc'
    refine ⟨r, hrec, fun g hg hgs => ?_, fun g hg => ?_⟩
    · rw [hgr, hall.1]; exact List.mem_append_left _ (hsy g hg hgs)
    · rw [hgr] at hg
      apply hiss
      rw [hall.2.2]; exact List.mem_append_left _ hg

/-! ## non-vacuity, and D4 -/

def putA : List Batch.Rec := [⟨1, [97], [1]⟩]
def putB : List Batch.Rec := [⟨1, [98], [2]⟩]

/-- a journal `Sync` fails (the record is in the file), then a second write is acknowledged with `Sync` -/
def syncFailsThenWrite : List Act :=
  [.wAppend putA true .ok, .wSync .failNoEffect,
   .wAppend putB true .ok, .wSync .ok, .wApply, .wPublish, .wAck]

/-- the acknowledged-with-`Sync` groups missing after a reopen of the final state of a run -/
def lostAfterReopen (cfg : Cfg) (as : List Act) : Option (List Nat) :=
  (run cfg init as).map fun sd =>
    match recoverR cfg sd.2 with
    | .ok r => ((Dur.ackedSync sd.1.issued).filter fun g => !(r.grps.contains g)).map (·.seq)
    | .error _ => [0]

/-- what the reopened DB returns for keys `"a"` and `"b"` -/
def readsAB (cfg : Cfg) (as : List Act) : Option (Option Bytes × Option Bytes) :=
  (run cfg init as).map fun sd =>
    match recoverR cfg sd.2 with
    | .ok r => (r.get bytewise [97], r.get bytewise [98])
    | .error _ => (none, none)

/-- with the sequence numbers consumed, the acknowledged write `b` is there after the reopen; the failed write
    `a` happens to be there as well (its record reached the file) — wholly -/
example : lostAfterReopen {} syncFailsThenWrite = some [] := by decide
example : readsAB {} syncFailsThenWrite = some (some [1], some [2]) := by decide

/-- **D4 (the code as found).**  The failed group keeps sequence number 1, the next group gets 1 again, is
    acknowledged with `Sync` — and `Open` drops it ("invalid sequence number"): `b` is gone, `a`, whose write
    returned an error, is served. -/
theorem d4_loses_acked_write :
    lostAfterReopen { consumeSeqOnJournalError := false } syncFailsThenWrite = some [1] ∧
    readsAB { consumeSeqOnJournalError := false } syncFailsThenWrite = some (some [1], none) := by decide

/-- The statement for the whole machine with faults everywhere (not proved, see the header). -/
def fault_safe_full : Prop :=
  ∀ (cfg : Cfg), cfg.Good → cfg.consumeSeqOnJournalError = true → ∀ (s : St) (d : Disk), Reachable cfg (s, d) →
    (∀ ch, ∃ r, recoverR cfg (crashWith ch d) = .ok r ∧
      (∀ g, acked s g → g.sync = true → g ∈ r.grps) ∧ (∀ g ∈ r.grps, g ∈ issuedGrps s)) ∧
    (s.phase = .running → ∀ g, acked s g → g ∈ s.mem ∨ (∃ fz, s.frozen = some fz ∧ g ∈ fz) ∨
      ∃ t ∈ s.live, g ∈ tableGrpsOf d t)

/-- The property theorems of this file (for the audit). -/
def theorems : List String :=
  ["GoLevel.C08.fault_safe_partial", "GoLevel.C08.d4_loses_acked_write"]

end GoLevel.C08
