import GoLevel.Proofs.DurableFault
import GoLevel.Proofs.DurableStepFault
import GoLevel.Props.C04
/-!
# Property C08 — storage failures

"Whatever sequence of storage failures occurs … the DB never returns a wrong value and never loses or hides
a write it reported as successful, neither while running nor after a later reopen.  A write that returned an
error is either wholly applied or wholly absent …, and with checksum verification on (the default) damaged
data is reported as an error rather than served."

Model: the same machine as C04 (`Dur.step`); every storage action carries an `Outcome`
(`ok | failNoEffect | failEffect`), the error paths are those of the code (`writeLocked` returns the error;
`compactionTransact` retries; `tWriter.drop`; `newManifest`'s clean-up; `Open` gives up).

What is proved (`fault_safe_partial`): for the *write path* (`wAppend`, `wSync`, `wApply`, `wPublish`,
`wAck` on the initial journal; no buffer rotation, no flush), with **every journal `Write`/`Flush`/`Sync`
allowed to fail at any position, with or without effect, any number of times**, and with
`consumeSeqOnJournalError = true` (a failed group consumes its sequence numbers):

* while running, the write buffer — what `Get` and iterators read — holds exactly the acknowledged groups
  plus the one just applied; a failed group is never in it;
* after a reopen without a crash `Open` succeeds and returns exactly the journal's groups: every
  acknowledged group (with or without `Sync`), only issued groups, each whole;
* after a crash, every crash image opens, with every group acknowledged with `Sync`, only issued groups, each
  whole.

`d4_loses_acked_write`: the explicit losing run for the code as found (`consumeSeqOnJournalError = false`,
D4): a journal `Sync` fails, the next write re-uses the sequence number, is acknowledged with `Sync`, and is
dropped by `decodeBatchToMem` at the next `Open`.

What is proved for the whole machine (`fault_safe_jobs`): crash consistency (the statement of
`C04.crash_consistent`) for every run in which **the storage operations of a memdb flush, a table compaction,
a transaction commit and a recovery may fail**, with or without effect, at any position and any number of times:
create / write / sync of an output table (the half-made table is dropped, the job retries; a recovery gives
up), the journal `newMem` creates in a recovery, the creation / write / sync of a new manifest and `SetMeta`
(the new manifest is dropped, the commit is retried), the append of a record to the manifest failing without
effect (`session.manifestFailed`: the retry writes a fresh manifest — the repair of D8), the removal of the old
manifest (logged only — the repair of D27), every removal of an obsolete file (logged only).  The two known
findings are excluded by hypotheses named after them, evaluated in the state in which the action is taken:
`Act.noD10` (the append to the manifest does not fail after the record reached the file, the manifest `Sync`
does not fail) and `Act.noD26` (`SetMeta` does not fail after it took effect — the machine has no such step:
with `failEffect` there `newManifest` removes the manifest `CURRENT` already names; `fileStorage.GetMeta`
survives this only through its `CURRENT.bak` fallback, which is outside the `storage.Storage` contract).
Journal faults of the write path are excluded there (`Act.writerFaultFree`).

`fault_safe_writer_partial` adds them: the same statement for every run whose faults are those of
`fault_safe_jobs` **and every journal `Write`/`Flush`/`Sync` failure of the write path, with or without effect**,
interleaved in any way with rotations, flushes, table compactions, transactions and recoveries
(`consumeSeqOnJournalError = true`, the repair of D4).  The invariant no longer says "current journal = write
buffer ++ group in flight" but `JournalHolds`: the buffer's groups are in the journal, every group in the
journal that is not in the buffer is not acknowledged and lies at or below `seq` (a failed group: its numbers
are consumed, its record may or may not be in the file), and — as long as no journal operation has failed
(ghost `St.everFailed`) — the journal is exactly the buffer.  Two restrictions remain besides `noD10`/`noD26`,
both evaluated in the state in which the action is taken (`Act.faultsOK`):

* `Act.trOnCleanJournals`: no `OpenTransaction` while the record of a failed write may wait in a journal the
  next `Open` replays.  The step that breaks: the commit of the transaction puts `seqNum = tr.seq` into the
  manifest, above the failed record still in the current journal, so "every replayed record is at or above the
  manifest's sequence number" (`ViewOK.jseq`; `EditOK.keep` in `Inv.editOK_tr`) fails.  In the code
  `decodeBatchToMem` then refuses that record ("invalid sequence number"): dropped in the default mode — which
  is harmless, it was reported as failed — but with `Options.StrictJournal` the next `Open` fails.  The
  machine's `trBegin` is more liberal than `OpenTransaction`, which first rotates the buffer and waits for its
  flush (`rotateMem(0, true)`): in the code the hypothesis can only fail when that buffer was empty
  (`dropFrozenMem`, no manifest commit) *and* the `Remove` of the old journal failed;
* `Act.rotateCreateOK`: `newMem`'s `Create` of the next journal does not fail after the file was made.

Not proved (`fault_safe_full`): those two cases and D10/D26.  Random exploration of the machine with all faults
(4 000 runs of 200 steps with 18 % injected faults, crash images checked after every step,
`Scratch/Explore.lean` in the work area) finds no violation of crash consistency for the repaired
configuration; restricted to `Act.faultsOK` it finds no violation of the invariant either (4 000 runs with
compactions and transactions), and for the excluded classes it does.  Damaged data under checksum
verification: C12 (journal chunks) and C13 (table blocks).
-/
namespace GoLevel.C08
open GoLevel GoLevel.Dur

/-- the groups whose write returned `nil` -/
def acked (s : St) (g : Grp) : Prop := statusOf s g .acked

/-- **C08 for the write path under journal faults** (`consumeSeqOnJournalError = true`). -/
theorem fault_safe_partial {cfg : Cfg} (hc : cfg.consumeSeqOnJournalError = true) {s : St} {d : Disk}
    (hr : ReachableW cfg (s, d)) :
    -- while running: reads see the acknowledged groups and the one just applied, nothing else
    ((∀ g ∈ s.mem, g ∈ issuedGrps s ∧ (acked s g ∨ g ∈ appliedNow s.w)) ∧ (∀ g, acked s g → g ∈ s.mem)) ∧
    -- after a reopen (no crash): everything acknowledged, only issued groups, each whole
    (∃ r, recoverR cfg d = .ok r ∧ (∀ g, acked s g → g ∈ r.grps) ∧ (∀ g ∈ r.grps, g ∈ issuedGrps s) ∧
      r.entries = r.grps.flatMap Grp.ents) ∧
    -- after a crash: everything acknowledged with `Sync`
    (∀ ch, ∃ r, recoverR cfg (crashWith ch d) = .ok r ∧
      (∀ g, acked s g → g.sync = true → g ∈ r.grps) ∧ (∀ g ∈ r.grps, g ∈ issuedGrps s)) := by
  obtain ⟨jf, hw⟩ := winv_reachable hc hr
  have hw' : WInv s d jf := hw
  obtain ⟨⟨_, _, hcur, hman, htab, hjs⟩, hasc, _, hiss, ⟨hm1, hm2, _⟩, _, ⟨hsy, _⟩⟩ := hw'
  refine ⟨⟨fun g hg => ⟨hiss g (hm1 g hg).1, (hm1 g hg).2⟩, hm2⟩, ?_, fun ch => ?_⟩
  · obtain ⟨r, hrec, hgr⟩ := recoverR_wpath cfg hcur (by rw [hman]) htab hjs hasc
    refine ⟨r, hrec, fun g hg => ?_, fun g hg => ?_, rfl⟩
    · rw [hgr]; exact (hm1 g (hm2 g hg)).1
    · rw [hgr] at hg; exact hiss g hg
  · have hall := crashLog_all (ch.cutJ 2) jf
    have hjs' : (crashWith ch d).journals = [(2, crashLog (ch.cutJ 2) jf)] := by
      simp [crashWith, hjs]
    have hman' : lookup (crashWith ch d).manifests 1 = lookup init.2.manifests 1 := by
      have : (crashWith ch d).manifests =
          d.manifests.map fun p => (p.1, crashManifest (ch.cutM p.1) (ch.tornM p.1) p.2) := rfl
      rw [this, lookup_map_snd d.manifests (fun n f => crashManifest (ch.cutM n) (ch.tornM n) f) 1, hman]
      show (some _ : Option (LogFile MRec)).map _ = some _
      simp only [Option.map_some]
      cases ch.tornM 1 <;> simp [crashManifest, crashLog]
    have hasc' : AscFrom 0 (crashLog (ch.cutJ 2) jf).all := by
      rw [hall.2.2] at hasc; exact hasc.of_append_left
    obtain ⟨r, hrec, hgr⟩ := recoverR_wpath cfg (d := crashWith ch d) hcur hman' (by simp [crashWith, htab]) hjs' hasc'
    refine ⟨r, hrec, fun g hg hgs => ?_, fun g hg => ?_⟩
    · rw [hgr, hall.1]; exact List.mem_append_left _ (hsy g hg hgs)
    · rw [hgr] at hg
      apply hiss
      rw [hall.2.2]; exact List.mem_append_left _ hg

/-! ## non-vacuity, and D4 -/

def putA : List Batch.Rec := [⟨1, [97], [1]⟩]
def putB : List Batch.Rec := [⟨1, [98], [2]⟩]

/-- a journal `Sync` fails (the record is in the file), then a second write is acknowledged with `Sync` -/
def syncFailsThenWrite : List Act :=
  [.wAppend putA true .ok, .wSync .failNoEffect,
   .wAppend putB true .ok, .wSync .ok, .wApply, .wPublish, .wAck]

/-- the acknowledged-with-`Sync` groups missing after a reopen of the final state of a run -/
def lostAfterReopen (cfg : Cfg) (as : List Act) : Option (List Nat) :=
  (run cfg init as).map fun sd =>
    match recoverR cfg sd.2 with
    | .ok r => ((Dur.ackedSync sd.1.issued).filter fun g => !(r.grps.contains g)).map (·.seq)
    | .error _ => [0]

/-- what the reopened DB returns for keys `"a"` and `"b"` -/
def readsAB (cfg : Cfg) (as : List Act) : Option (Option Bytes × Option Bytes) :=
  (run cfg init as).map fun sd =>
    match recoverR cfg sd.2 with
    | .ok r => (r.get bytewise [97], r.get bytewise [98])
    | .error _ => (none, none)

/-- with the sequence numbers consumed, the acknowledged write `b` is there after the reopen; the failed write
    `a` happens to be there as well (its record reached the file) — wholly -/
example : lostAfterReopen {} syncFailsThenWrite = some [] := by decide
example : readsAB {} syncFailsThenWrite = some (some [1], some [2]) := by decide

/-- **D4 (the code as found).**  The failed group keeps sequence number 1, the next group gets 1 again, is
    acknowledged with `Sync` — and `Open` drops it ("invalid sequence number"): `b` is gone, `a`, whose write
    returned an error, is served. -/
theorem d4_loses_acked_write :
    lostAfterReopen { consumeSeqOnJournalError := false } syncFailsThenWrite = some [1] ∧
    readsAB { consumeSeqOnJournalError := false } syncFailsThenWrite = some (some [1], none) := by decide

/-- **C08 for the jobs under storage faults.**  Every run whose faults are those of `Act.jobFaultsOnly` (every
    failure inside a flush, a table compaction, a transaction commit or a recovery, the known findings D10 and
    D26 excepted) ends in a state all of whose crash images open and are consistent with the history. -/
theorem fault_safe_jobs {cfg : Cfg} (hg : cfg.Good) {as : List Act} {s : St} {d : Disk}
    (hal : Allowed cfg (fun sd a => a.jobFaultsOnly sd.1) init as) (hr : run cfg init as = some (s, d))
    {d' : Disk} (hi : IsCrashImage d d') {c : UCmp} (hl : LawfulUCmp c) (hw : ∀ g ∈ issuedGrps s, g.wf) :
    ∃ r, recoverR cfg d' = .ok r ∧ ∃ sel, C04.Consistent c s r sel := by
  obtain ⟨ch, rfl⟩ := hi
  have hinv : Inv cfg s d := inv_run_jobFaults hg (inv_init cfg) rfl as hal hr
  obtain ⟨r, hrec, hgood⟩ := (hinv.disk.crash hg.noTrace ch).open_ok
  exact ⟨r, hrec, C04.consistent_of_good hl hw hgood⟩

/-- a flush in which the table `Write` fails once (with effect), the creation of the table fails once, the
    append to the manifest fails without effect (so that the retry writes a new manifest), the `Write` of the
    new manifest fails once and the removal of the old manifest fails -/
def faultyFlush : List Act :=
  [.wAppend C04.putKV true .ok, .wSync .ok, .wApply, .wPublish, .wAck, .rotate .ok, .flushStart,
   .job false .ok, .job false .failEffect,             -- tCreate, tWrite fails: back to tCreate
   .job false .failNoEffect,                            -- tCreate fails
   .job false .ok, .job false .ok, .job false .ok,      -- the table
   .job false .failNoEffect,                            -- append fails: `manifestFailed`
   .job false .ok,                                      -- append: a new manifest is created
   .job false .failEffect,                              -- rotWrite fails: the new manifest is dropped
   .job false .ok, .job false .ok, .job false .ok, .job false .ok,   -- create, rotWrite, rotSync, rotSetMeta
   .job false .failNoEffect,                            -- rotRemove fails: logged
   .job false .ok, .job false .failNoEffect, .job false .ok, .job false .ok, .job false .ok]

/-- … is a run `fault_safe_jobs` speaks about, the acknowledged write survives every step of it … -/
example : allowed {} (fun sd a => a.jobFaultsOnly sd.1) init faultyFlush = true := by decide
example : (List.range (faultyFlush.length + 1)).all (fun n =>
    C04.losesAcked {} {} (faultyFlush.take n) == some false) = true := by decide
/-- … the flush completes and the value is read from the table after a reopen -/
example : (run {} init faultyFlush).map (fun sd => (sd.1.job, sd.2.journals.map (·.1), sd.2.current,
    sd.2.manifests.map (·.1))) = some (none, [2, 3], some 6, [1, 6]) := by decide
example : C04.readsK {} faultyFlush = some (some [118]) := by decide

/-- **C08 with journal faults of the write path as well.**  Every run whose faults are those of `Act.faultsOK` ends
    in a state all of whose crash images open and are consistent with the history.  `Act.faultsOK`: every
    failure inside a flush, a table compaction, a transaction commit or a recovery (D10 and D26 excepted, as in
    `fault_safe_jobs`), **every failure of a journal `Write`/`Flush`/`Sync` of the write path, with or without
    effect** (the group is reported as failed, its sequence numbers are consumed, its record may or may not be in
    the journal; the flush of that journal leaves it out, the next `Open` may replay it), and a `newMem` whose
    `Create` fails without effect.  Two restrictions make this a `_partial`:

    * `Act.trOnCleanJournals`: `OpenTransaction` happens only when no record of a failed write may be waiting
      in a journal the next `Open` would replay (no journal operation has failed so far, or those journals
      are empty).  What breaks without it: the commit of the transaction writes `seqNum := tr.seq` into the
      manifest while the current journal still holds the failed record with a *lower* sequence number;
      `ViewOK.jseq` ("every record the next `Open` replays lies at or above the manifest's sequence number",
      the step `EditOK.keep` of `Inv.editOK_tr`) no longer holds.  The code copes in the default mode
      (`recoverJournal` skips the record: "invalid sequence number"), and with `StrictJournal` `Open` fails;
    * `Act.rotateCreateOK`: the `Create` of the new journal in `newMem` does not fail *after* the file was
      made (the file number is handed back by `reuseFileNum`, the file stays: `RunOK.nums`/`jmax` break). -/
theorem fault_safe_writer_partial {cfg : Cfg} (hg : cfg.Good) (hcs : cfg.consumeSeqOnJournalError = true)
    {as : List Act} {s : St} {d : Disk}
    (hal : Allowed cfg Act.faultsOK init as) (hr : run cfg init as = some (s, d))
    {d' : Disk} (hi : IsCrashImage d d') {c : UCmp} (hl : LawfulUCmp c) (hw : ∀ g ∈ issuedGrps s, g.wf) :
    ∃ r, recoverR cfg d' = .ok r ∧ ∃ sel, C04.Consistent c s r sel := by
  obtain ⟨ch, rfl⟩ := hi
  have hinv : Inv cfg s d := inv_run_faults hg hcs (inv_init cfg) as hal hr
  obtain ⟨r, hrec, hgood⟩ := (hinv.disk.crash hg.noTrace ch).open_ok
  exact ⟨r, hrec, C04.consistent_of_good hl hw hgood⟩

/-- a write whose journal `Write` fails after the record reached the file, a write whose `Sync` fails, a good
    synced write, then the rotation of the buffer and its flush — with a failing table `Write` on the way -/
def faultyWrites : List Act :=
  [.wAppend [⟨1, [97], [1]⟩] true .failEffect,                       -- "a": Write fails, the record is in the file
   .wAppend [⟨1, [98], [2]⟩] true .ok, .wSync .failNoEffect,         -- "b": Sync fails
   .wAppend C04.putKV true .ok, .wSync .ok, .wApply, .wPublish, .wAck,   -- "k": acknowledged with Sync
   .rotate .failNoEffect, .rotate .ok, .flushStart,
   .job false .ok, .job false .failEffect,                            -- tCreate, tWrite fails
   .job false .ok, .job false .ok, .job false .ok,                    -- the table
   .job false .ok, .job false .ok, .job false .ok,                    -- append, sync, install
   .job false .ok, .job false .ok, .job false .ok, .job false .ok]    -- removals, done

/-- … is a run `fault_safe_writer_partial` speaks about; the acknowledged write survives a crash after every
    prefix; after the flush the failed records are gone with the journal, the acknowledged value is read -/
example : allowed {} Act.faultsOK init faultyWrites = true := by decide
example : (List.range (faultyWrites.length + 1)).all (fun n =>
    C04.losesAcked {} {} (faultyWrites.take n) == some false) = true := by decide
example : C04.readsK {} faultyWrites = some (some [118]) := by decide
/-- before the flush a reopen (no crash) replays the failed records too: "a" and "b" are wholly applied -/
example : readsAB {} (faultyWrites.take 8) = some (some [1], some [2]) := by decide
/-- … after it they are wholly absent -/
example : readsAB {} faultyWrites = some (none, none) := by decide

/-- The statement for the whole machine with faults everywhere (not proved, see the header). -/
def fault_safe_full : Prop :=
  ∀ (cfg : Cfg), cfg.Good → cfg.consumeSeqOnJournalError = true → ∀ (s : St) (d : Disk), Reachable cfg (s, d) →
    (∀ ch, ∃ r, recoverR cfg (crashWith ch d) = .ok r ∧
      (∀ g, acked s g → g.sync = true → g ∈ r.grps) ∧ (∀ g ∈ r.grps, g ∈ issuedGrps s)) ∧
    (s.phase = .running → ∀ g, acked s g → g ∈ s.mem ∨ (∃ fz, s.frozen = some fz ∧ g ∈ fz) ∨
      ∃ t ∈ s.live, g ∈ tableGrpsOf d t)

/-- The property theorems of this file (for the audit). -/
def theorems : List String :=
  ["GoLevel.C08.fault_safe_partial", "GoLevel.C08.fault_safe_jobs", "GoLevel.C08.fault_safe_writer_partial",
   "GoLevel.C08.d4_loses_acked_write"]

end GoLevel.C08
