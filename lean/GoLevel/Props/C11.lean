import GoLevel.Props.C05
/-!
# Property C11 (isolation part) — transactions on the shared DB

"While a transaction is open nobody outside it sees any of its writes; reads inside it see the DB as of
its opening plus its own writes; commit makes all of them visible at once; after a discard nobody ever
sees any of them."

Same model as C05 (`GoLevel/Model/Conc.lean`): `trOpen` (`OpenTransaction`, under the write lock,
`tr.seq = db.seq`), `trPut` (`Transaction.put`: private memdb / private tables, sequence numbers
`tr.seq+1…`), `trGet` (`Transaction.Get` = `db.get(tr.mem, tr.tables, key, tr.seq)`), `trInstall`
(`Commit`: `s.commit(&tr.rec)` puts the private tables into the current version), `trPublish`
(`db.setSeq(tr.seq)`), `trDiscard` (`Discard`: `db.seq` is moved over the numbers the transaction used, so
they are never handed out again — the fix of D16; `Cfg.discardReusesSeq` is the code before it).
A transaction's entries enter the ghost history only at `trPublish`.

Assumption made by the model and needed by the proofs (see `C05.trOverFrozen_breaks`): no frozen buffer is
pending when the transaction opens.
-/
namespace GoLevel.C11

open GoLevel.Conc GoLevel.C05

variable {c : UCmp}

/-- **Reads inside the transaction.**  While a transaction is open nothing is published (`pub` stays at its
base), the history is exactly what was published when it opened, its private entries carry the sequence
numbers `base+1 … base+n`, and every `Transaction.Get` returned the view of (history ∪ private entries)
at the transaction's sequence number of that moment. -/
theorem tr_reads {σ : State} (h : Reachable Cfg.real c σ) (t : TrState) (ht : σ.tr = some t) :
    t.base = σ.pub ∧ σ.pending = []
    ∧ (∀ e ∈ σ.hist, e.seq ≤ t.base)
    ∧ (∀ e ∈ t.priv, t.base < e.seq ∧ e.seq ≤ t.base + t.priv.length)
    ∧ (∀ k s v, (k, s, v) ∈ t.results →
        t.base ≤ s ∧ s ≤ t.base + t.priv.length ∧ v = view c (σ.hist ++ t.priv) k s) := by
  have hb := (inv_reachable h).basic
  obtain ⟨x1, x2, x3, x4⟩ := hb.trExcl t ht
  refine ⟨x4, x1, ?_, ?_, ?_⟩
  · intro e he; rw [x4]; exact hb.hist_le x1 e he
  · intro e he
    have hp : e ∈ privOf σ.tr := by rw [ht]; exact he
    have h1 := hb.privSeq e hp
    have h2 := hb.bound e (List.mem_append_right _ hp)
    simp only [ht, privOf, x1, List.length_nil] at h2
    omega
  · intro k s v hx
    exact trinv_reachable h t ht (k, s, v) hx

/-- while the same transaction stays open, a step neither publishes nor changes the history -/
theorem tr_freezes_history {σ σ' : State} {a : Action} (h : Reachable Cfg.real c σ)
    (hs : Step Cfg.real c σ a σ') (h1 : σ.tr ≠ none) (h2 : σ'.tr ≠ none) :
    σ'.hist = σ.hist ∧ σ'.pub = σ.pub :=
  (stepMisc (inv_reachable h).basic (inv_reachable h).cover hs).frozenHist h1 h2

/-- **Nobody outside sees them.**  While the transaction is open — even after its tables were installed
into the current version — none of its entries is in the history, in a buffer, or (before install) in the
tables, and every lookup any reader performs returns the view of the history alone. -/
theorem tr_isolation {σ : State} (h : Reachable Cfg.real c σ) (t : TrState) (ht : σ.tr = some t) :
    (∀ e ∈ t.priv, e ∉ σ.hist ∧ (∀ id, e ∉ getBuf σ id) ∧ (t.installed = false → e ∉ σ.tabs))
    ∧ (∀ (i : Nat) (r : Reader), σ.readers[i]? = some r →
        (∀ k v, (k, v) ∈ r.results → ∃ s, r.seq? = some s ∧ s ≤ t.base ∧ v = view c σ.hist k s)
        ∧ (∀ s mf ver, r.seq? = some s → r.mems? = some mf → r.ver? = some ver →
            ∀ k, view c (readSrc σ mf ver) k s = view c σ.hist k s)) := by
  have hb := (inv_reachable h).basic
  obtain ⟨x1, x2, x3, x4⟩ := hb.trExcl t ht
  have hps : ∀ e ∈ t.priv, σ.pub < e.seq := fun e he => hb.privSeq e (by rw [ht]; exact he)
  have hnh : ∀ e ∈ t.priv, e ∉ σ.hist := by
    intro e he hh
    have := hb.hist_le x1 e hh; have := hps e he; omega
  refine ⟨fun e he => ⟨hnh e he, fun id hid => hnh e he (hb.bufSub id e hid), ?_⟩, ?_⟩
  · intro hinst htab
    rcases hb.tabSub e htab with h1 | h1
    · exact hnh e he h1
    · simp [ht, privIn, hinst] at h1
  · intro i r hi
    refine ⟨?_, fun s mf ver hs hm hv k => lookup_correct h i r hi s mf ver hs hm hv k⟩
    intro k v hkv
    obtain ⟨s, h1, h2, h3, _⟩ := read_linearizable h i r hi k v hkv
    exact ⟨s, h1, by omega, h3⟩

/-- **Commit is one instant.**  `trPublish` appends exactly the private entries to the history and moves
`pub` over all of them in that one step; it is recorded as a group, so `C05.batch_atomic` applies: every
reader position is below all of them or at/above all of them. -/
theorem tr_commit_atomic {σ σ' : State} (h : Reachable Cfg.real c σ) (hs : Step Cfg.real c σ .trPublish σ') :
    ∃ t, σ.tr = some t ∧ σ'.tr = none ∧ σ'.hist = σ.hist ++ t.priv ∧ σ.pub = t.base
      ∧ σ'.pub = t.base + t.priv.length
      ∧ σ'.groups = ⟨t.base, t.base + t.priv.length, t.priv⟩ :: σ.groups
      ∧ (∀ r ∈ σ'.readers, ∀ s, r.seq? = some s → s ≤ t.base)
      ∧ (∀ p ∈ σ'.snaps, p.2 ≤ t.base) := by
  have hinv := inv_reachable h
  obtain ⟨t, g1, g2, rfl⟩ := doTrPublish_some hs.1
  obtain ⟨x1, x2, x3, x4⟩ := hinv.basic.trExcl t g1
  refine ⟨t, g1, rfl, rfl, x4.symm, rfl, rfl, ?_, ?_⟩
  · intro r hr s hs'
    obtain ⟨i, hi⟩ := List.getElem?_of_mem hr
    have := (hinv.readers i r hi).seqLe s hs'; omega
  · intro p hp
    have := hinv.basic.snapsLe p hp; omega

/-- **Discard leaves no trace.**  `trDiscard` is possible only before the tables were installed; it
changes neither history nor buffers nor tables, none of which contains a private entry; `db.seq` moves
over the numbers the transaction used (a gap: no entry with those numbers exists) — and all later reads are
views of the history (`C05.read_linearizable`), which only gains entries from later writes. -/
theorem tr_discard_clean {σ σ' : State} (h : Reachable Cfg.real c σ) (hs : Step Cfg.real c σ .trDiscard σ') :
    ∃ t, σ.tr = some t ∧ t.installed = false ∧ σ'.tr = none ∧ σ'.hist = σ.hist ∧ σ'.tabs = σ.tabs
      ∧ σ'.bufs = σ.bufs ∧ σ'.pub = t.base + t.priv.length
      ∧ (∀ e ∈ σ'.hist, e.seq ≤ t.base)
      ∧ (∀ e ∈ t.priv, e ∉ σ'.hist ∧ e ∉ σ'.tabs ∧ ∀ id, e ∉ getBuf σ' id) := by
  obtain ⟨t, g1, g2, rfl⟩ := doTrDiscard_some hs.1
  obtain ⟨hiso, _⟩ := tr_isolation h t g1
  obtain ⟨x4, _, hh, _, _⟩ := tr_reads h t g1
  refine ⟨t, g1, g2, rfl, rfl, rfl, rfl, ?_, hh,
    fun e he => ⟨(hiso e he).1, (hiso e he).2.2 g2, (hiso e he).2.1⟩⟩
  show max σ.pub (t.base + t.priv.length) = t.base + t.priv.length
  omega

/-- **The discarded numbers are never handed out again** (the fix of D16).  After `trDiscard` of a
transaction with top number `base + n`, whatever happens later:
every later `writeInsert` (and so every entry that later enters the history or any buffer) carries a number
strictly above `base + n`, i.e. above every private entry of the discarded transaction.  Hence an iterator
obtained from the transaction — one that pinned the private entries, any buffers and any table collection
at a position `s ≤ base + n` — keeps returning exactly what it returned at the time of the discard. -/
theorem tr_discard_no_reuse {σ σ' σ'' : State} (h : Reachable Cfg.real c σ)
    (hs : Step Cfg.real c σ .trDiscard σ') (hs' : Steps Cfg.real c σ' σ'') :
    ∃ t, σ.tr = some t ∧ σ'.pub = t.base + t.priv.length
      ∧ (∀ p ∈ t.priv, p.seq ≤ t.base + t.priv.length)
      ∧ (∀ es σ₃, Step Cfg.real c σ'' (.writeInsert es) σ₃ → ∀ e ∈ es, t.base + t.priv.length < e.seq)
      ∧ (∀ e ∈ σ''.hist, e ∈ σ.hist ∨ t.base + t.priv.length < e.seq)
      ∧ (∀ id, ∃ ext, getBuf σ'' id = getBuf σ id ++ ext ∧ ∀ e ∈ ext, t.base + t.priv.length < e.seq)
      ∧ (∀ (mf : Nat × Option Nat) (v : List Entry) (k : Bytes) (s : Nat), s ≤ t.base + t.priv.length →
          view c (t.priv ++ readSrc σ'' mf v) k s = view c (t.priv ++ readSrc σ mf v) k s) := by
  obtain ⟨t, g1, _, _, _, _, _, hpub, _, _⟩ := tr_discard_clean h hs
  have h' : Reachable Cfg.real c σ' := Steps.tail _ h hs
  have hb' := (inv_reachable h').basic
  have hple := steps_pub_le hb' hs'
  obtain ⟨_, _, _, hpriv, _⟩ := tr_reads h t g1
  have hbufs : σ'.bufs = σ.bufs := by
    obtain ⟨t', g1', _, rfl⟩ := doTrDiscard_some hs.1
    rfl
  have hhist : σ'.hist = σ.hist := by
    obtain ⟨t', g1', _, rfl⟩ := doTrDiscard_some hs.1
    rfl
  have hgrow : ∀ id, ∃ ext, getBuf σ'' id = getBuf σ id ++ ext ∧ ∀ e ∈ ext, t.base + t.priv.length < e.seq := by
    intro id
    obtain ⟨ext, h1, h2⟩ := steps_bufGrow hb' hs' id
    refine ⟨ext, ?_, fun e he => by have := h2 e he; omega⟩
    rw [h1]; simp [getBuf, hbufs]
  refine ⟨t, g1, hpub, fun p hp => (hpriv p hp).2, ?_, ?_, hgrow, ?_⟩
  · intro es σ₃ hw e he
    obtain ⟨_, g2, _⟩ := doWriteInsert_some hw.1
    have := ((consec_spec _ _ g2).1 e he).1
    omega
  · intro e he
    obtain ⟨ext, h1, h2⟩ := steps_hist hb' hs'
    rw [h1, hhist] at he
    rcases List.mem_append.1 he with he | he
    · exact Or.inl he
    · right; have := h2 e he; omega
  · intro mf v k s hle
    apply view_eq_of_leF
    have hopt : ∃ ext, optBuf σ'' mf.2 = optBuf σ mf.2 ++ ext ∧ ∀ e ∈ ext, t.base + t.priv.length < e.seq := by
      cases mf.2 with
      | none => exact ⟨[], rfl, by simp⟩
      | some f => exact hgrow f
    obtain ⟨e1, h1, h1'⟩ := hgrow mf.1
    obtain ⟨e2, h2, h2'⟩ := hopt
    simp only [readSrc, h1, h2, leF_append]
    rw [leF_above (E := e1) (fun e he => by have := h1' e he; omega),
        leF_above (E := e2) (fun e he => by have := h2' e he; omega)]
    simp

/-- **Negative result: the old `Discard`** (`db.seq` left alone).  The next write gets the numbers of the
discarded transaction; it lands in the write buffer which an iterator of the transaction still holds, and
at the iterator's position `base + n` the later write is visible: the iterator's answer for key `[3]`
changes after the transaction is gone. -/
def reuseTrace1 : List Action :=
  [.writeInsert [ent 1 1 1 10], .publish, .rotate, .flushInstall, .flushDrop, .trOpen, .trPut (ent 1 2 0 0)]
def reuseTrace2 : List Action := [.trDiscard, .writeInsert [ent 3 2 1 30], .publish]

theorem discardReuse_breaks : ∃ (σ σ'' : State) (t : TrState),
    Reachable { discardReusesSeq := true } bytewise σ ∧ σ.tr = some t
    ∧ Steps { discardReusesSeq := true } bytewise σ σ''
    ∧ (∃ e ∈ σ''.hist, e ∉ σ.hist ∧ e.seq ≤ t.base + t.priv.length)
    ∧ view bytewise (t.priv ++ readSrc σ (σ.mem, σ.frozen) σ.tabs) [3] (t.base + t.priv.length) = none
    ∧ view bytewise (t.priv ++ readSrc σ'' (σ.mem, σ.frozen) σ.tabs) [3] (t.base + t.priv.length) = some [30] := by
  refine ⟨(run { discardReusesSeq := true } bytewise init reuseTrace1).getD init,
    (run { discardReusesSeq := true } bytewise init (reuseTrace1 ++ reuseTrace2)).getD init,
    ⟨1, [ent 1 2 0 0], false, []⟩,
    steps_of_run reuseTrace1 init _ (by decide) (by decide), by decide,
    steps_of_run reuseTrace2 _ _ (by decide) (by decide),
    ⟨ent 3 2 1 30, by decide, by decide, by decide⟩, by decide, by decide⟩

/-- the code as it is now refuses that write: after the discard the next number is `base + n + 1` -/
example : run Cfg.real bytewise init (reuseTrace1 ++ reuseTrace2) = none
    ∧ (run Cfg.real bytewise init (reuseTrace1 ++ [.trDiscard, .writeInsert [ent 3 3 1 30], .publish])).isSome = true := by
  decide

/-! ## non-vacuity -/

/-- a transaction that overwrites key 1 and deletes key 2, with a reader outside before and after the
install, a `Transaction.Get` inside, a compaction started meanwhile; then the commit, then a reader -/
def trTrace : List Action :=
  [.writeInsert [ent 1 1 1 10, ent 2 2 1 20], .publish, .rotate, .flushInstall, .flushDrop,
   .trOpen, .trPut (ent 1 3 1 11), .rNew, .rSeq 0, .rMems 0, .trPut (ent 2 4 0 0), .trGet [1], .trGet [2],
   .trGet [3], .compStart, .trInstall, .rVer 0, .rLookup 0 [1], .rLookup 0 [2], .rNew, .rSeq 1]

def trState : State := (run Cfg.real bytewise init trTrace).getD init

theorem trState_reachable : Reachable Cfg.real bytewise trState :=
  steps_of_run trTrace init trState (by decide) (by decide)

example : trState.tr.map (·.base) = some 2 ∧ trState.tr.map (·.installed) = some true
    ∧ trState.tr.map (·.results) = some [([1], 4, some [11]), ([2], 4, none), ([3], 4, none)]
    ∧ trState.tabs.length = 4 ∧ trState.hist.length = 2 ∧ trState.pub = 2 ∧ trState.comp = some 2
    ∧ trState.readers.map (·.results) = [[([1], some [10]), ([2], some [20])], []] := by decide

example : ∀ t, trState.tr = some t → ∀ e ∈ t.priv, e ∉ trState.hist :=
  fun t ht e he => ((tr_isolation trState_reachable t ht).1 e he).1

/-- commit: reader 1 (position 2, taken before) still sees the old values, a new reader sees both changes -/
def trTrace2 : List Action :=
  [.trPublish, .rMems 1, .rVer 1, .rLookup 1 [1], .rLookup 1 [2],
   .rNew, .rSeq 2, .rMems 2, .rVer 2, .rLookup 2 [1], .rLookup 2 [2]]

example : ∃ σ, run Cfg.real bytewise trState trTrace2 = some σ ∧ σ.pub = 4 ∧ σ.hist.length = 4
    ∧ σ.readers.map (·.results) =
      [[([1], some [10]), ([2], some [20])], [([1], some [10]), ([2], some [20])], [([1], some [11]), ([2], none)]] :=
  ⟨(run Cfg.real bytewise trState trTrace2).getD init, by decide, by decide, by decide, by decide⟩

/-- discard instead of commit: number 2 is skipped for good, the next write gets 3, nobody ever saw the
private entry -/
def trTrace3 : List Action :=
  [.writeInsert [ent 1 1 1 10], .publish, .rotate, .flushInstall, .flushDrop,
   .trOpen, .trPut (ent 1 2 0 0), .trGet [1], .trDiscard,
   .writeInsert [ent 3 3 1 30], .publish, .rNew, .rSeq 0, .rMems 0, .rVer 0, .rLookup 0 [1], .rLookup 0 [3]]

example : ∃ σ, run Cfg.real bytewise init trTrace3 = some σ ∧ σ.pub = 3 ∧ σ.hist.length = 2
    ∧ σ.readers.map (·.results) = [[([1], some [10]), ([3], some [30])]] :=
  ⟨(run Cfg.real bytewise init trTrace3).getD init, by decide, by decide, by decide, by decide⟩

def theorems : List String :=
  ["GoLevel.C11.tr_reads", "GoLevel.C11.tr_freezes_history", "GoLevel.C11.tr_isolation",
   "GoLevel.C11.tr_commit_atomic", "GoLevel.C11.tr_discard_clean", "GoLevel.C11.tr_discard_no_reuse",
   "GoLevel.C11.discardReuse_breaks"]

end GoLevel.C11
