import GoLevel.Proofs.FSMetaLive
import GoLevel.Proofs.FSMetaTable
import GoLevel.Proofs.FSMetaRepair
import GoLevel.Proofs.FSMetaRO
import GoLevel.Gen.Consts
/-!
# C04, the storage contract: `fileStorage.SetMeta` / `GetMeta` inside the model

`Model/Disk.lean` / `Model/Durable.lean` assume "SetMeta is atomic; a crash leaves the old or the new CURRENT".  For
the file storage that contract is code (`leveldb/storage/file_storage.go`: `setMeta`, `GetMeta`, `writeFileSynced`,
`rename`, `syncDir`).  `Model/FSMeta.lean` models that code system call by system call, with a fault oracle (any call
fails; the process dies before / in the middle of any call) and the two crash semantics (process death: the state
as it is; machine crash `FS.image`: unsynced file contents lost / kept / emptied / cut, every directory operation
since the last `syncDir` kept or lost independently, `rename` atomic).

Tie to the code: `code_is_modelled` (the model's configuration is read off the source by `tools/extract`: order of
the steps of `setMeta`, equality shortcut, `GetMeta`'s precedence rule, order and repair) and the differential
`harness/checks/c04fs.go` (`fsm …` lines: real `storage.OpenFile(dir).GetMeta/SetMeta` on real directories, the
system-call sequence through the hook `storage.VerifStep`, every crash point, the model's machine-crash images built
for real).

A *clean* directory (`CleanP`, `CleanP.Ok`): `CURRENT` = pointer to manifest `a` (canonical or not), synced and durable;
no pending file; `CURRENT.bak` absent or anything; the files of manifests `a ≠ b` exist; nothing waits for a `syncDir`.

Proved (all for every oracle `o : Nat → Fault`, i.e. every combination of failing calls and every point of death):
* `setmeta_crash_atomic` — after `setMeta b` ended anywhere, dead or returned, `GetMeta` (read-only or not) answers
  `a` or `b` on the state itself and on EVERY machine-crash image, never an error; once `setMeta b` returned nil it is
  `b` on every image.
* `setmeta_failure_outcomes` / `setmeta_failure_table` — what `GetMeta` answers after a failed `setMeta b`:
  `b` exactly when the rename has happened, or `CURRENT.<b>` is completely written and `b > a`.  By failing call:
  calls 0-7 (`Stat`, `ReadFile`, the four of `CURRENT.bak`, `OpenFile` and `Write` of `CURRENT.<b>`): `a`;
  calls 8-10 (`Sync`, `Close` of `CURRENT.<b>`, `rename`): `b` if `b > a` else `a`; call 11 (`syncDir`): `b`.
* `getmeta_readonly_pure` — a read-only `GetMeta` leaves ANY file system untouched, whatever fails (general).
* `getmeta_repairs_partial` — on every crash image of `setMeta b` from a clean directory a read-write `GetMeta`
  leaves `CURRENT` = its answer, no pending file, and answers the same again.  PARTIAL: not proved for arbitrary
  directories (the differential compares the directory after `GetMeta` on random directories); and the clause "or the
  repair failed and the answer is unchanged" is FALSE — `repair_destroys_backup`, `repair_truncates_pending`.
* `cleanup_after_crash` — when `GetMeta` answered `a` after the crash and the file of manifest `b` is then removed,
  the answer stays `a`.
* decided traces: `stale_pending_wins` (a pending file left by a failed `rename` is preferred over the genuine
  `CURRENT` once a file with its target's name exists again), `stale_pending_after_smaller_setmeta` (the same after a
  `SetMeta` with a smaller number, which is what `RecoverFile` does: reproduced on the implementation), `no_syncdir_loses_update`,
  `rename_before_sync_unopenable`, `backup_rescues_ordered`, `no_guard_prefers_older`,
  `shortcut_returns_nil_without_syncdir`, `manifest_sync_window` (model level only).
-/
namespace GoLevel.C04FS
open GoLevel GoLevel.FSMeta

/-- **the model's configuration is the code's**: every ordering decision the theorems depend on is read off the
    source (`tools/extract`, facts `fsSetMeta*` / `fsGetMeta*` in `Gen/Consts.lean`) -/
theorem code_is_modelled :
    codeCfg = {} ∧ Gen.fsSetMetaEqualShortcut = true ∧ Gen.fsSetMetaBackupFirst = true ∧
    Gen.fsSetMetaSyncedBeforeRename = true ∧ Gen.fsSetMetaSyncDirLast = true ∧ Gen.fsGetMetaPendGuard = true ∧
    Gen.fsGetMetaOrder = true ∧ Gen.fsGetMetaRepair = true := by decide

theorem codeCfg_eq : codeCfg = {} := code_is_modelled.1

/-- **`SetMeta` is crash atomic** (clean start).  Whatever happens to the system calls of `setMeta b` — any of them
    failing, the process dying before or inside any of them — `GetMeta` answers `a` or `b`, never an error and
    never anything else, on the state `setMeta` ended in (process death / error return) and on every machine-crash
    image of it; once `setMeta b` has returned nil every image answers `b`. -/
theorem setmeta_crash_atomic (p : CleanP) (hp : p.Ok) (o : Nat → Fault) (ro : Bool) :
    let r := setMeta codeCfg (m p.b) (W.of p.fs o)
    (∀ ch, ask codeCfg ro (r.2.fs.image ch) = .ok (m p.a) ∨ ask codeCfg ro (r.2.fs.image ch) = .ok (m p.b)) ∧
    (ask codeCfg ro r.2.fs = .ok (m p.a) ∨ ask codeCfg ro r.2.fs = .ok (m p.b)) ∧
    (r.2.dead = false → r.1 = .ok () →
      (∀ ch, ask codeCfg ro (r.2.fs.image ch) = .ok (m p.b)) ∧ ask codeCfg ro r.2.fs = .ok (m p.b)) := by
  intro r
  have hs : Shape p r.1 r.2.dead r.2.fs := by
    have := setMeta_shape p hp o
    simpa [r, codeCfg_eq] using this
  rw [codeCfg_eq]
  refine ⟨fun ch => ?_, ?_, fun hd hr => ?_⟩
  · rw [ask_ro]; exact shape_image p hp hs ch
  · rw [ask_ro, shape_live p hp hs]
    unfold liveAnswer
    split
    · exact Or.inr rfl
    · split
      · exact Or.inr rfl
      · exact Or.inl rfl
  · rw [hd, hr] at hs
    exact ⟨fun ch => by rw [ask_ro]; exact (shape_done p hp hs ch).1,
      by rw [ask_ro]; exact (shape_done p hp hs ⟨fun _ => false, fun _ => .lost⟩).2⟩

/-- non-vacuity: a clean directory, and a run that dies between the `Sync` of `CURRENT.7` and the `rename` -/
def c57 : CleanP := ⟨5, 7, true, none, fun x => decide (x = m 5) || decide (x = m 7)⟩

example : c57.Ok := ⟨by decide, by decide, by decide⟩
example : (setMeta codeCfg (m 7) (W.of c57.fs (oneFault 10 .crash))).2.dead = true ∧
    ask codeCfg false (setMeta codeCfg (m 7) (W.of c57.fs (oneFault 10 .crash))).2.fs = .ok (m 7) ∧
    ask codeCfg false ((setMeta codeCfg (m 7) (W.of c57.fs (oneFault 10 .crash))).2.fs.image
      ⟨fun _ => false, fun _ => .lost⟩) = .ok (m 5) := by decide

/-- **what `GetMeta` answers after a failed `setMeta b`** (clean start, any oracle, the process alive): `b` exactly
    when `CURRENT` already holds the new pointer (the rename has happened: only `syncDir` can still have failed),
    or `CURRENT.<b>` is completely written and `b` is the greater number (its `Sync`, its `Close` or the `rename`
    failed); `a` in every other case.  This is what the repair of D26 (`newManifest`: after a failed `SetMeta` ask
    `GetMeta`) relies on. -/
theorem setmeta_failure_outcomes (p : CleanP) (hp : p.Ok) (o : Nat → Fault) (ro : Bool) :
    let r := setMeta codeCfg (m p.b) (W.of p.fs o)
    ask codeCfg ro r.2.fs = .ok (liveAnswer p r.2.fs) := by
  intro r
  have hs : Shape p r.1 r.2.dead r.2.fs := by
    have := setMeta_shape p hp o
    simpa [r, codeCfg_eq] using this
  rw [codeCfg_eq, ask_ro]
  exact shape_live p hp hs

/-- **by failing call** (exactly one call fails, `fail` = without effect, `failPartial` = a write after a part of
    the data): see `FSMeta.failure_table` for the numbering of the twelve calls -/
theorem setmeta_failure_table (p : CleanP) (hp : p.Ok) (k : Nat) (hk : k < 12) (f : Fault)
    (hf : f = .fail ∨ f = .failPartial) (ro : Bool) :
    let r := setMeta codeCfg (m p.b) (W.of p.fs (oneFault k f))
    r.1 = .error .io ∧ r.2.dead = false ∧
    ask codeCfg ro r.2.fs =
      .ok (if k ≤ 7 then m p.a else if k ≤ 10 then (if p.a < p.b then m p.b else m p.a) else m p.b) := by
  intro r
  have := failure_table p hp k hk f hf
  simp only [r, codeCfg_eq, ask_ro _ ro]
  exact this

example : ask codeCfg false (setMeta codeCfg (m 7) (W.of c57.fs (oneFault 7 .failPartial))).2.fs = .ok (m 5) ∧
    ask codeCfg false (setMeta codeCfg (m 7) (W.of c57.fs (oneFault 10 .fail))).2.fs = .ok (m 7) ∧
    ask codeCfg false (setMeta codeCfg (m 7) (W.of c57.fs (oneFault 11 .fail))).2.fs = .ok (m 7) := by decide

/-- the guard in the other direction: the new number is the smaller one, the rename fails: `GetMeta` stays with `a` -/
example : ask codeCfg false (setMeta codeCfg (m 5) (W.of
    (CleanP.fs ⟨7, 5, true, none, fun x => decide (x = m 5) || decide (x = m 7)⟩) (oneFault 10 .fail))).2.fs = .ok (m 7) := by
  decide

/-- **a read-only `GetMeta` is pure**: any file system, any configuration, any oracle: nothing changes, and a
    second call gives the same answer -/
theorem getmeta_readonly_pure (cfg : Cfg) (w : W) :
    (getMeta cfg true w).2.fs = w.fs ∧
    (∀ ro, ask cfg ro (after cfg true w.fs) = ask cfg ro w.fs) := by
  refine ⟨getMeta_ro_fs cfg w, fun ro => ?_⟩
  unfold after
  rw [getMeta_ro_fs]
  rfl

example : (after codeCfg true (setMeta codeCfg (m 7) (W.of c57.fs (oneFault 10 .crash))).2.fs).pending = [7] := by decide

end GoLevel.C04FS

namespace GoLevel.C04FS
open GoLevel GoLevel.FSMeta

/-- **`GetMeta` repairs** (PARTIAL: for the directories a crash inside `setMeta b` can leave, clean start; the general
    statement is covered by the differential only).  After a machine crash in any state `setMeta b` can end in, the
    first read-write `GetMeta` (no fault during it) answers `fd ∈ {a, b}` and leaves a directory whose `CURRENT` holds
    `fd`, without pending files, on which `GetMeta` answers `fd` again. -/
theorem getmeta_repairs_partial (p : CleanP) (hp : p.Ok) (o : Nat → Fault) (ch : Choice) :
    let img := (setMeta codeCfg (m p.b) (W.of p.fs o)).2.fs.image ch
    let fs' := after codeCfg false img
    ∃ fd, (fd = m p.a ∨ fd = m p.b) ∧ ask codeCfg false img = .ok fd ∧
      fs'.names = some fd ∧ fs'.pending = [] ∧ ∀ ro, ask codeCfg ro fs' = .ok fd := by
  intro img fs'
  have hs : Shape p _ _ _ := setMeta_shape p hp o
  have hi := shape_image p hp hs ch
  have hr := shape_image_repair p hp hs ch
  simp only [img, fs', codeCfg_eq, ask_ro _ false]
  rcases hi with h | h
  · refine ⟨m p.a, Or.inl rfl, h, ?_, hr.2.1, fun ro => ?_⟩
    · rw [hr.1, h]; rfl
    · rw [ask_ro, hr.2.2.1, h]
  · refine ⟨m p.b, Or.inr rfl, h, ?_, hr.2.1, fun ro => ?_⟩
    · rw [hr.1, h]; rfl
    · rw [ask_ro, hr.2.2.1, h]

/-- **the session's cleanup after a crashed `SetMeta b`**: when the reopened DB was told `a` (so it may remove the
    file of manifest `b`), `GetMeta` keeps answering `a` after the removal — a pending or backup file that points to
    the missing target is skipped. -/
theorem cleanup_after_crash (p : CleanP) (hp : p.Ok) (o : Nat → Fault) (ch : Choice) :
    let img := (setMeta codeCfg (m p.b) (W.of p.fs o)).2.fs.image ch
    ask codeCfg false img = .ok (m p.a) →
    ∀ ro, ask codeCfg ro (rmFile (m p.b) (W.of (after codeCfg false img))).2.fs = .ok (m p.a) := by
  intro img h ro
  have hs : Shape p _ _ _ := setMeta_shape p hp o
  have hr := shape_image_repair p hp hs ch
  simp only [img, codeCfg_eq, ask_ro _ false] at h
  simp only [img, codeCfg_eq, ask_ro _ ro]
  exact hr.2.2.2 h

/-- non-vacuity of both: the crash image that keeps the half-written pending file -/
example : let img := (setMeta codeCfg (m 7) (W.of c57.fs (oneFault 8 .crash))).2.fs.image ⟨fun _ => true, fun _ => .cut⟩
    img.pending = [7] ∧ ask codeCfg false img = .ok (m 5) ∧ (after codeCfg false img).pending = [] ∧
    ask codeCfg false (rmFile (m 7) (W.of (after codeCfg false img))).2.fs = .ok (m 5) := by decide

/-! ## negative results (decided traces) -/

/-- `CURRENT` is junk, `CURRENT.bak` points to manifest 9 (the situation the backup exists for) -/
def bakOnly : FS :=
  { inodes := [⟨.junk 0, .junk 0, false⟩, ⟨.gen (m 9), .gen (m 9), false⟩],
    ddir := { ents := [(.cur, 0), (.bak, 1)], files := fun x => decide (x = m 9) } }

/-- **the repair destroys the backup it answers from.**  `GetMeta` answers 9 from `CURRENT.bak`; its repair
    `setMeta 9` begins by copying the junk `CURRENT` over `CURRENT.bak`.  If the process dies between the
    `OpenFile(O_TRUNC)` of `CURRENT.bak` (call 6 of this `GetMeta`) and the completed `Write` of `CURRENT.9`
    (call 11), no file names manifest 9 any more: the next `GetMeta` returns an error although the manifest is
    intact.  (Replayed on the implementation: `fsm gat` lines of the differential and `TestRepairDestroysBackup`.) -/
theorem repair_destroys_backup :
    ask codeCfg false bakOnly = .ok (m 9) ∧
    (∀ k, 7 ≤ k → k ≤ 11 → ∃ e, ask codeCfg false (getMeta codeCfg false (W.of bakOnly (oneFault k .crash))).2.fs = .error e) ∧
    ask codeCfg false (getMeta codeCfg false (W.of bakOnly (oneFault 12 .crash))).2.fs = .ok (m 9) := by
  refine ⟨by decide, fun k h1 h2 => ?_, by decide⟩
  have : k = 7 ∨ k = 8 ∨ k = 9 ∨ k = 10 ∨ k = 11 := by omega
  rcases this with rfl | rfl | rfl | rfl | rfl
  · exact ⟨.corrupted, by decide⟩
  · exact ⟨.corrupted, by decide⟩
  · exact ⟨.corrupted, by decide⟩
  · exact ⟨.corrupted, by decide⟩
  · exact ⟨.corrupted, by decide⟩

/-- the directory a crash between the `Sync` of `CURRENT.7` and the `rename` leaves -/
def pend7 : FS := (setMeta codeCfg (m 7) (W.of c57.fs (oneFault 10 .crash))).2.fs

/-- **the repair truncates the pending file it answers from**: `GetMeta` answers 7 (from `CURRENT.7`); its repair
    `setMeta 7` re-creates `CURRENT.7` with `O_TRUNC`; a death right after that makes the next `GetMeta` answer 5.
    So "the answer is unchanged when the repair failed" does not hold.  (Both answers are legitimate outcomes of the
    interrupted `SetMeta 7`.) -/
theorem repair_truncates_pending :
    ask codeCfg false pend7 = .ok (m 7) ∧
    ask codeCfg false (getMeta codeCfg false (W.of pend7 (oneFault 12 .crash))).2.fs = .ok (m 5) := by decide

/-- **a stale pending file wins over the genuine `CURRENT`.**  `setMeta 7` fails at the `rename` (call 10):
    `CURRENT.7` stays behind, complete and synced.  The caller gives up manifest 7 (removes its file — what
    `newManifest` did before the repair of D26, followed by `reuseFileNum`), later a file `MANIFEST-000007` is
    created again (the next rotation reuses the number) and the process dies before any `SetMeta`: `GetMeta` answers 7
    although `CURRENT` names 5 and no `SetMeta 7` was issued for the new file; a read-write `GetMeta` even makes it
    permanent (`CURRENT` := 7).  With the repair of D26 the first step is excluded: right after the failed `SetMeta`
    the session asks `GetMeta`, which answers 7, and keeps the file. -/
theorem stale_pending_wins :
    let fs1 := (setMeta codeCfg (m 7) (W.of c57.fs (oneFault 10 .fail))).2.fs
    let fs2 := (rmFile (m 7) (W.of fs1)).2.fs
    let fs3 := (mkFile (m 7) (W.of fs2)).2.fs
    ask codeCfg true fs1 = .ok (m 7) ∧ ask codeCfg true fs2 = .ok (m 5) ∧ fs2.pending = [7] ∧
    ask codeCfg true fs3 = .ok (m 7) ∧ (after codeCfg false fs3).names = some (m 7) := by decide

/-- **the same through `RecoverFile`** (reachable with the code as it is; replayed on the implementation,
    `TestStalePendingAfterRecover`): a crash left `CURRENT` = 5 with the complete pending file `CURRENT.7`; instead of
    opening the DB the user runs `RecoverFile`, which never calls `GetMeta` and numbers its new manifest after the
    TABLES it found — here 6 — and `SetMeta 6` succeeds.  `CURRENT.7` and the file of manifest 7 are still there
    (the janitor keeps manifests with numbers ≥ 6), and the next `GetMeta` prefers the stale 7 over the genuine 6. -/
theorem stale_pending_after_smaller_setmeta :
    let fs1 := (mkFile (m 6) (W.of pend7)).2.fs
    let r := setMeta codeCfg (m 6) (W.of fs1)
    r.1 = .ok () ∧ r.2.fs.names = some (m 6) ∧ r.2.fs.pending = [7] ∧ ask codeCfg true r.2.fs = .ok (m 7) ∧
    (∀ k, k ≤ 3 → ask codeCfg true (r.2.fs.image (.ordered k fun _ => .kept)) = .ok (m 7)) := by
  refine ⟨by decide, by decide, by decide, by decide, fun k hk => ?_⟩
  have : k = 0 ∨ k = 1 ∨ k = 2 ∨ k = 3 := by omega
  rcases this with rfl | rfl | rfl | rfl <;> decide

/-- **without `syncDir`** `setMeta` returns nil and a machine crash that loses nothing but the unsynced directory
    operations brings the old `CURRENT` back -/
theorem no_syncdir_loses_update :
    (setMeta { syncDirLast := false } (m 7) (W.of c57.fs)).1 = .ok () ∧
    ask {} false ((setMeta { syncDirLast := false } (m 7) (W.of c57.fs)).2.fs.image (.ordered 0 fun _ => .kept)) = .ok (m 5) := by
  decide

/-- **rename before the new file is synced**, directory operations reaching the disk in any order: the image that
    keeps the `rename` but neither the data nor the creation of `CURRENT.bak` cannot be opened -/
theorem rename_before_sync_unopenable :
    ask {} false ((setMeta { syncBeforeRename := false } (m 7) (W.of c57.fs (oneFault 10 .crash))).2.fs.image
      ⟨fun i => decide (i = 2), fun _ => .lost⟩) = .error .corrupted := by decide

/-- … whereas with ordered directory operations the backup rescues that variant (the old manifest is answered),
    and without the backup it does not -/
theorem backup_rescues_ordered :
    (∀ k, k ≤ 3 → ask {} false ((setMeta { syncBeforeRename := false } (m 7) (W.of c57.fs (oneFault 10 .crash))).2.fs.image
      (.ordered k fun _ => .lost)) = .ok (m 5)) ∧
    ask {} false ((setMeta { syncBeforeRename := false, backupFirst := false } (m 7) (W.of c57.fs (oneFault 6 .crash))).2.fs.image
      (.ordered 2 fun _ => .lost)) = .error .corrupted := by
  refine ⟨fun k hk => ?_, by decide⟩
  have : k = 0 ∨ k = 1 ∨ k = 2 ∨ k = 3 := by omega
  rcases this with rfl | rfl | rfl | rfl <;> decide

/-- a pending file with the smaller number next to a valid `CURRENT` -/
def olderPending : FS :=
  { inodes := [⟨.gen (m 7), .gen (m 7), false⟩, ⟨.gen (m 5), .gen (m 5), false⟩],
    ddir := { ents := [(.cur, 0), (.pend 5, 1)], files := fun x => decide (x = m 5) || decide (x = m 7) } }

/-- **without the guard** `pendCur.fd.Num > curCur.fd.Num` an obsolete pending file overrides `CURRENT` -/
theorem no_guard_prefers_older :
    ask { pendGuard := false } false olderPending = .ok (m 5) ∧ ask {} false olderPending = .ok (m 7) := by decide

/-- **`setMeta` can return nil without the new `CURRENT` being durable**: `setMeta 7` fails at `syncDir` (the rename
    has happened), the caller retries, the equality shortcut returns nil without a `syncDir`; a machine crash then
    still brings manifest 5 back.  (A caller that treats nil as "durable" is wrong in this corner; goleveldb's
    manifest `Sync` runs `syncDir` at the next commit.) -/
theorem shortcut_returns_nil_without_syncdir :
    let fs1 := (setMeta codeCfg (m 7) (W.of c57.fs (oneFault 11 .fail))).2.fs
    (setMeta codeCfg (m 7) (W.of fs1)).1 = .ok () ∧
    ask codeCfg false ((setMeta codeCfg (m 7) (W.of fs1)).2.fs.image (.ordered 0 fun _ => .kept)) = .ok (m 5) := by decide

end GoLevel.C04FS

namespace GoLevel.C04FS

/-! ## optional, model level only: `fileWrap.Sync` of a manifest is `File.Sync()` and THEN `syncDir`

ASSUMED POSIX semantics (not replayable in the sandbox): the directory entry of a new file is durable only after a
`syncDir`; `fsync` of one file says nothing about the directory entries of other files.  `fileWrap.Sync` calls
`syncDir` only for manifests, after the manifest's own `File.Sync()`; a table's `Sync` is `File.Sync()` alone. -/

inductive WStep | createTable | syncTable | appendRecord | syncManifestFile | syncDirAfter
  deriving DecidableEq, Repr

structure WinSt where
  /-- the table's directory entry exists / is durable -/
  tableLinked : Bool := false
  tableLinkDur : Bool := false
  tableDataDur : Bool := false
  /-- the manifest record that adds the table is written / durable -/
  recWritten : Bool := false
  recDur : Bool := false
  deriving DecidableEq, Repr

def WinSt.step (s : WinSt) : WStep → WinSt
  | .createTable => { s with tableLinked := true }
  | .syncTable => { s with tableDataDur := true }
  | .appendRecord => { s with recWritten := true }
  | .syncManifestFile => { s with recDur := s.recWritten }
  | .syncDirAfter => { s with tableLinkDur := s.tableLinked }

/-- a machine crash now can leave a manifest whose durable record names a table without a directory entry -/
def WinSt.dangling (s : WinSt) : Bool := s.recDur && !s.tableLinkDur

/-- a flush / compaction commit as the file storage executes it -/
def codeOrder : List WStep := [.createTable, .syncTable, .appendRecord, .syncManifestFile, .syncDirAfter]
def dirFirst : List WStep := [.createTable, .syncTable, .appendRecord, .syncDirAfter, .syncManifestFile]

/-- **what the model says**: between the manifest's `File.Sync()` and the `syncDir` that follows it there is a window
    in which the record is durable and the table's directory entry is not (`dangling`); it closes with the `syncDir`;
    with the two calls in the other order there is no such window.  Whether a real file system exhibits it depends on
    semantics this model only assumes (ext4 in its default mode commits the pending directory operations with the
    `fsync` of the manifest). -/
theorem manifest_sync_window :
    ((codeOrder.take 4).foldl WinSt.step {}).dangling = true ∧ (codeOrder.foldl WinSt.step {}).dangling = false ∧
    (∀ k, k ≤ 5 → ((dirFirst.take k).foldl WinSt.step {}).dangling = false) := by
  refine ⟨by decide, by decide, fun k hk => ?_⟩
  have : k = 0 ∨ k = 1 ∨ k = 2 ∨ k = 3 ∨ k = 4 ∨ k = 5 := by omega
  rcases this with rfl | rfl | rfl | rfl | rfl | rfl <;> decide

/-- The property theorems of this file (for the audit). -/
def theorems : List String :=
  ["GoLevel.C04FS.code_is_modelled", "GoLevel.C04FS.setmeta_crash_atomic", "GoLevel.C04FS.setmeta_failure_outcomes",
   "GoLevel.C04FS.setmeta_failure_table", "GoLevel.C04FS.getmeta_readonly_pure", "GoLevel.C04FS.getmeta_repairs_partial",
   "GoLevel.C04FS.cleanup_after_crash", "GoLevel.C04FS.repair_destroys_backup", "GoLevel.C04FS.repair_truncates_pending",
   "GoLevel.C04FS.stale_pending_wins", "GoLevel.C04FS.stale_pending_after_smaller_setmeta", "GoLevel.C04FS.no_syncdir_loses_update",
   "GoLevel.C04FS.rename_before_sync_unopenable", "GoLevel.C04FS.backup_rescues_ordered",
   "GoLevel.C04FS.no_guard_prefers_older", "GoLevel.C04FS.shortcut_returns_nil_without_syncdir",
   "GoLevel.C04FS.manifest_sync_window"]

end GoLevel.C04FS
