import GoLevel.Proofs.JournalDamage3
import GoLevel.Proofs.JournalDamageExample
/-!
# Property C12 — journal writer / reader

"Any sequence of records of any sizes written through the journal writer (with any pattern of flushes) is
read back as exactly that sequence.  If the byte stream is cut at any offset or damaged anywhere, the reader
with checksums on never crashes and never yields a record that was not written: in tolerant mode it yields
the original records in order minus only those that touch a damaged 32 KiB block, in strict mode it stops
with a corruption error."

Model: `GoLevel/Model/Journal.lean` (tied to the Go code byte-exactly by `harness/wp/c12`).
`decode strict checksum` is a total function, so "never crashes" is part of the model's type; the Go side
of that claim is the differential run (no panic in any case).

Everything below is proved (no `_full`/`_partial` split) except the hypothesis-free damage statement
`decode_damage_full`, which is false for an adversary who can forge CRC32C; `decode_damage_partial` proves
it under the explicit hypothesis that the first altered chunk fails the reader's header/CRC test, and
`altered_payload_rejected` discharges that hypothesis for every single-byte change of a chunk payload.
-/
namespace GoLevel.C12
open GoLevel GoLevel.Journal
open GoLevel.Gen (journalBlockSize journalHeaderSize)

/-! ## a. round trip -/

/-- Every list of records (any lengths, including empty and multi-block ones) is read back exactly, with no
    `Drop` call, ending with `io.EOF` — for all four `(strict, checksum)` combinations. -/
theorem decode_encode (strict checksum : Bool) (rs : List Bytes) :
    (decode strict checksum (encode rs)).records = rs ∧
    (decode strict checksum (encode rs)).drops = [] ∧
    (decode strict checksum (encode rs)).final = .eof := by
  rw [decode_encode_events]
  exact ⟨eventRecords_map_record rs, eventDrops_map_record rs, rfl⟩

example : (decode true true (encode [[1, 2, 3], [], List.replicate 70000 7])).records
    = [[1, 2, 3], [], List.replicate 70000 7] := (decode_encode true true _).1

/-! ## b. append-only, and the writer machine -/

/-- Appending records only appends bytes. -/
theorem encode_append_prefix (rs rs' : List Bytes) : encode rs <+: encode (rs ++ rs') := by
  unfold encode
  rw [encodeFrom_append]
  exact List.prefix_append _ _

example : encode [[1], List.replicate 40000 2] <+: encode ([[1], List.replicate 40000 2] ++ [[3]]) :=
  encode_append_prefix _ _

/-- For any sequence of `Next`/`Write`/`Flush`/`Close` calls (flushes anywhere, writes split anyhow, stale
    writes, calls after `Close`): the writer never panics, the bytes handed to the underlying `io.Writer`
    are a prefix of `encode (recordsOf ops)`, and they are equal to it whenever no record is open, in
    particular right after a `Flush` or `Close`. -/
theorem writer_refines_encode (ops : List Op) :
    (Writer.run {} ops).bad = false ∧
    (Writer.run {} ops).out <+: encode (recordsOf ops) ∧
    ((recState ops).cur = none → (Writer.run {} ops).out = encode (recordsOf ops)) :=
  (Rel.init.run ops).out

/-- … and after a final `Flush` or `Close` nothing is missing. -/
theorem writer_flush_complete (ops : List Op) (last : Op) (h : last = .flush ∨ last = .close) :
    (Writer.run {} (ops ++ [last])).out = encode (recordsOf (ops ++ [last])) := by
  refine (writer_refines_encode (ops ++ [last])).2.2 ?_
  unfold recState
  rw [List.foldl_append]
  simp only [List.foldl_cons, List.foldl_nil, RecState.step]
  split
  · rename_i hc
    exact (Rel.init.run ops).closedCur hc
  · rcases h with rfl | rfl <;> rfl

/-- The bytes already handed out are never changed by later calls. -/
theorem writer_out_monotone (ops ops' : List Op) :
    (Writer.run {} ops).out <+: (Writer.run {} (ops ++ ops')).out := by
  unfold Writer.run
  rw [List.foldl_append]
  exact run_out_prefix _ ops'

example : (Writer.run {} [.next, .write [1, 2], .flush, .next, .write [3], .write [4], .close]).out
    = encode [[1, 2], [3, 4]] :=
  writer_flush_complete [.next, .write [1, 2], .flush, .next, .write [3], .write [4]] .close (Or.inr rfl)

example : recordsOf [.next, .write [1, 2], .flush, .write [9], .next, .write [3], .write [4], .close]
    = [[1, 2], [3, 4]] := by decide

/-! ## c. CRC32C detects every single-byte change -/

/-- Changing the byte at one position of the input changes CRC32C, hence also the masked value stored in
    chunk headers. -/
theorem crc_single_byte (a c : Bytes) (x y : UInt8) (h : x ≠ y) :
    CRC.crc32c (a ++ x :: c) ≠ CRC.crc32c (a ++ y :: c) ∧
    CRC.crcValue (a ++ x :: c) ≠ CRC.crcValue (a ++ y :: c) :=
  ⟨CRC.crc32c_single_byte a c x y h, CRC.crcValue_single_byte a c x y h⟩

example : CRC.crc32c [1, 2, 3] ≠ CRC.crc32c [1, 9, 3] := (crc_single_byte [1] [3] 2 9 (by decide)).1

/-- A chunk in which one payload byte was altered fails the reader's test (checksums on). -/
theorem altered_payload_rejected (pos n : Nat) (first last : Bool) (a b : Bytes) (x x' : UInt8) (more : Bytes)
    (hx : x ≠ x') (hp : (a ++ x :: b).length < 65536) :
    ¬ Accepts true pos (chunkHeader (chunkType first last) (a ++ x :: b) ++ (a ++ x' :: b) ++ more) n :=
  Journal.altered_payload_rejected pos n first last a b x x' more hx hp

example : ¬ Accepts true 0 (chunkHeader (chunkType true true) [1, 2, 3] ++ [1, 7, 3] ++ []) 10 :=
  altered_payload_rejected 0 10 true true [1] [3] 2 7 [] (by decide) (by decide)

/-! ## d. truncation -/

/-- **Cut at any offset.**  `fits 0 rs n` is the number of leading records that lie wholly within the first
    `n` bytes of `encode rs` (`fits_complete`).  Reading `(encode rs).take n` delivers exactly these
    records, in order, followed by what the torn record produces (`Torn`): nothing, or a single `Drop` —
    "chunk length overflows block" (the cut is inside a chunk payload; size = bytes of that chunk that are
    present) or "missing chunk part" with size 0 (the cut is at a block boundary inside a record, or inside
    the header of a non-first chunk).  A cut at a record boundary, inside padding, or inside the header of
    the first chunk of a record is silent.  Tolerant mode always ends with `io.EOF`; strict mode ends with
    the corruption error exactly when there was such a `Drop`, with `io.EOF` otherwise. -/
theorem decode_truncate (strict checksum : Bool) (rs : List Bytes) (n : Nat) :
    ∃ t, Torn strict t ∧
      decode strict checksum ((encode rs).take n) =
        ⟨(rs.take (fits 0 rs n)).map .record ++ t.events, t.final⟩ :=
  decodeLoop_truncate strict checksum 0 rs n (Nat.zero_le _)

/-- `fits` counts exactly the records wholly contained in the first `n` bytes. -/
theorem fits_complete (rs : List Bytes) (n k : Nat) (hk : k ≤ rs.length) :
    k ≤ fits 0 rs n ↔ (encode (rs.take k)).length ≤ n :=
  fits_spec 0 rs n k hk

/-- Tolerant reader on a truncated stream: a prefix of the records (all the complete ones), never an error,
    at most one `Drop`. -/
theorem decode_truncate_tolerant (checksum : Bool) (rs : List Bytes) (n : Nat) :
    (decode false checksum ((encode rs).take n)).records = rs.take (fits 0 rs n) ∧
    (decode false checksum ((encode rs).take n)).final = .eof ∧
    (decode false checksum ((encode rs).take n)).drops.length ≤ 1 := by
  obtain ⟨t, ht, e⟩ := decode_truncate false checksum rs n
  rw [e, records_mk, drops_mk]
  rcases ht with rfl | ⟨x, w, rfl, _⟩
  · simp [eventRecords, eventDrops]
  · simp [eventRecords, eventDrops]

/-- Strict reader on a truncated stream: the same prefix, then `io.EOF` without any `Drop`, or exactly one
    `Drop` and the corruption error. -/
theorem decode_truncate_strict (checksum : Bool) (rs : List Bytes) (n : Nat) :
    (decode true checksum ((encode rs).take n)).records = rs.take (fits 0 rs n) ∧
    (((decode true checksum ((encode rs).take n)).final = .eof ∧
        (decode true checksum ((encode rs).take n)).drops = []) ∨
     ((decode true checksum ((encode rs).take n)).final = .corrupt ∧
        (decode true checksum ((encode rs).take n)).drops.length = 1)) := by
  obtain ⟨t, ht, e⟩ := decode_truncate true checksum rs n
  rw [e, records_mk, drops_mk]
  rcases ht with rfl | ⟨x, w, rfl, _⟩
  · simp [eventRecords, eventDrops]
  · simp [eventRecords, eventDrops]

example : (decode false true ((encode [[1, 2, 3], [4, 5], [6]]).take 20)).records
    = [[1, 2, 3], [4, 5], [6]].take (fits 0 [[1, 2, 3], [4, 5], [6]] 20) :=
  (decode_truncate_tolerant true _ 20).1

/-- in the example above two records (10 + 9 bytes) fit into 20 bytes, the third is torn -/
example : fits 0 [[1, 2, 3], [4, 5], [6]] 20 = 2 := by decide

/-! ## e. zero tail, one damaged block -/

/-- A stream followed by any number of zero bytes (preallocated file): the tolerant reader delivers the same
    records and ends with `io.EOF`; every `Drop` is a "zero header". -/
theorem decode_zero_tail (checksum : Bool) (rs : List Bytes) (k : Nat) :
    (decode false checksum (encode rs ++ List.replicate k 0)).records = rs ∧
    (decode false checksum (encode rs ++ List.replicate k 0)).final = .eof ∧
    ∀ d ∈ (decode false checksum (encode rs ++ List.replicate k 0)).drops, d.2 = .zeroHeader := by
  have h := decodeLoop_encodeFrom false checksum 0 rs (List.replicate k 0) (Nat.zero_le _)
  obtain ⟨ds, hds, e⟩ := decodeLoop_zeros_tolerant checksum (endPos 0 rs) k (endPos_le 0 rs (Nat.zero_le _))
  unfold decode encode
  rw [h, e]
  simp only [records_mk, drops_mk]
  clear e h
  induction ds with
  | nil => simp [eventRecords, eventDrops]
  | cons a ds ih =>
    obtain ⟨x, rfl⟩ := hds a List.mem_cons_self
    obtain ⟨i1, _, i3⟩ := ih (fun e he => hds e (List.mem_cons_of_mem _ he))
    refine ⟨by simpa [eventRecords] using i1, trivial, ?_⟩
    intro d hd
    simp only [eventDrops, List.mem_cons] at hd
    rcases hd with rfl | hd
    · rfl
    · exact i3 d hd

/-- The strict reader on a zero-extended stream delivers the same records; it ends with `io.EOF` if it
    never sees seven zero bytes at a chunk position, otherwise with one "zero header" corruption error
    (Go: `corrupt(…, "zero header", false)` — not skipped in strict mode). -/
theorem decode_zero_tail_strict (checksum : Bool) (rs : List Bytes) (k : Nat) :
    (decode true checksum (encode rs ++ List.replicate k 0)).records = rs ∧
    ((decode true checksum (encode rs ++ List.replicate k 0)).final = .eof ∧
       (decode true checksum (encode rs ++ List.replicate k 0)).drops = [] ∨
     (decode true checksum (encode rs ++ List.replicate k 0)).final = .corrupt ∧
       ∃ x, (decode true checksum (encode rs ++ List.replicate k 0)).drops = [(x, .zeroHeader)]) := by
  have h := decodeLoop_encodeFrom true checksum 0 rs (List.replicate k 0) (Nat.zero_le _)
  unfold decode encode
  rw [h]
  rcases decodeLoop_zeros_strict checksum (endPos 0 rs) k (endPos_le 0 rs (Nat.zero_le _)) with e | ⟨x, e⟩
  · rw [e]
    simp only [records_mk, drops_mk]
    simp [eventRecords, eventDrops]
  · rw [e]
    simp only [records_mk, drops_mk]
    exact ⟨by simp [eventRecords], Or.inr ⟨trivial, x, by simp [eventDrops]⟩⟩

example : (decode false true (encode [[1, 2], List.replicate 33000 5] ++ List.replicate 100000 0)).records
    = [[1, 2], List.replicate 33000 5] := (decode_zero_tail true _ 100000).1

/-- The hypothesis-free statement for one damaged block.  **Not provable** (and false against an adversary):
    CRC32C is not collision-free, so a block can be overwritten with well-formed chunks carrying records that
    were never written; also with `checksum = false` any payload change goes unnoticed.
    `recordEnd rs k` is the offset just after record `k`. -/
def decode_damage_full : Prop :=
  ∀ (rs : List Bytes) (E' : Bytes) (b : Nat),
    E'.length = (encode rs).length →
    (∀ i, i / journalBlockSize ≠ b → E'[i]? = (encode rs)[i]?) →
    (decode false true E').records.Sublist rs ∧
    ∀ k, k < rs.length →
      ((encode (rs.take (k + 1))).length ≤ b * journalBlockSize ∨
        (b + 1) * journalBlockSize ≤ (encode (rs.take k)).length) →
      rs[k]? ∈ (decode false true E').records.map some

/-- **One damaged block.**  Let `X` be an intact prefix of `encode rs` that ends at a chunk boundary
    (`Boundary`: `done` = records wholly inside `X`; `y`/`cur` describe the record the boundary is in, if any;
    `rest` = the records after it), let `Z'` replace the bytes from that boundary to the end of the block
    (or of the stream), and let the remaining bytes be intact.  **Hypothesis:** the chunk now found at the
    boundary fails the reader's test (zero header, invalid type, length overflowing the block, or checksum
    mismatch — `¬ Accepts`).  Then the tolerant reader delivers exactly `done ++ survivors`, in order, where
    `survivors` are the records that start after the damaged block (a suffix of `rest`): it invents nothing,
    and loses only records that have a chunk in the dropped part of the damaged block.  It ends with
    `io.EOF`.  The strict reader delivers `done` and stops with the corruption error. -/
theorem decode_damage_partial {rs done : List Bytes} {X : Bytes} {pos : Nat} {cur y : Option Bytes}
    {rest : List Bytes} (hB : Boundary rs done X pos cur y rest) (checksum : Bool) (Z' : Bytes)
    (hlen : Z'.length = zoneLen pos y rest)
    (hrej : ¬ Accepts checksum (zoneStart pos y) (Z' ++ (tailBytes pos y rest).drop (zoneLen pos y rest))
      (zoneStart pos y + zoneLen pos y rest)) :
    -- the undamaged stream is `encode rs`, the damaged one differs from it only in the zone
    X ++ (tailBytes pos y rest).take (zoneLen pos y rest) ++ (tailBytes pos y rest).drop (zoneLen pos y rest)
      = encode rs ∧
    -- the records: before / lost / surviving
    (∃ lost, rs = done ++ lost ++ survivors pos y rest) ∧
    (decode false checksum (X ++ Z' ++ (tailBytes pos y rest).drop (zoneLen pos y rest))).records
      = done ++ survivors pos y rest ∧
    (decode false checksum (X ++ Z' ++ (tailBytes pos y rest).drop (zoneLen pos y rest))).final = .eof ∧
    (decode true checksum (X ++ Z' ++ (tailBytes pos y rest).drop (zoneLen pos y rest))).records = done ∧
    (decode true checksum (X ++ Z' ++ (tailBytes pos y rest).drop (zoneLen pos y rest))).final = .corrupt := by
  obtain ⟨ds, hds, e⟩ := hB.damage checksum Z' hlen hrej
  obtain ⟨x, w, e'⟩ := hB.damage_strict checksum Z' hlen hrej
  obtain ⟨mid, hmid, _, _⟩ := hB.records
  obtain ⟨_, hpos, hne⟩ := hB.shape
  have hy : y = none → pos + journalHeaderSize ≤ journalBlockSize ∧ rest ≠ [] := by
    intro h; subst h; exact ⟨by simpa using hpos, hne rfl⟩
  obtain ⟨_, _, lost, hl⟩ := tail_after pos y rest hy
  refine ⟨?_, ⟨mid ++ lost, ?_⟩, ?_, ?_, ?_, ?_⟩
  · rw [List.append_assoc, List.take_append_drop, hB.stream]
  · rw [hmid]; conv => lhs; rw [hl]
    simp [List.append_assoc]
  · rw [e, List.append_assoc, records_mk, eventRecords_append, hds, eventRecords_map_record]; simp
  · rw [e]
  · rw [e', records_mk]; simp [eventRecords]
  · rw [e']

/-- Non-vacuity: records `[1,2,3]`, `[4]`, `[5,6]`; the chunk of the second record (8 bytes at offset 10) is
    overwritten with `0xFF` bytes (invalid chunk type).  The block ends with the stream, so the third record
    is lost as well: the tolerant reader returns the first record only. -/
example :
    (decode false true (encode [[1, 2, 3]] ++ List.replicate 17 0xFF ++ [])).records = [[1, 2, 3]] := by
  have hB : Boundary [[1, 2, 3], [4], [5, 6]] [[1, 2, 3]] _ _ none none [[4], [5, 6]] :=
    Boundary.record [[1, 2, 3]] [4] [[5, 6]] rfl
  have hz : zoneLen (pad (endPos 0 [[1, 2, 3]])).2 none [[4], [5, 6]] = 17 := by decide
  have hd : (tailBytes (pad (endPos 0 [[1, 2, 3]])).2 none [[4], [5, 6]]).drop 17 = [] := by
    apply List.drop_eq_nil_of_le; decide
  have hp : (pad (endPos 0 [[1, 2, 3]])).1 = [] := by decide
  have hs : survivors (pad (endPos 0 [[1, 2, 3]])).2 none [[4], [5, 6]] = [] := by decide
  have := (decode_damage_partial hB true (List.replicate 17 0xFF) (by rw [hz]; rfl)
    (by rw [hz, hd]; decide)).2.2.1
  rw [hz, hd, hs, hp] at this
  simpa [encode] using this

/-- Non-vacuity with survivors: `exampleRecords` = `[1,2,3]`, 32744 × `5`, `[]`, `[9]`; the first three records
    fill block 0 exactly.  Block 0 is overwritten with `0xFF`; block 1 is intact.  The tolerant reader returns
    the fourth record only, the strict reader nothing and a corruption error. -/
example :
    (decode false true (List.replicate 32768 0xFF ++ (encode exampleRecords).drop 32768)).records = [[9]] ∧
    (decode true true (List.replicate 32768 0xFF ++ (encode exampleRecords).drop 32768)).final = .corrupt := by
  have hB : Boundary exampleRecords [] ([] ++ []) 0 none none exampleRecords :=
    Boundary.record [] [1, 2, 3] [List.replicate 32744 5, [], [9]] rfl
  have := decode_damage_partial hB true (List.replicate 32768 0xFF)
    (by rw [example_zoneLen, List.length_replicate]) (by rw [example_zoneLen]; exact example_rejected)
  rw [example_zoneLen, example_survivors] at this
  exact ⟨this.2.2.1, this.2.2.2.2.2⟩

/-- The property theorems of this file (for the audit). -/
def theorems : List String :=
  ["GoLevel.C12.decode_encode", "GoLevel.C12.encode_append_prefix", "GoLevel.C12.writer_refines_encode",
   "GoLevel.C12.writer_flush_complete", "GoLevel.C12.writer_out_monotone", "GoLevel.C12.crc_single_byte",
   "GoLevel.C12.altered_payload_rejected", "GoLevel.C12.decode_truncate", "GoLevel.C12.fits_complete",
   "GoLevel.C12.decode_truncate_tolerant", "GoLevel.C12.decode_truncate_strict", "GoLevel.C12.decode_zero_tail",
   "GoLevel.C12.decode_zero_tail_strict", "GoLevel.C12.decode_damage_partial"]

end GoLevel.C12
