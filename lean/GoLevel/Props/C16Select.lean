import GoLevel.Model.FilterSelect
/-!
# C16 / C13 — a table is only ever read with the policy it names

Model: `GoLevel/Model/FilterSelect.lean` (the choice `table.NewReader` makes for the `filter.<name>` metaindex entry
among `Options.Filter` and `Options.AltFilters`).

* `select_name` — the adopted policy carries the recorded name and is one of the configured policies;
* `select_none_iff` — the table is read WITHOUT a filter exactly when no configured policy carries the recorded name;
* `select_hides_nothing` — under the `Name` contract of `filter.Filter` (same name ⇒ same encoding) and for a lawful
  writer policy, whatever `NewReader` adopts reports every stored key present: the filtered lookups of C13 / C16 lose
  nothing, for every `Filter` / `AltFilters` configuration;
* `foreign_policy_hides_key` — the contract is needed: handing a filter block to a lawful policy of ANOTHER name can hide a
  stored key (what a reader that adopts "the last alternative" does; seeded change `C13-altfilter-last-adopted`).

Tie: `tbl select` lines — tables written under three policies of unrelated formats are opened by the real `NewReader` under
every `Filter` / `AltFilters` combination drawn from them; the name of the policy the real reader adopted (read off
the reader by reflection) must be the model's.
-/
namespace GoLevel.C16Select
open GoLevel GoLevel.FilterSelect

theorem find_name (alts : List FilterPolicy) (fn : Bytes) (p : FilterPolicy)
    (h : alts.find? (fun f => f.name == fn) = some p) : p.name = fn ∧ p ∈ alts := by
  have h1 := List.find?_some h
  exact ⟨by simpa using h1, List.mem_of_find?_eq_some h⟩

theorem select_name (main : Option FilterPolicy) (alts : List FilterPolicy) (fn : Bytes) (p : FilterPolicy)
    (h : select main alts fn = some p) : p.name = fn ∧ p ∈ main.toList ++ alts := by
  unfold select at h
  cases main with
  | none =>
    obtain ⟨h1, h2⟩ := find_name alts fn p h
    exact ⟨h1, by simp [h2]⟩
  | some f0 =>
    simp only at h
    by_cases hn : f0.name = fn
    · rw [if_pos hn] at h
      cases h
      exact ⟨hn, by simp⟩
    · rw [if_neg hn] at h
      obtain ⟨h1, h2⟩ := find_name alts fn p h
      exact ⟨h1, by simp [h2]⟩

theorem select_none_iff (main : Option FilterPolicy) (alts : List FilterPolicy) (fn : Bytes) :
    select main alts fn = none ↔ ∀ p ∈ main.toList ++ alts, p.name ≠ fn := by
  unfold select
  cases main with
  | none =>
    simp only [Option.toList_none, List.nil_append, List.find?_eq_none]
    constructor
    · intro h p hp; simpa using h p hp
    · intro h p hp; simpa using h p hp
  | some f0 =>
    simp only [Option.toList_some, List.cons_append, List.nil_append, List.mem_cons]
    by_cases hn : f0.name = fn
    · rw [if_pos hn]
      constructor
      · intro h; cases h
      · intro h; exact absurd hn (h f0 (Or.inl rfl))
    · rw [if_neg hn, List.find?_eq_none]
      constructor
      · intro h p hp
        rcases hp with rfl | hp
        · exact hn
        · simpa using h p hp
      · intro h p hp; simpa using h p (Or.inr hp)

/-- **`select_hides_nothing`** -/
theorem select_hides_nothing (w : FilterPolicy) (hw : LawfulFilter w) (main : Option FilterPolicy)
    (alts : List FilterPolicy)
    (hcontract : ∀ p ∈ main.toList ++ alts, p.name = w.name → p.contains = w.contains)
    (keys : List Bytes) (k : Bytes) (hk : k ∈ keys) :
    match select main alts w.name with
    | some p => p.contains (w.generate keys) k = true
    | none => True := by
  cases hs : select main alts w.name with
  | none => trivial
  | some p =>
    obtain ⟨hn, hm⟩ := select_name main alts w.name p hs
    show p.contains (w.generate keys) k = true
    rw [hcontract p hm hn]
    exact hw keys k hk

private def polA : FilterPolicy := ⟨[65], fun _ => [1], fun _ _ => true⟩
private def polB : FilterPolicy := ⟨[66], fun _ => [2], fun f _ => f == [2]⟩

/-- **`foreign_policy_hides_key`** -/
theorem foreign_policy_hides_key :
    LawfulFilter polA ∧ LawfulFilter polB ∧ polA.name ≠ polB.name ∧
    polB.contains (polA.generate [[7]]) [7] = false ∧
    (select none [polB] polA.name).isNone = true ∧
    (select (some polB) [polA] polA.name).map (·.name) = some polA.name := by
  refine ⟨fun _ _ _ => rfl, fun _ _ _ => rfl, by decide, by decide, by decide, by decide⟩

end GoLevel.C16Select

def GoLevel.C16Select.theorems : List String :=
  ["GoLevel.C16Select.select_name", "GoLevel.C16Select.select_none_iff", "GoLevel.C16Select.select_hides_nothing",
   "GoLevel.C16Select.foreign_policy_hides_key"]
