import GoLevel.Proofs.RefLoopStep
import GoLevel.Props.C07Full
/-! # C07 — file deletion

"The DB never removes a file that the current state, an unreleased iterator or an in-flight read still needs: an
iterator keeps returning correct data through any number of later compactions.  Conversely, once readers are
released and background work settles - and in any case after close and reopen - storage holds nothing but the
live tables, the live journal(s), the live manifest and its pointer, and the space of overwritten or deleted
data is given back by compaction instead of accumulating."

Model: `GoLevel.RefLoop` (`Model/RefLoop.lean`) — `session.refLoop` exactly as written (version tasks cached
up to `maxCachedNumber`, conversion to full references, the timer as the message `expire`).  A table is removed
from storage only through this loop (`tOps.remove`; C17 covers the cache that defers the actual `Remove` until
the table's handles are released) or by the start-up sweep `checkAndCleanFiles` (`startup_sweep` below).

Environment hypotheses (`EnvStep`, `Env.WF` in `Proofs/RefLoopInv.lean`), all explicit:
* version ids are consecutive and `ref v` is the first message about `v`; the first version of a session is empty;
* the delta of version `v` is sent after `ref (v+1)`, deltas arrive in version order, `rel v` comes after the
  delta of `v`, once;
* `ExactDelta`: the delta lists `files(v+1) − files(v)` and `files(v) − files(v+1)`;
* `NodupDelta` (= `NodupAdded` and the same for `deleted`): each table once — **the code violates this on the first
  commit after every `Open`** (`session.commit` → `newManifest(r, nv)` adds every table of `nv` to
  `r.addedTables` again, and `setVersion` builds the delta from it): see `delta_once_needed`;
* a table that left the version never comes back (`Env.WF.mono`).
The theorems of THIS file keep these hypotheses (they are the simplest statement of the argument).
`Props/C07Full.lean` removes them: abandoned version ids at any point, trivial-move deltas (a table on both
sides), the empty delta of `session.recover`, the shutdown messages of `session.close`, file-number reuse, and
the producers (`session.setVersion/commit/recover/close`, reader pins) modelled over the LSM versions so that
"consecutive ids, exact duplicate-free deltas" are lemmas (`no_premature_delete_full`, `eventual_delete_full`,
`producer_…`, `shutdown_…`, `no_remove_of_reused_number`). -/
namespace GoLevel.C07
open GoLevel.RefLoop

/-- The loop (from its initial state) driven by a well-behaved environment: state, history, all removals. -/
inductive Reach : State → Env → List Nat → Prop
  | init : Reach State.init Env.init []
  | step {S S' : State} {G G' : Env} {R rm : List Nat} {m : Msg} :
      Reach S G R → EnvStep G m G' → RefLoop.step S m = some (S', rm) → Reach S' G' (R ++ rm)

theorem reach_inv {S : State} {G : Env} {R : List Nat} (h : Reach S G R) :
    Inv S G ∧ S.released.lookup S.next = none ∧ Hist S G R := by
  induction h with
  | init => exact ⟨inv_init, rfl, hist_init⟩
  | @step S S' G G' R rm m _ hs hstep ih =>
    obtain ⟨S1, rm1, h1, h2, _, h2'⟩ := handle_inv ih.1 ih.2.2 hs
    simp only [RefLoop.step, h1] at hstep
    cases hp : processTasks S1 with
    | none => rw [hp] at hstep; cases hstep
    | some r =>
      obtain ⟨S2, rm2⟩ := r
      rw [hp] at hstep
      simp only [Option.some.injEq, Prod.mk.injEq] at hstep
      obtain ⟨rfl, rfl⟩ := hstep
      obtain ⟨S3, rm3, h4, h5, _, h5'⟩ := processTasks_inv h2 h2'
      rw [hp] at h4
      simp only [Option.some.injEq, Prod.mk.injEq] at h4
      obtain ⟨rfl, rfl⟩ := h4
      exact ⟨h5, processTasks_settled h2 h2' hp, by rw [← List.append_assoc]; exact h5'⟩

/-- **no_premature_delete.**  Whatever message a well-behaved environment sends next, the loop does not panic,
and every table it hands to `tOps.remove` while handling it belongs to no version that has been referenced and
not released — in particular not to the current version. -/
theorem no_premature_delete {S : State} {G G' : Env} {R : List Nat} {m : Msg}
    (h : Reach S G R) (hs : EnvStep G m G') :
    ∃ S' rm, RefLoop.step S m = some (S', rm) ∧
      (∀ f ∈ rm, ∀ k, k < G'.n → k ∉ G'.rel → f ∉ G'.F k) ∧
      (∀ f ∈ rm, f ∉ G'.F (G'.n - 1)) := by
  obtain ⟨S', rm, h1, h2, h3, _⟩ := step_inv (reach_inv h).1 (reach_inv h).2.2 hs
  refine ⟨S', rm, h1, h3, fun f hf => ?_⟩
  by_cases hn : G'.n = 0
  · rw [F_ge (by omega)]; simp
  · refine h3 f hf (G'.n - 1) (by omega) (fun hrel => ?_)
    have := h2.wf.rel_lt _ hrel
    rcases h2.wf.nd_lt with h4 | h4 <;> omega

/-- No table is ever removed twice. -/
theorem removed_at_most_once {S : State} {G : Env} {R : List Nat} (h : Reach S G R) : R.Nodup := by
  refine List.nodup_iff_count.mpr (fun f => ?_)
  have hH := (reach_inv h).2.2 f
  by_cases hc : Acc S G f ∧ S.fileRef.count f = 0
  · rw [hH.1 hc]; exact Nat.le_refl _
  · rw [hH.2 hc]; exact Nat.zero_le _

/-- **eventual_delete.**  When every delta has arrived, every version but the current one has been released and
all messages have been processed: the counters cover exactly the tables of the current version
(`dom fileRef = files(current)`), and every table that ever belonged to a version and is not in the current one
has been removed exactly once. -/
theorem eventual_delete {S : State} {G : Env} {R : List Nat} (h : Reach S G R)
    (hn : 0 < G.n) (hnd : G.nd + 1 = G.n) (hrel : ∀ k, k + 1 < G.n → k ∈ G.rel) :
    (∀ f, f ∈ S.fileRef ↔ f ∈ G.F (G.n - 1)) ∧
    (∀ f k, k < G.n → f ∈ G.F k → f ∉ G.F (G.n - 1) → R.count f = 1) := by
  obtain ⟨hI, hs, hH⟩ := reach_inv h
  have hq := quiescent_fileRef hI hs hn hnd hrel
  refine ⟨hq, fun f k hk hfk hcur => ?_⟩
  have hnr : S.next ∉ G.rel := by
    intro h
    have := hI.rld S.next
    simp [h] at this
    rw [hs] at this; cases this
  have hge : G.n - 1 ≤ S.next := by
    rcases Nat.lt_or_ge S.next (G.n - 1) with h | h
    · exact absurd (hrel S.next (by omega)) hnr
    · exact h
  refine (hH f).1 ⟨⟨k, ?_, hfk⟩, ?_⟩
  · by_cases hkn : k < S.next
    · exact Or.inl hkn
    · right; have := hI.nx; omega
  · rw [List.count_eq_zero]; exact fun hm => hcur ((hq f).mp hm)

/-! ## `NodupAdded` is needed -/

/-- Versions 0 (empty), 1 = {5}, 2 (empty): table 5 is added by the first delta and deleted by the second. -/
def history (added0 : List Nat) : List Msg :=
  [ .ref 0 [], .ref 1 [5], .delta 0 ⟨added0, []⟩, .rel 0 [],
    .ref 2 [], .delta 1 ⟨[], [5]⟩, .rel 1 [5] ]

/-- **delta_once_needed.**  With the delta listing table 5 once, the history above removes it and ends with empty
counters; with the delta listing it TWICE (what `session.commit` does on the first commit after `Open`), table 5
is never removed although no version needs it: its counter stays at 1. -/
theorem delta_once_needed :
    (run State.init (history [5])).map (fun r => (r.1.fileRef, r.2)) = some ([], [5]) ∧
    (run State.init (history [5, 5])).map (fun r => (r.1.fileRef, r.2)) = some ([5], []) := by
  decide

/-! ## the start-up sweep (`DB.checkAndCleanFiles`) -/

inductive FType
  | manifest | journal | table | temp
  deriving DecidableEq, Repr

structure FileDesc where
  typ : FType
  num : Nat
  deriving DecidableEq, Repr

/-- `keep` of `checkAndCleanFiles`: `journalNum` is `frozenJournalFd.Num` when that is set, else `journalFd.Num`. -/
def keep (tables : List Nat) (manifestNum journalNum : Nat) (fd : FileDesc) : Bool :=
  match fd.typ with
  | .manifest => decide (fd.num ≥ manifestNum)
  | .journal => decide (fd.num ≥ journalNum)
  | .table => decide (fd.num ∈ tables)
  | .temp => true

/-- `checkAndCleanFiles`: `none` = `ErrMissingFiles` (a table of the version is not in storage; nothing is
removed); otherwise the files that stay and the files that are removed. -/
def sweep (tables : List Nat) (manifestNum journalNum : Nat) (files : List FileDesc) :
    Option (List FileDesc × List FileDesc) :=
  if tables.all (fun t => decide (⟨.table, t⟩ ∈ files)) then
    some (files.filter (keep tables manifestNum journalNum), files.filter (fun fd => !keep tables manifestNum journalNum fd))
  else none

/-- **startup_sweep.**  After `Open` storage holds, of the files that were there, exactly: the tables of the
recovered version (all of them), the manifests and journals that are not older than the live ones, and
temporary files; everything else (tables no version needs — e.g. leaked by the duplicate-added defect —, old
journals and manifests) is removed. -/
theorem startup_sweep {tables : List Nat} {m j : Nat} {files kept removed : List FileDesc}
    (h : sweep tables m j files = some (kept, removed)) :
    (∀ t ∈ tables, ⟨.table, t⟩ ∈ kept) ∧
    (∀ fd ∈ kept, fd.typ = .table → fd.num ∈ tables) ∧
    (∀ fd ∈ kept, fd.typ = .manifest → fd.num ≥ m) ∧
    (∀ fd ∈ kept, fd.typ = .journal → fd.num ≥ j) ∧
    (∀ fd ∈ files, fd ∈ kept ∨ fd ∈ removed) ∧
    (∀ fd ∈ removed, fd ∉ kept) := by
  unfold sweep at h
  split at h
  · rename_i hall
    simp only [Option.some.injEq, Prod.mk.injEq] at h
    obtain ⟨rfl, rfl⟩ := h
    simp only [List.all_eq_true, decide_eq_true_eq] at hall
    refine ⟨?_, ?_, ?_, ?_, ?_, ?_⟩
    · intro t ht
      exact List.mem_filter.mpr ⟨hall t ht, by simp [keep, ht]⟩
    · intro fd hfd htyp
      have := (List.mem_filter.mp hfd).2
      simpa [keep, htyp] using this
    · intro fd hfd htyp
      have := (List.mem_filter.mp hfd).2
      simpa [keep, htyp] using this
    · intro fd hfd htyp
      have := (List.mem_filter.mp hfd).2
      simpa [keep, htyp] using this
    · intro fd hfd
      cases hk : keep tables m j fd with
      | true => exact Or.inl (List.mem_filter.mpr ⟨hfd, hk⟩)
      | false => exact Or.inr (List.mem_filter.mpr ⟨hfd, by simp [hk]⟩)
    · intro fd hfd hk
      have h1 := (List.mem_filter.mp hfd).2
      have h2 := (List.mem_filter.mp hk).2
      simp [h2] at h1
  · cases h

/-! ## Non-vacuity -/

/-- A history produced by a well-behaved environment. -/
inductive EnvChain : Env → List Msg → Env → Prop
  | nil (G : Env) : EnvChain G [] G
  | cons {G G1 G2 : Env} {m : Msg} {ms : List Msg} : EnvStep G m G1 → EnvChain G1 ms G2 → EnvChain G (m :: ms) G2

theorem reach_of_chain {S : State} {G G' : Env} {R : List Nat} {ms : List Msg} (h : Reach S G R)
    (hc : EnvChain G ms G') : ∃ S' R', run S ms = some (S', R') ∧ Reach S' G' (R ++ R') := by
  induction hc generalizing S R with
  | nil G => exact ⟨S, [], rfl, by simpa using h⟩
  | cons hs _ ih =>
    obtain ⟨S1, rm, h1, _, _, _⟩ := step_inv (reach_inv h).1 (reach_inv h).2.2 hs
    obtain ⟨S2, R2, h2, h3⟩ := ih (Reach.step h hs h1)
    exact ⟨S2, rm ++ R2, by simp [run, h1, h2], by simpa [List.append_assoc] using h3⟩

/-- The history with the single listing is a well-behaved one (every hypothesis checked on it). -/
theorem history_chain : EnvChain Env.init (history [5]) ⟨[[], [5], []], [⟨[5], []⟩, ⟨[], [5]⟩], [1, 0]⟩ := by
  refine .cons (EnvStep.ref Env.init [] List.nodup_nil (fun _ => rfl) (by intro f hf; cases hf)) ?_
  refine .cons (EnvStep.ref ⟨[[]], [], []⟩ [5] (by simp) (by simp [Env.n]) (by
    intro f _ j k hjk hk; simp [Env.n] at hk; omega)) ?_
  refine .cons (EnvStep.delta ⟨[[], [5]], [], []⟩ ⟨[5], []⟩ (by simp [Env.n, Env.nd]) ⟨by simp, by simp⟩
    ⟨by intro f; simp [Env.F, Env.nd], by intro f; simp [Env.F, Env.nd]⟩) ?_
  refine .cons (EnvStep.rel ⟨[[], [5]], [⟨[5], []⟩], []⟩ 0 (by simp [Env.nd]) (by simp)) ?_
  refine .cons (EnvStep.ref ⟨[[], [5]], [⟨[5], []⟩], [0]⟩ [] List.nodup_nil (by simp [Env.n])
    (by intro f hf; cases hf)) ?_
  refine .cons (EnvStep.delta ⟨[[], [5], []], [⟨[5], []⟩], [0]⟩ ⟨[], [5]⟩ (by simp [Env.n, Env.nd])
    ⟨by simp, by simp⟩ ⟨by intro f; simp [Env.F, Env.nd], by intro f; simp [Env.F, Env.nd]⟩) ?_
  refine .cons (EnvStep.rel ⟨[[], [5], []], [⟨[5], []⟩, ⟨[], [5]⟩], [0]⟩ 1 (by simp [Env.nd]) (by simp)) ?_
  exact .nil _

/-- So the theorems are not vacuous: a reachable state in which a table was removed (and, the state being
quiescent, `eventual_delete` applies: the counters are those of the empty current version). -/
example : ∃ S G R, Reach S G R ∧ R = [5] ∧ S.fileRef = [] ∧ G.n = 3 := by
  obtain ⟨S, R, h1, h2⟩ := reach_of_chain Reach.init history_chain
  have hd : run State.init (history [5]) = some (S, R) := h1
  have he := delta_once_needed.1
  rw [hd] at he
  simp only [Option.map_some, Option.some.injEq, Prod.mk.injEq] at he
  exact ⟨S, _, R, by simpa using h2, he.2, he.1, rfl⟩

/-- A long-held version: version 1 = {7} stays referenced while `n` versions come and go; table 7 is deleted from
the version at once. -/
def longHeld (n : Nat) : List Msg :=
  [ .ref 0 [], .ref 1 [7], .delta 0 ⟨[7], []⟩, .rel 0 [],
    .ref 2 [], .delta 1 ⟨[], [7]⟩ ] ++
  ((List.range n).flatMap fun i => [ Msg.ref (i + 3) [], .delta (i + 2) ⟨[], []⟩, .rel (i + 2) [] ])

/-- The version task of the held version expires (`maxCachedTime`): it is converted to full references
(`referenced = [1]`), the loop goes on to version 7, and table 7 is still counted — nothing was removed. -/
example : (run State.init (longHeld 5 ++ [.expire 1])).map (fun r => (r.1.fileRef, r.1.referenced, r.1.next, r.2)) =
    some ([7], [1], 7, []) := by decide

/-- … and it is removed exactly when the held version is released.  (The same with more than `maxCachedNumber`
versions instead of the timer is evaluated in `Proofs/RefLoopLong.lean`.) -/
example : (run State.init (longHeld 5 ++ [.expire 1, .rel 1 [7]])).map (fun r => (r.1.fileRef, r.1.referenced, r.2)) =
    some ([], [], [7]) := by decide

/-- The sweep removes a leaked table and an old journal, keeps the live files. -/
example : sweep [4, 9] 12 11 [⟨.table, 4⟩, ⟨.table, 7⟩, ⟨.table, 9⟩, ⟨.journal, 8⟩, ⟨.journal, 11⟩, ⟨.manifest, 12⟩] =
    some ([⟨.table, 4⟩, ⟨.table, 9⟩, ⟨.journal, 11⟩, ⟨.manifest, 12⟩], [⟨.table, 7⟩, ⟨.journal, 8⟩]) := by decide

/-- The property theorems of C07 (for the audit). -/
def theorems : List String :=
  ["GoLevel.C07.no_premature_delete", "GoLevel.C07.eventual_delete", "GoLevel.C07.removed_at_most_once",
   "GoLevel.C07.delta_once_needed", "GoLevel.C07.startup_sweep",
   "GoLevel.C07.no_premature_delete_msgs", "GoLevel.C07.eventual_delete_msgs",
   "GoLevel.C07.removed_at_most_once_msgs", "GoLevel.C07.no_premature_delete_full",
   "GoLevel.C07.eventual_delete_full", "GoLevel.C07.used_covers_held",
   "GoLevel.C07.producer_added_once", "GoLevel.C07.producer_delta_exact",
   "GoLevel.C07.producer_first_delta_exact", "GoLevel.C07.producer_ids", "GoLevel.C07.producer_edit_facts",
   "GoLevel.C07.code_producer_facts",
   "GoLevel.C07.shutdown_frontier", "GoLevel.C07.code_close_order", "GoLevel.C07.shutdown_removes_nothing",
   "GoLevel.C07.shutdown_requests_live_table",
   "GoLevel.C07.code_reuse_in_callback", "GoLevel.C07.no_remove_of_reused_number",
   "GoLevel.C07.code_no_remove_of_reused_number", "GoLevel.C07.early_reuse_removes_new_file"]

end GoLevel.C07
