import GoLevel.Proofs.Key
/-!
# Property C15 — ordering of internal keys, probe placement, shortened index keys

"Entries are ordered by user key under the configured comparer, ascending, and for equal user keys newest
first; this is a strict total order for every valid comparer and agrees with how lookups are positioned
(the probe for 'key k as of sequence s' sorts immediately before the newest entry of k that is not newer
than s).  The shortened keys used in table indexes always satisfy a <= separator(a,b) < b and
successor(b) >= b in that order, for the built-in and for custom comparers, so an index built from them
sends every lookup to the block holding the sought entry."

Models: `GoLevel/Model/Key.lean` (`key.go`, `comparer.go`, `comparer/bytes_comparer.go`); `seekGE`,
`tableFind` (`table.Reader.find`) and `buildIndex` (`table.Writer.flushPendingBH`) in `GoLevel/Proofs/Key.lean`.

"Valid comparer" is `LawfulUCmp`, whose `sep_ok` clause is read for `a ≤ b` (every call the DB makes), so
that it forces `Separator(u,u) = nil`.  Under the weaker reading "only for `a < b`" the statement
`a ≤ separator(a,b) < b` is false for custom comparers: see `sep_premise_needed`.
-/
namespace GoLevel.C15

/-- concrete entries used by the non-vacuity examples: user key `[1]` at seq 9, 5 (a deletion), 2 and user
key `[1,7]`, `[2]` -/
def exEntries : List IKey :=
  [mkIKey [1] 9 1, mkIKey [1] 5 0, mkIKey [1] 2 1, mkIKey [1, 7] 4 1, mkIKey [2] 7 1]

/-! ## encoding -/

/-- Every key `makeInternalKey` can build (it panics outside these bounds) parses back to itself, its
sequence number and kind are recovered from the packed number, and the packed number is at most `keyMaxNum`. -/
theorem parse_encode (u : Bytes) (seq kt : Nat) (hs : seq ≤ Gen.keyMaxSeq) (hk : kt ≤ Gen.keyTypeVal) :
    parseIKey (mkIKey u seq kt).encode = some (mkIKey u seq kt)
    ∧ (mkIKey u seq kt).seq = seq ∧ (mkIKey u seq kt).kind = kt
    ∧ (mkIKey u seq kt).num ≤ Gen.keyMaxNum
    ∧ (mkIKey u seq kt).num = Gen.packNum seq kt := by
  have hkt : kt < 256 := Nat.lt_of_le_of_lt hk keyTypeVal_lt
  have hkind := mkIKey_kind u seq kt hkt
  refine ⟨parseIKey_encode _ (mkIKey_num_lt u seq kt hs hk) (by rw [hkind]; exact hk),
    mkIKey_seq u seq kt hkt, hkind, mkIKey_num_le u seq kt hs hk, ?_⟩
  rw [packNum_eq seq kt hkt]; rfl

example : parseIKey (mkIKey [1, 2, 3] 77 1).encode = some ⟨[1, 2, 3], 77 * 256 + 1⟩ :=
  (parse_encode [1, 2, 3] 77 1 (by decide) (by decide)).1
example : (mkIKey [1, 2, 3] 77 1).encode = [1, 2, 3, 1, 77, 0, 0, 0, 0, 0, 0] := by decide
/-- the bounds matter: a kind above `keyTypeVal` is rejected by the parser -/
example : parseIKey (mkIKey [1] 77 2).encode = none := by decide

/-- `parseInternalKey` accepts nothing but encodings of keys within the bounds -/
theorem parse_only_encodings (bs : Bytes) (k : IKey) (h : parseIKey bs = some k) :
    k.encode = bs ∧ k.num < 2 ^ 64 ∧ k.kind ≤ Gen.keyTypeVal :=
  encode_of_parseIKey bs k h

example : parseIKey [9, 1, 5, 0, 0, 0, 0, 0, 0] = some ⟨[9], 5 * 256 + 1⟩ := by decide

/-- the comparer on raw bytes (what memdb and tables call) is the comparer on parsed keys -/
theorem icmpBytes_encode (c : UCmp) (a b : IKey) (ha : a.num < 2 ^ 64) (hb : b.num < 2 ^ 64) :
    icmpBytes c a.encode b.encode = icmp c a b :=
  GoLevel.icmpBytes_encode c a b ha hb

example : icmpBytes bytewise (mkIKey [1] 9 1).encode (mkIKey [1] 5 0).encode = .lt := by decide

/-! ## strict total order: user key ascending, then newest first -/

section order
variable {c : UCmp} (hl : LawfulUCmp c)
include hl

theorem icmp_order (a b : IKey) :
    icmp c a b = .lt ↔ (c.cmp a.ukey b.ukey = .lt ∨ (a.ukey = b.ukey ∧ b.num < a.num)) :=
  GoLevel.icmp_order hl a b

theorem icmp_irrefl (a : IKey) : icmp c a a ≠ .lt := GoLevel.icmp_irrefl hl a

theorem icmp_eq_iff (a b : IKey) : icmp c a b = .eq ↔ a = b := GoLevel.icmp_eq_iff hl a b

theorem icmp_gt_iff (a b : IKey) : icmp c a b = .gt ↔ icmp c b a = .lt := GoLevel.icmp_gt_iff hl a b

theorem icmp_trans (a b d : IKey) (h1 : icmp c a b = .lt) (h2 : icmp c b d = .lt) :
    icmp c a d = .lt := GoLevel.icmp_trans hl a b d h1 h2

/-- trichotomy (with `icmp_irrefl`, `icmp_trans`: a strict total order) -/
theorem icmp_total (a b : IKey) : icmp c a b = .lt ∨ a = b ∨ icmp c b a = .lt :=
  GoLevel.icmp_total hl a b

end order

/-- newest first inside a user key, then the next user key -/
example : exEntries.Pairwise (fun a b => icmp bytewise a b = .lt) := by decide
example : icmp bytewise (mkIKey [1] 9 1) (mkIKey [1] 5 0) = .lt
    ∧ icmp bytewise (mkIKey [1] 5 0) (mkIKey [1] 9 1) = .gt
    ∧ icmp bytewise (mkIKey [2] 0 0) (mkIKey [1, 7] 4 1) = .gt
    ∧ icmp bytewise (mkIKey [1] 5 0) (mkIKey [1] 5 0) = .eq := by decide
/-- same sequence number: the value sorts before the deletion (kind is part of the packed number) -/
example : icmp bytewise (mkIKey [1] 5 1) (mkIKey [1] 5 0) = .lt := by decide

/-! ## where the probe lands -/

section probe
variable {c : UCmp} (hl : LawfulUCmp c)
include hl

/-- The cut made by the probe for "`k` as of `s`": an entry is at or after it exactly when its user key is
larger, or it is an entry of `k` not newer than `s`. -/
theorem probe_cut (e : IKey) (k : Bytes) (s : Nat) (hkind : e.kind ≤ Gen.keyTypeVal) :
    (icmp c e (probe k s) != .lt) = true ↔ (c.cmp e.ukey k = .gt ∨ (e.ukey = k ∧ e.seq ≤ s)) := by
  by_cases hk : e.ukey = k
  · rw [ge_probe_same_key hl e k s hk hkind]
    subst hk
    simp [hl.refl]
  · constructor
    · exact fun h => .inl (ge_probe_other_key hl e k s hk h)
    · rintro (h | ⟨h, _⟩)
      · simp [icmp, probe, h]
      · exact absurd h hk

/-- In a sorted run, seeking the probe for "`k` as of `s`" either lands on an entry of `k`, which is then
the newest entry of `k` that is not newer than `s`; or it lands on another user key or runs off the end, and
then the run holds no entry of `k` at or below `s`. -/
theorem probe_placement (es : List IKey) (hs : es.Pairwise (fun a b => icmp c a b = .lt))
    (hkind : ∀ e ∈ es, e.kind ≤ Gen.keyTypeVal) (k : Bytes) (s : Nat) :
    (∀ e, es.find? (fun e => icmp c e (probe k s) != .lt) = some e → e.ukey = k →
        e ∈ es ∧ e.seq ≤ s ∧ ∀ e' ∈ es, e'.ukey = k → e'.seq ≤ s → e'.seq ≤ e.seq)
    ∧ ((∀ e, es.find? (fun e => icmp c e (probe k s) != .lt) = some e → e.ukey ≠ k) →
        ∀ e' ∈ es, e'.ukey = k → ¬ e'.seq ≤ s) := by
  constructor
  · intro e hf hk
    obtain ⟨h1, _, h3, h4⟩ := seekGE_newest hl es hs hkind k s e hf hk
    exact ⟨h1, h3, h4⟩
  · exact seekGE_absent hl es hs hkind k s

end probe

/-- as of 6 the visible entry of `[1]` is the deletion at 5; as of 1 there is none and the seek lands on
the next user key; the probe for a missing key lands on the next key too -/
example : exEntries.find? (fun e => icmp bytewise e (probe [1] 6) != .lt) = some (mkIKey [1] 5 0) := by decide
example : exEntries.find? (fun e => icmp bytewise e (probe [1] 1) != .lt) = some (mkIKey [1, 7] 4 1) := by decide
example : exEntries.find? (fun e => icmp bytewise e (probe [3] 9) != .lt) = none := by decide
example : ∀ e ∈ exEntries, e.kind ≤ Gen.keyTypeVal := by decide

/-! ## shortened keys -/

section shorten
variable {c : UCmp} (hl : LawfulUCmp c)
include hl

/-- `a ≤ separator(a,b) < b` for the key the table writer stores (`a` itself when `iComparer.Separator`
returns nil), for any two entries `a < b` — including two entries of the same user key.  No bound on the
packed numbers is needed. -/
theorem iSep_between (a b : IKey) (hab : icmp c a b = .lt) :
    icmp c a (indexSep c a b) ≠ .gt ∧ icmp c (indexSep c a b) b = .lt :=
  indexSep_between hl a b hab

/-- the shape of a shortened separator: a strictly larger, strictly shorter user key with the largest
packed number (so it sorts before every real entry of that user key) -/
theorem iSep_shape (a b x : IKey) (hle : c.cmp a.ukey b.ukey ≠ .gt) (h : iSep c a b = some x) :
    icmp c a x = .lt ∧ icmp c x b = .lt ∧ x.num = Gen.keyMaxNum ∧ x.ukey.length < a.ukey.length :=
  iSep_some hl a b x hle h

/-- a valid comparer answers `Separator(u, u)` with nil -/
theorem sep_self (u : Bytes) : c.sep u u = none := sep_self_of_lawful hl u

/-- `successor(b) ≥ b` for the key the table writer stores after the last block -/
theorem iSucc_ge (b : IKey) : icmp c b (indexSucc c b) ≠ .gt := indexSucc_ge hl b

end shorten

/-- **Why `sep_ok` has the premise `a ≤ b` and not `a < b`.**  `sepOnEqCmp` (bytewise, except that
`Separator(u,u) = [2]`) satisfies every clause of the contract when `sep_ok` is only demanded for `a < b`;
yet for the consecutive entries `[1,0]@7 < [1,0]@3` the writer would store the index key `[2]@max`, which
sorts after both.  With the premise `a ≤ b` this comparer is not lawful. -/
theorem sep_premise_needed :
    (∀ a b d, sepOnEqCmp.cmp a b = .lt → sepOnEqCmp.sep a b = some d →
        sepOnEqCmp.cmp a d ≠ .gt ∧ sepOnEqCmp.cmp d b = .lt)
    ∧ (∃ a b, icmp sepOnEqCmp a b = .lt ∧ icmp sepOnEqCmp (indexSep sepOnEqCmp a b) b = .gt)
    ∧ ¬ LawfulUCmp sepOnEqCmp :=
  ⟨sepOnEqCmp_weak.2.2.2.2.1, ⟨_, _, sepOnEqCmp_bad_index.1, sepOnEqCmp_bad_index.2.2⟩,
    sepOnEqCmp_not_lawful⟩

/-- the built-in comparer satisfies the comparer contract (all six clauses, including those about
`Separator` and `Successor`) -/
theorem bytewise_lawful : LawfulUCmp bytewise := GoLevel.bytewise_lawful

/-- a real shortening: between `[1,2,3]@9` and `[1,5]@4` the index stores `[1,3]@max` -/
example : indexSep bytewise (mkIKey [1, 2, 3] 9 1) (mkIKey [1, 5] 4 1) = ⟨[1, 3], Gen.keyMaxNum⟩ := by decide
example : icmp bytewise (mkIKey [1, 2, 3] 9 1) ⟨[1, 3], Gen.keyMaxNum⟩ = .lt
    ∧ icmp bytewise ⟨[1, 3], Gen.keyMaxNum⟩ (mkIKey [1, 5] 4 1) = .lt := by decide
/-- no shortening between entries of one user key, or when the separator would not be shorter -/
example : indexSep bytewise (mkIKey [1] 9 1) (mkIKey [1] 5 0) = mkIKey [1] 9 1 := by decide
example : indexSep bytewise (mkIKey [1] 9 1) (mkIKey [3] 5 0) = mkIKey [1] 9 1 := by decide
example : indexSucc bytewise (mkIKey [1, 2, 3] 9 1) = ⟨[2], Gen.keyMaxNum⟩ := by decide
example : indexSucc bytewise (mkIKey [255] 9 1) = mkIKey [255] 9 1 := by decide
example : bytesSep [1, 2, 3] [1, 5] = some [1, 3] ∧ bytesSucc [255, 255, 4] = some [255, 255, 5] := by decide

/-! ## routing through the index -/

section route
variable {c : UCmp} (hl : LawfulUCmp c)
include hl

/-- **Routing.**  Blocks `bs` (non-empty, concatenation strictly sorted) with index keys `ix` such that
`last(b_i) ≤ ix_i` and `ix_i < first(b_{i+1})` (`IndexOK`).  For every probe `p`, what `table.Reader.find`
computes — seek the index for the first `ix_i ≥ p`, seek inside block `i`, and if that block has nothing
`≥ p` take the first entry of block `i+1` — is the first entry `≥ p` of the whole table, and "not found"
exactly when the table has no entry `≥ p`. -/
theorem index_routes (bs : List (List IKey)) (ix : List IKey) (hok : IndexOK c bs ix)
    (hs : bs.flatten.Pairwise (fun a b => icmp c a b = .lt)) (p : IKey) :
    tableFind c bs ix p = seekGE c bs.flatten p :=
  tableFind_eq_seekGE hl bs ix hok hs p

/-- the special case asked for: when the block chosen by the index has an entry `≥ p`, it is the answer -/
theorem index_routes_some (bs : List (List IKey)) (ix : List IKey) (hok : IndexOK c bs ix)
    (hs : bs.flatten.Pairwise (fun a b => icmp c a b = .lt)) (p : IKey) (i : Nat) (e : IKey)
    (hi : ix.findIdx? (fun k => icmp c k p != .lt) = some i)
    (he : seekGE c (bs[i]?.getD []) p = some e) :
    seekGE c bs.flatten p = some e := by
  rw [← tableFind_eq_seekGE hl bs ix hok hs p]
  simp [tableFind, hi, he]

/-- the fall-through case: the chosen block has nothing `≥ p` (possible, because `ix_i` may be strictly
above `last(b_i)`); then the answer is the first entry of the next block, or "not found" after the last -/
theorem index_routes_none (bs : List (List IKey)) (ix : List IKey) (hok : IndexOK c bs ix)
    (hs : bs.flatten.Pairwise (fun a b => icmp c a b = .lt)) (p : IKey) (i : Nat)
    (hi : ix.findIdx? (fun k => icmp c k p != .lt) = some i)
    (he : seekGE c (bs[i]?.getD []) p = none) :
    seekGE c bs.flatten p = (bs[i + 1]?).bind List.head? := by
  rw [← tableFind_eq_seekGE hl bs ix hok hs p]
  simp [tableFind, hi, he]

/-- the index has no key `≥ p`: the table has no entry `≥ p` -/
theorem index_routes_past_end (bs : List (List IKey)) (ix : List IKey) (hok : IndexOK c bs ix)
    (hs : bs.flatten.Pairwise (fun a b => icmp c a b = .lt)) (p : IKey)
    (hi : ix.findIdx? (fun k => icmp c k p != .lt) = none) :
    seekGE c bs.flatten p = none := by
  rw [← tableFind_eq_seekGE hl bs ix hok hs p]
  simp [tableFind, hi]

/-- The index the writer builds (`buildIndex`: `indexSep` between blocks, `indexSucc` after the last)
satisfies `IndexOK`, for every lawful comparer. -/
theorem built_index_ok (bs : List (List IKey)) (hne : ∀ b ∈ bs, b ≠ [])
    (hs : bs.flatten.Pairwise (fun a b => icmp c a b = .lt)) : IndexOK c bs (buildIndex c bs) :=
  buildIndex_ok hl bs hne hs

/-- End to end: a lookup of "`k` as of `s`" through the index built from the shortened keys returns the
newest entry of `k` not newer than `s` of the whole table whenever it returns an entry of `k`, and
otherwise the table has no such entry. -/
theorem lookup_through_index (bs : List (List IKey)) (hne : ∀ b ∈ bs, b ≠ [])
    (hs : bs.flatten.Pairwise (fun a b => icmp c a b = .lt))
    (hkind : ∀ e ∈ bs.flatten, e.kind ≤ Gen.keyTypeVal) (k : Bytes) (s : Nat) :
    (∀ e, tableFind c bs (buildIndex c bs) (probe k s) = some e → e.ukey = k →
        IsNewest bs.flatten k s e)
    ∧ ((∀ e, tableFind c bs (buildIndex c bs) (probe k s) = some e → e.ukey ≠ k) →
        ∀ e' ∈ bs.flatten, e'.ukey = k → ¬ e'.seq ≤ s) := by
  rw [tableFind_eq_seekGE hl bs _ (buildIndex_ok hl bs hne hs) hs]
  exact ⟨fun e hf hk => seekGE_newest hl _ hs hkind k s e hf hk, seekGE_absent hl _ hs hkind k s⟩

end route

/-- three blocks; the index holds a shortened separator `[1,3]@max`, an unshortened one and a successor -/
def exBlocks : List (List IKey) :=
  [[mkIKey [1] 9 1, mkIKey [1, 2, 3] 5 0], [mkIKey [1, 5] 2 1, mkIKey [1, 7] 4 1], [mkIKey [1, 7] 3 1, mkIKey [2, 0] 7 1]]

example : buildIndex bytewise exBlocks = [⟨[1, 3], Gen.keyMaxNum⟩, mkIKey [1, 7] 4 1, ⟨[3], Gen.keyMaxNum⟩] := by decide
example : exBlocks.flatten.Pairwise (fun a b => icmp bytewise a b = .lt) := by decide
example : IndexOK bytewise exBlocks (buildIndex bytewise exBlocks) :=
  built_index_ok bytewise_lawful exBlocks (by decide) (by decide)
/-- found inside the chosen block -/
example : tableFind bytewise exBlocks (buildIndex bytewise exBlocks) (probe [1, 5] 8) = some (mkIKey [1, 5] 2 1) := by decide
/-- fall-through: `[1,2,4]` is routed to block 0 (`[1,2,4] < [1,3]`), which has nothing `≥` it -/
example : tableFind bytewise exBlocks (buildIndex bytewise exBlocks) (probe [1, 2, 4] 8) = some (mkIKey [1, 5] 2 1)
    ∧ seekGE bytewise (exBlocks[0]?.getD []) (probe [1, 2, 4] 8) = none := by decide
/-- one user key spanning two blocks: as of 3 the entry is the first of block 2 -/
example : tableFind bytewise exBlocks (buildIndex bytewise exBlocks) (probe [1, 7] 3) = some (mkIKey [1, 7] 3 1) := by decide
example : tableFind bytewise exBlocks (buildIndex bytewise exBlocks) (probe [4] 3) = none := by decide

end GoLevel.C15

namespace GoLevel
def C15.theorems : List String :=
  ["GoLevel.C15.parse_encode", "GoLevel.C15.parse_only_encodings", "GoLevel.C15.icmpBytes_encode",
   "GoLevel.C15.icmp_order", "GoLevel.C15.icmp_irrefl", "GoLevel.C15.icmp_eq_iff",
   "GoLevel.C15.icmp_gt_iff", "GoLevel.C15.icmp_trans", "GoLevel.C15.icmp_total",
   "GoLevel.C15.probe_cut", "GoLevel.C15.probe_placement",
   "GoLevel.C15.iSep_between", "GoLevel.C15.iSep_shape", "GoLevel.C15.sep_self", "GoLevel.C15.iSucc_ge",
   "GoLevel.C15.sep_premise_needed",
   "GoLevel.C15.bytewise_lawful",
   "GoLevel.C15.index_routes", "GoLevel.C15.index_routes_some", "GoLevel.C15.index_routes_none",
   "GoLevel.C15.index_routes_past_end", "GoLevel.C15.built_index_ok", "GoLevel.C15.lookup_through_index"]
end GoLevel
