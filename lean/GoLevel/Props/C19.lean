import GoLevel.Proofs.DurableView
import GoLevel.Proofs.ConcView
import GoLevel.Props.C01
import GoLevel.Proofs.RecoverOpsMain
/-!
# Property C19 — `Recover`

"If the manifest or its pointer is lost or damaged after a clean, settled shutdown, Recover reopens the DB from
the remaining files with exactly the same logical contents …  If some table data blocks are damaged as well,
Recover still succeeds, every entry that sits in an undamaged block and has no newer version is returned, and
nothing is returned that was never written."

Model: `Dur.rebuild` (`Model/Durable.lean`, part 3): `recoverTable` + `openDB`.  It does not look at `CURRENT`
or at any manifest — lost, truncated or garbled, they make no difference — and it is a total function
(`Recover` "succeeds").  A *settled* state is described by what the property needs of it: every table file on
storage is live and every journal on storage is unflushed, i.e. its records are ascending and start at or above
the largest sequence number in the tables (`Settled`); sequence numbers identify entries (`Conc.Uniq`).

* `recover_rebuilds`: the rebuilt DB reads exactly what the DB read before (`view` of all entries at any
  sequence number that is not below them — in particular the one a normal `Open` ends with);
* `recover_rebuilds_damaged`: with arbitrary entries of the tables unreadable, nothing is invented, and
  every readable entry that has no newer version for its key among *all* entries is what the rebuilt DB returns
  for that key;
* `rebuilt_lookup_refines_view`: the rebuilt version is all level 0, its tables may overlap arbitrarily; the
  max-sequence rule of `version.get` still returns `view` (instance of `C01.lookup_refines_view`).

`Recover` as storage operations (`Model/RecoverOps.lean`: `recoverTable`'s scan / temp file / `Sync` / `Rename`, the
one-step manifest switch of `newManifest`, then `openDB`'s journal flushes, commits, removals and janitor) ties the
three theorems to the code's operation sequence and adds crash-atomicity:

* `recover_ops_equals_rebuild`: when `recoverTable` returns, `openDB` (`Dur.recoverR` on the storage) computes
  exactly `Dur.rebuild` of what the scan read;
* `recover_crash_atomic`: stop `Recover` after any of its storage operations, take any crash image: a second
  `Recover` reads, for every key, what the uninterrupted one would have read (`…_settled`: the settled contents;
  `…_damaged`: the `recover_rebuilds_damaged` guarantee);
* `recover_crash_open_partial`: on every crash image taken inside `recoverTable`, an `Open` that succeeds has run on
  the manifest `Recover` wrote and is complete (false before commit 170f82e: `pre_repair_empty_manifest_loses_tables`;
  the flag is tied to the source by `code_recover_commits_only`).  For crash points inside `openDB` the statement
  (`recover_crash_open_full`) is that of an interrupted ordinary `Open` (C04) and is not proved over this model.

Not covered here: D19 (the rebuild of a damaged table is written with the user comparer and unwrapped filter)
is about the bytes of the rewritten table, below this model.
-/
namespace GoLevel.C19
open GoLevel GoLevel.Dur GoLevel.Conc

/-! ## helpers -/

theorem maxSeqOf_ge (es : List Entry) : ∀ e ∈ es, e.seq ≤ maxSeqOf es := by
  unfold maxSeqOf
  have : ∀ (l : List Entry) (a : Nat), a ≤ l.foldl (fun m e => max m e.seq) a ∧
      ∀ e ∈ l, e.seq ≤ l.foldl (fun m e => max m e.seq) a := by
    intro l
    induction l with
    | nil => intro a; exact ⟨Nat.le_refl _, fun e he => by cases he⟩
    | cons y ys ih =>
      intro a
      simp only [List.foldl_cons]
      obtain ⟨i1, i2⟩ := ih (max a y.seq)
      refine ⟨Nat.le_trans (Nat.le_max_left _ _) i1, fun e he => ?_⟩
      rcases List.mem_cons.1 he with rfl | he'
      · exact Nat.le_trans (Nat.le_max_right _ _) i1
      · exact i2 e he'
  exact (this es 0).2

theorem maxSeqOf_le {es : List Entry} {b : Nat} (h : ∀ e ∈ es, e.seq ≤ b) : maxSeqOf es ≤ b := by
  unfold maxSeqOf
  have : ∀ (l : List Entry) (a : Nat), a ≤ b → (∀ e ∈ l, e.seq ≤ b) → l.foldl (fun m e => max m e.seq) a ≤ b := by
    intro l
    induction l with
    | nil => intro a ha _; exact ha
    | cons y ys ih =>
      intro a ha hl
      simp only [List.foldl_cons]
      exact ih _ (Nat.max_le.2 ⟨ha, hl y List.mem_cons_self⟩) (fun e he => hl e (List.mem_cons_of_mem _ he))
  exact this es 0 (Nat.zero_le _) h

/-- reading at any two positions above everything a collection holds gives the same answer -/
theorem view_above {c : UCmp} {L : List Entry} (hU : Uniq L) {a b : Nat} (ha : ∀ e ∈ L, e.seq ≤ a)
    (hb : ∀ e ∈ L, e.seq ≤ b) (k : Bytes) : view c L k a = view c L k b := by
  rcases Nat.le_total a b with h | h
  · exact (view_clip hU ha h).symm
  · exact view_clip hU hb h

/-- the entries of an ascending list of groups lie below the end of the replay -/
theorem ents_le_of_fin {g : Grp} {x : Nat} (h : g.fin ≤ x) (hw : g.wf) : ∀ e ∈ g.ents, e.seq ≤ x := by
  intro e he
  obtain ⟨_, h2, h3⟩ := ents_seq_range hw he
  rw [h3]; omega

/-! ## the settled case -/

/-- the state `Recover` is applied to: sequence numbers identify entries, the journals are unflushed (their
    records ascending, none below the largest sequence number in the tables), groups are well-formed -/
structure Settled (inp : RebuildIn) : Prop where
  uniq : Uniq (inp.tables.flatMap (·.2) ++ (inp.journals.flatMap (·.2)).flatMap Grp.ents)
  asc : AscFrom (maxSeqOf (inp.tables.flatMap (·.2))) (inp.journals.flatMap (·.2))
  wf : ∀ g ∈ inp.journals.flatMap (·.2), g.wf

/-- **Recover rebuilds the same contents.**  `s0` is any sequence number not below the entries — e.g. `db.seq`
    after a normal `Open` of the same files with the manifest intact. -/
theorem recover_rebuilds (c : UCmp) (inp : RebuildIn) (h : Settled inp) (s0 : Nat)
    (hs0 : ∀ e ∈ inp.tables.flatMap (·.2) ++ (inp.journals.flatMap (·.2)).flatMap Grp.ents, e.seq ≤ s0)
    (k : Bytes) :
    (rebuild inp).entries = inp.tables.flatMap (·.2) ++ (inp.journals.flatMap (·.2)).flatMap Grp.ents ∧
    (rebuild inp).get c k =
      view c (inp.tables.flatMap (·.2) ++ (inp.journals.flatMap (·.2)).flatMap Grp.ents) k s0 := by
  obtain ⟨a1, a2, a3⟩ := replayJ_asc h.asc
  have hent : (rebuild inp).entries =
      inp.tables.flatMap (·.2) ++ (inp.journals.flatMap (·.2)).flatMap Grp.ents := by
    simp only [rebuild, Rebuilt.entries, a1]
  refine ⟨hent, ?_⟩
  unfold Rebuilt.get
  rw [hent]
  apply view_above h.uniq _ hs0
  intro e he
  show e.seq ≤ (replayJ _ _).2
  rcases List.mem_append.1 he with h1 | h1
  · exact Nat.le_trans (maxSeqOf_ge _ e h1) a2
  · obtain ⟨g, hg, heg⟩ := List.mem_flatMap.1 h1
    exact ents_le_of_fin (a3 g hg) (h.wf g hg) e heg

/-! ## damaged tables -/

/-- `inp'` is `inp` with some entries of its tables unreadable: same files, each table yields a part of what it
    held; the journals are intact -/
structure Damaged (inp inp' : RebuildIn) : Prop where
  journals : inp'.journals = inp.journals
  part : ∀ e ∈ inp'.tables.flatMap (·.2), e ∈ inp.tables.flatMap (·.2)

/-- **Recover with damaged table blocks**: it returns (i) only entries that were written, and (ii) for every
    readable entry `e` that has no newer version of its key among all entries, the rebuilt DB answers `e`'s
    value (or "deleted") for that key. -/
theorem recover_rebuilds_damaged {c : UCmp} (hl : LawfulUCmp c) (inp inp' : RebuildIn) (h : Settled inp)
    (hd : Damaged inp inp') :
    (∀ e ∈ (rebuild inp').entries, e ∈ (rebuild inp).entries) ∧
    ∀ e ∈ (rebuild inp').entries,
      (∀ e' ∈ (rebuild inp).entries, c.cmp e'.ukey e.ukey = .eq → e'.key.num ≤ e.key.num) →
      (rebuild inp').get c e.ukey = e.hit.toOption := by
  -- the journals are replayed completely in both cases
  have hasc' : AscFrom (maxSeqOf (inp'.tables.flatMap (·.2))) (inp'.journals.flatMap (·.2)) := by
    rw [hd.journals]
    exact h.asc.mono (maxSeqOf_le (fun e he => maxSeqOf_ge _ e (hd.part e he)))
  obtain ⟨a1, a2, a3⟩ := replayJ_asc h.asc
  obtain ⟨b1, b2, b3⟩ := replayJ_asc hasc'
  have hent : (rebuild inp).entries =
      inp.tables.flatMap (·.2) ++ (inp.journals.flatMap (·.2)).flatMap Grp.ents := by
    simp only [rebuild, Rebuilt.entries, a1]
  have hent' : (rebuild inp').entries =
      inp'.tables.flatMap (·.2) ++ (inp.journals.flatMap (·.2)).flatMap Grp.ents := by
    rw [hd.journals] at b1
    simp only [rebuild, Rebuilt.entries, hd.journals, b1]
  have hsub : ∀ e ∈ (rebuild inp').entries, e ∈ (rebuild inp).entries := by
    intro e he
    rw [hent'] at he; rw [hent]
    rcases List.mem_append.1 he with h1 | h1
    · exact List.mem_append_left _ (hd.part e h1)
    · exact List.mem_append_right _ h1
  refine ⟨hsub, fun e he hnew => ?_⟩
  have hU' : Uniq (rebuild inp').entries := by
    have := h.uniq
    rw [← hent] at this
    exact this.sub hsub
  -- `e` is visible
  have hvis : e.seq ≤ (rebuild inp').seq := by
    show e.seq ≤ (replayJ _ _).2
    rw [hent'] at he
    rcases List.mem_append.1 he with h1 | h1
    · exact Nat.le_trans (maxSeqOf_ge _ e h1) b2
    · obtain ⟨g, hg, heg⟩ := List.mem_flatMap.1 h1
      have hg' : g ∈ inp'.journals.flatMap (·.2) := by rw [hd.journals]; exact hg
      exact ents_le_of_fin (b3 g hg') (h.wf g hg) e heg
  have hbest : Best c e.ukey (rebuild inp').seq (rebuild inp').entries e :=
    ⟨he, ⟨hl.refl _, hvis⟩, fun e' he' hm => hnew e' (hsub e' he') hm.1⟩
  unfold Rebuilt.get view
  rw [newest_of_best hU' hbest]

/-! ## the rebuilt version: everything in level 0 -/

/-- Every table `Recover` keeps is put into level 0, where key ranges overlap arbitrarily; `version.get`
    consults every overlapping table and keeps the hit with the largest sequence number — that is `view`. -/
theorem rebuilt_lookup_refines_view {c : UCmp} (hl : LawfulUCmp c) (l0 : Level) (hwf : ∀ t ∈ l0, t.wfB c = true)
    (hu : UniqSeq (Level.entries l0)) (k : Bytes) (s : Nat) :
    (dbGet c none [] [] none ⟨[l0]⟩ k s).toOption = view c (Level.entries l0) k s := by
  have hso : C01.SourcesOK c none [] [] none ⟨[l0]⟩ := by
    refine ⟨rfl, ?_, rfl, ?_, rfl, ?_, (fun t ht => by cases ht), ?_, ?_, hu, rfl, rfl, rfl, rfl⟩
    · intro e he; cases he
    · intro e he; cases he
    · intro e he; cases he
    · intro a ha; cases ha
    · simp only [Version.wfB, List.all_cons, List.all_nil, Bool.and_true, List.drop_succ_cons, List.drop_zero,
        levelsOrderedB, List.all_eq_true]
      exact hwf
  have := C01.lookup_refines_view hl none [] [] none ⟨[l0]⟩ hso k s
  rw [this]
  simp [dbEntries, Version.entries, Level.entries]

/-! ## non-vacuity -/

/-- a settled DB: `Put(k, v1)` (sequence 1) flushed to table 4, `Put(k, v2)` (sequence 2) and `Put(j, w)`
    (sequence 3) in journal 5 -/
def exIn : RebuildIn :=
  { tables := [(4, [⟨mkIKey [107] 1 1, [1]⟩])]
    journals := [(5, [⟨2, [⟨1, [107], [2]⟩], true⟩, ⟨3, [⟨1, [106], [9]⟩], false⟩])] }

theorem exIn_settled : Settled exIn := by
  refine ⟨by unfold Uniq; decide, by decide, by unfold Grp.wf; decide⟩

/-- `Recover` reads what the DB read: the newer value of `k`, and `j` -/
example : (rebuild exIn).get bytewise [107] = some [2] ∧ (rebuild exIn).get bytewise [106] = some [9] := by
  decide

example : (rebuild exIn).get bytewise [107] = view bytewise (exIn.tables.flatMap (·.2) ++
    (exIn.journals.flatMap (·.2)).flatMap Grp.ents) [107] 10 :=
  (recover_rebuilds bytewise exIn exIn_settled 10 (by decide) [107]).2

/-- the same files with the table's block unreadable -/
def exDamaged : RebuildIn := { exIn with tables := [(4, [])] }

example : Damaged exIn exDamaged := ⟨rfl, fun e he => by cases he⟩

/-- the surviving newest version of `k` is returned; nothing is invented -/
example : (rebuild exDamaged).get bytewise [107] = some [2] ∧
    (rebuild exDamaged).entries.all (fun e => (rebuild exIn).entries.contains e) = true := by decide

/-- on a disk of the machine: after the flush-with-rotation run of C04, `Recover` (which ignores `CURRENT` and the
    manifests) finds the value in the flushed table -/
example :
    (run {} init
      [.wAppend [⟨1, [107], [118]⟩] true .ok, .wSync .ok, .wApply, .wPublish, .wAck, .rotate .ok, .flushStart,
       .job false .ok, .job false .ok, .job false .ok, .job false .ok, .job false .ok, .job false .ok,
       .job false .ok, .job false .ok, .job false .ok, .job false .ok]).map
      (fun sd => (rebuild (rebuildInOf { sd.2 with current := none, manifests := [] })).get bytewise [107]) =
    some (some [118]) := by decide

/-! ## `Recover` as a sequence of storage operations -/

/-- the model follows the code in the tree: `recoverTable` commits once and does nothing else to the manifest
    (`tools/extract`: no `s.create()`, no `newManifest`, no `SetMeta`; last statement `return s.commit(rec, false)`),
    and `newManifest` is `Create`, one record, `Sync`, `SetMeta` -/
theorem code_recover_commits_only :
    (∀ s, (codeRCfg s).createsEmptyManifestFirst = false) ∧ Gen.recoverTableCommitsOnly = true ∧
    Gen.newManifestWriteSyncSetMeta = true := by decide

/-- the number of the manifest `Recover` writes (`manifestNum`) lies above EVERY file number in the storage, as the
    code makes it since the repair of D47 (`tools/extract`: `recoverTable` marks every number
    `s.stor.List(storage.TypeAll)` returns before its commit).  Before the repair only the last table's number was
    marked: a manifest still on disk with a larger number — e.g. the target of a pending `CURRENT.<n>` left behind by
    an interrupted `SetMeta` — outranked the recovered one at the next `GetMeta` (`C04FS.stale_pending_wins` is the
    storage-level trace; exhibited on the real file storage by the check's `recover:file-storage:reopen-failed`). -/
theorem code_recover_outranks_all_files :
    Gen.recoverMarksAllFileNums = true ∧
    ∀ (r : RDisk) (n : Nat),
      (n ∈ r.disk.tables.nums ∨ n ∈ r.disk.journals.nums ∨ n ∈ r.disk.manifests.nums ∨ n ∈ r.temps.nums) →
      n < manifestNum r := by
  refine ⟨by decide, fun r n h => ?_⟩
  have hmem : n ∈ allNums r := by
    unfold allNums
    rcases h with h | h | h | h
    · exact List.mem_append_left _ (List.mem_append_left _ (List.mem_append_left _ h))
    · exact List.mem_append_left _ (List.mem_append_left _ (List.mem_append_right _ h))
    · exact List.mem_append_left _ (List.mem_append_right _ h)
    · exact List.mem_append_right _ h
  unfold manifestNum
  have hne : (allNums r).isEmpty = false := by
    cases ha : allNums r with
    | nil => rw [ha] at hmem; simp at hmem
    | cons p ps => rfl
  rw [hne]
  have := le_maxNum hmem
  simp only [Bool.false_eq_true, if_false]
  omega

/-- **the operations compute the abstract rebuild**: when `recoverTable` has made all its operations, `openDB`'s
    `session.recover` + journal replay (`Dur.recoverR`) succeeds on the storage, runs on the recorded tables, and
    delivers exactly the entries, the sequence number and hence every read of `Dur.rebuild` applied to what the scan
    read — so `recover_rebuilds`, `recover_rebuilds_damaged` and `rebuilt_lookup_refines_view` speak about the
    operational model. -/
theorem recover_ops_equals_rebuild (dcfg : Dur.Cfg) {cfg : RCfg} (hcfg : cfg.createsEmptyManifestFirst = false)
    (r0 : RDisk) (hd : r0.durable) (c : UCmp) (k : Bytes) :
    ∃ rs, recoverR dcfg (r0.applyAll (recoverTableOps cfg r0)).disk = .ok rs ∧
      rs.entries = (rebuild (scanIn cfg r0)).entries ∧ rs.seq = (rebuild (scanIn cfg r0)).seq ∧
      rs.get c k = (rebuild (scanIn cfg r0)).get c k ∧
      rs.mv.live = (tablePhase cfg r0).2.added ∧ rs.mv.jn = 0 := by
  obtain ⟨hT, hc, mf, hm, ha⟩ := recoverTable_done hcfg hd
  obtain ⟨rs, h1, h2, h3, h4⟩ := open_on_recover_manifest dcfg hT hc hm ha
  refine ⟨rs, h1, h2, h3, ?_, h4, ?_⟩
  · unfold RState.get Rebuilt.get; rw [h2, h3]
  · -- the view is that of the one record
    unfold recoverR at h1
    simp only [hc, hm, ha, recoverRec_view] at h1
    split at h1
    · cases h1
    · cases h1; rfl

/-- what `JCtx` and `rebuild_mid` need, from `Settled` -/
theorem jctx_of_settled {cfg : RCfg} {r0 : RDisk} (hd : r0.durable)
    (hjs : r0.disk.journals.Pairwise (fun p q => p.1 < q.1)) (h : Settled (scanIn cfg r0)) : JCtx cfg r0 :=
  ⟨hjs, hd.2.1, h.asc⟩

/-- **`Recover` is crash-atomic.**  `r0`: a durable storage (the image a crash or exit left) whose readable part is
    settled; `k`: how many of `Recover`'s storage operations were made — table rebuilds, the manifest switch, the
    journal flushes, commits and removals of `openDB`, the janitor — before the machine died; `ch`: what the crash
    left of unsynced data.  A `Recover` run on that image reads, for every key, what the uninterrupted `Recover`
    reads, and ends with the same set of entries. -/
theorem recover_crash_atomic (c : UCmp) {cfg : RCfg} (r0 : RDisk) (hd : r0.durable)
    (hjs : r0.disk.journals.Pairwise (fun p q => p.1 < q.1)) (hdm : ∀ n ∈ r0.dmg, n ∈ r0.disk.tables.nums)
    (h : Settled (scanIn cfg r0)) (k : Nat) (ch : RCrash) (key : Bytes) :
    (rebuild (scanIn cfg (crashAt cfg r0 k ch))).get c key = (rebuild (scanIn cfg r0)).get c key ∧
    ∀ e, e ∈ (rebuild (scanIn cfg (crashAt cfg r0 k ch))).entries ↔ e ∈ (rebuild (scanIn cfg r0)).entries := by
  obtain ⟨P, Q, R, hmid⟩ := recover_reach_atomic hd (jctx_of_settled hd hjs h) hdm k ch
  exact rebuild_mid h.uniq h.asc h.wf hmid key

/-- undamaged tables: the second `Recover` returns exactly the settled contents -/
theorem recover_crash_atomic_settled (c : UCmp) {cfg : RCfg} (r0 : RDisk) (hd : r0.durable)
    (hjs : r0.disk.journals.Pairwise (fun p q => p.1 < q.1)) (hdm : ∀ n ∈ r0.dmg, n ∈ r0.disk.tables.nums)
    (h : Settled (scanIn cfg r0)) (s0 : Nat)
    (hs0 : ∀ e ∈ (scanIn cfg r0).tables.flatMap (·.2) ++ ((scanIn cfg r0).journals.flatMap (·.2)).flatMap Grp.ents,
      e.seq ≤ s0)
    (k : Nat) (ch : RCrash) (key : Bytes) :
    (rebuild (scanIn cfg (crashAt cfg r0 k ch))).get c key =
      view c ((scanIn cfg r0).tables.flatMap (·.2) ++ ((scanIn cfg r0).journals.flatMap (·.2)).flatMap Grp.ents)
        key s0 := by
  rw [(recover_crash_atomic c r0 hd hjs hdm h k ch key).1]
  exact (recover_rebuilds c (scanIn cfg r0) h s0 hs0 key).2

/-- the readable part of a settled DB is settled -/
theorem Settled.of_damaged {inp inp' : RebuildIn} (h : Settled inp) (hd : Damaged inp inp') : Settled inp' := by
  refine ⟨?_, ?_, ?_⟩
  · rw [hd.journals]
    apply h.uniq.sub
    intro e he
    rcases List.mem_append.1 he with h1 | h1
    · exact List.mem_append_left _ (hd.part e h1)
    · exact List.mem_append_right _ h1
  · rw [hd.journals]
    exact h.asc.mono (maxSeqOf_le (fun e he => maxSeqOf_ge _ e (hd.part e he)))
  · rw [hd.journals]; exact h.wf

/-- damaged tables: the second `Recover` gives the guarantee of `recover_rebuilds_damaged` relative to the
    undamaged DB `inp` — nothing invented, and every readable entry without a newer version is what is returned -/
theorem recover_crash_atomic_damaged {c : UCmp} (hl : LawfulUCmp c) {cfg : RCfg} (r0 : RDisk) (hd : r0.durable)
    (hjs : r0.disk.journals.Pairwise (fun p q => p.1 < q.1)) (hdm : ∀ n ∈ r0.dmg, n ∈ r0.disk.tables.nums)
    (inp : RebuildIn) (h : Settled inp) (hdmg : Damaged inp (scanIn cfg r0)) (k : Nat) (ch : RCrash) :
    (∀ e ∈ (rebuild (scanIn cfg (crashAt cfg r0 k ch))).entries, e ∈ (rebuild inp).entries) ∧
    ∀ e ∈ (rebuild (scanIn cfg (crashAt cfg r0 k ch))).entries,
      (∀ e' ∈ (rebuild inp).entries, c.cmp e'.ukey e.ukey = .eq → e'.key.num ≤ e.key.num) →
      (rebuild (scanIn cfg (crashAt cfg r0 k ch))).get c e.ukey = e.hit.toOption := by
  have h' : Settled (scanIn cfg r0) := h.of_damaged hdmg
  obtain ⟨d1, d2⟩ := recover_rebuilds_damaged hl inp (scanIn cfg r0) h hdmg
  refine ⟨fun e he => d1 e ((recover_crash_atomic c r0 hd hjs hdm h' k ch []).2 e |>.1 he), fun e he hnew => ?_⟩
  rw [(recover_crash_atomic c r0 hd hjs hdm h' k ch e.ukey).1]
  exact d2 e ((recover_crash_atomic c r0 hd hjs hdm h' k ch []).2 e |>.1 he) hnew

/-- **an `Open` that succeeds on a crash image of `recoverTable` is complete** (the code since 170f82e).  `r0`: a
    durable storage whose `CURRENT` does not lead to a readable manifest; the crash comes after `k` operations of
    `recoverTable` (scan, rebuilds, `newManifest`: `Create`, record, `Sync`, `SetMeta`).  If `Open` succeeds on the
    image it delivers exactly the entries and sequence number of `Dur.rebuild`, and — unless there was no table and no
    journal at all — `CURRENT` names the manifest `Recover` wrote, which holds its one record with all recovered
    tables. -/
theorem recover_crash_open_partial (dcfg : Dur.Cfg) (hc : dcfg.failedRecordLeavesNoTrace = true) {cfg : RCfg}
    (hcfg : cfg.createsEmptyManifestFirst = false) (r0 : RDisk) (hd : r0.durable) (hold : OldUnreadable dcfg r0)
    (k : Nat) (hk : k ≤ (recoverTableOps cfg r0).length) (ch : RCrash) (rs : RState)
    (hopen : recoverR dcfg (crashAt cfg r0 k ch).disk = .ok rs) :
    rs.entries = (rebuild (scanIn cfg r0)).entries ∧ rs.seq = (rebuild (scanIn cfg r0)).seq ∧
    ((r0.disk.tables ≠ [] ∨ r0.disk.journals ≠ []) →
      (crashAt cfg r0 k ch).disk.current = some (manifestNum r0) ∧
      ∃ mf, lookup (crashAt cfg r0 k ch).disk.manifests (manifestNum r0) = some mf ∧
        mf.all = [recoverRec (manifestNum r0) (tablePhase cfg r0).2] ∧
        rs.mv.live = (tablePhase cfg r0).2.added) := by
  obtain ⟨r', hr, e⟩ := crashAt_recoverTable hk ch
  rw [e] at hopen ⊢
  obtain ⟨hT, hG⟩ := recoverTable_reach hc hcfg hd hold hr ch
  exact open_of_mgood dcfg hT hold hG hopen

/-- the same for every crash point, those inside `openDB` included.  Not proved over this model: from the return of
    `recoverTable` on, the storage is that of an ordinary `Open` that replays journals, whose crash consistency is
    C04 (`C04.crash_consistent`, over `Dur.step`'s recovery steps `recOpen`/`recStep`/`job`); the simulation
    between `openOps` and those steps is missing.  (`open_complete_on_example` checks it on the example.) -/
def recover_crash_open_full : Prop :=
  ∀ (dcfg : Dur.Cfg), dcfg.failedRecordLeavesNoTrace = true → ∀ (c : UCmp) (cfg : RCfg),
    cfg.createsEmptyManifestFirst = false → ∀ (r0 : RDisk), r0.durable → OldUnreadable dcfg r0 →
    r0.disk.journals.Pairwise (fun p q => p.1 < q.1) → (∀ n ∈ r0.dmg, n ∈ r0.disk.tables.nums) →
    Settled (scanIn cfg r0) → ∀ (k : Nat) (ch : RCrash) (rs : RState),
    recoverR dcfg (crashAt cfg r0 k ch).disk = .ok rs → ∀ key, rs.get c key = (rebuild (scanIn cfg r0)).get c key

/-! ### non-vacuity: two tables, one with a corrupted block, one journal, a garbage manifest -/

def g1 : Grp := ⟨1, [⟨1, [107], [1]⟩], true⟩
/-- table 6 held `Put(l, 2)`, `Put(m, 3)` (sequence 2, 3) … -/
def g2 : Grp := ⟨2, [⟨1, [108], [2]⟩, ⟨1, [109], [3]⟩], true⟩
/-- … the block with `l` is corrupted: an iterator still yields `m` -/
def g2r : Grp := ⟨3, [⟨1, [109], [3]⟩], true⟩
def g4 : Grp := ⟨4, [⟨1, [107], [4]⟩], true⟩
def g5 : Grp := ⟨5, [⟨0, [109], []⟩], false⟩

/-- tables 4 and 6 (6 damaged), journal 8 with `Put(k, 4)` and `Delete(m)`, `CURRENT` → manifest 9, which holds a
    torn record only -/
def exR : RDisk :=
  { disk := { current := some 9
              manifests := [(9, ⟨[{ torn := true }], []⟩)]
              journals := [(8, ⟨[g4, g5], []⟩)]
              tables := [(4, ⟨[g1], true, false⟩), (6, ⟨[g2r], true, false⟩)] }
    dmg := [6] }

/-- the DB before the damage -/
def exOrig : RebuildIn :=
  { tables := [(4, g1.ents), (6, g2.ents)], journals := [(8, [g4, g5])] }

theorem exR_durable : exR.durable := by decide
/-- `code_recover_outranks_all_files` on the example: the unreadable manifest 9 is outranked -/
example : manifestNum exR = 10 := by decide
theorem exR_old_unreadable : OldUnreadable {} exR := by
  intro c mf h1 h2
  have hc : c = 9 := by cases h1; rfl
  subst hc
  have : mf = ⟨[{ torn := true }], []⟩ := by
    have : lookup exR.disk.manifests 9 = some ⟨[{ torn := true }], []⟩ := by decide
    rw [this] at h2; cases h2; rfl
  subst this
  decide
theorem exR_settled : Settled (scanIn {} exR) :=
  ⟨by unfold Uniq; decide, by decide, by unfold Grp.wf; decide⟩
theorem exOrig_settled : Settled exOrig :=
  ⟨by unfold Uniq; decide, by decide, by unfold Grp.wf; decide⟩
theorem exR_damaged : Damaged exOrig (scanIn {} exR) := ⟨by decide, by decide⟩

/-- the operations of `Recover` on the example: table 6 is rebuilt through temp file 0; every file number in the
    storage is in use (the repair of D47), so the manifest gets number 10 — above the unreadable manifest 9 —, is
    written and made current; journal 8 is flushed to table 11, journal 12 is created, the edit is committed, journal 8
    removed, and `checkAndCleanFiles` removes manifest 9, which is older than the current one -/
example : recoverOps {} exR =
    [.createTemp 0, .writeTemp 0 [g2r], .syncTemp 0, .renameTemp 0 6,
     .base (.create .manifest 10),
     .base (.writeM 10 { snapshot := true, jn := some 0, sq := some 3, nf := 11, added := [4, 6] }),
     .base (.sync .manifest 10), .base (.setMeta 10),
     .base (.create .table 11), .base (.writeT 11 [g4, g5]), .base (.sync .table 11),
     .base (.create .journal 12), .base (.writeM 10 { jn := some 12, sq := some 6, nf := 13, added := [11] }),
     .base (.sync .manifest 10), .base (.remove .journal 8), .base (.remove .manifest 9)] := by decide

/-- `recover_ops_equals_rebuild` on the example: `m` is deleted, `k` has its newer value, `l` sat in the corrupted
    block -/
example : (recoverR {} (exR.applyAll (recoverTableOps {} exR)).disk).toOption.map
      (fun rs => (rs.get bytewise [107], rs.get bytewise [108], rs.get bytewise [109], rs.mv.live)) =
    some (some [4], none, none, [4, 6]) ∧
    ((rebuild (scanIn {} exR)).get bytewise [107], (rebuild (scanIn {} exR)).get bytewise [109]) = (some [4], none) := by
  decide

example : ∃ rs, recoverR {} (exR.applyAll (recoverTableOps {} exR)).disk = .ok rs ∧
    rs.get bytewise [107] = (rebuild (scanIn {} exR)).get bytewise [107] := by
  obtain ⟨rs, h1, _, _, h4, _⟩ := recover_ops_equals_rebuild {} (cfg := {}) rfl exR exR_durable bytewise [107]
  exact ⟨rs, h1, h4⟩

/-- crash after the `Rename` (4 operations), after the unsynced manifest record (6), in the middle of the journal
    flush (10, table 9 lost): the second `Recover` reads the same -/
example : ∀ k ∈ [4, 6, 10], (rebuild (scanIn {} (crashAt {} exR k {}))).get bytewise [107] = some [4] := by decide

example (k : Nat) (ch : RCrash) :
    (rebuild (scanIn {} (crashAt {} exR k ch))).get bytewise [107] = (rebuild (scanIn {} exR)).get bytewise [107] :=
  (recover_crash_atomic bytewise exR exR_durable (by decide) (by decide) exR_settled k ch [107]).1

/-- the damaged-table guarantee after a crash: `k`'s newest version is in the journal, it is returned -/
example (k : Nat) (ch : RCrash) : ∀ e ∈ (rebuild (scanIn {} (crashAt {} exR k ch))).entries, e ∈ (rebuild exOrig).entries :=
  (recover_crash_atomic_damaged bytewise_lawful exR exR_durable (by decide) (by decide) exOrig exOrig_settled
    exR_damaged k ch).1

/-- `recover_crash_open_partial` on the example: before `SetMeta` (7 operations) `Open` refuses — `CURRENT` still
    names the garbage manifest; after it (8) `Open` succeeds on manifest 7 with both tables -/
example : (recoverR {} (crashAt {} exR 7 {}).disk).toOption.map (·.mv.live) = none ∧
    (recoverR {} (crashAt {} exR 8 {}).disk).toOption.map (fun rs => (rs.mv.live, rs.get bytewise [107])) =
      some ([4, 6], some [4]) := by decide

example (rs : RState) (h : recoverR {} (crashAt {} exR 8 {}).disk = .ok rs) : rs.mv.live = [4, 6] := by
  obtain ⟨_, _, h3⟩ := recover_crash_open_partial {} rfl (cfg := {}) rfl exR exR_durable exR_old_unreadable 8
    (by decide) {} rs h
  obtain ⟨_, _, _, _, h4⟩ := h3 (Or.inl (by decide))
  rw [h4]; decide

/-- the crash images used for bounded checks: everything unsynced lost, everything kept, the manifest record torn -/
def exChoices : List RCrash :=
  [{}, { base := { cutM := fun _ => 5, cutJ := fun _ => 5, keepT := fun _ => true }, keepTemp := fun _ => true },
   { base := { tornM := fun _ => true } }]

/-- on the crash image after `k` operations, `Open` refuses or reads the three keys as `Recover` does -/
def openOKAt (k : Nat) (ch : RCrash) : Bool :=
  match recoverR {} (crashAt {} exR k ch).disk with
  | .error _ => true
  | .ok rs => [[107], [108], [109]].all fun key =>
      decide (rs.get bytewise key = (rebuild (scanIn {} exR)).get bytewise key)

/-- `recover_crash_open_full` checked on the example: at every crash point of the whole of `Recover` (15
    operations) and for the three crash images, `Open` refuses or reads what `Recover` reads; it does succeed from the
    `SetMeta` on -/
theorem open_complete_on_example :
    ((List.range 17).all fun k => exChoices.all fun ch => openOKAt k ch) = true ∧
    ((List.range 17).filter fun k => (recoverR {} (crashAt {} exR k {}).disk).toOption.isSome) =
      [8, 9, 10, 11, 12, 13, 14, 15, 16] := by
  decide

/-! ### the code as found (D33): an empty manifest became current first -/

/-- the code before 170f82e -/
def preRepair : RCfg := { createsEmptyManifestFirst := true }

/-- **D33.**  The operations of the old `recoverTable` on the example: after the 8th, `SetMeta` of the *empty*
    manifest 10, the machine dies.  `Open` succeeds on the image — on a version without tables; `k` is read from the
    journal, `m`'s and the older data of the tables are gone; and `Open`'s janitor (`Dur.step`: `recOpen`, the journal
    loop, the final commit, `checkAndCleanFiles`) removes tables 4 and 6.  With the repaired code the same crash
    point has `CURRENT` on the complete manifest. -/
theorem pre_repair_empty_manifest_loses_tables :
    (recoverTableOps preRepair exR).take 8 =
      [.createTemp 0, .writeTemp 0 [g2r], .syncTemp 0, .renameTemp 0 6, .base (.create .manifest 10),
       .base (.writeM 10 { snapshot := true, jn := some 0, sq := some 0, nf := 11 }), .base (.sync .manifest 10),
       .base (.setMeta 10)] ∧
    (recoverR {} (crashAt preRepair exR 8 {}).disk).toOption.map (fun rs => (rs.mv.live, rs.tableGrps)) =
      some ([], []) ∧
    (run {} ({}, (crashAt preRepair exR 8 {}).disk)
        ([.recOpen, .recStep, .recStep] ++ List.replicate 19 (.job false .ok))).map
      (fun sd => (sd.1.phase, sd.2.tables.nums)) = some (.running, [11]) ∧
    (recoverR {} (crashAt {} exR 8 {}).disk).toOption.map (·.mv.live) = some [4, 6] := by
  decide

/-- the old code is not crash-atomic for `Open`: the statement of `recover_crash_open_partial` fails for it -/
theorem pre_repair_open_incomplete :
    ∃ (k : Nat) (rs : RState), k ≤ (recoverTableOps preRepair exR).length ∧
      recoverR {} (crashAt preRepair exR k {}).disk = .ok rs ∧
      rs.entries ≠ (rebuild (scanIn preRepair exR)).entries := by
  refine ⟨8, ?_⟩
  have hsome : (recoverR {} (crashAt preRepair exR 8 {}).disk).toOption.isSome = true := by decide
  cases h : recoverR {} (crashAt preRepair exR 8 {}).disk with
  | error e => rw [h] at hsome; cases hsome
  | ok rs =>
    refine ⟨rs, by decide, rfl, ?_⟩
    have : (recoverR {} (crashAt preRepair exR 8 {}).disk).toOption.map (·.entries) ≠
        some (rebuild (scanIn preRepair exR)).entries := by decide
    intro e
    apply this
    rw [h, ← e]; rfl

/-- The property theorems of this file (for the audit). -/
def theorems : List String :=
  ["GoLevel.C19.recover_rebuilds", "GoLevel.C19.recover_rebuilds_damaged",
   "GoLevel.C19.rebuilt_lookup_refines_view",
   "GoLevel.C19.code_recover_commits_only", "GoLevel.C19.code_recover_outranks_all_files",
   "GoLevel.C19.recover_ops_equals_rebuild",
   "GoLevel.C19.recover_crash_atomic", "GoLevel.C19.recover_crash_atomic_settled",
   "GoLevel.C19.recover_crash_atomic_damaged", "GoLevel.C19.recover_crash_open_partial",
   "GoLevel.C19.open_complete_on_example", "GoLevel.C19.pre_repair_empty_manifest_loses_tables",
   "GoLevel.C19.pre_repair_open_incomplete"]

end GoLevel.C19
