import GoLevel.Proofs.DurableView
import GoLevel.Proofs.ConcView
import GoLevel.Props.C01
/-!
# Property C19 — `Recover`

"If the manifest or its pointer is lost or damaged after a clean, settled shutdown, Recover reopens the DB from
the remaining files with exactly the same logical contents …  If some table data blocks are damaged as well,
Recover still succeeds, every entry that sits in an undamaged block and has no newer version is returned, and
nothing is returned that was never written."

Model: `Dur.rebuild` (`Model/Durable.lean`, part 3): `recoverTable` + `openDB`.  It does not look at `CURRENT`
or at any manifest — lost, truncated or garbled, they make no difference — and it is a total function
(`Recover` "succeeds").  A *settled* state is described by what the property needs of it: every table file on
storage is live and every journal on storage is unflushed, i.e. its records are ascending and start at or above
the largest sequence number in the tables (`Settled`); sequence numbers identify entries (`Conc.Uniq`).

* `recover_rebuilds`: the rebuilt DB reads exactly what the DB read before (`view` of all entries at any
  sequence number that is not below them — in particular the one a normal `Open` ends with);
* `recover_rebuilds_damaged`: with arbitrary entries of the tables unreadable, nothing is invented, and
  every readable entry that has no newer version for its key among *all* entries is what the rebuilt DB returns
  for that key;
* `rebuilt_lookup_refines_view`: the rebuilt version is all level 0, its tables may overlap arbitrarily; the
  max-sequence rule of `version.get` still returns `view` (instance of `C01.lookup_refines_view`).

Not covered here: D19 (the rebuild of a damaged table is written with the user comparer and unwrapped filter)
is about the bytes of the rewritten table, below this model.
-/
namespace GoLevel.C19
open GoLevel GoLevel.Dur GoLevel.Conc

/-! ## helpers -/

theorem maxSeqOf_ge (es : List Entry) : ∀ e ∈ es, e.seq ≤ maxSeqOf es := by
  unfold maxSeqOf
  have : ∀ (l : List Entry) (a : Nat), a ≤ l.foldl (fun m e => max m e.seq) a ∧
      ∀ e ∈ l, e.seq ≤ l.foldl (fun m e => max m e.seq) a := by
    intro l
    induction l with
    | nil => intro a; exact ⟨Nat.le_refl _, fun e he => by cases he⟩
    | cons y ys ih =>
      intro a
      simp only [List.foldl_cons]
      obtain ⟨i1, i2⟩ := ih (max a y.seq)
      refine ⟨Nat.le_trans (Nat.le_max_left _ _) i1, fun e he => ?_⟩
      rcases List.mem_cons.1 he with rfl | he'
      · exact Nat.le_trans (Nat.le_max_right _ _) i1
      · exact i2 e he'
  exact (this es 0).2

theorem maxSeqOf_le {es : List Entry} {b : Nat} (h : ∀ e ∈ es, e.seq ≤ b) : maxSeqOf es ≤ b := by
  unfold maxSeqOf
  have : ∀ (l : List Entry) (a : Nat), a ≤ b → (∀ e ∈ l, e.seq ≤ b) → l.foldl (fun m e => max m e.seq) a ≤ b := by
    intro l
    induction l with
    | nil => intro a ha _; exact ha
    | cons y ys ih =>
      intro a ha hl
      simp only [List.foldl_cons]
      exact ih _ (Nat.max_le.2 ⟨ha, hl y List.mem_cons_self⟩) (fun e he => hl e (List.mem_cons_of_mem _ he))
  exact this es 0 (Nat.zero_le _) h

/-- reading at any two positions above everything a collection holds gives the same answer -/
theorem view_above {c : UCmp} {L : List Entry} (hU : Uniq L) {a b : Nat} (ha : ∀ e ∈ L, e.seq ≤ a)
    (hb : ∀ e ∈ L, e.seq ≤ b) (k : Bytes) : view c L k a = view c L k b := by
  rcases Nat.le_total a b with h | h
  · exact (view_clip hU ha h).symm
  · exact view_clip hU hb h

/-- the entries of an ascending list of groups lie below the end of the replay -/
theorem ents_le_of_fin {g : Grp} {x : Nat} (h : g.fin ≤ x) (hw : g.wf) : ∀ e ∈ g.ents, e.seq ≤ x := by
  intro e he
  obtain ⟨_, h2, h3⟩ := ents_seq_range hw he
  rw [h3]; omega

/-! ## the settled case -/

/-- the state `Recover` is applied to: sequence numbers identify entries, the journals are unflushed (their
    records ascending, none below the largest sequence number in the tables), groups are well-formed -/
structure Settled (inp : RebuildIn) : Prop where
  uniq : Uniq (inp.tables.flatMap (·.2) ++ (inp.journals.flatMap (·.2)).flatMap Grp.ents)
  asc : AscFrom (maxSeqOf (inp.tables.flatMap (·.2))) (inp.journals.flatMap (·.2))
  wf : ∀ g ∈ inp.journals.flatMap (·.2), g.wf

/-- **Recover rebuilds the same contents.**  `s0` is any sequence number not below the entries — e.g. `db.seq`
    after a normal `Open` of the same files with the manifest intact. -/
theorem recover_rebuilds (c : UCmp) (inp : RebuildIn) (h : Settled inp) (s0 : Nat)
    (hs0 : ∀ e ∈ inp.tables.flatMap (·.2) ++ (inp.journals.flatMap (·.2)).flatMap Grp.ents, e.seq ≤ s0)
    (k : Bytes) :
    (rebuild inp).entries = inp.tables.flatMap (·.2) ++ (inp.journals.flatMap (·.2)).flatMap Grp.ents ∧
    (rebuild inp).get c k =
      view c (inp.tables.flatMap (·.2) ++ (inp.journals.flatMap (·.2)).flatMap Grp.ents) k s0 := by
  obtain ⟨a1, a2, a3⟩ := replayJ_asc h.asc
  have hent : (rebuild inp).entries =
      inp.tables.flatMap (·.2) ++ (inp.journals.flatMap (·.2)).flatMap Grp.ents := by
    simp only [rebuild, Rebuilt.entries, a1]
  refine ⟨hent, ?_⟩
  unfold Rebuilt.get
  rw [hent]
  apply view_above h.uniq _ hs0
  intro e he
  show e.seq ≤ (replayJ _ _).2
  rcases List.mem_append.1 he with h1 | h1
  · exact Nat.le_trans (maxSeqOf_ge _ e h1) a2
  · obtain ⟨g, hg, heg⟩ := List.mem_flatMap.1 h1
    exact ents_le_of_fin (a3 g hg) (h.wf g hg) e heg

/-! ## damaged tables -/

/-- `inp'` is `inp` with some entries of its tables unreadable: same files, each table yields a part of what it
    held; the journals are intact -/
structure Damaged (inp inp' : RebuildIn) : Prop where
  journals : inp'.journals = inp.journals
  part : ∀ e ∈ inp'.tables.flatMap (·.2), e ∈ inp.tables.flatMap (·.2)

/-- **Recover with damaged table blocks**: it returns (i) only entries that were written, and (ii) for every
    readable entry `e` that has no newer version of its key among all entries, the rebuilt DB answers `e`'s
    value (or "deleted") for that key. -/
theorem recover_rebuilds_damaged {c : UCmp} (hl : LawfulUCmp c) (inp inp' : RebuildIn) (h : Settled inp)
    (hd : Damaged inp inp') :
    (∀ e ∈ (rebuild inp').entries, e ∈ (rebuild inp).entries) ∧
    ∀ e ∈ (rebuild inp').entries,
      (∀ e' ∈ (rebuild inp).entries, c.cmp e'.ukey e.ukey = .eq → e'.key.num ≤ e.key.num) →
      (rebuild inp').get c e.ukey = e.hit.toOption := by
  -- the journals are replayed completely in both cases
  have hasc' : AscFrom (maxSeqOf (inp'.tables.flatMap (·.2))) (inp'.journals.flatMap (·.2)) := by
    rw [hd.journals]
    exact h.asc.mono (maxSeqOf_le (fun e he => maxSeqOf_ge _ e (hd.part e he)))
  obtain ⟨a1, a2, a3⟩ := replayJ_asc h.asc
  obtain ⟨b1, b2, b3⟩ := replayJ_asc hasc'
  have hent : (rebuild inp).entries =
      inp.tables.flatMap (·.2) ++ (inp.journals.flatMap (·.2)).flatMap Grp.ents := by
    simp only [rebuild, Rebuilt.entries, a1]
  have hent' : (rebuild inp').entries =
      inp'.tables.flatMap (·.2) ++ (inp.journals.flatMap (·.2)).flatMap Grp.ents := by
    rw [hd.journals] at b1
    simp only [rebuild, Rebuilt.entries, hd.journals, b1]
  have hsub : ∀ e ∈ (rebuild inp').entries, e ∈ (rebuild inp).entries := by
    intro e he
    rw [hent'] at he; rw [hent]
    rcases List.mem_append.1 he with h1 | h1
    · exact List.mem_append_left _ (hd.part e h1)
    · exact List.mem_append_right _ h1
  refine ⟨hsub, fun e he hnew => ?_⟩
  have hU' : Uniq (rebuild inp').entries := by
    have := h.uniq
    rw [← hent] at this
    exact this.sub hsub
  -- `e` is visible
  have hvis : e.seq ≤ (rebuild inp').seq := by
    show e.seq ≤ (replayJ _ _).2
    rw [hent'] at he
    rcases List.mem_append.1 he with h1 | h1
    · exact Nat.le_trans (maxSeqOf_ge _ e h1) b2
    · obtain ⟨g, hg, heg⟩ := List.mem_flatMap.1 h1
      have hg' : g ∈ inp'.journals.flatMap (·.2) := by rw [hd.journals]; exact hg
      exact ents_le_of_fin (b3 g hg') (h.wf g hg) e heg
  have hbest : Best c e.ukey (rebuild inp').seq (rebuild inp').entries e :=
    ⟨he, ⟨hl.refl _, hvis⟩, fun e' he' hm => hnew e' (hsub e' he') hm.1⟩
  unfold Rebuilt.get view
  rw [newest_of_best hU' hbest]

/-! ## the rebuilt version: everything in level 0 -/

/-- Every table `Recover` keeps is put into level 0, where key ranges overlap arbitrarily; `version.get`
    consults every overlapping table and keeps the hit with the largest sequence number — that is `view`. -/
theorem rebuilt_lookup_refines_view {c : UCmp} (hl : LawfulUCmp c) (l0 : Level) (hwf : ∀ t ∈ l0, t.wfB c = true)
    (hu : UniqSeq (Level.entries l0)) (k : Bytes) (s : Nat) :
    (dbGet c none [] [] none ⟨[l0]⟩ k s).toOption = view c (Level.entries l0) k s := by
  have hso : C01.SourcesOK c none [] [] none ⟨[l0]⟩ := by
    refine ⟨rfl, ?_, rfl, ?_, rfl, ?_, (fun t ht => by cases ht), ?_, ?_, hu, rfl, rfl, rfl, rfl⟩
    · intro e he; cases he
    · intro e he; cases he
    · intro e he; cases he
    · intro a ha; cases ha
    · simp only [Version.wfB, List.all_cons, List.all_nil, Bool.and_true, List.drop_succ_cons, List.drop_zero,
        levelsOrderedB, List.all_eq_true]
      exact hwf
  have := C01.lookup_refines_view hl none [] [] none ⟨[l0]⟩ hso k s
  rw [this]
  simp [dbEntries, Version.entries, Level.entries]

/-! ## non-vacuity -/

/-- a settled DB: `Put(k, v1)` (sequence 1) flushed to table 4, `Put(k, v2)` (sequence 2) and `Put(j, w)`
    (sequence 3) in journal 5 -/
def exIn : RebuildIn :=
  { tables := [(4, [⟨mkIKey [107] 1 1, [1]⟩])]
    journals := [(5, [⟨2, [⟨1, [107], [2]⟩], true⟩, ⟨3, [⟨1, [106], [9]⟩], false⟩])] }

theorem exIn_settled : Settled exIn := by
  refine ⟨by unfold Uniq; decide, by decide, by unfold Grp.wf; decide⟩

/-- `Recover` reads what the DB read: the newer value of `k`, and `j` -/
example : (rebuild exIn).get bytewise [107] = some [2] ∧ (rebuild exIn).get bytewise [106] = some [9] := by
  decide

example : (rebuild exIn).get bytewise [107] = view bytewise (exIn.tables.flatMap (·.2) ++
    (exIn.journals.flatMap (·.2)).flatMap Grp.ents) [107] 10 :=
  (recover_rebuilds bytewise exIn exIn_settled 10 (by decide) [107]).2

/-- the same files with the table's block unreadable -/
def exDamaged : RebuildIn := { exIn with tables := [(4, [])] }

example : Damaged exIn exDamaged := ⟨rfl, fun e he => by cases he⟩

/-- the surviving newest version of `k` is returned; nothing is invented -/
example : (rebuild exDamaged).get bytewise [107] = some [2] ∧
    (rebuild exDamaged).entries.all (fun e => (rebuild exIn).entries.contains e) = true := by decide

/-- on a disk of the machine: after the flush-with-rotation run of C04, `Recover` (which ignores `CURRENT` and the
    manifests) finds the value in the flushed table -/
example :
    (run {} init
      [.wAppend [⟨1, [107], [118]⟩] true .ok, .wSync .ok, .wApply, .wPublish, .wAck, .rotate .ok, .flushStart,
       .job false .ok, .job false .ok, .job false .ok, .job false .ok, .job false .ok, .job false .ok,
       .job false .ok, .job false .ok, .job false .ok, .job false .ok]).map
      (fun sd => (rebuild (rebuildInOf { sd.2 with current := none, manifests := [] })).get bytewise [107]) =
    some (some [118]) := by decide

/-- The property theorems of this file (for the audit). -/
def theorems : List String :=
  ["GoLevel.C19.recover_rebuilds", "GoLevel.C19.recover_rebuilds_damaged",
   "GoLevel.C19.rebuilt_lookup_refines_view"]

end GoLevel.C19
