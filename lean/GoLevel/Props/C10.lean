import GoLevel.Proofs.WriteProtoTerm
import GoLevel.Proofs.WriteProtoExec
/-!
# Property C10 — the write-merge protocol

"Concurrent writers are serialised: at most one group of writes is being logged and applied at any time; a
group is one leading writer plus the writers explicitly merged into it, they become durable and visible
together, and every writer of the group receives exactly one result, namely the group's.  When the leader
finishes, the write lock is either released or handed to exactly one writer that was too large to merge, so
no writer is dropped, answered twice or left waiting, including when the DB is closed or enters a
persistent error state mid-protocol."

Model: `GoLevel/Model/WriteProto.lean` — an interleaving system over an arbitrary list of threads (writers
of `DB.Write`/`DB.Put`/`DB.Delete`, and competitors for the write lock: transactions / `CompactRange` /
`SetReadOnly` (`transient`), `Close` (`closer`), the persistent-error loop of `compactionError`
(`perErrH`)), whose steps are the channel operations of `db_write.go` (`writeLockC`, `writeMergeC`,
`writeMergedC`, `writeAckC`, the `closeC` / `compPerErrC` arms of the `select`s) and the storage actions of
`writeLocked` (`flush`, `writeJournal`, `putMem`, `addSeq`, `rotateMem`), each of which may succeed or fail.
`Reachable s`: `s` is reached from a state where all threads are idle and the lock is free (`closed` and
`perErr` arbitrary).  Everything is for any number of threads and any interleaving.

A *group* is identified by the index `j` of its leader; its record (journal outcome `jout`, published
sequence number `pub`, result `gres`) lives in the leader's thread record; `w.acc = some j` says that
writer `w` was merged into group `j`.

Remark (found while modelling, not a defect of the protocol): when `rotateMem` fails after `addSeq`, the
whole group gets an error although its writes are durable and visible (`Out`: `r = err` does not imply
`jout = some false`).
-/
namespace GoLevel.C10

open GoLevel.WP

/-! ## the concrete run used by the non-vacuity examples

Three merging writers.  Writer 0 takes the lock, merges writer 1, writer 2 is too large (overflow), the
journal write fails: 0 and 1 get the error, the lock is handed to 2, which writes alone (with a memdb
rotation) and releases the lock. -/

def ex0 : St := { ws := [{ size := 2 }, { size := 1, sync := true }, { size := 5, nrec := 3 }], seq := 7 }

def exTraceA : List Label :=
  [.call 0, .call 1, .call 2, .lock 0, .flushOk 0 3, .recvAccept 1 0, .reply 1 0, .recvOverflow 2 0, .journalFail 0]

def exTraceB : List Label :=
  [.ack 1 0, .handoff 2 0, .flushOk 2 10, .mergeDone 2, .journalOk 2, .apply 2, .publish 2 true, .rotateOk 2,
   .release 2]

/-- after the journal failure: 0 is in `unlockWrite` owing one ack, 1 waits for it, 2 waits for the lock -/
def exMid : St := (run ex0 exTraceA).getD ex0
def exEnd : St := (run exMid exTraceB).getD ex0

theorem exMid_run : run ex0 exTraceA = some exMid := by decide
theorem exEnd_run : run exMid exTraceB = some exEnd := by decide

theorem ex0_init : Init ex0 := by
  refine ⟨rfl, rfl, ?_⟩
  intro w hw
  simp only [ex0, List.mem_cons, List.not_mem_nil, or_false] at hw
  rcases hw with rfl | rfl | rfl <;> simp [Thread.fresh]

theorem exMid_reachable : Reachable exMid := ⟨ex0, ex0_init, run_sound _ _ _ exMid_run⟩
theorem exEnd_reachable : Reachable exEnd :=
  ⟨ex0, ex0_init, Steps.trans (run_sound _ _ _ exMid_run) (run_sound _ _ _ exEnd_run)⟩

example : exMid.ws.map (·.pc) = [.lead (.acking 1 .err) 1 true, .waitAck, .waitMerged] := by decide
example : exEnd.ws.map (·.pc) = [.returned .err, .returned .err, .returned .ok] ∧ exEnd.token = false
    ∧ exEnd.seq = 10 := by decide

/-! ## 1. mutual exclusion -/

/-- At most one thread is between acquiring the write lock (by `writeLockC <-` or by hand-off) and
releasing it / handing it over, and exactly one iff the token is in `writeLockC`. -/
theorem mutex (s : St) (hr : Reachable s) :
    tot holds s.ws = (if s.token then 1 else 0) ∧
    ∀ (a b : Nat) (x y : Thread), s.ws[a]? = some x → s.ws[b]? = some y →
      0 < holds x.pc → 0 < holds y.pc → a = b :=
  ⟨(reachable_cinv s hr).holders, fun a b x y ha hb hx hy =>
    holder_unique s (reachable_cinv s hr) a b x y ha hb hx hy⟩

example : tot holds exMid.ws = 1 ∧ exMid.token = true := by decide

/-! ## 2. one result, one journal outcome, one publication per group -/

/-- A writer merged into group `j` (`w.acc = some j`) waits for the ack of the *current* leader `j` or has
returned exactly the result `unlockWrite` was called with by its leader; that result is `nil` only if the
group's single journal write succeeded and the group was published (in one `addSeq`), and a failed journal
write means error for everybody and no publication. -/
theorem group_result (s : St) (hr : Reachable s) (i j : Nat) (w : Thread) (hi : s.ws[i]? = some w)
    (hacc : w.acc = some j) :
    ∃ l, s.ws[j]? = some l ∧
      (w.pc = .waitAck ∧ s.cur = some j ∨ ∃ r, w.pc = .returned r ∧ l.gres = some r ∧ (r = .ok ∨ r = .err)) ∧
      (l.gres = some .ok → l.jout = some true ∧ l.pub ≠ none) ∧
      (l.jout = some false → l.gres = some .err ∧ l.pub = none) := by
  have inv := reachable_pinv s hr
  obtain ⟨l, hj, hl⟩ := inv.member i w j hi hacc
  have Lw := inv.loc i w hi
  have Ll := inv.loc j l hj
  refine ⟨l, hj, ?_, ?_, ?_⟩
  · cases hpc : w.pc with
    | waitAck =>
      have := inv.wa_cur i w hi hpc
      exact Or.inl ⟨rfl, by rw [← this.1, hacc]⟩
    | returned r =>
      have hg := hl r hpc
      refine Or.inr ⟨r, rfl, hg, ?_⟩
      revert Ll; unfold Loc
      split <;> simp_all [Blank, Out] <;> grind
    | _ => exfalso; revert Lw; unfold Loc; split <;> simp_all
  · intro hg; revert Ll; unfold Loc
    split <;> simp_all [Blank, Out]
  · intro hg; revert Ll; unfold Loc
    split <;> simp_all [Blank, Out] <;> grind

/-- the leader itself returns the group's result -/
theorem leader_result (s : St) (hr : Reachable s) (j : Nat) (l : Thread) (r r' : Res)
    (hj : s.ws[j]? = some l) (hp : l.pc = .returned r) (hg : l.gres = some r') : r = r' := by
  have Ll := (reachable_pinv s hr).loc j l hj
  simp only [Loc, hp] at Ll
  by_cases ha : l.acc = none
  · rcases Ll.1 ha with h | h
    · simp [Blank, hg] at h
    · have := h.1; rw [hg] at this; cases this; rfl
  · have := (Ll.2 ha).2; simp [Blank, hg] at this

example : ∃ l, exEnd.ws[0]? = some l ∧ l.gres = some .err ∧ l.jout = some false ∧ l.pub = none ∧
    ∃ w, exEnd.ws[1]? = some w ∧ w.acc = some 0 ∧ w.pc = .returned .err := by decide
example : ∃ l, exEnd.ws[2]? = some l ∧ l.gres = some .ok ∧ l.jout = some true ∧ l.pub = some 10 ∧
    l.gseq = 8 ∧ l.gn = 3 := by decide

/-! ## 3. nobody is answered twice, nobody is dropped -/

/-- The number of writers waiting for an ack equals the number of acks the leader still has to send, the
number of writers waiting on `writeMergedC` (at most one) equals the number of replies it still has to
send; such a writer always has a live leader that owes it; a thread that has its result is never touched
again. -/
theorem exactly_one_result (s : St) (hr : Reachable s) :
    tot isWA s.ws = tot owed s.ws ∧ tot isWM s.ws = tot pendReply s.ws ∧ tot isWM s.ws ≤ 1 ∧
    (∀ (i : Nat) (w : Thread), s.ws[i]? = some w → w.pc = .waitAck →
      ∃ (j : Nat) (l : Thread), s.ws[j]? = some l ∧ w.acc = some j ∧ s.cur = some j ∧ 0 < owed l.pc) ∧
    (∀ (i : Nat) (w : Thread), s.ws[i]? = some w → w.pc = .waitMerged →
      ∃ (j : Nat) (l : Thread), s.ws[j]? = some l ∧ 0 < pendReply l.pc ∧ 0 < holds l.pc) ∧
    (∀ (t : St) (i : Nat) (w : Thread) (r : Res), Steps s t → s.ws[i]? = some w → w.pc = .returned r →
      t.ws[i]? = some w) := by
  have c := reachable_cinv s hr
  have inv := reachable_pinv s hr
  exact ⟨c.acks, c.replies, waitMerged_le_one s c, fun i w hi hp => waitAck_has_leader s c inv i w hi hp,
    fun i w hi hp => waitMerged_has_leader s c i w hi hp,
    fun t i w r hs hi hp => result_once s t hs i w r hi hp⟩

example : tot isWA exMid.ws = 1 ∧ tot owed exMid.ws = 1 ∧ tot isWM exMid.ws = 1 := by decide

/-! ## 4. release or hand-off to exactly one -/

/-- When a leader finishes (its thread goes from inside `writeLocked` to `returned r`), either it had no
overflow, the token is taken out and nobody holds it, every other thread is unchanged; or it had an
overflow, and exactly one thread — a writer that was waiting on `writeMergedC` — is the new holder,
starting `writeLocked` afresh, every other thread is unchanged. -/
theorem handoff_exact (s t : St) (hr : Reachable s) (h : Step s t) (j : Nat) (l l' : Thread) (ph : Ph)
    (m : Nat) (o : Bool) (r : Res) (hj : s.ws[j]? = some l) (hl : l.pc = .lead ph m o)
    (hj' : t.ws[j]? = some l') (hret : l'.pc = .returned r) :
    (o = false ∧ t.token = false ∧ t.cur = none ∧
      (∀ (a : Nat) (x : Thread), t.ws[a]? = some x → holds x.pc = 0) ∧
      (∀ a, a ≠ j → t.ws[a]? = s.ws[a]?)) ∨
    (o = true ∧ t.token = true ∧ ∃ (i : Nat) (w : Thread), s.ws[i]? = some w ∧ w.pc = .waitMerged ∧
      t.ws[i]? = some w.asLeader ∧ t.cur = some i ∧
      (∀ (a : Nat) (x : Thread), t.ws[a]? = some x → 0 < holds x.pc → a = i) ∧
      (∀ a, a ≠ i → a ≠ j → t.ws[a]? = s.ws[a]?)) :=
  finish_exact s t h (reachable_cinv s hr) j l l' ph m o r hj hl hj' hret

example : ∃ t, Step exMid t := ⟨_, step?_sound exMid _ (.ack 1 0) rfl⟩
/-- the hand-off of the example run: after the ack, writer 0 returns and writer 2 leads -/
example : ((run exMid [.ack 1 0, .handoff 2 0]).map (fun t => (t.ws.map (·.pc), t.token, t.cur))) =
    some ([.returned .err, .returned .err, .lead .flush 0 false], true, some 2) := by decide

/-! ## 5. no reachable state with an unanswered writer is stuck -/

/-- While some writer has not returned, some step of the system is enabled (storage actions return:
their success and failure steps are both always enabled). -/
theorem no_stuck_state (s : St) (hr : Reachable s) (i : Nat) (w : Thread) (hi : s.ws[i]? = some w)
    (hk : w.kind = .writer) (hw : ∀ r, w.pc ≠ .returned r) : ∃ t, Step s t :=
  no_stuck s (reachable_cinv s hr) (reachable_pinv s hr) i w hi hk hw

example : ∃ t, Step exMid t := by
  have h : exMid.ws[1]? = some (exMid.ws[1]?.getD ({} : Thread)) := by decide
  exact no_stuck_state exMid exMid_reachable 1 (exMid.ws[1]?.getD ({} : Thread)) h (by decide)
    (by intro r; cases r <;> decide)

/-- closed DB, the lock kept by `Close`: the selecting writer leaves through the `closeC` arm -/
def exClosed : St :=
  (run { ws := [{ kind := .closer }, {}] } [.call 0, .call 1, .hAcquire 0]).getD { ws := [] }
example : run exClosed [.retClosed 1] ≠ none ∧ run exClosed [.lock 1] = none := by decide

/-! ## 6. termination -/

/-- Every step from a reachable state strictly decreases `measure` (a sum of per-thread phase weights), so
there is no infinite run, a run from an initial state with `N` threads has at most `14·N` steps, and in a
state without successor every writer holds its (single, see 3) result — whatever `closed`/`perErr` do. -/
theorem terminates :
    (∀ s t, Reachable s → Step s t → measure t < measure s) ∧
    WellFounded (fun t s : St => Reachable s ∧ Step s t) ∧
    (∀ (n : Nat) (s t : St), Init s → StepsN n s t → n ≤ 14 * s.ws.length) ∧
    (∀ s, Reachable s → (¬ ∃ t, Step s t) → ∀ (i : Nat) (w : Thread), s.ws[i]? = some w → w.kind = .writer →
      ∃ r, w.pc = .returned r) := by
  refine ⟨fun s t hr h => step_measure s t h (reachable_cinv s hr), step_wf, ?_, final_all_returned⟩
  intro n s t hi h
  have := stepsN_measure h (init_cinv s hi)
  rw [measure_init s hi] at this
  omega

example : measure ex0 = 42 ∧ measure exMid = 13 ∧ measure exEnd = 0 := by decide

def theorems : List String :=
  ["GoLevel.C10.mutex", "GoLevel.C10.group_result", "GoLevel.C10.leader_result",
   "GoLevel.C10.exactly_one_result", "GoLevel.C10.handoff_exact", "GoLevel.C10.no_stuck_state",
   "GoLevel.C10.terminates"]

end GoLevel.C10
