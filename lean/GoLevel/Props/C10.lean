import GoLevel.Proofs.WriteProtoTerm
import GoLevel.Proofs.WriteProtoExec
import GoLevel.Proofs.WriteProtoGInv5
import GoLevel.Proofs.WriteProtoDriver
/-!
# Property C10 — the write-merge protocol

"Concurrent writers are serialised: at most one group of writes is being logged and applied at any time; a
group is one leading writer plus the writers explicitly merged into it, they become durable and visible
together, and every writer of the group receives exactly one result, namely the group's.  When the leader
finishes, the write lock is either released or handed to exactly one writer that was too large to merge, so
no writer is dropped, answered twice or left waiting, including when the DB is closed or enters a
persistent error state mid-protocol."

Model: `GoLevel/Model/WriteProto.lean` — an interleaving system over an arbitrary list of threads (writers
of `DB.Write`/`DB.Put`/`DB.Delete`, and competitors for the write lock: transactions / `CompactRange` /
`SetReadOnly` (`transient`), `Close` (`closer`), the persistent-error loop of `compactionError`
(`perErrH`)), whose steps are the channel operations of `db_write.go` (`writeLockC`, `writeMergeC`,
`writeMergedC`, `writeAckC`, the `closeC` / `compPerErrC` arms of the `select`s) and the storage actions of
`writeLocked` (`flush`, `writeJournal`, `putMem`, `addSeq`, `rotateMem`), each of which may succeed or fail.
`Reachable s`: `s` is reached from a state where all threads are idle and the lock is free (`closed` and
`perErr` arbitrary).  Everything is for any number of threads and any interleaving.

A *group* is identified by the index `j` of its leader; its record (journal outcome `jout`, published
sequence number `pub`, result `gres`) lives in the leader's thread record; `w.acc = some j` says that
writer `w` was merged into group `j`.

Remark (found while modelling, not a defect of the protocol): when `rotateMem` fails after `addSeq`, the
whole group gets an error although its writes are durable and visible (`Out`: `r = err` does not imply
`jout = some false`).

Sections 7–12 (wp34) are about what a group *carries*: every call has records, a size, a Sync flag and is a
`Write(batch)` or a `Put`/`Delete`; the leader's record holds the locals of `writeLocked` (`batches`,
`ourBatch` and its contents, `sync`, `mergeLimit`, `mdbFree`) and the list `members` of the `writeMerge`
messages it accepted.  `St.cfg : Cfg` has one flag per place where the code has been seen to go wrong
(seeded changes); the theorems are for the flags set to `true`, `code_cfg` says that this is what the source
does (facts read off the Go AST by `tools/extract`), and for each flag set to `false` there is an explicit
run (`seeded_…`) that violates the corresponding theorem.
-/
namespace GoLevel.C10

open GoLevel.WP

/-! ## the concrete run used by the non-vacuity examples

Three merging writers.  Writer 0 takes the lock, merges writer 1, writer 2 is too large (overflow), the
journal write fails: 0 and 1 get the error, the lock is handed to 2, which writes alone (with a memdb
rotation) and releases the lock. -/

/-- a writer call: `Put`/`Delete` or `Write(batch)`, `internalLen`, the records, Sync -/
def mkW (put : Bool) (size : Nat) (recs : List Rec) (sync : Bool := false) : Thread :=
  { put := put, size := size, recs := recs, cb := recs, sync := sync }

/-- writer 0: `Write` of records 10, 11; writer 1: a `Put` of record 20 with Sync; writer 2: `Write` of 30, 31, 32 -/
def ex0 : St := { ws := [mkW false 2 [10, 11], mkW true 1 [20] true, mkW false 5 [30, 31, 32]], seq := 7 }

/-- `mdbFree = 5`: the merge limit is `min (128 KiB) (5 - 2) = 3` -/
def exTraceA : List Label :=
  [.call 0, .call 1, .call 2, .lock 0, .flushOk 0 5, .recvAccept 1 0, .reply 1 0, .recvOverflow 2 0, .journalFail 0]

/-- `mdbFree = 5 = batch.internalLen`: no merging, and the memdb is rotated after the write -/
def exTraceB : List Label :=
  [.ack 1 0, .handoff 2 0, .flushOk 2 5, .mergeDone 2, .journalOk 2, .apply 2, .publish 2 true, .rotateOk 2,
   .release 2]

/-- after the journal failure: 0 is in `unlockWrite` owing one ack, 1 waits for it, 2 waits for the lock -/
def exMid : St := (run ex0 exTraceA).getD ex0
def exEnd : St := (run exMid exTraceB).getD ex0

theorem exMid_run : run ex0 exTraceA = some exMid := by decide
theorem exEnd_run : run exMid exTraceB = some exEnd := by decide

theorem ex0_init : Init ex0 := by
  refine ⟨rfl, rfl, rfl, ?_⟩
  intro w hw
  simp only [ex0, List.mem_cons, List.not_mem_nil, or_false] at hw
  rcases hw with rfl | rfl | rfl <;> simp [Thread.fresh, mkW]

theorem exMid_reachable : Reachable exMid := ⟨ex0, ex0_init, run_sound _ _ _ exMid_run⟩
theorem exEnd_reachable : Reachable exEnd :=
  ⟨ex0, ex0_init, Steps.trans (run_sound _ _ _ exMid_run) (run_sound _ _ _ exEnd_run)⟩

example : exMid.ws.map (·.pc) = [.lead (.acking 1 .err) 1 true, .waitAck, .waitMerged] := by decide
example : exEnd.ws.map (·.pc) = [.returned .err, .returned .err, .returned .ok] ∧ exEnd.token = false
    ∧ exEnd.seq = 13 := by decide

/-! ## 1. mutual exclusion -/

/-- At most one thread is between acquiring the write lock (by `writeLockC <-` or by hand-off) and
releasing it / handing it over, and exactly one iff the token is in `writeLockC`. -/
theorem mutex (s : St) (hr : Reachable s) :
    tot holds s.ws = (if s.token then 1 else 0) ∧
    ∀ (a b : Nat) (x y : Thread), s.ws[a]? = some x → s.ws[b]? = some y →
      0 < holds x.pc → 0 < holds y.pc → a = b :=
  ⟨(reachable_cinv s hr).holders, fun a b x y ha hb hx hy =>
    holder_unique s (reachable_cinv s hr) a b x y ha hb hx hy⟩

example : tot holds exMid.ws = 1 ∧ exMid.token = true := by decide

/-! ## 2. one result, one journal outcome, one publication per group -/

/-- A writer merged into group `j` (`w.acc = some j`) waits for the ack of the *current* leader `j` or has
returned exactly the result `unlockWrite` was called with by its leader; that result is `nil` only if the
group's single journal write succeeded and the group was published (in one `addSeq`), and a failed journal
write means error for everybody and no publication. -/
theorem group_result (s : St) (hr : Reachable s) (i j : Nat) (w : Thread) (hi : s.ws[i]? = some w)
    (hacc : w.acc = some j) :
    ∃ l, s.ws[j]? = some l ∧
      (w.pc = .waitAck ∧ s.cur = some j ∨ ∃ r, w.pc = .returned r ∧ l.gres = some r ∧ (r = .ok ∨ r = .err)) ∧
      (l.gres = some .ok → l.jout = some true ∧ l.pub ≠ none) ∧
      (l.jout = some false → l.gres = some .err ∧ l.pub = none) := by
  have inv := reachable_pinv s hr
  obtain ⟨l, hj, hl⟩ := inv.member i w j hi hacc
  have Lw := inv.loc i w hi
  have Ll := inv.loc j l hj
  refine ⟨l, hj, ?_, ?_, ?_⟩
  · cases hpc : w.pc with
    | waitAck =>
      have := inv.wa_cur i w hi hpc
      exact Or.inl ⟨rfl, by rw [← this.1, hacc]⟩
    | returned r =>
      have hg := hl r hpc
      refine Or.inr ⟨r, rfl, hg, ?_⟩
      revert Ll; unfold Loc
      split <;> simp_all [Blank, Out] <;> grind
    | _ => exfalso; revert Lw; unfold Loc; split <;> simp_all
  · intro hg; revert Ll; unfold Loc
    split <;> simp_all [Blank, Out]
  · intro hg; revert Ll; unfold Loc
    split <;> simp_all [Blank, Out] <;> grind

/-- the leader itself returns the group's result -/
theorem leader_result (s : St) (hr : Reachable s) (j : Nat) (l : Thread) (r r' : Res)
    (hj : s.ws[j]? = some l) (hp : l.pc = .returned r) (hg : l.gres = some r') : r = r' := by
  have Ll := (reachable_pinv s hr).loc j l hj
  simp only [Loc, hp] at Ll
  by_cases ha : l.acc = none
  · rcases Ll.1 ha with h | h
    · simp [Blank, hg] at h
    · have := h.1; rw [hg] at this; cases this; rfl
  · have := (Ll.2 ha).2; simp [Blank, hg] at this

example : ∃ l, exEnd.ws[0]? = some l ∧ l.gres = some .err ∧ l.jout = some false ∧ l.pub = none ∧
    ∃ w, exEnd.ws[1]? = some w ∧ w.acc = some 0 ∧ w.pc = .returned .err := by decide
/-- the failed group consumed the sequence numbers 8, 9, 10 (`addSeq` on the journal-error path) -/
example : ∃ l, exEnd.ws[2]? = some l ∧ l.gres = some .ok ∧ l.jout = some true ∧ l.pub = some 13 ∧
    l.gseq = 11 ∧ l.gn = 3 := by decide

/-! ## 3. nobody is answered twice, nobody is dropped -/

/-- The number of writers waiting for an ack equals the number of acks the leader still has to send, the
number of writers waiting on `writeMergedC` (at most one) equals the number of replies it still has to
send; such a writer always has a live leader that owes it; a thread that has its result is never touched
again. -/
theorem exactly_one_result (s : St) (hr : Reachable s) :
    tot isWA s.ws = tot owed s.ws ∧ tot isWM s.ws = tot pendReply s.ws ∧ tot isWM s.ws ≤ 1 ∧
    (∀ (i : Nat) (w : Thread), s.ws[i]? = some w → w.pc = .waitAck →
      ∃ (j : Nat) (l : Thread), s.ws[j]? = some l ∧ w.acc = some j ∧ s.cur = some j ∧ 0 < owed l.pc) ∧
    (∀ (i : Nat) (w : Thread), s.ws[i]? = some w → w.pc = .waitMerged →
      ∃ (j : Nat) (l : Thread), s.ws[j]? = some l ∧ 0 < pendReply l.pc ∧ 0 < holds l.pc) ∧
    (∀ (t : St) (i : Nat) (w : Thread) (r : Res), Steps s t → s.ws[i]? = some w → w.pc = .returned r →
      t.ws[i]? = some w) := by
  have c := reachable_cinv s hr
  have inv := reachable_pinv s hr
  exact ⟨c.acks, c.replies, waitMerged_le_one s c, fun i w hi hp => waitAck_has_leader s c inv i w hi hp,
    fun i w hi hp => waitMerged_has_leader s c i w hi hp,
    fun t i w r hs hi hp => result_once s t hs i w r hi hp⟩

example : tot isWA exMid.ws = 1 ∧ tot owed exMid.ws = 1 ∧ tot isWM exMid.ws = 1 := by decide

/-! ## 4. release or hand-off to exactly one -/

/-- When a leader finishes (its thread goes from inside `writeLocked` to `returned r`), either it had no
overflow, the token is taken out and nobody holds it, every other thread is unchanged; or it had an
overflow, and exactly one thread — a writer that was waiting on `writeMergedC` — is the new holder,
starting `writeLocked` afresh, every other thread is unchanged. -/
theorem handoff_exact (s t : St) (hr : Reachable s) (h : Step s t) (j : Nat) (l l' : Thread) (ph : Ph)
    (m : Nat) (o : Bool) (r : Res) (hj : s.ws[j]? = some l) (hl : l.pc = .lead ph m o)
    (hj' : t.ws[j]? = some l') (hret : l'.pc = .returned r) :
    (o = false ∧ t.token = false ∧ t.cur = none ∧
      (∀ (a : Nat) (x : Thread), t.ws[a]? = some x → holds x.pc = 0) ∧
      (∀ a, a ≠ j → t.ws[a]? = s.ws[a]?)) ∨
    (o = true ∧ t.token = true ∧ ∃ (i : Nat) (w : Thread), s.ws[i]? = some w ∧ w.pc = .waitMerged ∧
      t.ws[i]? = some w.asLeader ∧ t.cur = some i ∧
      (∀ (a : Nat) (x : Thread), t.ws[a]? = some x → 0 < holds x.pc → a = i) ∧
      (∀ a, a ≠ i → a ≠ j → t.ws[a]? = s.ws[a]?)) :=
  finish_exact s t h (reachable_cinv s hr) j l l' ph m o r hj hl hj' hret

example : ∃ t, Step exMid t := ⟨_, step?_sound exMid _ (.ack 1 0) rfl⟩
/-- the hand-off of the example run: after the ack, writer 0 returns and writer 2 leads -/
example : ((run exMid [.ack 1 0, .handoff 2 0]).map (fun t => (t.ws.map (·.pc), t.token, t.cur))) =
    some ([.returned .err, .returned .err, .lead .flush 0 false], true, some 2) := by decide

/-! ## 5. no reachable state with an unanswered writer is stuck -/

/-- While some writer has not returned, some step of the system is enabled (storage actions return:
their success and failure steps are both always enabled). -/
theorem no_stuck_state (s : St) (hr : Reachable s) (i : Nat) (w : Thread) (hi : s.ws[i]? = some w)
    (hk : w.kind = .writer) (hw : ∀ r, w.pc ≠ .returned r) : ∃ t, Step s t :=
  no_stuck s (reachable_cinv s hr) (reachable_pinv s hr) i w hi hk hw

example : ∃ t, Step exMid t := by
  have h : exMid.ws[1]? = some (exMid.ws[1]?.getD ({} : Thread)) := by decide
  exact no_stuck_state exMid exMid_reachable 1 (exMid.ws[1]?.getD ({} : Thread)) h (by decide)
    (by intro r; cases r <;> decide)

/-- closed DB, the lock kept by `Close`: the selecting writer leaves through the `closeC` arm -/
def exClosed : St :=
  (run { ws := [{ kind := .closer }, {}] } [.call 0, .call 1, .hAcquire 0]).getD { ws := [] }
example : run exClosed [.retClosed 1] ≠ none ∧ run exClosed [.lock 1] = none := by decide

/-! ## 6. termination -/

/-- Every step from a reachable state strictly decreases `measure` (a sum of per-thread phase weights), so
there is no infinite run, a run from an initial state with `N` threads has at most `14·N` steps, and in a
state without successor every writer holds its (single, see 3) result — whatever `closed`/`perErr` do. -/
theorem terminates :
    (∀ s t, Reachable s → Step s t → measure t < measure s) ∧
    WellFounded (fun t s : St => Reachable s ∧ Step s t) ∧
    (∀ (n : Nat) (s t : St), Init s → StepsN n s t → n ≤ 14 * s.ws.length) ∧
    (∀ s, Reachable s → (¬ ∃ t, Step s t) → ∀ (i : Nat) (w : Thread), s.ws[i]? = some w → w.kind = .writer →
      ∃ r, w.pc = .returned r) := by
  refine ⟨fun s t hr h => step_measure s t h (reachable_cinv s hr), step_wf, ?_, final_all_returned⟩
  intro n s t hi h
  have := stepsN_measure h (init_cinv s hi)
  rw [measure_init s hi] at this
  omega

example : measure ex0 = 42 ∧ measure exMid = 13 ∧ measure exEnd = 0 := by decide

/-! ## 7. the configuration of the source

`tools/extract` reads off `db_write.go`: `sync = sync || incoming.sync` is a statement of the body of
`case incoming := <-db.writeMergeC` outside both branches; `ourBatch.Reset()` follows
`ourBatch = db.batchPool.Get().(*Batch)`; the merged record is appended with `ourBatch.appendRec`;
`unlockWrite` tests `if overflow {` and nothing else.  Each fact flips on the patch of the corresponding
seeded change, and `code_cfg` stops building. -/

theorem code_cfg : Cfg.code = {} := by decide

/-- the limit arithmetic of `writeLocked` has the shape `mergeLimitOf` transcribes -/
theorem code_merge_limit_shape : Gen.wpMergeLimitShape = true := by decide

theorem code_flags (s : St) (h : s.cfg = Cfg.code) :
    s.cfg.syncAll = true ∧ s.cfg.poolReset = true ∧ s.cfg.appendOur = true ∧ s.cfg.handoffOnErr = true := by
  rw [h, code_cfg]; decide

/-! A run with a full group: writer 0 (`Write` of 10, 11) leads and merges writer 1 (a `Put` of 20 with Sync:
it goes to the pooled batch) and then writer 2 (`Write` of 30, 31, 32: its batch is appended to `batches`). -/

def exTraceG : List Label :=
  [.call 0, .call 1, .call 2, .lock 0, .flushOk 0 100, .recvAccept 1 0, .reply 1 0, .recvAccept 2 0, .reply 2 0,
   .mergeDone 0, .journalOk 0, .apply 0, .publish 0 false, .ack 1 0, .ack 2 0, .release 0]

def exG : St := (run ex0 exTraceG).getD ex0
theorem exG_run : run ex0 exTraceG = some exG := by decide
theorem exG_reachable : Reachable exG := ⟨ex0, ex0_init, run_sound _ _ _ exG_run⟩

example : exG.ws.map (·.pc) = [.returned .ok, .returned .ok, .returned .ok] ∧ exG.seq = 13 ∧
    exG.pool = [[20]] := by decide

theorem jout_of_gres_ok (l : Thread) (hL : Loc l) (h : l.gres = some .ok) : l.jout = some true ∧ l.pub ≠ none := by
  revert hL; unfold Loc
  split <;> simp_all [Blank, Out]

/-! ## 8. Sync through the merge (C04) -/

/-- The journal write of a group is synced iff its leader or one of the merged writers asked for Sync
(`jsync` is the `sync` argument of `db.writeJournal`); the list `members` is the set of writers merged into
the group, with their flags; hence a merged writer that asked for Sync and was answered `nil` was journalled
with Sync, and so was a leader that asked for it. -/
theorem group_sync (s : St) (hr : Reachable s) (hc : s.cfg.syncAll = true) (j : Nat) (l : Thread)
    (hj : s.ws[j]? = some l) :
    (l.jout ≠ none → l.jsync = some (l.sync || l.members.any (·.sync))) ∧
    (∀ e ∈ l.members, ∃ w, s.ws[e.idx]? = some w ∧ w.kind = .writer ∧ w.sync = e.sync ∧
        (w.acc = some j ∨ w.pc = .waitMerged)) ∧
    (∀ (i : Nat) (w : Thread), s.ws[i]? = some w → w.acc = some j →
        ∃ e ∈ l.members, e.idx = i ∧ e.sync = w.sync) ∧
    (∀ (i : Nat) (w : Thread), s.ws[i]? = some w → w.acc = some j → w.sync = true → w.pc = .returned .ok →
        l.jout = some true ∧ l.jsync = some true) ∧
    (l.gres = some .ok → l.sync = true → l.jout = some true ∧ l.jsync = some true) := by
  have p := reachable_pinv s hr
  have g := reachable_ginv s hr
  have hL := p.loc j l hj
  have hG := g.gloc j l hj
  have ha : l.jout ≠ none → l.jsync = some (l.sync || l.members.any (·.sync)) := by
    intro hjo
    obtain ⟨hS, _, _, hjs, _⟩ := shape_of_jout _ l hL hG hjo
    rw [hjs, hS.2.2.2.1 hc]; rfl
  have hmem : ∀ (i : Nat) (w : Thread), s.ws[i]? = some w → w.acc = some j → memOf i w ∈ l.members := by
    intro i w hi hacc
    obtain ⟨l', hj', hm⟩ := g.am i w j hi hacc
    rw [hj] at hj'; cases hj'; exact hm
  refine ⟨ha, ?_, ?_, ?_, ?_⟩
  · intro e he
    obtain ⟨w, hw, hm, hk, _, _⟩ := g.tie j l e hj he
    refine ⟨w, hw, hk, by rw [← hm]; rfl, ?_⟩
    rcases g.macc j l e w hj he hw with h | h
    · exact Or.inl h
    · exact Or.inr h.1
  · intro i w hi hacc
    exact ⟨memOf i w, hmem i w hi hacc, rfl, rfl⟩
  · intro i w hi hacc hs hp
    obtain ⟨l', hj', hres⟩ := p.member i w j hi hacc
    rw [hj] at hj'; cases hj'
    have hjo := jout_of_gres_ok l hL (hres _ hp)
    refine ⟨hjo.1, ?_⟩
    rw [ha (by rw [hjo.1]; simp)]
    have : l.members.any (·.sync) = true :=
      List.any_eq_true.mpr ⟨memOf i w, hmem i w hi hacc, hs⟩
    rw [this, Bool.or_true]
  · intro hgr hs
    have hjo := jout_of_gres_ok l hL hgr
    refine ⟨hjo.1, ?_⟩
    rw [ha (by rw [hjo.1]; simp), hs, Bool.true_or]

theorem code_group_sync (s : St) (hr : Reachable s) (hcode : s.cfg = Cfg.code) (i j : Nat) (w l : Thread)
    (hi : s.ws[i]? = some w) (hj : s.ws[j]? = some l) (hacc : w.acc = some j) (hs : w.sync = true)
    (hp : w.pc = .returned .ok) : l.jout = some true ∧ l.jsync = some true :=
  (group_sync s hr (code_flags s hcode).1 j l hj).2.2.2.1 i w hi hacc hs hp

/-- the group of `exG` was synced because of the merged `Put` -/
example : ∃ l, exG.ws[0]? = some l ∧ l.sync = false ∧ l.jsync = some true ∧ l.members.map (·.sync) = [true, false] := by
  decide

/-- seeded change "the leader drops the Sync flag of a merged Put" (`syncAll = false`): writer 1, a `Put`
with Sync, is merged into the group of writer 0 and answered `nil`; the group was journalled without Sync -/
def m1Init : St := { ws := [mkW false 2 [10], mkW true 1 [20] true], cfg := { syncAll := false } }
def m1Trace : List Label :=
  [.call 0, .call 1, .lock 0, .flushOk 0 100, .recvAccept 1 0, .reply 1 0, .mergeDone 0, .journalOk 0, .apply 0,
   .publish 0 false, .ack 1 0, .release 0]
def m1End : St := (run m1Init m1Trace).getD m1Init

theorem m1_reachable : Reachable m1End := by
  refine ⟨m1Init, ⟨rfl, rfl, rfl, ?_⟩, run_sound _ _ _ (by decide : run m1Init m1Trace = some m1End)⟩
  intro w hw
  simp only [m1Init, List.mem_cons, List.not_mem_nil, or_false] at hw
  rcases hw with rfl | rfl <;> simp [Thread.fresh, mkW]

theorem seeded_sync_dropped : Reachable m1End ∧ m1End.cfg = { syncAll := false } ∧
    m1End.ws.map (fun w => (w.pc, w.acc, w.sync, w.jout, w.jsync)) =
      [(.returned .ok, none, false, some true, some false), (.returned .ok, some 0, true, none, none)] :=
  ⟨m1_reachable, by decide, by decide⟩

/-! ## 9. the records of a group (C10, C20) -/

/-- Once `db.writeJournal` has been called for the group led by `j`: the records written — and, once
published, the records put into the memdb — are `expect`: the leader's `batch` (for a `Put` leader: its
record followed by the merged `Put`s), then in arrival order the merged batches, the pooled batch (all merged
`Put`s) standing where the first `Put` arrived.  That is a permutation of the leader's records followed by
every merged call's records; the leader's come first; each call's records appear in the call's own order;
their number is the number `gn` of sequence numbers the group consumes (`pub + 1 = gseq + gn`); and
`members` is exactly the set of merged writers: distinct threads, each a writer whose `acc` is `j` (or who
still waits for the reply), and every writer with `acc = some j` is in it. -/
theorem group_records_exact (s : St) (hr : Reachable s) (h1 : s.cfg.poolReset = true)
    (h2 : s.cfg.appendOur = true) (j : Nat) (l : Thread) (hj : s.ws[j]? = some l) (hjo : l.jout ≠ none) :
    l.jrecs = expect l.put l.recs l.members ∧
    (l.pub ≠ none → l.arecs = l.jrecs) ∧
    l.jrecs.Perm (l.recs ++ l.members.flatMap (·.recs)) ∧
    l.recs <+: l.jrecs ∧
    (∀ e ∈ l.members, e.recs.Sublist l.jrecs) ∧
    l.gn = l.jrecs.length ∧ l.gn = l.recs.length + (l.members.map (·.recs.length)).sum ∧
    (∀ p, l.pub = some p → p + 1 = l.gseq + l.gn) ∧
    (l.members.map (·.idx)).Nodup ∧
    (∀ e ∈ l.members, ∃ w, s.ws[e.idx]? = some w ∧ memOf e.idx w = e ∧ w.kind = .writer ∧
        (w.acc = some j ∨ w.pc = .waitMerged)) ∧
    (∀ (i : Nat) (w : Thread), s.ws[i]? = some w → w.acc = some j → memOf i w ∈ l.members) := by
  have p := reachable_pinv s hr
  have g := reachable_ginv s hr
  obtain ⟨hS, hgn, hjr, _, har⟩ := shape_of_jout _ l (p.loc j l hj) (g.gloc j l hj) hjo
  have hfl := flat_expect _ l hS h1 h2
  have hjr' : l.jrecs = expect l.put l.recs l.members := by rw [hjr, hfl]
  refine ⟨hjr', ?_, ?_, ?_, ?_, ?_, ?_, ?_, g.nd j l hj, ?_, ?_⟩
  · intro hp; rw [har hp, hjr]
  · rw [hjr']; exact expect_perm _ _ _
  · rw [hjr']; exact expect_prefix _ _ _
  · intro e he; rw [hjr']; exact expect_member_sublist _ _ _ e he
  · rw [hgn, hjr]
  · rw [hgn, hfl]; exact expect_length _ _ _
  · intro q hq; exact g.pe j l q hj hq
  · intro e he
    obtain ⟨w, hw, hm, hk, _, _⟩ := g.tie j l e hj he
    refine ⟨w, hw, hm, hk, ?_⟩
    rcases g.macc j l e w hj he hw with h | h
    · exact Or.inl h
    · exact Or.inr h.1
  · intro i w hi hacc
    obtain ⟨l', hj', hm⟩ := g.am i w j hi hacc
    rw [hj] at hj'; cases hj'; exact hm

/-- only the leader's `db.addSeq` moves `db.seq`, and by the group's record count -/
theorem seq_consumed (s t : St) (h : Step s t) (hne : t.seq ≠ s.seq) :
    ∃ (j : Nat) (l : Thread) (m : Nat) (o : Bool), s.ws[j]? = some l ∧
      (l.pc = .lead .publish m o ∨ l.pc = .lead .journal m o) ∧ t.seq = s.seq + l.gn := by
  cases h with
  | publish j l m o rot hj hp hrot => exact ⟨j, l, m, o, hj, Or.inl hp, rfl⟩
  | journalFail j l m o hj hp => exact ⟨j, l, m, o, hj, Or.inr hp, rfl⟩
  | _ => exact absurd rfl hne

theorem code_group_records_exact (s : St) (hr : Reachable s) (hcode : s.cfg = Cfg.code) (j : Nat) (l : Thread)
    (hj : s.ws[j]? = some l) (hjo : l.jout ≠ none) :
    l.jrecs.Perm (l.recs ++ l.members.flatMap (·.recs)) ∧ l.gn = l.jrecs.length ∧
      (l.pub ≠ none → l.arecs = l.jrecs) :=
  have f := code_flags s hcode
  have h := group_records_exact s hr f.2.1 f.2.2.1 j l hj hjo
  ⟨h.2.2.1, h.2.2.2.2.2.1, h.2.1⟩

/-- the group of `exG`: the pooled batch (record 20) stands between the leader's batch and writer 2's -/
example : ∃ l, exG.ws[0]? = some l ∧ l.batches = [.own, .our, .other 2 [30, 31, 32]] ∧
    l.jrecs = [10, 11, 20, 30, 31, 32] ∧ l.arecs = l.jrecs ∧ l.gn = 6 ∧ l.gseq = 8 ∧ l.pub = some 13 ∧
    l.members.map (·.idx) = [1, 2] := by decide

/-- seeded change "the pooled batch is not `Reset()`" (`poolReset = false`): writer 0, a `Put` of record 10,
writes alone and returns its batch to the pool; then writer 1 (`Write` of 20) leads, merges writer 2 (a `Put`
of 30) and is handed that batch by the pool: the group journals the stale record 10 and consumes three
sequence numbers for two records -/
def m2Init : St :=
  { ws := [mkW true 1 [10], mkW false 2 [20], mkW true 1 [30]], cfg := { poolReset := false } }
def m2Trace : List Label :=
  [.call 0, .lock 0, .flushOk 0 100, .mergeDone 0, .journalOk 0, .apply 0, .publish 0 false, .release 0,
   .call 1, .call 2, .lock 1, .flushOk 1 100, .recvAccept 2 1 (some 0), .reply 2 1, .mergeDone 1, .journalOk 1,
   .apply 1, .publish 1 false, .ack 2 1, .release 1]
def m2End : St := (run m2Init m2Trace).getD m2Init

theorem m2_reachable : Reachable m2End := by
  refine ⟨m2Init, ⟨rfl, rfl, rfl, ?_⟩, run_sound _ _ _ (by decide : run m2Init m2Trace = some m2End)⟩
  intro w hw
  simp only [m2Init, List.mem_cons, List.not_mem_nil, or_false] at hw
  rcases hw with rfl | rfl | rfl <;> simp [Thread.fresh, mkW]

theorem seeded_stale_pooled_batch : Reachable m2End ∧ m2End.cfg = { poolReset := false } ∧
    ∃ l, m2End.ws[1]? = some l ∧ l.jout = some true ∧ l.recs = [20] ∧ l.members.map (·.recs) = [[30]] ∧
      l.jrecs = [20, 10, 30] ∧ l.gn = 3 := ⟨m2_reachable, by decide, by decide⟩

/-! ## 10. the caller's batch (C20) -/

/-- No step modifies the contents of a caller's batch; so it always holds the records the caller put in.
Merged `Put` records go to the pooled batch only, and that batch holds nothing else: for a leader past
`db.flush`, `pb` is its own record (if it is a `Put`: then `batch == ourBatch`) followed by the merged `Put`s
— nothing stale, because it is reset after `Get()`. -/
theorem caller_batch_untouched :
    (∀ (s t : St), Step s t → s.cfg.appendOur = true → ∀ (i : Nat) (w w' : Thread), s.ws[i]? = some w →
        t.ws[i]? = some w' → w'.cb = w.cb) ∧
    (∀ (s : St), Reachable s → s.cfg.appendOur = true → ∀ (i : Nat) (w : Thread), s.ws[i]? = some w →
        w.cb = w.recs) ∧
    (∀ (s : St), Reachable s → s.cfg.appendOur = true → s.cfg.poolReset = true → ∀ (j : Nat) (l : Thread),
        s.ws[j]? = some l → l.batches ≠ [] →
        l.pb = (if l.put then l.recs else []) ++ (l.members.flatMap fun e => if e.put then e.recs else [])) := by
  refine ⟨?_, ?_, ?_⟩
  · intro s t h hc i w w' hi hi'
    have hcb : ∀ (l x : Thread) (k : Nat) (st : List Rec), (l.accept s.cfg k x st).cb = l.cb := by
      intro l x k st
      show l.acceptCb s.cfg x = l.cb
      simp [Thread.acceptCb, hc]
    revert hi'
    cases h <;> (simp only [set2, List.getElem?_set]) <;>
      grind [Thread.setPc, Thread.asLeader, Thread.unlock, Thread.grouped, Thread.journalled]
  · intro s hr hc i w hi
    have hG := (reachable_ginv s hr).gloc i w hi
    cases hpc : w.pc with
    | lead ph m o =>
      cases ph <;> simp only [GLoc, hpc, Unled, FlushShape, Shape] at hG <;> grind
    | _ => simp only [GLoc, hpc, Unled, Shape] at hG <;> grind
  · intro s hr hc hp j l hj hb
    have hG := (reachable_ginv s hr).gloc j l hj
    have hS : Shape s.cfg l := by
      cases hpc : l.pc with
      | lead ph m o =>
        cases ph <;> simp only [GLoc, hpc, Unled, FlushShape] at hG <;> grind
      | _ => simp only [GLoc, hpc, Unled] at hG <;> grind
    exact hS.2.2.1 hp hc

/-- in `exG` the caller's batches are what they were, the pooled batch got the `Put` -/
example : exG.ws.map (·.cb) = [[10, 11], [20], [30, 31, 32]] ∧ (exG.ws.map (·.pb))[0]? = some [20] := by decide

/-- seeded change "the merged record is appended to the caller's batch" (`appendOur = false`): writer 0
(`Write` of 20) merges writer 1 (a `Put` of 30); one step later its caller's batch holds 20 and 30 -/
def m3Init : St := { ws := [mkW false 2 [20], mkW true 1 [30]], cfg := { appendOur := false } }
def m3Trace : List Label := [.call 0, .call 1, .lock 0, .flushOk 0 100, .recvAccept 1 0]
def m3End : St := (run m3Init m3Trace).getD m3Init

theorem m3_reachable : Reachable m3End := by
  refine ⟨m3Init, ⟨rfl, rfl, rfl, ?_⟩, run_sound _ _ _ (by decide : run m3Init m3Trace = some m3End)⟩
  intro w hw
  simp only [m3Init, List.mem_cons, List.not_mem_nil, or_false] at hw
  rcases hw with rfl | rfl <;> simp [Thread.fresh, mkW]

theorem seeded_caller_batch_modified : Reachable m3End ∧ m3End.cfg = { appendOur := false } ∧
    ∃ l, m3End.ws[0]? = some l ∧ l.put = false ∧ l.recs = [20] ∧ l.cb = [20, 30] ∧ l.pb = [] :=
  ⟨m3_reachable, by decide, by decide⟩

/-! ## 11. the answers of `unlockWrite`, whatever the leader's outcome (C09) -/

/-- When the leader `j` enters `unlockWrite(o, m, r)` — after a failed `flush`, a failed journal write, a
failed `rotateMem` or a success — `m` is the number of messages it accepted, every writer waiting for an ack
was merged by `j`, if `o` a writer waits on `writeMergedC`, and the leader's own steps lead to a state where
each of those writers has returned `r`, the leader has returned `r`, and the lock is free (`o = false`) or
held by the overflowed writer, which starts `writeLocked` (`o = true`).  With `terminates`/`no_stuck_state`
every run does this. -/
theorem overflow_answered (s : St) (hr : Reachable s) (j : Nat) (l : Thread) (k m : Nat) (r : Res) (o : Bool)
    (hj : s.ws[j]? = some l) (hp : l.pc = .lead (.acking k r) m o) :
    l.members.length = m ∧
    (∀ (i : Nat) (w : Thread), s.ws[i]? = some w → w.pc = .waitAck → w.acc = some j) ∧
    (o = true → ∃ (i : Nat) (w : Thread), s.ws[i]? = some w ∧ w.pc = .waitMerged ∧ w.kind = .writer) ∧
    ∃ t, Steps s t ∧ (∃ l', t.ws[j]? = some l' ∧ l'.pc = .returned r) ∧
      (∀ (i : Nat) (w : Thread), s.ws[i]? = some w → w.pc = .waitAck → t.ws[i]? = some (w.setPc (.returned r))) ∧
      (o = false → t.token = false) ∧
      (o = true → ∃ (i : Nat) (w : Thread), s.ws[i]? = some w ∧ w.pc = .waitMerged ∧
          t.ws[i]? = some w.asLeader ∧ t.cur = some i ∧ t.token = true) := by
  have c := reachable_cinv s hr
  have p := reachable_pinv s hr
  have g := reachable_ginv s hr
  refine ⟨members_of_acking _ l (g.gloc j l hj) k m r o hp, ?_, ?_, unlock_run k s hr j l r m o hj hp⟩
  · intro i w hi hw
    have hcur := p.holder_cur j l hj (by simp [hp, holds])
    have := (p.wa_cur i w hi hw).1
    rw [this, hcur]
  · intro ho
    subst ho
    obtain ⟨i, w, hi, hw⟩ := exists_wm s c j l hj (by cases k <;> simp [hp, pendReply])
    have := p.loc i w hi
    simp only [Loc, hw] at this
    exact ⟨i, w, hi, hw, this.1⟩

/-- `exMid`: the journal write failed; writer 1 gets the error, writer 2 the lock -/
example : ∃ t, Steps exMid t ∧ t.ws.map (·.pc) = [.returned .err, .returned .err, .lead .flush 0 false] :=
  ⟨_, run_sound exMid _ [.ack 1 0, .handoff 2 0] rfl, by decide⟩

/-- seeded change "`unlockWrite` does not answer the overflowed writer when the leader failed"
(`handoffOnErr = false`, `if overflow && err == nil`): the run of `exTraceA`, the ack, and the release of the
lock end in a state where writer 2 waits on `writeMergedC`, the lock is free, and no step is enabled -/
def m4Init : St := { ex0 with cfg := { handoffOnErr := false } }
def m4End : St := (run m4Init (exTraceA ++ [.ack 1 0, .releaseLost 0])).getD m4Init

theorem seeded_overflow_not_answered : InitAny m4Init ∧ m4Init.cfg = { handoffOnErr := false } ∧
    Steps m4Init m4End ∧ m4End.ws.map (·.pc) = [.returned .err, .returned .err, .waitMerged] ∧
    m4End.token = false ∧ ¬ ∃ u, Step m4End u := by
  refine ⟨⟨rfl, rfl, ?_⟩, rfl,
    run_sound _ _ _ (by decide : run m4Init (exTraceA ++ [.ack 1 0, .releaseLost 0]) = some m4End),
    by decide, by decide, ?_⟩
  · intro w hw
    simp only [m4Init, ex0, List.mem_cons, List.not_mem_nil, or_false] at hw
    rcases hw with rfl | rfl | rfl <;> simp [Thread.fresh, mkW]
  · apply stuck_of_waiting
    have hall : m4End.ws.all (fun w => match w.pc with
        | .returned _ => true | .waitMerged => true | _ => false) = true := by decide
    intro i w hi
    have := List.all_eq_true.mp hall w (List.mem_of_getElem? hi)
    cases hpc : w.pc <;> simp [hpc] at this ⊢

/-! ## 12. the merge limit -/

/-- For a leader past `db.flush`: the sizes of the accepted messages plus the remaining `mergeLimit` are the
limit the code computed from `batch.internalLen` and `mdbFree`; so the merged size never exceeds it, nor
`mdbFree - batch.internalLen` (the group fits into the memdb that `flush` made room in), nor 128 KiB for a
batch of at most 128 KiB, and a larger batch plus its merged writers stay within 1 MiB; a leader with merging
disabled accepts nothing. -/
theorem merge_within_limit (s : St) (hr : Reachable s) (j : Nat) (l : Thread) (hj : s.ws[j]? = some l)
    (hb : l.batches ≠ []) :
    l.glimit + (l.members.map (·.size)).sum = mergeLimitOf l.size l.gfree ∧
    (l.members.map (·.size)).sum ≤ mergeLimitOf l.size l.gfree ∧
    mergeLimitOf l.size l.gfree ≤ l.gfree - l.size ∧
    (l.size ≤ Gen.wpMergeBigBatch → mergeLimitOf l.size l.gfree ≤ Gen.wpMergeLimitSmall) ∧
    (Gen.wpMergeBigBatch < l.size → mergeLimitOf l.size l.gfree ≤ Gen.wpMergeLimitBig - l.size) ∧
    (l.merge = false → l.members = []) := by
  have hG := (reachable_ginv s hr).gloc j l hj
  have hS : Shape s.cfg l := by
    cases hpc : l.pc with
    | lead ph m o =>
      cases ph <;> simp only [GLoc, hpc, Unled, FlushShape] at hG <;> grind
    | _ => simp only [GLoc, hpc, Unled] at hG <;> grind
  have h5 : l.glimit + sizes l.members = mergeLimitOf l.size l.gfree := hS.2.2.2.2.1
  refine ⟨h5, ?_, ?_, ?_, ?_, hS.2.2.2.2.2.2.2⟩
  · have : sizes l.members = (l.members.map (·.size)).sum := rfl
    omega
  · unfold mergeLimitOf; simp only; (repeat' split) <;> omega
  · intro h; unfold mergeLimitOf; simp only; (repeat' split) <;> omega
  · intro h; unfold mergeLimitOf; simp only; (repeat' split) <;> omega

/-- the constants of the source: 128 KiB and 1 MiB -/
example : Gen.wpMergeBigBatch = 128 * 1024 ∧ Gen.wpMergeLimitSmall = 128 * 1024 ∧
    Gen.wpMergeLimitBig = 1024 * 1024 := by decide

/-- in `exMid` the limit was `5 - 2 = 3`, one unit used by writer 1, and writer 2 (size 5) did not fit -/
example : ∃ l, exMid.ws[0]? = some l ∧ mergeLimitOf l.size l.gfree = 3 ∧ l.glimit = 2 ∧
    l.members.map (·.size) = [1] := by decide

/-! ## 13. the tie: the trace validator (`wp …` lines of `gldriver`) -/

/-- After any trace of hook events the validator accepts (from its initial state, configuration `{}`), every
candidate model state is reachable: the log of the real code is a run of the model, so everything above
holds of it. -/
theorem validator_sound (es : List Driver.Wp.Ev) (v' : Driver.Wp.WpState)
    (h : Driver.Wp.runEvents Driver.Wp.initWp es = .ok v') : ∀ m ∈ v'.ms, Reachable m ∧ m.cfg = {} := by
  intro m hm
  have hr := Driver.Wp.runEvents_reach es _ v' Driver.Wp.initWp_reach h m hm
  exact ⟨hr, Driver.Wp.runEvents_cfg es _ v' Driver.Wp.initWp_cfg h m hm⟩

/-- An accepted `wp group seq n nb sync` line (all calls having been announced with their data) means that
the record count, batch count and sync flag the real code reported at its `w.group` hook are the model's
`gn`, `batches.length`, `gsync` — the quantities of `group_records_exact` and `group_sync`. -/
theorem validator_group_checked (v v' : Driver.Wp.WpState) (seq n nb : Nat) (sy : Bool) (hx : v.exact = true)
    (h : Driver.Wp.legalStep v (.group seq n nb (some sy)) = .ok v') :
    ∀ m' ∈ v'.ms, ∃ l, m'.ws[v.lead]? = some l ∧ l.gn = n ∧ l.batches.length = nb ∧ l.gsync = sy :=
  Driver.Wp.group_checked v v' seq n nb sy hx h

def theorems : List String :=
  ["GoLevel.C10.mutex", "GoLevel.C10.group_result", "GoLevel.C10.leader_result",
   "GoLevel.C10.exactly_one_result", "GoLevel.C10.handoff_exact", "GoLevel.C10.no_stuck_state",
   "GoLevel.C10.terminates", "GoLevel.C10.code_cfg", "GoLevel.C10.code_merge_limit_shape",
   "GoLevel.C10.group_sync", "GoLevel.C10.code_group_sync", "GoLevel.C10.seeded_sync_dropped",
   "GoLevel.C10.group_records_exact", "GoLevel.C10.seq_consumed", "GoLevel.C10.code_group_records_exact",
   "GoLevel.C10.seeded_stale_pooled_batch", "GoLevel.C10.caller_batch_untouched",
   "GoLevel.C10.seeded_caller_batch_modified", "GoLevel.C10.overflow_answered",
   "GoLevel.C10.seeded_overflow_not_answered", "GoLevel.C10.merge_within_limit",
   "GoLevel.C10.validator_sound", "GoLevel.C10.validator_group_checked"]

end GoLevel.C10
