import GoLevel.Proofs.Life
/-!
# Property C18 — ownership and lifecycle

"A storage can be owned by at most one open DB at a time and becomes available again after Close.  A DB opened
read-only never creates, modifies, renames or deletes any stored file, yet serves all previously written data
including data still only in the journal; a DB opened or switched to read-only rejects writes with a read-only
error, keeps serving reads, and once in-flight background work has drained mutates nothing further.  After Close
every method returns a closed error instead of crashing, hanging or touching storage; a second Close is harmless;
released snapshots and iterators report their own 'released' errors."

Model: `GoLevel/Model/Lifecycle.lean` — the method tables (`dbTable`, `snapTable`, `txTable`, `iterTable`: what
`db.go`, `db_write.go`, `db_snapshot.go`, `db_transaction.go`, `db_iter.go` return in each state), the machine of
one DB with its background loops (`St`, `step`, `run`: `db_compaction.go`), the machine of one storage and the
DBs competing for its lock (`Sys`).  The harness check C18 calls every method in every state on the real code
and compares class and storage mutations with the tables (`life …` lines), so the tables are *observed*; the
theorems below say what follows from them.  That data is served (journal-only data included) is checked on the
implementation only.

Where the code does not do what the property asks, the table records the code and the theorem lists the
exception explicitly (`closedExceptions`, `releasedExceptions`, `roWriteExceptions`,
`sharedRO_two_owners`, `heldIterator_unspecified`).  Five earlier exceptions
are gone because the repository was repaired (read-only `Open` with several journals, `NewIterator` racing `Close`,
`Snapshot.String` on a released snapshot, `Transaction.Write` of an empty batch on a finished transaction, table
compaction after `SetReadOnly` — D14, see `setReadOnly_quiesces_refuted_without_parking`): the
tables and theorems state the repaired behaviour, the old one is kept as a remark where it was recorded.

Calls racing `Close` (the last clause of the property; six defects found by wp40, D41–D46): the four that are a
wrong result of a single call are tied to the source by `code_close_race_repairs` below; the two that are about who
holds the write lock while `Close` runs are theorems of C09 (`readonly_no_write_after_close`,
`tx_close_no_live_transaction`, `tx_close_returns`, with their ties `code_keeps_lock`, `code_tx_registration`); the
check `c18race.go` exercises all six on the real code.
-/
namespace GoLevel.C18
open GoLevel.Life

/-! ## ownership -/

/-- On a storage with an exclusive lock (`memStorage`, read-write `fileStorage`, the harness storage), whatever
sequence of `Open` (read-write or read-only, succeeding or failing) and `Close` calls is made by whatever DBs:
at most one DB is open, and it is the holder of the lock. -/
theorem single_owner (evs : List SysEv) :
    ((Sys.run (Sys.init .exclusive) evs).1.opened.length ≤ 1)
    ∧ (Sys.run (Sys.init .exclusive) evs).1.owners = (Sys.run (Sys.init .exclusive) evs).1.opened := by
  have h := Sys.run_fst_inv (Sys.init .exclusive) evs Sys.init_inv
  exact ⟨h.2.2, h.2.1⟩

/-- non-vacuity: DB 1 opens, DB 2 is refused twice (read-write and read-only), DB 1 closes, closes again
(`ErrClosed`), DB 2 opens -/
example : Sys.run (Sys.init .exclusive) [.open 1 false 1, .open 2 false 1, .open 2 true 1, .close 1, .close 1, .open 2 true 1]
    = (⟨.exclusive, [2], [2]⟩, [.ok, .locked, .locked, .ok, .closed, .ok]) := by decide

/-- While a DB is open every further `Open` is refused with the lock error and changes nothing. -/
theorem second_open_refused (evs : List SysEv) (id : Nat) (ro : Bool) (j : Nat)
    (h : (Sys.run (Sys.init .exclusive) evs).1.opened ≠ []) :
    (Sys.run (Sys.init .exclusive) evs).1.step (.open id ro j) = ((Sys.run (Sys.init .exclusive) evs).1, .locked) := by
  have hi := Sys.run_fst_inv (Sys.init .exclusive) evs Sys.init_inv
  generalize (Sys.run (Sys.init .exclusive) evs).1 = s at *
  obtain ⟨hk, ho, _⟩ := hi
  have : s.canLock = false := by
    simp only [Sys.canLock, hk]
    rw [ho]
    cases hs : s.opened with
    | nil => exact absurd hs h
    | cons a l => rfl
  simp [Sys.step, this]

example : (Sys.run (Sys.init .exclusive) [.open 7 true 1]).1.step (.open 8 false 1)
    = (⟨.exclusive, [7], [7]⟩, .locked) := by decide

/-- After the owner's `Close` the storage is free: the next `Open` (read-write or read-only, whatever the number
`j` of journals it has to replay) succeeds and becomes the owner. -/
theorem available_after_close (evs : List SysEv) (id id' : Nat) (ro : Bool) (j : Nat)
    (h : (Sys.run (Sys.init .exclusive) evs).1.opened = [id]) :
    ((Sys.run (Sys.init .exclusive) evs).1.step (.close id)).2 = .ok
    ∧ ((Sys.run (Sys.init .exclusive) evs).1.step (.close id)).1.owners = []
    ∧ ((Sys.run (Sys.init .exclusive) evs).1.step (.close id)).1.opened = []
    ∧ ((((Sys.run (Sys.init .exclusive) evs).1.step (.close id)).1.step (.open id' ro j)).2 = .ok)
    ∧ ((((Sys.run (Sys.init .exclusive) evs).1.step (.close id)).1.step (.open id' ro j)).1.opened = [id']) := by
  have hi := Sys.run_fst_inv (Sys.init .exclusive) evs Sys.init_inv
  generalize (Sys.run (Sys.init .exclusive) evs).1 = s at *
  obtain ⟨hk, ho, _⟩ := hi
  have hc : s.opened.contains id = true := by rw [h]; simp
  have h1 : (s.step (.close id)) = ({ s with owners := s.owners.erase id, opened := s.opened.erase id }, .ok) := by
    simp only [Sys.step, hc, if_true]
  rw [h1]
  have he : s.owners.erase id = [] := by rw [ho, h]; simp
  have he' : s.opened.erase id = [] := by rw [h]; simp
  refine ⟨rfl, he, he', ?_, ?_⟩ <;>
    cases ro <;> simp [Sys.step, Sys.canLock, hk, he, he', openCls]

example : (((Sys.run (Sys.init .exclusive) [.open 1 false 1]).1.step (.close 1)).1.step (.open 2 true 1))
    = (⟨.exclusive, [2], [2]⟩, .ok) := by decide

/-- The code as it is: a `fileStorage` opened read-only hands out a dummy lock, so two (read-only) DBs can be
open on the same storage object at the same time — `single_owner` is about exclusive locks only. -/
theorem sharedRO_two_owners :
    (Sys.run (Sys.init .sharedRO) [.open 1 true 1, .open 2 true 1]).1.opened = [2, 1] := by decide

/-- A read-only `Open` of a free storage succeeds whatever the number of journals it has to replay (a frozen
buffer that was still unflushed at `Close` leaves two), becomes the owner, and issues no mutating storage action
while opening; that it then serves exactly the data written before — journal-only data included — is checked on
the implementation by the harness.  (Remark: before the repair of `recoverJournalRO` such an `Open` failed with
`io.EOF` as soon as two journals had to be replayed — the finding `openRO:eof-two-journals`.) -/
theorem openRO_any_journals (k : LockKind) (id j : Nat) :
    (Sys.init k).step (.open id true j) = (⟨k, [id], [id]⟩, .ok)
    ∧ (openActs true).all (fun a => !a.mutating) = true
    ∧ (opened true 0).mode = .openRO := by
  refine ⟨?_, by decide, rfl⟩
  cases k <;> simp [Sys.init, Sys.step, Sys.canLock, openCls]

example : Sys.run (Sys.init .exclusive) [.open 1 true 2, .close 1, .open 2 true 3, .open 3 false 1]
      = (⟨.exclusive, [2], [2]⟩, [.ok, .ok, .ok, .locked]) := by decide

/-! ## closed -/

/-- Methods without an error result: nothing to return a closed error through. -/
def voidMethods : List (String × String) :=
  [("Snapshot", "Release"), ("Snapshot", "String"), ("Transaction", "Discard"), ("Iterator", "Release"),
   ("Iterator", "Valid"), ("Iterator", "Key"), ("Iterator", "Value"), ("Iterator", "SetReleaser")]

/-- After `Close`, `Discard` has no error result.  (`Write` of an empty batch used to be listed here too: it
returned nil before looking at anything; repaired, it now reports the finished transaction.) -/
def closedExceptions : List TxM := [.discard]

/-- After `Close`: every `DB` method returns `ErrClosed` (so does a second `Close`); no event — method call on the
DB or on any handle, background step — emits any storage action or changes the state; snapshots still held
return `ErrClosed` from every method that has an error result; transactions (the open one was discarded by
`Close`) return their own done-error or `ErrClosed`, except for `closedExceptions`; no table entry allows a
mutation. -/
theorem closed_is_closed :
    (∀ tx m, dbTable .closed tx m = ⟨.closed, [], false⟩)
    ∧ (∀ (c : Cfg) (s : St) (e : Ev), s.mode = .closed → (step c s e).st = s ∧ (step c s e).acts = [])
    ∧ (∀ (c : Cfg) (s : St) (m : DBm) (p : Nat), s.mode = .closed → (step c s (.db m p)).cls = .closed)
    ∧ (∀ m, m ≠ .release → m ≠ .string → snapTable .closed .live m = ⟨.closed, [], false⟩)
    ∧ (∀ t m, t ≠ .none → m ∉ closedExceptions →
        (txTable .closed t m).cls = .txdone ∨ (txTable .closed t m).cls = .closed)
    ∧ (∀ h m, (snapTable .closed h m).mutates = false) ∧ (∀ t m, (txTable .closed t m).mutates = false)
    ∧ (∀ h m, (iterTable .closed h m).mutates = false) := by
  refine ⟨?_, ?_, ?_, ?_, ?_, ?_, ?_, ?_⟩
  · intro tx m; rfl
  · intro c s e hm
    exact step_closed c s e hm
  · intro c s m p hm
    obtain ⟨mode, bg, frozen, due, pins, tx, running⟩ := s
    simp only at hm; subst hm
    simp [step, stepDB, dbTable]
  · intro m h1 h2; cases m <;> first | decide | simp_all
  · intro t m ht hm
    cases t <;> cases m <;> first | decide | simp_all [closedExceptions]
  · intro h m; cases h <;> cases m <;> decide
  · intro t m; cases t <;> cases m <;> decide
  · intro h m; cases h <;> cases m <;> decide

/-- non-vacuity: close an open DB with an open transaction, then call things -/
example : (run ⟨true, false⟩ ⟨.openRW, true, true, 2, 0, .live, false⟩
      [.db .close 1, .db .close 0, .db .get 1, .db .put 1, .tx .get 0, .tx .commit 0, .bgFlush 1, .bgCompact 1,
       .snap .live .get 1, .iter .live .next 1]).2 = [.remove, .remove, .closeFile, .unlock] := by decide
example : (step ⟨true, false⟩ ⟨.closed, false, true, 2, 0, .discarded, false⟩ (.db .close 0)).cls = .closed := by decide
/-- the transaction that was open at `Close` has been discarded by it: even an empty `Write` says so -/
example : (txTable .closed .live .writeEmpty).cls = .txdone ∧ (txTable .closed .live .discard).cls = .ok := by decide

/-- The code as it is: an iterator that is still held when the DB is closed (which the documentation of `Close`
declares not safe) is not covered: moves may succeed, report `ErrClosed` or `table.ErrReaderReleased`, report a bogus corruption error or panic. -/
theorem heldIterator_unspecified (m : IterM) (h : m.isMove = true) :
    iterTable .closed .live m = ⟨.ok, [.closed, .released, .other, .panic], false⟩ := by
  cases m <;> first | decide | simp_all [IterM.isMove]

/-! ## released handles -/

/-- What released / finished handles do that is not "their own error": `Snapshot.String` has no error result
(it prints `leveldb.Snapshot{released}`; it used to panic on the nil `snap.elem`: repaired); `SetReleaser` on a
released iterator panics (documented for `util.ReleaseSetter`); `Release`/`Discard` again are no-ops; `Commit`
of a finished transaction after `Close` returns `ErrClosed`; and on a released iterator `Valid`/`Key`/`Value`/
`Error` report nothing until a move is attempted (`it.Release(); it.Error()` is the documented idiom).
(`Transaction.Write` of an empty batch used to be listed: repaired, it answers the done-error.) -/
def releasedExceptions : List (String × String) :=
  [("Snapshot", "String"), ("Snapshot", "Release"), ("Iterator", "SetReleaser"), ("Iterator", "Release"),
   ("Iterator", "Valid"), ("Iterator", "Key"), ("Iterator", "Value"), ("Iterator", "Error"),
   ("Transaction", "Discard"), ("Transaction", "Commit")]

/-- In every mode of the DB: a released snapshot answers `ErrSnapshotReleased` (the iterator it hands out carries
that error); a released iterator answers `ErrIterReleased` to every move, and from then on through `Error()`;
a committed or discarded transaction answers its done-error; none of this touches storage.  The remaining
methods are `releasedExceptions`, and what they do is stated too. -/
theorem released_handles (mode : Mode) :
    (∀ m, m ≠ .release → m ≠ .string → snapTable mode .released m = ⟨.released, [], false⟩)
    ∧ snapTable mode .released .release = ⟨.ok, [], false⟩
    ∧ snapTable mode .released .string = ⟨.ok, [], false⟩
    ∧ (∀ m, m.isMove = true → iterTable mode .released m = ⟨.released, [], false⟩)
    ∧ (∀ m, m.isMove = false → m ≠ .setReleaser → iterTable mode .released m = ⟨.ok, [], false⟩)
    ∧ (∀ m, m ≠ .setReleaser → iterTable mode .releasedUsed m = ⟨.released, [], false⟩)
    ∧ (∀ h, h ≠ .live → iterTable mode h .setReleaser = ⟨.panic, [], false⟩)
    ∧ (∀ t m, t.done = true → m ≠ .discard → m ≠ .commit →
        txTable mode t m = ⟨.txdone, [], false⟩)
    ∧ (∀ t, t.done = true → txTable mode t .discard = ⟨.ok, [], false⟩
        ∧ txTable mode t .commit = ⟨if mode = .closed then .closed else .txdone, [], false⟩) := by
  refine ⟨?_, ?_, ?_, ?_, ?_, ?_, ?_, ?_, ?_⟩
  · intro m h1 h2; cases m <;> first | rfl | simp_all
  · rfl
  · rfl
  · intro m h; cases m <;> first | rfl | simp_all [IterM.isMove]
  · intro m h1 h2; cases m <;> first | rfl | simp_all [IterM.isMove]
  · intro m h; cases m <;> first | rfl | simp_all
  · intro h hl; cases h <;> first | rfl | simp_all
  · intro t m ht h1 h2
    cases t <;> cases m <;> cases mode <;> first | rfl | simp_all [TxSt.done]
  · intro t ht
    cases t <;> cases mode <;> first | decide | simp_all [TxSt.done]

example : snapTable .openRW .released .get = ⟨.released, [], false⟩ := by decide
example : iterTable .switchedRO .released .seek = ⟨.released, [], false⟩ := by decide
example : iterTable .openRO .released .error = ⟨.ok, [], false⟩ ∧ iterTable .openRO .releasedUsed .error = ⟨.released, [], false⟩ := by decide
example : txTable .openRW .committed .put = ⟨.txdone, [], false⟩ := by decide
example : txTable .openRW .discarded .writeEmpty = ⟨.txdone, [], false⟩ ∧ snapTable .closed .released .string = ⟨.ok, [], false⟩ := by decide

/-! ## read-only -/

/-- `Write` of an empty or nil batch is not rejected on a read-only DB: it returns nil before the mode is looked
at (nothing is written). -/
def roWriteExceptions : List DBm := [.writeEmpty, .writeNil]

/-- A DB opened or switched to read-only rejects every method that would change data or layout with
`ErrReadOnly` (a second `SetReadOnly` too), and answers the reading methods as an open DB does. -/
theorem ro_rejects_writes (mode : Mode) (h : mode = .openRO ∨ mode = .switchedRO) (tx : Bool) :
    (∀ m, m.isWrite = true → (dbTable mode tx m).cls = .readonly ∧ (dbTable mode tx m).mutates = false)
    ∧ (dbTable mode tx .setReadOnly).cls = .readonly
    ∧ (∀ m, m.isWrite = false → m ≠ .setReadOnly → m ≠ .close → (dbTable mode tx m).cls = readCls m)
    ∧ (∀ m ∈ roWriteExceptions, (dbTable mode tx m).cls = .ok ∧ (dbTable mode tx m).mutates = false) := by
  have hex : ∀ mode' : Mode, ∀ m ∈ roWriteExceptions, mode' = .openRO ∨ mode' = .switchedRO →
      (dbTable mode' tx m).cls = .ok ∧ (dbTable mode' tx m).mutates = false := by
    intro mode' m hm hmode
    simp only [roWriteExceptions, List.mem_cons, List.mem_nil_iff, or_false] at hm
    rcases hmode with h | h <;> subst h <;> rcases hm with hm | hm <;> subst hm <;> exact ⟨rfl, rfl⟩
  refine ⟨?_, ?_, ?_, fun m hm => hex mode m hm h⟩
  · intro m hm
    rcases h with h | h <;> subst h <;> cases m <;> first | exact ⟨rfl, rfl⟩ | simp_all [DBm.isWrite]
  · rcases h with h | h <;> subst h <;> rfl
  · intro m h1 h2 h3
    rcases h with h | h <;> subst h <;> cases m <;> first | rfl | simp_all [DBm.isWrite]

example : (dbTable .openRO false .put).cls = .readonly ∧ (dbTable .switchedRO false .compactRange).cls = .readonly
    ∧ (dbTable .openRO false .get).cls = .ok ∧ (dbTable .switchedRO false .getMiss).cls = .notfound := by decide

/-- From a DB opened read-only, no reachable step — any method of the DB or of any snapshot, transaction or
iterator handle with any argument behaviour, any background event, `Close`, and anything after it — emits
`create`, `write`, `sync`, `remove`, `rename` or `setMeta`; neither does the read-only `Open` itself. -/
theorem ro_no_mutation (c : Cfg) (due : Nat) (es : List Ev) :
    (∀ a ∈ openActs true, a.mutating = false)
    ∧ (∀ a ∈ (run c (opened true due) es).2, a.mutating = false) := by
  refine ⟨by decide, ?_⟩
  have h0 : RoInv (opened true due) := ⟨Or.inl rfl, rfl, rfl, by simp [opened]⟩
  exact (run_inv c RoInv (fun _ => True) (fun a => a.mutating = false)
    (fun s e hI _ => RoInv_step c s e hI) _ es h0 (fun _ _ => trivial)).2

/-- non-vacuity: a read-only session with writes refused, reads that exhaust seek allowances, handles, background
events and `Close` emits only non-mutating actions — and some actions are emitted -/
example : (run ⟨true, false⟩ (opened true 3)
      [.db .put 1, .db .get 1, .db .sizeOf 0, .snap .live .get 1, .iter .live .next 1, .iter .live .release 1,
       .bgCompact 1, .bgFlush 1, .db .openTransaction 1, .tx .put 1, .db .close 0, .db .get 0]).2
    = [.open, .read, .closeFile, .unlock] := by decide
/-- the same events on a DB that is open read-write do mutate -/
example : nMut (run ⟨true, false⟩ (opened false 3)
      [.db .put 1, .db .get 1, .bgCompact 1, .bgFlush 1]).2 > 0 := by decide

/-! ## SetReadOnly -/

/-- `SetReadOnly` on an open DB without an open transaction: the DB is read-only from then on; what the
background loops had to do is unchanged (the call does not wait for it; `p > 0` says that one of the due table
compactions is running at that moment).  With an open transaction it blocks. -/
theorem setReadOnly_enters (c : Cfg) (s : St) (p : Nat) (hm : s.mode = .openRW) :
    (s.tx ≠ .live → (step c s (.db .setReadOnly p)).st =
          { s with mode := .switchedRO, running := s.bg && decide (p > 0) && decide (s.due > 0) }
        ∧ (step c s (.db .setReadOnly p)).cls = .ok ∧ (step c s (.db .setReadOnly p)).acts = [])
    ∧ (s.tx = .live → (step c s (.db .setReadOnly p)).st = s ∧ (step c s (.db .setReadOnly p)).cls = .blocks) := by
  obtain ⟨mode, bg, frozen, due, pins, tx, running⟩ := s
  simp only at hm; subst hm
  cases tx <;> simp [step, stepDB, stepRW, dbTable, DBm.needsWriteLock, DBm.isWrite, DBm.isRead]

/-- The events that complete the work that was in flight when `SetReadOnly` was called: the pending flush, the
table compaction that was running (when `tCompaction` does not park: every due compaction — none of which makes
another one due or is deferred), the release of the iterators that pin replaced tables. -/
def drainEvents (c : Cfg) (s : St) : List Ev :=
  [.bgFlush 0] ++ (if c.parks then [.bgCompact 0] else List.replicate s.due (.bgCompact 0))
    ++ List.replicate s.pins (.iter .live .release 1)

/-- no seek-triggered compaction can start: the option is off, or no read of the history exhausts an allowance -/
def NoSeekTrigger (c : Cfg) (es : List Ev) : Prop := c.seeks = false ∨ ∀ e ∈ es, e.seekHit = false

/-- **FULL statement, for a `tCompaction` that parks once the DB is read-only** (`c.parks`).  After `SetReadOnly`
and the completion of the work that was in flight (`s.settled`: the pending flush has completed, the table
compaction that was running has completed, no replaced tables are still pinned by an iterator — compactions may
well be *due*), whatever is called afterwards — every method of the DB and of every snapshot, transaction and
iterator handle with any argument behaviour, INCLUDING reads that exhaust seek allowances, background events,
`Close` and anything after it — no `create`/`write`/`sync`/`remove`/`rename`/`setMeta` is emitted, and the state
stays settled.  No assumption on the events.  What is modelled: `mCompaction` completes a pending flush whatever
the mode; `tCompaction` consults the read-only flag before it starts anything; writers are refused before they
reach the journal; reads charge seeks (`due` grows) but nobody acts on it. -/
theorem setReadOnly_quiesces (c : Cfg) (hc : c.parks = true) (s : St) (es : List Ev)
    (hm : s.mode = .switchedRO) (ht : s.tx ≠ .live) (hd : s.settled = true) :
    (∀ a ∈ (run c s es).2, a.mutating = false) ∧ (run c s es).1.settled = true := by
  have h := run_inv c PkInv (fun _ => True) (fun a => a.mutating = false)
    (fun s e hI _ => PkInv_step c hc s e hI) s es ⟨Or.inl hm, hd, ht⟩ (fun _ _ => trivial)
  exact ⟨h.2, h.1.2.1⟩

/-- The code as it is parks (`Gen.roCompactionParks`, regenerated from `tCompaction`/`SetReadOnly` on every run:
un-fixing the source turns the fact to `false` and breaks this proof): the full statement holds for the code's
configuration, with seek compaction enabled or not. -/
theorem code_setReadOnly_quiesces (seeks : Bool) (s : St) (es : List Ev)
    (hm : s.mode = .switchedRO) (ht : s.tx ≠ .live) (hd : s.settled = true) :
    (∀ a ∈ (run (codeCfg seeks) s es).2, a.mutating = false) ∧ (run (codeCfg seeks) s es).1.settled = true :=
  setReadOnly_quiesces (codeCfg seeks) (show Gen.roCompactionParks = true by decide) s es hm ht hd

/-- non-vacuity: SetReadOnly with a flush pending, two compactions due of which one is running, and one pinned
table set; the drain mutates and settles with a compaction still due; afterwards a long history of calls —
reads that exhaust seek allowances and wake-ups of `tCompaction` included — mutates nothing -/
example :
    let c := codeCfg true
    let s1 := (run c ⟨.openRW, true, true, 2, 1, .committed, false⟩ [.db .setReadOnly 1]).1
    let s2 := (run c s1 (drainEvents c s1)).1
    s1.mode = .switchedRO ∧ s1.running = true ∧ nMut (run c s1 (drainEvents c s1)).2 > 0
    ∧ s2.settled = true ∧ s2.due = 1
    ∧ (run c s2 [.db .get 1, .bgCompact 0, .snap .live .get 1, .bgCompact 1, .iter .live .next 1, .bgCompact 2,
          .db .put 1, .db .compactRange 1, .iter .live .release 1, .bgFlush 1, .tx .put 1, .db .close 0,
          .db .get 1]).2 = [.closeFile, .unlock] := by decide

/-- The drain completes the work in flight (parking loop): flush, the running compaction, the pinned tables. -/
theorem drain_settles (c : Cfg) (hc : c.parks = true) (s : St) (hm : s.mode = .switchedRO) (hb : s.bg = true) :
    (run c s (drainEvents c s)).1.settled = true ∧ (run c s (drainEvents c s)).1.mode = .switchedRO := by
  obtain ⟨mode, bg, frozen, due, pins, tx, running⟩ := s
  simp only at hm hb; subst hm hb
  simp only [drainEvents, hc, if_true]
  rw [run_fst_append, run_fst_append, run_flush, run_finish_running c hc, run_unpins]
  exact ⟨by simp [St.settled], rfl⟩

/-! ### the loop as it was before the repair (record of D14) -/

/-- the statement `setReadOnly_quiesces` for one configuration, with "drained" (nothing due either) as the
premise — the most that could be asked of a loop that does not park -/
def QuiescesFrom (c : Cfg) : Prop :=
  ∀ (s : St) (es : List Ev), s.mode = .switchedRO → s.tx ≠ .live → s.drained = true →
    ∀ a ∈ (run c s es).2, a.mutating = false

/-- Whatever the configuration: after `SetReadOnly`, once the work in flight has completed and nothing is due
(`s.drained`), and **assuming that no read starts a seek-triggered compaction** (`NoSeekTrigger`:
`DisableSeeksCompaction`, or no read exhausts a table's seek allowance), no mutating storage action is emitted
and the DB stays drained.  This is all that held for the loop that did not look at the read-only state. -/
theorem setReadOnly_quiesces_partial (c : Cfg) (s : St) (es : List Ev)
    (hm : s.mode = .switchedRO) (ht : s.tx ≠ .live) (hd : s.drained = true) (hq : NoSeekTrigger c es) :
    (∀ a ∈ (run c s es).2, a.mutating = false) ∧ (run c s es).1.drained = true := by
  have h := run_inv c SwInv (fun e => c.seeks = false ∨ e.seekHit = false) (fun a => a.mutating = false)
    (fun s e hI hQ => SwInv_step c s e hI hQ) s es ⟨Or.inl hm, hd, ht⟩
    (by
      intro e he
      rcases hq with hq | hq
      · exact Or.inl hq
      · exact Or.inr (hq e he))
  exact ⟨h.2, h.1.2.1⟩

/-- The drain completes the work in flight when nothing new becomes due during it (loop that does not park). -/
theorem drain_completes (c : Cfg) (hc : c.parks = false) (s : St) (hm : s.mode = .switchedRO) (hb : s.bg = true)
    (hr : s.running = true → s.due > 0) :
    (run c s (drainEvents c s)).1.drained = true ∧ (run c s (drainEvents c s)).1.mode = .switchedRO := by
  obtain ⟨mode, bg, frozen, due, pins, tx, running⟩ := s
  simp only at hm hb hr; subst hm hb
  simp only [drainEvents, hc, Bool.false_eq_true, if_false]
  rw [run_fst_append, run_fst_append, run_flush, run_compacts c hc _ _ _ _ hr, run_unpins]
  exact ⟨by simp [St.drained], rfl⟩

/-- Record of D14 (repaired in the repository; `code_setReadOnly_quiesces` is the statement for the code as it is
now): with a `tCompaction` that does not consult the read-only state and seek compaction enabled, a drained,
switched-to-read-only DB does not stay quiet — one read that exhausts a seek allowance makes the loop run a
compaction, creating, writing, syncing and removing files.  With parking the same history is silent. -/
theorem setReadOnly_quiesces_refuted_without_parking :
    ¬ QuiescesFrom ⟨true, false⟩ ∧ QuiescesFrom ⟨true, true⟩ := by
  constructor
  · intro h
    have := h ⟨.switchedRO, true, false, 0, 0, .none, false⟩ [.db .get 1, .bgCompact 0] rfl (by decide) rfl
      .create (by decide)
    exact absurd this (by decide)
  · intro s es hm ht hd
    have hs : s.settled = true := by
      have := (drained_iff s).mp hd
      simp [St.settled, this.1, this.2.2.1, this.2.2.2]
    exact (setReadOnly_quiesces ⟨true, true⟩ rfl s es hm ht hs).1

example : nMut (run ⟨true, false⟩ ⟨.switchedRO, true, false, 0, 0, .none, false⟩ [.db .get 1, .bgCompact 0]).2 > 0
    ∧ nMut (run (codeCfg true) ⟨.switchedRO, true, false, 0, 0, .none, false⟩ [.db .get 1, .bgCompact 0]).2 = 0 := by
  decide

/-! ## the tables and the machine agree -/

/-- background work a state still enables (a due compaction counts only where `tCompaction` would start it) -/
def bgWork (c : Cfg) (s : St) : Nat :=
  if s.bg && s.mode != .closed then
    b2n s.frozen + (if c.parks && s.mode == .switchedRO then b2n s.running else s.due) + s.pins
  else 0

/-- reachable shape: a DB opened read-only has no background goroutines and pins nothing; a live transaction
exists only on an open read-write DB -/
def Wf (s : St) : Prop := (s.mode = .openRO → s.bg = false ∧ s.pins = 0) ∧ txReachable s.mode s.tx = true

theorem bgWork_nobg (c : Cfg) (s : St) (h : s.bg = false) : bgWork c s = 0 := by simp [bgWork, h]
theorem bgWork_charge_nobg (c : Cfg) (s : St) (b : Bool) (h : s.bg = false) : bgWork c (chargeSeek c s b) = 0 :=
  bgWork_nobg _ _ (by rw [chargeSeek_bg]; exact h)


theorem b2n_and_le (p due : Nat) : b2n (decide (0 < p) && decide (0 < due)) ≤ due := by
  by_cases h : 0 < due <;> by_cases hp : 0 < p <;> simp [b2n, h, hp] <;> omega

/-- under a parking loop a charged seek enables nothing on a DB that was switched to read-only -/
theorem bgWork_charge_parked (seeks : Bool) (s : St) (b : Bool) (hm : s.mode = .switchedRO) :
    bgWork ⟨seeks, true⟩ (chargeSeek ⟨seeks, true⟩ s b) = bgWork ⟨seeks, true⟩ s := by
  unfold chargeSeek
  split <;> simp [bgWork, hm]

/-- The machine returns the class of the table, and a table entry "does not mutate" means for the machine: the
call emits no mutating action and leaves no more background work enabled than there was.  (This is the link
between the `life` lines, which test the tables against the implementation, and the machine theorems.)  The tables
describe the code as it is, so the machine is taken in a configuration that agrees with the code on whether
`tCompaction` parks. -/
theorem table_sound (c : Cfg) (hcfg : c.parks = Gen.roCompactionParks) (s : St) (m : DBm) (p : Nat) (hw : Wf s) :
    (step c s (.db m p)).cls = (dbTable s.mode (s.tx == .live) m).cls
    ∧ ((dbTable s.mode (s.tx == .live) m).mutates = false →
        (∀ a ∈ (step c s (.db m p)).acts, a.mutating = false) ∧ bgWork c (step c s (.db m p)).st ≤ bgWork c s) := by
  obtain ⟨mode, bg, frozen, due, pins, tx, running⟩ := s
  obtain ⟨h1, h2⟩ := hw
  simp only at h1 h2
  constructor
  · cases mode
    · simp only [step, stepDB]
      split
      · rename_i h; simp only [Bool.and_eq_true] at h; simp [h.1]
      · exact stepRW_cls _ _ _ _ _
    · simp only [step, stepDB]; exact stepRO_cls _ _ _ _ _
    · simp only [step, stepDB]; exact stepRO_cls _ _ _ _ _
    · simp [step, stepDB]
  · intro hmut
    cases mode
    · -- openRW
      cases m <;> cases tx <;>
        simp_all [step, stepDB, stepRW, dbTable, DBm.needsWriteLock, DBm.isWrite, DBm.isRead, chargeSeek, bgWork,
          Act.mutating, readCls]
      all_goals
        have := b2n_and_le p due
        cases bg <;> simp
        split <;> omega
    · -- openRO
      have hb := (h1 rfl).1
      have hp := (h1 rfl).2
      subst hb hp
      cases m <;> cases tx <;>
        simp_all [step, stepDB, stepRO, closeRes, dbTable, DBm.isRead, DBm.needsWriteLock, DBm.isWrite, bgWork_charge_nobg, bgWork_nobg, TxSt.afterClose, readCls,
          Act.mutating, txReachable]
    · -- switchedRO
      obtain ⟨seeks, parks⟩ := c
      simp only at hcfg; subst hcfg
      have hb : Gen.roCompactionParks = true ∨ Gen.roCompactionParks = false := by
        cases Gen.roCompactionParks <;> simp
      rcases hb with hb | hb
      · -- the loop parks: a read charges a seek and nothing comes of it
        rw [hb]
        by_cases hcl : m = .close
        · subst hcl; simp [dbTable] at hmut
        · by_cases hsz : m = .sizeOf
          · subst hsz; simp [step, stepDB, stepRO, Act.mutating]
          · simp only [step, stepDB, stepRO, hcl, hsz, if_false]
            exact ⟨by simp, Nat.le_of_eq (bgWork_charge_parked seeks _ _ rfl)⟩
      · -- the loop does not park: reads are entered as "may mutate"
        rw [hb]
        cases m <;> cases tx <;>
          simp_all [step, stepDB, stepRO, dbTable, DBm.isRead, DBm.needsWriteLock, DBm.isWrite, chargeSeek, bgWork, readCls,
            Act.mutating, txReachable, roReadsWakeCompaction]
    · -- closed
      simp [step, stepDB, bgWork]

example : Wf (opened true 2) ∧ Wf (opened false 2) := by
  refine ⟨⟨fun _ => ⟨rfl, rfl⟩, rfl⟩, ⟨fun h => ?_, rfl⟩⟩
  simp [opened] at h
/-- non-vacuity: an entry that does not mutate, and one that may -/
example : (dbTable .openRO false .get).mutates = false ∧ (dbTable .switchedRO false .get).mutates = false
    ∧ (dbTable .switchedRO false .close).mutates = true
    ∧ (dbTable .openRW false .put).mutates = true := by decide

/-- The "closed" row of the method table rests on every public `*DB` method checking `db.ok()` before it touches
anything (the extractor lists the exported methods of `*DB` from the AST on every run and requires the check in
the first statement; `Put`/`Delete` go through `putRec`, `Close` flips the flag itself): a method added or rewritten
without the check turns the fact false. -/
theorem code_methods_guarded : Gen.lifeDBMethodsGuarded = true := by decide

/-! ## calls racing `Close` (wp40 / wp51)

"… concurrent calls racing with Close either complete normally or return the closed error."  A call that passed
`db.ok()` before `Close` set the flag goes on while `Close` tears the DB down; what it meets there is listed below,
one line per thing `Close` takes away, with what the call then returns as a function of one source fact each
(`RaceCfg`; `true` = the repaired source).  The harness check C18 (`c18race.go`) drives exactly these races on the real
code at yield points and accepts only `normal` (with a correct answer) and `closed`. -/

/-- what a call that overlaps `Close` can come back with -/
inductive RaceOutcome | normal | closed | internalError | madeUpAnswer | panic
deriving DecidableEq, Repr

/-- what `Close` has already taken away when the call gets there -/
inductive RaceWindow
  /-- `Cache.Close` has stored nil into the bucket table (`DB.Stats` → `Cache.GetStats`) -/
  | cacheClosed
  /-- `fileCache.Close(true)` has released the table reader under the handle the call holds (`Get`, `Has`, `SizeOf`,
  iterators: `tOps.find` / `findKey` / `offsetOf`, `dbIter.iterErr`) -/
  | readerReleased
  /-- `session.close` has installed the empty stand-in version (`SizeOf`, `GetProperty`, `Stats` after `db.ok()`) -/
  | closingVersion
  /-- the released reader's preloaded index block is walked by an iterator created while `Close` ran (no block cache) -/
  | indexBlockWalked
deriving DecidableEq, Repr

structure RaceCfg where
  getStatsNilSafe : Bool
  readerReleasedIsClosed : Bool
  closingVersionIsClosed : Bool
  releaseKeepsIndexBlock : Bool
deriving DecidableEq, Repr

/-- the source as it is now (regenerated facts) -/
def codeRaceCfg : RaceCfg :=
  ⟨Gen.lifeGetStatsNilSafe, Gen.lifeReaderReleasedIsClosed, Gen.lifeClosingVersionIsClosed,
   Gen.lifeReleaseKeepsIndexBlock⟩

/-- the source as found by wp40 (98bd5c2) -/
def RaceCfg.asFound : RaceCfg := ⟨false, false, false, false⟩

def raceOutcome (c : RaceCfg) : RaceWindow → RaceOutcome
  | .cacheClosed => if c.getStatsNilSafe then .normal else .panic
  | .readerReleased => if c.readerReleasedIsClosed then .closed else .internalError
  | .closingVersion => if c.closingVersionIsClosed then .closed else .madeUpAnswer
  | .indexBlockWalked =>
    if c.releaseKeepsIndexBlock then (if c.readerReleasedIsClosed then .closed else .internalError) else .panic

/-- **the tie of the repairs of D41, D44, D45, D46**: `Cache.GetStats` checks the loaded bucket-table pointer for nil;
`tOps.find` / `findKey` / `offsetOf` and `dbIter.iterErr` map `table.ErrReaderReleased` to `ErrClosed`; `GetProperty`,
`Stats` and `SizeOf` return `ErrClosed` on the stand-in version of a closed session before they read its levels;
`table.Reader.Release` does not recycle the preloaded index block (regenerated facts `lifeGetStatsNilSafe`,
`lifeReaderReleasedIsClosed`, `lifeClosingVersionIsClosed`, `lifeReleaseKeepsIndexBlock`: each turns false when its
repair is reverted) — hence in each of the four windows the call completes normally or returns the closed error. -/
theorem code_close_race_repairs :
    codeRaceCfg = ⟨true, true, true, true⟩ ∧
    ∀ w, raceOutcome codeRaceCfg w = .normal ∨ raceOutcome codeRaceCfg w = .closed := by
  refine ⟨by decide, fun w => ?_⟩
  cases w <;> decide

/-- **Close does not wait on a leaked lock.**  `Close` acquires the write lock (or learns that the error goroutine keeps
it); every error return of the calls that take it gives it back — the regenerated lock-release facts that C09's
theorems are built on (`C09.code_all_fixed`): `Transaction.Commit` unlocks `compCommitLk` on its error returns,
`OpenTransaction` returns the token on each of its error returns (also the one behind `waitCompaction`, taken when
`Close` or a compaction error arrives while it waits at the level-0 pause trigger), `DB.Write` discards its internal
transaction after a failed commit, `SetReadOnly` gives the token back when `Close` overtakes it, and `Close` selects
on `compLockedC`.  A change that drops one of these releases turns the fact false. -/
theorem code_error_paths_release_the_lock :
    Gen.lkCommitUnlocksOnError = true ∧ Gen.lkOpenTxReleasesOnError = true ∧
    Gen.lkLargeBatchDiscardsOnCommitError = true ∧ Gen.lkSetReadOnlyReleasesOnClose = true ∧
    Gen.lkCloseSelectsCompLocked = true := by decide

/-- every one of the four facts is needed: without it some window yields a panic, an internal error or a made-up
answer (the source as found: all four) -/
theorem close_race_repairs_needed (c : RaceCfg) :
    (∀ w, raceOutcome c w = .normal ∨ raceOutcome c w = .closed) ↔ c = ⟨true, true, true, true⟩ := by
  obtain ⟨a, b, d, e⟩ := c
  constructor
  · intro h
    have h1 := h .cacheClosed; have h2 := h .readerReleased; have h3 := h .closingVersion; have h4 := h .indexBlockWalked
    cases a <;> cases b <;> cases d <;> cases e <;> simp_all [raceOutcome]
  · intro h; cases h; intro w; cases w <;> decide

example : raceOutcome RaceCfg.asFound .cacheClosed = .panic ∧ raceOutcome RaceCfg.asFound .readerReleased = .internalError ∧
    raceOutcome RaceCfg.asFound .closingVersion = .madeUpAnswer ∧ raceOutcome RaceCfg.asFound .indexBlockWalked = .panic := by
  decide

end GoLevel.C18

namespace GoLevel
def C18.theorems : List String :=
  ["GoLevel.C18.single_owner", "GoLevel.C18.second_open_refused", "GoLevel.C18.available_after_close",
   "GoLevel.C18.sharedRO_two_owners", "GoLevel.C18.openRO_any_journals",
   "GoLevel.C18.closed_is_closed", "GoLevel.C18.heldIterator_unspecified", "GoLevel.C18.released_handles",
   "GoLevel.C18.ro_rejects_writes", "GoLevel.C18.ro_no_mutation",
   "GoLevel.C18.setReadOnly_enters", "GoLevel.C18.setReadOnly_quiesces", "GoLevel.C18.code_setReadOnly_quiesces",
   "GoLevel.C18.drain_settles", "GoLevel.C18.setReadOnly_quiesces_partial", "GoLevel.C18.drain_completes",
   "GoLevel.C18.setReadOnly_quiesces_refuted_without_parking", "GoLevel.C18.table_sound",
   "GoLevel.C18.code_methods_guarded", "GoLevel.C18.code_error_paths_release_the_lock", "GoLevel.C18.code_close_race_repairs",
   "GoLevel.C18.close_race_repairs_needed"]
end GoLevel
