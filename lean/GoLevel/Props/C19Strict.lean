import GoLevel.Proofs.Strict
/-!
# C19 — the strict level `Recover` rebuilds tables with

Model: `GoLevel/Model/Strict.lean`; lemmas: `GoLevel/Proofs/Strict.lean`.  C19 promises that a damaged block costs only its
own entries; that rests on `recoverTable` reading tables with a NON-strict reader whatever `Options.Strict` says.  For
every one of the 2⁶⁴ values of `Options.Strict`:

* `recover_reader_never_strict` — the options `recoverTable` hands its readers never answer `GetStrict(StrictReader)` with
  true;
* `recover_keeps_other_flags` — every other flag of `StrictAll` is answered as the user's own options answer it
  (block checksums stay on exactly when the user had them on, …);
* `as_found_reader_strict_again` — without the zero repair `Options.Strict = StrictReader` made the reader strict again
  (defect D58, exhibited on the code by `recover:strict-reader-only:undamaged-blocks-lost`);
* `code_recover_reader_never_strict` — the facts regenerated from `db.go`, `options.go`, `opt/options.go` say the code
  has the repaired shape, so the first theorem is about the code as it is.
-/
namespace GoLevel.C19Strict
open GoLevel GoLevel.Strict

theorem reader_is_bit5 : Gen.optStrictReader = 2 ^ 5 := by decide

theorem recover_reader_never_strict (s : Nat) : getStrict (recoverStrict true s) Gen.optStrictReader = false := by
  rw [reader_is_bit5]
  unfold recoverStrict
  simp only [Bool.true_and, reader_is_bit5]
  by_cases hm : dup s &&& compl (2 ^ 5) = 0
  · simp only [hm, decide_true, if_true]
    decide
  · simp only [hm, decide_false, Bool.false_eq_true, if_false]
    unfold getStrict
    rw [if_neg hm, and_two_pow_ne_zero, testBit_mask _ 5 5 (by omega)]
    simp

/-- the flags of `StrictAll` other than `StrictReader` are bits 0–4 and 6 -/
theorem recover_keeps_other_flags (s k : Nat) (hk : k < 7) (hk5 : k ≠ 5) :
    getStrict (recoverStrict true s) (2 ^ k) = getStrict s (2 ^ k) := by
  have hdup : getStrict s (2 ^ k) = (dup s).testBit k := by
    unfold getStrict dup
    split <;> exact and_two_pow_ne_zero _ _
  rw [hdup]
  unfold recoverStrict
  simp only [Bool.true_and, reader_is_bit5]
  have hbit : (dup s &&& compl (2 ^ 5)).testBit k = (dup s).testBit k := by
    rw [testBit_mask _ 5 k (by omega)]
    have h1 : decide (k < 64) = true := by simp; omega
    have h2 : decide (5 = k) = false := by simp; omega
    rw [h1, h2]; simp
  by_cases hm : dup s &&& compl (2 ^ 5) = 0
  · simp only [hm, decide_true, if_true]
    rw [← hbit, hm, Nat.zero_testBit]
    -- `NoStrict` has none of the seven flags
    have : ∀ j, j < 7 → getStrict noStrict (2 ^ j) = false := by decide
    exact this k hk
  · simp only [hm, decide_false, Bool.false_eq_true, if_false]
    unfold getStrict
    rw [if_neg hm, and_two_pow_ne_zero, hbit]

theorem as_found_reader_strict_again :
    getStrict (recoverStrict false Gen.optStrictReader) Gen.optStrictReader = true := by decide

theorem code_recover_reader_never_strict :
    codeZeroFix = true ∧ ∀ s, getStrict (recoverStrict codeZeroFix s) Gen.optStrictReader = false := by
  have h : codeZeroFix = true := by decide
  exact ⟨h, fun s => by rw [h]; exact recover_reader_never_strict s⟩

/-- the seven flags are the bits the theorems speak about -/
theorem flags_are_bits :
    [Gen.optStrictManifest, Gen.optStrictJournalChecksum, Gen.optStrictJournal, Gen.optStrictBlockChecksum,
      Gen.optStrictCompaction, Gen.optStrictReader, Gen.optStrictRecovery] = (List.range 7).map (2 ^ ·) ∧
    Gen.optStrictAll = 2 ^ 7 - 1 := by decide

/-- non-vacuity: default options, `StrictAll`, `StrictReader` alone, reader + checksum -/
example :
    recoverStrict true 0 = 26 ∧ recoverStrict true 127 = 95 ∧ recoverStrict true 32 = noStrict ∧
    recoverStrict true 40 = 8 ∧ getStrict (recoverStrict true 40) Gen.optStrictBlockChecksum = true ∧
    getStrict (recoverStrict true 32) Gen.optStrictBlockChecksum = false := by decide

/-! ## C08 — a table compaction reads its inputs strictly exactly when `StrictCompaction` is set -/

/-- **`compaction_reader_strict_iff`**.  For every value of `Options.Strict`, the iterators `compaction.newIterator` builds
over the input tables are strict (`opt.GetStrict(o, ro, StrictReader)`) exactly when the options have
`StrictCompaction`: a damaged block then stops the compaction with an error instead of being skipped, so a compaction
never commits an output that lacks a block's entries while deleting the input (C08: no acknowledged write is lost to a
damaged block). -/
theorem compaction_reader_strict_iff (o : Nat) :
    getStrictRO o (compactionRO Gen.optStrictReader o) Gen.optStrictReader = getStrict o Gen.optStrictCompaction := by
  have h1 : roGetStrict Gen.optStrictOverride Gen.optStrictOverride = true := by decide
  have h2 : roGetStrict Gen.optStrictOverride Gen.optStrictReader = false := by decide
  have h3 : roGetStrict (Gen.optStrictOverride ||| Gen.optStrictReader) Gen.optStrictOverride = true := by decide
  have h4 : roGetStrict (Gen.optStrictOverride ||| Gen.optStrictReader) Gen.optStrictReader = true := by decide
  unfold getStrictRO compactionRO
  cases h : getStrict o Gen.optStrictCompaction
  · simp only [Bool.false_eq_true, if_false, h1, if_true, h2]
  · simp only [if_true, h3, h4]

/-- with the default options (`Strict` unset) a compaction reads strictly -/
theorem default_compaction_reader_strict :
    getStrictRO 0 (compactionRO Gen.optStrictReader 0) Gen.optStrictReader = true := by decide

/-- the wrong constant (`ro.Strict |= opt.StrictCompaction`, seeded change `C08-compaction-iter-not-strict`) makes the
reader lenient for EVERY option value: damaged blocks are skipped silently -/
theorem compaction_flag_instead_of_reader_never_strict (o : Nat) :
    getStrictRO o (compactionRO Gen.optStrictCompaction o) Gen.optStrictReader = false := by
  have h1 : roGetStrict Gen.optStrictOverride Gen.optStrictOverride = true := by decide
  have h2 : roGetStrict Gen.optStrictOverride Gen.optStrictReader = false := by decide
  have h3 : roGetStrict (Gen.optStrictOverride ||| Gen.optStrictCompaction) Gen.optStrictOverride = true := by decide
  have h4 : roGetStrict (Gen.optStrictOverride ||| Gen.optStrictCompaction) Gen.optStrictReader = false := by decide
  unfold getStrictRO compactionRO
  cases h : getStrict o Gen.optStrictCompaction
  · simp only [Bool.false_eq_true, if_false, h1, if_true, h2]
  · simp only [if_true, h3, h4]

theorem code_compaction_reader_shape : codeCompactionIterShape = true := by decide

end GoLevel.C19Strict

def GoLevel.C19Strict.theorems : List String :=
  ["GoLevel.C19Strict.recover_reader_never_strict", "GoLevel.C19Strict.recover_keeps_other_flags",
   "GoLevel.C19Strict.as_found_reader_strict_again", "GoLevel.C19Strict.code_recover_reader_never_strict",
   "GoLevel.C19Strict.flags_are_bits", "GoLevel.C19Strict.compaction_reader_strict_iff",
   "GoLevel.C19Strict.default_compaction_reader_strict", "GoLevel.C19Strict.compaction_flag_instead_of_reader_never_strict",
   "GoLevel.C19Strict.code_compaction_reader_shape"]
