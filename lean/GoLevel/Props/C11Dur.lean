import GoLevel.Proofs.DurableTrans
import GoLevel.Props.C08
/-!
# Property C11 on the durable machine — transactions are atomic and leave no residue when discarded

`Props/C11.lean` has the isolation theorems over `Model/Conc`.  Here: what the durable state machine
(`Model/Durable.lean`, the machine of C04/C08) gives for `OpenTransaction … Commit / Discard`.  A transaction is the
write group `St.tr` (numbered from `db.seq + 1`, `sync = true`); `Commit` is a job of kind `tr` (one table with the
group, one manifest edit with `seqNum := tr.seq`, then `db.setSeq`, the acknowledgement); `Discard` drops it —
before `Commit` (`stepTr .trDiscard`: nothing is on the storage) or after a failed `Commit`
(`Dur.trDiscardJob`: the table is removed, unless the manifest is uncertain).

* **(a) `tr_commit_crash_atomic`** (from `C04.crash_consistent`): every crash image of every reachable state opens,
  what it delivers are whole issued groups — for every issued group, the transaction's included, all of its
  entries or none as a group — and every group acknowledged with `Sync`, hence every committed transaction
  (`tr_commit_acknowledged`), is among them.  `tr_commit_crash_atomic_faults`: the same under the storage faults of
  `C08.fault_safe_writer` (every good configuration); `tr_commit_crash_atomic_any_fault`: under every storage fault
  (the repaired configuration).
* **(b) `tr_discard_no_residue`**: no crash image taken while the transaction is open and its commit record has
  not been written — from `OpenTransaction` through every `Put`, through the table phase of `Commit`, up to the
  append — delivers a group that reaches into the transaction's sequence numbers (`tr_invisible_before_commit`);
  `Discard` after a failed `Commit` removes every table file of the transaction (`discard_removes_tables`), none of
  which is live in any admissible view of the manifest (`discard_tables_never_live`), the invariant holds afterwards
  (`Dur.inv_trDiscardJob`), and still no crash image delivers anything of the transaction.
  *Not stated*: "never named by any manifest record" for manifest files other than the one `CURRENT` names — the
  invariant speaks about the admissible views of the current manifest only (in a fault-free run there is no other
  manifest at that point, but that is not a theorem here).
* **(c) with faults (the shape of D10)**: while `session.manifestFailed` is set `Discard` keeps the tables
  (`discard_keeps_tables_when_uncertain`).  What the model gives after that, as explicit runs: if the record of the
  failed commit did reach the manifest and the DB is reopened before the next rotation, `Open` sees the
  transaction as a whole (`adopted_after_reopen`); otherwise the next successful commit writes a new manifest from
  the session's version, which does not name the table: the file is an orphan, and the janitor of the next `Open`
  removes it — that *is* in the model (`stepJob` at `.install` of the final commit of a recovery:
  `checkAndCleanFiles` removes every table the new version does not need; `orphan_removed_by_next_open`).  The general
  theorem for both cases is `tr_commit_crash_atomic_any_fault` (from `C08.fault_safe`, the repaired configuration, every
  storage fault): whatever fails, a crash image holds the discarded transaction as a whole or not at all, and every
  acknowledged commit.  In the invariant the discarded transaction whose record is in the manifest is
  `Dur.OrphanOK`: one synced table with one group, reported as failed, its sequence numbers consumed.
-/
namespace GoLevel.C11Dur
open GoLevel GoLevel.Dur

/-! ## (a) a committed transaction is all there or not at all, and there once acknowledged -/

/-- what `Consistent` says, at the level of groups and their entries -/
theorem atomic_of_consistent {c : UCmp} {s : St} {r : RState} {sel : List Grp} (h : C04.Consistent c s r sel) :
    (∀ g ∈ issuedGrps s, (g ∈ r.grps ∧ ∀ e ∈ g.ents, e ∈ r.entries) ∨ g ∉ r.grps) ∧
    (∀ e ∈ r.entries, ∃ g ∈ issuedGrps s, g ∈ r.grps ∧ e ∈ g.ents ∧ ∀ e' ∈ g.ents, e' ∈ r.entries) ∧
    (∀ g ∈ C04.ackedSync s, ∀ e ∈ g.ents, e ∈ r.entries) := by
  have hin : ∀ g ∈ r.grps, ∀ e ∈ g.ents, e ∈ r.entries := fun g hg e he =>
    List.mem_flatMap.2 ⟨g, hg, he⟩
  refine ⟨fun g _ => ?_, fun e he => ?_, fun g hg e he => ?_⟩
  · by_cases hgr : g ∈ r.grps
    · exact Or.inl ⟨hgr, hin g hgr⟩
    · exact Or.inr hgr
  · obtain ⟨g, hg, heg⟩ := List.mem_flatMap.1 he
    exact ⟨g, h.sub.subset ((h.whole g).2 hg), hg, heg, hin g hg⟩
  · exact hin g ((h.whole g).1 (h.acked g hg)) e he

/-- **(a)** every crash image of every state reachable without storage faults opens; it delivers whole issued
    groups only — all entries of a group or the group not at all —, and every group acknowledged with `Sync`
    (a committed transaction is one: `tr_commit_acknowledged`) -/
theorem tr_commit_crash_atomic {cfg : Cfg} (hg : cfg.Good) {s : St} {d : Disk}
    (hr : ∃ as, (∀ a ∈ as, a.noFault = true) ∧ run cfg init as = some (s, d))
    {d' : Disk} (hi : IsCrashImage d d') {c : UCmp} (hl : LawfulUCmp c) (hw : ∀ g ∈ issuedGrps s, g.wf) :
    ∃ r, recoverR cfg d' = .ok r ∧
      (∀ g ∈ issuedGrps s, (g ∈ r.grps ∧ ∀ e ∈ g.ents, e ∈ r.entries) ∨ g ∉ r.grps) ∧
      (∀ e ∈ r.entries, ∃ g ∈ issuedGrps s, g ∈ r.grps ∧ e ∈ g.ents ∧ ∀ e' ∈ g.ents, e' ∈ r.entries) ∧
      (∀ g ∈ C04.ackedSync s, ∀ e ∈ g.ents, e ∈ r.entries) := by
  obtain ⟨r, hrec, sel, hsel⟩ := C04.crash_consistent cfg hg s d hr d' hi c hl hw
  exact ⟨r, hrec, atomic_of_consistent hsel⟩

/-- … and under the storage faults of `C08.fault_safe_writer` -/
theorem tr_commit_crash_atomic_faults {cfg : Cfg} (hg : cfg.Good) (hcs : cfg.consumeSeqOnJournalError = true)
    {as : List Act} {s : St} {d : Disk}
    (hal : Allowed cfg Act.faultsOK init as) (hr : run cfg init as = some (s, d))
    {d' : Disk} (hi : IsCrashImage d d') {c : UCmp} (hl : LawfulUCmp c) (hw : ∀ g ∈ issuedGrps s, g.wf) :
    ∃ r, recoverR cfg d' = .ok r ∧
      (∀ g ∈ issuedGrps s, (g ∈ r.grps ∧ ∀ e ∈ g.ents, e ∈ r.entries) ∨ g ∉ r.grps) ∧
      (∀ e ∈ r.entries, ∃ g ∈ issuedGrps s, g ∈ r.grps ∧ e ∈ g.ents ∧ ∀ e' ∈ g.ents, e' ∈ r.entries) ∧
      (∀ g ∈ C04.ackedSync s, ∀ e ∈ g.ents, e ∈ r.entries) := by
  obtain ⟨r, hrec, sel, hsel⟩ := C08.fault_safe_writer hg hcs hal hr hi hl hw
  exact ⟨r, hrec, atomic_of_consistent hsel⟩

/-- … and, for the repaired code, under **every** storage fault (`C08.fault_safe_running`): also when the append of the
    transaction's record, the manifest `Sync` or `SetMeta` reported an error with the record in the manifest and the
    client discarded the transaction — a crash image then holds the transaction as a whole (its table, adopted by the
    next `Open`) or not at all, never a part of it, and every acknowledged commit is there -/
theorem tr_commit_crash_atomic_any_fault {cfg : Cfg} (hg : cfg.Good) (hcs : cfg.consumeSeqOnJournalError = true)
    (h10 : cfg.discardKeepsTablesWhenUncertain = true)
    (h26a : cfg.cleanupChecksCurrent = true) (h26b : cfg.cleanupKeepsWhenGetMetaFails = true)
    {as : List Act} {s : St} {d : Disk} (hr : run cfg init as = some (s, d))
    {d' : Disk} (hi : IsCrashImage d d') {c : UCmp} (hl : LawfulUCmp c) (hw : ∀ g ∈ issuedGrps s, g.wf) :
    ∃ r, recoverR cfg d' = .ok r ∧
      (∀ g ∈ issuedGrps s, (g ∈ r.grps ∧ ∀ e ∈ g.ents, e ∈ r.entries) ∨ g ∉ r.grps) ∧
      (∀ e ∈ r.entries, ∃ g ∈ issuedGrps s, g ∈ r.grps ∧ e ∈ g.ents ∧ ∀ e' ∈ g.ents, e' ∈ r.entries) ∧
      (∀ g ∈ C04.ackedSync s, ∀ e ∈ g.ents, e ∈ r.entries) := by
  obtain ⟨r, hrec, sel, hsel⟩ := C08.fault_safe_running hg hcs h10 h26a h26b hr hi hl hw
  exact ⟨r, hrec, atomic_of_consistent hsel⟩

/-- the last step of `Commit` (`db.setSeq(tr.seq)`, the call returns `nil`) makes the transaction a group
    acknowledged with `Sync` -/
theorem tr_commit_acknowledged {cfg : Cfg} {s : St} {d : Disk} (h : Inv cfg s d) {j : Job} (hj : s.job = some j)
    (hk : j.kind = .tr) {g : Grp} (hg : s.tr = some g) : g ∈ C04.ackedSync (finishJob s j) := by
  have hok := h.job
  rw [hj] at hok
  have hkind := (hok : JobOK cfg s d j).kind
  unfold JobKindOK at hkind
  rw [hk] at hkind
  simp only at hkind
  obtain ⟨hph, _, _, _, hkind⟩ := hkind
  rw [hg] at hkind
  have hkind : Holds j.edit fun e => e.jn = none ∧ e.sq = some (g.fin - 1) ∧
      j.outs = [(e.added.headD 0, [g])] ∧ g.recs ≠ [] ∧ g ∈ issuedGrps s := hkind
  rw [holds_iff] at hkind
  obtain ⟨e, _, _, _, _, _, hgi⟩ := hkind
  have htr := (h.run hph).norecov.2
  unfold TrOK at htr
  rw [hg] at htr
  have hsync : g.sync = true := htr.2.2.2.2
  unfold finishJob
  rw [hk]
  simp only [hg]
  obtain ⟨i, hi, rfl⟩ := List.mem_map.1 hgi
  unfold C04.ackedSync Dur.ackedSync
  simp only [List.mem_map, List.mem_filter, decide_eq_true_eq, setStatus]
  exact ⟨{ i with status := .acked }, ⟨⟨i, hi, by simp⟩, rfl, hsync⟩, rfl⟩

/-! ## (b) an open or discarded transaction leaves nothing behind -/

/-- **while the transaction is open and its commit record has not been written** (no job, or the commit job before
    its manifest step) no crash image delivers a group that reaches into the transaction's sequence numbers: every
    recovered group ends where the transaction starts; in particular none of its entries is recovered -/
theorem tr_invisible_before_commit {cfg : Cfg} (hg : cfg.Good) {s : St} {d : Disk}
    (hr : ∃ as, (∀ a ∈ as, a.noFault = true) ∧ run cfg init as = some (s, d)) {g : Grp} (htr : s.tr = some g)
    (hjob : Holds' s.job fun j => j.pc.beforeCommit = true) {d' : Disk} (hi : IsCrashImage d d')
    (hw : ∀ x ∈ issuedGrps s, x.wf) (hgw : g.wf) :
    ∃ r, recoverR cfg d' = .ok r ∧ (∀ x ∈ r.grps, x.fin ≤ g.seq) ∧ ∀ e ∈ g.ents, e ∉ r.entries := by
  obtain ⟨ch, rfl⟩ := hi
  have hinv : Inv cfg s d := inv_reachable hg hr
  have hl : s.limbo = none := limbo_none_reachable hg hr
  obtain ⟨r, hrec, hgood, hb⟩ := hinv.tr_invisible hg.noTrace htr hjob hl ch
  refine ⟨r, hrec, hb, fun e he her => ?_⟩
  obtain ⟨x, hx, hex⟩ := List.mem_flatMap.1 her
  have h1 := ents_seq_range (hw x (hgood.only x hx)) hex
  have h2 := ents_seq_range hgw he
  have := hb x hx
  omega

/-- `Discard` after a failed `Commit`, the manifest not being uncertain: every table file of the transaction is gone -/
theorem discard_removes_tables {cfg : Cfg} {s : St} {d : Disk} {s' : St} {d' : Disk}
    (hs : trDiscardJob cfg s d = some (s', d'))
    (hu : (cfg.discardKeepsTablesWhenUncertain && s.manifestFailed) = false) {j : Job} (hj : s.job = some j) :
    ∀ o ∈ j.outs, lookup d'.tables o.1 = none := by
  unfold trDiscardJob at hs
  rw [hj] at hs
  cases htr : s.tr with
  | none => rw [htr] at hs; cases hs
  | some g =>
    rw [htr] at hs
    simp only at hs
    split at hs
    · simp only [hu, Bool.false_eq_true, if_false, Option.some.injEq, Prod.mk.injEq] at hs
      obtain ⟨_, rfl⟩ := hs
      exact lookup_remove_all j.outs d
    · cases hs

/-- … and none of them was ever live in an admissible view of the manifest `CURRENT` names -/
theorem discard_tables_never_live {cfg : Cfg} {s : St} {d : Disk} (h : Inv cfg s d) {j : Job} (hj : s.job = some j)
    (hbc : j.pc.beforeCommit = true) (hl : s.limbo = none) :
    AllViews cfg d fun v => ∀ o ∈ j.outs, o.1 ∉ v.live := by
  intro mf hc k hk v hv o ho hlive
  have hok := h.job
  rw [hj] at hok
  have hf := holds_some (holds_some ((hok : JobOK cfg s d j).fresh.2 hbc) hc k hk) hv
  have h1 := (hf.1 o ho).resolve_right (fun hx => by have := hx.2.1; rw [hl] at this; cases this)
  have h2 := ((h.disk.allViews mf hc k hk v hv).tables o.1 hlive).1
  omega

/-- **(b)** a transaction that is discarded after its `Commit` failed (no storage fault that leaves the manifest
    uncertain): the step preserves the invariant, removes every table file the transaction created — none of them
    live in any admissible view of the manifest, before or after —, and no crash image of the resulting storage
    delivers anything of the transaction -/
theorem tr_discard_no_residue {cfg : Cfg} (hg : cfg.Good) {s : St} {d : Disk}
    (hr : ∃ as, (∀ a ∈ as, a.noFault = true) ∧ run cfg init as = some (s, d)) {g : Grp} (htr : s.tr = some g)
    {j : Job} (hj : s.job = some j) (hu : (cfg.discardKeepsTablesWhenUncertain && s.manifestFailed) = false)
    {s' : St} {d' : Disk} (hs : step cfg s d .trDiscard = some (s', d'))
    (hw : ∀ x ∈ issuedGrps s, x.wf) :
    (∀ o ∈ j.outs, lookup d'.tables o.1 = none) ∧
    (AllViews cfg d' fun v => ∀ o ∈ j.outs, o.1 ∉ v.live) ∧
    ∀ d'', IsCrashImage d' d'' → ∃ r, recoverR cfg d'' = .ok r ∧ g ∉ r.grps ∧ ∀ e ∈ g.ents, e ∉ r.entries := by
  have hinv : Inv cfg s d := inv_reachable hg hr
  have hl : s.limbo = none := limbo_none_reachable hg hr
  have hs' : trDiscardJob cfg s d = some (s', d') := by
    simp only [step, hj, reduceCtorEq, if_false] at hs
    exact hs
  have hpc : j.kind = .tr ∧ j.pc = .append := by
    unfold trDiscardJob at hs'
    rw [htr, hj] at hs'
    simp only at hs'
    split at hs'
    · assumption
    · cases hs'
  have hbc : j.pc.beforeCommit = true := by rw [hpc.2]; rfl
  have hinv' : Inv cfg s' d' := inv_trDiscardJob hinv (Or.inl hl) hs'
  have hcur : curManifest d' = curManifest d := by
    unfold trDiscardJob at hs'
    rw [htr, hj] at hs'
    simp only [hpc, and_self, if_true, hu, Bool.false_eq_true, if_false, Option.some.injEq, Prod.mk.injEq] at hs'
    obtain ⟨_, rfl⟩ := hs'
    obtain ⟨_, b, c⟩ := remove_all_frame j.outs d
    unfold curManifest
    rw [b, c]
  have hgone := discard_removes_tables hs' hu hj
  refine ⟨hgone, ?_, ?_⟩
  · intro mf hc k hk v hv
    rw [hcur] at hc
    exact discard_tables_never_live hinv hj hbc hl mf hc k hk v hv
  · -- the transaction's group is the job's only output; it was pending, it is `failed` now: if a crash image had
    -- it, it would be in a live table or in a journal, but everything there ends below it
    rintro d'' ⟨ch, rfl⟩
    have hok := hinv.job
    rw [hj] at hok
    have hkind := (hok : JobOK cfg s d j).kind
    unfold JobKindOK at hkind
    rw [hpc.1] at hkind
    simp only at hkind
    obtain ⟨hph, _, _, _, hkind⟩ := hkind
    rw [htr] at hkind
    have hkind : Holds j.edit fun e => e.jn = none ∧ e.sq = some (g.fin - 1) ∧
        j.outs = [(e.added.headD 0, [g])] ∧ g.recs ≠ [] ∧ g ∈ issuedGrps s := hkind
    rw [holds_iff] at hkind
    obtain ⟨e, _, _, _, houts, hgne, hgi⟩ := hkind
    have hgs : g.seq = s.seq + 1 := by
      have := (hinv.run hph).norecov.2
      unfold TrOK at this
      rw [htr] at this
      exact this.2.2.2.1
    -- everything on the old storage ends at or below `db.seq`; the new storage holds no more than the old one
    have hb := hinv.tr_storage_bound htr (by rw [hj]; exact hbc) hl
    have hd := hinv'.disk.restrict_issued (fun x => decide (x.fin ≤ s.seq + 1)) (by
      intro mf hc k hk v hv
      rw [hcur] at hc
      obtain ⟨b1, b2⟩ := hb mf hc k hk v hv
      have hnl := discard_tables_never_live hinv hj hbc hl mf hc k hk v hv
      have hjs : d'.journals = d.journals := by
        unfold trDiscardJob at hs'
        rw [htr, hj] at hs'
        simp only [hpc, and_self, if_true, hu, Bool.false_eq_true, if_false, Option.some.injEq, Prod.mk.injEq] at hs'
        obtain ⟨_, rfl⟩ := hs'
        exact (remove_all_frame j.outs d).1
      have htl : ∀ t ∈ v.live, lookup d'.tables t = lookup d.tables t := by
        intro t ht
        unfold trDiscardJob at hs'
        rw [htr, hj] at hs'
        simp only [hpc, and_self, if_true, hu, Bool.false_eq_true, if_false, Option.some.injEq, Prod.mk.injEq] at hs'
        obtain ⟨_, rfl⟩ := hs'
        rw [houts]
        show lookup (d.tables.erase _) t = _
        rw [lookup_erase, if_neg]
        intro ht'
        exact hnl (e.added.headD 0, [g]) (by rw [houts]; exact List.mem_singleton.2 rfl) (by rw [← ht']; exact ht)
      refine ⟨fun x hx => ?_, fun p hp x hx => ?_⟩
      · rw [liveGrps_congr (d := d) (d' := d') (v := v) htl] at hx
        simpa using b1 x hx
      · have hp' : p ∈ relJournals d v.jn := by
          rw [mem_relJournals] at hp ⊢
          rw [hjs] at hp
          exact hp
        simpa using b2 p hp' x hx)
    obtain ⟨r, hrec, hgood⟩ := (hd.crash hg.noTrace ch).open_ok
    have hfin := Grp.seq_lt_fin hgne
    have hall : ∀ x ∈ r.grps, x.fin ≤ s.seq + 1 := fun x hx => by
      have := (List.mem_filter.1 (hgood.only x hx)).2
      simpa using this
    refine ⟨r, hrec, fun hgr => ?_, fun e0 he0 her => ?_⟩
    · have := hall g hgr
      omega
    · obtain ⟨x, hx, hex⟩ := List.mem_flatMap.1 her
      have hxi : x ∈ issuedGrps s' := (List.mem_filter.1 (hgood.only x hx)).1
      have hxi' : x ∈ issuedGrps s := by
        unfold trDiscardJob at hs'
        rw [htr, hj] at hs'
        simp only [hpc, and_self, if_true, Option.some.injEq, Prod.mk.injEq] at hs'
        obtain ⟨rfl, _⟩ := hs'
        simpa only [issuedGrps, issuedGrps_setStatus] using hxi
      have h1 := ents_seq_range (hw x hxi') hex
      have h2 := ents_seq_range (hw g hgi) he0
      have := hall x hx
      omega

/-! ## (c) with the manifest uncertain (the shape of D10) -/

/-- while `session.manifestFailed` is set (`manifestUncertain()`), `Discard` leaves the storage as it is: the
    transaction's tables stay (the repair of D10, `Cfg.discardKeepsTablesWhenUncertain`) -/
theorem discard_keeps_tables_when_uncertain {cfg : Cfg} (hc : cfg.discardKeepsTablesWhenUncertain = true)
    {s : St} {d : Disk} (hm : s.manifestFailed = true) {s' : St} {d' : Disk}
    (hs : trDiscardJob cfg s d = some (s', d')) : d' = d := by
  unfold trDiscardJob at hs
  repeat' split at hs
  all_goals first
    | (simp only [hc, hm, Bool.and_self, if_true, Option.some.injEq, Prod.mk.injEq] at hs; exact hs.2.symm)
    | cases hs

/-- the commit of a transaction fails at the manifest `Sync` *after* the record became durable; the client
    discards it -/
def commitUncertainThenDiscard : List Act :=
  [.trBegin, .trPut C04.putKV, .trCommit, .job false .ok, .job false .ok, .job false .ok,
   .job false .ok, .job false .failEffect, .trDiscard]

/-- **adopted**: the record did reach the manifest; reopened before the next rotation, `Open` sees the transaction
    as a whole — although `Commit` had returned an error — and its table is live -/
theorem adopted_after_reopen :
    ((run {} init commitUncertainThenDiscard).map fun sd =>
      (C04.openError {} sd.2, sd.2.tables.map (·.1), (recoverR {} sd.2).toOption.map (·.mv.live))) =
      some (none, [3], some [3]) ∧
    C04.readsK {} commitUncertainThenDiscard = some (some [118]) := by decide

/-- the DB goes on instead: a write, its flush — the commit takes the `newManifest` path (`manifestFailed`) and
    writes the session's version, which does not name the discarded transaction's table 3 -/
def thenFlush : List Act :=
  [.wAppend [⟨1, [97], [1]⟩] true .ok, .wSync .ok, .wApply, .wPublish, .wAck, .rotate .ok, .flushStart] ++
  List.replicate 13 (.job false .ok)

/-- a clean exit and the next `Open`, run to its end (`checkAndCleanFiles` included) -/
def thenReopen : List Act :=
  [.exit, .recOpen, .recStep, .recStep] ++ List.replicate 14 (.job false .ok)

/-- **orphaned, then removed by the janitor of the next `Open`**: after the rotation table 3 is on the storage
    but live in no view; the next `Open` removes it; the discarded transaction's key is not there, the later write is -/
theorem orphan_removed_by_next_open :
    ((run {} init (commitUncertainThenDiscard ++ thenFlush)).map fun sd =>
      (sd.1.job, sd.2.tables.map (·.1), (recoverR {} sd.2).toOption.map (·.mv.live), sd.1.manifestFailed)) =
      some (none, [3, 5], some [5], false) ∧
    ((run {} init (commitUncertainThenDiscard ++ thenFlush ++ thenReopen)).map fun sd =>
      (sd.1.phase, sd.1.job, sd.2.tables.map (·.1), C04.openError {} sd.2)) =
      some (.running, none, [5], none) ∧
    C04.readsK {} (commitUncertainThenDiscard ++ thenFlush ++ thenReopen) = some none := by decide

/-! ## (d) non-vacuity: a concrete transaction -/

/-- `OpenTransaction`, two `Put`s, `Commit` to its end -/
def trCommitted : List Act :=
  [.trBegin, .trPut C04.putKV, .trPut [⟨1, [98], [2]⟩], .trCommit] ++ List.replicate 9 (.job false .ok)

/-- it is a fault-free run; after it the transaction is a group acknowledged with `Sync` … -/
example : (∀ a ∈ trCommitted, a.noFault = true) ∧
    (run {} init trCommitted).map (fun sd => (sd.1.tr, sd.1.job, (C04.ackedSync sd.1).map (·.n))) =
      some (none, none, [2]) := by decide
/-- … which every crash image delivers; during the commit every crash image has all of it or none of it -/
example : (List.range (trCommitted.length + 1)).all (fun n =>
    ((run {} init (trCommitted.take n)).map fun sd =>
      match recoverR {} (crashWith {} sd.2) with
      | .ok r => decide (r.grps.map (·.n) = [] ∨ r.grps.map (·.n) = [2])
      | .error _ => false) == some true) = true := by decide
example : C04.losesAcked {} {} trCommitted = some false := by decide

/-- `OpenTransaction`, `Put`, `Commit` up to its retry point, `Discard` (the client gives up without a fault) -/
def trDiscarded : List Act :=
  [.trBegin, .trPut C04.putKV, .trCommit, .job false .ok, .job false .ok, .job false .ok, .trDiscard]

/-- the table the transaction created (3) is gone, nothing is live, no crash image along the way delivers
    anything, the sequence numbers stay consumed -/
example : (run {} init trDiscarded).map (fun sd =>
    (sd.1.tr.isNone, sd.1.job.isNone, sd.2.tables.map (·.1), (recoverR {} sd.2).toOption.map (·.mv.live), sd.1.seq)) =
    some (true, true, [], some [], 1) := by decide
example : (List.range (trDiscarded.length + 1)).all (fun n =>
    ((run {} init (trDiscarded.take n)).map fun sd =>
      match recoverR {} (crashWith { keepT := fun _ => true } sd.2) with
      | .ok r => r.grps.isEmpty
      | .error _ => false) == some true) = true := by decide

/-- The property theorems of this file (for the audit). -/
def theorems : List String :=
  ["GoLevel.C11Dur.tr_commit_crash_atomic", "GoLevel.C11Dur.tr_commit_crash_atomic_faults",
   "GoLevel.C11Dur.tr_commit_crash_atomic_any_fault",
   "GoLevel.C11Dur.tr_commit_acknowledged", "GoLevel.C11Dur.tr_invisible_before_commit",
   "GoLevel.C11Dur.discard_removes_tables", "GoLevel.C11Dur.discard_tables_never_live",
   "GoLevel.C11Dur.tr_discard_no_residue", "GoLevel.C11Dur.discard_keeps_tables_when_uncertain",
   "GoLevel.C11Dur.adopted_after_reopen", "GoLevel.C11Dur.orphan_removed_by_next_open"]

end GoLevel.C11Dur
