import GoLevel.Proofs.LocksLive
import GoLevel.Proofs.LocksWitness
import GoLevel.Proofs.LocksOrphanEh
import GoLevel.Proofs.LocksOrphanTx
import GoLevel.Proofs.LocksCloseWait
import GoLevel.Proofs.LocksRO
import GoLevel.Proofs.LocksEnabled
import GoLevel.Proofs.LocksRuns
import GoLevel.Proofs.LocksKeep
import GoLevel.Proofs.TrClose
/-!
# Property C09 — every call returns; a failing call releases what it acquired; the DB recovers

"Under every interleaving of clients, background work, storage failures and Close, each Put, Write, Get,
iterator step, OpenTransaction, Commit, Discard, CompactRange and Close eventually returns: concurrent
writers all get an answer, an operation that fails releases whatever it had acquired, and once injected
failures stop the DB serves subsequent calls again (or fails them immediately with its persistent error)."

Model: `GoLevel/Model/Locks.lean` — any number of client threads, each performing one public call as a
control-flow graph over the blocking resources (write-lock token, `compCommitLk`, `tr.lk`, the command/ack
rendezvous with `mCompaction` / `tCompaction` and their `closeC` / `compErrC` / `compPerErrC` alternatives),
the two compaction goroutines with `compactionTransact`'s retry loop and `compactionCommit`, the
`compactionError` state machine, `Close`.  Every storage action may succeed or fail; the failing steps are
`Step cfg true`, all others `Step cfg false`.  `Get` and iterator steps take none of these resources and are
not threads of the model.

**The error goroutine.**  `compactionError` is modelled case by case (`Model/CompErr.lean`): `Cfg.m` has one flag
per `select` case and `switch` case of the function, `codeCfg.m` takes them from `Gen/Consts.lean`, which
`tools/extract` regenerates from the Go AST on every run, and `code_comperr_machine` (a `decide`) states that the
source has every case the proofs rely on.  `SetReadOnly` is modelled as coded now (since 832d000,
`code_hands_over`): it takes the token, posts `ErrReadOnly` — `compactionError`, taking it, sets
`compWriteLocking`: the token is handed over — and sets `compReadOnly` (consulted by `tCompaction`); if it gives
up (`compPerErrC`, `closeC`) it takes its own token back.  Compactions end with `nil`, a transient error (retry
loop) or a corruption (`compactionExitTransact`).

**What is proved about the current code** (`codeCfg`; `code_all_fixed`: it is `Cfg.repaired`), for every run —
`SetReadOnly` at any point, also during the retry loop of a failing compaction and concurrently with `Close`,
storage failures and corruption errors anywhere: `code_all_released_on_return` (the exact accounting of the three
locks, full strength), `code_all_progress`, `code_all_recovers_after_faults`, `code_all_close_returns`,
`setReadOnly_takes_effect` (once `SetReadOnly` returned nil every write-side call fails at its first `select`
with `ErrReadOnly`, nothing blocks, `Close` returns), `persistent_error_fails_fast`.  `hang_without_…` /
`write_succeeds_without_…`: for each `select` case of the machine whose removal breaks one of these, the run
that hangs (a `decide`d deadlock), in particular the `err == ErrReadOnly` case of `haserr`.

**The defect 832d000 repaired** (`Cfg.before832`, `write_lock_lost`, `released_on_return_fails_before_832d000`):
`SetReadOnly` used to set `compWriteLocking` itself, and both take-backs of that token were blind.  If a
compaction reported a corruption while a `SetReadOnly` was between its two `select`s, a following `Close` let
`compactionError` take `SetReadOnly`'s token, `Close` acquired the lock, and `SetReadOnly`'s `closeC` arm took
*`Close`'s* token out: `Close` went on tearing the DB down without the write lock, and a writer waiting in its
`select` could acquire it.  For that configuration everything but the exact accounting holds
(`before832_covered`; the accounting: `released_on_return_partial`).

**The defect repaired by wp51 (D42)** (`Cfg.asFound`, `readonly_write_slips_through_on_close`): on `closeC` the
persistent-error loop, holding the write lock of a read-only (or corrupted) DB, gave it back so that `Close` could take
it with its plain send; a writer that had passed `db.ok()` and was parked in its `select` could take it first — write
to a read-only DB (`SetReadOnly`), or dereference the nil journal of a DB opened read-only and leave the lock taken
(`Close` hangs).  Now (`code_keeps_lock`) the loop keeps the lock and closes `compLockedC`, `Close` selects on
`writeLockC <-` / `<-compLockedC`: `readonly_no_write_after_close` — once `compWriteLocking` is set the token never
leaves `writeLockC` again, no `Put`/`Write`/`OpenTransaction`/`CompactRange`/`SetReadOnly` gets the lock, before, during
or after `Close` — and `Close` still returns in every schedule (`code_all_close_returns`, `code_all_progress`: the
`compLockedC` arm is the step `clAcqKept`; `hang_without_hasperr_keep`, `hang_without_close_select`: each half of the
repair alone hangs `Close`).  Everything but `readonly_no_write_after_close` also holds for the configuration as found
(`asFound_covered`).

**`OpenTransaction` racing `Close`** (D43, `Model/TrClose.lean`): the lock-flow model above has one transaction object
and lets `Close` look at it once (`clCheckTr`), which is why `close_returns` carries the exception "unless a user
transaction was opened behind its back".  The interleaving model `TrClose` has any number of `OpenTransaction`
callers against one `Close`, with `db.tr`, `trMu`, the closed flag and `closeC` explicit.  For the source since
bfb31ce (`code_tx_registration`: `OpenTransaction` registers under `trMu`, reads the closed flag in the same critical
section and discards its own transaction if it is set; `Close` reads `db.tr` under `trMu` after `setClosed` and
`close(closeC)`), in EVERY interleaving: when `Close` reaches its lock acquisition no transaction is in a client's
hands — `Close` saw and discarded it, or its `OpenTransaction` saw the flag and is discarding it itself, returning
`ErrClosed` (`tx_close_no_live_transaction`) — hence `Close` acquires the lock in every schedule, with clients that
never call `Discard` after `ErrClosed` (`tx_close_returns`).  For the source as found, the decided run in which
`Close` waits for ever for a transaction nobody will end (`tx_close_hangs_as_found`), and the same for the
unsynchronised look at `db.tr` alone (`tx_close_hangs_with_racy_read`).

The leak theorems (`leak_commit`, `leak_opentx`, `leak_largebatch`, `leak_setreadonly`, stated for `Cfg.asIs`)
show what each of the four repairs prevents: an explicit run and an invariant proving that the resource is
never released afterwards and which later calls therefore never complete.

Liveness is termination: `measure` strictly decreases on every fault-free step, so every schedule, fair or
not, that contains finitely many storage failures is finite, and by `progress` it can only end when no call
is pending — except that calls queueing behind a transaction the *user* holds open wait for the user's
`Commit`/`Discard` (`s.trOpen ∧ s.trUser`).

Modelling limits: one transaction object at a time (a stale handle is not distinguished from the current
transaction); `tcompPauseC` and non-waiting triggers are not modelled; see the header of `Model/Locks.lean`.
-/
namespace GoLevel.C09

open GoLevel.Locks

/-! ## the tie to the source -/

/-- the three leaks are closed in the Go source (regenerated facts) -/
theorem code_three_fixed :
    codeCfg.commitUnlocksOnError = true ∧ codeCfg.openTxReleasesOnError = true ∧
    codeCfg.largeBatchDiscardsOnCommitError = true := by decide

/-- **the tie of the machine**: `compactionError` in the source has every `select` case and `switch` case of
`CompErr.MCfg.asCoded`, and nothing else (regenerated facts `Gen.ce…`) -/
theorem code_comperr_machine : codeCfg.m = CompErr.MCfg.asCoded true := by decide

/-- … in the form `Covered` asks for: the machine keeps the lock on `closeC` iff `Close` selects on `compLockedC` -/
theorem code_m : codeCfg.m = CompErr.MCfg.asCoded codeCfg.closeSel := by decide

/-- **the tie of the hand-over**: `SetReadOnly` does not set `compWriteLocking` and gives its own token back on
its `compPerErrC` arm; `compactionError` sets `compWriteLocking` when it takes `ErrReadOnly`, in `noerr` and in
`haserr` (regenerated facts; the shape since 832d000) -/
theorem code_hands_over : codeCfg.HandsOver := by decide

/-- **the tie of the repair of D42**: `compactionError`'s `closeC` case in `hasperr` does
`if db.compWriteLocking { close(db.compLockedC) }` (not `<-db.writeLockC`), `Close` acquires the write lock with
`select { case db.writeLockC <- struct{}{}: case <-db.compLockedC: }`, and the rest is as `Cfg.repaired` (regenerated
facts `ceHasperrKeepsLockOnClose`, `ceHasperrGivesBack`, `lkCloseSelectsCompLocked`, …) -/
theorem code_keeps_lock : codeCfg.Keeps :=
  ⟨code_three_fixed, code_comperr_machine, by decide, code_hands_over, by decide⟩

theorem code_covered (s : St) (hr : ReachableNoSR codeCfg s) : Covered codeCfg s :=
  ⟨code_three_fixed, code_m, Or.inl code_hands_over, Or.inr hr⟩

theorem repaired_covered (s : St) (hr : Reachable Cfg.repaired s) : Covered Cfg.repaired s :=
  ⟨⟨rfl, rfl, rfl⟩, rfl, Or.inl (by decide), Or.inl ⟨rfl, Or.inl hr⟩⟩

/-- the source as found by wp51 (the machine gives the lock back on `closeC`, `Close` takes it with a plain send) is
covered too: accounting, progress, recovery and `Close` returning do not depend on the repair of D42 -/
theorem asFound_covered (s : St) (hr : Reachable Cfg.asFound s) : Covered Cfg.asFound s :=
  ⟨⟨rfl, rfl, rfl⟩, rfl, Or.inl (by decide), Or.inl ⟨rfl, Or.inl hr⟩⟩

/-- the source between the repair of D23 and 832d000 is covered too (everything but the exact accounting) -/
theorem before832_covered (s : St) (hr : Reachable Cfg.before832 s) : Covered Cfg.before832 s :=
  ⟨⟨rfl, rfl, rfl⟩, rfl, Or.inr (by decide), Or.inl ⟨rfl, Or.inl hr⟩⟩

/-! ## the statements -/

/-- every held resource has exactly its owners, and a returned call owns nothing -/
def ReleasedOnReturn (s : St) : Prop :=
  (tot tokW s.ws + b2n s.trOpen + b2n s.ehTok + b2n s.closeTok = b2n s.tok) ∧
  (tot clkW s.ws + bgClk s.mc + bgClk s.tc = b2n s.clk) ∧
  (tot trlkW s.ws = b2n s.trlk) ∧
  (∀ ok, tokW (.ret ok) = 0 ∧ clkW (.ret ok) = 0 ∧ trlkW (.ret ok) = 0)

/-- `compCommitLk` and `tr.lk` have exactly their owners, and a token in `writeLockC` has an owner -/
def LocksHaveOwners (s : St) : Prop :=
  (b2n s.tok ≤ tot tokW s.ws + b2n s.trOpen + b2n s.ehTok + b2n s.closeTok) ∧
  (tot clkW s.ws + bgClk s.mc + bgClk s.tc = b2n s.clk) ∧
  (tot trlkW s.ws = b2n s.trlk)

/-- while a call is pending a fault-free step is enabled, or a user transaction is open -/
def Progress (cfg : Cfg) (s : St) : Prop :=
  ∀ (i : Nat) (p : Pc), s.ws[i]? = some p → pending p = true →
    (∃ t, Step cfg false s t) ∨ (s.trOpen = true ∧ s.trUser = true)

/-- fault-free steps decrease `measure`; fault-free runs from `s` have at most `measure s` steps; one of
them cannot be extended; and when one cannot be extended, no call is pending (or a user transaction is open) -/
def RecoversAfterFaults (cfg : Cfg) (s : St) : Prop :=
  (∀ t u, Step cfg false t u → measure u < measure t) ∧
  (∀ n t, StepsNFN cfg n s t → n ≤ measure s) ∧
  (∃ t, StepsNF cfg s t ∧ ¬ ∃ u, Step cfg false t u) ∧
  (∀ t, StepsNF cfg s t → (¬ ∃ u, Step cfg false t u) →
    (∀ (i : Nat) (p : Pc), t.ws[i]? = some p → pending p = false) ∨ (t.trOpen = true ∧ t.trUser = true))

/-- every fault-free run from `s` that cannot be extended ends with each `Close` that was in progress in `s`
returned (or a user transaction is open) -/
def CloseReturns (cfg : Cfg) (s : St) : Prop :=
  ∀ (i : Nat) (p : Pc), s.ws[i]? = some p → clAllW p = 1 →
    ∀ t, StepsNF cfg s t → (¬ ∃ u, Step cfg false t u) →
      t.ws[i]? = some (.ret true) ∨ (t.trOpen = true ∧ t.trUser = true)

/-! ## the covered configurations -/

/-- **Every held resource has exactly its owners**, in every state of every run (storage failures, corruption
errors, `SetReadOnly` and `Close` anywhere) of a configuration with the four releases, the machine as coded and the
hand-over of the token as coded since 832d000: the token is in `writeLockC` iff exactly one of — a thread
between acquiring and releasing it, the open transaction, `compWriteLocking` (or the `SetReadOnly` that is about to
hand it over), `Close` — holds it; likewise `compCommitLk` (a committing `Commit` or compaction) and `tr.lk`.  A
thread that has returned (`ret`, `retE`) or not started (`idle`) is never an owner: whatever a call acquired is
released when it returns, whatever its outcome — except the token of a successful `OpenTransaction`, which passes
to the transaction (`trOpen`) and is released by `Commit`(ok) / `Discard` / `Close` (`St.setDone`), and the token
a successful `SetReadOnly` hands to `compactionError` (`ehTok`), released on `Close`. -/
theorem released_on_return (cfg : Cfg) (s : St) (hc : Covered cfg s) (hh : cfg.HandsOver)
    (h4 : cfg.setReadOnlyReleasesOnClose = true) : ReleasedOnReturn s := by
  have g := (covered_good cfg s hc).1.r
  have hr : Reachable cfg s ∨ ReachableNC cfg s ∨ ReachableNoSR cfg s := by
    rcases hc.2.2.2 with ⟨_, h | h⟩ | h
    · exact Or.inl h
    · exact Or.inr (Or.inl h)
    · exact Or.inr (Or.inr h)
  exact ⟨(exact_handsOver cfg hc.1 hc.2.1 hh h4 s hr).1, g.clkI, g.trlkI, fun _ => ⟨rfl, rfl, rfl⟩⟩

/-- the same for the other covered configurations (the hand-over as coded before 832d000, or without the fourth
release in runs without `SetReadOnly`): while the DB is open, and throughout runs without corruption errors or
without `SetReadOnly`.  Not in general: `write_lock_lost`. -/
theorem released_on_return_partial (cfg : Cfg) (s : St) (hc : Covered cfg s)
    (hx : s.closed = false ∨ (cfg.setReadOnlyReleasesOnClose = true ∧ ReachableNC cfg s) ∨ ReachableNoSR cfg s) :
    ReleasedOnReturn s := by
  have g := (covered_goodE cfg s hc)
  have ht : TokE s := by
    rcases hx with hx | ⟨h4, hx⟩ | hx
    · exact g.2 hx
    · exact (exact_noCorr cfg hc.1 hc.2.1 h4 s hx).1
    · exact exact_noSR cfg hc.1 hc.2.1 s hx
  exact ⟨ht, g.1.1.r.clkI, g.1.1.r.trlkI, fun _ => ⟨rfl, rfl, rfl⟩⟩

/-- **Every held lock has an owner**, in every covered state: `compCommitLk` and `tr.lk` exactly, and a token in
`writeLockC` belongs to a thread between acquiring and releasing it, to the open transaction, to
`compWriteLocking` or to `Close`. -/
theorem locks_have_owners (cfg : Cfg) (s : St) (hc : Covered cfg s) : LocksHaveOwners s :=
  have g := (covered_good cfg s hc).1.r
  ⟨g.tokI, g.clkI, g.trlkI⟩

/-- corollary: when no call is in progress, no transaction is open and the DB is neither read-only nor
closed, all three locks are free -/
theorem nothing_held_when_quiet (cfg : Cfg) (s : St) (hr : Covered cfg s)
    (hq : ∀ (i : Nat) (p : Pc), s.ws[i]? = some p → pending p = false) (ht : s.trOpen = false)
    (he : s.ehTok = false) (hc : s.closeTok = false) (hm : bgClk s.mc = 0) (htc : bgClk s.tc = 0) :
    s.tok = false ∧ s.clk = false ∧ s.trlk = false := by
  obtain ⟨h1, h2, h3⟩ := locks_have_owners cfg s hr
  have z : ∀ (f : Pc → Nat), f .idle = 0 → (∀ ok, f (.ret ok) = 0) → (∀ e, f (.retE e) = 0) → tot f s.ws = 0 := by
    intro f h0 hret hrete
    cases hz : tot f s.ws with
    | zero => rfl
    | succ n =>
      obtain ⟨i, p, hi, hp⟩ := exists_of_tot_pos f s.ws (by omega)
      have hpp := hq i p hi
      cases p with
      | idle => rw [h0] at hp; omega
      | ret ok => rw [hret ok] at hp; omega
      | retE e => rw [hrete e] at hp; omega
      | _ => simp [pending] at hpp
  have bz : ∀ b : Bool, 0 = b2n b → b = false := by intro b; cases b <;> simp [b2n]
  rw [z tokW rfl (fun _ => rfl) (fun _ => rfl), ht, he, hc] at h1
  rw [z clkW rfl (fun _ => rfl) (fun _ => rfl), hm, htc] at h2
  rw [z trlkW rfl (fun _ => rfl) (fun _ => rfl)] at h3
  exact ⟨bz _ (by simp only [b2n_false] at h1; omega), bz _ (by simpa using h2), bz _ h3⟩

/-- **No covered state is stuck while a call is pending**: some fault-free step is enabled — or the
pending calls queue behind a transaction that the user holds open. -/
theorem progress (cfg : Cfg) (s : St) (hc : Covered cfg s) : Progress cfg s :=
  fun i p hi hp => Locks.progress hc.2.1 s (covered_good cfg s hc).1 i p hi hp

theorem covered_nf (cfg : Cfg) (s t : St) (hc : Covered cfg s) (h : StepsNF cfg s t) : Covered cfg t :=
  covered_steps cfg s t hc (stepsNF_steps h)

/-- **Once failures stop, every call completes** (or fails at once with the persistent error — the
`selPerErr` / `cwSendErr` arms are ordinary steps): every fault-free step decreases `measure`; a fault-free
run from `s` has at most `measure s` steps, whatever the scheduler; and when it cannot be extended no call is
pending any more (or the user holds a transaction open). -/
theorem recovers_after_faults (cfg : Cfg) (s : St) (hc : Covered cfg s) : RecoversAfterFaults cfg s := by
  refine ⟨fun t u h => step_measure _ t u h, ?_, settle _ s, ?_⟩
  · intro n t h; have := stepsNFN_measure h; omega
  · intro t ht hq
    by_cases hu : t.trOpen = true ∧ t.trUser = true
    · exact Or.inr hu
    · left
      intro i p hi
      cases hp : pending p with
      | false => rfl
      | true =>
        rcases progress cfg t (covered_nf cfg s t hc ht) i p hi hp with h | h
        · exact absurd h hq
        · exact absurd h hu

/-- **`Close` returns**: from every covered state in which a thread is inside `Close`, every fault-free
run that cannot be extended (one exists, and all are shorter than `measure s`) ends with that `Close`
returned — it needs nothing but the steps of the calls and compactions already started — unless a user
transaction was opened behind its back and is still open. -/
theorem close_returns (cfg : Cfg) (s : St) (hc : Covered cfg s) : CloseReturns cfg s := by
  intro i p hi hp t ht hq
  have hcl : ∃ q, t.ws[i]? = some q ∧ (clAllW q = 1 ∨ q = .ret true) := by
    clear hq
    induction ht with
    | refl => exact ⟨p, hi, Or.inl hp⟩
    | tail _ h2 ih =>
      obtain ⟨q, hq1, hq2⟩ := ih
      exact close_thread_step _ _ _ _ h2 i q hq1 hq2
  obtain ⟨q, hq1, hq2⟩ := hcl
  rcases hq2 with hq2 | hq2
  · have hpend : pending q = true := by cases q <;> simp [clAllW] at hq2 <;> rfl
    rcases progress cfg t (covered_nf cfg s t hc ht) i q hq1 hpend with h | h
    · exact absurd h hq
    · exact Or.inr h
  · subst hq2; exact Or.inl hq1

/-! ### the current source (`codeCfg`), runs without `SetReadOnly` -/

theorem code_released_on_return (s : St) (hr : ReachableNoSR codeCfg s) : ReleasedOnReturn s :=
  released_on_return codeCfg s (code_covered s hr) code_hands_over (by decide)
theorem code_progress (s : St) (hr : ReachableNoSR codeCfg s) : Progress codeCfg s :=
  progress codeCfg s (code_covered s hr)
theorem code_recovers_after_faults (s : St) (hr : ReachableNoSR codeCfg s) : RecoversAfterFaults codeCfg s :=
  recovers_after_faults codeCfg s (code_covered s hr)
theorem code_close_returns (s : St) (hr : ReachableNoSR codeCfg s) : CloseReturns codeCfg s :=
  close_returns codeCfg s (code_covered s hr)

/-! ### all four fixes (`Cfg.repaired`), every run -/

theorem repaired_released_on_return (s : St) (hr : Reachable Cfg.repaired s) : ReleasedOnReturn s :=
  released_on_return Cfg.repaired s (repaired_covered s hr) (by decide) rfl
theorem repaired_progress (s : St) (hr : Reachable Cfg.repaired s) : Progress Cfg.repaired s :=
  progress Cfg.repaired s (repaired_covered s hr)
theorem repaired_recovers_after_faults (s : St) (hr : Reachable Cfg.repaired s) : RecoversAfterFaults Cfg.repaired s :=
  recovers_after_faults Cfg.repaired s (repaired_covered s hr)
theorem repaired_close_returns (s : St) (hr : Reachable Cfg.repaired s) : CloseReturns Cfg.repaired s :=
  close_returns Cfg.repaired s (repaired_covered s hr)

/-! ### non-vacuity: the leaking runs of `Cfg.asIs`, in the repaired configuration and at `codeCfg` -/

/-- `OpenTransaction` fails in `rotateMem`: the token is back -/
example : Steps Cfg.repaired (init 2) { ws := [.ret false, .idle] } := by
  have h := Steps.refl (cfg := Cfg.repaired) (init 2)
  have h := h.step (Step.startOtx _ 0 rfl)
  have h := h.step (Step.selTok _ 0 (.otxSel false) (.otxBranch false) rfl rfl rfl)
  have h := h.step (Step.otxRotate _ 0 false rfl)
  have h := h.step (Step.cwSendGo _ 0 false .otxRot1 false rfl rfl rfl)
  have h := h.step (Step.bgWorkOk _ false (some 0) rfl)
  have h := h.step (Step.bgSetErr _ false (some 0) true false rfl rfl)
  have h := h.step (Step.bgLockClk _ false (some 0) rfl rfl)
  have h := h.step (Step.bgCommitOk _ false (some 0) rfl)
  have h := h.step (Step.bgSetErr _ false (some 0) true true rfl rfl)
  have h := h.step (Step.bgAck _ false (some 0) rfl)
  have h := h.step (Step.otxNewMemFail _ 0 false rfl)
  have h := h.step (Step.otxFail _ 0 false rfl)
  exact h

/-- a `Close` racing with `SetReadOnly` completes -/
example : Steps Cfg.repaired (init 2)
    { ws := [.ret false, .ret true], tok := true, closeTok := true, closed := true, eh := .exited,
      mc := .exited, tc := .exited } := by
  have h := Steps.refl (cfg := Cfg.repaired) (init 2)
  have h := h.step (Step.startSR _ 0 rfl rfl)
  have h := h.step (Step.selTok _ 0 .srSel .srSet rfl rfl rfl)
  have h := h.step (Step.startClose _ 1 rfl)
  have h := h.step (Step.ehClose _ rfl rfl)
  have h := h.step (Step.srClosed _ 0 rfl rfl)
  have h := h.step (Step.clCheckTr _ 1 rfl)
  have h := h.step (Step.clAcq _ 1 rfl rfl)
  have h := h.step (Step.bgExitIdle _ false rfl rfl)
  have h := h.step (Step.bgExitIdle _ true rfl rfl)
  have h := h.step (Step.clWait _ 1 rfl rfl rfl)
  exact h

example : measure (init 3) = 371 := by decide

/-! ## what each fix prevents (`Cfg.asIs`), and the remaining known finding -/

/-- **`OpenTransaction` leaks the write lock** when `rotateMem` (or `waitCompaction`) fails: there is a
reachable state in which the call has returned its error, nobody owns the token, and yet it is in
`writeLockC` — and from then on, for ever: no `Put`/`Write`/`OpenTransaction`/`CompactRange` ever acquires
it (`tot tokW = 0`: they block, or fail once the DB is closed), no `Close` gets past
`db.writeLockC <- struct{}{}` (`closeTok = false`, nobody in `closeW.Wait()`). -/
theorem leak_opentx :
    ∃ s, Reachable Cfg.asIs s ∧ s.ws[0]? = some (.ret false) ∧
      (∀ (i : Nat) (p : Pc), s.ws[i]? = some p → pending p = false) ∧
      ∀ t, Steps Cfg.asIs s t →
        t.tok = true ∧ tot tokW t.ws = 0 ∧ t.closeTok = false ∧
        ∀ (i : Nat), t.ws[i]? ≠ some .clWait := by
  refine ⟨otxLeakSt, ⟨2, otxLeakRun⟩, rfl, ?_, ?_⟩
  · intro i p hi
    match i, hi with
    | 0, hi => cases hi; rfl
    | 1, hi => cases hi; rfl
    | n + 2, hi => simp [otxLeakSt] at hi
  · intro t ht
    have h0 : TokOrphan otxLeakSt := by
      refine ⟨rfl, by decide, rfl, rfl, rfl, by decide, by decide, rfl, by decide⟩
    obtain ⟨h1, h2, _, _, h5, h6, _, _, _⟩ := steps_inv_of_step TokOrphan (step_tokOrphan Cfg.asIs) _ _ ht h0
    refine ⟨h1, h2, h5, ?_⟩
    intro i hi
    have := le_tot (fun p => if p = .clWait then 1 else 0) t.ws i _ hi
    simp at this; omega

/-- **`Transaction.Commit` leaks `compCommitLk`** after three failed `s.commit` attempts: in a reachable
state the `Commit` (thread 1) has returned, nobody owns `compCommitLk`, it is locked, and the next memdb
compaction (requested here by a `Put`) blocks in `compCommitLk.Lock()` — for ever; hence `mCompaction`
never exits and a `Close` that reaches `db.closeW.Wait()` never returns. -/
theorem leak_commit :
    ∃ s, Reachable Cfg.asIs s ∧ s.ws[1]? = some (.ret false) ∧ s.clk = true ∧ tot clkW s.ws = 0 ∧
      (∀ t, Steps Cfg.asIs s t → t.clk = true ∧ ∃ w, t.mc = .run w .lockClk) ∧
      (∀ t, Steps Cfg.asIs s t → ∀ (i : Nat), t.ws[i]? = some .clWait →
        ∀ u, Steps Cfg.asIs t u → u.ws[i]? = some .clWait) := by
  have h0 : ClkOrphan commitLeakSt := ⟨rfl, by decide, rfl, some 2, rfl⟩
  refine ⟨commitLeakSt, ⟨5, commitLeakRun⟩, rfl, rfl, by decide, ?_, ?_⟩
  · intro t ht
    obtain ⟨h1, _, _, h4⟩ := steps_inv_of_step ClkOrphan (step_clkOrphan Cfg.asIs) _ _ ht h0
    exact ⟨h1, h4⟩
  · intro t ht i hi u hu
    have ho := steps_inv_of_step ClkOrphan (step_clkOrphan Cfg.asIs) _ _ ht h0
    exact (clkOrphan_close_stuck Cfg.asIs t u hu ho i hi).2

/-- **`DB.Write` (large batch) orphans its transaction** when `tr.Commit()` fails: the call has returned,
the internal transaction is still open and owns the token, nobody has its handle; until the DB is closed no
other writer ever acquires the write lock. -/
theorem leak_largebatch :
    ∃ s, Reachable Cfg.asIs s ∧ s.ws[0]? = some (.ret false) ∧
      (∀ (i : Nat) (p : Pc), s.ws[i]? = some p → pending p = false) ∧
      ∀ t, Steps Cfg.asIs s t → t.closed = false →
        t.tok = true ∧ tot tokW t.ws = 0 ∧ t.trOpen = true ∧ t.trUser = false := by
  refine ⟨lgLeakSt, ⟨2, lgLeakRun⟩, rfl, ?_, ?_⟩
  · intro i p hi
    match i, hi with
    | 0, hi => cases hi; rfl
    | 1, hi => cases hi; rfl
    | n + 2, hi => simp [lgLeakSt] at hi
  · intro t ht hc
    have h0 : TxOrphan lgLeakSt := Or.inr ⟨rfl, by decide, rfl, rfl, by decide, by decide, by decide⟩
    rcases steps_inv_of_step TxOrphan (step_txOrphan Cfg.asIs) _ _ ht h0 with h | ⟨h1, h2, h3, h4, _, _, _⟩
    · rw [hc] at h; cases h
    · exact ⟨h1, h2, h3, h4⟩

/-- **`SetReadOnly` racing with `Close` leaks the write lock** (any configuration without the fourth fix):
`SetReadOnly` has taken the token, `Close` closes `closeC`, `compactionError` leaves its `noerr` loop (it
releases the token only from `hasperr`), `SetReadOnly` takes the `closeC` arm of its second `select` and
returns `ErrClosed`: the token stays in `writeLockC`, `Close` (thread 1) blocks in
`db.writeLockC <- struct{}{}` for ever. -/
theorem leak_setreadonly_of (cfg : Cfg) (hm : cfg.m = CompErr.MCfg.asCoded cfg.closeSel)
    (hf : cfg.setReadOnlyReleasesOnClose = false) :
    ∃ s, Reachable cfg s ∧ s.ws[0]? = some (.ret false) ∧ s.ws[1]? = some .clAcq ∧
      ∀ t, Steps cfg s t →
        t.tok = true ∧ tot tokW t.ws = 0 ∧ t.closeTok = false ∧ ∀ (i : Nat), t.ws[i]? ≠ some .clWait := by
  refine ⟨srLeakSt cfg.srSetsWriteLocking, ⟨2, srLeakRun cfg hm hf⟩, rfl, rfl, ?_⟩
  intro t ht
  have h0 : EhOrphan (srLeakSt cfg.srSetsWriteLocking) := ⟨rfl, rfl, rfl, rfl, rfl, rfl, rfl, rfl⟩
  obtain ⟨h1, h2, _, _, _, h6, h7, _⟩ := steps_inv_of_step EhOrphan (step_ehOrphan cfg) _ _ ht h0
  refine ⟨h1, h2, h6, ?_⟩
  intro i hi
  have := le_tot (fun p => if p = .clWait then 1 else 0) t.ws i _ hi
  simp at this; omega

theorem leak_setreadonly :
    ∃ s, Reachable Cfg.asIs s ∧ s.ws[0]? = some (.ret false) ∧ s.ws[1]? = some .clAcq ∧
      ∀ t, Steps Cfg.asIs s t →
        t.tok = true ∧ tot tokW t.ws = 0 ∧ t.closeTok = false ∧ ∀ (i : Nat), t.ws[i]? ≠ some .clWait :=
  leak_setreadonly_of Cfg.asIs rfl rfl

/-- **KNOWN FINDING, current source**: as long as the extractor reports that `SetReadOnly` does not give the
token back on its `closeC` arm, the race is a run of the model of the current code: `SetReadOnly` has
returned `ErrClosed`, and `Close` never gets the write lock. -/
theorem known_finding_setreadonly_close (hf : codeCfg.setReadOnlyReleasesOnClose = false) :
    ∃ s, Reachable codeCfg s ∧ s.ws[0]? = some (.ret false) ∧ s.ws[1]? = some .clAcq ∧
      ∀ t, Steps codeCfg s t →
        t.tok = true ∧ tot tokW t.ws = 0 ∧ t.closeTok = false ∧ ∀ (i : Nat), t.ws[i]? ≠ some .clWait :=
  leak_setreadonly_of codeCfg code_m hf

/-- the accounting of `released_on_return` fails in the code as it is -/
theorem asIs_not_released : ∃ s, Reachable Cfg.asIs s ∧ ¬ LocksHaveOwners s :=
  ⟨otxLeakSt, ⟨2, otxLeakRun⟩, fun h => by have := h.1; revert this; decide⟩

/-! ### the code as it is now: all four release facts hold, the machine is as coded -/

/-- regenerated tie: the four release facts read off the Go source are all true, `compactionError` has exactly the
cases of `MCfg.asCoded`, `tCompaction` consults `compReadOnly`, `SetReadOnly` / `compactionTransact` talk to the
machine as modelled; un-fixing any of them in the source breaks this `decide` -/
theorem code_all_fixed : codeCfg = Cfg.repaired := by decide

theorem code_covered_all (s : St) (hr : Reachable codeCfg s) : Covered codeCfg s :=
  ⟨code_three_fixed, code_m, Or.inl code_hands_over, Or.inl ⟨by decide, Or.inl hr⟩⟩

/-- for EVERY reachable state of the code's configuration — `SetReadOnly` at any point (also while a
compaction is in its transient-error retry loop, also concurrently with `Close`), storage failures and
corruption errors anywhere -/
theorem code_all_locks_have_owners (s : St) (hr : Reachable codeCfg s) : LocksHaveOwners s :=
  locks_have_owners codeCfg s (code_covered_all s hr)
theorem code_all_progress (s : St) (hr : Reachable codeCfg s) : Progress codeCfg s :=
  progress codeCfg s (code_covered_all s hr)
theorem code_all_recovers_after_faults (s : St) (hr : Reachable codeCfg s) : RecoversAfterFaults codeCfg s :=
  recovers_after_faults codeCfg s (code_covered_all s hr)
theorem code_all_close_returns (s : St) (hr : Reachable codeCfg s) : CloseReturns codeCfg s :=
  close_returns codeCfg s (code_covered_all s hr)
/-- **the exact accounting, full strength**: in every reachable state of the code's configuration the write-lock
token, `compCommitLk` and `tr.lk` are held by exactly their owners, and a call that has returned owns nothing -/
theorem code_all_released_on_return (s : St) (hr : Reachable codeCfg s) : ReleasedOnReturn s :=
  released_on_return codeCfg s (code_covered_all s hr) code_hands_over (by decide)

/-! ## `SetReadOnly` takes effect; the persistent-error state fails fast -/

/-- the `select` on `writeLockC` at the start of `Put` / `Delete` / `Write` (`putSel`), `OpenTransaction` and the
large-batch `Write` (`otxSel`), `CompactRange` (`crSel`), `SetReadOnly` (`srSel`) -/
def AtFirstSelect (p : Pc) : Prop := ∃ q, selNext p = some q

/-- **`SetReadOnly` takes effect**, in every interleaving of the code's configuration.  In every reachable
state in which `compReadOnly` is set — it is set by the step with which `SetReadOnly` returns nil, and never
reset — :
* while the DB is open, `compactionError` is in `hasperr` with `ErrReadOnly`, the write-lock token is in
  `writeLockC`, no thread and no transaction owns it, and for every thread at the first `select` of a write-side
  call — in particular every `Put`, `Delete`, `Write`, `OpenTransaction`, `CompactRange` started later — the
  `compPerErrC` arm is enabled and yields `ErrReadOnly` (the call does not block), and no step moves the thread
  anywhere else (it never gets the lock);
* no call blocks (`Progress`), once failures stop every call completes (`RecoversAfterFaults`), `Close` returns
  (`CloseReturns`).
(After `Close` has closed `closeC` such a call returns `ErrReadOnly` or `ErrClosed`, and never gets the lock either:
`readonly_no_write_after_close`.) -/
theorem setReadOnly_takes_effect (s : St) (hr : Reachable codeCfg s) (hro : s.ro = true) :
    (s.closed = false →
      s.eh = .hasperr ∧ s.ehErr = .readonly ∧ s.tok = true ∧ tot tokW s.ws = 0 ∧ s.trOpen = false ∧
      ∀ (i : Nat) (p : Pc), s.ws[i]? = some p → AtFirstSelect p →
        (∃ t, Step codeCfg false s t ∧ t.ws[i]? = some (.retE .readonly)) ∧
        (∀ f t, Step codeCfg f s t → t.ws[i]? = some p ∨ t.ws[i]? = some (.retE .readonly))) ∧
    (∀ t, Steps codeCfg s t → t.ro = true) ∧
    Progress codeCfg s ∧ RecoversAfterFaults codeCfg s ∧ CloseReturns codeCfg s := by
  have hc := code_covered_all s hr
  have g := covered_goodE codeCfg s hc
  refine ⟨fun hcl => ?_, fun t ht => steps_ro codeCfg s t ht hro, progress codeCfg s hc,
    recovers_after_faults codeCfg s hc, close_returns codeCfg s hc⟩
  obtain ⟨herr, he⟩ := g.1.1.e.2.1 hro
  have heh : s.eh = .hasperr := by
    rcases he with he | he | he
    · exact he
    · have := g.1.1.a.2.2.2.1 he; rw [hcl] at this; cases this
    · have := g.1.1.a.2.2.1 he; rw [hcl] at this; cases this
  have hk : s.ehTok = true := (g.1.1.e.2.2 hro hcl).1
  have hE : tot tokW s.ws + b2n s.trOpen + b2n s.ehTok + b2n s.closeTok = b2n s.tok := g.2 hcl
  have c4 := b2n_le s.tok
  rw [hk] at hE; simp only [b2n_true] at hE
  have htok : s.tok = true := by cases h : s.tok <;> simp_all
  have htr : s.trOpen = false := by cases h : s.trOpen <;> simp_all <;> omega
  refine ⟨heh, herr, htok, by omega, htr, fun i p hi ⟨q, hq⟩ => ⟨?_, fun f t hst => ?_⟩⟩
  · refine ⟨_, Step.selPerErr s i p q hi hq (offPer_of code_m heh), ?_⟩
    have hlt : i < s.ws.length := by
      rcases Nat.lt_or_ge i s.ws.length with h | h
      · exact h
      · rw [List.getElem?_eq_none h] at hi; cases hi
    simp [herr, hlt]
  · have := sel_thread_step codeCfg s t f hst i p q hi hq htok hcl
    rwa [herr] at this

/-- **The persistent-error state fails fast**, in every interleaving of the code's configuration.  In every
reachable state in which `compactionError` is in `hasperr` (it got a corruption error or `ErrReadOnly`):
* every thread at a blocking point of a write-side call has its error arm enabled: at the first `select` the
  `compPerErrC` arm (the call returns the machine's error), while sending a compaction command or waiting for its
  ack the `compErrC` arm, in `SetReadOnly`'s second `select` the `compPerErrC` arm;
* the state and its error last until `Close`;
* once `compWriteLocking` is set (the machine has taken `ErrReadOnly`, or it has put its own token into
  `writeLockC` — it does so as soon as the lock is free), the token stays in `writeLockC` until `Close`, and while
  the DB is open no thread gets the lock: a thread at a first `select` moves only by returning the machine's
  error. -/
theorem persistent_error_fails_fast (s : St) (hr : Reachable codeCfg s) (he : s.eh = .hasperr) :
    (∀ (i : Nat) (p : Pc), s.ws[i]? = some p →
      (∀ q, selNext p = some q → ∃ t, Step codeCfg false s t ∧ t.ws[i]? = some (.retE s.ehErr)) ∧
      (∀ b site lg, p = .cwSend b site lg → ∃ t, Step codeCfg false s t ∧ t.ws[i]? = some (onErr site lg)) ∧
      (∀ b site lg, p = .cwAck b site lg → ∃ t, Step codeCfg false s t ∧ t.ws[i]? = some (onErr site lg)) ∧
      (p = .srSet → ∃ t, Step codeCfg false s t ∧ t.ws[i]? = some (.retE s.ehErr))) ∧
    (∀ f t, Step codeCfg f s t → (t.eh = .hasperr ∧ t.ehErr = s.ehErr) ∨ s.closed = true) ∧
    (s.cwl = true → s.closed = false →
      s.tok = true ∧ tot tokW s.ws = 0 ∧
      (∀ f t, Step codeCfg f s t → t.ehTok = true ∧ t.cwl = true) ∧
      ∀ (i : Nat) (p : Pc), s.ws[i]? = some p → AtFirstSelect p →
        ∀ f t, Step codeCfg f s t → t.ws[i]? = some p ∨ t.ws[i]? = some (.retE s.ehErr)) := by
  have hc := code_covered_all s hr
  have g := covered_goodE codeCfg s hc
  have hm := code_m
  have hset : ∀ (i : Nat) (p q : Pc), s.ws[i]? = some p → (s.ws.set i q)[i]? = some q := by
    intro i p q hi
    have hlt : i < s.ws.length := by
      rcases Nat.lt_or_ge i s.ws.length with h | h
      · exact h
      · rw [List.getElem?_eq_none h] at hi; cases hi
    simp [hlt]
  refine ⟨fun i p hi => ⟨?_, ?_, ?_, ?_⟩, fun f t hst => step_hasperr codeCfg s t f hst he, fun hcw hcl => ?_⟩
  · intro q hq
    exact ⟨_, Step.selPerErr s i p q hi hq (offPer_of hm he), hset i p _ hi⟩
  · rintro b site lg rfl
    exact ⟨_, Step.cwSendErr s i b site lg hi (Or.inl (offErr_of hm he)), hset i _ _ hi⟩
  · rintro b site lg rfl
    refine ⟨_, Step.cwAckErr s i b site lg hi (Or.inl (offErr_of hm he)), ?_⟩
    cases b <;> simpa [St.setBg] using hset i _ _ hi
  · rintro rfl
    exact ⟨_, Step.srPerErr s i hi (offPer_of hm he), hset i _ _ hi⟩
  · have hH := (exact_handsOver codeCfg code_three_fixed hm code_hands_over (by decide) s (Or.inl hr)).2
    obtain ⟨hk, hw⟩ := hH.1 hcw (by rw [he]; simp)
    have hE : tot tokW s.ws + b2n s.trOpen + b2n s.ehTok + b2n s.closeTok = b2n s.tok := g.2 hcl
    have c4 := b2n_le s.tok
    rw [hk] at hE; simp only [b2n_true] at hE
    have htok : s.tok = true := by cases h : s.tok <;> simp_all
    exact ⟨htok, by omega,
      fun f t hst => by
        have := step_hasperr_locked codeCfg s t f hst he hk htok hw hcl
        exact ⟨this.1, by rw [this.2]; exact hcw⟩,
      fun i p hi ⟨q, hq⟩ f t hst => sel_thread_step codeCfg s t f hst i p q hi hq htok hcl⟩

/-! ### non-vacuity -/

/-- `SetReadOnly` arrives while a table compaction is in the retry loop after a transient error: it returns nil,
the retry completes (reporting through `compPerErrC`), `tCompaction` parks, a `Close` returns -/
example : Reachable Cfg.repaired stRetryRO ∧ stRetryRO.ws = [.ret false, .ret true, .ret true] := ⟨⟨3, runRetryRO⟩, rfl⟩

/-- after `SetReadOnly` returned nil a `Put` is at its `select`: the state of `setReadOnly_takes_effect` -/
example : Reachable Cfg.repaired (stRO .putSel) ∧ (stRO .putSel).ro = true ∧ (stRO .putSel).closed = false ∧
    AtFirstSelect .putSel :=
  ⟨⟨2, runRO.step (Step.startPut _ 1 rfl)⟩, rfl, rfl, ⟨_, rfl⟩⟩

/-- a corruption puts the machine into `hasperr`; it then takes the write lock: the state of the last part of
`persistent_error_fails_fast` -/
example : Reachable Cfg.repaired (stCorrupt .idle true |> fun s => { s with ehTok := true, cwl := true }) :=
  ⟨2, runCorrupt.step (Step.ehAcquire _ rfl rfl)⟩

/-! ## every `select` case of the machine that these theorems need: the run that hangs without it

Each configuration is the code's with one case of `compactionError` removed; the final state of the run has a
call pending and no successor at all (`canStep … = false` is `decide`d, `stuck_of_canStep`): a deadlock. -/

/-- a call is pending in `s`, and `s` has no successor, with or without storage failures -/
def Deadlock (cfg : Cfg) (s : St) : Prop :=
  (∃ (i : Nat) (p : Pc), s.ws[i]? = some p ∧ pending p = true) ∧ ¬ ∃ f t, Step cfg f s t

/-- **`haserr` without `err == ErrReadOnly`** (the seeded change): `SetReadOnly` called during the retry loop of a
compaction that failed with a transient error returns nil, the machine stays in `haserr` and goes back to
`noerr` when the retry succeeds; the token stays in `writeLockC`, nobody offers `compPerErrC`: a later `Put`
blocks for ever. -/
theorem hang_without_haserr_readonly_case :
    ∃ s, Reachable cfgNoHaserrRO s ∧ s.ws[1]? = some (.ret true) ∧ s.ws[2]? = some .putSel ∧ Deadlock cfgNoHaserrRO s :=
  ⟨_, ⟨3, runNoHaserrRO_put⟩, rfl, rfl, ⟨2, _, rfl, rfl⟩, stuck_of_canStep _ _ (by decide)⟩

/-- … and so does a later `Close`, in `db.writeLockC <- struct{}{}` -/
theorem close_hangs_without_haserr_readonly_case :
    ∃ s, Reachable cfgNoHaserrRO s ∧ s.ws[2]? = some .clAcq ∧ Deadlock cfgNoHaserrRO s :=
  ⟨_, ⟨3, runNoHaserrRO_close⟩, rfl, ⟨2, _, rfl, rfl⟩, stuck_of_canStep _ _ (by decide)⟩

/-- **`noerr` without `err == ErrReadOnly`**: `SetReadOnly` returns nil with the machine in `haserr`; a later
`Put` blocks for ever. -/
theorem hang_without_noerr_readonly_case :
    ∃ s, Reachable cfgNoNoerrRO s ∧ s.ws[0]? = some (.ret true) ∧ s.ws[1]? = some .putSel ∧ Deadlock cfgNoNoerrRO s :=
  ⟨_, ⟨2, runNoNoerrRO⟩, rfl, rfl, ⟨1, _, rfl, rfl⟩, stuck_of_canStep _ _ (by decide)⟩

/-- **`noerr` without `case err = <-db.compErrSetC`**: the first compaction blocks in `compactionTransact`'s
`select`, `CompactRange` waits for its ack for ever. -/
theorem hang_without_noerr_recv :
    ∃ s, Reachable cfgNoNoerrRecv s ∧ s.ws[0]? = some (.cwAck true .crRange false) ∧ Deadlock cfgNoNoerrRecv s :=
  ⟨_, ⟨1, runNoNoerrRecv⟩, rfl, ⟨0, _, rfl, rfl⟩, stuck_of_canStep _ _ (by decide)⟩

/-- **`haserr` without `case err = <-db.compErrSetC`**: after a transient error the retry cannot report its
success; `SetReadOnly` holds the token and cannot post `ErrReadOnly`: it blocks for ever (and with it every
writer). -/
theorem hang_without_haserr_recv :
    ∃ s, Reachable cfgNoHaserrRecv s ∧ s.ws[1]? = some .srSet ∧ Deadlock cfgNoHaserrRecv s :=
  ⟨_, ⟨2, runNoHaserrRecv⟩, rfl, ⟨1, _, rfl, rfl⟩, stuck_of_canStep _ _ (by decide)⟩

/-- **`hasperr` without `case db.compPerErrC <- err`**: after `SetReadOnly` returned nil a `Put` blocks for ever. -/
theorem hang_without_hasperr_compPerErrC :
    ∃ s, Reachable cfgNoPerErr s ∧ s.ws[0]? = some (.ret true) ∧ s.ws[1]? = some .putSel ∧ Deadlock cfgNoPerErr s :=
  ⟨_, ⟨2, runNoPerErr⟩, rfl, rfl, ⟨1, _, rfl, rfl⟩, stuck_of_canStep _ _ (by decide)⟩

/-- **`hasperr` without `case db.compErrC <- err`**: a `CompactRange` that wants to send its command while
`tCompaction` is busy, when `SetReadOnly` makes `tCompaction` park, blocks for ever. -/
theorem hang_without_hasperr_compErrC :
    ∃ s, Reachable cfgNoHasperrErr s ∧ s.ws[1]? = some (.cwSend true .crRange false) ∧ Deadlock cfgNoHasperrErr s :=
  ⟨_, ⟨3, runNoHasperrErr⟩, rfl, ⟨1, _, rfl, rfl⟩, stuck_of_canStep _ _ (by decide)⟩

/-- **`hasperr` without `case <-db.closeC`**: after `SetReadOnly`, `Close` blocks for ever in
`db.writeLockC <- struct{}{}`. -/
theorem hang_without_hasperr_closeC :
    ∃ s, Reachable cfgNoHasperrClose s ∧ s.ws[1]? = some .clAcq ∧ Deadlock cfgNoHasperrClose s :=
  ⟨_, ⟨2, runNoHasperrClose⟩, rfl, ⟨1, _, rfl, rfl⟩, stuck_of_canStep _ _ (by decide)⟩

/-- **`hasperr` whose `closeC` case does not give the token back** (the configuration as found, `Close` with its
plain send): the same. -/
theorem hang_without_hasperr_giveback :
    ∃ s, Reachable cfgNoGiveBack s ∧ s.ws[1]? = some .clAcq ∧ Deadlock cfgNoGiveBack s :=
  ⟨_, ⟨2, runNoGiveBack⟩, rfl, ⟨1, _, rfl, rfl⟩, stuck_of_canStep _ _ (by decide)⟩

/-- **`hasperr` whose `closeC` case does not close `compLockedC`** (the code's configuration): the machine returns
with the lock, `Close` waits in its `select` for ever. -/
theorem hang_without_hasperr_keep :
    ∃ s, Reachable cfgNoKeep s ∧ s.ws[1]? = some .clAcq ∧ Deadlock cfgNoKeep s :=
  ⟨_, ⟨2, runNoKeep⟩, rfl, ⟨1, _, rfl, rfl⟩, stuck_of_canStep _ _ (by decide)⟩

/-- **`Close` without the `compLockedC` arm** while the machine keeps the lock (half of the repair of D42): `Close`
blocks for ever in `db.writeLockC <- struct{}{}`. -/
theorem hang_without_close_select :
    ∃ s, Reachable cfgNoCloseSel s ∧ s.ws[1]? = some .clAcq ∧ Deadlock cfgNoCloseSel s :=
  ⟨_, ⟨2, runNoCloseSel⟩, rfl, ⟨1, _, rfl, rfl⟩, stuck_of_canStep _ _ (by decide)⟩

/-- **`hasperr` without `case db.writeLockC <- struct{}{}`** breaks `persistent_error_fails_fast`, not liveness:
after a corruption the machine is in `hasperr`, it has no step of its own left (it never takes the lock), and a
`Put` started afterwards succeeds. -/
theorem write_succeeds_without_hasperr_lock :
    ∃ s t, Reachable cfgNoLock s ∧ s.eh = .hasperr ∧ s.ehErr = .corrupt ∧ s.ws[1]? = some .idle ∧
      ehEn cfgNoLock s = false ∧ Steps cfgNoLock s t ∧ t.ws[1]? = some (.ret true) :=
  ⟨_, _, ⟨2, runCorruptNoLock⟩, rfl, rfl, rfl, by decide, runNoLock_put, rfl⟩

/-! ## the defect repaired by 832d000: the write lock could be lost -/

/-- **DEFECT (repaired by 832d000)**, on the configuration of the source before that commit: a compaction reports
a corruption while `SetReadOnly` is between its two `select`s, then `Close`: `compactionError` (in `hasperr`,
reading the `compWriteLocking` that `SetReadOnly` had set) takes `SetReadOnly`'s token out on `closeC`, `Close`
acquires the lock, `SetReadOnly`'s `closeC` arm (`select { case <-db.writeLockC: default: }`) takes `Close`'s token
out.  In the reachable state `s`, `Close` (thread 2) is in `db.closeW.Wait()` owning the lock (`closeTok`), and
`writeLockC` is empty; a `Put` (thread 3) that had passed `db.ok()` before `Close` takes the `writeLockC` arm of
its `select` and is inside `writeLocked` (state `t`) while `Close` goes on to close the journal.  (Reproduced on
that source by `vh -prop C09`, signature `setReadOnly:corruption-then-close:write-lock-lost`.) -/
theorem write_lock_lost :
    ∃ s t, Reachable Cfg.before832 s ∧ s.ws[2]? = some .clWait ∧ s.closeTok = true ∧ s.tok = false ∧
      ¬ ReleasedOnReturn s ∧ Step Cfg.before832 false s t ∧ t.ws[3]? = some .putFlush ∧ t.closeTok = true :=
  ⟨_, _, ⟨4, runLost⟩, rfl, rfl, rfl, fun h => by have := h.1; revert this; decide, stepLost, rfl, rfl⟩

/-- before 832d000 the exact accounting did not hold in every reachable state -/
theorem released_on_return_fails_before_832d000 : ¬ ∀ s, Reachable Cfg.before832 s → ReleasedOnReturn s := by
  intro h
  obtain ⟨s, _, hr, _, _, _, hn, _⟩ := write_lock_lost
  exact hn (h s hr)

/-- the same schedule in the code's configuration: `Close` ends up owning the one token in `writeLockC` -/
example : Reachable Cfg.repaired stKept ∧ stKept.closeTok = true ∧ stKept.tok = true ∧ stKept.ws[2]? = some .clWait :=
  ⟨⟨4, runKept⟩, rfl, rfl, rfl⟩

/-! ## the defect repaired by wp51 (D42): a write on a read-only DB could take the lock given back for `Close` -/

/-- **DEFECT (repaired, D42)**, on the configuration of the source as found (`Cfg.asFound`: after 832d000, the
`closeC` case of `hasperr` gives the lock back, `Close` takes it with a plain send) — a decided trace.
`SetReadOnly` (thread 0) returned nil; a `Put` (thread 1) called afterwards passed `db.ok()` and reached its `select`;
`Close` (thread 2) closed `closeC`, `compactionError` took its token back and exited.  In the reachable state `s` the
DB is read-only and closing, `writeLockC` is empty, `Close` has not acquired it yet, and the `Put`'s `select` has two
ready arms, `writeLockC` and `closeC`: the step to `t` takes the lock — the `Put` is inside `writeLocked` — and the run
goes on to `u`, where it has written to the journal and the memdb of a read-only DB and returned nil.  (With a DB
*opened* read-only there is no journal: nil dereference, the lock stays taken, `Close` hangs.)  The same window
exists after a corruption error.  Reproduced on that source by `vh -prop C18` / `C09`, signatures
`put:readonly-close-race:write-accepted`, `put:readonly-close-race:panic:journal.(*Writer).Next`,
`close:close-race:hang:after-client-panic`. -/
theorem readonly_write_slips_through_on_close :
    ∃ s t u, Reachable Cfg.asFound s ∧ s.ro = true ∧ s.closed = true ∧ s.tok = false ∧
      s.ws[0]? = some (.ret true) ∧ s.ws[1]? = some .putSel ∧ s.ws[2]? = some .clAcq ∧
      Step Cfg.asFound false s t ∧ t.ws[1]? = some .putFlush ∧ tot tokW t.ws = 1 ∧
      Steps Cfg.asFound t u ∧ u.ro = true ∧ u.ws[1]? = some (.ret true) :=
  ⟨_, _, stROWrite, ⟨3, runROGap⟩, rfl, rfl, rfl, rfl, rfl, rfl, stepROGap, rfl, by decide,
    ((Steps.refl _).step (Step.putNoWait _ 1 rfl)).step (Step.putJournalOk _ 1 rfl) |>.step
      (Step.putUnlock _ 1 true rfl), rfl, rfl⟩

/-- the token is in `writeLockC` and belongs to `compactionError` or to `Close`: no thread is between acquiring and
releasing the write lock, none between the two `select`s of `SetReadOnly`, no transaction is open -/
def NoWriteLockHeld (s : St) : Prop :=
  s.tok = true ∧ (s.ehTok = true ∨ s.closeTok = true) ∧ tot tokW s.ws = 0 ∧ tot srW s.ws = 0 ∧ s.trOpen = false

/-- **A read-only DB takes no write, also while it is being closed** (the repair of D42), in every interleaving of
the code's configuration — storage failures, corruption errors, `SetReadOnly`, `Close` anywhere.  From every
reachable state in which `compWriteLocking` is set — `compactionError` holds the write lock: `SetReadOnly` returned nil
(`compReadOnly` set), or the machine took the lock after a corruption — , in every state of every continuation
(`Close` not yet called, running, or returned):
* the token is in `writeLockC` and belongs to `compactionError` or to `Close`; no thread is between acquiring and
  releasing the write lock (no `Put`/`Delete`/`Write`, `OpenTransaction`, `CompactRange`: `tot tokW = 0`; no
  `SetReadOnly` between its `select`s: `tot srW = 0`), no transaction is open;
* a thread at the first `select` of a write-side call moves only by returning the machine's error (`compPerErrC`) or
  `ErrClosed` — it never takes the `writeLockC` arm;
* and still nothing blocks: `Progress`, `RecoversAfterFaults`, `CloseReturns` (`Close`'s wait is satisfied by
  `compLockedC`: step `clAcqKept`). -/
theorem readonly_no_write_after_close (s : St) (hr : Reachable codeCfg s) (hw : s.cwl = true ∨ s.ro = true) :
    (∀ t, Steps codeCfg s t →
      NoWriteLockHeld t ∧
      (∀ (i : Nat) (p : Pc), t.ws[i]? = some p → AtFirstSelect p → ∀ f u, Step codeCfg f t u →
        u.ws[i]? = some p ∨ u.ws[i]? = some (.retE t.ehErr) ∨ u.ws[i]? = some (.ret false)) ∧
      Progress codeCfg t ∧ RecoversAfterFaults codeCfg t ∧ CloseReturns codeCfg t) := by
  intro t ht
  have hk := kept_locked codeCfg code_keeps_lock s hr hw
  have hrt : Reachable codeCfg t := by obtain ⟨n, h0⟩ := hr; exact ⟨n, Steps.trans h0 ht⟩
  have hkt := kept_locked codeCfg code_keeps_lock t hrt (Or.inl (steps_cwl codeCfg s t ht hk.1))
  have hc := code_covered_all t hrt
  exact ⟨⟨hkt.2.1, hkt.2.2.1, hkt.2.2.2.1, hkt.2.2.2.2.1, hkt.2.2.2.2.2⟩,
    fun i p hi ⟨q, hq⟩ f u hst => sel_thread_step_tok codeCfg t u f hst i p q hi hq hkt.2.1,
    progress codeCfg t hc, recovers_after_faults codeCfg t hc, close_returns codeCfg t hc⟩

/-- the same for every repaired configuration (`Cfg.Keeps`), in particular `Cfg.repaired` -/
theorem repaired_no_write_after_close (s : St) (hr : Reachable Cfg.repaired s) (hw : s.cwl = true ∨ s.ro = true) :
    ∀ t, Steps Cfg.repaired s t → NoWriteLockHeld t := by
  intro t ht
  have hkp : Cfg.repaired.Keeps := ⟨⟨rfl, rfl, rfl⟩, rfl, rfl, by decide, rfl⟩
  have hk := kept_locked _ hkp s hr hw
  have hrt : Reachable Cfg.repaired t := by obtain ⟨n, h0⟩ := hr; exact ⟨n, Steps.trans h0 ht⟩
  have hkt := kept_locked _ hkp t hrt (Or.inl (steps_cwl _ s t ht hk.1))
  exact ⟨hkt.2.1, hkt.2.2.1, hkt.2.2.2.1, hkt.2.2.2.2.1, hkt.2.2.2.2.2⟩

/-- non-vacuity: the schedule of `readonly_write_slips_through_on_close` in the code's configuration — the `Put`
returns `ErrClosed`, `Close` returns through the `compLockedC` arm, the token never left `writeLockC` -/
example : Reachable Cfg.repaired stROKept ∧ stROKept.ro = true ∧ stROKept.ws = [.ret true, .ret false, .ret true] ∧
    NoWriteLockHeld stROKept :=
  ⟨⟨3, runROKept⟩, rfl, rfl, rfl, Or.inr rfl, by decide, by decide, rfl⟩

/-- the accounting fails in the state of the trace: as found, the DB is read-only and nobody holds its write lock -/
theorem asFound_lock_not_kept : ¬ ∀ s, Reachable Cfg.asFound s → s.ro = true → NoWriteLockHeld s := by
  intro h
  have := (h stROGap ⟨3, runROGap⟩ rfl).1
  revert this; decide

/-! ## `OpenTransaction` racing `Close` (D43; `Model/TrClose.lean`) -/

section TxClose
open GoLevel.TrClose (OPc CPc)

/-- **the tie of the repair of D43**: `OpenTransaction` does `db.trMu.Lock(); db.tr = tr; closed := db.isClosed();
db.trMu.Unlock()` and discards its transaction itself when `closed`; `setDone` clears `db.tr` under `trMu`; `Close`
reads `db.tr` under `trMu`, once, after `setClosed` and `close(db.closeC)`, and discards what it saw (regenerated
facts `trOpenRegistersThenChecksClosed`, `trCloseReadsUnderMuAfterClosed`) -/
theorem code_tx_registration : TrClose.codeCfg = TrClose.Cfg.repaired := by decide

theorem tx_seen (s : TrClose.St) (hr : TrClose.Reachable TrClose.codeCfg s) : TrClose.Inv s ∧ TrClose.SeenInv s := by
  obtain ⟨n, c, hs⟩ := hr
  have c1 : TrClose.codeCfg.otxChecks = true := by decide
  have c2 : TrClose.codeCfg.closeLocked = true := by decide
  exact TrClose.steps_inv _ (fun s => TrClose.Inv s ∧ TrClose.SeenInv s)
    (fun s t h g => ⟨TrClose.step_inv _ s t h g.1, TrClose.step_seenInv _ c1 c2 s t h g.1 g.2⟩) _ _ hs
    ⟨TrClose.inv_init n c, TrClose.seenInv_init n c⟩

/-- **No transaction is left in a client's hands behind `Close`'s back**, in every interleaving of any number of
`OpenTransaction` calls (each followed by whatever its client does with the transaction) with `Close`, for the
code's configuration.  In every reachable state in which `Close` is at (or past) the acquisition of the write lock:
* no goroutine is `live` (holding a transaction `OpenTransaction` returned, which nobody has ended): every transaction
  that was open when `Close` looked at `db.tr` was the one it saw, and has been discarded by `Close`
  (`endedClose`); every `OpenTransaction` that registers later sees the closed flag and discards its own transaction
  (`selfDiscard`, then `ErrClosed`);
* whoever holds the write lock is such an `OpenTransaction` on its way out (`body`: it may still fail or register;
  `reg`; `selfDiscard`), or `Close` itself;
* the token in `writeLockC` has exactly that owner. -/
theorem tx_close_no_live_transaction (s : TrClose.St) (hr : TrClose.Reachable TrClose.codeCfg s)
    (hc : s.cl = .atAcq ∨ s.cl = .done) :
    (∀ (i : Nat), s.os[i]? ≠ some .live) ∧
    (∀ (i : Nat) (p : OPc), s.os[i]? = some p → TrClose.holds p = true →
      p = .body ∨ p = .reg ∨ p = .selfDiscard false) ∧
    (s.tok = true → s.cl = .done ∨ ∃ (i : Nat) (p : OPc), s.os[i]? = some p ∧ TrClose.holds p = true) := by
  obtain ⟨inv, k⟩ := tx_seen s hr
  have hp : s.cl.pastDiscard = true := by rcases hc with h | h <;> rw [h] <;> rfl
  refine ⟨k.2 hp, fun i p hi hh => ?_, fun ht => ?_⟩
  · have := k.2 hp i
    cases p <;> simp_all [TrClose.holds]
    rename_i e; cases e <;> simp_all [TrClose.holds]
  · have hne := inv.tokOwner.mp ht
    cases ho : s.owner with
    | none => exact absurd ho hne
    | some o =>
      cases o with
      | close => exact Or.inl (inv.closeOwner.mp ho)
      | thr i =>
        have hl := inv.ownerValid i ho
        have hi : s.os[i]? = some s.os[i] := List.getElem?_eq_getElem hl
        exact Or.inr ⟨i, _, hi, (inv.thrOwner i _ hi).mpr ho⟩

/-- **`Close` acquires the write lock in every schedule** of the code's configuration — clients that take `ErrClosed`
from `Commit` as final and never call `Discard` included (`St.coop = false`): every step decreases `measure`, so every
run is finite whatever the scheduler; from every state some run cannot be extended; and a run from a reachable state
in which `Close` has been called that cannot be extended ends with `Close` past the acquisition. -/
theorem tx_close_returns (s : TrClose.St) (hr : TrClose.Reachable TrClose.codeCfg s) (hs : s.cl ≠ .idle) :
    (∀ t u, TrClose.Step TrClose.codeCfg t u → TrClose.measure u < TrClose.measure t) ∧
    (∃ t, TrClose.Steps TrClose.codeCfg s t ∧ ¬ ∃ u, TrClose.Step TrClose.codeCfg t u) ∧
    (∀ t, TrClose.Steps TrClose.codeCfg s t → (¬ ∃ u, TrClose.Step TrClose.codeCfg t u) → t.cl = .done) := by
  refine ⟨TrClose.step_measure _, TrClose.settle _ s, fun t ht hq => ?_⟩
  have hst : s.cl.started = true := by cases h : s.cl <;> simp_all [TrClose.CPc.started]
  have hrt : TrClose.Reachable TrClose.codeCfg t := by
    obtain ⟨n, c, h0⟩ := hr; exact ⟨n, c, TrClose.Steps.trans h0 ht⟩
  obtain ⟨inv, k⟩ := tx_seen t hrt
  cases hd : t.cl with
  | done => rfl
  | _ =>
    exact absurd (TrClose.close_progress _ t inv k (TrClose.steps_started _ s t ht hst) (by rw [hd]; simp)) hq

/-- `OpenTransaction` (goroutine 0) holds the write lock and has not registered yet; `Close` set the flag, closed
`closeC`, looked at `db.tr` (nil) and waits for the write lock; `OpenTransaction` registers — without a look at the
flag — and returns the transaction; its client gets `ErrClosed` from `Commit` and takes that as final -/
def stTxHang : TrClose.St :=
  { os := [.live], cl := .atAcq, tok := true, closed := true, closeC := true, tr := some 0, owner := some (.thr 0) }

/-- **DEFECT (repaired by bfb31ce, D43)**, a decided run of the configuration as found (`Close` looks at `db.tr`
once, `OpenTransaction` registers without looking at the closed flag): `stTxHang` is reachable, a transaction is in
its client's hands on a closed DB, `Close` is at `db.writeLockC <- struct{}{}`, and NO step is enabled: `Close` hangs
until somebody calls `Discard`.  (Reproduced on that source by `vh -prop C18` / `C09`, signature
`close:close-race:hang:open-transaction-not-discarded`.) -/
theorem tx_close_hangs_as_found :
    TrClose.Reachable TrClose.Cfg.asFound stTxHang ∧ stTxHang.cl = .atAcq ∧ stTxHang.os[0]? = some .live ∧
    stTxHang.closed = true ∧ ¬ ∃ t, TrClose.Step TrClose.Cfg.asFound stTxHang t := by
  refine ⟨⟨1, false, ?_⟩, rfl, rfl, rfl, ?_⟩
  · have h := TrClose.Steps.refl (cfg := TrClose.Cfg.asFound) (TrClose.init 1 false)
    have h := h.step (TrClose.Step.oStart _ 0 rfl)
    have h := h.step (TrClose.Step.oSelTok _ 0 rfl rfl)
    have h := h.step (TrClose.Step.oBodyOk _ 0 rfl)
    have h := h.step (TrClose.Step.cStart _ rfl)
    have h := h.step (TrClose.Step.cCloseC _ rfl)
    have h := h.step (TrClose.Step.cRead _ rfl)
    have h := h.step (TrClose.Step.cDiscardNone _ rfl)
    have h := h.step (TrClose.Step.oReg _ 0 rfl)
    exact h
  · rintro ⟨t, h⟩
    cases h <;> first
      | (rename_i i hi; rcases i with _ | i <;> simp [stTxHang] at hi; done)
      | (rename_i i hi _; rcases i with _ | i <;> simp [stTxHang] at hi; done)
      | (rename_i i _ hi; rcases i with _ | i <;> simp [stTxHang] at hi; done)
      | (rename_i hc; simp [stTxHang] at hc; done)
      | (rename_i hc _; simp [stTxHang] at hc; done)
      | (rename_i _ hc; simp [stTxHang] at hc; done)
      | (rename_i _ _ hc _; simp [stTxHang] at hc; done)

/-- the registration under `trMu` alone is not enough: with the unsynchronised look at `db.tr` (a data race: it may
miss a registration that happened before) `Close` misses a transaction that was opened BEFORE it was called -/
theorem tx_close_hangs_with_racy_read :
    TrClose.Reachable { otxChecks := true, closeLocked := false } stTxHang ∧
    ¬ ∃ t, TrClose.Step { otxChecks := true, closeLocked := false } stTxHang t := by
  refine ⟨⟨1, false, ?_⟩, ?_⟩
  · have h := TrClose.Steps.refl (cfg := { otxChecks := true, closeLocked := false }) (TrClose.init 1 false)
    have h := h.step (TrClose.Step.oStart _ 0 rfl)
    have h := h.step (TrClose.Step.oSelTok _ 0 rfl rfl)
    have h := h.step (TrClose.Step.oBodyOk _ 0 rfl)
    have h := h.step (TrClose.Step.oReg _ 0 rfl)
    have h := h.step (TrClose.Step.cStart _ rfl)
    have h := h.step (TrClose.Step.cCloseC _ rfl)
    have h := h.step (TrClose.Step.cReadStale _ rfl rfl)
    have h := h.step (TrClose.Step.cDiscardNone _ rfl)
    exact h
  · rintro ⟨t, h⟩
    cases h <;> first
      | (rename_i i hi; rcases i with _ | i <;> simp [stTxHang] at hi; done)
      | (rename_i i hi _; rcases i with _ | i <;> simp [stTxHang] at hi; done)
      | (rename_i i _ hi; rcases i with _ | i <;> simp [stTxHang] at hi; done)
      | (rename_i hc; simp [stTxHang] at hc; done)
      | (rename_i hc _; simp [stTxHang] at hc; done)
      | (rename_i _ hc; simp [stTxHang] at hc; done)
      | (rename_i _ _ hc _; simp [stTxHang] at hc; done)

/-- non-vacuity: the schedule of `tx_close_hangs_as_found` in the code's configuration — `OpenTransaction` sees the
flag, discards its transaction, returns `ErrClosed`; `Close` acquires the lock -/
example : TrClose.Reachable TrClose.Cfg.repaired
    { os := [.retClosed], cl := .done, tok := true, closed := true, closeC := true, owner := some .close } := by
  refine ⟨1, false, ?_⟩
  have h := TrClose.Steps.refl (cfg := TrClose.Cfg.repaired) (TrClose.init 1 false)
  have h := h.step (TrClose.Step.oStart _ 0 rfl)
  have h := h.step (TrClose.Step.oSelTok _ 0 rfl rfl)
  have h := h.step (TrClose.Step.oBodyOk _ 0 rfl)
  have h := h.step (TrClose.Step.cStart _ rfl)
  have h := h.step (TrClose.Step.cCloseC _ rfl)
  have h := h.step (TrClose.Step.cRead _ rfl)
  have h := h.step (TrClose.Step.cDiscardNone _ rfl)
  have h := h.step (TrClose.Step.oReg _ 0 rfl)
  have h := h.step (TrClose.Step.oSelfDiscard _ 0 false rfl)
  have h := h.step (TrClose.Step.cAcq _ rfl rfl)
  exact h

end TxClose

def theorems : List String :=
  ["GoLevel.C09.code_three_fixed", "GoLevel.C09.code_comperr_machine", "GoLevel.C09.code_hands_over",
   "GoLevel.C09.code_all_fixed",
   "GoLevel.C09.code_all_released_on_return", "GoLevel.C09.code_all_locks_have_owners",
   "GoLevel.C09.code_all_progress", "GoLevel.C09.code_all_recovers_after_faults",
   "GoLevel.C09.code_all_close_returns",
   "GoLevel.C09.setReadOnly_takes_effect", "GoLevel.C09.persistent_error_fails_fast",
   "GoLevel.C09.hang_without_haserr_readonly_case", "GoLevel.C09.close_hangs_without_haserr_readonly_case",
   "GoLevel.C09.hang_without_noerr_readonly_case", "GoLevel.C09.hang_without_noerr_recv",
   "GoLevel.C09.hang_without_haserr_recv", "GoLevel.C09.hang_without_hasperr_compPerErrC",
   "GoLevel.C09.hang_without_hasperr_compErrC", "GoLevel.C09.hang_without_hasperr_closeC",
   "GoLevel.C09.hang_without_hasperr_giveback", "GoLevel.C09.hang_without_hasperr_keep",
   "GoLevel.C09.hang_without_close_select", "GoLevel.C09.write_succeeds_without_hasperr_lock",
   "GoLevel.C09.write_lock_lost", "GoLevel.C09.released_on_return_fails_before_832d000",
   "GoLevel.C09.readonly_write_slips_through_on_close", "GoLevel.C09.readonly_no_write_after_close",
   "GoLevel.C09.repaired_no_write_after_close", "GoLevel.C09.asFound_lock_not_kept",
   "GoLevel.C09.code_keeps_lock", "GoLevel.C09.code_m", "GoLevel.C09.asFound_covered",
   "GoLevel.C09.code_tx_registration", "GoLevel.C09.tx_close_no_live_transaction", "GoLevel.C09.tx_close_returns",
   "GoLevel.C09.tx_close_hangs_as_found", "GoLevel.C09.tx_close_hangs_with_racy_read",
   "GoLevel.C09.released_on_return", "GoLevel.C09.released_on_return_partial", "GoLevel.C09.locks_have_owners",
   "GoLevel.C09.nothing_held_when_quiet", "GoLevel.C09.progress",
   "GoLevel.C09.recovers_after_faults", "GoLevel.C09.close_returns",
   "GoLevel.C09.code_released_on_return", "GoLevel.C09.code_progress",
   "GoLevel.C09.code_recovers_after_faults", "GoLevel.C09.code_close_returns",
   "GoLevel.C09.repaired_released_on_return", "GoLevel.C09.repaired_progress",
   "GoLevel.C09.repaired_recovers_after_faults", "GoLevel.C09.repaired_close_returns",
   "GoLevel.C09.before832_covered",
   "GoLevel.C09.known_finding_setreadonly_close", "GoLevel.C09.leak_setreadonly_of",
   "GoLevel.C09.leak_opentx", "GoLevel.C09.leak_commit", "GoLevel.C09.leak_largebatch",
   "GoLevel.C09.leak_setreadonly", "GoLevel.C09.asIs_not_released"]

end GoLevel.C09
