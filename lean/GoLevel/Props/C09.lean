import GoLevel.Proofs.LocksLive
import GoLevel.Proofs.LocksWitness
import GoLevel.Proofs.LocksOrphanEh
import GoLevel.Proofs.LocksOrphanTx
import GoLevel.Proofs.LocksCloseWait
/-!
# Property C09 — every call returns; a failing call releases what it acquired; the DB recovers

"Under every interleaving of clients, background work, storage failures and Close, each Put, Write, Get,
iterator step, OpenTransaction, Commit, Discard, CompactRange and Close eventually returns: concurrent
writers all get an answer, an operation that fails releases whatever it had acquired, and once injected
failures stop the DB serves subsequent calls again (or fails them immediately with its persistent error)."

Model: `GoLevel/Model/Locks.lean` — any number of client threads, each performing one public call as a
control-flow graph over the blocking resources (write-lock token, `compCommitLk`, `tr.lk`, the command/ack
rendezvous with `mCompaction` / `tCompaction` and their `closeC` / `compErrC` / `compPerErrC` alternatives),
the two compaction goroutines with `compactionTransact`'s retry loop and `compactionCommit`, the
`compactionError` state machine, `Close`.  Every storage action may succeed or fail; the failing steps are
`Step cfg true`, all others `Step cfg false`.  `Get` and iterator steps take none of these resources and are
not threads of the model.

**What is proved about the current code.**  The model is parametrised by `Cfg`, one flag per return path that
could leave a resource held.  `codeCfg` takes the four flags from `Gen/Consts.lean`, which is regenerated
from the Go AST on every run.  `code_three_fixed` (a `decide`) states that the leaks of `Transaction.Commit`,
`OpenTransaction` and the large-batch path of `DB.Write` (D5–D7 of the design document) are closed in the
source — un-fixing any of them breaks this file.  `released_on_return`, `progress`, `recovers_after_faults`
and `close_returns` are proved for every configuration with these three flags set, for every reachable state
if the fourth flag is set too, and otherwise for every state reachable in a run in which no thread executes
`SetReadOnly` (`Covered`); `code_…` are the instances at `codeCfg`, `repaired_…` those at `Cfg.repaired`.

**What is not**: `SetReadOnly` racing with `Close` (found while modelling, not fixed in the source:
`Gen.lkSetReadOnlyReleasesOnClose = false`).  `known_finding_setreadonly_close` is the explicit witness at
`codeCfg`: `SetReadOnly` returns `ErrClosed` with the token in `writeLockC`, and `Close` blocks for ever.
The other leak theorems (`leak_commit`, `leak_opentx`, `leak_largebatch`, stated for `Cfg.asIs`) show what
each of the three fixes prevents: an explicit run and an invariant proving that the resource is never
released afterwards and which later calls therefore never complete.

Liveness is termination: `measure` strictly decreases on every fault-free step, so every schedule, fair or
not, that contains finitely many storage failures is finite, and by `progress` it can only end when no call
is pending — except that calls queueing behind a transaction the *user* holds open wait for the user's
`Commit`/`Discard` (`s.trOpen ∧ s.trUser`).

Modelling limits: one transaction object at a time (a stale handle is not distinguished from the current
transaction); `tcompPauseC` and non-waiting triggers are not modelled; see the header of `Model/Locks.lean`.
-/
namespace GoLevel.C09

open GoLevel.Locks

/-! ## the tie to the source -/

/-- the three leaks are closed in the Go source (regenerated facts) -/
theorem code_three_fixed :
    codeCfg.commitUnlocksOnError = true ∧ codeCfg.openTxReleasesOnError = true ∧
    codeCfg.largeBatchDiscardsOnCommitError = true := by decide

theorem code_covered (s : St) (hr : ReachableNoSR codeCfg s) : Covered codeCfg s :=
  ⟨code_three_fixed, Or.inr hr⟩

theorem repaired_covered (s : St) (hr : Reachable Cfg.repaired s) : Covered Cfg.repaired s :=
  ⟨⟨rfl, rfl, rfl⟩, Or.inl ⟨rfl, hr⟩⟩

/-! ## the statements -/

/-- every held resource has exactly its owners, and a returned call owns nothing -/
def ReleasedOnReturn (s : St) : Prop :=
  (tot tokW s.ws + b2n s.trOpen + b2n s.ehTok + b2n s.closeTok = b2n s.tok) ∧
  (tot clkW s.ws + bgClk s.mc + bgClk s.tc = b2n s.clk) ∧
  (tot trlkW s.ws = b2n s.trlk) ∧
  (∀ ok, tokW (.ret ok) = 0 ∧ clkW (.ret ok) = 0 ∧ trlkW (.ret ok) = 0)

/-- while a call is pending a fault-free step is enabled, or a user transaction is open -/
def Progress (cfg : Cfg) (s : St) : Prop :=
  ∀ (i : Nat) (p : Pc), s.ws[i]? = some p → pending p = true →
    (∃ t, Step cfg false s t) ∨ (s.trOpen = true ∧ s.trUser = true)

/-- fault-free steps decrease `measure`; fault-free runs from `s` have at most `measure s` steps; one of
them cannot be extended; and when one cannot be extended, no call is pending (or a user transaction is open) -/
def RecoversAfterFaults (cfg : Cfg) (s : St) : Prop :=
  (∀ t u, Step cfg false t u → measure u < measure t) ∧
  (∀ n t, StepsNFN cfg n s t → n ≤ measure s) ∧
  (∃ t, StepsNF cfg s t ∧ ¬ ∃ u, Step cfg false t u) ∧
  (∀ t, StepsNF cfg s t → (¬ ∃ u, Step cfg false t u) →
    (∀ (i : Nat) (p : Pc), t.ws[i]? = some p → pending p = false) ∨ (t.trOpen = true ∧ t.trUser = true))

/-- every fault-free run from `s` that cannot be extended ends with each `Close` that was in progress in `s`
returned (or a user transaction is open) -/
def CloseReturns (cfg : Cfg) (s : St) : Prop :=
  ∀ (i : Nat) (p : Pc), s.ws[i]? = some p → clAllW p = 1 →
    ∀ t, StepsNF cfg s t → (¬ ∃ u, Step cfg false t u) →
      t.ws[i]? = some (.ret true) ∨ (t.trOpen = true ∧ t.trUser = true)

/-! ## the covered configurations -/

/-- **Every held resource has exactly its owners**: the token is in `writeLockC` iff exactly one of — a
thread between acquiring and releasing it, the open transaction, `compWriteLocking`, `Close` — holds it;
likewise `compCommitLk` (a committing `Commit` or compaction) and `tr.lk`.  A thread that has returned
(`ret`) or not started (`idle`) is never an owner: whatever a call acquired is released when it returns,
whatever its outcome — except the token of a successful `OpenTransaction`, which passes to the transaction
(`trOpen`) and is released by `Commit`(ok) / `Discard` / `Close` (`St.setDone`), and the token `SetReadOnly`
leaves to `compactionError` (`ehTok`), released on `Close`. -/
theorem released_on_return (cfg : Cfg) (s : St) (hc : Covered cfg s) : ReleasedOnReturn s :=
  have g := (covered_good cfg s hc).1.r
  ⟨g.tokI, g.clkI, g.trlkI, fun _ => ⟨rfl, rfl, rfl⟩⟩

/-- corollary: when no call is in progress, no transaction is open and the DB is neither read-only nor
closed, all three locks are free -/
theorem nothing_held_when_quiet (cfg : Cfg) (s : St) (hr : Covered cfg s)
    (hq : ∀ (i : Nat) (p : Pc), s.ws[i]? = some p → pending p = false) (ht : s.trOpen = false)
    (he : s.ehTok = false) (hc : s.closeTok = false) (hm : bgClk s.mc = 0) (htc : bgClk s.tc = 0) :
    s.tok = false ∧ s.clk = false ∧ s.trlk = false := by
  obtain ⟨h1, h2, h3, _⟩ := released_on_return cfg s hr
  have z : ∀ (f : Pc → Nat), f .idle = 0 → (∀ ok, f (.ret ok) = 0) → tot f s.ws = 0 := by
    intro f h0 hret
    cases hz : tot f s.ws with
    | zero => rfl
    | succ n =>
      obtain ⟨i, p, hi, hp⟩ := exists_of_tot_pos f s.ws (by omega)
      have hpp := hq i p hi
      cases p with
      | idle => rw [h0] at hp; omega
      | ret ok => rw [hret ok] at hp; omega
      | _ => simp [pending] at hpp
  have bz : ∀ b : Bool, 0 = b2n b → b = false := by intro b; cases b <;> simp [b2n]
  rw [z tokW rfl (fun _ => rfl), ht, he, hc] at h1
  rw [z clkW rfl (fun _ => rfl), hm, htc] at h2
  rw [z trlkW rfl (fun _ => rfl)] at h3
  exact ⟨bz _ (by simpa using h1), bz _ (by simpa using h2), bz _ h3⟩

/-- **No covered state is stuck while a call is pending**: some fault-free step is enabled — or the
pending calls queue behind a transaction that the user holds open. -/
theorem progress (cfg : Cfg) (s : St) (hc : Covered cfg s) : Progress cfg s :=
  fun i p hi hp => Locks.progress s (covered_good cfg s hc).1 i p hi hp

theorem covered_nf (cfg : Cfg) (s t : St) (hc : Covered cfg s) (h : StepsNF cfg s t) : Covered cfg t :=
  covered_steps cfg s t hc (stepsNF_steps h)

/-- **Once failures stop, every call completes** (or fails at once with the persistent error — the
`selPerErr` / `cwSendErr` arms are ordinary steps): every fault-free step decreases `measure`; a fault-free
run from `s` has at most `measure s` steps, whatever the scheduler; and when it cannot be extended no call is
pending any more (or the user holds a transaction open). -/
theorem recovers_after_faults (cfg : Cfg) (s : St) (hc : Covered cfg s) : RecoversAfterFaults cfg s := by
  refine ⟨fun t u h => step_measure _ t u h, ?_, settle _ s, ?_⟩
  · intro n t h; have := stepsNFN_measure h; omega
  · intro t ht hq
    by_cases hu : t.trOpen = true ∧ t.trUser = true
    · exact Or.inr hu
    · left
      intro i p hi
      cases hp : pending p with
      | false => rfl
      | true =>
        rcases progress cfg t (covered_nf cfg s t hc ht) i p hi hp with h | h
        · exact absurd h hq
        · exact absurd h hu

/-- **`Close` returns**: from every covered state in which a thread is inside `Close`, every fault-free
run that cannot be extended (one exists, and all are shorter than `measure s`) ends with that `Close`
returned — it needs nothing but the steps of the calls and compactions already started — unless a user
transaction was opened behind its back and is still open. -/
theorem close_returns (cfg : Cfg) (s : St) (hc : Covered cfg s) : CloseReturns cfg s := by
  intro i p hi hp t ht hq
  have hcl : ∃ q, t.ws[i]? = some q ∧ (clAllW q = 1 ∨ q = .ret true) := by
    clear hq
    induction ht with
    | refl => exact ⟨p, hi, Or.inl hp⟩
    | tail _ h2 ih =>
      obtain ⟨q, hq1, hq2⟩ := ih
      exact close_thread_step _ _ _ _ h2 i q hq1 hq2
  obtain ⟨q, hq1, hq2⟩ := hcl
  rcases hq2 with hq2 | hq2
  · have hpend : pending q = true := by cases q <;> simp [clAllW] at hq2 <;> rfl
    rcases progress cfg t (covered_nf cfg s t hc ht) i q hq1 hpend with h | h
    · exact absurd h hq
    · exact Or.inr h
  · subst hq2; exact Or.inl hq1

/-! ### the current source (`codeCfg`), runs without `SetReadOnly` -/

theorem code_released_on_return (s : St) (hr : ReachableNoSR codeCfg s) : ReleasedOnReturn s :=
  released_on_return codeCfg s (code_covered s hr)
theorem code_progress (s : St) (hr : ReachableNoSR codeCfg s) : Progress codeCfg s :=
  progress codeCfg s (code_covered s hr)
theorem code_recovers_after_faults (s : St) (hr : ReachableNoSR codeCfg s) : RecoversAfterFaults codeCfg s :=
  recovers_after_faults codeCfg s (code_covered s hr)
theorem code_close_returns (s : St) (hr : ReachableNoSR codeCfg s) : CloseReturns codeCfg s :=
  close_returns codeCfg s (code_covered s hr)

/-! ### all four fixes (`Cfg.repaired`), every run -/

theorem repaired_released_on_return (s : St) (hr : Reachable Cfg.repaired s) : ReleasedOnReturn s :=
  released_on_return Cfg.repaired s (repaired_covered s hr)
theorem repaired_progress (s : St) (hr : Reachable Cfg.repaired s) : Progress Cfg.repaired s :=
  progress Cfg.repaired s (repaired_covered s hr)
theorem repaired_recovers_after_faults (s : St) (hr : Reachable Cfg.repaired s) : RecoversAfterFaults Cfg.repaired s :=
  recovers_after_faults Cfg.repaired s (repaired_covered s hr)
theorem repaired_close_returns (s : St) (hr : Reachable Cfg.repaired s) : CloseReturns Cfg.repaired s :=
  close_returns Cfg.repaired s (repaired_covered s hr)

/-! ### non-vacuity: the leaking runs of `Cfg.asIs`, in the repaired configuration and at `codeCfg` -/

/-- `OpenTransaction` fails in `rotateMem`: the token is back -/
example : Steps Cfg.repaired (init 2) { ws := [.ret false, .idle] } := by
  have h := Steps.refl (cfg := Cfg.repaired) (init 2)
  have h := h.step (Step.startOtx _ 0 rfl)
  have h := h.step (Step.selTok _ 0 (.otxSel false) (.otxBranch false) rfl rfl rfl)
  have h := h.step (Step.otxRotate _ 0 false rfl)
  have h := h.step (Step.cwSendGo _ 0 false .otxRot1 false rfl rfl)
  have h := h.step (Step.bgWorkOk _ false (some 0) rfl)
  have h := h.step (Step.bgSetErr _ false (some 0) true false rfl (Or.inl rfl))
  have h := h.step (Step.bgLockClk _ false (some 0) rfl rfl)
  have h := h.step (Step.bgCommitOk _ false (some 0) rfl)
  have h := h.step (Step.bgSetErr _ false (some 0) true true rfl (Or.inl rfl))
  have h := h.step (Step.bgAck _ false (some 0) rfl)
  have h := h.step (Step.otxNewMemFail _ 0 false rfl)
  have h := h.step (Step.otxFail _ 0 false rfl)
  exact h

/-- a `Close` racing with `SetReadOnly` completes -/
example : Steps Cfg.repaired (init 2)
    { ws := [.ret false, .ret true], tok := true, closeTok := true, closed := true, eh := .exited,
      mc := .exited, tc := .exited } := by
  have h := Steps.refl (cfg := Cfg.repaired) (init 2)
  have h := h.step (Step.startSR _ 0 rfl rfl)
  have h := h.step (Step.selTok _ 0 .srSel .srSet rfl rfl rfl)
  have h := h.step (Step.startClose _ 1 rfl)
  have h := h.step (Step.ehExit _ (by decide) rfl)
  have h := h.step (Step.srClosed _ 0 rfl rfl)
  have h := h.step (Step.clCheckTr _ 1 rfl)
  have h := h.step (Step.clAcq _ 1 rfl rfl)
  have h := h.step (Step.bgExitIdle _ false rfl rfl)
  have h := h.step (Step.bgExitIdle _ true rfl rfl)
  have h := h.step (Step.clWait _ 1 rfl rfl rfl)
  exact h

example : measure (init 3) = 186 := by decide

/-! ## what each fix prevents (`Cfg.asIs`), and the remaining known finding -/

/-- **`OpenTransaction` leaks the write lock** when `rotateMem` (or `waitCompaction`) fails: there is a
reachable state in which the call has returned its error, nobody owns the token, and yet it is in
`writeLockC` — and from then on, for ever: no `Put`/`Write`/`OpenTransaction`/`CompactRange` ever acquires
it (`tot tokW = 0`: they block, or fail once the DB is closed), no `Close` gets past
`db.writeLockC <- struct{}{}` (`closeTok = false`, nobody in `closeW.Wait()`). -/
theorem leak_opentx :
    ∃ s, Reachable Cfg.asIs s ∧ s.ws[0]? = some (.ret false) ∧
      (∀ (i : Nat) (p : Pc), s.ws[i]? = some p → pending p = false) ∧
      ∀ t, Steps Cfg.asIs s t →
        t.tok = true ∧ tot tokW t.ws = 0 ∧ t.closeTok = false ∧
        ∀ (i : Nat), t.ws[i]? ≠ some .clWait := by
  refine ⟨otxLeakSt, ⟨2, otxLeakRun⟩, rfl, ?_, ?_⟩
  · intro i p hi
    match i, hi with
    | 0, hi => cases hi; rfl
    | 1, hi => cases hi; rfl
    | n + 2, hi => simp [otxLeakSt] at hi
  · intro t ht
    have h0 : TokOrphan otxLeakSt := by
      refine ⟨rfl, by decide, rfl, rfl, rfl, by decide⟩
    obtain ⟨h1, h2, _, _, h5, h6⟩ := steps_inv_of_step TokOrphan (step_tokOrphan Cfg.asIs) _ _ ht h0
    refine ⟨h1, h2, h5, ?_⟩
    intro i hi
    have := le_tot (fun p => if p = .clWait then 1 else 0) t.ws i _ hi
    simp at this; omega

/-- **`Transaction.Commit` leaks `compCommitLk`** after three failed `s.commit` attempts: in a reachable
state the `Commit` (thread 1) has returned, nobody owns `compCommitLk`, it is locked, and the next memdb
compaction (requested here by a `Put`) blocks in `compCommitLk.Lock()` — for ever; hence `mCompaction`
never exits and a `Close` that reaches `db.closeW.Wait()` never returns. -/
theorem leak_commit :
    ∃ s, Reachable Cfg.asIs s ∧ s.ws[1]? = some (.ret false) ∧ s.clk = true ∧ tot clkW s.ws = 0 ∧
      (∀ t, Steps Cfg.asIs s t → t.clk = true ∧ ∃ w, t.mc = .run w .lockClk) ∧
      (∀ t, Steps Cfg.asIs s t → ∀ (i : Nat), t.ws[i]? = some .clWait →
        ∀ u, Steps Cfg.asIs t u → u.ws[i]? = some .clWait) := by
  have h0 : ClkOrphan commitLeakSt := ⟨rfl, by decide, rfl, some 2, rfl⟩
  refine ⟨commitLeakSt, ⟨5, commitLeakRun⟩, rfl, rfl, by decide, ?_, ?_⟩
  · intro t ht
    obtain ⟨h1, _, _, h4⟩ := steps_inv_of_step ClkOrphan (step_clkOrphan Cfg.asIs) _ _ ht h0
    exact ⟨h1, h4⟩
  · intro t ht i hi u hu
    have ho := steps_inv_of_step ClkOrphan (step_clkOrphan Cfg.asIs) _ _ ht h0
    exact (clkOrphan_close_stuck Cfg.asIs t u hu ho i hi).2

/-- **`DB.Write` (large batch) orphans its transaction** when `tr.Commit()` fails: the call has returned,
the internal transaction is still open and owns the token, nobody has its handle; until the DB is closed no
other writer ever acquires the write lock. -/
theorem leak_largebatch :
    ∃ s, Reachable Cfg.asIs s ∧ s.ws[0]? = some (.ret false) ∧
      (∀ (i : Nat) (p : Pc), s.ws[i]? = some p → pending p = false) ∧
      ∀ t, Steps Cfg.asIs s t → t.closed = false →
        t.tok = true ∧ tot tokW t.ws = 0 ∧ t.trOpen = true ∧ t.trUser = false := by
  refine ⟨lgLeakSt, ⟨2, lgLeakRun⟩, rfl, ?_, ?_⟩
  · intro i p hi
    match i, hi with
    | 0, hi => cases hi; rfl
    | 1, hi => cases hi; rfl
    | n + 2, hi => simp [lgLeakSt] at hi
  · intro t ht hc
    have h0 : TxOrphan lgLeakSt := Or.inr ⟨rfl, by decide, rfl, rfl, by decide⟩
    rcases steps_inv_of_step TxOrphan (step_txOrphan Cfg.asIs) _ _ ht h0 with h | ⟨h1, h2, h3, h4, _⟩
    · rw [hc] at h; cases h
    · exact ⟨h1, h2, h3, h4⟩

/-- **`SetReadOnly` racing with `Close` leaks the write lock** (any configuration without the fourth fix):
`SetReadOnly` has taken the token, `Close` closes `closeC`, `compactionError` leaves its `noerr` loop (it
releases the token only from `hasperr`), `SetReadOnly` takes the `closeC` arm of its second `select` and
returns `ErrClosed`: the token stays in `writeLockC`, `Close` (thread 1) blocks in
`db.writeLockC <- struct{}{}` for ever. -/
theorem leak_setreadonly_of (cfg : Cfg) (hf : cfg.setReadOnlyReleasesOnClose = false) :
    ∃ s, Reachable cfg s ∧ s.ws[0]? = some (.ret false) ∧ s.ws[1]? = some .clAcq ∧
      ∀ t, Steps cfg s t →
        t.tok = true ∧ tot tokW t.ws = 0 ∧ t.closeTok = false ∧ ∀ (i : Nat), t.ws[i]? ≠ some .clWait := by
  refine ⟨srLeakSt, ⟨2, srLeakRun cfg hf⟩, rfl, rfl, ?_⟩
  intro t ht
  have h0 : EhOrphan srLeakSt := ⟨rfl, by decide, rfl, rfl, rfl, rfl, by decide, by decide⟩
  obtain ⟨h1, h2, _, _, _, h6, h7, _⟩ := steps_inv_of_step EhOrphan (step_ehOrphan cfg) _ _ ht h0
  refine ⟨h1, h2, h6, ?_⟩
  intro i hi
  have := le_tot (fun p => if p = .clWait then 1 else 0) t.ws i _ hi
  simp at this; omega

theorem leak_setreadonly :
    ∃ s, Reachable Cfg.asIs s ∧ s.ws[0]? = some (.ret false) ∧ s.ws[1]? = some .clAcq ∧
      ∀ t, Steps Cfg.asIs s t →
        t.tok = true ∧ tot tokW t.ws = 0 ∧ t.closeTok = false ∧ ∀ (i : Nat), t.ws[i]? ≠ some .clWait :=
  leak_setreadonly_of Cfg.asIs rfl

/-- **KNOWN FINDING, current source**: as long as the extractor reports that `SetReadOnly` does not give the
token back on its `closeC` arm, the race is a run of the model of the current code: `SetReadOnly` has
returned `ErrClosed`, and `Close` never gets the write lock. -/
theorem known_finding_setreadonly_close (hf : codeCfg.setReadOnlyReleasesOnClose = false) :
    ∃ s, Reachable codeCfg s ∧ s.ws[0]? = some (.ret false) ∧ s.ws[1]? = some .clAcq ∧
      ∀ t, Steps codeCfg s t →
        t.tok = true ∧ tot tokW t.ws = 0 ∧ t.closeTok = false ∧ ∀ (i : Nat), t.ws[i]? ≠ some .clWait :=
  leak_setreadonly_of codeCfg hf

/-- the accounting of `released_on_return` fails in the code as it is -/
theorem asIs_not_released : ∃ s, Reachable Cfg.asIs s ∧ ¬ RInv s :=
  ⟨otxLeakSt, ⟨2, otxLeakRun⟩, fun h => by have := h.tokI; revert this; decide⟩

/-! ### the code as it is now: all four release facts hold (the SetReadOnly/Close leak was repaired too) -/

/-- regenerated tie: the four release facts read off the Go source are all true; un-fixing any of them
in the source breaks this `decide` -/
theorem code_all_fixed : codeCfg = Cfg.repaired := by decide

theorem code_covered_all (s : St) (hr : Reachable codeCfg s) : Covered codeCfg s :=
  ⟨code_three_fixed, Or.inl ⟨by decide, hr⟩⟩

/-- for EVERY reachable state of the code's configuration, runs with `SetReadOnly` included -/
theorem code_all_released_on_return (s : St) (hr : Reachable codeCfg s) : ReleasedOnReturn s :=
  released_on_return codeCfg s (code_covered_all s hr)
theorem code_all_progress (s : St) (hr : Reachable codeCfg s) : Progress codeCfg s :=
  progress codeCfg s (code_covered_all s hr)
theorem code_all_recovers_after_faults (s : St) (hr : Reachable codeCfg s) : RecoversAfterFaults codeCfg s :=
  recovers_after_faults codeCfg s (code_covered_all s hr)
theorem code_all_close_returns (s : St) (hr : Reachable codeCfg s) : CloseReturns codeCfg s :=
  close_returns codeCfg s (code_covered_all s hr)

def theorems : List String :=
  ["GoLevel.C09.code_three_fixed", "GoLevel.C09.code_all_fixed",
   "GoLevel.C09.code_all_released_on_return", "GoLevel.C09.code_all_progress",
   "GoLevel.C09.code_all_recovers_after_faults", "GoLevel.C09.code_all_close_returns",
   "GoLevel.C09.released_on_return", "GoLevel.C09.nothing_held_when_quiet", "GoLevel.C09.progress",
   "GoLevel.C09.recovers_after_faults", "GoLevel.C09.close_returns",
   "GoLevel.C09.code_released_on_return", "GoLevel.C09.code_progress",
   "GoLevel.C09.code_recovers_after_faults", "GoLevel.C09.code_close_returns",
   "GoLevel.C09.repaired_released_on_return", "GoLevel.C09.repaired_progress",
   "GoLevel.C09.repaired_recovers_after_faults", "GoLevel.C09.repaired_close_returns",
   "GoLevel.C09.known_finding_setreadonly_close", "GoLevel.C09.leak_setreadonly_of",
   "GoLevel.C09.leak_opentx", "GoLevel.C09.leak_commit", "GoLevel.C09.leak_largebatch",
   "GoLevel.C09.leak_setreadonly", "GoLevel.C09.asIs_not_released"]

end GoLevel.C09
