import GoLevel.Proofs.MemDBConc
import GoLevel.Proofs.Key
/-!
# Property C14 — the in-memory table (`leveldb/memdb`)

"For any sequence of Put, Delete, Get, Find, Contains and iterator movements (with or without a range), the
in-memory table answers like a sorted map and reports Len and Size consistent with its contents.  Readers and
iterators running concurrently with a writer never crash, never yield keys out of order and never yield a
pair that was never stored."

Model: `GoLevel/Model/MemDB.lean` — an ideal skip list (`levels`, level 0 = all keys) with the search loops
`findGE` (with and without the `prev` path), `findLT`, `findLast` descending the towers like the Go loops,
`put` (tower height = the argument `h`, the value `randHeight` drew), `delete`, `reset`, the counters `n`,
`kvSize`, `used`, and `dbIter` (`fill`, `First/Last/Seek/Next/Prev`).  Specification: a sorted association
list (`SMap`) and the cursor of `GoLevel/Spec/Cursor.lean`.

The comparer is any `cmp` with `LawfulCmp cmp` (strict total order identifying only identical byte strings);
`lawful_bytewise` instantiates it for the built-in comparer.  The theorems quantify over all byte strings as
keys; the internal-key comparer is such an order only on well-formed internal keys (C15), for it the
correspondence is checked by the harness (`i:<cmp>` tables).

What the sequential theorems do not cover (and the harness does not generate): `Next` on an iterator whose
current node has been deleted (the Go code follows the dead node's stale pointer; the ideal list has no dead
nodes) and `Next`/`Prev` on an iterator positioned before a `Reset` (the Go code indexes `nodeData` with a
stale node index and may panic) — moves interleaved with `Put` are covered by `concurrent_readers_partial`.
-/
namespace GoLevel.C14
open GoLevel.MemDB

variable {cmp : Cmp}

/-- the built-in bytewise comparer satisfies the contract -/
theorem lawful_bytewise : LawfulCmp bytesCompare where
  refl := bytesCompare_refl
  eq_of := bytesCompare_eq
  gt_iff := bytesCompare_gt_iff
  trans := bytesCompare_trans

/-! ## the representation invariant -/

/-- `Inv`: every level strictly sorted, every higher level a sublist of every lower one, level 0 = the
domain of the key ↦ value map, `1 ≤ maxHeight ≤ tMaxHeight`, `n` and `kvSize` say what the contents are.
It holds for `New` and after every operation, whatever tower height in `1 … tMaxHeight` each `Put` draws;
adjacent levels in particular: level `h+1` is a sublist of level `h`. -/
theorem inv_preserved (hc : LawfulCmp cmp) :
    Inv cmp DB.empty ∧
    (∀ (db : DB) (op : Op), Inv cmp db → op.valid → Inv cmp (step cmp db op).1) ∧
    (∀ (ops : List Op), (∀ op ∈ ops, op.valid) → Inv cmp (exec cmp DB.empty ops)) ∧
    (∀ (db : DB), Inv cmp db → ∀ (h : Nat) (hh : h + 1 < db.levels.length),
      (db.levels[h + 1]).Sublist (db.levels[h])) := by
  refine ⟨inv_empty cmp, ?_, ?_, ?_⟩
  · intro db op h hv; exact (step_refines hc h op hv).1
  · intro ops hv; exact (exec_inv hc ops DB.empty (inv_empty cmp) hv).1
  · intro db h i hi
    exact (List.pairwise_iff_getElem.1 h.towers) i (i + 1) (by omega) hi (by omega)

/-- a table with towers of height 3, 1, 2: three levels, the higher ones thinner -/
example : (exec bytesCompare DB.empty [.put [2] [20] 3, .put [1] [10] 1, .put [3] [] 2]).levels =
    [[[1], [2], [3]], [[2], [3]], [[2]]] := by decide
example : (exec bytesCompare DB.empty [.put [2] [20] 3, .put [1] [10] 1, .put [3] [] 2, .delete [2]]).levels =
    [[[1], [3]], [[3]], []] := by decide

/-! ## the table is a sorted map -/

/-- For EVERY operation sequence (any tower heights) the answers of `Put`/`Delete`/`Get`/`Find`/`Contains`/
`Len`/`Size` are those of the sorted association list (`SMap.run` never looks at a height); the map the
table stands for is the sorted association list, strictly sorted by key; and on the table reached, every
sequence of iterator calls of a fresh iterator over any `[start, limit)` (either bound may be absent, the
range may be inverted) observes exactly what the specification cursor observes over the range-filtered
pairs. -/
theorem memdb_refines_map (hc : LawfulCmp cmp) (ops : List Op) (hv : ∀ op ∈ ops, op.valid) :
    run cmp DB.empty ops = SMap.run cmp [] ops ∧
    (exec cmp DB.empty ops).abs = SMap.exec cmp [] ops ∧
    MemDB.Sorted cmp ((SMap.exec cmp [] ops).map (·.1)) ∧
    ∀ (start limit : Option Bytes) (calls : List (Call Bytes)),
      Iter.run cmp (exec cmp DB.empty ops) { start := start, limit := limit } calls =
        Cursor.run (SMap.slice cmp start limit (SMap.exec cmp [] ops)) (SMap.ge cmp) .soi calls := by
  obtain ⟨hinv, habs⟩ := exec_inv hc ops DB.empty (inv_empty cmp) hv
  rw [abs_empty] at habs
  refine ⟨?_, habs, ?_, ?_⟩
  · have := run_refines hc ops DB.empty (inv_empty cmp) hv
    rwa [abs_empty] at this
  · rw [← habs, abs_eq, List.map_map]
    have : ((fun p : Bytes × Bytes => p.1) ∘ (exec cmp DB.empty ops).pair) = id := by funext x; rfl
    rw [this, List.map_id]
    exact hinv.sorted0
  · intro start limit calls
    rw [← habs]
    exact iter_run_eq_cursor hc hinv start limit calls

/-- the same for the bytewise comparer -/
theorem memdb_refines_map_bytewise (ops : List Op) (hv : ∀ op ∈ ops, op.valid) :
    run bytesCompare DB.empty ops = SMap.run bytesCompare [] ops :=
  (memdb_refines_map lawful_bytewise ops hv).1

/-- an overwrite that changes the value length, a delete, a miss, Find past a gap, Len and Size -/
example : run bytesCompare DB.empty
    [.put [2] [20] 3, .put [1] [10] 1, .put [2] [21, 22] 1, .get [2], .find [1, 0], .size, .delete [1],
     .delete [1], .contains [1], .len, .size, .find [3]] =
    [.ok, .ok, .ok, .val [21, 22], .pair [2] [21, 22], .num 5, .ok, .notFound, .bool false, .num 1, .num 3,
     .notFound] := by decide
/-- a ranged iterator: Last, Prev off the start, Next back in, Seek below the start is clamped, Next off the limit -/
example : Iter.run bytesCompare (exec bytesCompare DB.empty [.put [1] [] 1, .put [2] [7] 2, .put [3] [8] 1, .put [4] [] 4])
    { start := some [2], limit := some [4] } [.last, .prev, .prev, .next, .seek [0], .next, .next, .prev] =
    [some ([3], [8]), some ([2], [7]), none, some ([2], [7]), some ([2], [7]), some ([3], [8]), none,
     some ([3], [8])] := by decide

/-! ## readers and iterators interleaved with a writer -/

/-- The full statement: arbitrary writer operations (`Put`, `Delete`, `Reset`) interleaved with the moves of
an iterator.  NOT proved, and not provable from this model in a way that would transfer to the code: after
`Delete` of the node under an iterator the Go `Next` follows the unlinked node's stale pointer, after `Reset`
it indexes `nodeData` with a stale node index (possible panic) and `Prev` compares with a key slice whose
bytes have been overwritten; the ideal list has no unlinked nodes.  A pointer-level model of `nodeData` is
what is missing. -/
def concurrent_readers_full (cmp : Cmp) : Prop :=
  ∀ (st lm : Option Bytes) (evs : List Ev),
    (∀ e ∈ evs, match e with | .put _ _ h => 1 ≤ h ∧ h ≤ Gen.tMaxHeight | _ => True) →
    let s := cexec cmp { db := DB.empty, it := { start := st, limit := lm } } evs
    (∀ c k v, cyield cmp s c = some (k, v) → ∃ h, Ev.put k v h ∈ evs) ∧
    (∀ c1 k1 v1, cyield cmp s c1 = some (k1, v1) → ∀ ws : List Ev, (∀ e ∈ ws, e.isMove = false) →
      ∀ k2 v2, cyield cmp (cexec cmp (cstep cmp s (.move c1)) ws) .next = some (k2, v2) → cmp k1 k2 = .lt)

/-- Interleaving model: every public method and every iterator step is atomic (this is what `mu` gives —
ASSUMED, together with the absence of any other shared mutable state on the read paths, which holds for
`findGE(…, false)`/`findLT`/`findLast`/`fill`: only `findGE(…, true)` writes `prevNode`, under the write
lock).  Operations admitted while the iterator is in use (`Ev.putOnly`): `Put` of new keys and overwrites
with any tower height in `1 … tMaxHeight`, steps that do not change the table (`Get`/`Find`/`Contains`/
`Len`/`Size`, steps of other iterators), and the iterator's own `First/Last/Seek/Next/Prev` — no `Delete`,
no `Reset`.  Then, from an empty table and a fresh iterator over any range, after any such interleaving:
every pair a move yields was put at some earlier time (with exactly that value) and lies in the range; and
whatever the writer does between two moves, a `Next` yields a key strictly above the previously yielded one
and a `Prev` a key strictly below it. -/
theorem concurrent_readers_partial (hc : LawfulCmp cmp) (st lm : Option Bytes) (evs : List Ev)
    (hev : ∀ e ∈ evs, e.putOnly) :
    let s := cexec cmp { db := DB.empty, it := { start := st, limit := lm } } evs
    (∀ c k v, cyield cmp s c = some (k, v) → (∃ h, Ev.put k v h ∈ evs) ∧ inR cmp st lm k = true) ∧
    (∀ c1 k1 v1, cyield cmp s c1 = some (k1, v1) →
      ∀ ws : List Ev, (∀ e ∈ ws, e.putOnly ∧ e.isMove = false) →
        (∀ k2 v2, cyield cmp (cexec cmp (cstep cmp s (.move c1)) ws) .next = some (k2, v2) → cmp k1 k2 = .lt) ∧
        (∀ k2 v2, cyield cmp (cexec cmp (cstep cmp s (.move c1)) ws) .prev = some (k2, v2) → cmp k2 k1 = .lt)) := by
  intro s
  have hinit := cinv_init cmp st lm
  have hs : CInv cmp s := cexec_cinv hc evs _ hinit hev
  have hall : AllPut s evs := by
    have := cexec_allPut hc evs [] _ hinit hev (by intro p hp; simp [abs_empty] at hp)
    simpa using this
  -- the slice bounds never change
  have hbounds : ∀ (es : List Ev) (s0 : CState), CInv cmp s0 → (∀ e ∈ es, e.putOnly) →
      (cexec cmp s0 es).it.start = s0.it.start ∧ (cexec cmp s0 es).it.limit = s0.it.limit := by
    intro es
    induction es with
    | nil => intro s0 _ _; exact ⟨rfl, rfl⟩
    | cons e es ih =>
      intro s0 h0 hes
      have h1 := cstep_cinv hc h0 e (hes e (by simp))
      obtain ⟨a, b⟩ := ih _ h1 (fun e' he' => hes e' (by simp [he']))
      have hb : (cstep cmp s0 e).it.start = s0.it.start ∧ (cstep cmp s0 e).it.limit = s0.it.limit := by
        cases e with
        | move c => exact ⟨(move_cinv hc h0 c).1, (move_cinv hc h0 c).2.1⟩
        | put k v h => exact ⟨rfl, rfl⟩
        | delete k => exact ⟨rfl, rfl⟩
        | reset => exact ⟨rfl, rfl⟩
        | read => exact ⟨rfl, rfl⟩
      simp only [cexec]
      exact ⟨a.trans hb.1, b.trans hb.2⟩
  have hsb := hbounds evs _ hinit hev
  refine ⟨?_, ?_⟩
  · intro c k v hy
    obtain ⟨_, hk, hmem⟩ := cyield_mem hc hs c hy
    refine ⟨hall (k, v) hmem, ?_⟩
    have := ((mem_sliceKeys hc).1 hk).2
    rw [hsb.1, hsb.2] at this
    exact this
  · intro c1 k1 v1 hy ws hws
    have hnode := (cyield_mem hc hs c1 hy).1
    have h1 : CInv cmp (cstep cmp s (.move c1)) := cstep_cinv hc hs _ (by simp [Ev.putOnly])
    have h2 : CInv cmp (cexec cmp (cstep cmp s (.move c1)) ws) :=
      cexec_cinv hc ws _ h1 (fun e he => (hws e he).1)
    have hit : (cexec cmp (cstep cmp s (.move c1)) ws).it.node = some k1 := by
      rw [cexec_it_of_noMove hc ws _ (fun e he => (hws e he).2)]
      exact hnode
    exact next_prev_order hc h2 hit

/-- a writer putting between the moves: the iterator sees the new key 2 on `Next`, the overwritten value of
key 3 afterwards, and every yielded pair was put -/
example :
    let evs := [Ev.put [1] [10] 1, .put [3] [30] 2, .move .first, .put [2] [20] 3, .move .next, .put [3] [31] 1]
    let s := cexec bytesCompare {} evs
    s.it.node = some [2] ∧ cyield bytesCompare s .next = some ([3], [31]) ∧ cyield bytesCompare s .prev = some ([1], [10]) := by
  decide
/-- the restriction matters: after `Delete` of the node under the iterator the model's `Next` ends the walk,
whereas the Go code would continue from the dead node — these histories are outside the theorem -/
example : cyield bytesCompare (cexec bytesCompare {} [Ev.put [1] [] 1, .put [2] [] 1, .move .first, .delete [1]]) .next = none := by
  decide

end GoLevel.C14

namespace GoLevel
def C14.theorems : List String :=
  ["GoLevel.C14.lawful_bytewise", "GoLevel.C14.inv_preserved", "GoLevel.C14.memdb_refines_map",
   "GoLevel.C14.memdb_refines_map_bytewise", "GoLevel.C14.concurrent_readers_partial"]
end GoLevel
