import GoLevel.Proofs.MemDBConc
import GoLevel.Proofs.MemArrIter
import GoLevel.Proofs.MemArrGrow
import GoLevel.Proofs.MemArrConcMain
import GoLevel.Proofs.MemArrGen
import GoLevel.Proofs.Key
/-!
# Property C14 — the in-memory table (`leveldb/memdb`)

"For any sequence of Put, Delete, Get, Find, Contains and iterator movements (with or without a range), the
in-memory table answers like a sorted map and reports Len and Size consistent with its contents.  Readers and
iterators running concurrently with a writer never crash, never yield keys out of order and never yield a
pair that was never stored."

Model: `GoLevel/Model/MemDB.lean` — an ideal skip list (`levels`, level 0 = all keys) with the search loops
`findGE` (with and without the `prev` path), `findLT`, `findLast` descending the towers like the Go loops,
`put` (tower height = the argument `h`, the value `randHeight` drew), `delete`, `reset`, the counters `n`,
`kvSize`, `used`, and `dbIter` (`fill`, `First/Last/Seek/Next/Prev`).  Specification: a sorted association
list (`SMap`) and the cursor of `GoLevel/Spec/Cursor.lean`.

The comparer is any `cmp` with `LawfulCmp cmp` (strict total order identifying only identical byte strings);
`lawful_bytewise` instantiates it for the built-in comparer.  The theorems quantify over all byte strings as
keys; the internal-key comparer is such an order only on well-formed internal keys (C15), for it the
correspondence is checked by the harness (`i:<cmp>` tables).

The array encoding: `GoLevel/Model/MemArr.lean` transcribes `memdb.go` over the flat arrays `kvData`/`nodeData`
(`prevNode`, `maxHeight`, `n`, `kvSize`), every function returning `none` for a Go panic or exhausted fuel.
`memarr_simulates_ideal` relates it to the ideal skip list through the representation relation `MemArr.Rep`
(`GoLevel/Proofs/MemArrBasic.lean`), `memarr_refines_map` composes that with `memdb_refines_map`.

After `Reset` (generation counter `gen`, repairs of D31 and D32) and after `Delete` of the node under an iterator:
`iterator_after_reset` gives the sorted-map reading of every move sequence of an iterator positioned before the last
`Reset` (arrays and ideal list with generations), `concurrent_readers` covers every interleaving of one writer doing
`Put`/`Delete`/`Reset` with readers and iterators at the array level (dead nodes included).  Only the array-level model
has dead nodes: the ideal list's `Next` from a deleted key ends the walk, the code (and `MemArr`) follows the dead
node's pointer; the harness sends those moves to the array-level model only.
-/
namespace GoLevel.C14
open GoLevel.MemDB

variable {cmp : Cmp}

/-- the built-in bytewise comparer satisfies the contract -/
theorem lawful_bytewise : LawfulCmp bytesCompare where
  refl := bytesCompare_refl
  eq_of := bytesCompare_eq
  gt_iff := bytesCompare_gt_iff
  trans := bytesCompare_trans

/-! ## the representation invariant -/

/-- `Inv`: every level strictly sorted, every higher level a sublist of every lower one, level 0 = the
domain of the key ↦ value map, `1 ≤ maxHeight ≤ tMaxHeight`, `n` and `kvSize` say what the contents are.
It holds for `New` and after every operation, whatever tower height in `1 … tMaxHeight` each `Put` draws;
adjacent levels in particular: level `h+1` is a sublist of level `h`. -/
theorem inv_preserved (hc : LawfulCmp cmp) :
    Inv cmp DB.empty ∧
    (∀ (db : DB) (op : Op), Inv cmp db → op.valid → Inv cmp (step cmp db op).1) ∧
    (∀ (ops : List Op), (∀ op ∈ ops, op.valid) → Inv cmp (exec cmp DB.empty ops)) ∧
    (∀ (db : DB), Inv cmp db → ∀ (h : Nat) (hh : h + 1 < db.levels.length),
      (db.levels[h + 1]).Sublist (db.levels[h])) := by
  refine ⟨inv_empty cmp, ?_, ?_, ?_⟩
  · intro db op h hv; exact (step_refines hc h op hv).1
  · intro ops hv; exact (exec_inv hc ops DB.empty (inv_empty cmp) hv).1
  · intro db h i hi
    exact (List.pairwise_iff_getElem.1 h.towers) i (i + 1) (by omega) hi (by omega)

/-- a table with towers of height 3, 1, 2: three levels, the higher ones thinner -/
example : (exec bytesCompare DB.empty [.put [2] [20] 3, .put [1] [10] 1, .put [3] [] 2]).levels =
    [[[1], [2], [3]], [[2], [3]], [[2]]] := by decide
example : (exec bytesCompare DB.empty [.put [2] [20] 3, .put [1] [10] 1, .put [3] [] 2, .delete [2]]).levels =
    [[[1], [3]], [[3]], []] := by decide

/-! ## the table is a sorted map -/

/-- For EVERY operation sequence (any tower heights) the answers of `Put`/`Delete`/`Get`/`Find`/`Contains`/
`Len`/`Size` are those of the sorted association list (`SMap.run` never looks at a height); the map the
table stands for is the sorted association list, strictly sorted by key; and on the table reached, every
sequence of iterator calls of a fresh iterator over any `[start, limit)` (either bound may be absent, the
range may be inverted) observes exactly what the specification cursor observes over the range-filtered
pairs. -/
theorem memdb_refines_map (hc : LawfulCmp cmp) (ops : List Op) (hv : ∀ op ∈ ops, op.valid) :
    run cmp DB.empty ops = SMap.run cmp [] ops ∧
    (exec cmp DB.empty ops).abs = SMap.exec cmp [] ops ∧
    MemDB.Sorted cmp ((SMap.exec cmp [] ops).map (·.1)) ∧
    ∀ (start limit : Option Bytes) (calls : List (Call Bytes)),
      Iter.run cmp (exec cmp DB.empty ops) { start := start, limit := limit } calls =
        Cursor.run (SMap.slice cmp start limit (SMap.exec cmp [] ops)) (SMap.ge cmp) .soi calls := by
  obtain ⟨hinv, habs⟩ := exec_inv hc ops DB.empty (inv_empty cmp) hv
  rw [abs_empty] at habs
  refine ⟨?_, habs, ?_, ?_⟩
  · have := run_refines hc ops DB.empty (inv_empty cmp) hv
    rwa [abs_empty] at this
  · rw [← habs, abs_eq, List.map_map]
    have : ((fun p : Bytes × Bytes => p.1) ∘ (exec cmp DB.empty ops).pair) = id := by funext x; rfl
    rw [this, List.map_id]
    exact hinv.sorted0
  · intro start limit calls
    rw [← habs]
    exact iter_run_eq_cursor hc hinv start limit calls

/-- the same for the bytewise comparer -/
theorem memdb_refines_map_bytewise (ops : List Op) (hv : ∀ op ∈ ops, op.valid) :
    run bytesCompare DB.empty ops = SMap.run bytesCompare [] ops :=
  (memdb_refines_map lawful_bytewise ops hv).1

/-- an overwrite that changes the value length, a delete, a miss, Find past a gap, Len and Size -/
example : run bytesCompare DB.empty
    [.put [2] [20] 3, .put [1] [10] 1, .put [2] [21, 22] 1, .get [2], .find [1, 0], .size, .delete [1],
     .delete [1], .contains [1], .len, .size, .find [3]] =
    [.ok, .ok, .ok, .val [21, 22], .pair [2] [21, 22], .num 5, .ok, .notFound, .bool false, .num 1, .num 3,
     .notFound] := by decide
/-- a ranged iterator: Last, Prev off the start, Next back in, Seek below the start is clamped, Next off the limit -/
example : Iter.run bytesCompare (exec bytesCompare DB.empty [.put [1] [] 1, .put [2] [7] 2, .put [3] [8] 1, .put [4] [] 4])
    { start := some [2], limit := some [4] } [.last, .prev, .prev, .next, .seek [0], .next, .next, .prev] =
    [some ([3], [8]), some ([2], [7]), none, some ([2], [7]), some ([2], [7]), some ([3], [8]), none,
     some ([3], [8])] := by decide

/-! ## the array encoding (`kvData`, `nodeData`) -/

/-- The arrays simulate the ideal skip list.  `MemArr.Rep cmp a d ix` says that the arrays `a` represent the ideal
list `d` with the live node of key `k` at index `ix k`: every ideal level is the chain of next pointers of that level
from the head, the node fields are offset/lengths/height with the key and value bytes at those offsets of `kvData`, no
index dangles, the index ranges of live nodes are disjoint, `maxHeight`/`n`/`kvSize`/`len(kvData)` are the ideal
counters, the head's pointers above `maxHeight` are 0, `prevNode` is unconstrained scratch of length `tMaxHeight`.
Then: `New` is represented; every operation (`Put` with a height in `1 … tMaxHeight`, `Delete`, `Reset`, `Get`,
`Find`, `Contains`, `Len`, `Size`) on a represented state does not panic (result `some`), needs no more than
`len(nodeData)` loop iterations in any search (`lvlFuel d.levels ≤ a.nodeData.size`), returns the ideal answer and
re-establishes the relation; and every sequence of iterator moves (`fill` with its range checks inside
`First/Last/Seek/Next/Prev`) of a fresh iterator on a represented state yields the ideal iterator's pairs. -/
theorem memarr_simulates_ideal (hc : LawfulCmp cmp) :
    (∀ ix, MemArr.Rep cmp MemArr.DB.new DB.empty ix) ∧
    (∀ (a : MemArr.DB) (d : DB) (ix : Bytes → Nat) (op : Op), MemArr.Rep cmp a d ix → op.valid →
      MemArr.lvlFuel d.levels ≤ a.nodeData.size ∧
      ∃ a' ix', MemArr.step cmp a op = some (a', (step cmp d op).2) ∧ MemArr.Rep cmp a' (step cmp d op).1 ix') ∧
    (∀ (a : MemArr.DB) (d : DB) (ix : Bytes → Nat), MemArr.Rep cmp a d ix →
      ∀ (start limit : Option Bytes) (calls : List (Call Bytes)),
        MemArr.Iter.run cmp a { start := start, limit := limit } calls =
          some (Iter.run cmp d { start := start, limit := limit } calls)) := by
  refine ⟨fun ix => MemArr.rep_new ix, ?_, ?_⟩
  · intro a d ix op r hv
    exact ⟨r.fuel_ok, MemArr.step_sim hc r op hv⟩
  · intro a d ix r start limit calls
    exact MemArr.iter_run_sim hc r calls (MemArr.iterRep_fresh a d ix start limit)

/-- the arrays after `Put [2]→[20]` (height 3), `Put [1]→[10]` (height 1), the overwrite `Put [2]→[21,22]` and
`Delete [1]`: the overwritten bytes `[2,20]` and the deleted pair `[1,10]` stay in `kvData`, node 16 (key `[2]`) has
the new offset 4 and value length 2 but its old key length, the dead node 23 still points to node 16, the head
points to node 16 on all three levels -/
example : (MemArr.exec bytesCompare MemArr.DB.new
      [.put [2] [20] 3, .put [1] [10] 1, .put [2] [21, 22] 1, .delete [1]]).map
    (fun a => (a.nodeData.toList, a.kvData.toList, a.maxHeight, a.n, a.kvSize)) =
    some ([0, 0, 0, 12, 16, 16, 16, 0, 0, 0, 0, 0, 0, 0, 0, 0, 4, 1, 2, 3, 0, 0, 0, 2, 1, 1, 1, 16],
      [2, 20, 1, 10, 2, 21, 22], 3, 1, 3) := by decide +kernel

/-- For EVERY operation sequence with heights in `1 … tMaxHeight` the array implementation started from `New` never
panics and answers `Put`/`Delete`/`Get`/`Find`/`Contains`/`Len`/`Size` exactly like the sorted association list; the
state reached has `n` = number of pairs and `kvSize` = the sum of their key and value lengths; and on it every sequence
of iterator calls of a fresh iterator over any `[start, limit)` observes exactly what the specification cursor observes
over the range-filtered pairs (`memarr_simulates_ideal` composed with `memdb_refines_map`). -/
theorem memarr_refines_map (hc : LawfulCmp cmp) (ops : List Op) (hv : ∀ op ∈ ops, op.valid) :
    MemArr.run cmp MemArr.DB.new ops = some (SMap.run cmp [] ops) ∧
    ∃ a, MemArr.exec cmp MemArr.DB.new ops = some a ∧
      a.n = (SMap.exec cmp [] ops).length ∧ a.kvSize = SMap.size (SMap.exec cmp [] ops) ∧
      ∀ (start limit : Option Bytes) (calls : List (Call Bytes)),
        MemArr.Iter.run cmp a { start := start, limit := limit } calls =
          some (Cursor.run (SMap.slice cmp start limit (SMap.exec cmp [] ops)) (SMap.ge cmp) .soi calls) := by
  obtain ⟨h1, h2, _, h4⟩ := memdb_refines_map hc ops hv
  obtain ⟨hinv, _⟩ := exec_inv hc ops DB.empty (inv_empty cmp) hv
  have r0 : MemArr.Rep cmp MemArr.DB.new DB.empty (fun _ => 0) := MemArr.rep_new _
  refine ⟨by rw [MemArr.run_sim hc ops r0 hv, h1], ?_⟩
  obtain ⟨a, ix, e, r⟩ := MemArr.exec_sim hc ops r0 hv
  refine ⟨a, e, ?_, ?_, ?_⟩
  · rw [r.n, hinv.len, ← h2, abs_eq, List.length_map]
  · rw [r.kvSize, hinv.size, h2]
  · intro start limit calls
    rw [MemArr.iter_run_sim hc r calls (MemArr.iterRep_fresh a _ ix start limit), h4]

/-- `kvData` is append-only (no hypothesis on the state): every operation other than `Reset` leaves the bytes already
in `kvData` where they are — `Put` appends key and value (also when it overwrites: the old bytes stay), `Delete`
reclaims nothing.  This is what makes the `Key()`/`Value()` slices handed out by `Get`/`Find`/iterators stable until
the next `Reset`. -/
theorem memarr_kvdata_append_only (a a' : MemArr.DB) (op : Op) (ans : Ans) (hop : op ≠ .reset)
    (h : MemArr.step cmp a op = some (a', ans)) : ∃ ext : Array UInt8, a'.kvData = a.kvData ++ ext :=
  MemArr.step_kvData_grows hop h

/-- an overwrite appends the new pair behind the old one -/
example : (MemArr.exec bytesCompare MemArr.DB.new [.put [1] [10] 1, .put [1] [11] 1]).map (·.kvData.toList) =
    some [1, 10, 1, 11] := by decide +kernel

/-- the same for the bytewise comparer -/
theorem memarr_refines_map_bytewise (ops : List Op) (hv : ∀ op ∈ ops, op.valid) :
    MemArr.run bytesCompare MemArr.DB.new ops = some (SMap.run bytesCompare [] ops) :=
  (memarr_refines_map lawful_bytewise ops hv).1

/-- the op list of the ideal model's example, answered by the arrays -/
example : MemArr.run bytesCompare MemArr.DB.new
    [.put [2] [20] 3, .put [1] [10] 1, .put [2] [21, 22] 1, .get [2], .find [1, 0], .size, .delete [1],
     .delete [1], .contains [1], .len, .size, .find [3]] =
    some [.ok, .ok, .ok, .val [21, 22], .pair [2] [21, 22], .num 5, .ok, .notFound, .bool false, .num 1, .num 3,
     .notFound] := by decide +kernel
/-- a ranged iterator over the arrays: the same moves and pairs as the ideal model's example -/
example : (MemArr.exec bytesCompare MemArr.DB.new [.put [1] [] 1, .put [2] [7] 2, .put [3] [8] 1, .put [4] [] 4]).bind
    (fun a => MemArr.Iter.run bytesCompare a { start := some [2], limit := some [4] }
      [.last, .prev, .prev, .next, .seek [0], .next, .next, .prev]) =
    some [some ([3], [8]), some ([2], [7]), none, some ([2], [7]), some ([2], [7]), some ([3], [8]), none,
     some ([3], [8])] := by decide +kernel
/-- what only the arrays can say: `Next` from a node that has just been deleted follows the dead node's pointer
(here to the successor `[3]`), `Prev` searches with the dead node's key -/
example : (MemArr.exec bytesCompare MemArr.DB.new [.put [1] [10] 1, .put [2] [20] 2, .put [3] [30] 1]).bind
    (fun a => (MemArr.Iter.seek bytesCompare a [2] {}).bind fun s =>
      (MemArr.delete bytesCompare a [2]).bind fun r =>
        (MemArr.Iter.next bytesCompare r.1 s.1).bind fun n =>
          (MemArr.Iter.prev bytesCompare r.1 s.1).map fun p => (s.1.node, [n.1.out, p.1.out])) =
    some (21, [some ([3], [30]), some ([1], [10])]) := by decide +kernel

/-! ## readers and iterators interleaved with a writer -/

/-- The statement over the IDEAL list: arbitrary writer operations (`Put`, `Delete`, `Reset`) interleaved with the moves
of an iterator.  Kept as a statement only: the ideal list has no unlinked nodes and no generations, so it does not
describe what the code does after `Delete` of the node under an iterator or after `Reset`.  The property is proved at
full strength over the array-level model, where those exist: `concurrent_readers` below. -/
def concurrent_readers_full (cmp : Cmp) : Prop :=
  ∀ (st lm : Option Bytes) (evs : List Ev),
    (∀ e ∈ evs, match e with | .put _ _ h => 1 ≤ h ∧ h ≤ Gen.tMaxHeight | _ => True) →
    let s := cexec cmp { db := DB.empty, it := { start := st, limit := lm } } evs
    (∀ c k v, cyield cmp s c = some (k, v) → ∃ h, Ev.put k v h ∈ evs) ∧
    (∀ c1 k1 v1, cyield cmp s c1 = some (k1, v1) → ∀ ws : List Ev, (∀ e ∈ ws, e.isMove = false) →
      ∀ k2 v2, cyield cmp (cexec cmp (cstep cmp s (.move c1)) ws) .next = some (k2, v2) → cmp k1 k2 = .lt)

/-- Interleaving model: every public method and every iterator step is atomic (this is what `mu` gives —
ASSUMED, together with the absence of any other shared mutable state on the read paths, which holds for
`findGE(…, false)`/`findLT`/`findLast`/`fill`: only `findGE(…, true)` writes `prevNode`, under the write
lock).  Operations admitted while the iterator is in use (`Ev.putOnly`): `Put` of new keys and overwrites
with any tower height in `1 … tMaxHeight`, steps that do not change the table (`Get`/`Find`/`Contains`/
`Len`/`Size`, steps of other iterators), and the iterator's own `First/Last/Seek/Next/Prev` — no `Delete`,
no `Reset`.  Then, from an empty table and a fresh iterator over any range, after any such interleaving:
every pair a move yields was put at some earlier time (with exactly that value) and lies in the range; and
whatever the writer does between two moves, a `Next` yields a key strictly above the previously yielded one
and a `Prev` a key strictly below it. -/
theorem concurrent_readers_partial (hc : LawfulCmp cmp) (st lm : Option Bytes) (evs : List Ev)
    (hev : ∀ e ∈ evs, e.putOnly) :
    let s := cexec cmp { db := DB.empty, it := { start := st, limit := lm } } evs
    (∀ c k v, cyield cmp s c = some (k, v) → (∃ h, Ev.put k v h ∈ evs) ∧ inR cmp st lm k = true) ∧
    (∀ c1 k1 v1, cyield cmp s c1 = some (k1, v1) →
      ∀ ws : List Ev, (∀ e ∈ ws, e.putOnly ∧ e.isMove = false) →
        (∀ k2 v2, cyield cmp (cexec cmp (cstep cmp s (.move c1)) ws) .next = some (k2, v2) → cmp k1 k2 = .lt) ∧
        (∀ k2 v2, cyield cmp (cexec cmp (cstep cmp s (.move c1)) ws) .prev = some (k2, v2) → cmp k2 k1 = .lt)) := by
  intro s
  have hinit := cinv_init cmp st lm
  have hs : CInv cmp s := cexec_cinv hc evs _ hinit hev
  have hall : AllPut s evs := by
    have := cexec_allPut hc evs [] _ hinit hev (by intro p hp; simp [abs_empty] at hp)
    simpa using this
  -- the slice bounds never change
  have hbounds : ∀ (es : List Ev) (s0 : CState), CInv cmp s0 → (∀ e ∈ es, e.putOnly) →
      (cexec cmp s0 es).it.start = s0.it.start ∧ (cexec cmp s0 es).it.limit = s0.it.limit := by
    intro es
    induction es with
    | nil => intro s0 _ _; exact ⟨rfl, rfl⟩
    | cons e es ih =>
      intro s0 h0 hes
      have h1 := cstep_cinv hc h0 e (hes e (by simp))
      obtain ⟨a, b⟩ := ih _ h1 (fun e' he' => hes e' (by simp [he']))
      have hb : (cstep cmp s0 e).it.start = s0.it.start ∧ (cstep cmp s0 e).it.limit = s0.it.limit := by
        cases e with
        | move c => exact ⟨(move_cinv hc h0 c).1, (move_cinv hc h0 c).2.1⟩
        | put k v h => exact ⟨rfl, rfl⟩
        | delete k => exact ⟨rfl, rfl⟩
        | reset => exact ⟨rfl, rfl⟩
        | read => exact ⟨rfl, rfl⟩
      simp only [cexec]
      exact ⟨a.trans hb.1, b.trans hb.2⟩
  have hsb := hbounds evs _ hinit hev
  refine ⟨?_, ?_⟩
  · intro c k v hy
    obtain ⟨_, hk, hmem⟩ := cyield_mem hc hs c hy
    refine ⟨hall (k, v) hmem, ?_⟩
    have := ((mem_sliceKeys hc).1 hk).2
    rw [hsb.1, hsb.2] at this
    exact this
  · intro c1 k1 v1 hy ws hws
    have hnode := (cyield_mem hc hs c1 hy).1
    have h1 : CInv cmp (cstep cmp s (.move c1)) := cstep_cinv hc hs _ (by simp [Ev.putOnly])
    have h2 : CInv cmp (cexec cmp (cstep cmp s (.move c1)) ws) :=
      cexec_cinv hc ws _ h1 (fun e he => (hws e he).1)
    have hit : (cexec cmp (cstep cmp s (.move c1)) ws).it.node = some k1 := by
      rw [cexec_it_of_noMove hc ws _ (fun e he => (hws e he).2)]
      exact hnode
    exact next_prev_order hc h2 hit

/-- a writer putting between the moves: the iterator sees the new key 2 on `Next`, the overwritten value of
key 3 afterwards, and every yielded pair was put -/
example :
    let evs := [Ev.put [1] [10] 1, .put [3] [30] 2, .move .first, .put [2] [20] 3, .move .next, .put [3] [31] 1]
    let s := cexec bytesCompare {} evs
    s.it.node = some [2] ∧ cyield bytesCompare s .next = some ([3], [31]) ∧ cyield bytesCompare s .prev = some ([1], [10]) := by
  decide
/-- the restriction matters: after `Delete` of the node under the iterator the model's `Next` ends the walk,
whereas the Go code would continue from the dead node — these histories are outside the theorem -/
example : cyield bytesCompare (cexec bytesCompare {} [Ev.put [1] [] 1, .put [2] [] 1, .move .first, .delete [1]]) .next = none := by
  decide

/-! ## iterator moves after `Reset` (generation counter: repairs of D31 and D32) -/

/-- On the table reached by ANY operation sequence (`Reset`s included), an iterator that was positioned in an older
generation (`node ≠ 0`, `gen ≠ DB.gen` — every iterator positioned before the last `Reset` is such: generations only
grow, `concurrent_readers` keeps `it.gen ≤ DB.gen`) answers every sequence of moves like the cursor over the range-filtered
pairs of the CURRENT table that is first moved by `staleStep`: `Next` finds it exhausted at the end (a following `Prev`
goes to the last pair), `Prev` finds it exhausted at the start (a following `Next` goes to the first pair), `First`/
`Last`/`Seek` are absolute.  Nothing of the old generation is read: no node index, no key bytes.  An iterator that is not
positioned continues as the cursor at the start/end, whatever its generation.  The same holds for the ideal list with
generations (`MemDB.GIter`, the model the driver runs). -/
theorem iterator_after_reset (hc : LawfulCmp cmp) (ops : List Op) (hv : ∀ op ∈ ops, op.valid) :
    ∃ a, MemArr.exec cmp MemArr.DB.new ops = some a ∧
      (∀ ai : MemArr.Iter, ai.node ≠ 0 → ai.gen ≠ a.gen → ∀ (c : Call Bytes) (cs : List (Call Bytes)),
        MemArr.Iter.run cmp a ai (c :: cs) =
          some (let S := SMap.slice cmp ai.start ai.limit (SMap.exec cmp [] ops)
                Cursor.get S (staleStep S (SMap.ge cmp) c) ::
                  Cursor.run S (SMap.ge cmp) (staleStep S (SMap.ge cmp) c) cs)) ∧
      (∀ ai : MemArr.Iter, ai.node = 0 → ∀ cs : List (Call Bytes),
        MemArr.Iter.run cmp a ai cs =
          some (Cursor.run (SMap.slice cmp ai.start ai.limit (SMap.exec cmp [] ops)) (SMap.ge cmp)
            (if ai.forward then .eoi else .soi) cs)) ∧
      (∀ (g : Nat) (x : GIter) (k : Bytes), x.it.node = some k → x.gen ≠ g →
        ∀ (c : Call Bytes) (cs : List (Call Bytes)),
        GIter.run cmp (exec cmp DB.empty ops) g x (c :: cs) =
          (let S := SMap.slice cmp x.it.start x.it.limit (SMap.exec cmp [] ops)
           Cursor.get S (staleStep S (SMap.ge cmp) c) ::
             Cursor.run S (SMap.ge cmp) (staleStep S (SMap.ge cmp) c) cs)) := by
  obtain ⟨_, h2, _, _⟩ := memdb_refines_map hc ops hv
  obtain ⟨hinv, _⟩ := exec_inv hc ops DB.empty (inv_empty cmp) hv
  obtain ⟨a, ix, e, r⟩ := MemArr.exec_sim hc ops (MemArr.rep_new (cmp := cmp) (fun _ => 0)) hv
  refine ⟨a, e, ?_, ?_, ?_⟩
  · intro ai hne hg c cs
    rw [MemArr.iter_run_stale hc r ai hne hg c cs, h2]
  · intro ai h0 cs
    rw [MemArr.iter_run_unpositioned hc r ai h0 cs, h2]
  · intro g x k hn hg c cs
    rw [GIter.run_stale hc hinv g x hn hg c cs, h2]

/-- an iterator over `[[2], [9])` positioned on `[3]`; `Reset`; `Put [1]`, `[4]`, `[5]`: `Next` is exhausted, the `Prev`
after it goes to the last pair `[5]`; in the same situation `Prev` is exhausted and the `Next` after it goes to the
first pair of the range, `[4]` -/
example :
    let evs : List MemArr.Ev :=
      [.op (.put [3] [30] 2), .op (.put [7] [70] 1), .move (.seek [3]), .op .reset, .op (.put [1] [10] 1),
       .op (.put [4] [40] 1), .op (.put [5] [50] 2)]
    (MemArr.cexec bytesCompare ⟨MemArr.DB.new, { start := some [2], limit := some [9] }⟩ evs).bind (fun s =>
      (MemArr.Iter.run bytesCompare s.db s.it [.next, .prev, .next]).bind fun o1 =>
      (MemArr.Iter.run bytesCompare s.db s.it [.prev, .next, .prev]).map fun o2 => [o1, o2]) =
    some [[none, some ([5], [50]), none], [none, some ([4], [40]), none]] ∧
    (MemArr.cexec bytesCompare ⟨MemArr.DB.new, { start := some [2], limit := some [9] }⟩ evs).map
      (fun s => [s.it.node, s.it.gen, s.db.gen]) = some [16, 0, 1] := by decide +kernel

/-! ## one writer (`Put`, `Delete`, `Reset`), readers and iterators: the array-level interleaving model -/

/-- Interleaving model `MemArr.cexec` (`Model/MemArr.lean`): every public method and every iterator movement is one
atomic step (this is what `mu` gives — ASSUMED, see `code_methods_atomic`); an execution observed from one iterator over
`[st, lm)` is any interleaving of operations (`op`: the writer's `Put` with any height `randHeight` can draw, `Delete`,
`Reset`; `Get`/`Find`/`Contains`/`Len`/`Size` of any reader; steps of other iterators do not change the table) and moves
of the observed iterator, on the arrays as the code has them (dead nodes, generations).  From `New` and a fresh
iterator, for EVERY such history:
* no step panics — the whole history runs (`some s`), and so does any further step of any participant;
* every pair a move yields was put since the last `Reset` with exactly that value (`MemArr.putsOf`; by
  `concurrent_puts_were_put` some `Put k v` is in the history) and lies in the range.  The pair may have been deleted
  or overwritten in the meantime: an iterator sitting on a node that is deleted afterwards walks on through the dead
  node's pointer and may land on — and yield — further deleted nodes; what it yields is the last value each had;
* after a move that yielded `k1`, whatever the writer and the other readers do next (`ws`): if nobody resets the table,
  `Next` yields a key strictly above `k1` and `Prev` a key strictly below `k1` (or nothing); if somebody resets it, `Next`
  and `Prev` both find the iterator exhausted (D31/D32), whatever has been put since.
Before the repair of D32 the range clause was false for `Prev` after `Reset`: `Prev` searched with the stale key
slice and `fill(true, false)` does not test the limit — `New; Put b; it=[nil,m); First; Reset; Put z; Put y; Prev`
yielded `y` (replayed on the code of commit 795d208). -/
theorem concurrent_readers (hc : LawfulCmp cmp) (st lm : Option Bytes) (evs : List MemArr.Ev)
    (hv : ∀ e ∈ evs, e.valid) :
    ∃ s, MemArr.cexec cmp ⟨MemArr.DB.new, { start := st, limit := lm }⟩ evs = some s ∧
      (∀ e : MemArr.Ev, e.valid → (MemArr.cstep cmp s e).isSome) ∧
      (∀ c, ∃ r, MemArr.cyield cmp s c = some r ∧
        ∀ k v, r = some (k, v) → (k, v) ∈ MemArr.putsOf evs ∧ inR cmp st lm k = true) ∧
      (∀ c1 k1 v1, MemArr.cyield cmp s c1 = some (some (k1, v1)) →
        ∀ ws : List MemArr.Ev, (∀ e ∈ ws, e.valid ∧ e.isMove = false) →
        ∃ s1 s2, MemArr.cstep cmp s (.move c1) = some s1 ∧ MemArr.cexec cmp s1 ws = some s2 ∧
          (if ws.any MemArr.Ev.isReset then
            MemArr.cyield cmp s2 .next = some none ∧ MemArr.cyield cmp s2 .prev = some none
          else
            (∀ k2 v2, MemArr.cyield cmp s2 .next = some (some (k2, v2)) → cmp k1 k2 = .lt) ∧
            (∀ k2 v2, MemArr.cyield cmp s2 .prev = some (some (k2, v2)) → cmp k2 k1 = .lt))) := by
  obtain ⟨s, e, h⟩ := MemArr.cexec_ok (st := st) (lm := lm) hc evs (MemArr.cinvA_init cmp st lm) hv
  refine ⟨s, e, ?_, ?_, ?_⟩
  · intro ev hev
    obtain ⟨s', e', _⟩ := MemArr.cstep_ok (st := st) (lm := lm) hc h ev hev
    simp [e']
  · intro c; exact MemArr.cyield_ok hc h c
  · intro c1 k1 v1 hy ws hws; exact MemArr.corder_ok hc h c1 hy ws hws

/-- the pairs `concurrent_readers` speaks of were put by events of the history -/
theorem concurrent_puts_were_put (evs : List MemArr.Ev) (k v : Bytes) (h : (k, v) ∈ MemArr.putsOf evs) :
    ∃ ht, MemArr.Ev.op (.put k v ht) ∈ evs := by
  rcases MemArr.putsOf_sub evs [] (k, v) h with h | h
  · simp at h
  · exact h

/-- an iterator sits on `[2]`; `[2]` and its successor `[3]` are deleted, `[2,5]` is put: `Next` walks through the dead
node `[2]` to the dead node `[3]` and yields the deleted pair (it was put), then reaches `[4]`; after a `Reset` and new
puts, `Next` and `Prev` are exhausted -/
example :
    let evs : List MemArr.Ev :=
      [.op (.put [1] [10] 1), .op (.put [2] [20] 2), .op (.put [3] [30] 1), .op (.put [4] [40] 3), .move (.seek [2]),
       .op (.delete [2]), .op (.delete [3]), .op (.put [2, 5] [25] 1)]
    (MemArr.cexec bytesCompare ⟨MemArr.DB.new, {}⟩ evs).bind (fun s =>
      (MemArr.cexec bytesCompare s [.move .next, .move .next]).bind fun s2 =>
      (MemArr.cexec bytesCompare s2 [.op .reset, .op (.put [9] [90] 1)]).map fun s3 =>
        [MemArr.cyield bytesCompare s .next, MemArr.cyield bytesCompare s .prev,
         MemArr.cyield bytesCompare s2 .prev, MemArr.cyield bytesCompare s3 .next,
         MemArr.cyield bytesCompare s3 .prev]) =
    some [some (some ([3], [30])), some (some ([1], [10])), some (some ([2, 5], [25])), some none, some none] := by
  decide +kernel

/-- The atomicity assumed by `concurrent_readers_partial`, as far as the source shows it: the extractor reads
off `memdb.go` that every public `DB` method and every iterator movement touches the skip-list arrays only
between taking `mu` and releasing it — one critical section per call (`Gen.memMethodsAtomic`, regenerated
from the Go AST on every run).  That Go's `sync.RWMutex` then makes those sections atomic is assumed. -/
theorem code_methods_atomic : Gen.memMethodsAtomic = true := by decide

/-- The theorems of this file are about comparers under which equal keys are the same bytes (`LawfulUCmp.eq_of`);
there an overwrite never changes the key's length.  For the comparers outside that class (lawful, but calling keys of
different lengths equal) the code keeps the node in step with the key it appends since the repair of D56 — the
regenerated fact below — and the check exercises such a comparer against a map keyed by canonical forms
(`harness/checks/c14ninj.go`). -/
theorem code_put_sets_key_length : Gen.memPutSetsKeyLenOnOverwrite = true := by decide

end GoLevel.C14

namespace GoLevel
def C14.theorems : List String :=
  ["GoLevel.C14.code_put_sets_key_length", "GoLevel.C14.lawful_bytewise", "GoLevel.C14.inv_preserved", "GoLevel.C14.memdb_refines_map",
   "GoLevel.C14.memdb_refines_map_bytewise", "GoLevel.C14.concurrent_readers_partial",
   "GoLevel.C14.code_methods_atomic", "GoLevel.C14.memarr_simulates_ideal", "GoLevel.C14.memarr_refines_map",
   "GoLevel.C14.memarr_refines_map_bytewise", "GoLevel.C14.memarr_kvdata_append_only", "GoLevel.C14.concurrent_readers",
   "GoLevel.C14.concurrent_puts_were_put", "GoLevel.C14.iterator_after_reset"]
end GoLevel
