import GoLevel.Model.Table
import GoLevel.Proofs.Block
/-! Writer side of C13: the shape of the file `Table.write` produces. -/
namespace GoLevel.C13
open GoLevel GoLevel.TableAux BlockWriter TableWriter

def firstKeyD (l : List KV) : Bytes := (l.head?.map (·.1)).getD []

/-- the index key stored for a block whose last key is `last` when the next appended key is `next`
(`[]` when `Close` flushes the last block — and, as in the code, also for an empty next key) -/
def ixKey (cfg : TableCfg) (last next : Bytes) : Bytes :=
  (if next.isEmpty then cfg.succ last else cfg.sep last next).getD last

def blockBytes (cfg : TableCfg) (c : List KV) : Bytes :=
  withTrailer cfg.cksum (Block.build cfg.restartInterval c)

def dataBytes (cfg : TableCfg) (cs : List (List KV)) : Bytes := (cs.map (blockBytes cfg)).flatten

/-- index entries for the data blocks `cs` laid out from offset `off`, when `tl` is what follows them -/
def ixE (cfg : TableCfg) : Nat → List (List KV) → List KV → List KV
  | _, [], _ => []
  | off, c :: rest, tl =>
    (ixKey cfg (lastKeyD [] c) (firstKeyD (rest.flatten ++ tl)),
      BH.encode ⟨off, (Block.build cfg.restartInterval c).length⟩)
      :: ixE cfg (off + (blockBytes cfg c).length) rest tl

theorem dataBytes_snoc (cfg : TableCfg) (cs : List (List KV)) (c : List KV) :
    dataBytes cfg (cs ++ [c]) = dataBytes cfg cs ++ blockBytes cfg c := by
  simp [dataBytes]

theorem ixE_snoc (cfg : TableCfg) (cs : List (List KV)) (c tl : List KV) : ∀ off,
    ixE cfg off (cs ++ [c]) tl = ixE cfg off cs (c ++ tl) ++
      [(ixKey cfg (lastKeyD [] c) (firstKeyD tl),
        BH.encode ⟨off + (dataBytes cfg cs).length, (Block.build cfg.restartInterval c).length⟩)] := by
  induction cs with
  | nil => intro off; simp [ixE, dataBytes]
  | cons a t ih =>
    intro off
    simp only [List.cons_append, ixE, ih, List.flatten_append, List.flatten_cons, List.flatten_nil,
      List.append_nil, List.append_assoc]
    simp [dataBytes, Nat.add_assoc]

theorem firstKeyD_append_ne (a b : List KV) (h : a ≠ []) : firstKeyD (a ++ b) = firstKeyD a := by
  cases a with
  | nil => exact absurd rfl h
  | cons x t => rfl

theorem ixE_congr (cfg : TableCfg) (cs : List (List KV)) (tl tl' : List KV) (hne : ∀ c ∈ cs, c ≠ [])
    (hk : firstKeyD tl = firstKeyD tl') : ∀ off, ixE cfg off cs tl = ixE cfg off cs tl' := by
  induction cs with
  | nil => intro off; rfl
  | cons a t ih =>
    intro off
    have iht := ih (fun c hc => hne c (List.mem_cons_of_mem _ hc))
    simp only [ixE, iht]
    congr 3
    cases t with
    | nil => simpa using hk
    | cons b t' =>
      have hb : b ≠ [] := hne b (by simp)
      simp only [List.flatten_cons, List.append_assoc]
      rw [firstKeyD_append_ne _ _ hb, firstKeyD_append_ne _ _ hb]

theorem WState.finish {ri : Nat} {w : BlockWriter} {done : List KV} (h : WState ri w done) :
    w.finish = Block.build ri done := by
  rw [build_eq]
  unfold BlockWriter.finish BlockWriter.finishRestarts restartsOf
  rw [h.buf, h.n, h.restarts]
  by_cases hk : done = []
  · subst hk; simp [restartPrefixes]
  · have : done.length ≠ 0 := by simpa using hk
    simp [hk, this]

theorem WState.reset {ri : Nat} {w : BlockWriter} {done : List KV} (h : WState ri w done) :
    WState ri w.reset [] :=
  ⟨h.ri_eq, rfl, rfl, by simp, rfl⟩

theorem build_length_pos (ri : Nat) (kvs : List KV) : 0 < (Block.build ri kvs).length := by
  rw [build_length]; omega

/-- the writer between two `Append`s: finished chunks `cs` (the last one possibly still pending in the index),
current block contents `cur` -/
structure TInv (cfg : TableCfg) (w : TableWriter) (cs : List (List KV)) (cur : List KV) : Prop where
  out : w.out = dataBytes cfg cs
  data : WState cfg.restartInterval w.data cur
  ne : ∀ c ∈ cs, c ≠ []
  n : w.nEntries = cs.flatten.length + cur.length
  idx : (w.pending.length = 0 ∧ WState 1 w.index (ixE cfg 0 cs cur) ∧ (cs ≠ [] → cur ≠ [])) ∨
        (w.pending.length ≠ 0 ∧ cur = [] ∧ ∃ cs' c, cs = cs' ++ [c] ∧ WState 1 w.index (ixE cfg 0 cs' c) ∧
          w.pending = ⟨(dataBytes cfg cs').length, (Block.build cfg.restartInterval c).length⟩ ∧
          w.data.prevKey = lastKeyD [] c)

/-- the writer inside `Append`, after `flushPendingBH` -/
structure MidInv (cfg : TableCfg) (w : TableWriter) (cs : List (List KV)) (cur tl : List KV) : Prop where
  out : w.out = dataBytes cfg cs
  data : WState cfg.restartInterval w.data cur
  ne : ∀ c ∈ cs, c ≠ []
  n : w.nEntries = cs.flatten.length + cur.length
  pend : w.pending.length = 0
  idx : WState 1 w.index (ixE cfg 0 cs (cur ++ tl))

theorem TInv.new (cfg : TableCfg) : TInv cfg (TableWriter.new cfg) [] [] :=
  ⟨rfl, WState.fresh _ _, by simp, rfl, Or.inl ⟨rfl, WState.fresh 1 [], by simp⟩⟩

theorem lastKeyD_ne (p : Bytes) (l : List KV) (h : l ≠ []) : lastKeyD p l = lastKeyD [] l := by
  unfold lastKeyD
  rcases hl : l.getLast? with _ | x
  · simp at hl; exact absurd hl h
  · simp

/-- `flushPendingBH(key)` at the start of `Append(key, _)` / in `Close` (`tl = []`) -/
theorem TInv.flush {cfg : TableCfg} {w : TableWriter} {cs : List (List KV)} {cur : List KV}
    (h : TInv cfg w cs cur) (tl : List KV) :
    MidInv cfg (flushPendingBH cfg w (firstKeyD tl)) cs cur tl := by
  rcases h.idx with ⟨hp, hix, hne⟩ | ⟨hp, hcur, cs', c, hcs, hix, hpend, hprev⟩
  · have : flushPendingBH cfg w (firstKeyD tl) = w := by simp [flushPendingBH, hp]
    rw [this]
    refine ⟨h.out, h.data, h.ne, h.n, hp, ?_⟩
    by_cases hc : cur = []
    · have hcs : cs = [] := by
        cases cs with
        | nil => rfl
        | cons a t => exact absurd hc (hne (by simp))
      subst hcs; subst hc
      simpa [ixE] using hix
    · rw [ixE_congr cfg cs (cur ++ tl) cur h.ne (firstKeyD_append_ne _ _ hc)]
      exact hix
  · subst hcur
    have hix2 := hix.append (ixKey cfg (lastKeyD [] c) (firstKeyD tl)) w.pending.encode
    refine ⟨?_, ?_, h.ne, ?_, ?_, ?_⟩
    · simp [flushPendingBH, hp, h.out]
    · have hd := h.data
      simp only [flushPendingBH, hp, if_false]
      exact ⟨hd.ri_eq, hd.buf, hd.n, by simp, hd.restarts⟩
    · simp [flushPendingBH, hp, h.n]
    · simp [flushPendingBH, hp]
    · simp only [flushPendingBH, hp, if_false, List.nil_append]
      rw [hcs, ixE_snoc, Nat.zero_add]
      have : (if (firstKeyD tl).isEmpty = true then cfg.succ w.data.prevKey else cfg.sep w.data.prevKey (firstKeyD tl)).getD
          w.data.prevKey = ixKey cfg (lastKeyD [] c) (firstKeyD tl) := by
        rw [hprev]; rfl
      rw [this, hpend] at *
      have hc : c ≠ [] := h.ne c (by rw [hcs]; simp)
      rw [ixE_congr cfg cs' (c ++ tl) c (fun x hx => h.ne x (by rw [hcs]; simp [hx])) (firstKeyD_append_ne _ _ hc)]
      exact hix2

theorem firstKeyD_single (k v : Bytes) : firstKeyD [(k, v)] = k := rfl

/-- the block-cut decision of `Append(k, _)` -/
def cutAfter (cfg : TableCfg) (w : TableWriter) (k v : Bytes) : Prop :=
  ((flushPendingBH cfg w k).data.append k v).bytesLen ≥ cfg.blockSize

/-- one `Append` -/
theorem TInv.append' {cfg : TableCfg} {w : TableWriter} {cs : List (List KV)} {cur : List KV}
    (h : TInv cfg w cs cur) (k v : Bytes) :
    (cutAfter cfg w k v ∧ TInv cfg (w.append cfg k v) (cs ++ [cur ++ [(k, v)]]) []) ∨
    (¬ cutAfter cfg w k v ∧ TInv cfg (w.append cfg k v) cs (cur ++ [(k, v)])) := by
  unfold cutAfter
  have hm := h.flush [(k, v)]
  rw [firstKeyD_single] at hm
  unfold TableWriter.append
  simp only
  generalize flushPendingBH cfg w k = w1 at hm ⊢
  have hd2 := hm.data.append k v
  generalize (match cfg.filter with
      | none => w1.filt
      | some _ => w1.filt.add k) = f2
  have hne2 : cur ++ [(k, v)] ≠ [] := by simp
  by_cases hfull : (w1.data.append k v).bytesLen ≥ cfg.blockSize
  · simp only [hfull, if_true]
    refine Or.inl ⟨trivial, ?_⟩
    have hfin := hd2.finish
    refine ⟨?_, ?_, ?_, ?_, Or.inr ⟨?_, rfl, cs, cur ++ [(k, v)], rfl, ?_, ?_, ?_⟩⟩
    · simp [finishBlock, writeBlock, hfin, hm.out, dataBytes_snoc, blockBytes]
    · simp only [finishBlock, writeBlock]
      exact hd2.reset
    · intro c hc
      simp only [List.mem_append, List.mem_singleton] at hc
      rcases hc with hc | hc
      · exact hm.ne c hc
      · rw [hc]; exact hne2
    · simp [finishBlock, writeBlock, hm.n]; omega
    · simp only [finishBlock, writeBlock, blockBH, hfin]
      have := build_length_pos cfg.restartInterval (cur ++ [(k, v)])
      omega
    · simp only [finishBlock, writeBlock]
      exact hm.idx
    · simp [finishBlock, writeBlock, blockBH, hfin, hm.out]
    · simp only [finishBlock, writeBlock, BlockWriter.reset]
      exact hd2.prev hne2
  · simp only [hfull, if_false]
    refine Or.inr ⟨not_false, ⟨hm.out, hd2, hm.ne, ?_, Or.inl ⟨hm.pend, hm.idx, fun _ => hne2⟩⟩⟩
    simp [hm.n]; omega

theorem TInv.append {cfg : TableCfg} {w : TableWriter} {cs : List (List KV)} {cur : List KV}
    (h : TInv cfg w cs cur) (k v : Bytes) :
    ∃ cs' cur', TInv cfg (w.append cfg k v) cs' cur' ∧ cs'.flatten ++ cur' = cs.flatten ++ cur ++ [(k, v)] := by
  rcases h.append' k v with ⟨_, h1⟩ | ⟨_, h1⟩
  · exact ⟨_, _, h1, by simp⟩
  · exact ⟨_, _, h1, by simp⟩

theorem TInv.foldl {cfg : TableCfg} (kvs : List KV) : ∀ {w : TableWriter} {cs : List (List KV)} {cur : List KV},
    TInv cfg w cs cur →
    ∃ cs' cur', TInv cfg (kvs.foldl (fun w kv => w.append cfg kv.1 kv.2) w) cs' cur' ∧
      cs'.flatten ++ cur' = cs.flatten ++ cur ++ kvs := by
  induction kvs with
  | nil => intro w cs cur h; exact ⟨cs, cur, h, by simp⟩
  | cons a t ih =>
    intro w cs cur h
    obtain ⟨cs1, cur1, h1, e1⟩ := h.append a.1 a.2
    obtain ⟨cs2, cur2, h2, e2⟩ := ih h1
    exact ⟨cs2, cur2, h2, by rw [e2, e1]; simp⟩

/-- finishing the current (non-empty) block -/
theorem TInv.finishBlock {cfg : TableCfg} {w : TableWriter} {cs : List (List KV)} {cur : List KV}
    (h : TInv cfg w cs cur) (hcur : cur ≠ []) : TInv cfg (finishBlock cfg w) (cs ++ [cur]) [] := by
  rcases h.idx with ⟨hp, hix, _⟩ | ⟨_, hc, _⟩
  · have hfin := h.data.finish
    refine ⟨?_, ?_, ?_, ?_, Or.inr ⟨?_, rfl, cs, cur, rfl, ?_, ?_, ?_⟩⟩
    · simp [TableWriter.finishBlock, writeBlock, hfin, h.out, dataBytes_snoc, blockBytes]
    · simp only [TableWriter.finishBlock, writeBlock]
      exact h.data.reset
    · intro c hc
      simp only [List.mem_append, List.mem_singleton] at hc
      rcases hc with hc | hc
      · exact h.ne c hc
      · rw [hc]; exact hcur
    · simp [TableWriter.finishBlock, writeBlock, h.n]
    · simp only [TableWriter.finishBlock, writeBlock, blockBH, hfin]
      have := build_length_pos cfg.restartInterval cur
      omega
    · simp only [TableWriter.finishBlock, writeBlock]
      exact hix
    · simp [TableWriter.finishBlock, writeBlock, blockBH, hfin, h.out]
    · simp only [TableWriter.finishBlock, writeBlock, BlockWriter.reset]
      exact h.data.prev hcur
  · exact absurd hc hcur

/-- the state after the data part of `Close`, for a non-empty table -/
theorem TInv.closeData {cfg : TableCfg} {w : TableWriter} {cs : List (List KV)} {cur : List KV}
    (h : TInv cfg w cs cur) (hne : cs.flatten ++ cur ≠ []) :
    ∃ cs1, MidInv cfg (closeData cfg w) cs1 [] [] ∧ cs1.flatten = cs.flatten ++ cur := by
  unfold TableWriter.closeData
  by_cases hcur : cur = []
  · subst hcur
    have hn0 : w.data.nEntries = 0 := by rw [h.data.n]; rfl
    have hn1 : w.nEntries ≠ 0 := by
      rw [h.n]
      have : cs.flatten ≠ [] := by simpa using hne
      have := List.length_pos_iff.mpr this
      simp only [List.length_nil, Nat.add_zero]; omega
    have : ¬ (w.data.nEntries > 0 ∨ w.nEntries = 0) := by omega
    simp only [this, if_false]
    exact ⟨cs, by simpa [firstKeyD] using h.flush [], by simp⟩
  · have hn0 : w.data.nEntries > 0 := by
      rw [h.data.n]; exact List.length_pos_iff.mpr hcur
    simp only [hn0, true_or, if_true]
    exact ⟨cs ++ [cur], by simpa [firstKeyD] using (h.finishBlock hcur).flush [], by simp⟩

/-- the metaindex entries -/
def metaKVs (cfg : TableCfg) (dataLen : Nat) (fb : Option Bytes) : List KV :=
  match cfg.filter, fb with
  | some pol, some b => [(filterMetaKey pol, BH.encode ⟨dataLen, b.length⟩)]
  | _, _ => []

def filterSection (cfg : TableCfg) (fb : Option Bytes) : Bytes :=
  match fb with
  | none => []
  | some b => withTrailer cfg.cksum b

/-- the file for data chunks `cs` and filter block contents `fb` -/
def tableFile (cfg : TableCfg) (cs : List (List KV)) (fb : Option Bytes) : Bytes :=
  let data := dataBytes cfg cs
  let fsec := filterSection cfg fb
  let metaB := Block.build cfg.restartInterval (metaKVs cfg data.length fb)
  let ixB := Block.build 1 (ixE cfg 0 cs [])
  data ++ fsec ++ withTrailer cfg.cksum metaB ++ withTrailer cfg.cksum ixB ++
    footer ⟨(data ++ fsec).length, metaB.length⟩ ⟨(data ++ fsec ++ withTrailer cfg.cksum metaB).length, ixB.length⟩

theorem filterFinish_length_pos (pol : FilterPolicy) (lg : Nat) (w : FilterWriter) :
    0 < (w.finish pol lg).length := by
  unfold FilterWriter.finish
  simp only [List.length_append, List.length_singleton]
  omega

/-- the filter block contents `Close` writes (none without a policy) -/
def closeFilter (cfg : TableCfg) (w : TableWriter) : Option Bytes :=
  cfg.filter.map fun pol => (closeData cfg w).filt.finish pol cfg.filterBaseLg

/-- what the tail of `Close` needs to know about the writer -/
structure Closed (cfg : TableCfg) (w : TableWriter) (cs : List (List KV)) : Prop where
  out : w.out = dataBytes cfg cs
  data : WState cfg.restartInterval w.data []
  idx : WState 1 w.index (ixE cfg 0 cs [])

theorem MidInv.closed {cfg : TableCfg} {w : TableWriter} {cs : List (List KV)} (h : MidInv cfg w cs [] []) :
    Closed cfg w cs := ⟨h.out, h.data, by simpa using h.idx⟩

theorem closed_empty (cfg : TableCfg) : Closed cfg (closeData cfg (TableWriter.new cfg)) [[]] := by
  have hfin : ({ restartInterval := cfg.restartInterval } : BlockWriter).finish = Block.build cfg.restartInterval [] :=
    (WState.fresh cfg.restartInterval []).finish
  have hpos := build_length_pos cfg.restartInterval []
  have hp : (Block.build cfg.restartInterval []).length ≠ 0 := by omega
  refine ⟨?_, ?_, ?_⟩
  · simp [closeData, TableWriter.new, TableWriter.finishBlock, writeBlock, flushPendingBH, blockBH, hfin, hp,
      dataBytes, blockBytes]
  · simp only [closeData, TableWriter.new, TableWriter.finishBlock, writeBlock, flushPendingBH, blockBH, hfin]
    simp only [Nat.lt_irrefl, false_or, if_true, hp, if_false]
    exact ⟨rfl, rfl, rfl, by simp, rfl⟩
  · simp only [closeData, TableWriter.new, TableWriter.finishBlock, writeBlock, flushPendingBH, blockBH, hfin]
    simp only [Nat.lt_irrefl, false_or, if_true, hp, if_false]
    have := (WState.fresh 1 []).append (ixKey cfg [] []) (BH.encode ⟨0, (Block.build cfg.restartInterval []).length⟩)
    simpa [ixE, ixKey, lastKeyD, firstKeyD, BlockWriter.reset] using this

theorem close_eq {cfg : TableCfg} {w : TableWriter} {cs : List (List KV)}
    (h : Closed cfg (closeData cfg w) cs) :
    close cfg w = tableFile cfg cs (closeFilter cfg w) := by
  unfold TableWriter.close closeFilter tableFile
  simp only
  generalize closeData cfg w = w2 at h ⊢
  have hix : w2.index.finish = Block.build 1 (ixE cfg 0 cs []) := h.idx.finish
  cases hf : cfg.filter with
  | none =>
    have hm : w2.data.finish = Block.build cfg.restartInterval [] := h.data.finish
    simp [metaKVs, filterSection, hf, writeBlock, blockBH, hm, hix, h.out]
  | some pol =>
    have hpos := filterFinish_length_pos pol cfg.filterBaseLg w2.filt
    have hm : (w2.data.append (filterMetaKey pol)
        (BH.encode ⟨(dataBytes cfg cs).length, (w2.filt.finish pol cfg.filterBaseLg).length⟩)).finish =
        Block.build cfg.restartInterval
          [(filterMetaKey pol, BH.encode ⟨(dataBytes cfg cs).length, (w2.filt.finish pol cfg.filterBaseLg).length⟩)] := by
      simpa using (h.data.append _ _).finish
    simp [metaKVs, filterSection, hf, writeBlock, blockBH, hpos, hm, hix, h.out]

/-- the writer after all `Append`s -/
def appended (cfg : TableCfg) (kvs : List KV) : TableWriter :=
  kvs.foldl (fun w kv => w.append cfg kv.1 kv.2) (TableWriter.new cfg)

/-- **shape of a written table**: data blocks for a partition `cs` of the input into non-empty chunks (one empty
chunk for an empty table), optional filter block, metaindex, index, footer -/
theorem write_shape (cfg : TableCfg) (kvs : List KV) :
    ∃ cs, Table.write cfg kvs = tableFile cfg cs (closeFilter cfg (appended cfg kvs)) ∧ cs.flatten = kvs ∧
      ((kvs = [] ∧ cs = [[]]) ∨ (cs ≠ [] ∧ ∀ c ∈ cs, c ≠ [])) := by
  by_cases hk : kvs = []
  · subst hk
    exact ⟨[[]], close_eq (closed_empty cfg), rfl, Or.inl ⟨rfl, rfl⟩⟩
  · obtain ⟨cs, cur, h, e⟩ := (TInv.new cfg).foldl kvs
    simp only [List.flatten_nil, List.nil_append] at e
    obtain ⟨cs1, h1, e1⟩ := h.closeData (by rw [e]; exact hk)
    refine ⟨cs1, close_eq h1.closed, by rw [e1, e], Or.inr ⟨?_, h1.ne⟩⟩
    intro hc; subst hc
    simp only [List.flatten_nil] at e1
    rw [← e1] at e; exact hk e.symm

end GoLevel.C13
