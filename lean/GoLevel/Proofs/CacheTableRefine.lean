import GoLevel.Proofs.CacheTableBucket
/-! Hash table of the cache (C17), part 7: every operation of the table model refines the corresponding
operation on a finite map keyed by (ns,key); the background initialisation is invisible. -/
namespace GoLevel.CacheT

/-- The specification: a finite map, as a list of nodes with pairwise different keys. -/
structure Spec where
  m : List TNode
  nextId : Nat

def Spec.new : Spec := { m := [], nextId := 0 }

def specStep (hashfn : Nat → Nat → Nat) (s : Spec) : TOp → Spec × TRes
  | .get ns key getOnly =>
    match s.m.find? (keyEq ns key) with
    | some n => (s, .get (.found n))
    | none =>
      if getOnly then (s, .get .absent)
      else
        ({ m := { ns := ns, key := key, hash := hashfn ns key, id := s.nextId } :: s.m, nextId := s.nextId + 1 },
          .get (.created { ns := ns, key := key, hash := hashfn ns key, id := s.nextId }))
  | .delete ns key refZero =>
    match s.m.find? (keyEq ns key) with
    | some n => if refZero then ({ s with m := s.m.erase n }, .deleted true) else (s, .deleted false)
    | none => (s, .deleted false)
  | .bgInit _ _ => (s, .unit)
  | .bgDone _ => (s, .unit)

def specRun (hashfn : Nat → Nat → Nat) : Spec → List TOp → Spec × List TRes
  | s, [] => (s, [])
  | s, op :: ops =>
    let r := specStep hashfn s op
    let rs := specRun hashfn r.1 ops
    (rs.1, r.2 :: rs.2)

/-- The table holds exactly the nodes of the map; `Nodes()` is the size of the map. -/
structure Refines (hashfn : Nat → Nat → Nat) (t : Table) (s : Spec) : Prop where
  wf : TWF hashfn t
  mem : ∀ x, x ∈ s.m ↔ Mem t x
  nodup : s.m.Nodup
  nodes : t.statNodes = s.m.length
  nid : t.nextId = s.nextId

theorem twf_heads {hashfn : Nat → Nat → Nat} {t : Table} (hwf : TWF hashfn t) : ∃ h ps, t.heads = h :: ps := by
  have := hwf.chain
  cases hh : t.heads with
  | nil => rw [hh] at this; exact this.elim
  | cons h ps => exact ⟨h, ps, rfl⟩

/-- There is at most one node per key in the table. -/
theorem mem_unique {hashfn : Nat → Nat → Nat} {t : Table} (hwf : TWF hashfn t) {ns key : Nat} {a b : TNode}
    (ha : Mem t a) (hb : Mem t b) (hka : keyEq ns key a = true) (hkb : keyEq ns key b = true) : a = b := by
  obtain ⟨h, ps, hh⟩ := twf_heads hwf
  have hw := hwf.chain
  rw [hh] at hw
  unfold Mem at ha hb; rw [hh] at ha hb
  have h1 := mem_key_bucket hw ha hka
  have h2 := mem_key_bucket hw hb hkb
  have hpos := hw.headOK.pos
  have hs := (vnodes_ok hw h ps rfl _ (Nat.mod_lt (hashfn ns key) hpos)).1
  simp only [keyEq, Bool.and_eq_true, beq_iff_eq] at hka hkb
  exact sorted_nodup_key hs h1 h2 ⟨by omega, by omega⟩

/-- The table is unchanged as far as anyone can see. -/
def Same (hashfn : Nat → Nat → Nat) (t' t : Table) : Prop :=
  TWF hashfn t' ∧ (∀ x, Mem t' x ↔ Mem t x) ∧ t'.statNodes = t.statNodes ∧ t'.nextId = t.nextId

theorem refines_same {hashfn : Nat → Nat → Nat} {t t' : Table} {s : Spec} (hr : Refines hashfn t s)
    (h : Same hashfn t' t) : Refines hashfn t' s :=
  ⟨h.1, fun x => (hr.mem x).trans (h.2.1 x).symm, hr.nodup, by rw [h.2.2.1]; exact hr.nodes,
    by rw [h.2.2.2]; exact hr.nid⟩

/-- `Cache.Get`/`Delete`/`Evict`'s table access: the first attempt of the loop succeeds. -/
theorem getLoop_ok {hashfn : Nat → Nat → Nat} {t : Table} (hwf : TWF hashfn t) (ns key : Nat) (getOnly : Bool) :
    (∀ n, Mem t n → keyEq ns key n = true →
      (getLoop hashfn ns key getOnly 2 t).2 = .found n ∧ Same hashfn (getLoop hashfn ns key getOnly 2 t).1 t) ∧
    ((∀ n, Mem t n → keyEq ns key n = false) →
      (getOnly = true →
        (getLoop hashfn ns key getOnly 2 t).2 = .absent ∧ Same hashfn (getLoop hashfn ns key getOnly 2 t).1 t) ∧
      (getOnly = false →
        (getLoop hashfn ns key getOnly 2 t).2 =
          .created { ns := ns, key := key, hash := hashfn ns key, id := t.nextId } ∧
        TWF hashfn (getLoop hashfn ns key getOnly 2 t).1 ∧
        (∀ x, Mem (getLoop hashfn ns key getOnly 2 t).1 x ↔
          (x = { ns := ns, key := key, hash := hashfn ns key, id := t.nextId } ∨ Mem t x)) ∧
        (getLoop hashfn ns key getOnly 2 t).1.statNodes = t.statNodes + 1 ∧
        (getLoop hashfn ns key getOnly 2 t).1.nextId = t.nextId + 1)) := by
  obtain ⟨h, ps, hh⟩ := twf_heads hwf
  obtain ⟨g1, g2, g3, g4, g5, h1, ps1, g6, g7, g8⟩ := getBucket_ok hwf hh (hashfn ns key)
  have hpos := (hh ▸ hwf.chain).headOK.pos
  have hi : (getBucket t (hashfn ns key)).2 < h1.buckets.length := by
    rw [g1, g7]; exact Nat.mod_lt _ hpos
  have hidx : hashfn ns key % h1.buckets.length = (getBucket t (hashfn ns key)).2 := by rw [g1, g7]
  have hb := bucketGet_ok (getOnly := getOnly) g2 g6 hi (by rw [g1]; exact g8) hidx
  constructor
  · intro n hn hk
    have := hb.1 n ((g3 n).mpr hn) hk
    simp only [getLoop, this]
    exact ⟨trivial, g2, g3, g4, g5⟩
  · intro hnone
    have hb2 := hb.2 (fun n hn => hnone n ((g3 n).mp hn))
    constructor
    · intro hg
      have := hb2.1 hg
      simp only [getLoop, this]
      exact ⟨trivial, g2, g3, g4, g5⟩
    · intro hg
      obtain ⟨r1, r2, r3, r4, r5⟩ := hb2.2 hg
      rw [g5] at r1 r3
      have hl : getLoop hashfn ns key getOnly 2 t =
          bucketGet (getBucket t (hashfn ns key)).1 (getBucket t (hashfn ns key)).2 (hashfn ns key) ns key
            getOnly := by
        simp only [getLoop]
        rw [r1]
      rw [hl]
      refine ⟨r1, r2, fun x => ?_, by rw [r4, g4], by rw [r5, g5]⟩
      rw [r3 x, g3 x]

/-- `Cache.delete(n)`: the first attempt of the loop succeeds. -/
theorem deleteLoop_ok {hashfn : Nat → Nat → Nat} {t : Table} (hwf : TWF hashfn t) (ns key : Nat) :
    (∀ n, Mem t n → keyEq ns key n = true →
      ((deleteLoop hashfn ns key false 2 t).2 = false ∧ Same hashfn (deleteLoop hashfn ns key false 2 t).1 t) ∧
      (deleteLoop hashfn ns key true 2 t).2 = true ∧ TWF hashfn (deleteLoop hashfn ns key true 2 t).1 ∧
      (∀ x, Mem (deleteLoop hashfn ns key true 2 t).1 x ↔ (Mem t x ∧ x ≠ n)) ∧
      (deleteLoop hashfn ns key true 2 t).1.statNodes = t.statNodes - 1 ∧
      (deleteLoop hashfn ns key true 2 t).1.nextId = t.nextId) ∧
    ((∀ n, Mem t n → keyEq ns key n = false) → ∀ refZero,
      (deleteLoop hashfn ns key refZero 2 t).2 = false ∧ Same hashfn (deleteLoop hashfn ns key refZero 2 t).1 t) := by
  obtain ⟨h, ps, hh⟩ := twf_heads hwf
  obtain ⟨g1, g2, g3, g4, g5, h1, ps1, g6, g7, g8⟩ := getBucket_ok hwf hh (hashfn ns key)
  have hpos := (hh ▸ hwf.chain).headOK.pos
  have hi : (getBucket t (hashfn ns key)).2 < h1.buckets.length := by
    rw [g1, g7]; exact Nat.mod_lt _ hpos
  have hidx : hashfn ns key % h1.buckets.length = (getBucket t (hashfn ns key)).2 := by rw [g1, g7]
  have hb := bucketDelete_ok (ns := ns) (key := key) g2 g6 hi (by rw [g1]; exact g8) hidx
  constructor
  · intro n hn hk
    obtain ⟨r0, r1, r2, r3, r4, r5⟩ := hb.1 n ((g3 n).mpr hn) hk
    refine ⟨?_, ?_⟩
    · simp only [deleteLoop, r0]
      exact ⟨trivial, g2, g3, g4, g5⟩
    · have hl : deleteLoop hashfn ns key true 2 t =
          ((bucketDelete (getBucket t (hashfn ns key)).1 (getBucket t (hashfn ns key)).2 ns key true).1, true) := by
        simp only [deleteLoop]
        rw [r1]
      rw [hl]
      refine ⟨rfl, r2, fun x => ?_, by rw [r4, g4], by rw [r5, g5]⟩
      simp only []
      rw [r3 x, g3 x]
  · intro hnone refZero
    have := hb.2 (fun n hn => hnone n ((g3 n).mp hn)) refZero
    simp only [deleteLoop, this]
    exact ⟨trivial, g2, g3, g4, g5⟩

end GoLevel.CacheT
