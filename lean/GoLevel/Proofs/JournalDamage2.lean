import GoLevel.Proofs.JournalDamage
/-! Chunk boundaries of an encoded stream, and the single-damaged-block theorem. -/
namespace GoLevel.Journal
open GoLevel.Gen (journalBlockSize journalHeaderSize fullChunkType firstChunkType middleChunkType lastChunkType)

local notation "blockSize" => journalBlockSize
local notation "headerSize" => journalHeaderSize

/-- `Boundary rs done X pos cur y rest`: `X` is a prefix of `encode rs` that ends where a chunk header starts
    (padding before it included in `X`).  `done` are the records wholly inside `X`; if the boundary is inside
    a record, `cur` is the payload of that record inside `X` and `y` the payload still to come; `rest` are
    the records after it.  `pos` is the reader's in-block offset there (`blockSize` = start of next block). -/
inductive Boundary (rs : List Bytes) :
    List Bytes → Bytes → Nat → Option Bytes → Option Bytes → List Bytes → Prop
  /-- before the first chunk of record `r` -/
  | record (rs1 : List Bytes) (r : Bytes) (rs2 : List Bytes) (h : rs = rs1 ++ r :: rs2) :
      Boundary rs rs1 (encodeFrom 0 rs1 ++ (pad (endPos 0 rs1)).1) (pad (endPos 0 rs1)).2 none none (r :: rs2)
  /-- after the first chunk of a record that does not fit into its block -/
  | first {done X pos r rest} (hb : Boundary rs done X pos none none (r :: rest))
      (hbig : ¬ r.length ≤ blockSize - (pos + headerSize)) :
      Boundary rs done (X ++ chunk (chunkType true false) (r.take (blockSize - (pos + headerSize)))) blockSize
        (some (r.take (blockSize - (pos + headerSize)))) (some (r.drop (blockSize - (pos + headerSize)))) rest
  /-- after a middle chunk -/
  | middle {done X acc y rest} (hb : Boundary rs done X blockSize (some acc) (some y) rest)
      (hbig : ¬ y.length ≤ blockSize - headerSize) :
      Boundary rs done (X ++ chunk (chunkType false false) (y.take (blockSize - headerSize))) blockSize
        (some (acc ++ y.take (blockSize - headerSize))) (some (y.drop (blockSize - headerSize))) rest

theorem Boundary.shape {rs done X pos cur y rest} (h : Boundary rs done X pos cur y rest) :
    cur.isSome = y.isSome ∧ (if y.isSome then pos = blockSize else pos + headerSize ≤ blockSize) ∧
    (y = none → rest ≠ []) := by
  induction h with
  | record r rs2 h =>
    exact ⟨rfl, by simpa using pad_pos_le _ (endPos_le 0 done (Nat.zero_le _)), fun _ => by simp⟩
  | first hb hbig ih => exact ⟨rfl, by simp, fun h => by simp at h⟩
  | middle hb hbig ih => exact ⟨rfl, by simp, fun h => by simp at h⟩

theorem encodeFrom_pad (pos : Nat) (rs : List Bytes) (hpos : pos ≤ blockSize) (hne : rs ≠ []) :
    encodeFrom pos rs = (pad pos).1 ++ encodeFrom (pad pos).2 rs := by
  obtain ⟨r, rs', rfl⟩ := List.exists_cons_of_ne_nil hne
  have := pad_pos_le pos hpos
  simp only [encodeFrom, emitRecord, pad_fit this, List.nil_append, List.append_assoc]

/-- the prefix and the tail make up the original stream -/
theorem Boundary.stream {rs done X pos cur y rest} (h : Boundary rs done X pos cur y rest) :
    X ++ tailBytes pos y rest = encode rs := by
  have hlt := headerSize_lt_blockSize
  induction h with
  | record r rs2 h =>
    subst h
    simp only [tailBytes, encode, encodeFrom_append, List.append_assoc]
    rw [← encodeFrom_pad _ _ (endPos_le 0 done (Nat.zero_le _)) (by simp)]
  | @first X pos r rest hb hbig ih =>
    rw [← ih]
    have hp := hb.shape.2.1
    simp only [Option.isSome_none, Bool.false_eq_true, if_false] at hp
    simp only [tailBytes, encodeFrom, emitRecord, pad_fit hp, emitChunks, if_neg hbig, List.nil_append,
      List.append_assoc]
  | @middle X acc y rest hb hbig ih =>
    rw [← ih]
    simp only [tailBytes, List.append_assoc]
    conv => rhs; rw [restChunks, if_neg hbig]
    simp only [List.append_assoc]

/-- two reader states on which `nextChunk` agrees behave alike -/
theorem decodeLoop_congr {s c st st' cur} (h : nextChunk s c cur.isNone st = nextChunk s c cur.isNone st') :
    decodeLoop s c st cur = decodeLoop s c st' cur := by
  cases h' : nextChunk s c cur.isNone st' with
  | eof => rw [decodeLoop_eof h', decodeLoop_eof (h.trans h')]
  | corrupt n w => rw [decodeLoop_corrupt h', decodeLoop_corrupt (h.trans h')]
  | skip n w st'' => rw [decodeLoop_skip h', decodeLoop_skip (h.trans h')]
  | ok p l st'' => rw [decodeLoop_ok h', decodeLoop_ok (h.trans h')]

/-- `Next` skips the padding at the end of a block -/
theorem nextChunk_skip_pad (s c : Bool) (pos : Nat) (T : Bytes) (hpos : pos ≤ blockSize) :
    nextChunk s c true ⟨pos, (pad pos).1 ++ T⟩ = nextChunk s c true ⟨(pad pos).2, T⟩ := by
  have h7 := headerSize_eq
  have hlt := headerSize_lt_blockSize
  unfold pad
  by_cases hp : pos + headerSize > blockSize
  · simp only [if_pos hp]
    unfold nextChunk nextChunkLoop
    simp only [List.length_append, List.length_replicate, Nat.sub_zero, Nat.zero_add]
    rw [if_neg (by omega), if_neg (by omega)]
    have hd : List.drop (pos + min (blockSize - pos) (blockSize - pos + T.length) - pos)
        (List.replicate (blockSize - pos) (0 : UInt8) ++ T) = T := by
      apply List.drop_left'; simp only [List.length_replicate]; omega
    rw [hd]
    unfold nextChunkLoop
    simp only [Nat.sub_zero, Nat.zero_add, endOfStream, Bool.not_true, Bool.false_eq_true, if_false]
    by_cases hT : T.length = 0
    · have : T = [] := List.eq_nil_of_length_eq_zero hT
      subst this
      simp only [List.length_nil, Nat.min_zero, if_true]
      rw [if_neg (by omega), if_neg (by omega)]
      simp
    · rw [if_neg (by omega)]
      split
      · rfl
      · split
        · rfl
        · omega
  · simp only [if_neg hp, List.nil_append]

/-- the reader, run over the prefix, delivers `done` and arrives at the boundary -/
theorem Boundary.reader {rs done X pos cur y rest} (h : Boundary rs done X pos cur y rest) (s c : Bool)
    (T : Bytes) :
    decodeLoop s c ⟨0, X ++ T⟩ none =
      ⟨done.map .record ++ (decodeLoop s c ⟨pos, T⟩ cur).events, (decodeLoop s c ⟨pos, T⟩ cur).final⟩ := by
  have hlt := headerSize_lt_blockSize
  induction h generalizing T with
  | record r rs2 h =>
    have := decodeLoop_encodeFrom s c 0 done ((pad (endPos 0 done)).1 ++ T) (Nat.zero_le _)
    simp only [List.append_assoc]
    rw [this]
    have hc := decodeLoop_congr (cur := none) (by
      simpa using nextChunk_skip_pad s c (endPos 0 done) T (endPos_le 0 done (Nat.zero_le _)))
    simp only [hc]
  | @first X pos r rest hb hbig ih =>
    have hp := hb.shape.2.1
    simp only [Option.isSome_none, Bool.false_eq_true, if_false] at hp
    simp only [List.append_assoc]
    rw [ih]
    have hlen : (r.take (blockSize - (pos + headerSize))).length = blockSize - (pos + headerSize) := by
      simp only [List.length_take]; omega
    have hn := nextChunk_pad_chunk s c true pos true false (r.take (blockSize - (pos + headerSize))) T (by omega)
      (by rw [pad_fit hp]; simp only; omega)
    rw [pad_fit hp] at hn
    simp only [List.nil_append] at hn
    rw [decodeLoop_ok (cur := none) (by simpa using hn)]
    simp only [Bool.false_eq_true, if_false, Option.getD_none, List.nil_append]
    rw [show pos + headerSize + min (blockSize - (pos + headerSize)) r.length = blockSize by omega]
  | @middle X acc y rest hb hbig ih =>
    simp only [List.append_assoc]
    rw [ih]
    have hn := nextChunk_boundary_chunk s c false false false (y.take (blockSize - headerSize)) T
      (by simp only [List.length_take]; omega)
    rw [decodeLoop_ok (cur := some acc) (by simpa using hn)]
    simp only [Bool.false_eq_true, if_false, Option.getD_some]
    rw [show headerSize + min (blockSize - headerSize) y.length = blockSize by omega]

theorem eventRecords_append (a b : List Event) : eventRecords (a ++ b) = eventRecords a ++ eventRecords b := by
  induction a with
  | nil => rfl
  | cons e a ih => cases e <;> simp [eventRecords, ih]

theorem eventDrops_append (a b : List Event) : eventDrops (a ++ b) = eventDrops a ++ eventDrops b := by
  induction a with
  | nil => rfl
  | cons e a ih => cases e <;> simp [eventDrops, ih]

theorem records_mk (rs : List Bytes) (t : List Event) (f : End) :
    DecodeResult.records ⟨rs.map .record ++ t, f⟩ = rs ++ eventRecords t := by
  simp only [DecodeResult.records, eventRecords_append, eventRecords_map_record]

theorem drops_mk (rs : List Bytes) (t : List Event) (f : End) :
    DecodeResult.drops ⟨rs.map .record ++ t, f⟩ = eventDrops t := by
  simp only [DecodeResult.drops, eventDrops_append, eventDrops_map_record, List.nil_append]

theorem eventRecords_orphans {ds : List Event} (h : AllOrphanDrops ds) : eventRecords ds = [] := by
  induction ds with
  | nil => rfl
  | cons e ds ih =>
    obtain ⟨x, hx⟩ := h e (List.mem_cons_self)
    subst hx
    simp only [eventRecords]
    exact ih (fun e he => h e (List.mem_cons_of_mem _ he))

/-- **One damaged block (core).**  `X` is an intact prefix of `encode rs` up to a chunk boundary, `Z'` replaces
    the bytes from there to the end of the block (or of the stream), the rest of the stream is intact.  If the
    chunk at the boundary fails the reader's test, the tolerant reader delivers the records before the
    boundary and the records that start in later blocks, nothing else, and ends with EOF. -/
theorem Boundary.damage {rs done X pos cur y rest} (hB : Boundary rs done X pos cur y rest) (c : Bool)
    (Z' : Bytes) (hlen : Z'.length = zoneLen pos y rest)
    (hrej : ¬ Accepts c (zoneStart pos y) (Z' ++ (tailBytes pos y rest).drop (zoneLen pos y rest))
      (zoneStart pos y + zoneLen pos y rest)) :
    ∃ ds, eventRecords ds = [] ∧
      decode false c (X ++ Z' ++ (tailBytes pos y rest).drop (zoneLen pos y rest)) =
        ⟨done.map .record ++ ds ++ (survivors pos y rest).map .record, .eof⟩ := by
  have h7 := headerSize_eq
  obtain ⟨hcur, hpos, hne⟩ := hB.shape
  have hy : y = none → pos + headerSize ≤ blockSize ∧ rest ≠ [] := by
    intro e; subst e; exact ⟨by simpa using hpos, hne rfl⟩
  obtain ⟨hz7, hafter, _⟩ := tail_after pos y rest hy
  have hzle : zoneLen pos y rest ≤ (tailBytes pos y rest).length := by unfold zoneLen; omega
  have hzmin : min (blockSize - zoneStart pos y) (tailBytes pos y rest).length = zoneLen pos y rest := rfl
  generalize hY : (tailBytes pos y rest).drop (zoneLen pos y rest) = Y at *
  have hYlen : Y.length = (tailBytes pos y rest).length - zoneLen pos y rest := by
    rw [← hY, List.length_drop]
  have hRlen : (Z' ++ Y).length = (tailBytes pos y rest).length := by
    simp only [List.length_append, hlen, hYlen]; omega
  have hn := nextChunk_at false c cur.isNone pos y (Z' ++ Y) hpos (by omega)
  rw [hRlen, hzmin] at hn
  obtain ⟨w, _, _, hp⟩ := parseChunk_reject false c cur.isNone (zoneStart pos y) (Z' ++ Y)
    (zoneStart pos y + zoneLen pos y rest) hrej
  rw [hp, Nat.add_sub_cancel_left, List.drop_left' hlen] at hn
  simp only [corrupt, Bool.false_and, Bool.false_eq_true, if_false] at hn
  unfold decode
  rw [List.append_assoc, hB.reader false c (Z' ++ Y), decodeLoop_skip hn]
  cases h : afterBlockT pos y rest with
  | none =>
    simp only [h] at hafter
    subst hafter
    rw [decodeLoop_short_none _ _ _ (by simp; omega)]
    refine ⟨[.drop (zoneLen pos y rest) w], rfl, ?_⟩
    simp [survivors, h, DecodeResult.cons]
  | some v =>
    obtain ⟨y', rs3⟩ := v
    simp only [h] at hafter
    obtain ⟨hbs, hYe⟩ := hafter
    obtain ⟨ds, hds, e⟩ := decodeLoop_tail false c y' rs3
    rw [hbs, hYe, e]
    refine ⟨.drop (zoneLen pos y rest) w :: ds, by simp [eventRecords, eventRecords_orphans hds], ?_⟩
    simp [survivors, h, DecodeResult.cons]

/-- the strict reader stops at the damaged chunk with a corruption error -/
theorem Boundary.damage_strict {rs done X pos cur y rest} (hB : Boundary rs done X pos cur y rest) (c : Bool)
    (Z' : Bytes) (hlen : Z'.length = zoneLen pos y rest)
    (hrej : ¬ Accepts c (zoneStart pos y) (Z' ++ (tailBytes pos y rest).drop (zoneLen pos y rest))
      (zoneStart pos y + zoneLen pos y rest)) :
    ∃ x w, decode true c (X ++ Z' ++ (tailBytes pos y rest).drop (zoneLen pos y rest)) =
        ⟨done.map .record ++ [.drop x w], .corrupt⟩ := by
  have h7 := headerSize_eq
  obtain ⟨hcur, hpos, hne⟩ := hB.shape
  have hy : y = none → pos + headerSize ≤ blockSize ∧ rest ≠ [] := by
    intro e; subst e; exact ⟨by simpa using hpos, hne rfl⟩
  obtain ⟨hz7, _, _⟩ := tail_after pos y rest hy
  have hzle : zoneLen pos y rest ≤ (tailBytes pos y rest).length := by unfold zoneLen; omega
  have hzmin : min (blockSize - zoneStart pos y) (tailBytes pos y rest).length = zoneLen pos y rest := rfl
  generalize hY : (tailBytes pos y rest).drop (zoneLen pos y rest) = Y at *
  have hYlen : Y.length = (tailBytes pos y rest).length - zoneLen pos y rest := by
    rw [← hY, List.length_drop]
  have hRlen : (Z' ++ Y).length = (tailBytes pos y rest).length := by
    simp only [List.length_append, hlen, hYlen]; omega
  have hn := nextChunk_at true c cur.isNone pos y (Z' ++ Y) hpos (by omega)
  rw [hRlen, hzmin] at hn
  obtain ⟨w, _, _, hp⟩ := parseChunk_reject true c cur.isNone (zoneStart pos y) (Z' ++ Y)
    (zoneStart pos y + zoneLen pos y rest) hrej
  rw [hp] at hn
  simp only [corrupt, Bool.not_false, Bool.and_self, if_true] at hn
  unfold decode
  rw [List.append_assoc, hB.reader true c (Z' ++ Y), decodeLoop_corrupt hn]
  exact ⟨_, _, rfl⟩

/-- the records of the stream are those before the boundary, the one the boundary is in (if any), and `rest` -/
theorem Boundary.records {rs done X pos cur y rest} (h : Boundary rs done X pos cur y rest) :
    ∃ mid, rs = done ++ mid ++ rest ∧ (y = none → mid = []) ∧ mid.length ≤ 1 := by
  induction h with
  | record r rs2 h => exact ⟨[], by simpa using h, fun _ => rfl, by simp⟩
  | @first X pos r rest hb hbig ih =>
    obtain ⟨mid, e, hm, _⟩ := ih
    have := hm rfl; subst this
    exact ⟨[r], by simpa using e, fun h => by simp at h, by simp⟩
  | @middle X acc y rest hb hbig ih =>
    obtain ⟨mid, e, _, hl⟩ := ih
    exact ⟨mid, e, fun h => by simp at h, hl⟩

end GoLevel.Journal
