import GoLevel.Proofs.CacheTableBasic
/-! Hash table of the cache (C17), part 2: the chain of heads.  `vnodes hs i` is what bucket `i` of the newest
head holds *or would hold once initialised* (split / merge of the predecessor's buckets, recursively);
`WFChain` is the well-formedness of the chain; `vnodes_ok`: every such bucket is strictly sorted and holds
exactly nodes whose hash selects it. -/
namespace GoLevel.CacheT

/-- The number of buckets is a power of two and `mask` is that minus one. -/
def HeadOK (h : Head) : Prop := ∃ k, h.buckets.length = 2 ^ k ∧ h.mask = 2 ^ k - 1

theorem HeadOK.pos {h : Head} (hk : HeadOK h) : 0 < h.buckets.length := by
  obtain ⟨k, h1, _⟩ := hk; rw [h1]; exact Nat.pow_pos (by decide)

theorem HeadOK.mask_eq {h : Head} (hk : HeadOK h) : h.mask = h.buckets.length - 1 := by
  obtain ⟨k, h1, h2⟩ := hk; rw [h1, h2]

/-- `x & h.mask` is `x mod len(h.buckets)`. -/
theorem land_mask {h : Head} (hk : HeadOK h) (x : Nat) : x &&& h.mask = x % h.buckets.length := by
  obtain ⟨k, h1, h2⟩ := hk
  rw [h1, h2]; exact Nat.and_two_pow_sub_one_eq_mod x k

/-- The content of bucket `i` of the first head of the chain, looking through uninitialised buckets. -/
def vnodes : List Head → Nat → List TNode
  | [], _ => []
  | h :: ps, i =>
    if h.buckets.length ≤ i then []
    else if (h.bucket i).state ≠ .uninit then (h.bucket i).nodes
    else match ps with
      | [] => []
      | p :: _ =>
        if h.mask > p.mask then (vnodes ps (i &&& p.mask)).filter fun x => x.hash &&& h.mask == i
        else sortNodes (vnodes ps i ++ vnodes ps (i + h.buckets.length))

/-- A bucket `i` of a head with `len` buckets: strictly sorted by (ns,key); every node carries the hash of its
key, and that hash selects this bucket. -/
def BucketOK (hashfn : Nat → Nat → Nat) (len i : Nat) (l : List TNode) : Prop :=
  Sorted l ∧ ∀ x ∈ l, x.hash = hashfn x.ns x.key ∧ x.hash % len = i

/-- Well-formed chain of heads (newest first): sizes are powers of two, neighbours differ by a factor two,
initialised buckets are `BucketOK`, the oldest head has no uninitialised bucket. -/
def WFChain (hashfn : Nat → Nat → Nat) : List Head → Prop
  | [] => False
  | h :: ps =>
    HeadOK h ∧
    (∀ i, i < h.buckets.length → (h.bucket i).state ≠ .uninit →
      BucketOK hashfn h.buckets.length i (h.bucket i).nodes) ∧
    match ps with
    | [] => ∀ i, i < h.buckets.length → (h.bucket i).state ≠ .uninit
    | p :: _ =>
      (h.buckets.length = 2 * p.buckets.length ∨ p.buckets.length = 2 * h.buckets.length) ∧ WFChain hashfn ps

theorem WFChain.headOK {hashfn h ps} (hw : WFChain hashfn (h :: ps)) : HeadOK h := hw.1

theorem WFChain.tail {hashfn h p ps} (hw : WFChain hashfn (h :: p :: ps)) : WFChain hashfn (p :: ps) := hw.2.2.2

theorem WFChain.ratio {hashfn h p ps} (hw : WFChain hashfn (h :: p :: ps)) :
    h.buckets.length = 2 * p.buckets.length ∨ p.buckets.length = 2 * h.buckets.length := hw.2.2.1

/-- `h.mask > p.mask` is "this head was created by a grow". -/
theorem mask_gt_iff {hashfn h p ps} (hw : WFChain hashfn (h :: p :: ps)) :
    h.mask > p.mask ↔ h.buckets.length = 2 * p.buckets.length := by
  have h1 := hw.headOK.mask_eq
  have h2 := hw.tail.headOK.mask_eq
  have h3 := hw.headOK.pos
  have h4 := hw.tail.headOK.pos
  have := hw.ratio
  omega

theorem mod_double_left {x s i : Nat} (h : x % (2 * s) = i) : x % s = i % s := by
  rw [← h, Nat.mod_mod_of_dvd x (Nat.dvd_mul_left s 2)]

theorem keyNe_of_sorted {l : List TNode} (hs : Sorted l) :
    l.Pairwise fun a b => ¬ (a.ns = b.ns ∧ a.key = b.key) :=
  List.Pairwise.imp (fun {a b} h => by rw [less_iff] at h; omega) hs

/-- Every (virtual) bucket of a well-formed chain is sorted and holds the nodes its index selects. -/
theorem vnodes_ok {hashfn : Nat → Nat → Nat} : ∀ {hs : List Head}, WFChain hashfn hs →
    ∀ h ps, hs = h :: ps → ∀ i, i < h.buckets.length → BucketOK hashfn h.buckets.length i (vnodes hs i) := by
  intro hs
  induction hs with
  | nil => intro hw; exact hw.elim
  | cons h0 ps0 ih =>
    intro hw h ps heq i hi
    injection heq with h1 h2; subst h1; subst h2
    unfold vnodes
    rw [if_neg (by omega)]
    by_cases hst : (h0.bucket i).state ≠ .uninit
    · rw [if_pos hst]; exact hw.2.1 i hi hst
    · rw [if_neg hst]
      cases ps0 with
      | nil => exact absurd (hw.2.2 i hi) hst
      | cons p rest =>
        simp only []
        have hwp := hw.tail
        have hpos := hw.headOK.pos
        have hppos := hwp.headOK.pos
        by_cases hg : h0.mask > p.mask
        · rw [if_pos hg]
          have hlen := (mask_gt_iff hw).mp hg
          rw [land_mask hwp.headOK]
          have hb := ih hwp p rest rfl (i % p.buckets.length) (Nat.mod_lt _ hppos)
          refine ⟨List.Pairwise.filter _ hb.1, fun x hx => ?_⟩
          rw [List.mem_filter] at hx
          refine ⟨(hb.2 x hx.1).1, ?_⟩
          have := hx.2
          rw [land_mask hw.headOK] at this
          simpa using this
        · rw [if_neg hg]
          have hlen : p.buckets.length = 2 * h0.buckets.length := by
            have := hw.ratio
            have hne := mt (mask_gt_iff hw).mpr hg
            omega
          have hb0 := ih hwp p rest rfl i (by omega)
          have hb1 := ih hwp p rest rfl (i + h0.buckets.length) (by omega)
          have hmem : ∀ x ∈ sortNodes (vnodes (p :: rest) i ++ vnodes (p :: rest) (i + h0.buckets.length)),
              x.hash = hashfn x.ns x.key ∧ x.hash % h0.buckets.length = i := by
            intro x hx
            rw [mem_sortNodes, List.mem_append] at hx
            rcases hx with hx | hx
            · have := hb0.2 x hx
              refine ⟨this.1, ?_⟩
              have h2 := this.2
              rw [hlen] at h2
              rw [mod_double_left h2, Nat.mod_eq_of_lt hi]
            · have := hb1.2 x hx
              refine ⟨this.1, ?_⟩
              have h2 := this.2
              rw [hlen] at h2
              rw [mod_double_left h2, Nat.add_mod_right, Nat.mod_eq_of_lt hi]
          refine ⟨sorted_sortNodes ?_, hmem⟩
          rw [List.pairwise_append]
          refine ⟨keyNe_of_sorted hb0.1, keyNe_of_sorted hb1.1, fun a ha b hb heq => ?_⟩
          have h1 := hb0.2 a ha
          have h2 := hb1.2 b hb
          have : a.hash = b.hash := by rw [h1.1, h2.1, heq.1, heq.2]
          rw [this] at h1
          omega

/-! ### Views: what `vnodes` and `WFChain` see of a chain -/

theorem bucket_setBucket (h : Head) (i j : Nat) (b : Bucket) :
    (h.setBucket i b).bucket j = if i = j ∧ i < h.buckets.length then b else h.bucket j := by
  unfold Head.setBucket Head.bucket
  simp only [List.getD_eq_getElem?_getD, List.getElem?_set]
  by_cases hij : i = j
  · subst hij
    by_cases hl : i < h.buckets.length
    · simp [hl]
    · simp [hl]
  · simp [hij]

@[simp] theorem length_setBucket (h : Head) (i : Nat) (b : Bucket) :
    (h.setBucket i b).buckets.length = h.buckets.length := by
  unfold Head.setBucket; simp

@[simp] theorem mask_setBucket (h : Head) (i : Nat) (b : Bucket) : (h.setBucket i b).mask = h.mask := rfl

/-- Two chains are seen alike from a newer head: same virtual buckets, same size of the first head. -/
def Equiv (hs' hs : List Head) : Prop :=
  (∀ j, vnodes hs' j = vnodes hs j) ∧
  hs'.head?.map (fun h => (h.mask, h.buckets.length)) = hs.head?.map (fun h => (h.mask, h.buckets.length))

theorem Equiv.refl (hs : List Head) : Equiv hs hs := ⟨fun _ => rfl, rfl⟩

theorem Equiv.trans {a b c : List Head} (h1 : Equiv a b) (h2 : Equiv b c) : Equiv a c :=
  ⟨fun j => (h1.1 j).trans (h2.1 j), h1.2.trans h2.2⟩

theorem vnodes_congr_tail {h : Head} {ps' ps : List Head} (he : Equiv ps' ps) (i : Nat) :
    vnodes (h :: ps') i = vnodes (h :: ps) i := by
  obtain ⟨hv, hh⟩ := he
  unfold vnodes
  split
  · rfl
  split
  · rfl
  · cases ps' with
    | nil =>
      cases ps with
      | nil => rfl
      | cons p rest => simp at hh
    | cons p' rest' =>
      cases ps with
      | nil => simp at hh
      | cons p rest =>
        simp only [List.head?_cons, Option.map_some, Option.some.injEq, Prod.mk.injEq] at hh
        simp only [hh.1, hv]

theorem wf_congr_tail {hashfn : Nat → Nat → Nat} {h : Head} {ps' ps : List Head}
    (hw : WFChain hashfn (h :: ps)) (he : Equiv ps' ps) (hw' : ps ≠ [] → WFChain hashfn ps') :
    WFChain hashfn (h :: ps') := by
  obtain ⟨_, hh⟩ := he
  cases ps' with
  | nil =>
    cases ps with
    | nil => exact hw
    | cons p rest => simp at hh
  | cons p' rest' =>
    cases ps with
    | nil => simp at hh
    | cons p rest =>
      simp only [List.head?_cons, Option.map_some, Option.some.injEq, Prod.mk.injEq] at hh
      refine ⟨hw.1, hw.2.1, ?_, hw' (by simp)⟩
      rw [hh.2]; exact hw.ratio

/-- Changing the first head without changing what is seen of it. -/
theorem equiv_head {h h' : Head} {ps : List Head} (hm : h'.mask = h.mask)
    (hl : h'.buckets.length = h.buckets.length)
    (hb : ∀ j, ((h'.bucket j).state ≠ .uninit ↔ (h.bucket j).state ≠ .uninit) ∧
      ((h.bucket j).state ≠ .uninit → (h'.bucket j).nodes = (h.bucket j).nodes)) :
    Equiv (h' :: ps) (h :: ps) := by
  refine ⟨fun j => ?_, by simp [hm, hl]⟩
  unfold vnodes
  rw [hl]
  split
  · rfl
  by_cases hst : (h.bucket j).state ≠ .uninit
  · rw [if_pos hst, if_pos ((hb j).1.mpr hst), (hb j).2 hst]
  · rw [if_neg hst, if_neg (mt (hb j).1.mp hst), hm]

theorem wf_head {hashfn : Nat → Nat → Nat} {h h' : Head} {ps : List Head} (hw : WFChain hashfn (h :: ps))
    (hm : h'.mask = h.mask) (hl : h'.buckets.length = h.buckets.length)
    (hb : ∀ j, j < h.buckets.length → (h'.bucket j).state ≠ .uninit →
      BucketOK hashfn h.buckets.length j (h'.bucket j).nodes)
    (hu : ∀ j, (h.bucket j).state ≠ .uninit → (h'.bucket j).state ≠ .uninit) :
    WFChain hashfn (h' :: ps) := by
  have hok : HeadOK h' := by
    obtain ⟨k, h1, h2⟩ := hw.1
    exact ⟨k, by rw [hl, h1], by rw [hm, h2]⟩
  refine ⟨hok, fun i hi hst => by rw [hl] at hi ⊢; exact hb i hi hst, ?_⟩
  cases ps with
  | nil => intro i hi; rw [hl] at hi; exact hu i (hw.2.2 i hi)
  | cons p rest => rw [hl]; exact hw.2.2

end GoLevel.CacheT
