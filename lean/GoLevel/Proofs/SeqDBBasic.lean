import GoLevel.Model.SeqDB
import GoLevel.Props.C01
import GoLevel.Props.C03
import GoLevel.Props.C06
/-!
# Sequential DB — basic lemmas

Association lists, the entries a batch record becomes, the plain map, `write` one record at a time, and
how `view` reacts to a newer source being put in front (`view_append_of_newer`, `view_cons_of_newer`,
`view_append_newer`).  Used by `SeqDBInv.lean`, `SeqDBSim.lean`, `Props/C01Seq.lean`.
-/
namespace GoLevel.SeqDB

/-! ## association lists -/

section al
variable {α β : Type} [DecidableEq α]

@[simp] theorem alGet_nil (x : α) : alGet ([] : List (α × β)) x = none := rfl

theorem alGet_cons (a : α) (b : β) (l : List (α × β)) (x : α) :
    alGet ((a, b) :: l) x = if a = x then some b else alGet l x := rfl

theorem alGet_append_single (l : List (α × β)) (a : α) (b : β) (x : α) :
    alGet (l ++ [(a, b)]) x =
      match alGet l x with
      | some y => some y
      | none => if a = x then some b else none := by
  induction l with
  | nil => simp [alGet_cons]
  | cons p l ih =>
    obtain ⟨a', b'⟩ := p
    rw [List.cons_append, alGet_cons, alGet_cons]
    by_cases h : a' = x
    · simp [h]
    · simp only [h, if_false]; exact ih

theorem alGet_erase (l : List (α × β)) (a x : α) :
    alGet (alErase l a) x = if a = x then none else alGet l x := by
  induction l with
  | nil => simp [alErase]
  | cons p l ih =>
    obtain ⟨a', b'⟩ := p
    have hc : alErase ((a', b') :: l) a = if a' = a then alErase l a else (a', b') :: alErase l a := by
      unfold alErase
      by_cases h : a' = a <;> simp [h]
    rw [hc]
    by_cases h : a' = a
    · subst h
      rw [if_pos rfl, ih, alGet_cons]
      by_cases h2 : a' = x <;> simp [h2]
    · rw [if_neg h, alGet_cons, alGet_cons, ih]
      by_cases h2 : a' = x
      · subst h2
        have : ¬ a = a' := fun e => h e.symm
        simp [this]
      · simp [h2]

theorem alGet_mem {l : List (α × β)} {x : α} {y : β} (h : alGet l x = some y) : (x, y) ∈ l := by
  induction l with
  | nil => simp at h
  | cons p l ih =>
    obtain ⟨a', b'⟩ := p
    rw [alGet_cons] at h
    by_cases h2 : a' = x
    · rw [if_pos h2] at h
      have := Option.some.inj h
      subst this; subst h2
      exact List.mem_cons_self
    · rw [if_neg h2] at h
      exact List.mem_cons_of_mem _ (ih h)

theorem alGet_none_of_not_mem {l : List (α × β)} {x : α} (h : ∀ p ∈ l, p.1 ≠ x) : alGet l x = none := by
  cases hg : alGet l x with
  | none => rfl
  | some y => exact absurd rfl (h _ (alGet_mem hg))

theorem mem_alErase {l : List (α × β)} {a : α} {p : α × β} (h : p ∈ alErase l a) : p ∈ l :=
  (List.mem_filter.1 h).1

end al

/-! ## the plain map -/

theorem Map.get_apply (m : Map) (r : Rec) (k : Bytes) :
    (m.apply r).get k = if r.2.1 = k then (if r.1 then some r.2.2 else none) else m.get k := by
  unfold Map.apply Map.get
  by_cases hp : r.1 = true
  · rw [if_pos hp, alGet_cons, alGet_erase]
    by_cases hk : r.2.1 = k <;> simp [hk, hp]
  · rw [if_neg hp, alGet_erase]
    by_cases hk : r.2.1 = k <;> simp [hk, hp]

/-! ## the entry of a record -/

theorem keyTypeDel_lt : Gen.keyTypeDel < 256 := by decide
theorem keyTypeDel_ne_val : Gen.keyTypeDel ≠ Gen.keyTypeVal := by decide

@[simp] theorem recEntry_ukey (s : Nat) (r : Rec) : (recEntry s r).ukey = r.2.1 := by
  unfold recEntry; split <;> rfl

@[simp] theorem recEntry_seq (s : Nat) (r : Rec) : (recEntry s r).seq = s := by
  unfold recEntry; split
  · exact mkIKey_seq _ _ _ keyTypeVal_lt
  · exact mkIKey_seq _ _ _ keyTypeDel_lt

theorem recEntry_kind (s : Nat) (r : Rec) :
    (recEntry s r).kind = if r.1 then Gen.keyTypeVal else Gen.keyTypeDel := by
  unfold recEntry; split
  · exact mkIKey_kind _ _ _ keyTypeVal_lt
  · exact mkIKey_kind _ _ _ keyTypeDel_lt

theorem recEntry_kind_le (s : Nat) (r : Rec) : (recEntry s r).kind ≤ Gen.keyTypeVal := by
  rw [recEntry_kind]; split
  · exact Nat.le_refl _
  · exact keyTypeDel_le_val

/-- a put record reads as its value, a delete record as "not found" -/
theorem recEntry_hit (s : Nat) (r : Rec) :
    (recEntry s r).hit.toOption = if r.1 then some r.2.2 else none := by
  obtain ⟨p, k, v⟩ := r
  unfold Entry.hit
  rw [recEntry_kind]
  cases p
  · simp only [Bool.false_eq_true, if_false]
    rw [if_neg keyTypeDel_ne_val]; rfl
  · simp only [if_true]
    rfl

/-! ## `write`, one record at a time -/

/-- `writeLocked` for a single record -/
def write1 (c : UCmp) (st : State) (r : Rec) : State :=
  { st with mem := insertSorted c (recEntry (st.seq + 1) r) st.mem, seq := st.seq + 1 }

theorem write_nil (c : UCmp) (st : State) : write c st [] = st := by cases st; rfl

theorem write_cons (c : UCmp) (st : State) (r : Rec) (rs : List Rec) :
    write c st (r :: rs) = write c (write1 c st r) rs := by
  cases st
  simp only [write, write1, putMem, List.length_cons, State.mk.injEq, true_and, and_true]
  omega

theorem write_single (c : UCmp) (st : State) (r : Rec) : write c st [r] = write1 c st r := by
  rw [write_cons, write_nil]

/-! ## `view` when a newer source is put in front -/

theorem newest_single (c : UCmp) (e : Entry) (k : Bytes) (s : Nat) : newest c [e] k s = cand c k s e := by
  rw [newest_cons, newest_nil, pickNewer_none_right]

/-- a source whose entries are newer (per user key) decides the view wherever it has a visible entry -/
theorem view_append_of_newer {c : UCmp} (hl : LawfulUCmp c) (A B : List Entry) (h : NewerThan A B)
    (k : Bytes) (s : Nat) :
    view c (A ++ B) k s = match newest c A k s with
      | some e => e.hit.toOption
      | none => view c B k s := by
  unfold view
  rw [newest_append_of_newer hl A B h]
  cases newest c A k s <;> rfl

/-- the views over two collections agree once the same newer source is put in front of both -/
theorem view_append_congr {c : UCmp} (hl : LawfulUCmp c) (A B B' : List Entry) (h : NewerThan A B)
    (h' : NewerThan A B') (k : Bytes) (s : Nat) (hv : view c B k s = view c B' k s) :
    view c (A ++ B) k s = view c (A ++ B') k s := by
  rw [view_append_of_newer hl A B h, view_append_of_newer hl A B' h', hv]

/-- one newer entry in front -/
theorem view_cons_of_newer {c : UCmp} (hl : LawfulUCmp c) (e : Entry) (X : List Entry)
    (h : ∀ x ∈ X, x.seq < e.seq) (k : Bytes) (s : Nat) :
    view c (e :: X) k s = if e.ukey = k ∧ e.seq ≤ s then e.hit.toOption else view c X k s := by
  have hn : NewerThan [e] X := by
    intro a ha b hb _
    rw [List.mem_singleton.1 ha]; exact h b hb
  have := view_append_of_newer hl [e] X hn k s
  rw [List.singleton_append] at this
  rw [this, newest_single]
  by_cases hm : e.ukey = k ∧ e.seq ≤ s
  · rw [cand_of_matches ((matches_iff hl k s e).2 hm), if_pos hm]
  · rw [cand_of_not_matches (fun hm' => hm ((matches_iff hl k s e).1 hm')), if_neg hm]

/-- **`view_append_newer`**: entries written after position `s` (all sequence numbers `> s`) are invisible
to a reader at `s` — whatever they are and wherever they are put -/
theorem view_append_newer (c : UCmp) (new hist : List Entry) (k : Bytes) (s : Nat)
    (h : ∀ e ∈ new, s < e.seq) : view c (new ++ hist) k s = view c hist k s := by
  unfold view
  rw [newest_append]
  have : newest c new k s = none := by
    rw [newest_eq_none_iff]
    intro e he hm
    have := h e he
    have := hm.2
    omega
  rw [this, pickNewer_none_left]

theorem view_cons_newer (c : UCmp) (e : Entry) (hist : List Entry) (k : Bytes) (s : Nat)
    (h : s < e.seq) : view c (e :: hist) k s = view c hist k s :=
  view_append_newer c [e] hist k s (fun x hx => by rw [List.mem_singleton.1 hx]; exact h)

/-! ## `DB.has` -/

theorem isValue_eq (h : Hit) : Hit.isValue h = h.toOption.isSome := by cases h <;> rfl

end GoLevel.SeqDB
