import GoLevel.Proofs.CacheQuiesce4
/-! Invariant of the cache system, part 12: `InvQ` holds in every reachable state; what it says about quiescent
states. -/
namespace GoLevel.CacheM

set_option linter.unusedSimpArgs false

/-- In a thread, `n.delFuncs = append(n.delFuncs, delFunc)` of `Cache.Delete` is followed by the
`n.unRefInternal` that drops the reference `mBucket.get` took: the node is still there when it runs. -/
def WA : List Instr → Prop
  | [] => True
  | i :: rest => (∀ id d, i = Instr.addDel id d → Instr.unrefInt id ∈ rest) ∧ WA rest

def noAdd : Instr → Bool
  | .addDel _ _ => false
  | _ => true

theorem wa_append_noAdd {p tail : List Instr} (hp : ∀ j ∈ p, noAdd j = true) (ht : WA tail) : WA (p ++ tail) := by
  induction p with
  | nil => exact ht
  | cons a p ih =>
    simp only [List.cons_append, WA]
    refine ⟨fun id d ha => ?_, ih (fun j hj => hp j (List.mem_cons_of_mem _ hj))⟩
    have := hp a List.mem_cons_self
    rw [ha] at this; cases this

theorem wa_step {sh sh' : Shared} {i push evs rest} (hw : WA (i :: rest))
    (he : exec sh i = some (sh', push, evs)) : WA (push ++ rest) := by
  obtain ⟨_, hr⟩ := hw
  cases i <;> exec_split he
  all_goals first
    | (exact hr)
    | (apply wa_append_noAdd _ hr; intro j hj
       simp only [List.mem_append, List.mem_cons, List.mem_map, List.mem_flatMap, List.not_mem_nil,
         or_false] at hj
       first | (cases hj; done) | grind [noAdd])
    | (simp only [List.cons_append, List.nil_append, WA]
       refine ⟨fun id d hx => ?_, ?_⟩
       · injection hx with h1 h2; subst h1; simp
       · exact wa_append_noAdd (p := [_, _, _]) (by simp [noAdd]) hr)
    | skip

theorem invQ_step {g sh Q log sh' i push evs} (h : InvP g sh (i :: Q) log) (hq : InvQ sh (i :: Q) log)
    (he : exec sh i = some (sh', push, evs))
    (hwb : sh.rlock = 0 → ∀ j ∈ i :: Q, openOnly j = false)
    (hex : ∀ id d, i = .addDel id d → ∃ n ∈ sh.nodes, n.id = id) :
    InvQ sh' (push ++ Q) (log ++ evs) where
  zo := zo_step h hq he
  zc := zc_step h hq he hwb
  zf := zf_step h hq he
  lc := lc_step h hq he
  va := va_step hq.va h.ids.1 he
  da := by
    obtain ⟨h1, h2, h3⟩ := da_rel (log := log) (Q := Q) h.ids.1 he hex
      (fun hc => h.cl hc i List.mem_cons_self)
    intro d hd
    by_cases hlt : d < sh.nextDel
    · exact h2 d (hq.da d hlt)
    · have h4 : sh'.nextDel = sh.nextDel + 1 := by omega
      have h5 : d = sh.nextDel := by omega
      subst h5; exact h3 h4

theorem mem_D_mono {log : List Ev} {ns : List Node} {P P' : List Instr} (hsub : ∀ j ∈ P, j ∈ P') {d : Nat}
    (h : d ∈ D log ns P) : d ∈ D log ns P' := by
  simp only [D, List.mem_append, List.mem_flatMap] at h ⊢
  rcases h with h | ⟨j, hj, hd⟩
  · exact Or.inl h
  · exact Or.inr ⟨j, hsub j hj, hd⟩

/-- `InvQ` only asks for pending instructions to exist. -/
theorem invQ_mono {sh P P' log} (h : InvQ sh P log) (hsub : ∀ j ∈ P, j ∈ P') : InvQ sh P' log where
  zo := fun hc n hn h0 => (h.zo hc n hn h0).imp (hsub _) (hsub _)
  zc := fun hc hf n hn h0 => (h.zc hc hf n hn h0).imp id (Or.imp (hsub _) (hsub _))
  zf := fun hf n hn => (h.zf hf n hn).imp id (hsub _)
  lc := fun hc id hid => hsub _ (h.lc hc id hid)
  va := h.va
  da := fun d hd => (h.da d hd).imp (mem_D_mono hsub) id

/-- The invariant of the interleaving system that gives "at least once". -/
structure InvS (s : Sys) : Prop where
  core : InvQ s.sh (pending s) s.log
  wa : ∀ t ∈ s.threads, WA t

theorem pending_init (clr : Cfg) (capacity nthreads : Nat) : pending (Sys.initCfg clr capacity nthreads) = [] := by
  unfold pending Sys.initCfg
  induction nthreads with
  | zero => rfl
  | succ n ih => simp [List.replicate_succ] at ih ⊢

theorem invS_init (clr : Cfg) (capacity nthreads : Nat) : InvS (Sys.initCfg clr capacity nthreads) := by
  refine ⟨?_, ?_⟩
  · rw [pending_init]
    refine ⟨?_, ?_, ?_, ?_, ?_, ?_⟩ <;> simp [Sys.initCfg, Shared.newCfg]
  · intro t ht
    simp only [Sys.initCfg, List.mem_replicate] at ht
    rw [ht.2]; trivial

theorem wa_set {ts : List (List Instr)} {t : Nat} {x : List Instr} (h : ∀ t' ∈ ts, WA t') (hx : WA x) :
    ∀ t' ∈ ts.set t x, WA t' := by
  intro t' ht'
  rcases List.mem_or_eq_of_mem_set ht' with h1 | h1
  · exact h t' h1
  · rw [h1]; exact hx

theorem invS_step {g : Bool} {s s' : Sys} {a : Act} (hi : Inv g s) (h : InvS s)
    (hs : sysStep g s a = some s') : InvS s' := by
  rcases sysStep_cases hs with ⟨t, c, rfl, ht, _, rfl⟩ | ⟨t, i, rest, sh', push, evs, rfl, ht, he, _, rfl⟩
  · have hperm := flatten_set_perm' s.threads t [] (startCall c) ht
    simp only [List.nil_append] at hperm
    refine ⟨invQ_mono h.core (fun j hj => ?_), wa_set h.wa ?_⟩
    · exact hperm.mem_iff.mpr (List.mem_append_right _ hj)
    · cases c <;> simp [startCall, WA]
  · have him : i ∈ pending s := mem_of_getElem?_flatten s.threads t _ i ht List.mem_cons_self
    have hp1 : (pending s).Perm (i :: (pending s).erase i) := List.perm_cons_erase him
    have hcoreP := invP_perm (log' := s.log) hi.core hp1
    have hcoreQ := invQ_mono h.core (fun j hj => hp1.mem_iff.mp hj)
    have hwat : WA (i :: rest) := h.wa _ (List.mem_of_getElem? ht)
    have hno : s.sh.rlock = 0 → ∀ j ∈ i :: (pending s).erase i, openOnly j = false := by
      intro h0 j hj
      have hj' : j ∈ pending s := hp1.mem_iff.mpr hj
      obtain ⟨t', ht', hjt⟩ := List.mem_flatten.mp hj'
      refine wb_noOpen (hi.wb t' ht') (fun hr => ?_) j hjt
      have : Instr.runlock ∈ pending s := List.mem_flatten.mpr ⟨t', ht', hr⟩
      have hc := List.count_pos_iff.mpr this
      have := hi.core.rl
      omega
    have hex : ∀ id d, i = .addDel id d → ∃ n ∈ s.sh.nodes, n.id = id := by
      intro id d hid
      have hu : Instr.unrefInt id ∈ rest := hwat.1 id d hid
      have hup : Instr.unrefInt id ∈ pending s := mem_of_getElem?_flatten s.threads t _ _ ht
        (List.mem_cons_of_mem _ hu)
      apply hi.core.ex id
      have : 0 < (pending s).countP (owns id) :=
        List.countP_pos_iff.mpr ⟨_, hup, by simp [owns]⟩
      simp only [refsP]; omega
    have hnew := invQ_step hcoreP hcoreQ he hno hex
    have hperm := flatten_set_perm s.threads t i rest push ht
    refine ⟨invQ_mono hnew (fun j hj => ?_), wa_set h.wa (wa_step hwat he)⟩
    -- `push ++ erase i` ⊆ the new pending list
    have hp2 : (i :: (s.threads.set t (push ++ rest)).flatten).Perm (i :: (push ++ (pending s).erase i)) := by
      refine hperm.trans ?_
      have : (push ++ pending s).Perm (push ++ (i :: (pending s).erase i)) := List.Perm.append_left _ hp1
      exact this.trans List.perm_middle
    exact (List.Perm.cons_inv hp2).mem_iff.mpr hj

theorem invS_reachable {g : Bool} {s : Sys} (h : Reachable g s) : InvS s := by
  induction h with
  | init clr c n => exact invS_init clr c n
  | step a hr hs ih => exact invS_step (inv_reachable hr) ih hs

/-- **Quiescent**: every thread has finished every call it started — no instruction is pending anywhere.  This is
the only assumption the "exactly once" theorems make about the scheduler: they speak about the states in which
all calls have returned, however the threads were interleaved before. -/
def Quiescent (s : Sys) : Prop := pending s = []

/-- In a quiescent state the cache (map or LRU list) or a caller still *retains* node `n`: a caller owns a handle
to it, or the cache is open and the node is on the LRU list; and the cache was not force-closed. -/
def Retained (s : Sys) (n : Node) : Prop :=
  s.sh.forced = false ∧ (n.id ∈ s.sh.handles ∨ (s.sh.closed = false ∧ n.id ∈ s.sh.lru.recent))

/-- In a quiescent state, a node that still has its value or a delFunc that has not run is retained. -/
theorem retained_of_quiescent {g : Bool} {s : Sys} (hr : Reachable g s) (hq : Quiescent s) {n : Node}
    (hn : n ∈ s.sh.nodes) (hne : ¬ (n.value = none ∧ n.delFuncs = [])) : Retained s n := by
  have hP := (inv_reachable hr).core
  have hQ := (invS_reachable hr).core
  unfold Quiescent at hq
  rw [hq] at hP hQ
  cases hf : s.sh.forced with
  | true =>
    rcases hQ.zf hf n hn with h1 | h1
    · exact absurd h1 hne
    · cases h1
  | false =>
    refine ⟨hf, ?_⟩
    have hrc := hP.rc hf n hn
    simp only [refsP, List.countP_nil, Nat.add_zero] at hrc
    cases hc : s.sh.closed with
    | false =>
      have hnz : n.ref ≠ 0 := by
        intro h0
        rcases hQ.zo hc n hn h0 with h1 | h1 <;> cases h1
      by_cases hh : n.id ∈ s.sh.handles
      · exact Or.inl hh
      · right
        refine ⟨rfl, ?_⟩
        have := List.count_eq_zero.mpr hh
        exact List.count_pos_iff.mp (by omega)
    | true =>
      have hnz : n.ref ≠ 0 := by
        intro h0
        rcases hQ.zc hc hf n hn h0 with h1 | h1 | h1
        · exact hne h1
        · cases h1
        · cases h1
      have hrec : s.sh.lru.recent.count n.id = 0 := by
        rw [List.count_eq_zero]
        intro hm; have := hQ.lc hc _ hm; cases this
      left
      exact List.count_pos_iff.mp (by omega)

/-- After `Close` and quiescence the LRU list is empty. -/
theorem recent_nil_of_closed_quiescent {g : Bool} {s : Sys} (hr : Reachable g s) (hq : Quiescent s)
    (hc : s.sh.closed = true) : s.sh.lru.recent = [] := by
  have hQ := (invS_reachable hr).core
  unfold Quiescent at hq
  rw [hq] at hQ
  cases hrec : s.sh.lru.recent with
  | nil => rfl
  | cons a l => have := hQ.lc hc a (by rw [hrec]; exact List.mem_cons_self); cases this

/-- Values are numbered by the constructor events of the log. -/
theorem ctor_lt_nextVal {g : Bool} {s : Sys} (hr : Reachable g s) {id v : Nat} (h : Ev.ctor id v ∈ s.log) :
    v < s.sh.nextVal := by
  induction hr with
  | init clr c n => simp [Sys.initCfg] at h
  | @step s s' a hr hs ih =>
    have hlog' := logOK_reachable (Reachable.step a hr hs)
    rcases sysStep_cases hs with ⟨t, c, rfl, ht, _, rfl⟩ | ⟨t, i, rest, sh', push, evs, rfl, ht, he, _, rfl⟩
    · exact ih h
    · simp only [List.mem_append] at h
      rcases h with h | h
      · have := ih h
        rcases vals_rel (log := s.log) (inv_reachable hr).core.ids.1 he with ⟨_, hn⟩ | ⟨_, hn⟩ <;>
          simp only [] <;> omega
      · obtain ⟨_, _, n', hn', _, hv⟩ := ctor_step he h
        exact hlog'.vals.2 v (List.mem_append_right _ (List.mem_filterMap.mpr ⟨n', hn', hv⟩))

end GoLevel.CacheM
