import GoLevel.Proofs.BlockIterLayout
/-!
# `Block.build` output has the `Layout` the `blockIter` proofs need

Entry `j` starts at `offB ri kvs j` (the length of the encoding of the first `j` pairs); restart slot `r` points
at entry `rsB ri kvs r` (the length of the `r`-th restart prefix).
-/
namespace GoLevel.C13
open GoLevel GoLevel.TableAux BlockWriter

/-- offset of entry `j` in a block built from `kvs` -/
def offB (ri : Nat) (kvs : List KV) (j : Nat) : Nat := (enc ri (kvs.take j)).length

/-- entry index restart slot `r` points at -/
def rsB (ri : Nat) (kvs : List KV) (r : Nat) : Nat := ((restartPrefixes ri [] kvs).map List.length).getD r 0

theorem take_succ_kv {kvs : List KV} {j : Nat} (hj : j < kvs.length) :
    kvs.take (j + 1) = kvs.take j ++ [(kAt kvs j, vAt kvs j)] := by
  rw [List.take_succ, getElem?_kv hj]; rfl

theorem drop_kv {kvs : List KV} {j : Nat} (hj : j < kvs.length) :
    kvs.drop j = (kAt kvs j, vAt kvs j) :: kvs.drop (j + 1) := by
  rw [List.drop_eq_getElem_cons hj]
  have := getElem?_kv hj
  rw [List.getElem?_eq_getElem hj] at this
  rw [Option.some.inj this]

theorem lastKeyD_take {kvs : List KV} {j : Nat} (h0 : 0 < j) (hj : j ≤ kvs.length) :
    lastKeyD [] (kvs.take j) = kAt kvs (j - 1) := by
  have e : j = (j - 1) + 1 := by omega
  rw [e, take_succ_kv (by omega), lastKeyD_snoc]
  simp

/-- the shared-prefix length the writer used for entry `j` -/
def shB (ri : Nat) (kvs : List KV) (j : Nat) : Nat :=
  nSharedAt ri j (lastKeyD [] (kvs.take j)) (kAt kvs j)

theorem enc_split (ri : Nat) (kvs : List KV) {j : Nat} (hj : j < kvs.length) :
    enc ri kvs = enc ri (kvs.take j) ++
      (encEntry (shB ri kvs j) (kAt kvs j) (vAt kvs j) ++ encFrom ri (j + 1) (kAt kvs j) (kvs.drop (j + 1))) := by
  have h1 : enc ri kvs = enc ri (kvs.take j ++ kvs.drop j) := by rw [List.take_append_drop]
  rw [h1, enc, encFrom_append, Nat.zero_add, List.length_take, Nat.min_eq_left (by omega), drop_kv hj]
  rfl

theorem offB_succ (ri : Nat) (kvs : List KV) {j : Nat} (hj : j < kvs.length) :
    offB ri kvs (j + 1) = offB ri kvs j + (encEntry (shB ri kvs j) (kAt kvs j) (vAt kvs j)).length := by
  unfold offB
  rw [take_succ_kv hj, enc, encFrom_append, Nat.zero_add, List.length_append, List.length_take,
    Nat.min_eq_left (by omega)]
  simp [encFrom, shB]

theorem offB_len (ri : Nat) (kvs : List KV) : offB ri kvs kvs.length = (enc ri kvs).length := by
  unfold offB; rw [List.take_length]

theorem offB_le_len (ri : Nat) (kvs : List KV) {j : Nat} (hj : j < kvs.length) :
    offB ri kvs (j + 1) ≤ (enc ri kvs).length := by
  have h := enc_split ri kvs hj
  rw [offB_succ ri kvs hj, h]
  simp only [offB, List.length_append]
  omega

/-! ## restart prefixes -/

theorem restartPrefixes_ge (ri : Nat) (todo : List KV) : ∀ done, ∀ A ∈ restartPrefixes ri done todo,
    done.length ≤ A.length := by
  induction todo with
  | nil => intro done A h; simp [restartPrefixes] at h
  | cons a t ih =>
    intro done A h
    simp only [restartPrefixes, List.mem_append] at h
    rcases h with h | h
    · split at h
      · simp at h; subst h; exact Nat.le_refl _
      · simp at h
    · have := ih _ A h
      simp at this; omega

theorem restartPrefixes_incr (ri : Nat) (todo : List KV) : ∀ done,
    (restartPrefixes ri done todo).Pairwise fun A B => A.length < B.length := by
  induction todo with
  | nil => intro done; simp [restartPrefixes]
  | cons a t ih =>
    intro done
    simp only [restartPrefixes]
    rw [List.pairwise_append]
    refine ⟨?_, ih _, ?_⟩
    · split <;> simp
    · intro A hA B hB
      have hb := restartPrefixes_ge ri t _ B hB
      split at hA
      · simp at hA; subst hA; simp at hb; omega
      · simp at hA

theorem rsB_get (ri : Nat) (kvs : List KV) {r : Nat} (hr : r < (restartPrefixes ri [] kvs).length) :
    rsB ri kvs r = ((restartPrefixes ri [] kvs)[r]).length := by
  simp [rsB, List.getD, hr]

/-- what a restart slot of a non-empty block is -/
theorem restart_facts (ri : Nat) (kvs : List KV) {r : Nat} (hr : r < (restartPrefixes ri [] kvs).length) :
    rsB ri kvs r < kvs.length ∧ rsB ri kvs r % ri = 0 ∧
      (restartPrefixes ri [] kvs)[r] = kvs.take (rsB ri kvs r) := by
  obtain ⟨B, hB, he, hm⟩ := restartPrefixes_spec ri kvs [] _ (List.getElem_mem hr)
  simp only [List.nil_append] at he
  rw [rsB_get ri kvs hr]
  refine ⟨?_, hm, ?_⟩
  · have hlen := congrArg List.length he
    rw [List.length_append] at hlen
    have : 0 < B.length := List.length_pos_iff.2 hB
    omega
  · have := congrArg (List.take ((restartPrefixes ri [] kvs)[r]).length) he
    rw [List.take_left' rfl] at this
    exact this

theorem restartsOf_length (ri : Nat) {kvs : List KV} (hne : kvs ≠ []) :
    (restartsOf ri kvs).length = (restartPrefixes ri [] kvs).length := by
  simp [restartsOf, hne]

theorem restartsOf_get (ri : Nat) {kvs : List KV} (hne : kvs ≠ []) {r : Nat}
    (hr : r < (restartsOf ri kvs).length) : (restartsOf ri kvs)[r] = offB ri kvs (rsB ri kvs r) := by
  have hr' : r < (restartPrefixes ri [] kvs).length := by rw [← restartsOf_length ri hne]; exact hr
  have h := (restart_facts ri kvs hr').2.2
  simp only [restartsOf, hne, if_false, List.getElem_map, offB]
  rw [h]

theorem restartsOf_pos (ri : Nat) (kvs : List KV) : 0 < (restartsOf ri kvs).length := by
  by_cases h : kvs = []
  · simp [restartsOf, h]
  · rw [restartsOf_length ri h]
    obtain ⟨a, t, rfl⟩ := List.exists_cons_of_ne_nil h
    obtain ⟨rest, hrest⟩ := restartPrefixes_head ri a t
    rw [hrest]; simp

theorem rsB_zero (ri : Nat) (kvs : List KV) : rsB ri kvs 0 = 0 := by
  cases kvs with
  | nil => simp [rsB, restartPrefixes]
  | cons a t =>
    obtain ⟨rest, hrest⟩ := restartPrefixes_head ri a t
    simp [rsB, hrest]

theorem shB_restart (ri : Nat) (kvs : List KV) {r : Nat} (hr : r < (restartPrefixes ri [] kvs).length) :
    shB ri kvs (rsB ri kvs r) = 0 := by
  have := (restart_facts ri kvs hr).2.1
  simp [shB, nSharedAt, this]

/-! ## the layout -/

theorem data_at (ri : Nat) (kvs : List KV) {j : Nat} (hj : j < kvs.length) (tail : Bytes) :
    (enc ri kvs ++ tail).drop (offB ri kvs j) =
      encEntry (shB ri kvs j) (kAt kvs j) (vAt kvs j) ++
        (encFrom ri (j + 1) (kAt kvs j) (kvs.drop (j + 1)) ++ tail) := by
  rw [enc_split ri kvs hj, List.append_assoc, offB, List.drop_left, List.append_assoc]

theorem restartCount_layout (E : Bytes) (rs : List Nat) (hrs : rs.length < 2 ^ 32) :
    (layoutR E rs).restartOffset rs.length = rs.length := by
  unfold BlockR.restartOffset layoutR
  simp only
  rw [List.drop_length_add_append, flatMap_le32_drop]
  have : (rs ++ [rs.length]).drop rs.length = [rs.length] := List.drop_left' rfl
  rw [this]
  simp only [List.flatMap_cons, List.flatMap_nil]
  exact rd32_le32 _ hrs []

theorem layout_build (ri : Nat) (kvs : List KV) (hs : SmallKV kvs)
    (hsz : (Block.build ri kvs).length < 2 ^ 32) :
    Layout (layoutR (enc ri kvs) (restartsOf ri kvs)) kvs (offB ri kvs) (restartsOf ri kvs).length (rsB ri kvs) := by
  have hl := build_length ri kvs
  have hRpos := restartsOf_pos ri kvs
  have hentry : ∀ j, j < kvs.length →
      (layoutR (enc ri kvs) (restartsOf ri kvs)).entryAt (offB ri kvs j) =
        .ok (shB ri kvs j) ((kAt kvs j).drop (shB ri kvs j)) (vAt kvs j) (offB ri kvs (j + 1) - offB ri kvs j) := by
    intro j hj
    have hkv := hs (kAt kvs j, vAt kvs j) (List.mem_of_getElem? (getElem?_kv hj))
    have hle := offB_le_len ri kvs hj
    have hsucc := offB_succ ri kvs hj
    have hpos := encEntry_length_pos (shB ri kvs j) (kAt kvs j) (vAt kvs j)
    unfold BlockR.entryAt
    simp only [layoutR]
    have hnge : ¬ (offB ri kvs j ≥ (enc ri kvs).length) := by omega
    simp only [hnge, ↓reduceIte]
    rw [data_at ri kvs hj]
    have hk1 : (kAt kvs j).length < 2 ^ 64 := hkv.1
    have hk2 : (vAt kvs j).length < 2 ^ 64 := hkv.2
    have hlim : (encEntry (shB ri kvs j) (kAt kvs j) (vAt kvs j)).length ≤ (enc ri kvs).length - offB ri kvs j := by
      omega
    rw [entry_encEntry (shB ri kvs j) (kAt kvs j) (vAt kvs j) _ _ (nSharedAt_le ri j _ _) hk1 hk2 hlim]
    simp only
    congr 1
    omega
  refine
    { off0 := by simp [offB, enc, encFrom]
      offN := offB_len ri kvs
      mono := fun j hj => by
        have := offB_succ ri kvs hj
        have := encEntry_length_pos (shB ri kvs j) (kAt kvs j) (vAt kvs j)
        omega
      entry := ?_
      value := ?_
      rlen := rfl
      rpos := hRpos
      rs0 := rsB_zero ri kvs
      rmono := ?_
      rlt := ?_
      rE := fun h => by simp [restartsOf, h]
      roff := ?_
      rkey := ?_
      rkeyE := ?_
      rcount := restartCount_layout _ _ (by omega) }
  · -- entry
    intro j hj
    refine ⟨shB ri kvs j, hentry j hj, nSharedAt_le ri j _ _, ?_, ?_⟩
    · rintro ⟨r, hr, rfl⟩
      have hne : kvs ≠ [] := by intro h; subst h; simp at hj
      exact shB_restart ri kvs (by rw [← restartsOf_length ri hne]; exact hr)
    · intro h0
      unfold shB nSharedAt
      split
      · simp
      · rw [lastKeyD_take h0 (by omega)]
        exact ⟨spl_le_left _ _, spl_take _ _⟩
  · -- value
    intro j hj
    have hsucc := offB_succ ri kvs hj
    have hd := data_at ri kvs hj ((restartsOf ri kvs ++ [(restartsOf ri kvs).length]).flatMap le32)
    have hlen : (encEntry (shB ri kvs j) (kAt kvs j) (vAt kvs j)).length =
        (uvarint (shB ri kvs j)).length + ((uvarint ((kAt kvs j).length - shB ri kvs j)).length +
          ((uvarint (vAt kvs j).length).length + (((kAt kvs j).drop (shB ri kvs j)).length + (vAt kvs j).length))) := by
      simp [encEntry]
    refine ⟨by omega, ?_⟩
    have e : offB ri kvs (j + 1) - (vAt kvs j).length =
        offB ri kvs j + ((uvarint (shB ri kvs j)).length + ((uvarint ((kAt kvs j).length - shB ri kvs j)).length +
          ((uvarint (vAt kvs j).length).length + ((kAt kvs j).drop (shB ri kvs j)).length))) := by omega
    simp only [layoutR]
    rw [e, ← List.drop_drop, hd]
    simp only [encEntry, List.append_assoc]
    rw [List.drop_length_add_append, List.drop_length_add_append, List.drop_length_add_append, List.drop_left,
      List.take_left' rfl]
  · -- rmono
    intro r hr
    have hne : kvs ≠ [] := by
      intro h; subst h; simp [restartsOf] at hr
    rw [restartsOf_length ri hne] at hr
    rw [rsB_get ri kvs (by omega), rsB_get ri kvs hr]
    exact (List.pairwise_iff_getElem.1 (restartPrefixes_incr ri kvs [])) r (r + 1) (by omega) hr (by omega)
  · -- rlt
    intro r hr hne
    exact (restart_facts ri kvs (by rw [← restartsOf_length ri hne]; exact hr)).1
  · -- roff
    intro r hr
    by_cases hne : kvs = []
    · subst hne
      have : r = 0 := by simp [restartsOf] at hr; omega
      subst this
      have e0 : layoutR (enc ri []) (restartsOf ri []) = layoutR [] [0] := by simp [enc, encFrom, restartsOf]
      rw [e0]
      simp [offB, enc, encFrom]
      decide
    · have hget := restartsOf_get ri hne hr
      have hlt := (restart_facts ri kvs (by rw [← restartsOf_length ri hne]; exact hr)).1
      have hle : offB ri kvs (rsB ri kvs r) < 2 ^ 32 := by
        have h1 := offB_succ ri kvs hlt
        have h2 := offB_le_len ri kvs hlt
        omega
      rw [restartOffset_layout _ _ r hr (by rw [hget]; exact hle), hget]
  · -- rkey
    intro r hr hne
    have hr' : r < (restartPrefixes ri [] kvs).length := by rw [← restartsOf_length ri hne]; exact hr
    have hlt := (restart_facts ri kvs hr').1
    have hget := restartsOf_get ri hne hr
    have hle : offB ri kvs (rsB ri kvs r) < 2 ^ 32 := by
      have h1 := offB_succ ri kvs hlt
      have h2 := offB_le_len ri kvs hlt
      omega
    have hkv := hs (kAt kvs (rsB ri kvs r), vAt kvs (rsB ri kvs r)) (List.mem_of_getElem? (getElem?_kv hlt))
    refine restartKey_at _ r (enc ri (kvs.take (rsB ri kvs r)))
      (encFrom ri (rsB ri kvs r + 1) (kAt kvs (rsB ri kvs r)) (kvs.drop (rsB ri kvs r + 1)) ++
        (restartsOf ri kvs ++ [(restartsOf ri kvs).length]).flatMap le32)
      (kAt kvs (rsB ri kvs r)) (vAt kvs (rsB ri kvs r)) ?_ ?_ hkv.1 hkv.2
    · simp only [layoutR]
      rw [enc_split ri kvs hlt, shB_restart ri kvs hr']
      simp only [List.append_assoc]
    · rw [restartOffset_layout _ _ r hr (by rw [hget]; exact hle), hget]; rfl
  · -- rkeyE
    intro he
    subst he
    have e0 : layoutR (enc ri []) (restartsOf ri []) = layoutR [] [0] := by simp [enc, encFrom, restartsOf]
    rw [e0]
    decide

/-- the block `Reader.readBlock` makes of `Block.build` output -/
theorem read_build_layout (ri : Nat) (kvs : List KV) (hsz : (Block.build ri kvs).length < 2 ^ 32) :
    Block.read (Block.build ri kvs) = some (layoutR (enc ri kvs) (restartsOf ri kvs)) := by
  rw [read_build ri kvs hsz]
  congr 1
  rw [build_eq]; rfl

end GoLevel.C13
