import GoLevel.Proofs.RefLoopBasic
/-! The environment of the reference loop (what `version.incref/releaseNB`, `session.setVersion` send) as
explicit hypotheses, and the invariant that ties the loop's state to it (C07). -/
namespace GoLevel.RefLoop

/-- The history as the loop's environment produced it.  Version ids are consecutive: version `k` is
`vs[k]` (its tables); `ds[k]` is the delta sent when version `k` was superseded; `rel` = released versions. -/
structure Env where
  vs : List (List Nat)
  ds : List Delta
  rel : List Nat
  deriving Repr

def Env.init : Env := { vs := [], ds := [], rel := [] }
def Env.n (G : Env) : Nat := G.vs.length
def Env.nd (G : Env) : Nat := G.ds.length
/-- tables of version `k` -/
def Env.F (G : Env) (k : Nat) : List Nat := G.vs.getD k []
def Env.D (G : Env) (k : Nat) : Delta := G.ds.getD k ⟨[], []⟩

/-- `NodupAdded` (and deleted): the delta lists each table once. -/
def NodupDelta (d : Delta) : Prop := d.added.Nodup ∧ d.deleted.Nodup

/-- The delta of version `k` is exactly the difference between version `k` and its successor. -/
def ExactDelta (G : Env) (k : Nat) (d : Delta) : Prop :=
  (∀ f, f ∈ d.added ↔ f ∈ G.F (k + 1) ∧ f ∉ G.F k) ∧ (∀ f, f ∈ d.deleted ↔ f ∈ G.F k ∧ f ∉ G.F (k + 1))

structure Env.WF (G : Env) : Prop where
  nodup : ∀ k, (G.F k).Nodup
  first : G.F 0 = []
  nd_lt : G.nd < G.n ∨ (G.n = 0 ∧ G.nd = 0)
  delta : ∀ k, k < G.nd → NodupDelta (G.D k) ∧ ExactDelta G k (G.D k)
  rel_lt : ∀ k ∈ G.rel, k < G.nd
  /-- a table that left the version never comes back (file numbers are not reused for installed tables) -/
  mono : ∀ f j k l, j < k → k < l → f ∈ G.F j → f ∉ G.F k → f ∉ G.F l

/-- What the environment may send next. -/
inductive EnvStep : Env → Msg → Env → Prop
  /-- `version.incref` of a new version: ids are consecutive, `ref v` precedes everything else about `v`;
  the first version of a session is empty -/
  | ref (G : Env) (fs : List Nat) : fs.Nodup → (G.n = 0 → fs = []) →
      (∀ f ∈ fs, ∀ j k, j < k → k < G.n → f ∈ G.F j → f ∈ G.F k) →
      EnvStep G (.ref G.n fs) { G with vs := G.vs ++ [fs] }
  /-- `setVersion`: the delta of the oldest version whose delta is still missing, once its successor exists -/
  | delta (G : Env) (d : Delta) : G.nd + 1 < G.n → NodupDelta d → ExactDelta G G.nd d →
      EnvStep G (.delta G.nd d) { G with ds := G.ds ++ [d] }
  /-- `version.releaseNB`: after `ref k`, after its delta was sent, once -/
  | rel (G : Env) (k : Nat) : k < G.nd → k ∉ G.rel →
      EnvStep G (.rel k (G.F k)) { G with rel := k :: G.rel }
  | expire (G : Env) (v : Nat) : EnvStep G (.expire v) G

@[simp] theorem F_mk_vs (G : Env) (ds : List Delta) (rel : List Nat) (k : Nat) :
    (Env.mk G.vs ds rel).F k = G.F k := rfl
@[simp] theorem n_mk_vs (G : Env) (ds : List Delta) (rel : List Nat) : (Env.mk G.vs ds rel).n = G.n := rfl
@[simp] theorem nd_mk_ds (G : Env) (vs : List (List Nat)) (rel : List Nat) : (Env.mk vs G.ds rel).nd = G.nd := rfl
@[simp] theorem D_mk_ds (G : Env) (vs : List (List Nat)) (rel : List Nat) (k : Nat) :
    (Env.mk vs G.ds rel).D k = G.D k := rfl
@[simp] theorem rel_mk (vs : List (List Nat)) (ds : List Delta) (rel : List Nat) : (Env.mk vs ds rel).rel = rel := rfl

theorem F_append_lt {G : Env} {fs : List Nat} {k : Nat} (h : k < G.n) :
    ({ G with vs := G.vs ++ [fs] } : Env).F k = G.F k := by
  simp only [Env.F, Env.n] at *
  rw [List.getD_eq_getElem?_getD, List.getD_eq_getElem?_getD, List.getElem?_append_left h]

theorem F_append_eq {G : Env} {fs : List Nat} :
    ({ G with vs := G.vs ++ [fs] } : Env).F G.n = fs := by
  simp [Env.F, Env.n, List.getD_eq_getElem?_getD]

theorem F_ge {G : Env} {k : Nat} (h : G.n ≤ k) : G.F k = [] := by
  simp only [Env.F, Env.n] at *
  rw [List.getD_eq_getElem?_getD, List.getElem?_eq_none h]; rfl

theorem D_append_lt {G : Env} {d : Delta} {k : Nat} (h : k < G.nd) :
    ({ G with ds := G.ds ++ [d] } : Env).D k = G.D k := by
  simp only [Env.D, Env.nd] at *
  rw [List.getD_eq_getElem?_getD, List.getD_eq_getElem?_getD, List.getElem?_append_left h]

theorem D_append_eq {G : Env} {d : Delta} :
    ({ G with ds := G.ds ++ [d] } : Env).D G.nd = d := by
  simp [Env.D, Env.nd, List.getD_eq_getElem?_getD]

/-- The environment keeps its well-formedness. -/
theorem wf_step {G G' : Env} {m : Msg} (h : G.WF) (hs : EnvStep G m G') : G'.WF := by
  cases hs with
  | ref fs hnd hfirst hmono =>
    have hF : ∀ k, ({ G with vs := G.vs ++ [fs] } : Env).F k =
        if k < G.n then G.F k else if k = G.n then fs else [] := by
      intro k
      by_cases h1 : k < G.n
      · simp [h1, F_append_lt h1]
      · by_cases h2 : k = G.n
        · subst h2; simp [F_append_eq]
        · simp only [h1, h2, if_false]
          apply F_ge; simp only [Env.n, List.length_append, List.length_singleton] at *; omega
    refine ⟨?_, ?_, ?_, ?_, h.rel_lt, ?_⟩
    · intro k; rw [hF]; split
      · exact h.nodup k
      · split
        · exact hnd
        · exact List.nodup_nil
    · rw [hF]; split
      · exact h.first
      · rename_i h0
        have : G.n = 0 := by omega
        simp [this, hfirst this]
    · left; have := h.nd_lt; simp only [Env.n, Env.nd, List.length_append, List.length_singleton] at *; omega
    · intro k hk
      have hk' : k < G.nd := hk
      have hlt : k + 1 < G.n := by rcases h.nd_lt with h1 | h1 <;> omega
      obtain ⟨h1, h2, h3⟩ := h.delta k hk'
      refine ⟨h1, ?_, ?_⟩
      · intro f; rw [hF, hF]; simp only [hlt, (by omega : k < G.n), if_true]; exact h2 f
      · intro f; rw [hF, hF]; simp only [hlt, (by omega : k < G.n), if_true]; exact h3 f
    · intro f j k l hjk hkl hj hk
      rw [hF] at hj hk ⊢
      by_cases hl : l < G.n
      · simp only [hl, (by omega : j < G.n), (by omega : k < G.n), if_true] at hj hk ⊢
        exact h.mono f j k l hjk hkl hj hk
      · by_cases hl2 : l = G.n
        · subst hl2
          simp only [Nat.lt_irrefl, if_false, if_true, (by omega : j < G.n), hkl] at hj hk ⊢
          intro hf
          exact hk (hmono f hf j k hjk hkl hj)
        · simp [hl, hl2]
  | delta d hlt hnd hex =>
    refine ⟨h.nodup, h.first, ?_, ?_, ?_, h.mono⟩
    · left; simp [Env.n, Env.nd] at *; omega
    · intro k hk
      simp only [Env.nd, List.length_append, List.length_singleton] at hk
      by_cases hk' : k < G.nd
      · rw [D_append_lt hk']; exact h.delta k hk'
      · have : k = G.nd := by simp only [Env.nd] at *; omega
        subst this
        rw [D_append_eq]; exact ⟨hnd, hex⟩
    · intro k hk
      have := h.rel_lt k hk
      simp [Env.nd] at *; omega
  | rel k hk hnot =>
    refine ⟨h.nodup, h.first, h.nd_lt, h.delta, ?_, h.mono⟩
    intro j hj
    rcases List.mem_cons.mp hj with rfl | hj
    · exact hk
    · exact h.rel_lt j hj
  | expire v => exact h

/-- The invariant tying the loop's variables to the history. -/
structure Inv (S : State) (G : Env) : Prop where
  wf : G.WF
  ab : S.abandoned = []
  nx : S.next ≤ G.n
  last : S.last + 1 = G.n ∨ (G.n = 0 ∧ S.last = 0)
  ref : ∀ k, S.ref.lookup k = if S.next ≤ k ∧ k < G.n ∧ k ∉ G.rel then some (G.F k) else none
  rld : ∀ k, S.released.lookup k = if S.next ≤ k ∧ k ∈ G.rel then some (some (G.D k)) else none
  dl : ∀ k, S.deltas.lookup k = if S.next ≤ k ∧ k < G.nd ∧ k ∉ G.rel then some (G.D k) else none
  rfd : S.referenced.Nodup ∧ ∀ k, k ∈ S.referenced ↔ k < S.next ∧ k ∉ G.rel
  /-- the counters: the base version (the oldest version whose delta has not been applied) plus one reference
  per version converted to full references and not yet released -/
  cnt : ∀ f, S.fileRef.count f =
    (if f ∈ G.F (min G.nd S.next) then 1 else 0) + (S.referenced.filter (fun k => decide (f ∈ G.F k))).length

theorem inv_init : Inv State.init Env.init := by
  refine ⟨⟨?_, rfl, Or.inr ⟨rfl, rfl⟩, ?_, ?_, ?_⟩, rfl, Nat.le_refl _, Or.inr ⟨rfl, rfl⟩, ?_, ?_, ?_, ?_, ?_⟩
  · intro k; simp [Env.F, Env.init]
  · intro k hk; simp [Env.nd, Env.init] at hk
  · intro k hk; simp [Env.init] at hk
  · intro f j k l _ _ hj; simp [Env.F, Env.init] at hj
  · intro k; simp [State.init, Env.n, Env.init]
  · intro k; simp [State.init, Env.init]
  · intro k; simp [State.init, Env.nd, Env.init]
  · simp [State.init, Env.init]
  · intro f; simp [State.init, Env.F, Env.init]

end GoLevel.RefLoop
