import GoLevel.Proofs.DurableStepEq
/-!
Job steps, part 5: `flushManifest` — `append` (without rotation) and `sync`.
-/
namespace GoLevel.Dur

theorem Inv.mfd {cfg : Cfg} {s : St} {d : Disk} (h : Inv cfg s d) {j : Job} (hj : s.job = some j) : MfdOK s d := by
  rcases hp : s.phase with _ | _ | _
  · exact absurd hp (h.not_crashed hj)
  · have := h.recov hp
    rw [holds_iff] at this
    obtain ⟨r, _, hr⟩ := this
    exact hr.mfd
  · exact (h.run hp).mfd.1

/-- once a job's edit is in the manifest there is no ghost edit -/
theorem Inv.limbo_none_of_post {cfg : Cfg} {s : St} {d : Disk} (h : Inv cfg s d) {j : Job} (hj : s.job = some j)
    {e : MRec} (he : j.edit = some e) (hbc : j.pc.beforeCommit = false) : s.limbo = none := by
  rcases hp : s.phase with _ | _ | _
  · exact (h.crashed hp).2.2.2.2
  · exact h.limbo_none_of_recovering (by rw [hp]; decide)
  · have hl := (h.run hp).limbo
    unfold LimboOK at hl
    cases hu : s.limbo with
    | none => rfl
    | some u =>
      rw [hu] at hl
      have := (hl : LimboFacts s d u).2.2.2.2.2.2.1
      rw [hj] at this
      rcases (this : j.edit = none ∨ j.pc.beforeCommit = true) with h1 | h1
      · rw [he] at h1; cases h1
      · rw [hbc] at h1; cases h1

theorem LimboOK.of_none {s : St} {d : Disk} (h : s.limbo = none) : LimboOK s d := by
  unfold LimboOK; rw [h]; trivial

theorem MfdOK.fd {s : St} {d : Disk} (h : MfdOK s d) {j : Job} (hj : s.job = some j) (hpc : ∀ m, j.pc ≠ .rotRemove m)
    (hl : s.limbo = none) : s.manifestFd = d.current := by
  unfold MfdOK at h
  rw [hj] at h
  simp only [Option.map_some] at h
  split at h
  · rename_i m hm; exact absurd (Option.some.inj hm) (hpc m)
  · rcases h with h | h
    · exact h
    · rw [hl] at h; exact absurd h.1 (by simp)

theorem MfdOK.of_fd {s : St} {d : Disk} {j : Job} (hj : s.job = some j) (hpc : ∀ m, j.pc ≠ .rotRemove m)
    (h : s.manifestFd = d.current) : MfdOK s d := by
  unfold MfdOK
  rw [hj]
  simp only [Option.map_some]
  split
  · rename_i m hm; exact absurd (Option.some.inj hm) (hpc m)
  · exact Or.inl h

theorem Inv.cur_lt {cfg : Cfg} {s : St} {d : Disk} (h : Inv cfg s d) {j : Job} (hj : s.job = some j) :
    Holds d.current (· < s.nextFile) := by
  rcases hp : s.phase with _ | _ | _
  · exact absurd hp (h.not_crashed hj)
  · have := h.recov hp
    rw [holds_iff] at this
    obtain ⟨r, _, hr⟩ := this
    exact hr.nums.2.1
  · exact (h.run hp).nums.2

/-- the groups of the output tables as the storage holds them -/
theorem added_grps_eq {d : Disk} {outs : List (Nat × List Grp)}
    (h : ∀ o ∈ outs, lookup d.tables o.1 = some ⟨o.2, true, false⟩) :
    (outs.map (·.1)).flatMap (tableGrpsOf d) = outs.flatMap (·.2) := by
  induction outs with
  | nil => rfl
  | cons o os ih =>
    simp only [List.map_cons, List.flatMap_cons]
    rw [ih (fun o' ho' => h o' (List.mem_cons_of_mem _ ho'))]
    congr 1
    unfold tableGrpsOf
    rw [h o List.mem_cons_self]
    rfl

theorem inv_job_append_normal {cfg : Cfg} (hg : cfg.Good) {s : St} {d : Disk} (h : Inv cfg s d) {j : Job}
    (hj : s.job = some j) (hpc : j.pc = .append) (hopen : s.manifestOpen = true) (hmfl : s.manifestFailed = false)
    {s' : St} {d' : Disk} (hs : stepJob cfg s d j false .ok = some (s', d')) : Inv cfg s' d' := by
  have hok := h.job
  rw [hj] at hok
  have hok : JobOK cfg s d j := hok
  have hnr : ∀ m, j.pc ≠ .rotRemove m := by rw [hpc]; intro m hm; cases hm
  have hl : s.limbo = none := h.limbo_none (fun _ => hmfl)
  have hfd := (h.mfd hj).fd hj hnr hl
  cases he : j.edit with
  | none => simp [stepJob, hpc, he] at hs
  | some e =>
    cases hm : s.manifestFd with
    | none => simp [stepJob, hpc, he, hopen, hm, hmfl] at hs
    | some m =>
      rw [stepJob_append_normal hg hpc he hopen hm hmfl] at hs
      simp only [Option.some.injEq, Prod.mk.injEq] at hs
      obtain ⟨rfl, rfl⟩ := hs
      have hc : d.current = some m := by rw [← hfd, hm]
      have hbc : j.pc.beforeCommit = true := by rw [hpc]; rfl
      have hlate : j.pc ≠ .mkJournal ∧ j.pc.tablesDone = true := by rw [hpc]; exact ⟨(by intro x; cases x), rfl⟩
      obtain ⟨mf, v0, v, hparts, hlv, hvl, hed, hvok', hmono'⟩ := h.commit_view hj he hbc hlate hl
      have hcur := hparts.cur
      have hph := h.not_crashed hj
      have hb := h.bounds hph
      -- the manifest is settled and mirrored
      have hman := hok.manifest
      unfold JobManifestOK at hman
      rw [he] at hman
      simp only [hpc, JobManifest] at hman
      unfold Settled at hman
      obtain ⟨hun, hmir⟩ := holds_some hman hcur
      have hun := hun hopen hl
      rw [hlv] at hmir
      have hmir : Mirror s v := (MirrorL.of_none hl).1 hmir
      let e' : MRec := { e with nf := s.nextFile }
      have htorn : e'.torn = false := hed.shape.2.1
      have hstep : ((replayM cfg mf.all).step cfg e').view? =
          some ⟨applyEdit v.live e, e.jn.getD v.jn, e.sq.getD v.sq, s.nextFile⟩ := by
        rw [viewAt_all] at hvl
        exact view_step hvl e' htorn
      let j' : Job := { j with pc := .sync }
      have hdisk : DiskOK cfg { d with manifests := d.manifests.modify m (·.append e') } (must s) (issuedGrps s) := by
        apply h.disk.manifest_append hc e'
        intro mf1 v01 hc1 hv01
        rw [hcur] at hc1; cases hc1
        rw [hparts.hv0] at hv01; cases hv01
        exact ⟨_, hstep, hvok', hmono'⟩
      have hlv' : lastView cfg { d with manifests := d.manifests.modify m (·.append e') } =
          some ⟨applyEdit v.live e, e.jn.getD v.jn, e.sq.getD v.sq, s.nextFile⟩ := by
        unfold lastView
        rw [curManifest_modify hc, hcur]
        simp only [Option.map_some, Option.bind_some]
        have : (mf.append e').unsynced.length = mf.unsynced.length + 1 := by simp [LogFile.append]
        rw [this, viewAt_append_last]
        exact hstep
      have hmfd' : MfdOK { s with job := some j' } { d with manifests := d.manifests.modify m (·.append e') } :=
        MfdOK.of_fd (j := j') rfl (by intro x hx; cases hx) hfd
      have hjn : v.jn ≤ e.jn.getD v.jn := hed.mono.1
      constructor
      · exact hdisk
      · apply h.mm.append hc e'
        intro mf1 hc1
        rw [hcur] at hc1; cases hc1
        rw [hvl, hstep]
        simp only [Holds]
        have hcl := h.cur_lt hj
        rw [hc] at hcl
        exact ⟨hcl, hed.mono.2.1, (hb.all mf hcur _ (Nat.le_refl _) v hvl).2.1⟩
      · intro _
        apply ViewBounds.append (s' := { s with job := some j' }) hb hc e'
          ⟨h.seqHi_step hj rfl rfl rfl rfl (fun hb' => nomatch hb'), rfl, rfl, rfl⟩
        intro mf1 hc1
        rw [hcur] at hc1; cases hc1
        rw [hstep, seqHi_post (s := { s with job := some j' }) (j := j') rfl rfl]
        exact ⟨hed.mono.2.2.1, Nat.le_refl _, hed.mono.2.2.2.1⟩
      · intro hr
        have hrun := h.run hr
        rw [goto_eq]
        apply RunOK.job_step (d' := { d with manifests := d.manifests.modify m (·.append e') }) hrun j' s.nextFile
          s.live s.stJn s.stSq s.manifestFd s.manifestOpen (Nat.le_refl _) rfl
          ⟨hmfd', hrun.mfd.2⟩ hrun.nums.2 (fun _ _ => ⟨by
            unfold FlushPending
            rw [hj]
            exact fun _ => JPc.uninstalled_of_bc hbc, rfl, rfl⟩)
        · rw [curManifest_modify hc, hcur]
          simp only [Option.map_some, Holds]
          rw [viewAt_append_le cfg mf e' (Nat.zero_le _), hparts.hv0]
          simp only [hparts.hv0, Nat.le_refl]
        · exact LimboOK.of_none hl
      · intro hr
        have hrec := h.recov hr
        rw [holds_iff] at hrec
        obtain ⟨r, hrs, hrr⟩ := hrec
        refine holds_of_some (o := s.recov) hrs ?_
        rw [goto_eq]
        apply RecOK.job_step (d' := { d with manifests := d.manifests.modify m (·.append e') }) hrr j' s.nextFile
          s.live s.stJn s.stSq s.manifestFd s.manifestOpen (Nat.le_refl _) rfl
          hmfd' hrr.nums.2.1 (fun hb' => by cases hb')
        · rw [hlv', hlv]
          exact hjn
        · rw [hlv']
          simp only [Holds]
          rw [hok.jn_getD (by rw [hr]; decide) he]
          exact h.todo_ge_edit hj he hrs hr
      · intro hcr; exact absurd hcr hph
      · show JobOK cfg _ _ j'
        rw [goto_eq]
        apply JobOK.late_next (d' := { d with manifests := d.manifests.modify m (·.append e') }) hok hlate j'
          ⟨rfl, rfl, rfl, rfl, rfl⟩ ⟨(by intro x; cases x), rfl⟩ s.nextFile s.live s.stJn
          s.stSq s.manifestFd s.manifestOpen (Nat.le_refl _) rfl (fun _ => rfl) hok.one.2
        · unfold JobManifestOK
          show match j.edit with
            | some e => JobManifest cfg _ _ e .sync
            | none => _
          rw [he]
          simp only [JobManifest]
          refine ⟨hopen, ?_, ?_, ?_⟩
          · rw [curManifest_modify hc, hcur]
            simp only [Option.map_some, Holds]
            refine ⟨by
              simp only [LogFile.append, hun, List.nil_append, List.head?_cons, Holds]
              exact ⟨rfl, Nat.le_refl _⟩, ?_⟩
            rw [viewAt_append_le cfg mf e' (Nat.zero_le _)]
            have : viewAt cfg mf 0 = some v := by
              have := hvl; rw [hun] at this; exact this
            rw [this]
            refine ⟨hmir, fun a ha => ?_⟩
            rw [hed.shape.1] at ha
            obtain ⟨o, ho, rfl⟩ := List.mem_map.1 ha
            exact (hed.fresh o ho).1
          · show s.stSq ≤ e.sq.getD s.stSq
            rw [← hmir.2.2]
            exact hed.mono.2.1
          · intro hjn hsq
            have hin := hok.inputs
            rw [he] at hin
            have hin : InputsOK s d j e := hin
            unfold InputsOK at hin
            split at hin
            · obtain ⟨f1, f2⟩ := hin.2.2.2.2 hbc
              refine ⟨f1, ?_⟩
              show e.added.flatMap (tableGrpsOf d) = e.deleted.flatMap (tableGrpsOf d)
              rw [← f2, hed.shape.1]
              exact added_grps_eq (hok.outs_on_disk hbc hlate.2)
            · rw [hsq] at hin
              exact absurd hin.2.2 (by simp)
        · intro hb'; cases hb'
        · rw [hlv']
          simp only [Holds]
          exact late_not_rm (j := j') ⟨(by intro l x; cases x), (by intro l x; cases x), (by intro l x; cases x)⟩
        · intro hn; rw [he] at hn; cases hn
        · exact fun _ => rfl
        · exact fun _ => rfl
        · intro _
          rw [hlv']
          intro o ho
          refine ⟨mem_applyEdit.2 (Or.inr ?_), hok.outs_on_disk hbc hlate.2 o ho⟩
          rw [hed.shape.1]
          exact List.mem_map.2 ⟨o, ho, rfl⟩


/-- `ViewBounds` after `Sync` of the current manifest -/
theorem ViewBounds.sync {cfg : Cfg} {s s' : St} {d : Disk} {m : Nat} (h : ViewBounds cfg s d) (hc : d.current = some m)
    (hs : seqHi s ≤ seqHi s' ∧ s'.nextFile = s.nextFile ∧ s'.phase = s.phase ∧ s'.jcur = s.jcur) :
    ViewBounds cfg s' { d with manifests := d.manifests.modify m (·.sync) } := by
  unfold ViewBounds at h ⊢
  rw [curManifest_modify hc]
  obtain ⟨e1, e2, e3, e4⟩ := hs
  cases hcm : curManifest d with
  | none => rw [hcm] at h; exact h
  | some mf =>
    rw [hcm] at h
    simp only [Option.map_some, Holds] at h ⊢
    intro k hk
    have : k = 0 := by simpa [LogFile.sync] using hk
    subst this
    rw [viewAt_sync, e2, e3, e4]
    have hh : Holds (viewAt cfg mf mf.unsynced.length) fun v =>
        v.sq ≤ seqHi s ∧ v.nf ≤ s.nextFile ∧ (s.phase = .running → v.jn ≤ s.jcur) := h _ (Nat.le_refl _)
    exact hh.imp (fun v hv => ⟨Nat.le_trans hv.1 e1, hv.2⟩)


/-- a job that is not removing has an edit -/
theorem JobOK.edit_some {cfg : Cfg} {s : St} {d : Disk} {j : Job} (h : JobOK cfg s d j) (hp : j.pc.post = false) :
    ∃ e, j.edit = some e := by
  cases he : j.edit with
  | some e => exact ⟨e, rfl⟩
  | none => have := h.noedit he; rw [hp] at this; cases this

theorem inv_job_sync {cfg : Cfg} {s : St} {d : Disk} (h : Inv cfg s d) {j : Job}
    (hj : s.job = some j) (hpc : j.pc = .sync) {rot : Bool} {s' : St} {d' : Disk}
    (hs : stepJob cfg s d j rot .ok = some (s', d')) : Inv cfg s' d' := by
  have hok := h.job
  rw [hj] at hok
  have hok : JobOK cfg s d j := hok
  have hnr : ∀ m, j.pc ≠ .rotRemove m := by rw [hpc]; intro m hm; cases hm
  obtain ⟨e, he⟩ := hok.edit_some (by rw [hpc]; rfl)
  have hl : s.limbo = none := h.limbo_none_of_post hj he (by rw [hpc]; rfl)
  have hfd := (h.mfd hj).fd hj hnr hl
  obtain ⟨mf, v0, v, hparts, hlv, hvl, hvok, hmono⟩ := h.disk.last
  have hcur := hparts.cur
  have hcm := hcur
  unfold curManifest at hcm
  cases hc : d.current with
  | none => rw [hc] at hcm; simp at hcm
  | some m =>
    have hm : s.manifestFd = some m := by rw [hfd, hc]
    rw [stepJob_sync hpc hm] at hs
    simp only [Option.some.injEq, Prod.mk.injEq] at hs
    obtain ⟨rfl, rfl⟩ := hs
    have hph := h.not_crashed hj
    have hb := h.bounds hph
    -- the manifest clause at `sync`
    have hman := hok.manifest
    unfold JobManifestOK at hman
    rw [he] at hman
    simp only [hpc, JobManifest] at hman
    obtain ⟨hopen, hman, _, _⟩ := hman
    obtain ⟨hun, hmir0⟩ := holds_some hman hcur
    rw [hparts.hv0] at hmir0
    obtain ⟨hmir0, _⟩ : Mirror s v0 ∧ ∀ a ∈ e.added, v0.nf ≤ a := hmir0
    rw [holds_iff] at hun
    obtain ⟨r0, _, hun, _⟩ := hun
    let e' : MRec := { e with nf := r0.nf }
    have htorn : e.torn = false := by have := hok.shape; rw [he] at this; exact this.2.1
    -- the last view is the mirrored view extended by the edit
    have hv_eq : v = ⟨applyEdit v0.live e, e.jn.getD v0.jn, e.sq.getD v0.sq, r0.nf⟩ := by
      have h0 := hparts.hv0
      unfold viewAt at h0 hvl
      simp only [List.take_zero, List.append_nil] at h0
      rw [hun] at hvl
      simp only [List.length_singleton, List.take_succ_cons, List.take_zero] at hvl
      rw [replayM_snoc, view_step h0 e' htorn] at hvl
      exact (Option.some.inj hvl).symm
    let j' : Job := { j with pc := .install }
    let d1 : Disk := { d with manifests := d.manifests.modify m (·.sync) }
    have hlv' : lastView cfg d1 = some v := by
      unfold lastView
      show (curManifest { d with manifests := d.manifests.modify m (·.sync) }).bind _ = _
      rw [curManifest_modify hc, hcur]
      simp only [Option.map_some, Option.bind_some]
      have : mf.sync.unsynced.length = 0 := by simp [LogFile.sync]
      rw [this, viewAt_sync]
      exact hvl
    have hmfd' : MfdOK { s with job := some j' } d1 := MfdOK.of_fd (j := j') rfl (by intro x hx; cases hx) hfd
    constructor
    · exact h.disk.manifest_sync hc
    · exact h.mm.sync hc ⟨_, _, h.disk⟩
    · intro _
      exact ViewBounds.sync (s' := { s with job := some j' }) hb hc
        ⟨h.seqHi_step hj rfl rfl rfl rfl (fun hb' => nomatch hb'), rfl, rfl, rfl⟩
    · intro hr
      have hrun := h.run hr
      rw [goto_eq]
      apply RunOK.job_step (d' := d1) hrun j' s.nextFile s.live s.stJn s.stSq s.manifestFd s.manifestOpen
        (Nat.le_refl _) rfl ⟨hmfd', hrun.mfd.2⟩ hrun.nums.2
        (hrun.hnc_post (j' := j') hok hj hr rfl rfl (fun _ => ⟨rfl, rfl⟩))
      · show Holds (curManifest { d with manifests := d.manifests.modify m (·.sync) }) _
        rw [curManifest_modify hc, hcur]
        simp only [Option.map_some, Holds]
        rw [viewAt_sync, hvl]
        simp only [hparts.hv0]
        exact hmono
      · exact LimboOK.of_none hl
    · intro hr
      have hrec := h.recov hr
      refine hrec.imp (fun r hrr => ?_)
      rw [goto_eq]
      apply RecOK.job_step (d' := d1) hrr j' s.nextFile s.live s.stJn s.stSq s.manifestFd s.manifestOpen
        (Nat.le_refl _) rfl hmfd' hrr.nums.2.1 (fun hb' => by cases hb')
      · rw [hlv', hlv]
        exact Nat.le_refl _
      · rw [hlv', ← hlv]
        exact hrr.rel.imp (fun v hv => hv.2)
    · intro hcr; exact absurd hcr hph
    · show JobOK cfg _ _ j'
      rw [goto_eq]
      apply JobOK.late_next (d' := d1) hok (by rw [hpc]; exact ⟨(by intro x; cases x), rfl⟩) j'
        ⟨rfl, rfl, rfl, rfl, rfl⟩ ⟨(by intro x; cases x), rfl⟩ s.nextFile s.live s.stJn
        s.stSq s.manifestFd s.manifestOpen (Nat.le_refl _) rfl (fun _ => rfl) hok.one.2
      · unfold JobManifestOK
        show match j.edit with
          | some e => JobManifest cfg _ _ e .install
          | none => _
        rw [he]
        simp only [JobManifest]
        refine ⟨hopen, ?_⟩
        unfold Settled
        show Holds (curManifest { d with manifests := d.manifests.modify m (·.sync) }) _
        rw [curManifest_modify hc, hcur]
        simp only [Option.map_some, Holds]
        refine ⟨fun _ => by simp [LogFile.sync], ?_⟩
        rw [hlv', hv_eq]
        obtain ⟨m1, m2, m3⟩ := hmir0
        exact ⟨by show applyEdit v0.live e = applyEdit s.live e; rw [m1],
          by show e.jn.getD v0.jn = e.jn.getD s.stJn; rw [m2],
          by show e.sq.getD v0.sq = e.sq.getD s.stSq; rw [m3]⟩
      · intro hb'; cases hb'
      · rw [hlv']
        simp only [Holds]
        exact late_not_rm (j := j') ⟨(by intro l x; cases x), (by intro l x; cases x), (by intro l x; cases x)⟩
      · intro hn; rw [he] at hn; cases hn
      · exact fun _ => rfl
      · exact fun _ => rfl
      · intro _
        have := hok.committed (by rw [hpc]; rfl)
        rw [hlv] at this
        rw [hlv']
        exact this

end GoLevel.Dur
