import GoLevel.Model.Table
import GoLevel.Proofs.TableAux
import GoLevel.Proofs.Block
/-! C13(f), filter-block level: which keys end up in which filter, and what `filterBlock.contains` looks at. -/
namespace GoLevel.C13
open GoLevel GoLevel.TableAux FilterWriter

/-- the bytes one `generate` call adds for the key list `ks` -/
def segBytes (pol : FilterPolicy) (ks : List Bytes) : Bytes := if ks.isEmpty then [] else pol.generate ks

def flat (pol : FilterPolicy) (segs : List (List Bytes)) : Bytes := (segs.map (segBytes pol)).flatten

/-- start offsets of the segments, the first one at `base` -/
def offs (pol : FilterPolicy) : List (List Bytes) → Nat → List Nat
  | [], _ => []
  | s :: rest, base => base :: offs pol rest (base + (segBytes pol s).length)

theorem flat_snoc (pol : FilterPolicy) (segs : List (List Bytes)) (s : List Bytes) :
    flat pol (segs ++ [s]) = flat pol segs ++ segBytes pol s := by
  simp [flat]

theorem offs_snoc (pol : FilterPolicy) (segs : List (List Bytes)) (s : List Bytes) : ∀ base,
    offs pol (segs ++ [s]) base = offs pol segs base ++ [base + (flat pol segs).length] := by
  induction segs with
  | nil => intro base; simp [offs, flat]
  | cons a t ih =>
    intro base
    simp only [List.cons_append, offs, ih, flat, List.map_cons, List.flatten_cons, List.length_append, Nat.add_assoc]

theorem offs_length (pol : FilterPolicy) (segs : List (List Bytes)) : ∀ base, (offs pol segs base).length = segs.length := by
  induction segs with
  | nil => intro base; rfl
  | cons a t ih => intro base; simp [offs, ih]

/-- the writer state described by the inputs `segs` of the `generate` calls made so far -/
structure FState (pol : FilterPolicy) (w : FilterWriter) (segs : List (List Bytes)) : Prop where
  buf : w.buf = flat pol segs
  offsets : w.offsets = offs pol segs 0

theorem FState.new (pol : FilterPolicy) : FState pol {} [] := ⟨rfl, rfl⟩

theorem FState.add {pol : FilterPolicy} {w : FilterWriter} {segs : List (List Bytes)} (h : FState pol w segs)
    (k : Bytes) : FState pol (w.add k) segs := ⟨h.buf, h.offsets⟩

theorem FState.generate {pol : FilterPolicy} {w : FilterWriter} {segs : List (List Bytes)} (h : FState pol w segs) :
    FState pol (generate pol w) (segs ++ [w.pending]) ∧ (generate pol w).pending = [] := by
  refine ⟨⟨?_, ?_⟩, rfl⟩
  · simp only [FilterWriter.generate, flat_snoc, segBytes, h.buf]
    split <;> simp
  · simp only [FilterWriter.generate, offs_snoc, h.offsets, h.buf, Nat.zero_add]

/-- ghost version of `generateN` -/
def segsAfterN (segs : List (List Bytes)) (pend : List Bytes) : Nat → List (List Bytes)
  | 0 => segs
  | n + 1 => (segs ++ [pend]) ++ List.replicate n []

theorem FState.generateN {pol : FilterPolicy} : ∀ (n : Nat) {w : FilterWriter} {segs : List (List Bytes)},
    FState pol w segs →
    FState pol (generateN pol n w) (segsAfterN segs w.pending n) ∧
      (generateN pol n w).pending = (if n = 0 then w.pending else []) := by
  intro n
  induction n with
  | zero => intro w segs h; exact ⟨h, rfl⟩
  | succ n ih =>
    intro w segs h
    obtain ⟨h1, hp1⟩ := h.generate
    obtain ⟨h2, hp2⟩ := ih h1
    simp only [FilterWriter.generateN]
    refine ⟨?_, by rw [hp2, hp1]; simp⟩
    cases n with
    | zero => simpa [segsAfterN] using h2
    | succ m =>
      rw [hp1] at h2
      simpa [segsAfterN, List.replicate_succ] using h2

/-- one data block as the filter writer sees it: `add` for every key, then `flush(end offset)`
(`Writer.Append`* … `Writer.finishBlock`) -/
def feedBlock (pol : FilterPolicy) (lg : Nat) (w : FilterWriter) (endOff : Nat) (keys : List Bytes) : FilterWriter :=
  flush pol lg (keys.foldl add w) endOff

theorem foldl_add_pending (keys : List Bytes) : ∀ w : FilterWriter,
    (keys.foldl add w).pending = w.pending ++ keys ∧ (keys.foldl add w).buf = w.buf ∧
      (keys.foldl add w).offsets = w.offsets := by
  induction keys with
  | nil => intro w; simp
  | cons k t ih =>
    intro w
    obtain ⟨h1, h2, h3⟩ := ih (w.add k)
    simp only [List.foldl_cons]
    exact ⟨by rw [h1]; simp [FilterWriter.add], by rw [h2]; rfl, by rw [h3]; rfl⟩

theorem shiftRight_mono (a b lg : Nat) (h : a ≤ b) : a >>> lg ≤ b >>> lg := by
  simp only [Nat.shiftRight_eq_div_pow]
  exact Nat.div_le_div_right h

/-- where the keys of the blocks fed so far are: `hist` lists the blocks as (start offset, keys); `s` is the
start offset of the block being filled -/
structure PInv (pol : FilterPolicy) (lg : Nat) (w : FilterWriter) (s : Nat) (hist : List (Nat × List Bytes))
    (segs : List (List Bytes)) : Prop where
  st : FState pol w segs
  len : segs.length = s >>> lg
  le : ∀ b ∈ hist, b.1 ≤ s
  fwd : ∀ b ∈ hist, ∀ k ∈ b.2, (b.1 >>> lg < segs.length ∧ k ∈ segs.getD (b.1 >>> lg) []) ∨
          (b.1 >>> lg = segs.length ∧ k ∈ w.pending)
  bwd : ∀ f k, k ∈ segs.getD f [] → ∃ b ∈ hist, b.1 >>> lg = f ∧ k ∈ b.2
  bwdP : ∀ k ∈ w.pending, ∃ b ∈ hist, b.1 >>> lg = segs.length ∧ k ∈ b.2

theorem PInv.new (pol : FilterPolicy) (lg : Nat) : PInv pol lg {} 0 [] [] :=
  ⟨FState.new pol, by simp, by simp, by simp, by simp, by simp⟩

theorem getD_append_left' (a b : List (List Bytes)) (f : Nat) (h : f < a.length) :
    (a ++ b).getD f [] = a.getD f [] := by
  simp [List.getD, List.getElem?_append_left h]

theorem getD_segsAfter (segs : List (List Bytes)) (pend : List Bytes) (m f : Nat) :
    (segs ++ [pend] ++ List.replicate m []).getD f [] =
      if f < segs.length then segs.getD f [] else if f = segs.length then pend else [] := by
  by_cases h1 : f < segs.length
  · simp only [h1, if_true, List.append_assoc]
    exact getD_append_left' _ _ f h1
  · simp only [h1, if_false]
    by_cases h2 : f = segs.length
    · subst h2
      simp [List.getD]
    · simp only [h2, if_false]
      simp only [List.getD]
      rw [List.getElem?_append_right (by simp; omega)]
      simp only [List.length_append, List.length_singleton]
      cases hg : (List.replicate m ([] : List Bytes))[f - (segs.length + 1)]? with
      | none => rfl
      | some x =>
        have := List.mem_of_getElem? hg
        simp at this
        simp [this.2]

/-- feeding one block keeps the description -/
theorem PInv.feed {pol : FilterPolicy} {lg : Nat} {w : FilterWriter} {s : Nat} {hist : List (Nat × List Bytes)}
    {segs : List (List Bytes)} (h : PInv pol lg w s hist segs) (e : Nat) (keys : List Bytes) (hse : s ≤ e) :
    ∃ segs', PInv pol lg (feedBlock pol lg w e keys) e (hist ++ [(s, keys)]) segs' := by
  obtain ⟨hp, hb, ho⟩ := foldl_add_pending keys w
  have hst1 : FState pol (keys.foldl add w) segs := ⟨by rw [hb]; exact h.st.buf, by rw [ho]; exact h.st.offsets⟩
  have hol : (keys.foldl add w).offsets.length = segs.length := by rw [hst1.offsets, offs_length]
  have hmono := shiftRight_mono s e lg hse
  unfold feedBlock FilterWriter.flush
  rw [hol]
  obtain ⟨hst2, hp2⟩ := hst1.generateN ((e >>> lg) - segs.length)
  rw [hp] at hst2 hp2
  have hle' : ∀ b ∈ hist ++ [(s, keys)], b.1 ≤ e := by
    intro b hb
    rcases List.mem_append.mp hb with hb | hb
    · exact Nat.le_trans (h.le b hb) hse
    · simp at hb; subst hb; exact hse
  cases hn : (e >>> lg) - segs.length with
  | zero =>
    rw [hn] at hst2 hp2
    simp only [if_true] at hp2
    have hlen : segs.length = e >>> lg := by have := h.len; omega
    refine ⟨segs, hst2, hlen, hle', ?_, ?_, ?_⟩
    · intro b hb k hk
      rw [hp2]
      rcases List.mem_append.mp hb with hb | hb
      · rcases h.fwd b hb k hk with h1 | h1
        · exact Or.inl h1
        · exact Or.inr ⟨h1.1, List.mem_append_left _ h1.2⟩
      · simp at hb; subst hb
        exact Or.inr ⟨h.len.symm, List.mem_append_right _ hk⟩
    · intro f k hk
      obtain ⟨b, hb, h1, h2⟩ := h.bwd f k hk
      exact ⟨b, List.mem_append_left _ hb, h1, h2⟩
    · intro k hk
      rw [hp2] at hk
      rcases List.mem_append.mp hk with hk | hk
      · obtain ⟨b, hb, h1, h2⟩ := h.bwdP k hk
        exact ⟨b, List.mem_append_left _ hb, h1, h2⟩
      · exact ⟨(s, keys), by simp, h.len.symm, hk⟩
  | succ m =>
    rw [hn] at hst2 hp2
    simp only [segsAfterN] at hst2
    have hp3 : (generateN pol (m + 1) (keys.foldl add w)).pending = [] := by simpa using hp2
    refine ⟨segs ++ [w.pending ++ keys] ++ List.replicate m [], hst2, ?_, hle', ?_, ?_, ?_⟩
    · simp only [List.length_append, List.length_singleton, List.length_replicate]; omega
    · intro b hb k hk
      left
      rw [getD_segsAfter]
      simp only [List.length_append, List.length_singleton, List.length_replicate]
      rcases List.mem_append.mp hb with hb | hb
      · rcases h.fwd b hb k hk with h1 | h1
        · exact ⟨by omega, by simp only [h1.1, if_true]; exact h1.2⟩
        · refine ⟨by omega, ?_⟩
          rw [h1.1]
          simp only [Nat.lt_irrefl, if_false, if_true]
          exact List.mem_append_left _ h1.2
      · simp at hb; subst hb
        refine ⟨by have := h.len; simp only; omega, ?_⟩
        simp only [← h.len, Nat.lt_irrefl, if_false, if_true]
        exact List.mem_append_right _ hk
    · intro f k hk
      rw [getD_segsAfter] at hk
      by_cases h1 : f < segs.length
      · simp only [h1, if_true] at hk
        obtain ⟨b, hb, h2, h3⟩ := h.bwd f k hk
        exact ⟨b, List.mem_append_left _ hb, h2, h3⟩
      · simp only [h1, if_false] at hk
        by_cases h2 : f = segs.length
        · simp only [h2, if_true] at hk
          rcases List.mem_append.mp hk with hk | hk
          · obtain ⟨b, hb, h3, h4⟩ := h.bwdP k hk
            exact ⟨b, List.mem_append_left _ hb, by rw [h3, h2], h4⟩
          · exact ⟨(s, keys), by simp, by rw [h2]; exact h.len.symm, hk⟩
        · simp [h2] at hk
    · intro k hk
      rw [hp3] at hk
      simp at hk

/-- all data blocks of a table, as (end offset, keys) -/
def feedAll (pol : FilterPolicy) (lg : Nat) : FilterWriter → List (Nat × List Bytes) → FilterWriter
  | w, [] => w
  | w, (e, ks) :: rest => feedAll pol lg (feedBlock pol lg w e ks) rest

/-- the same blocks as (start offset, keys), the first one starting at `s` -/
def histOf : Nat → List (Nat × List Bytes) → List (Nat × List Bytes)
  | _, [] => []
  | s, (e, ks) :: rest => (s, ks) :: histOf e rest

/-- block end offsets never decrease -/
def MonoEnds : Nat → List (Nat × List Bytes) → Prop
  | _, [] => True
  | s, (e, _) :: rest => s ≤ e ∧ MonoEnds e rest

def lastEnd : Nat → List (Nat × List Bytes) → Nat
  | s, [] => s
  | _, (e, _) :: rest => lastEnd e rest

theorem PInv.feedAll {pol : FilterPolicy} {lg : Nat} : ∀ (bs : List (Nat × List Bytes)) {w : FilterWriter} {s : Nat}
    {hist : List (Nat × List Bytes)} {segs : List (List Bytes)},
    PInv pol lg w s hist segs → MonoEnds s bs →
    ∃ segs', PInv pol lg (feedAll pol lg w bs) (lastEnd s bs) (hist ++ histOf s bs) segs' := by
  intro bs
  induction bs with
  | nil => intro w s hist segs h _; exact ⟨segs, by simpa [C13.feedAll, lastEnd, histOf] using h⟩
  | cons b rest ih =>
    intro w s hist segs h hm
    obtain ⟨e, ks⟩ := b
    obtain ⟨segs1, h1⟩ := h.feed e ks hm.1
    obtain ⟨segs2, h2⟩ := ih h1 hm.2
    exact ⟨segs2, by simpa [C13.feedAll, lastEnd, histOf] using h2⟩

/-- the contents of a filter block holding the filters for the key lists `segs` -/
def filterBlockBytes (pol : FilterPolicy) (lg : Nat) (segs : List (List Bytes)) : Bytes :=
  flat pol segs ++ (offs pol segs 0 ++ [(flat pol segs).length]).flatMap le32 ++ [lg.toUInt8]

/-- C13(f), writer half: after any sequence of blocks with non-decreasing offsets, `finish` emits filters for key
lists `segs` such that the keys added while the data block starting at offset `s` was being filled are in the
list number `s >>> lg`, and every list holds only such keys -/
theorem filter_partition_writer (pol : FilterPolicy) (lg : Nat) (bs : List (Nat × List Bytes)) (hm : MonoEnds 0 bs) :
    ∃ segs, (feedAll pol lg {} bs).finish pol lg = filterBlockBytes pol lg segs ∧
      (∀ b ∈ histOf 0 bs, ∀ k ∈ b.2, b.1 >>> lg < segs.length ∧ k ∈ segs.getD (b.1 >>> lg) []) ∧
      (∀ f k, k ∈ segs.getD f [] → ∃ b ∈ histOf 0 bs, b.1 >>> lg = f ∧ k ∈ b.2) := by
  obtain ⟨segs, h⟩ := (PInv.new pol lg).feedAll bs hm
  simp only [List.nil_append] at h
  generalize feedAll pol lg {} bs = w at h
  by_cases hp : w.pending = []
  · refine ⟨segs, ?_, ?_, h.bwd⟩
    · simp [FilterWriter.finish, hp, filterBlockBytes, h.st.buf, h.st.offsets]
    · intro b hb k hk
      rcases h.fwd b hb k hk with h1 | h1
      · exact h1
      · rw [hp] at h1; simp at h1
  · obtain ⟨hg, _⟩ := h.st.generate
    refine ⟨segs ++ [w.pending], ?_, ?_, ?_⟩
    · have : w.pending.isEmpty = false := by cases hw : w.pending <;> simp_all
      simp only [FilterWriter.finish, this, Bool.false_eq_true, if_false, filterBlockBytes, hg.buf, hg.offsets]
    · intro b hb k hk
      have e : segs ++ [w.pending] = segs ++ [w.pending] ++ List.replicate 0 [] := by simp
      rw [e, getD_segsAfter]
      simp only [List.length_append, List.length_singleton, List.length_replicate]
      rcases h.fwd b hb k hk with h1 | h1
      · exact ⟨by omega, by simp only [h1.1, if_true]; exact h1.2⟩
      · refine ⟨by omega, ?_⟩
        rw [h1.1]; simp only [Nat.lt_irrefl, if_false, if_true]; exact h1.2
    · intro f k hk
      have e : segs ++ [w.pending] = segs ++ [w.pending] ++ List.replicate 0 [] := by simp
      rw [e, getD_segsAfter] at hk
      by_cases h1 : f < segs.length
      · simp only [h1, if_true] at hk; exact h.bwd f k hk
      · simp only [h1, if_false] at hk
        by_cases h2 : f = segs.length
        · simp only [h2, if_true] at hk
          obtain ⟨b, hb, h3, h4⟩ := h.bwdP k hk
          exact ⟨b, hb, by rw [h3, h2], h4⟩
        · simp [h2] at hk

end GoLevel.C13
