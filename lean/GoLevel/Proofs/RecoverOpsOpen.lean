import GoLevel.Proofs.RecoverOpsBasic
/-!
`Recover` at the level of storage operations, part 2: crash images of phases 1 and 2, and what `Open` makes of
the storage once `CURRENT` names the manifest `Recover` wrote.
-/
namespace GoLevel.Dur
open GoLevel

/-! ## crash images -/

theorem crashLog_durable {ρ : Type} (k : Nat) (f : LogFile ρ) (h : f.unsynced = []) : crashLog k f = f := by
  cases f with
  | mk s u => simp only at h; subst h; simp [crashLog]

theorem crashManifest_durable (k : Nat) (torn : Bool) (f : LogFile MRec) (h : f.unsynced = []) :
    crashManifest k torn f = f := by
  unfold crashManifest
  rw [h]
  cases torn <;> simp only [List.drop_nil] <;> exact crashLog_durable k f h

theorem map_snd_id {α : Type} (m : Files α) (F : Nat → α → α) (h : ∀ p ∈ m, F p.1 p.2 = p.2) :
    (m.map fun p => (p.1, F p.1 p.2)) = m := by
  induction m with
  | nil => rfl
  | cons p m ih =>
    rw [List.map_cons, ih (fun q hq => h q (List.mem_cons_of_mem _ hq)), h p List.mem_cons_self]

theorem rcrash_tables (ch : RCrash) (r : RDisk) (h : ∀ p ∈ r.disk.tables, p.2.synced = true) :
    (rcrash ch r).disk.tables = r.disk.tables := by
  show (r.disk.tables.map fun p => (p.1, crashTable (ch.base.keepT p.1) p.2)) = _
  exact map_snd_id _ (fun n t => crashTable (ch.base.keepT n) t) (fun p hp => crashTable_synced _ _ (h p hp))

theorem rcrash_journals (ch : RCrash) (r : RDisk) (h : ∀ p ∈ r.disk.journals, p.2.unsynced = []) :
    (rcrash ch r).disk.journals = r.disk.journals := by
  show (r.disk.journals.map fun p => (p.1, crashLog (ch.base.cutJ p.1) p.2)) = _
  exact map_snd_id _ (fun n f => crashLog (ch.base.cutJ n) f) (fun p hp => crashLog_durable _ _ (h p hp))

/-- a crash takes nothing from a storage whose tables and journals are durable -/
theorem TSame.crash {cfg : RCfg} {r0 r : RDisk} (h : TSame cfg r0 r) (hd : r0.durable) (ch : RCrash) :
    TSame cfg r0 (rcrash ch r) :=
  h.of_eq (rcrash_tables ch r h.tsynced)
    (rcrash_journals ch r (by rw [h.journals]; exact hd.2.1)) rfl

/-- a `Recover` started on `r` reads what one started on `r0` reads -/
theorem TSame.scanIn_eq {cfg : RCfg} {r0 r : RDisk} (h : TSame cfg r0 r) : scanIn cfg r = scanIn cfg r0 := by
  unfold scanIn tableNums journalNums
  rw [h.nums, h.journals]
  congr 1
  exact List.map_congr_left (fun n _ => by rw [h.slot n])

/-! ## `Open` on the manifest `Recover` wrote -/

theorem journalsFrom_zero (d : Disk) : journalsFrom d 0 = journalNums d := by
  unfold journalsFrom journalNums
  congr 1
  exact List.filter_eq_self.2 (fun n _ => by simp)

theorem scanIn_journal_stream (cfg : RCfg) (r : RDisk) :
    (scanIn cfg r).journals.flatMap (·.2) = journalRecs r.disk (journalNums r.disk) := by
  simp only [scanIn, journalRecs, List.flatMap_map]

theorem scanIn_table_ents (cfg : RCfg) (r : RDisk) :
    (scanIn cfg r).tables.flatMap (·.2) = (tableNums r).flatMap (slotEnts cfg r) := by
  simp only [scanIn, List.flatMap_map]

theorem flatMap_filter_ne_nil {α β : Type} (f : α → List β) (l : List α) :
    (l.filter fun a => !(f a).isEmpty).flatMap f = l.flatMap f := by
  induction l with
  | nil => rfl
  | cons a l ih =>
    rw [List.filter_cons]
    by_cases h : (f a).isEmpty = true
    · have : f a = [] := List.isEmpty_iff.1 h
      simp [this, ih]
    · have h' : (f a).isEmpty = false := by cases hh : (f a).isEmpty <;> simp_all
      simp [h', ih]

theorem flatMap_congr' {α β : Type} {f g : α → List β} {l : List α} (h : ∀ a ∈ l, f a = g a) :
    l.flatMap f = l.flatMap g := by
  induction l with
  | nil => rfl
  | cons a l ih =>
    rw [List.flatMap_cons, List.flatMap_cons, h a List.mem_cons_self,
      ih (fun b hb => h b (List.mem_cons_of_mem _ hb))]

/-- the view `session.recover` takes from the one record `newManifest` wrote -/
theorem recoverRec_view (dcfg : Cfg) (m : Nat) (a : TAcc) :
    (replayM dcfg [recoverRec m a]).view? = some ⟨a.added, 0, a.maxSeq, m + 1⟩ := by
  simp [replayM, MAcc.step, recoverRec, MAcc.view?, applyEdit]

/-- **`Open` on `Recover`'s manifest is complete**: once `CURRENT` names manifest `m` and `m` holds the record of
    `recoverTable`, `Open` succeeds and delivers exactly the entries and the sequence number of `Dur.rebuild` -/
theorem open_on_recover_manifest (dcfg : Cfg) {cfg : RCfg} {r0 r : RDisk} (hT : TSame cfg r0 r) {m : Nat}
    {mf : LogFile MRec} (hc : r.disk.current = some m) (hm : lookup r.disk.manifests m = some mf)
    (ha : mf.all = [recoverRec m (tablePhase cfg r0).2]) :
    ∃ rs, recoverR dcfg r.disk = .ok rs ∧ rs.entries = (rebuild (scanIn cfg r0)).entries ∧
      rs.seq = (rebuild (scanIn cfg r0)).seq ∧ rs.mv.live = (tablePhase cfg r0).2.added := by
  obtain ⟨hadd, hmax⟩ := tablePhase_acc cfg r0
  -- the recorded tables are on `r`, readable, with the entries the scan found
  have hkept : ∀ n ∈ (tablePhase cfg r0).2.added,
      Holds (lookup r.disk.tables n) fun tf => tf.synced = true ∧ tf.bad = false := by
    intro n hn
    rw [hadd, List.mem_filter] at hn
    have hne : slotEnts cfg r n ≠ [] := by
      rw [hT.slot n]
      intro e
      have := hn.2
      simp [kept, e] at this
    obtain ⟨t, h1, h2, _, _⟩ := slotEnts_ne_nil hne
    rw [holds_iff]
    exact ⟨t, h1, hT.tsynced _ (lookup_some_mem h1), h2⟩
  have hgrps : ∀ n ∈ (tablePhase cfg r0).2.added, (tableGrpsOf r.disk n).flatMap Grp.ents = slotEnts cfg r0 n := by
    intro n hn
    rw [hadd, List.mem_filter] at hn
    have hne : slotEnts cfg r n ≠ [] := by
      rw [hT.slot n]
      intro e
      have := hn.2
      simp [kept, e] at this
    obtain ⟨t, h1, _, h3, _⟩ := slotEnts_ne_nil hne
    rw [← hT.slot n, ← h3]
    simp [tableGrpsOf, h1]
  have htab : ((tablePhase cfg r0).2.added.flatMap (tableGrpsOf r.disk)).flatMap Grp.ents =
      (scanIn cfg r0).tables.flatMap (·.2) := by
    rw [scanIn_table_ents, List.flatMap_assoc]
    have : (tablePhase cfg r0).2.added.flatMap (fun n => (tableGrpsOf r.disk n).flatMap Grp.ents) =
        (tablePhase cfg r0).2.added.flatMap (slotEnts cfg r0) := by
      exact flatMap_congr' hgrps
    rw [this, hadd]
    exact flatMap_filter_ne_nil (slotEnts cfg r0) (tableNums r0)
  have hjs : journalRecs r.disk (journalNums r.disk) = (scanIn cfg r0).journals.flatMap (·.2) := by
    rw [scanIn_journal_stream]
    unfold journalRecs journalNums
    rw [hT.journals]
  have hseq : (tablePhase cfg r0).2.maxSeq = maxSeqOf ((scanIn cfg r0).tables.flatMap (·.2)) := by
    rw [hmax, scanIn_table_ents]
  have hrec : recoverR dcfg r.disk = .ok
      ⟨⟨(tablePhase cfg r0).2.added, 0, (tablePhase cfg r0).2.maxSeq, m + 1⟩, journalNums r.disk,
       (tablePhase cfg r0).2.added.flatMap (tableGrpsOf r.disk),
       (replayJ (tablePhase cfg r0).2.maxSeq (journalRecs r.disk (journalNums r.disk))).1,
       (replayJ (tablePhase cfg r0).2.maxSeq (journalRecs r.disk (journalNums r.disk))).2⟩ := by
    unfold recoverR
    simp only [hc, hm, ha, recoverRec_view, tableGroups_ok _ hkept, journalsFrom_zero]
  refine ⟨_, hrec, ?_, ?_, ?_⟩
  · simp only [RState.entries, RState.grps, List.flatMap_append, htab, hjs, hseq, rebuild, Rebuilt.entries]
  · simp only [hjs, hseq, rebuild]
  · rfl

end GoLevel.Dur
